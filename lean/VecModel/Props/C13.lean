import VecModel.Lemmas.Heap
/-
  C13 — calls are free of side effects, repeatable, and leave nothing behind.
  The model covers the *glue* that decides it (DESIGN §5 C13): which objects a call mutates
  (heap programs), which paths exist after it returns or raises (file system with a fault at any
  point), and whether earlier `transform` calls can influence later ones (histories).  The
  estimator-wide statement is checked on the implementation by the snapshot monitor in
  harness/c13.py (partial: the heap model covers the listed glue, not every line).
-/
namespace VecModel.Heap

/-- **Frame theorem.** A glue program that mutates only through registers bound by `copy`
(the discipline of the repaired code) leaves every caller-owned object exactly as it was —
for any heap, any argument object, any program length. -/
theorem frame_callerOwned (s0 : St) (prog : List Cmd) (arg : Nat) (o : Obj)
    (harg : s0.reg 0 = some arg) (hobj : s0.heap.get arg = some o) (hlt : arg < s0.heap.next)
    (hd : disciplined [0] [] prog = true) :
    ∀ i, i < s0.heap.next → (run s0 prog).heap.get i = s0.heap.get i := by
  apply run_inv prog s0 [0] [] ?_ hd
  refine ⟨Nat.le_refl _, ?_, ?_, fun _ _ => rfl⟩
  · intro r hr
    have : r = 0 := by simpa using hr
    subst this
    exact ⟨arg, o, harg, hobj, hlt⟩
  · intro r hr; simp at hr

/-- the three repaired glue programs obey the discipline (for every mask string / divisor) -/
theorem maskProgFixed_disciplined (mask : String) : disciplined [0] [] (maskProgFixed mask) = true := by
  simp [maskProgFixed, disciplined]
theorem normaliseProgFixed_disciplined (c : Rat) : disciplined [0] [] (normaliseProgFixed c) = true := by
  simp [normaliseProgFixed, disciplined]
theorem sortProgFixed_disciplined : disciplined [0] [] sortProgFixed = true := by
  simp [sortProgFixed, disciplined]

/-- hence: masking never edits the dictionary object it was given (user's `token_dictionary` at
fit, the fitted dictionary at transform) -/
theorem mask_leaves_caller_dict (s0 : St) (mask : String) (arg : Nat) (o : Obj)
    (harg : s0.reg 0 = some arg) (hobj : s0.heap.get arg = some o) (hlt : arg < s0.heap.next) :
    (run s0 (maskProgFixed mask)).heap.get arg = some o := by
  rw [frame_callerOwned s0 _ arg o harg hobj hlt (maskProgFixed_disciplined mask) arg hlt, hobj]

/-- the old glue is *not* disciplined, and really edits the caller's dictionary -/
example : disciplined [0] [] (maskProgOld "[M]") = false ∧
    disciplined [0] [] (normaliseProgOld 2) = false ∧ disciplined [0] [] sortProgOld = false := by
  decide
example :
    (run (callerState [.dict [("a", 0), ("b", 1)]] 0) (maskProgOld "[M]")).heap.get 0
      = some (.dict [("a", 0), ("b", 1), ("[M]", 2)]) ∧
    (run (callerState [.dict [("a", 0), ("b", 1)]] 0) (maskProgFixed "[M]")).heap.get 0
      = some (.dict [("a", 0), ("b", 1)]) := by
  decide

/-! ### Nothing left behind -/

/-- **Temp files.** The repaired blocked pipeline (`try … finally: rmtree(dir)`) leaves the file
system exactly as it found it — whether it completes or an exception strikes before *any* step
(any fault point, any number of blocks), provided the fresh directory name was unused. -/
theorem fs_clean (d : String) (nBlocks : Nat) (fault : Option Nat) (fs : FS)
    (hfresh : ∀ p ∈ fs.paths, isUnder d p = false) :
    runTryFinally (blockedBody d nBlocks) (blockedCleanup d) fault fs = fs := by
  unfold runTryFinally blockedCleanup
  have hbody : ∀ op ∈ blockedBody d nBlocks, onlyUnder d op = true := by
    intro op hop
    simp only [blockedBody, List.mem_append, List.mem_cons, List.mem_replicate,
      List.not_mem_nil, or_false] at hop
    rcases hop with ((h | h) | h) | h
    · subst h; simp [onlyUnder, isUnder]
    · subst h; simp [onlyUnder, isUnder]
    · rw [h.2]; rfl
    · subst h; rfl
  cases fault with
  | none => exact foldl_rmtree_clean d _ fs hbody hfresh
  | some k =>
    exact foldl_rmtree_clean d _ fs (fun op hop => hbody op (List.mem_of_mem_take hop)) hfresh

/-- the old pipeline leaked: the directory always, the file too when a block failed -/
example : (blockedOld "/tmp/x" 2 none ⟨[]⟩).paths = ["/tmp/x"] ∧
    (blockedOld "/tmp/x" 2 (some 3) ⟨[]⟩).paths = ["/tmp/x/lot_tmp_memmap.dat", "/tmp/x"] := by
  decide

/-! ### Repeatability -/

/-- **Histories.** If `transform` may re-assign private state but only to something
observationally equivalent (`R`), and equivalent states answer equally, then in *any* history of
calls each output equals the output of a single call on the freshly fitted estimator. -/
theorem history_eq_single {S I O : Type} (step : S → I → S × O) (R : S → S → Prop)
    (hout : ∀ s s' i, R s s' → (step s' i).2 = (step s i).2)
    (hpres : ∀ s s' i, R s s' → R s (step s' i).1)
    (s0 : S) (hrefl : R s0 s0) (inputs : List I) :
    history step s0 inputs = inputs.map (fun i => (step s0 i).2) := by
  suffices H : ∀ s', R s0 s' → history step s' inputs = inputs.map (fun i => (step s0 i).2) from
    H s0 hrefl
  induction inputs with
  | nil => intro _ _; rfl
  | cons i rest ih =>
    intro s' hs'
    simp only [history, List.map_cons]
    rw [hout s0 s' i hs', ih _ (hpres s0 s' i hs')]

/-- instance: an estimator whose `transform` re-assigns a cache attribute recomputed from the
fitted model (as `LabelledTreeCooccurrenceVectorizer.transform` re-assigns its dictionaries):
outputs never depend on the history. -/
theorem cache_reassign_pure {M C I O : Type} (recompute : M → C) (answer : M → I → O)
    (m : M) (c0 : C) (inputs : List I) :
    history (fun (s : M × C) i => ((s.1, recompute s.1), answer s.1 i)) (m, c0) inputs =
      inputs.map (answer m) := by
  have := history_eq_single (S := M × C) (I := I) (O := O)
    (fun s i => ((s.1, recompute s.1), answer s.1 i)) (fun s s' => s.1 = s'.1)
    (fun s s' i h => by simp [h]) (fun s s' i h => by simpa using h) (m, c0) rfl inputs
  simpa using this

/-- a `transform` that *does* let an answer depend on mutated state breaks the premise — the
theorem's hypothesis is not vacuous and not automatic -/
example : history (fun (s : Nat) (i : Nat) => (s + 1, s + i)) 0 [5, 5] = [5, 6] := by decide

end VecModel.Heap
