import VecModel.Lemmas.Histogram
import VecModel.Lemmas.KDE
import Mathlib.Algebra.Order.Field.Basic
import Mathlib.Algebra.BigOperators.Group.List.Basic
import Mathlib.Algebra.Order.BigOperators.Group.List
import Mathlib.Algebra.Order.Ring.Rat
import Mathlib.Algebra.Field.Rat
import Mathlib.Tactic.NormNum.Basic
/-
  C20 — Histogram rows conserve the events; KDE rows depend only on the value multiset.
  Property theorems (helper lemmas in Lemmas/Histogram.lean); see DESIGN.md §5 C20.

  `Partition lo hi bins` (Lemmas/Histogram.lean) = the intervals `(l₀,h₀], (l₁,h₁], …` are all
  non-empty, `lᵢ₊₁ = hᵢ` (gap-free, non-overlapping, increasing), `l₀ = lo`, `h_last = hi`.
  `InRange lo hi x` = `lo < x ≤ hi`.
-/
namespace VecModel.Hist

/-- strictly increasing breaks (`IntervalIndex.from_breaks` / `interval_range`) give adjacent,
non-overlapping, increasing intervals from the first to the last break -/
theorem fromBreaks_adjacent (a : Rat) (rest : List Rat) (hne : rest ≠ [])
    (hinc : List.Pairwise (· < ·) (a :: rest)) :
    Partition (.fin a) (.fin ((a :: rest).getLast (by simp))) (fromBreaks (a :: rest)) :=
  fromBreaks_partition a rest hne hinc

/-- `expand_boundaries` never fails on a partition and yields a partition of the range widened to
the absolute range on each side where the absolute bound lies outside -/
theorem expand_adjacent {lo hi : B} {bins : List Bin} (a0 a1 : B) (h : Partition lo hi bins) :
    ∃ bins', expandBoundaries bins a0 a1 = .ok bins' ∧
      Partition (if a0 < lo then a0 else lo) (if hi < a1 then a1 else hi) bins' := by
  cases bins with
  | nil => exact h.elim
  | cons b bs =>
    exact ⟨_, rfl, setLastHi_partition (setFirstLo_partition h)⟩

/-- `add_outier_bins` likewise, by adding `(a0, lo]` / `(hi, a1]` instead of stretching -/
theorem outlier_adjacent {lo hi : B} {bins : List Bin} (a0 a1 : B) (h : Partition lo hi bins) :
    ∃ bins', addOutlierBins bins a0 a1 = .ok bins' ∧
      Partition (if a0 < lo then a0 else lo) (if hi < a1 then a1 else hi) bins' := by
  cases bins with
  | nil => exact h.elim
  | cons b bs =>
    exact ⟨_, rfl, addRightOutlier_partition (addLeftOutlier_partition h)⟩

/-- **The fitted bins partition the absolute range.**  `fit` filters the training values to those
strictly inside `(a0, a1)`, so the first break (training minimum) is above `a0` and the last break
is below `a1`; with strictly increasing breaks (at least two) `bin_intervals_` is a gap-free,
non-overlapping, increasing partition of `(a0, a1]`, with or without outlier bins. -/
theorem fit_partition (a : Rat) (rest : List Rat) (hne : rest ≠ [])
    (hinc : List.Pairwise (· < ·) (a :: rest)) (a0 a1 : B) (outlier : Bool)
    (h0 : a0 < .fin a) (h1 : B.fin ((a :: rest).getLast (by simp)) < a1) :
    ∃ bins, fit (a :: rest) a0 a1 outlier = .ok bins ∧ Partition a0 a1 bins := by
  have hp := fromBreaks_partition a rest hne hinc
  unfold fit
  cases outlier with
  | true =>
    obtain ⟨bins, e, p⟩ := outlier_adjacent a0 a1 hp
    refine ⟨bins, by simpa using e, ?_⟩
    simpa [h0, h1] using p
  | false =>
    obtain ⟨bins, e, p⟩ := expand_adjacent a0 a1 hp
    refine ⟨bins, by simpa using e, ?_⟩
    simpa [h0, h1] using p

/-- the union of the intervals of a partition is exactly `(lo, hi]` -/
theorem covers {lo hi : B} {bins : List Bin} (h : Partition lo hi bins) (x : Rat) :
    (∃ b ∈ bins, b.contains x = true) ↔ InRange lo hi x :=
  h.covers x

/-- **No value is dropped or counted twice**: a value of `(lo, hi]` lies in exactly one interval,
and `pd.cut` (the model's `cut`) returns that interval's position. -/
theorem cut_unique {lo hi : B} {bins : List Bin} (h : Partition lo hi bins) (x : Rat)
    (hx : InRange lo hi x) :
    ∃ k, cut bins x = some k ∧ k < bins.length ∧
      ∀ j (hj : j < bins.length), bins[j].contains x = true ↔ j = k := by
  induction bins generalizing lo with
  | nil => exact h.elim
  | cons b rest ih =>
    by_cases hb : b.contains x = true
    · refine ⟨0, by simp [cut, cutFrom, hb], by simp, ?_⟩
      intro j hj
      cases j with
      | zero => simp [hb]
      | succ j =>
        have := h.head_excl x hb (rest[j]'(by simpa using hj)) (List.getElem_mem _)
        simp [this]
    · cases rest with
      | nil =>
        have := (h.covers x).mpr hx
        simp at this
        exact absurd this hb
      | cons c cs =>
        have hb' : ¬ InRange b.lo b.hi x := fun hh => hb ((contains_iff b x).mpr hh)
        have hlo : b.lo = lo := h.1
        have hx' : InRange b.hi hi x := by
          refine ⟨?_, hx.2⟩
          cases hq : decide (b.hi < .fin x) with
          | true => simpa using hq
          | false =>
            exfalso; apply hb'
            exact ⟨hlo ▸ hx.1, by simpa using hq⟩
        obtain ⟨k, hk1, hk2, hk3⟩ := ih h.tail hx'
        refine ⟨k + 1, ?_, by simpa using hk2, ?_⟩
        · unfold cut at hk1 ⊢
          unfold cutFrom
          simp only [hb]
          have shift : ∀ (l : List Bin) (i : Nat) (r : Nat), cutFrom l i x = some r →
              cutFrom l (i + 1) x = some (r + 1) := by
            intro l
            induction l with
            | nil => intro i r hh; simp [cutFrom] at hh
            | cons d ds ihd =>
              intro i r hh
              unfold cutFrom at hh ⊢
              split at hh
              · rename_i hd; cases hh; simp [hd]
              · rename_i hd; simp only [hd]; exact ihd _ _ hh
          simpa using shift _ _ _ hk1
        · intro j hj
          cases j with
          | zero =>
            have : b.contains x = false := by simpa using hb
            simp [this]
          | succ j =>
            have := hk3 j (by simpa using hj)
            simpa using this

/-- **Conservation.**  Each output row holds natural numbers (by type), one per interval, and its
total is the number of the sequence's values in `(lo, hi]` (lower bound excluded, upper included). -/
theorem row_conserves {lo hi : B} {bins : List Bin} (h : Partition lo hi bins) (xs : List Rat) :
    (counts bins xs).length = bins.length ∧
    (counts bins xs).sum = (xs.filter (fun x => decide (InRange lo hi x))).length := by
  refine ⟨by simp [counts], ?_⟩
  rw [counts_sum]
  congr 1
  apply List.filter_congr
  intro x _
  have h1 := cut_isSome_iff bins x
  have h2 := h.covers x
  by_cases hx : InRange lo hi x
  · simp [hx, h1.mpr (h2.mpr hx)]
  · have : ¬ (cut bins x).isSome = true := fun hh => hx (h2.mp (h1.mp hh))
    simp [hx, this]

/-- entry `i` of the row is the number of the sequence's values lying in interval `i` -/
theorem row_entry {lo hi : B} {bins : List Bin} (h : Partition lo hi bins) (xs : List Rat)
    (i : Nat) (hi' : i < bins.length) :
    (counts bins xs)[i]'(by simpa [counts] using hi') =
      (xs.filter (fun x => bins[i].contains x)).length := by
  simp only [counts, List.getElem_map, List.getElem_range, countAt]
  congr 1
  apply List.filter_congr
  intro x _
  by_cases hx : InRange lo hi x
  · obtain ⟨k, hk1, _, hk3⟩ := cut_unique h x hx
    have := hk3 i hi'
    by_cases hik : i = k
    · subst hik; simp [hk1, this.mpr rfl]
    · have hc : bins[i].contains x = false := by
        cases hq : bins[i].contains x with
        | false => rfl
        | true => exact absurd (this.mp hq) hik
      have : ¬ k = i := fun e => hik e.symm
      simp [hk1, hc, this]
  · have hn : cut bins x = none := by
      cases hq : cut bins x with
      | none => rfl
      | some k =>
        have : (cut bins x).isSome = true := by simp [hq]
        exact absurd ((h.covers x).mp ((cut_isSome_iff bins x).mp this)) hx
    have hc : bins[i].contains x = false := by
      cases hq : bins[i].contains x with
      | false => rfl
      | true => exact absurd ((h.covers x).mp ⟨bins[i], List.getElem_mem _, hq⟩) hx
    simp [hn, hc]

/-- **Conservation for the fitted estimator**, every configuration at once: the row total is the
number of values in `(a0, a1]`; in particular values equal to the training minimum `a` or maximum and
arbitrarily far outliers inside the absolute range are counted exactly once. -/
theorem fit_row_conserves (a : Rat) (rest : List Rat) (hne : rest ≠ [])
    (hinc : List.Pairwise (· < ·) (a :: rest)) (a0 a1 : B) (outlier : Bool)
    (h0 : a0 < .fin a) (h1 : B.fin ((a :: rest).getLast (by simp)) < a1) (xs : List Rat) :
    ∃ bins, fit (a :: rest) a0 a1 outlier = .ok bins ∧
      (counts bins xs).sum = (xs.filter (fun x => decide (InRange a0 a1 x))).length := by
  obtain ⟨bins, e, p⟩ := fit_partition a rest hne hinc a0 a1 outlier h0 h1
  exact ⟨bins, e, (row_conserves p xs).2⟩

/-- with the default absolute range `(-inf, inf)` nothing is ever dropped: the row total is the
length of the sequence, whatever the values (training extremes, far outliers, …) -/
theorem fit_row_conserves_unbounded (a : Rat) (rest : List Rat) (hne : rest ≠ [])
    (hinc : List.Pairwise (· < ·) (a :: rest)) (outlier : Bool) (xs : List Rat) :
    ∃ bins, fit (a :: rest) .ninf .pinf outlier = .ok bins ∧ (counts bins xs).sum = xs.length := by
  obtain ⟨bins, e, hs⟩ := fit_row_conserves a rest hne hinc .ninf .pinf outlier
    (by simp [B.lt_def, B.lt]) (by simp [B.lt_def, B.lt]) xs
  refine ⟨bins, e, ?_⟩
  rw [hs]
  congr 1
  apply List.filter_eq_self.mpr
  intro x _
  simp [InRange, B.lt_def, B.lt]

/-- the training minimum and maximum (first and last break) each fall into exactly one fitted bin -/
theorem extremes_counted (a : Rat) (rest : List Rat) (hne : rest ≠ [])
    (hinc : List.Pairwise (· < ·) (a :: rest)) (a0 a1 : B) (outlier : Bool)
    (h0 : a0 < .fin a) (h1 : B.fin ((a :: rest).getLast (by simp)) < a1) :
    ∃ bins, fit (a :: rest) a0 a1 outlier = .ok bins ∧
      (∃ k, cut bins a = some k) ∧ (∃ k, cut bins ((a :: rest).getLast (by simp)) = some k) := by
  obtain ⟨bins, e, p⟩ := fit_partition a rest hne hinc a0 a1 outlier h0 h1
  have hp := fromBreaks_partition a rest hne hinc
  have hlt := hp.lt
  refine ⟨bins, e, ?_, ?_⟩
  · obtain ⟨k, hk, _⟩ := cut_unique p a ⟨h0, B.lt_asymm (B.lt_trans hlt h1)⟩
    exact ⟨k, hk⟩
  · obtain ⟨k, hk, _⟩ := cut_unique p _ ⟨B.lt_trans h0 hlt, B.lt_asymm h1⟩
    exact ⟨k, hk⟩

/-- **A histogram row depends only on the multiset of the sequence's values**: permuting the events
leaves every count unchanged (any intervals, partition or not). -/
theorem counts_perm (bins : List Bin) (xs ys : List Rat) (hp : xs.Perm ys) :
    counts bins xs = counts bins ys := by
  unfold counts countAt
  apply List.map_congr_left
  intro i _
  exact (hp.filter _).length_eq

/-- **Additivity**: the row of a concatenated sequence is the entrywise sum of the rows of its parts —
no event is lost or double-counted when sequences are joined or split (any intervals). -/
theorem counts_append (bins : List Bin) (xs ys : List Rat) :
    counts bins (xs ++ ys) = List.zipWith (· + ·) (counts bins xs) (counts bins ys) := by
  apply List.ext_getElem
  · simp [counts]
  · intro i h1 h2
    simp [counts, countAt, List.filter_append]

/-- an empty sequence gives the all-zero row of the fitted width -/
theorem counts_nil (bins : List Bin) : counts bins [] = List.replicate bins.length 0 := by
  apply List.ext_getElem
  · simp [counts]
  · intro i h1 h2
    simp [counts, countAt]

/-! ### KDE — for every linearly ordered field (ℚ, ℝ, …) -/

section KDE
variable {α : Type} [Field α] [LinearOrder α] [IsStrictOrderedRing α]

omit [LinearOrder α] [IsStrictOrderedRing α] in
/-- **A KDE row depends only on the multiset of the sequence's values**: permuting the sequence
leaves every grid value unchanged (any kernel, any bandwidth). -/
theorem kde_perm (K : α → α) (h : α) (xs ys : List α) (hp : xs.Perm ys) (g : α) :
    kde K h xs g = kde K h ys g := by
  unfold kde
  rw [foldr_add_eq_sum, foldr_add_eq_sum, (hp.map _).sum_eq, hp.length_eq]

omit [LinearOrder α] [IsStrictOrderedRing α] in
theorem kdeRow_perm (K : α → α) (h : α) (grid xs ys : List α) (hp : xs.Perm ys) :
    kdeRow K h grid xs = kdeRow K h grid ys := by
  unfold kdeRow
  apply List.map_congr_left
  intro g _
  exact kde_perm K h xs ys hp g

/-- **Pooling**: the density of a concatenated sequence is the length-weighted mean of the densities of
its parts, `(n + m) · kde(xs ++ ys) = n · kde(xs) + m · kde(ys)` — every event enters with the same
weight wherever it stands (any kernel, non-zero bandwidth, non-empty parts). -/
theorem kde_append (K : α → α) (h : α) (hh : h ≠ 0) (xs ys : List α) (hx : xs ≠ []) (hy : ys ≠ []) (g : α) :
    ((xs.length + ys.length : Nat) : α) * kde K h (xs ++ ys) g =
      (xs.length : α) * kde K h xs g + (ys.length : α) * kde K h ys g := by
  have hn : (xs.length : α) ≠ 0 := Nat.cast_ne_zero.mpr (by simpa using hx)
  have hm : (ys.length : α) ≠ 0 := Nat.cast_ne_zero.mpr (by simpa using hy)
  have hnm : (xs.length : α) + (ys.length : α) ≠ 0 := by
    have : ((xs.length + ys.length : Nat) : α) ≠ 0 :=
      Nat.cast_ne_zero.mpr (by have : xs.length ≠ 0 := by simpa using hx
                               omega)
    simpa using this
  unfold kde
  rw [foldr_add_eq_sum, foldr_add_eq_sum, foldr_add_eq_sum]
  simp only [List.map_append, List.sum_append, List.length_append, Nat.cast_add]
  have key : ∀ (a S : α), a ≠ 0 → a * (S / (a * h)) = S / h := by
    intro a S ha
    rw [← mul_div_assoc, mul_div_mul_left _ _ ha]
  rw [key _ _ hnm, key _ _ hn, key _ _ hm, add_div]

/-- for a non-negative kernel and a positive bandwidth the densities are non-negative -/
theorem kde_nonneg (K : α → α) (hK : ∀ u, 0 ≤ K u) (h : α) (hh : 0 < h) (xs : List α) (g : α) :
    0 ≤ kde K h xs g := by
  unfold kde
  rw [foldr_add_eq_sum]
  apply div_nonneg
  · apply List.sum_nonneg
    intro y hy
    obtain ⟨x, _, rfl⟩ := List.mem_map.mp hy
    exact hK _
  · exact mul_nonneg (Nat.cast_nonneg _) hh.le

end KDE

/-! ### Non-vacuity: training values `1 2 3 10 | 2 2 5.5`, three uniform bins (breaks 1,4,7,10),
absolute range `(0, 20]`, with and without outlier bins; a row with the training extremes, both
absolute bounds and outliers on both sides. -/

example :
    (fit [1, 4, 7, 10] (.fin 0) (.fin 20) false).toOption =
      some [⟨.fin 0, .fin 4⟩, ⟨.fin 4, .fin 7⟩, ⟨.fin 7, .fin 20⟩] ∧
    (fit [1, 4, 7, 10] (.fin 0) (.fin 20) true).toOption =
      some [⟨.fin 0, .fin 1⟩, ⟨.fin 1, .fin 4⟩, ⟨.fin 4, .fin 7⟩, ⟨.fin 7, .fin 10⟩, ⟨.fin 10, .fin 20⟩] ∧
    counts [⟨.fin 0, .fin 4⟩, ⟨.fin 4, .fin 7⟩, ⟨.fin 7, .fin 20⟩] [1, 10, -100, 100, 0, 20, 4, 7] = [2, 1, 2] ∧
    List.Pairwise (· < ·) ([1, 4, 7, 10] : List Rat) ∧
    (B.fin 0 < B.fin 1) ∧ (B.fin 10 < B.fin 20) := by
  decide

/-- `counts_perm` / `counts_append` on a concrete row (values on interval edges and outside the range) -/
example :
    counts [⟨.fin 0, .fin 4⟩, ⟨.fin 4, .fin 7⟩, ⟨.fin 7, .fin 20⟩] ([1, 10, -100] ++ [100, 0, 20, 4, 7]) =
      List.zipWith (· + ·) [1, 0, 1] [1, 1, 1] ∧
    counts [⟨.fin 0, .fin 4⟩, ⟨.fin 4, .fin 7⟩, ⟨.fin 7, .fin 20⟩] ([100, 0, 20, 4, 7] ++ [1, 10, -100]) = [2, 1, 2] := by
  decide

/-- the hypotheses of `kde_perm` / `kde_nonneg` are satisfiable (ℚ, top-hat kernel, bandwidth 2) -/
example : kde (α := Rat) (fun u => if -1 < u ∧ u < 1 then 1/2 else 0) 2 ([1, 2] ++ [5]) 3 =
    kde (α := Rat) (fun u => if -1 < u ∧ u < 1 then 1/2 else 0) 2 ([5] ++ [1, 2]) 3 :=
  kde_perm _ _ _ _ List.perm_append_comm _

example : ((2 + 1 : Nat) : Rat) * kde (α := Rat) (fun u => if -1 < u ∧ u < 1 then 1/2 else 0) 2 ([1, 2] ++ [5]) 3 =
    ((2 : Nat) : Rat) * kde (fun u => if -1 < u ∧ u < 1 then 1/2 else 0) 2 [1, 2] 3 +
    ((1 : Nat) : Rat) * kde (fun u => if -1 < u ∧ u < 1 then 1/2 else 0) 2 [5] 3 :=
  kde_append _ 2 (by norm_num) [1, 2] [5] (by simp) (by simp) 3

example : 0 ≤ kde (α := Rat) (fun u => if -1 < u ∧ u < 1 then 1/2 else 0) 2 [1, 2, 5] 3 :=
  kde_nonneg _ (fun u => by split <;> norm_num) 2 (by norm_num) _ _

end VecModel.Hist
