import VecModel.Lemmas.Preprocess
import VecModel.Props.C03
/-
  C14 — Masking keeps positions; nullifying the mask removes its contribution.
  Property theorems (helper lemmas live in Lemmas/Preprocess.lean, Lemmas/Cooc.lean). Every theorem
  here is an obligation of the C14 check; see DESIGN.md §5 C14.
-/
set_option linter.unusedSimpArgs false
set_option linter.unusedVariables false
namespace VecModel.Pre

/-! ### mask_string unset: removed tokens are deleted -/

/-- **delete is filter**: with `masking = None` the re-indexed sequence is, element by element, the
dictionary image of the kept tokens in their original order — nothing else, nothing reordered. -/
theorem delete_is_filter (d : Dict) (s : List Nat) :
    (reindex d false s).map some = (s.filter fun t => (find d t).isSome).map (find d) := by
  unfold reindex
  simp only [Bool.false_eq_true, if_false]
  induction s with
  | nil => simp
  | cons t rest ih =>
    cases h : find d t with
    | none => simp [List.filterMap_cons, List.filter_cons, h, ih]
    | some k => simp [List.filterMap_cons, List.filter_cons, h, ih]

/-- a removed token disappears, so its neighbours become adjacent -/
theorem delete_makes_neighbours_adjacent (d : Dict) (a b : List Nat) (t : Nat)
    (h : find d t = none) :
    reindex d false (a ++ t :: b) = reindex d false a ++ reindex d false b := by
  unfold reindex
  simp [List.filterMap_append, List.filterMap_cons, h]

/-- kept tokens are never dropped: the output has one entry per kept occurrence -/
theorem delete_length (d : Dict) (s : List Nat) :
    (reindex d false s).length = (s.filter fun t => (find d t).isSome).length := by
  have := congrArg List.length (delete_is_filter d s)
  simpa using this

/-! ### mask_string set: removed tokens are replaced in place -/

/-- **mask preserves positions**: same length, position `i` holds the index of `s[i]` when it is
kept and the mask index `|d|` otherwise — distances and window contents are those of the raw
sequence. -/
theorem mask_preserves_positions (d : Dict) (s : List Nat) :
    (reindex d true s).length = s.length ∧
    ∀ i (h : i < s.length), (reindex d true s)[i]? = some (codeOf d s[i]) := by
  unfold reindex
  simp only [if_true]
  refine ⟨by simp, ?_⟩
  intro i h
  simp [List.getElem?_map, List.getElem?_eq_getElem h]

/-- `codeOf`: the dictionary index of a kept token, the mask index `|d|` of a removed one -/
theorem codeOf_spec (d : Dict) (t : Nat) :
    (∀ k, find d t = some k → codeOf d t = k) ∧ (find d t = none → codeOf d t = d.length) := by
  unfold codeOf
  constructor
  · intro k h; simp [h]
  · intro h; simp [h]

/-- no two positions are merged or swapped: the kept/removed pattern of the output is that of the
input (a position carries the mask index iff its token was removed, provided kept indices are
below `|d|`). -/
theorem mask_marks_exactly_removed (d : Dict) (s : List Nat)
    (hd : ∀ t k, find d t = some k → k < d.length) (i : Nat) (h : i < s.length) :
    (reindex d true s)[i]? = some d.length ↔ find d s[i] = none := by
  rw [(mask_preserves_positions d s).2 i h]
  cases hf : find d s[i] with
  | none => simp [(codeOf_spec d s[i]).2 hf]
  | some k =>
    have := hd _ _ hf
    simp [(codeOf_spec d s[i]).1 k hf]; omega

/-! ### the mask entry -/

/-- **the mask is exactly one extra entry, the last one**, also when the mask string was already a
key of the dictionary handed in: `withMask d μ = (d without μ) ++ [(μ, size)]`, every other token
keeps its index, and `μ` is looked up to the size of the dictionary without it — which is the very
index `reindex` writes for removed tokens. -/
theorem mask_entry_last_unique (d : Dict) (μ : Nat) :
    (withMask d μ).getLast? = some (μ, (dropMask d μ).length) ∧
    ((withMask d μ).filter fun e => e.1 == μ).length = 1 ∧
    (withMask d μ).length = (dropMask d μ).length + 1 ∧
    find (withMask d μ) μ = some (dropMask d μ).length ∧
    ∀ t, t ≠ μ → find (withMask d μ) t = find d t := by
  unfold withMask
  refine ⟨by simp, ?_, by simp, ?_, ?_⟩
  · have : (dropMask d μ).filter (fun e => e.1 == μ) = [] := by
      unfold dropMask
      rw [List.filter_filter]
      apply List.filter_eq_nil_iff.mpr
      intro e _
      simp
    simp [List.filter_append, this]
  · rw [find_append, find_dropMask_self]
    simp [find, List.lookup]
  · intro t ht
    rw [find_append, find_dropMask_ne d μ t ht]
    have : (t == μ) = false := by simp; omega
    cases find d t <;> simp [find, List.lookup, this]

/-- with a fresh mask string (not a token of the vocabulary) the kept entries are untouched and
the mask gets index `|d|`: for a contiguous dictionary `0..n-1` the result is contiguous `0..n`. -/
theorem mask_entry_fresh (d : Dict) (μ : Nat) (hμ : find d μ = none) :
    withMask d μ = d ++ [(μ, d.length)] := by
  unfold withMask
  rw [dropMask_of_not_mem d μ hμ]

theorem mask_indices_contiguous (d : Dict) (μ : Nat) (hμ : find d μ = none)
    (hc : d.map (·.2) = List.range d.length) :
    (withMask d μ).map (·.2) = List.range (d.length + 1) := by
  rw [mask_entry_fresh d μ hμ]
  simp [hc, List.range_succ]

/-- `preprocess` hands back the sequences re-indexed against the dictionary *without* the mask and
the dictionary with the mask appended; the removed tokens carry exactly the mask's index. -/
theorem preprocess_mask_consistent (d : Dict) (μ : Nat) (X : List (List Nat)) :
    (preprocess d (some μ) X).1 = X.map (reindex (dropMask d μ) true) ∧
    find (preprocess d (some μ) X).2 μ = some (dropMask d μ).length := by
  refine ⟨rfl, ?_⟩
  exact (mask_entry_last_unique d μ).2.2.2.1

/-- **n-gram positions** (NgramVectorizer, n-gram co-occurrence rows): the n-gram starting at
position `k` of the masked sequence is the coded n-gram starting at position `k` of the raw
sequence — no n-gram is created across a removed token. -/
theorem ngram_mask_positions (d : Dict) (s : List Nat) (k n : Nat) :
    ((reindex d true s).drop k).take n = (((s.drop k).take n).map (codeOf d)) := by
  simp [reindex, List.map_drop, List.map_take]

/-- with `masking = None` the n-grams are those of the kept subsequence -/
theorem ngram_delete_positions (d : Dict) (s : List Nat) (k n : Nat) :
    (((reindex d false s).drop k).take n).map some =
      ((((s.filter fun t => (find d t).isSome).drop k).take n).map (find d)) := by
  rw [List.map_take, List.map_drop, delete_is_filter, ← List.map_drop, ← List.map_take]

/-! ### Non-vacuity: dictionary {a↦0, b↦1}, mask code 7, sequence a x b a (x = 5 removed) -/

example :
    reindex [(0, 0), (1, 1)] false [0, 5, 1, 0] = [0, 1, 0] ∧
    reindex [(0, 0), (1, 1)] true [0, 5, 1, 0] = [0, 2, 1, 0] ∧
    withMask [(0, 0), (1, 1)] 7 = [(0, 0), (1, 1), (7, 2)] ∧
    withMask [(0, 0), (7, 1), (1, 2)] 7 = [(0, 0), (1, 2), (7, 2)] ∧
    find ([(0, 0), (1, 1)] : Dict) 7 = none ∧
    (∀ t k, find ([(0, 0), (1, 1)] : Dict) t = some k → k < 2) := by
  refine ⟨by decide, by decide, by decide, by decide, by decide, ?_⟩
  intro t k h
  unfold find at h
  simp only [List.lookup_cons, List.lookup_nil] at h
  split at h
  · simp at h; omega
  · split at h
    · simp at h; omega
    · simp at h

end VecModel.Pre

namespace VecModel.Cooc
open VecModel.Window

/-! ### nullify_mask on the co-occurrence matrices -/

/-- **nullify: the mask's row is zero** — the mask token has radius 0 in every block
(`radii[mask_index] = 0`), so it opens no window. -/
theorem nullify_row_zero (cfg : Cfg) (S : List TSeq) (m c : Nat)
    (hrad : ∀ b ∈ cfg.blocks, b.radius m = 0) :
    cellSum (seqEvents cfg S) m c = 0 := by
  rw [events_eq_spec]
  unfold spec
  apply sumOver_eq_zero
  intro s _
  apply sumTo_eq_zero
  intro i hi
  have hsi : s[i]? = some s[i] := List.getElem?_eq_getElem hi
  rw [hsi]
  simp only
  by_cases hr : s[i].1 = m
  · simp only [hr, if_true]
    apply sumOver_eq_zero
    intro bw hbw
    apply sumTo_eq_zero
    intro j hj
    have hsj : s[j]? = some s[j] := List.getElem?_eq_getElem hj
    have hb : bw.1 ∈ cfg.blocks := (List.mem_zipIdx hbw).2.2 ▸ List.getElem_mem _
    have hout : posKer bw.1 s i j = 0 := by
      apply posKer_outside bw.1 s i s[i] hsi
      rw [hr, hrad bw.1 hb]
      exact inWin_zero _ _ _
    rw [hsj]
    simp [hout, pos]
  · simp [hr]


/-- **nullify: every column referring to the mask is zero** — in every block `k`, column
`m + k·n` receives nothing: a masked context has kernel weight 0 (before and hence after the
normalisations), and a value that is not positive is not recorded. -/
theorem nullify_cols_zero (cfg : Cfg) (S : List TSeq) (m r k : Nat)
    (hmask : ∀ b ∈ cfg.blocks, b.args.mask = some m) (hm : m < cfg.n) (hS : TokensBelow cfg.n S) :
    cellSum (seqEvents cfg S) r (m + k * cfg.n) = 0 := by
  rw [events_eq_spec]
  unfold spec
  apply sumOver_eq_zero
  intro s hs
  apply sumTo_eq_zero
  intro i hi
  have hsi : s[i]? = some s[i] := List.getElem?_eq_getElem hi
  rw [hsi]
  simp only
  split
  · apply sumOver_eq_zero
    intro bw hbw
    apply sumTo_eq_zero
    intro j hj
    have hsj : s[j]? = some s[j] := List.getElem?_eq_getElem hj
    have hb : bw.1 ∈ cfg.blocks := (List.mem_zipIdx hbw).2.2 ▸ List.getElem_mem _
    rw [hsj]
    simp only
    split
    · rename_i hcol
      have hx : s[j].1 < cfg.n := hS s hs s[j] (List.getElem_mem _)
      have := (col_decomp hx hm).mp hcol
      have hker : posKer bw.1 s i j = 0 :=
        posKer_masked bw.1 s i j m (hmask bw.1 hb) (by simp [tokAt, hsj, this.1]) hj
      simp [hker, pos]
    · rfl
  · rfl


/-- **nullify, all other cells**: the nullified matrix is the definition evaluated with masked
contexts weighted 0 *before* the kernel-level and the window-level normalisation, and with no
window opened by mask targets (`spec` of the nullified configuration: `posRaw` tests the mask
before `posZ` and `posTotal` are formed). -/
theorem nullify_others (cfg : Cfg) (S : List TSeq) (m r c : Nat) :
    cellSum (seqEvents (nullifyCfg m cfg) S) r c = spec (nullifyCfg m cfg) S r c :=
  events_eq_spec (nullifyCfg m cfg) S r c

/-- **nullify, other cells (no normalisation)**: without kernel-level and window-level
normalisation every cell whose row is not the mask and whose column does not refer to the mask is
literally the cell of the masked (non-nullified) computation. -/
theorem nullify_others_unnormalised_spec (cfg : Cfg) (S : List TSeq) (m r col : Nat)
    (hnw : cfg.normWin = false)
    (hb : ∀ b ∈ cfg.blocks, b.args.normalize = false ∧ b.args.mask = none)
    (hm : m < cfg.n) (hS : TokensBelow cfg.n S) (hr : r ≠ m) (hcol : ∀ k, col ≠ m + k * cfg.n) :
    spec (nullifyCfg m cfg) S r col = spec cfg S r col := by
  unfold spec
  apply sumOver_congr
  intro s hs
  apply sumTo_congr
  intro i hi
  have hsi : s[i]? = some s[i] := List.getElem?_eq_getElem hi
  rw [hsi]
  simp only
  by_cases hri : s[i].1 = r
  · simp only [hri, if_true]
    have hz : (nullifyCfg m cfg).blocks.zipIdx =
        cfg.blocks.zipIdx.map (fun bw => (nullifyBlock m bw.1, bw.2)) := by
      simp [nullifyCfg, List.zipIdx_map]
    rw [hz, sumOver_map]
    apply sumOver_congr
    intro bw hbw
    have hbm : bw.1 ∈ cfg.blocks := (List.mem_zipIdx hbw).2.2 ▸ List.getElem_mem _
    obtain ⟨hnn, hmask⟩ := hb bw.1 hbm
    apply sumTo_congr
    intro j hj
    have hsj : s[j]? = some s[j] := List.getElem?_eq_getElem hj
    rw [hsj]
    simp only
    have hn : (nullifyCfg m cfg).n = cfg.n := rfl
    rw [hn]
    by_cases hc : s[j].1 + bw.2 * cfg.n = col
    · simp only [hc, if_true]
      have hjm : s[j].1 ≠ m := by
        intro h; exact hcol bw.2 (by rw [← hc, h])
      have hnw' : (nullifyCfg m cfg).normWin = false := hnw
      rw [posTotal_noNorm _ s i hnw', posTotal_noNorm cfg s i hnw]
      have hraw := posRaw_nullify m bw.1 s i j hmask (by simp [tokAt, hsi, hri, hr])
        (by simp [tokAt, hsj, hjm]) hi hj
      have hk1 : posKer (nullifyBlock m bw.1) s i j = bw.1.mix * posRaw (nullifyBlock m bw.1) s i j := by
        have : (nullifyBlock m bw.1).args.normalize = false := hnn
        have hmix : (nullifyBlock m bw.1).mix = bw.1.mix := rfl
        unfold posKer
        rw [this, hmix]
        simp
      have hk2 : posKer bw.1 s i j = bw.1.mix * posRaw bw.1 s i j := by simp [posKer, hnn]
      rw [hk1, hk2, hraw]
    · simp [hc]
  · simp [hri]


/-- the same for the matrices themselves -/
theorem nullify_others_unnormalised (cfg : Cfg) (S : List TSeq) (m r col : Nat)
    (hnw : cfg.normWin = false)
    (hb : ∀ b ∈ cfg.blocks, b.args.normalize = false ∧ b.args.mask = none)
    (hm : m < cfg.n) (hS : TokensBelow cfg.n S) (hr : r ≠ m) (hcol : ∀ k, col ≠ m + k * cfg.n) :
    cellSum (seqEvents (nullifyCfg m cfg) S) r col = cellSum (seqEvents cfg S) r col := by
  rw [events_eq_spec, events_eq_spec]
  exact nullify_others_unnormalised_spec cfg S m r col hnw hb hm hS hr hcol

/-- the nullified configuration satisfies the hypotheses of the two zero theorems -/
theorem nullifyCfg_hyps (m : Nat) (cfg : Cfg) :
    (∀ b ∈ (nullifyCfg m cfg).blocks, b.radius m = 0) ∧
    (∀ b ∈ (nullifyCfg m cfg).blocks, b.args.mask = some m) := by
  constructor <;>
  · intro b hb
    simp only [nullifyCfg, List.mem_map] at hb
    obtain ⟨b0, _, rfl⟩ := hb
    simp [nullifyBlock]

/-- **masking preserves window contents**: every window of the masked sequence is the coded
window of the raw sequence at the same position — same length, same distances, removed tokens
showing up as the mask index. -/
theorem mask_preserves_windows (d : Pre.Dict) (s : List Nat) (r i : Nat) (rev : Bool) :
    windowAt (Pre.reindex d true s) r i rev = (windowAt s r i rev).map (Pre.codeOf d) := by
  simp only [Pre.reindex, if_true]
  exact windowAt_map (Pre.codeOf d) s r i rev

/-- multiset vectorizer: the mask row is cleared when the per-document matrices are summed;
all other rows are untouched -/
theorem multi_nullify_row (m : Nat) (es : List Event) (r c : Nat) :
    cellSum (clearRow (some m) es) m c = 0 ∧
    (r ≠ m → cellSum (clearRow (some m) es) r c = cellSum es r c) ∧
    cellSum (clearRow none es) r c = cellSum es r c := by
  refine ⟨?_, ?_, ?_⟩
  · apply cellSum_eq_zero_of_forall
    intro e he
    simp only [clearRow, List.mem_filter, bne_iff_ne, ne_eq, Option.some.injEq] at he
    intro h; exact he.2 h.1.symm
  · intro hr
    unfold cellSum clearRow
    rw [List.filter_filter]
    congr 2
    apply List.filter_congr
    intro e _
    by_cases h : e.1 = r
    · have : m ≠ e.1 := by rw [h]; exact fun e' => hr e'.symm
      have hmr : ¬ m = r := fun e' => hr e'.symm
      simp [h, this, hmr]
    · have : (e.1 == r) = false := by simpa using h
      simp [this]
  · have : (es.filter fun e => (none : Option Nat) != some e.1) = es := by
      apply List.filter_eq_self.mpr
      intro e _
      simp
    simp [clearRow, this]

/-! ### tree vectorizer: the projector `M·G·M` -/

/-- **tree_nullify**: after the projector the mask row and the mask column are zero and every
other entry is unchanged. -/
theorem tree_nullify (m : Nat) (es : List Event) (r c : Nat) :
    cellSum (treeProject m es) m c = 0 ∧ cellSum (treeProject m es) r m = 0 ∧
    (r ≠ m → c ≠ m → cellSum (treeProject m es) r c = cellSum es r c) := by
  refine ⟨?_, ?_, ?_⟩
  · apply cellSum_eq_zero_of_forall
    intro e he
    simp only [treeProject, List.mem_filter, Bool.and_eq_true, bne_iff_ne] at he
    intro h; exact he.2.1 h.1
  · apply cellSum_eq_zero_of_forall
    intro e he
    simp only [treeProject, List.mem_filter, Bool.and_eq_true, bne_iff_ne] at he
    intro h; exact he.2.2 h.2
  · intro hr hc
    unfold cellSum treeProject
    rw [List.filter_filter]
    congr 2
    apply List.filter_congr
    intro e _
    by_cases h : e.1 = r ∧ e.2.1 = c
    · obtain ⟨h1, h2⟩ := h
      simp [h1, h2, hr, hc]
    · have : (e.1 == r && e.2.1 == c) = false := by
        simp only [Bool.and_eq_false_imp, beq_iff_eq, beq_eq_false_iff_ne]
        intro h1 h2; exact h ⟨h1, h2⟩
      simp [this]

/-! ### Non-vacuity: a x b a with x removed and replaced by the mask (index 2), directional radius 1 -/

def exB (rev : Bool) : Block :=
  { rev := rev, mix := 1, args := {}, radius := fun _ => 1, w := fun _ _ => 1 }
def exC : Cfg := { n := 3, blocks := [exB true, exB false], normWin := false }
def exSeq : List TSeq := untimed [[0, 2, 1, 0]]

example :
    cellSum (seqEvents exC exSeq) 2 1 = 0 ∧ cellSum (seqEvents exC exSeq) 2 (1 + 1 * 3) = 1 ∧
    cellSum (seqEvents (nullifyCfg 2 exC) exSeq) 2 (1 + 1 * 3) = 0 ∧
    cellSum (seqEvents exC exSeq) 0 (2 + 1 * 3) = 1 ∧
    cellSum (seqEvents (nullifyCfg 2 exC) exSeq) 0 (2 + 1 * 3) = 0 ∧
    cellSum (seqEvents (nullifyCfg 2 exC) exSeq) 1 (0 + 1 * 3) = 1 ∧
    cellSum (seqEvents exC exSeq) 1 (0 + 1 * 3) = 1 := by
  refine ⟨by decide +kernel, by decide +kernel, by decide +kernel, by decide +kernel,
    by decide +kernel, by decide +kernel, by decide +kernel⟩

end VecModel.Cooc
