import VecModel.Lemmas.InfoWeightReal
/-
  C17 — information weights are KL divergences; transform is a fixed column scaling.
  Property theorems; helper lemmas are in Lemmas/InfoWeight.lean (binary search) and
  Lemmas/InfoWeightReal.lean (ℝ instance of the kernels).  See DESIGN.md §5 C17.
-/
namespace VecModel.IW
open Analytic

/-! ### the binary search inside the kernel -/

/-- **searchsorted finds every stored row, index safe.**  On a sorted duplicate-free index array
the binary search (checked reads) never fails; for a stored row it returns its position, for a row
that is not stored it returns an insertion point that does not hold that row. -/
theorem searchsorted_finds (idx : List Nat) (hs : StrictInc idx) :
    (∀ k (hk : k < idx.length), searchsorted idx idx[k] = .ok k) ∧
    (∀ i, ∃ r, searchsorted idx i = .ok r ∧ r ≤ idx.length ∧ (i ∉ idx → idx[r]? ≠ some i)) := by
  refine ⟨searchsorted_getElem idx hs, ?_⟩
  intro i
  obtain ⟨r, hr, hle, _, _⟩ := searchsorted_spec idx i (strictInc_sorted hs)
  refine ⟨r, hr, hle, ?_⟩
  intro hni hget
  exact hni (List.mem_of_getElem? hget)

/-- the search needs sorted indices: on an unsorted column it can miss a stored row (this is why
`information_weight` sorts the CSC indices first) -/
theorem searchsorted_unsorted_misses :
    ∃ idx : List Nat, 0 ∈ idx ∧ ∃ r, searchsorted idx 0 = .ok r ∧ idx[r]? ≠ some 0 :=
  ⟨[2, 0, 1], by decide, 0, by decide, by decide⟩

/-! ### the exact-prior kernel is the KL divergence -/

/-- **exact_eq_kl.**  For a column given by sorted duplicate-free row indices with non-negative
counts, a non-negative baseline in which every row with a positive count has positive mass, and
`prior_strength > 0`, the kernel as written (set membership, binary search, zero-constant branch,
checked reads, partial `log` and `/`) never fails and returns
`KL(posterior ‖ baseline) = Σ_i post_i · log(post_i / b_i)` with
`post_i = (count_i + s·b_i) / (Σ counts + s)`. -/
theorem exact_eq_kl (idx : List Nat) (data base : List ℝ) (s : ℝ)
    (hlen : data.length = idx.length) (hs : StrictInc idx) (hs0 : 0 < s)
    (hd : ∀ c ∈ data, 0 ≤ c) (hb : ∀ b ∈ base, 0 ≤ b)
    (hcons : ∀ k (h : k < idx.length), 0 < data[k]'(by omega) → 0 < base.getD idx[k] 0) :
    klExact idx data base s
      = .ok (klDiv base.length (posterior idx data base s) (fun i => base.getD i 0)) :=
  klExact_eq idx data base s hlen hs hs0 hd hb hcons

/-- the posterior is a probability vector (sums to one) when the baseline is one -/
theorem posterior_sums_to_one (idx : List Nat) (data base : List ℝ) (s : ℝ)
    (hlen : data.length = idx.length) (hidx : ∀ i ∈ idx, i < base.length) (hs0 : 0 < s)
    (hd : ∀ c ∈ data, 0 ≤ c) (hsum : base.sum = 1) :
    rsum base.length (posterior idx data base s) = 1 := by
  have hN : 0 ≤ data.sum := List.sum_nonneg hd
  rw [rsum_posterior idx data base s hlen hidx, hsum, mul_one]
  exact div_self (by linarith)

/-- **kl_nonneg (Gibbs).** `KL(p ‖ q) ≥ 0` for non-negative `p`, `q` with `p ≪ q` and `Σq ≤ Σp`. -/
theorem kl_nonneg (n : Nat) (p q : Nat → ℝ) (hp : ∀ i < n, 0 ≤ p i) (hq : ∀ i < n, 0 ≤ q i)
    (hpq : ∀ i < n, 0 < p i → 0 < q i) (hsum : rsum n q ≤ rsum n p) : 0 ≤ klDiv n p q :=
  klDiv_nonneg n p q hp hq hpq hsum

/-- **finite and non-negative**: under the hypotheses of `exact_eq_kl`, with the baseline a
probability vector and all stored rows inside the matrix, the weight of the column is defined
(no NaN / inf / out-of-range read) and `≥ 0`. -/
theorem exact_weight_finite_nonneg (idx : List Nat) (data base : List ℝ) (s : ℝ)
    (hlen : data.length = idx.length) (hs : StrictInc idx) (hs0 : 0 < s)
    (hd : ∀ c ∈ data, 0 ≤ c) (hb : ∀ b ∈ base, 0 ≤ b) (hidx : ∀ i ∈ idx, i < base.length)
    (hsum : base.sum = 1)
    (hcons : ∀ k (h : k < idx.length), 0 < data[k]'(by omega) → 0 < base.getD idx[k] 0) :
    ∃ w, klExact idx data base s = .ok w ∧ 0 ≤ w := by
  refine ⟨_, exact_eq_kl idx data base s hlen hs hs0 hd hb hcons, ?_⟩
  have hN : 0 ≤ data.sum := List.sum_nonneg hd
  have hnorm : 0 < data.sum + s := by linarith
  have hbi : ∀ i < base.length, 0 ≤ base.getD i 0 := fun i hi => by
    rw [getD_eq_getElem base i hi]; exact hb _ (List.getElem_mem hi)
  have hcv : ∀ i, 0 ≤ cval (List.zip idx data) i :=
    cval_nonneg _ (fun p hp => hd _ (List.of_mem_zip hp).2)
  apply kl_nonneg
  · intro i hi
    exact div_nonneg (by have := hcv i; have := hbi i hi; nlinarith) (le_of_lt hnorm)
  · exact hbi
  · intro i hi hpos
    rcases lt_or_eq_of_le (hbi i hi) with h | h
    · exact h
    · exfalso
      unfold posterior at hpos
      rw [← h, mul_zero, add_zero] at hpos
      have hc : 0 < cval (List.zip idx data) i := by
        by_contra hn
        have : cval (List.zip idx data) i / (data.sum + s) ≤ 0 :=
          div_nonpos_of_nonpos_of_nonneg (not_lt.mp hn) (le_of_lt hnorm)
        linarith
      by_cases hm : i ∈ idx
      · obtain ⟨k, hk, rfl⟩ := List.mem_iff_getElem.mp hm
        rw [cval_getElem idx data hlen hs k hk] at hc
        have := hcons k hk hc
        rw [← h] at this
        exact lt_irrefl _ this
      · rw [cval_of_not_mem idx data i hm] at hc
        exact lt_irrefl _ hc
  · rw [posterior_sums_to_one idx data base s hlen hidx hs0 hd hsum, rsum_getD, hsum]


/-! ### transform = X · diag(w) -/

/-- **fixed column scaling**: every entry of `transform X w` is the entry of `X` times the weight
of its column. -/
theorem transform_column_scaling (X : List (List ℝ)) (w : List ℝ) (T : List (List ℝ))
    (h : transform X w = .ok T) (i j : Nat) (hi : i < X.length) (hj : j < w.length) :
    mget T i j = mget X i j * w.getD j 0 := by
  obtain ⟨hshape, rfl⟩ := (transform_ok_iff X w T).mp h
  have hr : (X[i]).length = w.length := hshape _ (List.getElem_mem hi)
  simp [mget, List.getD, hi, hj, hr]

/-- **never creates a non-zero** where the input had none -/
theorem transform_zero_preserving (X : List (List ℝ)) (w : List ℝ) (T : List (List ℝ))
    (h : transform X w = .ok T) (i j : Nat) (hi : i < X.length) (hj : j < w.length)
    (hz : mget X i j = 0) : mget T i j = 0 := by
  rw [transform_column_scaling X w T h i j hi hj, hz, zero_mul]

/-- **linear in its input** -/
theorem transform_linear (X Y : List (List ℝ)) (w : List ℝ) (TX TY : List (List ℝ)) (a b : ℝ)
    (hX : transform X w = .ok TX) (hY : transform Y w = .ok TY) :
    transform (madd (msmul a X) (msmul b Y)) w = .ok (madd (msmul a TX) (msmul b TY)) := by
  obtain ⟨sX, rfl⟩ := (transform_ok_iff X w TX).mp hX
  obtain ⟨sY, rfl⟩ := (transform_ok_iff Y w TY).mp hY
  apply (transform_ok_iff _ w _).mpr
  clear hX hY
  induction X generalizing Y with
  | nil => simp [madd, msmul]
  | cons r1 X ih =>
    cases Y with
    | nil => simp [madd, msmul]
    | cons r2 Y =>
      have h1 : r1.length = w.length := sX r1 (by simp)
      have h2 : r2.length = w.length := sY r2 (by simp)
      obtain ⟨ihs, ihe⟩ := ih Y (fun r hr => sX r (by simp [hr])) (fun r hr => sY r (by simp [hr]))
      constructor
      · intro r hr
        simp only [madd, msmul, List.map_cons, List.zipWith_cons_cons, List.mem_cons] at hr
        rcases hr with rfl | hr
        · simp [h1, h2]
        · exact ihs r hr
      · simp only [madd, msmul, List.map_cons, List.zipWith_cons_cons] at ihe ⊢
        rw [row_linear a b r1 r2 w h1 h2, ihe]

/-! ### the learned weights are non-negative -/

/-- **weights_nonneg**: whatever the raw KL estimates are (exact, approximate or supervised,
possibly negative for the approximation), mean-normalising, clamping at zero and raising to
`weight_power` yields non-negative weights whenever it yields anything. -/
theorem weights_nonneg (w : List ℝ) (p : ℝ) (r : List ℝ) (h : postprocess w p = .ok r) :
    ∀ x ∈ r, 0 ≤ x := by
  unfold postprocess at h
  obtain ⟨mean, _, h⟩ := bind_eq_ok _ _ _ h
  obtain ⟨w1, _, h⟩ := bind_eq_ok _ _ _ h
  intro x hx
  obtain ⟨a, ha, hpa⟩ := mapM_ok_mem _ _ _ h x hx
  obtain ⟨a0, _, rfl⟩ := List.mem_map.mp ha
  have hnn : 0 ≤ (if ltb a0 0 = true then (0 : ℝ) else a0) := by
    split
    · exact le_refl 0
    · rename_i hlt
      exact not_lt.mp (fun h' => hlt (ltb_real.mpr h'))
  revert hpa
  generalize (if ltb a0 0 = true then (0 : ℝ) else a0) = c at hnn
  intro hpa
  change (if c < 0 ∨ (c = 0 ∧ p < 0) then Except.error (Err.invalid "pow") else Except.ok (c ^ p)) = Except.ok x at hpa
  split at hpa
  · cases hpa
  · cases hpa
    exact Real.rpow_nonneg hnn p

/-- the same for the supervised combination `unsupervised^((1-sw)p) · supervised^(sw·p)` -/
theorem fit_weights_nonneg (nrows ncols : Nat) (es : List (Entry ℝ)) (s : ℝ) (k : Kernel)
    (p sw : ℝ) (target : Option (List Nat)) (r : List ℝ)
    (h : fitWeights nrows ncols es s k p sw target = .ok r) : ∀ x ∈ r, 0 ≤ x := by
  unfold fitWeights at h
  obtain ⟨w, _, h⟩ := bind_eq_ok _ _ _ h
  cases target with
  | none => exact weights_nonneg w p r h
  | some t =>
    simp only [] at h
    obtain ⟨wu, hwu, h⟩ := bind_eq_ok _ _ _ h
    obtain ⟨ws0, _, h⟩ := bind_eq_ok _ _ _ h
    obtain ⟨ws, hws, h⟩ := bind_eq_ok _ _ _ h
    cases h
    intro x hx
    obtain ⟨i, hi, rfl⟩ := List.mem_iff_getElem.mp hx
    simp only [List.getElem_zipWith]
    have hi' : i < wu.length ∧ i < ws.length := by simpa using hi
    exact mul_nonneg (weights_nonneg w _ wu hwu _ (List.getElem_mem hi'.1))
      (weights_nonneg ws0 _ ws hws _ (List.getElem_mem hi'.2))


/-! ### independence from the storage layout -/

/-- **layout_indep.**  Two presentations of a matrix (dense / CSR / CSC / COO, any order of the
stored entries, explicit zeros, duplicate entries) with the same canonical CSC — duplicates summed,
row indices sorted, explicit zeros kept — get the same weights, for every kernel (exact,
approximate, supervised): the row-sum baseline is itself a function of the canonical form. -/
theorem layout_indep (nrows ncols : Nat) (A B : List (Entry ℝ)) (s : ℝ) (k : Kernel)
    (t : Option (List Nat)) (hA : validEntries nrows ncols A = true)
    (hB : validEntries nrows ncols B = true) (hc : canonCSC ncols A = canonCSC ncols B) :
    informationWeight nrows ncols A s k t = informationWeight nrows ncols B s k t := by
  unfold informationWeight
  rw [hA, hB, rowSums_of_canon nrows ncols A hA, rowSums_of_canon nrows ncols B hB, hc]

/-- explicit zeros and the split of a count into duplicates do not change the canonical dense
column (what `layout_indep` is applied to) -/
theorem canon_dense_column (es : List (Nat × ℝ)) (i : Nat) : cval (canonCol es) i = cval es i :=
  cval_canonCol es i

/-! ### the whole matrix -/

/-- **information_weight = KL, for every storage presentation.**  For a non-negative matrix with
positive total mass given by *any* list of stored entries inside its shape (any order, explicit
zeros, duplicates) and `prior_strength > 0`, `information_weight` with the exact prior — validity
check, row-sum baseline, canonical CSC, then the kernel as written on every column — never fails
and returns, for column `j`, `KL(post_j ‖ baseline)` where `baseline_i = rowmass_i / total` and
`post_j(i) = (M_ij + s·baseline_i) / (colmass_j + s)` are defined on the *dense* matrix
(`M_ij` = sum of the stored values at `(i, j)`); every weight is `≥ 0`. -/
theorem information_weight_eq_kl (nrows ncols : Nat) (es : List (Entry ℝ)) (s : ℝ)
    (hv : validEntries nrows ncols es = true) (hnn : ∀ e ∈ es, 0 ≤ e.2.2)
    (htot : 0 < total nrows es) (hs0 : 0 < s) :
    informationWeight nrows ncols es s .exact none
        = .ok ((List.range ncols).map (klWeight nrows es s)) ∧
      ∀ j < ncols, 0 ≤ klWeight nrows es s j :=
  ⟨informationWeight_exact_eq nrows ncols es s hv hnn htot hs0,
   fun j hj => klWeight_nonneg nrows ncols es s ((validEntries_iff nrows ncols es).mp hv) hnn htot hs0 j hj⟩

/-- **row_perm_invariant** (exact prior): renaming the rows by a permutation `ρ` of `[0, nrows)`
(given with its inverse `ρi`) leaves the weights unchanged. -/
theorem row_perm_invariant (nrows ncols : Nat) (es : List (Entry ℝ)) (s : ℝ) (ρ ρi : Nat → Nat)
    (hv : validEntries nrows ncols es = true) (hnn : ∀ e ∈ es, 0 ≤ e.2.2)
    (htot : 0 < total nrows es) (hs0 : 0 < s)
    (h1 : ∀ i < nrows, ρ i < nrows) (h2 : ∀ i < nrows, ρi i < nrows)
    (h3 : ∀ i < nrows, ρi (ρ i) = i) (h4 : ∀ i < nrows, ρ (ρi i) = i) :
    informationWeight nrows ncols (permRows ρ es) s .exact none
      = informationWeight nrows ncols es s .exact none := by
  have hvalid := (validEntries_iff nrows ncols es).mp hv
  have hk := fun j => klWeight_permRows nrows ncols es s ρ ρi hvalid h1 h2 h3 h4 j
  rw [informationWeight_exact_eq nrows ncols es s hv hnn htot hs0,
    informationWeight_exact_eq nrows ncols (permRows ρ es) s
      (validEntries_permRows nrows ncols ρ es h1 hv) (nonneg_permRows ρ es hnn)
      (by rw [(hk 0).2]; exact htot) hs0]
  congr 1
  apply List.map_congr_left
  intro j _
  exact (hk j).1

/-- **col_perm_equivariant** (exact prior): renaming the columns by an injective `τ` on
`[0, ncols)` moves each weight with its column: `w'[τ j] = w[j]`. -/
theorem col_perm_equivariant (nrows ncols : Nat) (es : List (Entry ℝ)) (s : ℝ) (τ : Nat → Nat)
    (hv : validEntries nrows ncols es = true) (hnn : ∀ e ∈ es, 0 ≤ e.2.2)
    (htot : 0 < total nrows es) (hs0 : 0 < s)
    (h1 : ∀ j < ncols, τ j < ncols) (hinj : ∀ a < ncols, ∀ b < ncols, τ a = τ b → a = b) :
    ∃ w w', informationWeight nrows ncols es s .exact none = .ok w ∧
      informationWeight nrows ncols (permCols τ es) s .exact none = .ok w' ∧
      w.length = ncols ∧ w'.length = ncols ∧
      ∀ j < ncols, w'.getD (τ j) 0 = w.getD j 0 := by
  have hvalid := (validEntries_iff nrows ncols es).mp hv
  have hk := fun j hj => klWeight_permCols nrows ncols es s τ hinj hvalid j hj
  have htot' : 0 < total nrows (permCols τ es) := by
    have : total nrows (permCols τ es) = total nrows es := by
      unfold total
      rw [funext (rowMass_permCols τ es)]
    rw [this]; exact htot
  refine ⟨_, _, informationWeight_exact_eq nrows ncols es s hv hnn htot hs0,
    informationWeight_exact_eq nrows ncols (permCols τ es) s
      (validEntries_permCols nrows ncols τ es h1 hv) (nonneg_permCols τ es hnn) htot' hs0,
    by simp, by simp, ?_⟩
  intro j hj
  rw [getD_map_range ncols _ _ (h1 j hj), getD_map_range ncols _ _ hj]
  exact (hk j hj).1

/-! ### non-vacuity -/

example : StrictInc [0, 2, 5] := by simp [StrictInc]
example : searchsorted [0, 2, 5] 2 = .ok 1 := by decide
example : validEntries 3 2 ([(2, 0, 3), (0, 0, 1), (1, 0, 2), (2, 1, 1), (2, 0, 0)] : List (Entry ℝ)) = true := by
  simp [validEntries]
example : ∃ w : ℝ, klExact [0, 2] [(1 : ℝ), 3] [(1 / 4 : ℝ), 0, 3 / 4] (1 / 10) = .ok w ∧ 0 ≤ w :=
  exact_weight_finite_nonneg [0, 2] [1, 3] [1 / 4, 0, 3 / 4] (1 / 10) rfl (by simp [StrictInc])
    (by norm_num) (by intro c hc; simp at hc; rcases hc with rfl | rfl <;> norm_num)
    (by intro c hc; simp at hc; rcases hc with rfl | rfl | rfl <;> norm_num)
    (by intro i hi; simp at hi; rcases hi with rfl | rfl <;> simp)
    (by norm_num)
    (by
      intro k hk _
      have : k = 0 ∨ k = 1 := by simp at hk; omega
      rcases this with rfl | rfl <;> norm_num)

end VecModel.IW
