import VecModel.Lemmas.CooIdx
/-
  C04 — co-occurrence results do not depend on threads, buffer sizes or data volume
  (and the append-buffer part of C10).  Models: Model/Coo.lean (code after the repairs of D9,
  D10, D11 and of the `min` overflow).

  * Theorems about `Coo.append`, `Coo.appendAll`, `Coo.finalize`, `Coo.build` are about the
    INDEX-LEVEL model: a transliteration of the njit functions in which every array access is
    checked, so `= .ok _` means "no access outside an array".  They hold for every event list,
    every sort limit ≥ 1 and every initial capacity ≥ 5 (the vectorizers never allocate less
    than COO_MIN_SIZE = 32), keys ≠ -1 (the merge uses -1 as sentinel; the kernels' keys are ≥ 0).
    They are obtained from the proved refinement "`Coo.append lim c e = .ok c'` and `c'`
    represents `Runs.append lim s e` whenever `c` represents `s`" (Lemmas/CooIdx.lean: the merge
    loop, the in-place summing loop, the level loop, merge-all, growth) …
  * … and the `runs_…` theorems about the RUN-LEVEL model `Coo.Runs` (the buffer as a
    binary-counter stack of sorted runs + unsorted tail), for every limit ≥ 1 and capacity ≥ 2.
  * chunking: `chunkBoundaries_partition`, `perm_chunks`, `chunk_sum_indep`, `threads_indep`.
  Nothing here is `_partial`.  Not covered by proof (see harness/c04.py ASSUMPTIONS): float32
  rounding / summation order, int32/int64 overflow, real thread interleavings, scipy's sum of
  sparse matrices, and the agreement of the models with the code (differential check).
-/
namespace VecModel.C04
open VecModel.Coo VecModel.Coo.Runs List

/-- invariant of the run-level buffer: occupied levels are strictly sorted runs and there is
room for the next write plus the slot the code keeps free (`ind ≤ capacity - 2`) -/
def Inv (s : St) : Prop := WF s ∧ ind s + 2 ≤ s.cap

theorem mk_inv {cap : Nat} (h : 2 ≤ cap) : Inv (mk cap) := by
  refine ⟨?_, ?_⟩
  · intro r hr; simp [Runs.mk] at hr
  · simpa [Runs.mk, ind, lenAbove] using h

/-! ### append: nothing lost, duplicated or credited to another cell; never out of room -/

/-- one `coo = coo_append(coo, e)`: the invariant is kept (in particular the write position
`ind` was inside the buffer and still is for the next append, whatever the capacity ≥ 2 and
the limit ≥ 1 — this is where the D11 repair is needed), and the summed weight of every key
changes exactly by the appended event. -/
theorem runs_append_refines {lim : Nat} {s : St} (e : Entry) (hl : 1 ≤ lim) (h : Inv s) :
    Inv (append lim s e) ∧
    ∀ k, abs (append lim s e) k = abs s k + (if e.key = k then e.val else 0) := by
  obtain ⟨hwf, hroom⟩ := h
  have hs1 : ind { s with tail := s.tail ++ [e] } = ind s + 1 := ind_snoc s e
  have hwf1 : WF { s with tail := s.tail ++ [e] } := hwf
  have hc1 : ({ s with tail := s.tail ++ [e] } : St).cap = s.cap := rfl
  have habs1 : ∀ k, abs { s with tail := s.tail ++ [e] } k = abs s k + (if e.key = k then e.val else 0) := by
    intro k; simp [abs, Runs.live, total_append, Int.add_assoc]
  unfold Runs.append
  simp only
  split
  · -- first block ran
    have hr := room_compactAndGrow (lim := lim) (s := { s with tail := s.tail ++ [e] }) hl (by omega)
    have hw := wf_compactAndGrow (lim := lim) hwf1
    split
    · refine ⟨⟨wf_compactAndGrow hw, room_compactAndGrow hl (by omega)⟩, ?_⟩
      intro k; rw [abs_compactAndGrow, abs_compactAndGrow, habs1]
    · refine ⟨⟨hw, hr⟩, ?_⟩
      intro k; rw [abs_compactAndGrow, habs1]
  · split
    · next hfull =>
      refine ⟨⟨wf_compactAndGrow hwf1, room_compactAndGrow hl (by omega)⟩, ?_⟩
      intro k; rw [abs_compactAndGrow, habs1]
    · next hnf =>
      refine ⟨⟨hwf1, ?_⟩, habs1⟩
      omega

/-- any event sequence, any limit ≥ 1, any capacity: the invariant is kept throughout and
`abs` = what was there + the sum by key of all appended events -/
theorem runs_appendAll_refines {lim : Nat} (es : List Entry) {s : St} (hl : 1 ≤ lim) (h : Inv s) :
    Inv (appendAll lim s es) ∧ ∀ k, abs (appendAll lim s es) k = abs s k + total k es := by
  induction es generalizing s with
  | nil => exact ⟨h, by intro k; simp [Runs.appendAll]⟩
  | cons e es ih =>
    obtain ⟨h1, a1⟩ := runs_append_refines e hl h
    obtain ⟨h2, a2⟩ := ih h1
    refine ⟨by simpa [Runs.appendAll] using h2, ?_⟩
    intro k
    have := a2 k
    simp only [Runs.appendAll, List.foldl_cons] at this ⊢
    rw [this, a1 k, total_cons]; omega

/-- the kernels' finalisation keeps every key's weight -/
theorem runs_finalize_abs (s : St) (k : Int) : abs (finalize s) k = abs s k := by
  rw [Runs.finalize, abs_mergeAll, abs_round]

/-- …and leaves the live entries strictly sorted by key: each cell at most once -/
theorem runs_finalize_sorted_unique {s : St} (h : WF s) : SSorted (live (finalize s)) :=
  mergeAll_single (wf_round h) (tail_round s)

/-! ### the whole pipeline of one buffer -/

theorem runs_build_total {lim cap : Nat} (es : List Entry) (hl : 1 ≤ lim) (hc : 2 ≤ cap) (k : Int) :
    total k (build lim cap es) = total k es := by
  have h := (runs_appendAll_refines es hl (mk_inv hc)).2 k
  have h0 : abs (mk cap) k = 0 := by simp [abs, Runs.live, Runs.mk, liveLevels]
  have := runs_finalize_abs (appendAll lim (mk cap) es) k
  simp only [abs] at this h h0
  rw [Runs.build, this, h, h0]; omega

theorem runs_build_sorted_unique {lim cap : Nat} (es : List Entry) (hl : 1 ≤ lim) (hc : 2 ≤ cap) :
    SSorted (build lim cap es) :=
  runs_finalize_sorted_unique (runs_appendAll_refines es hl (mk_inv hc)).1.1

/-- every entry handed to scipy carries exactly the summed weight of the events of its key:
no event lost, duplicated or credited to another cell -/
theorem runs_build_cell {lim cap : Nat} (es : List Entry) (hl : 1 ≤ lim) (hc : 2 ≤ cap)
    {x : Entry} (hx : x ∈ Runs.build lim cap es) : x.val = total x.key es := by
  rw [← runs_build_total es hl hc x.key]
  exact (total_of_mem_ssorted (runs_build_sorted_unique es hl hc) hx).symm

/-- independence from capacity and sort limit (hence from `coo_initial_memory`, from the
per-thread division of the buffers and from growth): the finalised buffers of any two
configurations hold the same weight for every key -/
theorem runs_abs_indep_capacity {lim₁ cap₁ lim₂ cap₂ : Nat} (es : List Entry)
    (h₁ : 1 ≤ lim₁) (c₁ : 2 ≤ cap₁) (h₂ : 1 ≤ lim₂) (c₂ : 2 ≤ cap₂) (k : Int) :
    total k (build lim₁ cap₁ es) = total k (build lim₂ cap₂ es) := by
  rw [runs_build_total es h₁ c₁, runs_build_total es h₂ c₂]

/-- buffer sized by `fit` on a small corpus (`capFit`), `transform` of a corpus producing any
number of events `big`: same result as with a buffer sized for `big` -/
theorem runs_transform_capacity_indep {lim capFit capBig : Nat} (big : List Entry)
    (hl : 1 ≤ lim) (hf : 2 ≤ capFit) (hb : 2 ≤ capBig) (k : Int) :
    total k (build lim capFit big) = total k (build lim capBig big) :=
  runs_abs_indep_capacity big hl hf hl hb k

/-- the kernels compute `key = col + array_mul * row`: row and column are functions of the key -/
def KeyFn (es : List Entry) : Prop :=
  ∀ x ∈ es, ∀ y ∈ es, x.key = y.key → x.row = y.row ∧ x.col = y.col

/-- the finalised buffer is exactly the canonical form of the event list — sorted by key, one
entry per key that occurs, its row/column, the summed weight — for every limit and capacity -/
theorem runs_build_eq_canon {lim cap : Nat} (es : List Entry) (hl : 1 ≤ lim) (hc : 2 ≤ cap)
    (hk : KeyFn es) : Runs.build lim cap es = canon es := by
  have hb := same_build lim cap es
  have hcn := same_canon es
  apply ssorted_ext (runs_build_sorted_unique es hl hc) (ssorted_canon es)
  · intro k; rw [runs_build_total es hl hc, total_canon]
  · intro x hx
    obtain ⟨y, hy, e, _⟩ := hb.1 x hx
    obtain ⟨z, hz, f⟩ := hcn.2 y hy
    exact ⟨z, hz, by omega⟩
  · intro x hx
    obtain ⟨y, hy, e, _⟩ := hcn.1 x hx
    obtain ⟨z, hz, f⟩ := hb.2 y hy
    exact ⟨z, hz, by omega⟩
  · intro x hx y hy hxy
    obtain ⟨x', hx', e1, e2, e3⟩ := hb.1 x hx
    obtain ⟨y', hy', f1, f2, f3⟩ := hcn.1 y hy
    have := hk x' hx' y' hy' (by omega)
    omega

/-- hence the arrays handed to scipy are identical, entry by entry, whatever the sort limit and
the (initial, per-thread, fit-time) capacity -/
theorem runs_build_indep {lim₁ cap₁ lim₂ cap₂ : Nat} (es : List Entry)
    (h₁ : 1 ≤ lim₁) (c₁ : 2 ≤ cap₁) (h₂ : 1 ≤ lim₂) (c₂ : 2 ≤ cap₂) (hk : KeyFn es) :
    Runs.build lim₁ cap₁ es = Runs.build lim₂ cap₂ es := by
  rw [runs_build_eq_canon es h₁ c₁ hk, runs_build_eq_canon es h₂ c₂ hk]

/-- no cell is dropped: every event's cell is present in the result, with its row and column -/
theorem runs_build_complete {lim cap : Nat} (es : List Entry) (hk : KeyFn es)
    {y : Entry} (hy : y ∈ es) :
    ∃ x ∈ Runs.build lim cap es, x.key = y.key ∧ x.row = y.row ∧ x.col = y.col := by
  obtain ⟨x, hx, e⟩ := (same_build lim cap es).2 y hy
  obtain ⟨y', hy', f1, f2, f3⟩ := (same_build lim cap es).1 x hx
  have := hk y' hy' y hy (by omega)
  exact ⟨x, hx, e, by omega, by omega⟩

/-! ### chunking and schedules -/

/-- `_generate_chunk_boundaries` always returns adjacent intervals covering all documents
(empty chunks included), for every number of threads: the chunks are a partition -/
theorem chunkBoundaries_partition {α} (docs : List α) (size : α → Nat) (n : Nat) :
    (chunksOf docs (chunkBoundaries (docs.map size) n)).flatten = docs := by
  have h := chunkBoundaries_contig (docs.map size) n
  rw [flatten_chunksOf docs h]
  simp

/-- the matrix (weight per key) obtained by summing per-chunk results -/
def sumOfChunks (ms : List (List Entry)) (k : Int) : Int := (ms.map (total k)).sum

/-- any split of the documents into chunks (each chunk's events go through its own buffer, of
its own capacity and limit), summed: equals the matrix of the whole corpus through one buffer.
`ev` = the events a document generates (the window/kernel code: a parameter). -/
theorem runs_chunk_sum_indep {α} (ev : α → List Entry) (chunks : List (List α))
    (lim cap : List α → Nat) (hl : ∀ c, 1 ≤ lim c) (hc : ∀ c, 2 ≤ cap c)
    {lim₀ cap₀ : Nat} (hl₀ : 1 ≤ lim₀) (hc₀ : 2 ≤ cap₀) (k : Int) :
    sumOfChunks (chunks.map fun c => build (lim c) (cap c) (c.flatMap ev)) k
      = total k (build lim₀ cap₀ (chunks.flatten.flatMap ev)) := by
  rw [runs_build_total _ hl₀ hc₀]
  induction chunks with
  | nil => simp [sumOfChunks]
  | cons c cs ih =>
    simp only [sumOfChunks, List.map_cons, List.sum_cons, List.flatten_cons, List.flatMap_append,
      total_append] at ih ⊢
    rw [ih, runs_build_total _ (hl c) (hc c)]

/-- the code's own chunking, for every `n_threads`: same matrix as the unchunked run -/
theorem runs_threads_indep {α} (ev : α → List Entry) (size : α → Nat) (docs : List α) (n : Nat)
    (lim cap : List α → Nat) (hl : ∀ c, 1 ≤ lim c) (hc : ∀ c, 2 ≤ cap c)
    {lim₀ cap₀ : Nat} (hl₀ : 1 ≤ lim₀) (hc₀ : 2 ≤ cap₀) (k : Int) :
    sumOfChunks ((chunksOf docs (chunkBoundaries (docs.map size) n)).map
        fun c => build (lim c) (cap c) (c.flatMap ev)) k
      = total k (build lim₀ cap₀ (docs.flatMap ev)) := by
  rw [runs_chunk_sum_indep ev _ lim cap hl hc hl₀ hc₀, chunkBoundaries_partition]

/-- the order in which the per-chunk matrices are produced and summed is irrelevant
(commutative monoid): schedule independence -/
theorem perm_chunks {ms ms' : List (List Entry)} (h : ms ~ ms') (k : Int) :
    sumOfChunks ms k = sumOfChunks ms' k :=
  sum_perm_int (h.map (total k))

/-- splitting the event stream anywhere (not only at document boundaries) and summing the
pieces gives the total of the stream -/
theorem sum_of_pieces (pieces : List (List Entry)) (k : Int) :
    sumOfChunks pieces k = total k pieces.flatten :=
  (total_flatten k pieces).symm

/-! ### index level: the transliterated code with checked array accesses -/

/-- what is true of the arrays between two appends: they represent a run-level state (`Rep`:
sizes, live entries, `ind`, `depth`, the contents of `min`, keys ≠ -1), the runs are strictly
sorted, two slots of the buffer and four slots of `min` are free -/
def IdxInv (c : Coo) (s : St) : Prop := Rep c s ∧ Inv s ∧ s.levels.length + 4 < s.mcap

/-- a fresh buffer of capacity ≥ 5, as the kernels allocate it -/
theorem mk_idxInv {cap : Nat} (h : 5 ≤ cap) : ∃ c, Coo.mk cap = .ok c ∧ IdxInv c (Runs.mk cap) := by
  obtain ⟨c, a, r⟩ := mk_rep (cap := cap) (by omega)
  refine ⟨c, a, r, mk_inv (by omega), ?_⟩
  have := clog2_ge_three h
  simp only [Runs.mk, List.length_nil]; omega

/-- One `coo = coo_append(coo, e)` on arrays, any limit ≥ 1: no access is out of bounds, the
invariant is re-established (so the next append is safe too — D11 and the `min` guard are what
make this true for every capacity and every number of sort rounds), and the weight of every key
in `row/col/val[:ind]` changes exactly by the appended event: nothing lost, duplicated or
credited to another cell. -/
theorem append_refines {c : Coo} {s : St} {lim : Nat} (e : Entry) (hl : 1 ≤ lim) (h : IdxInv c s)
    (he : e.key ≠ -1) :
    ∃ c', Coo.append lim c e = .ok c' ∧ IdxInv c' (Runs.append lim s e) ∧
      ∀ k, total k (Coo.live c') = total k (Coo.live c) + (if e.key = k then e.val else 0) := by
  obtain ⟨hr, hinv, hd⟩ := h
  obtain ⟨c', a, r⟩ := append_spec e hl hr hinv.2 hd he
  obtain ⟨hinv', habs⟩ := runs_append_refines (lim := lim) e hl hinv
  refine ⟨c', a, ⟨r, hinv', depthInv_append e hd⟩, ?_⟩
  intro k
  have h1 : Coo.live c' = Runs.live (Runs.append lim s e) := by simpa [Coo.live] using r.live
  have h2 : Coo.live c = Runs.live s := by simpa [Coo.live] using hr.live
  have := habs k
  simp only [abs] at this
  rw [h1, h2, this]

/-- any event sequence into a fresh buffer of any capacity ≥ 5, any limit ≥ 1: never fails, and
the live entries hold exactly the sum by key of everything appended -/
theorem appendAll_refines {lim cap : Nat} (es : List Entry) (hl : 1 ≤ lim) (hc : 5 ≤ cap)
    (hk : ∀ e ∈ es, e.key ≠ -1) :
    ∃ c0 c', Coo.mk cap = .ok c0 ∧ Coo.appendAll lim c0 es = .ok c' ∧
      IdxInv c' (Runs.appendAll lim (Runs.mk cap) es) ∧ ∀ k, total k (Coo.live c') = total k es := by
  obtain ⟨c0, a0, r0⟩ := mk_rep (cap := cap) (by omega)
  have hc2 : 2 ≤ cap := by omega
  obtain ⟨c1, a1, r1, _, d1⟩ := appendAll_spec hl es r0 (by simpa [Runs.mk, Runs.ind, lenAbove] using hc2) hk
    (depthOK_mk lim hc es)
  have hinv := runs_appendAll_refines es hl (mk_inv hc2)
  refine ⟨c0, c1, a0, a1, ⟨r1, hinv.1, d1⟩, ?_⟩
  intro k
  have h1 : Coo.live c1 = Runs.live (Runs.appendAll lim (Runs.mk cap) es) := by simpa [Coo.live] using r1.live
  have := hinv.2 k
  simp only [abs] at this
  rw [h1, this]
  simp [Runs.live, Runs.mk, liveLevels]

/-- the kernels' finalisation (`coo_sum_duplicates; merge_all_sum_duplicates`) on arrays -/
theorem finalize_refines {c : Coo} {s : St} (h : IdxInv c s) :
    ∃ c', Coo.finalize c = .ok c' ∧ Rep c' (Runs.finalize s) ∧ SSorted (Coo.live c') ∧
      ∀ k, total k (Coo.live c') = total k (Coo.live c) := by
  obtain ⟨hr, hinv, hd⟩ := h
  obtain ⟨c', a, r⟩ := finalize_spec hr (by have := hinv.2; omega) (by omega)
  have h1 : Coo.live c' = Runs.live (Runs.finalize s) := by simpa [Coo.live] using r.live
  have h2 : Coo.live c = Runs.live s := by simpa [Coo.live] using hr.live
  refine ⟨c', a, r, by rw [h1]; exact runs_finalize_sorted_unique hinv.1, ?_⟩
  intro k
  have := runs_finalize_abs s k
  simp only [abs] at this
  rw [h1, h2, this]

/-- the whole kernel-side pipeline of one window on arrays — allocate, append every event,
finalise, read `[:ind]` — never fails and returns the run-level result -/
theorem build_refines {lim cap : Nat} (es : List Entry) (hl : 1 ≤ lim) (hc : 5 ≤ cap)
    (hk : ∀ e ∈ es, e.key ≠ -1) :
    Coo.build lim cap es = .ok (Runs.build lim cap es) :=
  build_spec es hl (by omega) hk (depthOK_mk lim hc es)

/-- …so what is handed to scipy is strictly sorted by key (each cell once) and holds, for every
key, exactly the summed weight of the events of that key -/
theorem finalize_sorted_unique {lim cap : Nat} (es : List Entry) (hl : 1 ≤ lim) (hc : 5 ≤ cap)
    (hk : ∀ e ∈ es, e.key ≠ -1) :
    ∃ out, Coo.build lim cap es = .ok out ∧ SSorted out ∧ (∀ k, total k out = total k es) ∧
      ∀ x ∈ out, x.val = total x.key es :=
  ⟨_, build_refines es hl hc hk, runs_build_sorted_unique es hl (by omega), runs_build_total es hl (by omega),
    fun _ hx => runs_build_cell es hl (by omega) hx⟩

/-- …and is exactly the canonical form of the event list (sorted by key, one entry per key that
occurs, with its row and column and the summed weight) -/
theorem build_eq_canon {lim cap : Nat} (es : List Entry) (hl : 1 ≤ lim) (hc : 5 ≤ cap)
    (hk : ∀ e ∈ es, e.key ≠ -1) (hf : KeyFn es) :
    Coo.build lim cap es = .ok (canon es) := by
  rw [build_refines es hl hc hk, runs_build_eq_canon es hl (by omega) hf]

/-- independence from `coo_initial_memory`, the per-thread division of the buffers, the sort limit
and buffer growth: identical arrays for any two configurations -/
theorem abs_indep_capacity {lim₁ cap₁ lim₂ cap₂ : Nat} (es : List Entry)
    (h₁ : 1 ≤ lim₁) (c₁ : 5 ≤ cap₁) (h₂ : 1 ≤ lim₂) (c₂ : 5 ≤ cap₂)
    (hk : ∀ e ∈ es, e.key ≠ -1) (hf : KeyFn es) :
    Coo.build lim₁ cap₁ es = Coo.build lim₂ cap₂ es := by
  rw [build_eq_canon es h₁ c₁ hk hf, build_eq_canon es h₂ c₂ hk hf]

/-- buffers sized by `fit` on a small corpus (`capFit`), `transform` of a corpus generating any
number of events `big`: same arrays as with buffers sized for `big` itself -/
theorem transform_capacity_indep {lim capFit capBig : Nat} (big : List Entry) (hl : 1 ≤ lim)
    (hf : 5 ≤ capFit) (hb : 5 ≤ capBig) (hk : ∀ e ∈ big, e.key ≠ -1) (hkf : KeyFn big) :
    Coo.build lim capFit big = Coo.build lim capBig big :=
  abs_indep_capacity big hl hf hl hb hk hkf

/-- chunked run on arrays, any split of the documents into chunks (empty chunks included), each
chunk with its own buffers: every chunk's pipeline succeeds and the per-chunk outputs sum to the
matrix of the whole corpus through a single buffer.  `ev` = the events a document generates (the
window/kernel code: a parameter). -/
theorem chunk_sum_indep {α} (ev : α → List Entry) (chunks : List (List α))
    (lim cap : List α → Nat) (hl : ∀ c, 1 ≤ lim c) (hc : ∀ c, 5 ≤ cap c)
    (hk : ∀ c ∈ chunks, ∀ e ∈ c.flatMap ev, e.key ≠ -1) (k : Int) :
    ∃ outs, chunks.mapM (fun c => Coo.build (lim c) (cap c) (c.flatMap ev)) = .ok outs ∧
      sumOfChunks outs k = total k (chunks.flatten.flatMap ev) := by
  refine ⟨chunks.map fun c => Runs.build (lim c) (cap c) (c.flatMap ev), ?_, ?_⟩
  · clear k
    induction chunks with
    | nil => rfl
    | cons c cs ih =>
      have h1 := build_refines (c.flatMap ev) (hl c) (hc c) (hk c (by simp))
      have h2 := ih (fun c' hc' => hk c' (List.mem_cons_of_mem _ hc'))
      simp only [List.mapM_cons, h1, h2, bind, Except.bind, pure, Except.pure, List.map_cons]
  · have := runs_chunk_sum_indep ev chunks lim cap hl (fun c => by have := hc c; omega)
      (lim₀ := 1) (cap₀ := 2) (by omega) (by omega) k
    rw [this, runs_build_total _ (by omega) (by omega)]

/-- the code's own chunking (`_generate_chunk_boundaries`), for every `n_threads`: the sum of the
per-chunk outputs is the matrix of the unchunked run -/
theorem threads_indep {α} (ev : α → List Entry) (size : α → Nat) (docs : List α) (n : Nat)
    (lim cap : List α → Nat) (hl : ∀ c, 1 ≤ lim c) (hc : ∀ c, 5 ≤ cap c)
    (hk : ∀ d ∈ docs, ∀ e ∈ ev d, e.key ≠ -1) {lim₀ cap₀ : Nat} (hl₀ : 1 ≤ lim₀) (hc₀ : 5 ≤ cap₀) (k : Int) :
    ∃ outs whole, (chunksOf docs (chunkBoundaries (docs.map size) n)).mapM
        (fun c => Coo.build (lim c) (cap c) (c.flatMap ev)) = .ok outs ∧
      Coo.build lim₀ cap₀ (docs.flatMap ev) = .ok whole ∧
      sumOfChunks outs k = total k whole := by
  have hkd : ∀ e ∈ docs.flatMap ev, e.key ≠ -1 := by
    intro e he
    obtain ⟨d, hd, hed⟩ := List.mem_flatMap.mp he
    exact hk d hd e hed
  have hpart := chunkBoundaries_partition docs size n
  obtain ⟨outs, h1, h2⟩ := chunk_sum_indep ev (chunksOf docs (chunkBoundaries (docs.map size) n)) lim cap hl hc
    (by
      intro c hcm e he
      obtain ⟨d, hd, hed⟩ := List.mem_flatMap.mp he
      have : d ∈ docs := by
        rw [← hpart]; exact List.mem_flatten.mpr ⟨c, hcm, hd⟩
      exact hk d this e hed) k
  refine ⟨outs, _, h1, build_refines _ hl₀ hc₀ hkd, ?_⟩
  rw [h2, hpart, runs_build_total _ hl₀ (by omega)]

/-! ### non-vacuity -/

example : Inv (mk 2) := mk_inv (by omega)
-- the index-level invariant is satisfiable: the buffers the vectorizers allocate (capacity ≥ 32)
example : ∃ c, Coo.mk 32 = .ok c ∧ IdxInv c (Runs.mk 32) := mk_idxInv (by omega)
example : ∀ e ∈ ([⟨0, 1, 1, 1⟩, ⟨2, 0, 1, 6⟩] : List Entry), e.key ≠ -1 := by decide
example : ∃ lim cap : Nat, 1 ≤ lim ∧ 2 ≤ cap ∧ Inv (mk cap) := ⟨4, 8, by omega, by omega, mk_inv (by omega)⟩
-- the append really changes the state it is stated about (hypotheses are not contradictory)
example : (append 4 (mk 8) ⟨0, 1, 1, 1⟩).tail = [⟨0, 1, 1, 1⟩] := by decide
example : KeyFn [⟨0, 1, 1, 1⟩, ⟨0, 1, 2, 1⟩, ⟨2, 0, 1, 6⟩] := by unfold KeyFn; decide
example : chunkBoundaries [3, 4, 5, 1, 1, 10] 3 = [(0, 2), (2, 5), (5, 6)] := by decide
example : chunkBoundaries [10, 0, 0] 3 = [(0, 0), (0, 3)] := by decide
example : chunksOf [1, 2, 3, 4, 5, 6] [(0, 2), (2, 5), (5, 6)] = [[1, 2], [3, 4, 5], [6]] := by decide

end VecModel.C04
