import VecModel.Lemmas.BPE
/-
  C09 — Byte-pair encodings are lossless, reproducible and within the vocabulary budget.
  Property theorems (helper lemmas live in Lemmas/BPE.lean). Every theorem here is an
  obligation of the C09 check; see DESIGN.md §5 C09.
-/
namespace VecModel.BPE

/-- The index-level `contract_pair` loop (checked reads/writes, tail copy after the loop) never
fails and computes the greedy left-to-right contraction — for **all** lengths incl. 0 and 1. -/
theorem contractPairIdx_eq (a : List Int) (p : Pair) (c : Int) :
    contractPairIdx a p c = .ok (contract p c a) := by
  rw [contractPairIdx_eq_bind]
  cases a with
  | nil => simp [cpLoop, finish, contract_nil, bind, Except.bind]
  | cons x xs =>
    have := cpLoop_finish (x :: xs) p c xs.length 0 false [] (by simp) (by simp)
    simpa using this

/-- hence the index-level encoder equals the functional one and never fails -/
theorem encodeIdx_eq (cl : List Pair) (mcc : Int) (chars : List Int) :
    encodeIdx cl mcc chars = .ok (encode cl mcc chars) := by
  unfold encodeIdx encode
  generalize chars.map (clip mcc) = s
  generalize mcc + 1 = next
  induction cl generalizing next s with
  | nil => simp [replayIdx, replay]
  | cons p rest ih =>
    simp only [replayIdx, replay, contractPairIdx_eq, bind, Except.bind]
    exact ih _ _

/-- a well-formed merge list always has a token table -/
theorem tokens_exist (cl : List Pair) (mcc : Int) (h : WF cl mcc = true) :
    ∃ T, tokensOf cl mcc = some T := by
  unfold tokensOf WF at *
  exact buildTokens_isSome mcc cl [] (by simpa using h)

/-- **Lossless encoding**: decoding `transform`'s encoding of any string through `tokens_`
gives the string back, with characters above `max_char_code_` replaced by code 0. -/
theorem encode_lossless (cl : List Pair) (mcc : Int) (T : List (List Int)) (chars : List Int)
    (hm : 0 ≤ mcc) (hwf : WF cl mcc = true) (hT : tokensOf cl mcc = some T) :
    decode T mcc (encode cl mcc chars) = some (chars.map (clip mcc)) := by
  unfold encode
  have hclip : ∀ x ∈ chars.map (clip mcc), x ≤ mcc := by
    intro x hx
    obtain ⟨c, _, rfl⟩ := List.mem_map.mp hx
    unfold clip; split <;> omega
  have := replay_decode mcc cl [] T (mcc + 1) (chars.map (clip mcc)) (by simp) hwf hT
    (fun x hx => by have := hclip x hx; omega)
  rw [this]
  exact decode_chars _ hclip

/-- every learned token is the concatenation of the strings of its pair -/
theorem tokens_concat (cl : List Pair) (mcc : Int) (T : List (List Int))
    (hT : tokensOf cl mcc = some T) :
    T.length = cl.length ∧
    ∀ k (hk : k < cl.length), ∃ l r,
      codeStr T mcc cl[k].1 = some l ∧ codeStr T mcc cl[k].2 = some r ∧ T[k]? = some (l ++ r) := by
  unfold tokensOf at hT
  -- generalise over the already-built prefix
  suffices H : ∀ (cl : List Pair) (T0 T : List (List Int)), buildTokens mcc cl T0 = some T →
      (∀ k (hk : k < cl.length), ∃ l r, codeStr T mcc cl[k].1 = some l ∧
        codeStr T mcc cl[k].2 = some r ∧ T[T0.length + k]? = some (l ++ r)) by
    obtain ⟨U, hU, hlen⟩ := buildTokens_prefix mcc cl [] T hT
    refine ⟨by simp [hU, hlen], ?_⟩
    intro k hk
    simpa using H cl [] T hT k hk
  intro cl
  induction cl with
  | nil => intro T0 T _ k hk; simp at hk
  | cons p rest ih =>
    intro T0 T hb k hk
    unfold buildTokens at hb
    split at hb
    · rename_i l r hl hr
      obtain ⟨U, hU, _⟩ := buildTokens_prefix mcc rest _ _ hb
      have hT : T = T0 ++ ((l ++ r) :: U) := by simp [hU]
      cases k with
      | zero =>
        refine ⟨l, r, ?_, ?_, ?_⟩
        · have hlt : p.1 < mcc + 1 + T0.length := by
            unfold codeStr at hl
            by_cases hx : p.1 ≤ mcc
            · omega
            · simp only [hx, if_false] at hl
              have := (List.getElem?_eq_some_iff.mp hl).1
              omega
          simp only [List.getElem_cons_zero]
          rw [hT, codeStr_append_left hlt]; exact hl
        · have hlt : p.2 < mcc + 1 + T0.length := by
            unfold codeStr at hr
            by_cases hx : p.2 ≤ mcc
            · omega
            · simp only [hx, if_false] at hr
              have := (List.getElem?_eq_some_iff.mp hr).1
              omega
          simp only [List.getElem_cons_zero]
          rw [hT, codeStr_append_left hlt]; exact hr
        · simp [hT]
      | succ k =>
        have := ih (T0 ++ [l ++ r]) T hb k (by simpa using hk)
        obtain ⟨l', r', e1, e2, e3⟩ := this
        refine ⟨l', r', by simpa using e1, by simpa using e2, ?_⟩
        have : T0.length + (k + 1) = (T0 ++ [l ++ r]).length + k := by simp; omega
        rw [this]; exact e3
    · exact absurd hb (by simp)

/-! ### Training: for an arbitrary pair-selection function -/

theorem trainLoop_eq_replay (select : TrainSt → Option Pair) (X : List (List Int)) (base : Int) :
    ∀ (fuel : Nat) (st : TrainSt),
      st.next = base + st.cl.length → st.enc = X.map (replay st.cl base) →
      (trainLoop select fuel st).enc = X.map (replay (trainLoop select fuel st).cl base) ∧
      (trainLoop select fuel st).next = base + (trainLoop select fuel st).cl.length := by
  intro fuel
  induction fuel with
  | zero => intro st h1 h2; exact ⟨h2, h1⟩
  | succ fuel ih =>
    intro st h1 h2
    unfold trainLoop
    split
    · exact ⟨h2, h1⟩
    · rename_i p _
      apply ih
      · simp; omega
      · simp only [h2, List.map_map]
        apply List.map_congr_left
        intro s _
        simp [replay_append, h1]

theorem le_maxChar (mcc0 : Int) (X : List (List Int)) :
    mcc0 ≤ maxChar mcc0 X ∧ ∀ s ∈ X, ∀ c ∈ s, c ≤ maxChar mcc0 X := by
  unfold maxChar
  have inner : ∀ (s : List Int) (m : Int),
      m ≤ s.foldl (fun m c => if c > m then c else m) m ∧
      ∀ c ∈ s, c ≤ s.foldl (fun m c => if c > m then c else m) m := by
    intro s
    induction s with
    | nil => intro m; simp
    | cons c cs ih =>
      intro m
      simp only [List.foldl_cons]
      obtain ⟨h1, h2⟩ := ih (if c > m then c else m)
      have hmax : m ≤ (if c > m then c else m) ∧ c ≤ (if c > m then c else m) := by
        split <;> omega
      refine ⟨by omega, ?_⟩
      intro d hd
      rcases List.mem_cons.mp hd with rfl | hd
      · omega
      · exact h2 d hd
  induction X generalizing mcc0 with
  | nil => simp
  | cons s rest ih =>
    simp only [List.foldl_cons]
    obtain ⟨i1, i2⟩ := inner s mcc0
    obtain ⟨h1, h2⟩ := ih (s.foldl (fun m c => if c > m then c else m) mcc0)
    refine ⟨by omega, ?_⟩
    intro t ht c hc
    rcases List.mem_cons.mp ht with rfl | ht
    · have := i2 c hc; omega
    · exact h2 t ht c hc

/-- **fit_transform = transform on the training strings** (C02 for BPE): the encodings kept by
training are exactly the replay of the learned merge list, whatever pair the selection picks,
whenever it stops, and whatever the budget. -/
theorem train_eq_replay (select : TrainSt → Option Pair) (budget : Nat) (mcc0 : Int)
    (X : List (List Int)) :
    (train select budget mcc0 X).1.enc =
      X.map (encode (train select budget mcc0 X).1.cl (train select budget mcc0 X).2) := by
  unfold train
  simp only
  have h := (trainLoop_eq_replay select X (maxChar mcc0 X + 1) budget
    { enc := X, cl := [], next := maxChar mcc0 X + 1 } (by simp) (by simp [replay])).1
  rw [h]
  apply List.map_congr_left
  intro s hs
  unfold encode
  congr 1
  have := (le_maxChar mcc0 X).2 s hs
  conv => lhs; rw [← List.map_id s]
  apply List.map_congr_left
  intro c hc
  simp [clip, this c hc]

/-- at most `max_vocab_size` merges are learned -/
theorem budget (select : TrainSt → Option Pair) (budget : Nat) (mcc0 : Int) (X : List (List Int)) :
    (train select budget mcc0 X).1.cl.length ≤ budget := by
  unfold train
  simp only
  suffices H : ∀ (fuel : Nat) (st : TrainSt),
      (trainLoop select fuel st).cl.length ≤ st.cl.length + fuel by
    simpa using H budget { enc := X, cl := [], next := maxChar mcc0 X + 1 }
  intro fuel
  induction fuel with
  | zero => intro st; simp [trainLoop]
  | succ fuel ih =>
    intro st
    unfold trainLoop
    split
    · omega
    · rename_i p _
      have := ih { enc := st.enc.map (contract p st.next), cl := st.cl ++ [p], next := st.next + 1 }
      simp at this
      omega

/-- selection only ever proposes pairs made of codes that already exist -/
def SelectValid (select : TrainSt → Option Pair) : Prop :=
  ∀ st p, select st = some p → p.1 < st.next ∧ p.2 < st.next

theorem trainLoop_wf (select : TrainSt → Option Pair) (hsel : SelectValid select) (base : Int) :
    ∀ (fuel : Nat) (st : TrainSt),
      st.next = base + st.cl.length → wfFrom base st.cl = true →
      wfFrom base (trainLoop select fuel st).cl = true := by
  intro fuel
  induction fuel with
  | zero => intro st _ h; exact h
  | succ fuel ih =>
    intro st h1 h2
    unfold trainLoop
    split
    · exact h2
    · rename_i p hp
      apply ih
      · simp; omega
      · obtain ⟨a, b⟩ := hsel st p hp
        simp only [wfFrom_append, h2, Bool.true_and, Bool.and_eq_true, decide_eq_true_eq]
        constructor <;> omega

/-- **Lossless training**: every training encoding decodes to its own string, for any valid
selection, any budget, any corpus (non-negative initial `max_char_code`). -/
theorem train_lossless (select : TrainSt → Option Pair) (hsel : SelectValid select)
    (budget : Nat) (mcc0 : Int) (hm : 0 ≤ mcc0) (X : List (List Int)) :
    let r := train select budget mcc0 X
    ∃ T, tokensOf r.1.cl r.2 = some T ∧
      r.1.enc.map (decode T r.2) = X.map some := by
  intro r
  have hwf : WF r.1.cl r.2 = true := by
    show wfFrom (maxChar mcc0 X + 1) _ = true
    exact trainLoop_wf select hsel (maxChar mcc0 X + 1) budget _ (by simp) (by simp [wfFrom])
  obtain ⟨T, hT⟩ := tokens_exist _ _ hwf
  refine ⟨T, hT, ?_⟩
  have henc : r.1.enc = X.map (encode r.1.cl r.2) := train_eq_replay select budget mcc0 X
  rw [henc, List.map_map]
  apply List.map_congr_left
  intro s hs
  have hmcc : 0 ≤ r.2 := by
    have := (le_maxChar mcc0 X).1
    show 0 ≤ maxChar mcc0 X
    omega
  simp only [Function.comp]
  rw [encode_lossless _ _ T s hmcc hwf hT]
  congr 1
  conv => rhs; rw [← List.map_id s]
  apply List.map_congr_left
  intro c hc
  have := (le_maxChar mcc0 X).2 s hs c hc
  have : c ≤ r.2 := this
  simp [clip, this]

/-! ### Length: an encoding is never longer than its string; strings of length ≤ 1 are fixed points -/

theorem contract_length_le (p : Pair) (c : Int) : ∀ s : List Int, (contract p c s).length ≤ s.length
  | [] => by simp [contract]
  | [_] => by simp [contract]
  | a :: b :: rest => by
    rw [contract]
    split
    · have := contract_length_le p c rest
      simp only [List.length_cons]; omega
    · have := contract_length_le p c (b :: rest)
      simp only [List.length_cons] at this ⊢; omega

theorem replay_length_le (cl : List Pair) : ∀ (next : Int) (s : List Int),
    (replay cl next s).length ≤ s.length := by
  induction cl with
  | nil => intro next s; simp [replay]
  | cons p rest ih =>
    intro next s
    rw [replay]
    exact Nat.le_trans (ih _ _) (contract_length_le p next s)

/-- **Within the budget, per string**: `transform`'s encoding of a string has at most as many codes as
the string has characters — any merge list, any string. -/
theorem encode_length_le (cl : List Pair) (mcc : Int) (chars : List Int) :
    (encode cl mcc chars).length ≤ chars.length := by
  unfold encode
  simpa using replay_length_le cl (mcc + 1) (chars.map (clip mcc))

theorem replay_short (cl : List Pair) : ∀ (next : Int) (s : List Int), s.length ≤ 1 → replay cl next s = s := by
  induction cl with
  | nil => intro next s _; simp [replay]
  | cons p rest ih =>
    intro next s hs
    have hc : contract p next s = s := by
      match s, hs with
      | [], _ => simp [contract]
      | [_], _ => simp [contract]
    rw [replay, hc]
    exact ih _ _ hs

/-- the empty string and one-character strings (the inputs on which the unrepaired `contract_pair`
returned uninitialised memory) encode to themselves, clipped — whatever was learned -/
theorem encode_short (cl : List Pair) (mcc : Int) (chars : List Int) (h : chars.length ≤ 1) :
    encode cl mcc chars = chars.map (clip mcc) := by
  unfold encode
  exact replay_short cl _ _ (by simpa using h)

/-! ### 'matrix' output: the count row is a multiset function of the encoding and additive -/

/-- the count row depends only on the multiset of codes of the encoding -/
theorem countRow_perm (cols : List Int) (e e' : List Int) (hp : e.Perm e') :
    countRow cols e = countRow cols e' := by
  unfold countRow
  apply List.map_congr_left
  intro c _
  exact hp.count_eq c

/-- and is additive: the row of a concatenated code sequence is the entrywise sum of the rows -/
theorem countRow_append (cols : List Int) (e e' : List Int) :
    countRow cols (e ++ e') = List.zipWith (· + ·) (countRow cols e) (countRow cols e') := by
  apply List.ext_getElem
  · simp [countRow]
  · intro i h1 h2
    simp [countRow, List.count_append]

/-! ### Non-vacuity: `["abab", "a", ""]` with two merges (a=97, b=98). -/

def exSelect : TrainSt → Option Pair := fun st =>
  if st.cl.length = 0 then some (97, 98) else if st.cl.length = 1 then some (99, 99) else none

def exX : List (List Int) := [[97, 98, 97, 98], [97], []]

/-- the hypotheses of `train_lossless` are met by a concrete run with two merges, and the
run really exercises one-element and empty strings and a string collapsing to one code. -/
example :
    (train exSelect 10 0 exX).1.cl = [(97, 98), (99, 99)] ∧
    (train exSelect 10 0 exX).1.enc = [[100], [97], []] ∧
    (train exSelect 10 0 exX).2 = 98 ∧
    WF (train exSelect 10 0 exX).1.cl 98 = true ∧
    tokensOf [(97, 98), (99, 99)] 98 = some [[97, 98], [97, 98, 97, 98]] ∧
    (contractPairIdx [97] (97, 98) 99).toOption = some [97] ∧
    (contractPairIdx [] (97, 98) 99).toOption = some [] := by
  decide

end VecModel.BPE
