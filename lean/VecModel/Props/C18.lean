import VecModel.Lemmas.Distances
import VecModel.Lemmas.DistancesReal
/-
  C18 — distances are finite, symmetric, zero on proportional inputs; sparse = dense.
  Property theorems.  Part 1: the exact layer over `Rat` (sparse helpers at index level, total
  variation, Kantorovich), helper lemmas in Lemmas/Distances.lean.  Part 2: the analytic layer over
  `ℝ` (Hellinger under an arbitrary monotone rounding, Hellinger / Jensen–Shannon / symmetric KL in
  exact arithmetic), helper lemmas in Lemmas/DistancesReal.lean.  See DESIGN.md §5 C18.
-/
namespace VecModel.Dist

/-! ### index-set helpers -/

/-- `arr_union` of two sorted duplicate-free index arrays is sorted, duplicate free and contains
exactly the indices of either array. -/
theorem arrUnion_spec (a b : List Nat) (ha : StrictInc a) (hb : StrictInc b) :
    StrictInc (arrUnion a b) ∧ ∀ x, x ∈ arrUnion a b ↔ x ∈ a ∨ x ∈ b := by
  refine ⟨?_, fun x => mem_arrUnion x a b⟩
  rw [arrUnion_eq_unionKeys a b ha hb]
  exact strictInc_unionKeys a b ha hb

/-- `arr_intersect` of two sorted duplicate-free index arrays contains exactly the common indices. -/
theorem arrIntersect_spec (a b : List Nat) (ha : StrictInc a) (hb : StrictInc b) :
    ∀ x, x ∈ arrIntersect a b ↔ x ∈ a ∧ x ∈ b := by
  intro x
  constructor
  · intro hx
    have hc : 2 ≤ ((a ++ b).mergeSort).count x := count_of_mem_adjEq x _ hx
    rw [(List.mergeSort_perm (a ++ b) _).count_eq, List.count_append] at hc
    have h1 := (strictInc_nodup ha).count (a := x)
    have h2 := (strictInc_nodup hb).count (a := x)
    by_cases m1 : x ∈ a <;> by_cases m2 : x ∈ b <;> simp only [m1, m2, if_true, if_false] at h1 h2
    · exact ⟨m1, m2⟩
    all_goals omega
  · intro ⟨h1, h2⟩
    exact mem_arrIntersect x a b h1 h2

/-! ### sparse_sum / sparse_diff / sparse_mul / dense_union -/

/-- **sparse_sum = dense addition, in indices and values; index safe.**  For sorted duplicate-free
index arrays with matching data arrays the index-level kernel (checked reads, checked writes into a
buffer of length `|arr_union|`, main loop and both tail loops) never fails; its result represents
the dense sum, its indices are strictly increasing, come from the inputs, carry no explicit zero,
and are exactly the support of the dense sum. -/
theorem sparseSum_dense (ind1 : List Nat) (data1 : List Rat) (ind2 : List Nat) (data2 : List Rat)
    (h1 : data1.length = ind1.length) (h2 : data2.length = ind2.length)
    (s1 : StrictInc ind1) (s2 : StrictInc ind2) :
    ∃ r, sparseSum ind1 data1 ind2 data2 = .ok r ∧
      (∀ k, valAt r k = valAt (List.zip ind1 data1) k + valAt (List.zip ind2 data2) k) ∧
      StrictInc (keys r) ∧ (∀ j ∈ keys r, j ∈ ind1 ∨ j ∈ ind2) ∧ (∀ p ∈ r, p.2 ≠ 0) ∧
      (∀ k, k ∈ keys r ↔ valAt (List.zip ind1 data1) k + valAt (List.zip ind2 data2) k ≠ 0) := by
  have k1 := keys_zip ind1 data1 h1
  have k2 := keys_zip ind2 data2 h2
  have s1' : StrictInc (keys (List.zip ind1 data1)) := by rw [k1]; exact s1
  have s2' : StrictInc (keys (List.zip ind2 data2)) := by rw [k2]; exact s2
  have hcap : (mergeF sumCfg (List.zip ind1 data1) (List.zip ind2 data2)).length
      ≤ (arrUnion ind1 ind2).length := by
    have := mergeF_length_le sumCfg (List.zip ind1 data1) (List.zip ind2 data2)
    rwa [k1, k2, ← arrUnion_eq_unionKeys ind1 ind2 s1 s2] at this
  refine ⟨_, mergeIdx_eq sumCfg ind1 data1 ind2 data2 _ h1 h2 sumCfg_coherent hcap, ?_⟩
  have hs : StrictInc (keys (mergeF sumCfg (List.zip ind1 data1) (List.zip ind2 data2))) :=
    strictInc_keys_mergeF sumCfg sumCfg_keyed _ _ s1' s2'
  have hv := valAt_mergeF_sum (List.zip ind1 data1) (List.zip ind2 data2)
  have hnz := mergeF_sum_nonzero (List.zip ind1 data1) (List.zip ind2 data2)
  refine ⟨hv, hs, ?_, hnz, ?_⟩
  · intro j hj
    have := keys_mergeF_subset sumCfg sumCfg_keyed _ _ j hj
    rwa [k1, k2] at this
  · intro k
    rw [← hv k]
    constructor
    · intro hk
      obtain ⟨p, hp, rfl⟩ := List.mem_map.mp hk
      rw [valAt_of_mem _ hs p hp]
      exact hnz p hp
    · intro hk
      by_contra hn
      exact hk (valAt_eq_zero_of_not_mem _ k hn)

/-- **sparse_diff = dense subtraction** (same guarantees as `sparseSum_dense`) -/
theorem sparseDiff_dense (ind1 : List Nat) (data1 : List Rat) (ind2 : List Nat) (data2 : List Rat)
    (h1 : data1.length = ind1.length) (h2 : data2.length = ind2.length)
    (s1 : StrictInc ind1) (s2 : StrictInc ind2) :
    ∃ r, sparseDiff ind1 data1 ind2 data2 = .ok r ∧
      (∀ k, valAt r k = valAt (List.zip ind1 data1) k - valAt (List.zip ind2 data2) k) ∧
      StrictInc (keys r) ∧ (∀ j ∈ keys r, j ∈ ind1 ∨ j ∈ ind2) ∧ (∀ p ∈ r, p.2 ≠ 0) ∧
      (∀ k, k ∈ keys r ↔ valAt (List.zip ind1 data1) k - valAt (List.zip ind2 data2) k ≠ 0) := by
  obtain ⟨r, hr, hv, hs, hsub, hnz, hsupp⟩ :=
    sparseSum_dense ind1 data1 ind2 (data2.map (fun v => -v)) h1 (by simpa using h2) s1 s2
  refine ⟨r, hr, ?_, hs, hsub, hnz, ?_⟩
  · intro k; rw [hv k, valAt_zip_neg]; ring
  · intro k; rw [hsupp k, valAt_zip_neg, sub_eq_add_neg]

/-- **sparse_mul = dense (Hadamard) product, in indices and values; index safe** (buffer of length
`|arr_intersect|`). -/
theorem sparseMul_dense (ind1 : List Nat) (data1 : List Rat) (ind2 : List Nat) (data2 : List Rat)
    (h1 : data1.length = ind1.length) (h2 : data2.length = ind2.length)
    (s1 : StrictInc ind1) (s2 : StrictInc ind2) :
    ∃ r, sparseMul ind1 data1 ind2 data2 = .ok r ∧
      (∀ k, valAt r k = valAt (List.zip ind1 data1) k * valAt (List.zip ind2 data2) k) ∧
      StrictInc (keys r) ∧ (∀ j ∈ keys r, j ∈ ind1 ∧ j ∈ ind2) ∧ (∀ p ∈ r, p.2 ≠ 0) ∧
      (∀ k, k ∈ keys r ↔ valAt (List.zip ind1 data1) k * valAt (List.zip ind2 data2) k ≠ 0) := by
  have k1 := keys_zip ind1 data1 h1
  have k2 := keys_zip ind2 data2 h2
  have s1' : StrictInc (keys (List.zip ind1 data1)) := by rw [k1]; exact s1
  have s2' : StrictInc (keys (List.zip ind2 data2)) := by rw [k2]; exact s2
  have hs : StrictInc (keys (mergeF mulCfg (List.zip ind1 data1) (List.zip ind2 data2))) :=
    strictInc_keys_mergeF mulCfg mulCfg_keyed _ _ s1' s2'
  have hmem := mergeF_mul_mem (List.zip ind1 data1) (List.zip ind2 data2)
  have hsub : ∀ j ∈ keys (mergeF mulCfg (List.zip ind1 data1) (List.zip ind2 data2)),
      j ∈ ind1 ∧ j ∈ ind2 := by
    intro j hj
    obtain ⟨p, hp, rfl⟩ := List.mem_map.mp hj
    have := hmem p hp
    rw [k1, k2] at this
    exact ⟨this.1, this.2.1⟩
  have hcap : (mergeF mulCfg (List.zip ind1 data1) (List.zip ind2 data2)).length
      ≤ (arrIntersect ind1 ind2).length := by
    have := length_le_arrIntersect _ ind1 ind2 (strictInc_nodup hs) hsub
    simpa [keys] using this
  refine ⟨_, mergeIdx_eq mulCfg ind1 data1 ind2 data2 _ h1 h2 mulCfg_coherent hcap, ?_⟩
  have hv := fun k => valAt_mergeF_mul (List.zip ind1 data1) (List.zip ind2 data2) k s1' s2'
  refine ⟨hv, hs, hsub, fun p hp => (hmem p hp).2.2, ?_⟩
  intro k
  rw [← hv k]
  constructor
  · intro hk
    obtain ⟨p, hp, rfl⟩ := List.mem_map.mp hk
    rw [valAt_of_mem _ hs p hp]
    exact (hmem p hp).2.2
  · intro hk
    by_contra hn
    exact hk (valAt_eq_zero_of_not_mem _ k hn)

/-- **dense_union**: index safe, and the two returned arrays are the two dense vectors read at the
indices that `sparse_sum` keeps (for non-negative data: the union of the supports). -/
theorem denseUnion_spec (ind1 : List Nat) (data1 : List Rat) (ind2 : List Nat) (data2 : List Rat)
    (h1 : data1.length = ind1.length) (h2 : data2.length = ind2.length)
    (s1 : StrictInc ind1) (s2 : StrictInc ind2) :
    ∃ r s, denseUnion ind1 data1 ind2 data2 = .ok r ∧ sparseSum ind1 data1 ind2 data2 = .ok s ∧
      r.map (·.1) = (keys s).map (valAt (List.zip ind1 data1)) ∧
      r.map (·.2) = (keys s).map (valAt (List.zip ind2 data2)) := by
  have k1 := keys_zip ind1 data1 h1
  have k2 := keys_zip ind2 data2 h2
  have s1' : StrictInc (keys (List.zip ind1 data1)) := by rw [k1]; exact s1
  have s2' : StrictInc (keys (List.zip ind2 data2)) := by rw [k2]; exact s2
  obtain ⟨s, hs, _⟩ := sparseSum_dense ind1 data1 ind2 data2 h1 h2 s1 s2
  have hs' : s = mergeF sumCfg (List.zip ind1 data1) (List.zip ind2 data2) := by
    have hcap : (mergeF sumCfg (List.zip ind1 data1) (List.zip ind2 data2)).length
        ≤ (arrUnion ind1 ind2).length := by
      have := mergeF_length_le sumCfg (List.zip ind1 data1) (List.zip ind2 data2)
      rwa [k1, k2, ← arrUnion_eq_unionKeys ind1 ind2 s1 s2] at this
    have := mergeIdx_eq sumCfg ind1 data1 ind2 data2 _ h1 h2 sumCfg_coherent hcap
    unfold sparseSum at hs
    rw [this] at hs
    cases hs; rfl
  have hcap : (mergeF duCfg (List.zip ind1 data1) (List.zip ind2 data2)).length
      ≤ (arrUnion ind1 ind2).length := by
    have := mergeF_length_le duCfg (List.zip ind1 data1) (List.zip ind2 data2)
    rwa [k1, k2, ← arrUnion_eq_unionKeys ind1 ind2 s1 s2] at this
  refine ⟨_, s, mergeIdx_eq duCfg ind1 data1 ind2 data2 _ h1 h2 duCfg_coherent hcap, hs, ?_, ?_⟩
  · rw [mergeF_du_eq _ _ s1' s2', hs']; simp [keys]
  · rw [mergeF_du_eq _ _ s1' s2', hs']; simp [keys]


/-! ### total variation (exact arithmetic) -/

/-- total variation is symmetric (including which inputs are refused) -/
theorem tv_symm (x y : List Rat) : totalVariation x y = totalVariation y x := by
  unfold totalVariation
  rw [checkMass_comm x y]
  cases checkMass y x with
  | error e => rfl
  | ok u =>
    simp only [bind, Except.bind, pure, Except.pure]
    rw [tvCore_eq, tvCore_eq, l1dist_comm]

/-- total variation vanishes on proportional arguments `y = k·x`, `k > 0` -/
theorem tv_zero_of_proportional (x : List Rat) (k : Rat) (hk : 0 < k) (mx : x.sum ≠ 0) :
    totalVariation x (x.map (fun a => k * a)) = .ok 0 := by
  rw [totalVariation_ok x _ (by simp) mx
    (by rw [sum_map_mul_left']; exact mul_ne_zero (ne_of_gt hk) mx)]
  rw [normalise_smul k (ne_of_gt hk), l1dist_self]
  simp

/-- on non-negative vectors with positive mass total variation is defined and lies in [0, 1] -/
theorem tv_range (x y : List Rat) (hl : x.length = y.length) (hx : ∀ a ∈ x, 0 ≤ a)
    (hy : ∀ b ∈ y, 0 ≤ b) (mx : x.sum ≠ 0) (my : y.sum ≠ 0) :
    ∃ v, totalVariation x y = .ok v ∧ 0 ≤ v ∧ v ≤ 1 := by
  refine ⟨_, totalVariation_ok x y hl mx my, ?_, ?_⟩
  · have := l1dist_nonneg (normalise x) (normalise y); linarith
  · have h := l1dist_le_sum _ _ (normalise_nonneg x hx) (normalise_nonneg y hy)
    rw [sum_normalise x mx, sum_normalise y my] at h
    linarith

/-- triangle inequality for total variation -/
theorem tv_triangle (x y z : List Rat) (hxy : x.length = y.length) (hyz : y.length = z.length)
    (mx : x.sum ≠ 0) (my : y.sum ≠ 0) (mz : z.sum ≠ 0) :
    ∃ a b c, totalVariation x z = .ok a ∧ totalVariation x y = .ok b ∧
      totalVariation y z = .ok c ∧ a ≤ b + c := by
  refine ⟨_, _, _, totalVariation_ok x z (hxy.trans hyz) mx mz, totalVariation_ok x y hxy mx my,
    totalVariation_ok y z hyz my mz, ?_⟩
  have := l1dist_triangle (normalise x) (normalise y) (normalise z)
    (by simp [length_normalise, hxy]) (by simp [length_normalise, hyz])
  linarith

/-- **sparse = dense for total variation (exact arithmetic).**  For any sparse encodings of two
dense vectors (sorted duplicate-free indices, explicit zeros allowed) `sparse_total_variation`
— normalise, index-level `sparse_diff`, half the ℓ¹ norm of what is stored — is defined exactly
when the dense `total_variation` is, and returns the same number. -/
theorem sparse_tv_eq_dense (x y : List Rat) (ind1 : List Nat) (data1 : List Rat) (ind2 : List Nat)
    (data2 : List Rat) (hl : x.length = y.length) (e1 : Enc ind1 data1 x) (e2 : Enc ind2 data2 y)
    (mx : x.sum ≠ 0) (my : y.sum ≠ 0) :
    sparseTotalVariation ind1 data1 ind2 data2 = totalVariation x y := by
  have hgx : ∀ k, (normalise x).getD k 0 = x.getD k 0 / x.sum := by
    intro k
    unfold normalise
    by_cases hk : k < x.length
    · simp [List.getD, hk]
    · simp [List.getD, hk]
  have hgy : ∀ k, (normalise y).getD k 0 = y.getD k 0 / y.sum := by
    intro k
    unfold normalise
    by_cases hk : k < y.length
    · simp [List.getD, hk]
    · simp [List.getD, hk]
  obtain ⟨s1, l1, lt1, v1⟩ := e1
  obtain ⟨s2, l2, lt2, v2⟩ := e2
  obtain ⟨r, hr, hv, hs, hsub, _, _⟩ := sparseDiff_dense ind1 (data1.map (· / x.sum)) ind2
    (data2.map (· / y.sum)) (by simpa using l1) (by simpa using l2) s1 s2
  unfold sparseTotalVariation totalVariation
  rw [Enc.sum_eq ⟨s1, l1, lt1, v1⟩, Enc.sum_eq ⟨s2, l2, lt2, v2⟩, if_neg (by simp [mx, my]), hr,
    checkMass_ok x y hl mx my]
  simp only [bind, Except.bind, pure, Except.pure]
  congr 1
  rw [sum_map_g_eq_rsumQ (fun v => (1 / 2 : Rat) * rabs v) (by simp [rabs]) r hs x.length
    (fun j hj => by
      rcases hsub j hj with h | h
      · exact lt1 j h
      · rw [hl]; exact lt2 j h)]
  unfold tvCore
  rw [rsumQ_zipWith _ _ _ (by simp [length_normalise, hl]), length_normalise]
  apply rsumQ_congr
  intro k _
  rw [hv k, valAt_zip_map_div, valAt_zip_map_div, v1 k, v2 k, hgx k, hgy k]

/-! ### kantorovich1d, p = 1 (exact arithmetic): ℓ¹ distance of the CDFs -/

theorem kantorovich_symm (x y : List Rat) : kantorovich1d x y = kantorovich1d y x := by
  unfold kantorovich1d
  rw [checkMass_comm x y]
  cases checkMass y x with
  | error e => rfl
  | ok u =>
    simp only [bind, Except.bind, pure, Except.pure]
    unfold kantCore
    rw [l1dist_comm]

theorem kantorovich_zero_of_proportional (x : List Rat) (k : Rat) (hk : 0 < k) (mx : x.sum ≠ 0) :
    kantorovich1d x (x.map (fun a => k * a)) = .ok 0 := by
  rw [kantorovich_ok x _ (by simp) mx
    (by rw [sum_map_mul_left']; exact mul_ne_zero (ne_of_gt hk) mx)]
  rw [normalise_smul k (ne_of_gt hk), l1dist_self]

theorem kantorovich_nonneg (x y : List Rat) (hl : x.length = y.length) (mx : x.sum ≠ 0)
    (my : y.sum ≠ 0) : ∃ v, kantorovich1d x y = .ok v ∧ 0 ≤ v :=
  ⟨_, kantorovich_ok x y hl mx my, l1dist_nonneg _ _⟩

theorem kantorovich_triangle (x y z : List Rat) (hxy : x.length = y.length)
    (hyz : y.length = z.length) (mx : x.sum ≠ 0) (my : y.sum ≠ 0) (mz : z.sum ≠ 0) :
    ∃ a b c, kantorovich1d x z = .ok a ∧ kantorovich1d x y = .ok b ∧
      kantorovich1d y z = .ok c ∧ a ≤ b + c := by
  refine ⟨_, _, _, kantorovich_ok x z (hxy.trans hyz) mx mz, kantorovich_ok x y hxy mx my,
    kantorovich_ok y z hyz my mz, ?_⟩
  exact l1dist_triangle _ _ _ (by simp [length_cumsum, length_normalise, hxy])
    (by simp [length_cumsum, length_normalise, hyz])

/-! ### non-vacuity (the hypotheses of the theorems above are satisfiable) -/

example : StrictInc [0, 5, 9] ∧ StrictInc [1, 5] := by simp [StrictInc]
example : ∃ r, sparseSum [0, 5, 9] [1, 2, 3] [1, 5] [1, 1] = .ok r ∧ StrictInc (keys r) := by
  obtain ⟨r, h, _, hs, _⟩ := sparseSum_dense [0, 5, 9] [1, 2, 3] [1, 5] [1, 1] rfl rfl
    (by simp [StrictInc]) (by simp [StrictInc])
  exact ⟨r, h, hs⟩
example : ∃ r, sparseMul [0, 5, 9] [1, 2, 3] [1, 5] [1, 4] = .ok r ∧ ∀ j ∈ keys r, j ∈ [0, 5, 9] ∧ j ∈ [1, 5] := by
  obtain ⟨r, h, _, _, hs, _⟩ := sparseMul_dense [0, 5, 9] [1, 2, 3] [1, 5] [1, 4] rfl rfl
    (by simp [StrictInc]) (by simp [StrictInc])
  exact ⟨r, h, hs⟩
example : ∃ v, totalVariation [1, 0] [0, 2] = .ok v ∧ 0 ≤ v ∧ v ≤ 1 :=
  tv_range [1, 0] [0, 2] rfl (by intro a ha; simp at ha; rcases ha with rfl | rfl <;> norm_num)
    (by intro a ha; simp at ha; rcases ha with rfl | rfl <;> norm_num) (by norm_num) (by norm_num)
example : Enc [0, 2] [1, 3] [1, 0, 3] := by
  refine ⟨by simp [StrictInc], rfl, by simp, ?_⟩
  intro k
  rcases k with _ | _ | _ | k <;> simp [valAt, List.getD]
example : totalVariation [1, 2] ([1, 2].map (fun a => 3 * a)) = .ok 0 :=
  tv_zero_of_proportional [1, 2] 3 (by norm_num) (by norm_num)
example : kantorovich1d [1, 2] ([1, 2].map (fun a => 3 * a)) = .ok 0 :=
  kantorovich_zero_of_proportional [1, 2] 3 (by norm_num) (by norm_num)

/-! ## Part 2 — the analytic layer over ℝ -/

/-! ### Hellinger: never NaN, whatever the rounding -/

/-- **hellinger_defined (needs the clamp).**  Let `fl` be *any* rounding function that is monotone,
fixes 0 and 1 and does not underflow (`fl t = 0 → t = 0`) — IEEE round-to-nearest on the normal
range is one — applied after every arithmetic operation of the dense `hellinger` kernel.  For
non-negative vectors of equal length the result is defined (no square root of a negative number, no
0/0) and lies in `[0, 1]`.  The statement is about all roundings, not about exact arithmetic. -/
theorem hellinger_defined (fl : ℝ → ℝ) (hm : Monotone fl) (h0 : fl 0 = 0) (h1 : fl 1 = 1)
    (hnu : ∀ t, fl t = 0 → t = 0) (x y : List ℝ) (hlen : x.length = y.length)
    (hx : ∀ a ∈ x, 0 ≤ a) (hy : ∀ b ∈ y, 0 ≤ b) :
    ∃ v, hellingerG fl x y = .ok v ∧ 0 ≤ v ∧ v ≤ 1 :=
  hellinger_defined_lem fl hm h0 h1 hnu x y hlen hx hy

/-- without the clamp (the code before the fix) such a rounding can drive the Bhattacharyya
coefficient above 1 and the kernel takes the square root of a negative number (NaN) -/
theorem hellingerNoClamp_can_fail :
    ∃ fl : ℝ → ℝ, Monotone fl ∧ fl 0 = 0 ∧ fl 1 = 1 ∧ (∀ t, fl t = 0 → t = 0) ∧
      ∃ x y : List ℝ, x.length = y.length ∧ (∀ a ∈ x, 0 ≤ a) ∧ (∀ b ∈ y, 0 ≤ b) ∧
        ∃ e, hellingerNoClampG fl x y = .error e :=
  hellingerNoClamp_can_fail_lem

/-! ### Hellinger in exact arithmetic -/

/-- Cauchy–Schwarz: the Bhattacharyya coefficient of non-negative vectors is at most 1 -/
theorem bc_le_one (x y : List ℝ) (hx : ∀ a ∈ x, 0 ≤ a) (hy : ∀ b ∈ y, 0 ≤ b) : bc x y ≤ 1 :=
  bc_le_one_lem x y hx hy

/-- closed form: `H(x, y) = √(1 − BC(x, y))` on vectors with positive mass -/
theorem hellinger_exact (x y : List ℝ) (hlen : x.length = y.length)
    (hx : ∀ a ∈ x, 0 ≤ a) (hy : ∀ b ∈ y, 0 ≤ b) (hX : 0 < x.sum) (hY : 0 < y.sum) :
    hellingerG id x y = .ok (Real.sqrt (1 - bc x y)) :=
  hellinger_exact_lem x y hlen hx hy hX hY

/-- symmetric — for every rounding, including which inputs are refused -/
theorem hellinger_symm (fl : ℝ → ℝ) (x y : List ℝ) : hellingerG fl x y = hellingerG fl y x :=
  hellinger_symm_fl fl x y

/-- zero on proportional arguments `y = k·x`, `k > 0` -/
theorem hellinger_zero_of_proportional (x : List ℝ) (k : ℝ) (hk : 0 < k)
    (hx : ∀ a ∈ x, 0 ≤ a) (hX : 0 < x.sum) : hellingerG id x (x.map (k * ·)) = .ok 0 :=
  hellinger_zero_of_proportional_lem x k hk hx hX

/-- triangle inequality (ℓ² distance of the square roots of the normalised vectors) -/
theorem hellinger_triangle (x y z : List ℝ) (hxy : x.length = y.length) (hyz : y.length = z.length)
    (hx : ∀ a ∈ x, 0 ≤ a) (hy : ∀ b ∈ y, 0 ≤ b) (hz : ∀ c ∈ z, 0 ≤ c)
    (hX : 0 < x.sum) (hY : 0 < y.sum) (hZ : 0 < z.sum) :
    ∃ a b c, hellingerG id x z = .ok a ∧ hellingerG id x y = .ok b ∧ hellingerG id y z = .ok c ∧
      a ≤ b + c :=
  hellinger_triangle_lem x y z hxy hyz hx hy hz hX hY hZ

/-! ### Jensen–Shannon and symmetric KL (exact arithmetic, smoothing `eps > 0`) -/

/-- defined (every `log` / `/` argument positive thanks to the smoothing) and non-negative (Gibbs) -/
theorem js_nonneg {eps : ℝ} (heps : 0 < eps) {x y : List ℝ} (hlen : x.length = y.length)
    (hx : ∀ a ∈ x, 0 ≤ a) (hy : ∀ b ∈ y, 0 ≤ b) : ∃ v, jensenShannonG eps x y = .ok v ∧ 0 ≤ v :=
  js_defined_nonneg_lem heps hlen hx hy

theorem skl_nonneg {eps : ℝ} (heps : 0 < eps) {x y : List ℝ} (hlen : x.length = y.length)
    (hx : ∀ a ∈ x, 0 ≤ a) (hy : ∀ b ∈ y, 0 ≤ b) : ∃ v, symmetricKLG eps x y = .ok v ∧ 0 ≤ v :=
  skl_defined_nonneg_lem heps hlen hx hy

theorem js_symm (eps : ℝ) (x y : List ℝ) : jensenShannonG eps x y = jensenShannonG eps y x :=
  js_symm_total eps x y

theorem skl_symm {eps : ℝ} (heps : 0 < eps) {x y : List ℝ} (hx : ∀ a ∈ x, 0 ≤ a)
    (hy : ∀ b ∈ y, 0 ≤ b) : symmetricKLG eps x y = symmetricKLG eps y x :=
  skl_symm_lem heps hx hy

/-- zero on equal arguments.  On proportional, unequal arguments the smoothed formulas are *not*
exactly zero (`(k·x + eps)/(k·S + eps·n) ≠ (x + eps)/(S + eps·n)`): the property's "to 1e-6" is a
statement about the size of `eps`, checked numerically by the oracle (see the known finding
`skl.eps-smoothing-bias`).
`js_zero_of_proportional_partial` : JS(x, k·x) = 0 — holds only for k = 1 in the model. -/
theorem js_zero_of_proportional_partial {eps : ℝ} (heps : 0 < eps) {x : List ℝ}
    (hx : ∀ a ∈ x, 0 ≤ a) : jensenShannonG eps x x = .ok 0 :=
  js_self_lem heps hx

theorem skl_zero_of_proportional_partial {eps : ℝ} (heps : 0 < eps) {x : List ℝ}
    (hx : ∀ a ∈ x, 0 ≤ a) : symmetricKLG eps x x = .ok 0 :=
  skl_self_lem heps hx

/-! ### non-vacuity (analytic layer) -/

example : ∃ v : ℝ, hellingerG id ([1, 3] : List ℝ) [2, 2] = .ok v ∧ 0 ≤ v ∧ v ≤ 1 :=
  hellinger_defined id monotone_id rfl rfl (fun _ h => h) [1, 3] [2, 2] rfl
    (by intro a ha; simp at ha; rcases ha with rfl | rfl <;> norm_num)
    (by intro a ha; simp at ha; rcases ha with rfl | rfl <;> norm_num)
example : ∃ v : ℝ, jensenShannonG (1 / 100000000000 : ℝ) [1, 0] [0, 2] = .ok v ∧ 0 ≤ v :=
  js_nonneg (by norm_num) rfl
    (by intro a ha; simp at ha; rcases ha with rfl | rfl <;> norm_num)
    (by intro a ha; simp at ha; rcases ha with rfl | rfl <;> norm_num)

end VecModel.Dist
