import VecModel.Lemmas.Sparse
/-
  C01 — transform returns one row per input item in the fitted column space.
  Generic part: every row-producing vectorizer's `transform` is an instance of
  `Sparse.transform lookup width items` (features of each item looked up in the fitted dictionary,
  matrix assembled with the shape pinned to (number of items, fitted width)); the
  correspondence check (harness/c01.py) ties each real vectorizer to that instance.
  Vectorizer-specific instances (n-gram, skip-gram, edge list, LZ, BPE) live with their models.
-/
namespace VecModel.Sparse

/-- With the shape pinned, transform never fails — whatever the items contain (unseen features,
empty items, nothing at all) — and has exactly one row per item and the fitted width. -/
theorem transform_total {lookup : α → Option Nat} {width : Nat}
    (h : ∀ a c, lookup a = some c → c < width) (items : List (List (α × Rat))) :
    ∃ M, transform lookup width items = .ok M ∧ M.nRows = items.length ∧ M.nCols = width ∧
      M.entries = rowsEntries lookup 0 items := by
  unfold transform assemble
  have hall : (rowsEntries lookup 0 items).all (inShape (items.length, width)) = true := by
    rw [List.all_eq_true]
    intro e he
    obtain ⟨_, h2, h3⟩ := rowsEntries_bounds h items 0 e he
    simp [inShape, h3]; omega
  simp only [hall, if_true]
  exact ⟨_, rfl, rfl, rfl, rfl⟩

/-- Unseen vocabulary is ignored: erasing the features that have no fitted column from every
item does not change the result. -/
theorem transform_oov (lookup : α → Option Nat) (width : Nat) (items : List (List (α × Rat))) :
    transform lookup width (items.map fun item => item.filter fun fw => (lookup fw.1).isSome) =
      transform lookup width items := by
  unfold transform
  rw [rowsEntries_filter_known, List.length_map]

/-- every entry of the result sits in the row of the item that produced it -/
theorem transform_entries_in_shape {lookup : α → Option Nat} {width : Nat}
    (h : ∀ a c, lookup a = some c → c < width) (items : List (List (α × Rat))) :
    ∀ e ∈ rowsEntries lookup 0 items, e.1 < items.length ∧ e.2.1 < width := by
  intro e he
  obtain ⟨_, h2, h3⟩ := rowsEntries_bounds h items 0 e he
  exact ⟨by omega, h3⟩

/-- The mechanism behind the repaired defects (edge list, skip-gram, BPE matrix): without
`shape=` the width is whatever the data reaches, which is strictly less than the fitted width
as soon as no feature of the batch maps to the last fitted column. -/
theorem transformInferred_narrow {lookup : α → Option Nat} {width : Nat}
    (items : List (List (α × Rat))) (M : Matrix)
    (hM : transformInferred lookup items = .ok M)
    (hlast : ∀ e ∈ rowsEntries lookup 0 items, e.2.1 + 1 < width) :
    M.nCols < width := by
  unfold transformInferred assemble at hM
  simp only at hM
  by_cases hne : (rowsEntries lookup 0 items).isEmpty = true
  · simp [hne] at hM
  · simp only [hne] at hM
    have hw : 0 < width - 1 := by
      cases hes : rowsEntries lookup 0 items with
      | nil => simp [hes] at hne
      | cons e rest => have := hlast e (by simp [hes]); omega
    have := maxCol_lt (w := width - 1) hw (fun e he => by have := hlast e he; omega)
    injection hM with hM
    rw [← hM]
    show maxCol _ + 1 < width
    omega

/-- and it fails outright on a batch with no known feature at all -/
theorem transformInferred_empty_fails (lookup : α → Option Nat) (items : List (List (α × Rat)))
    (h : rowsEntries lookup 0 items = []) :
    ∃ e, transformInferred lookup items = .error e := by
  unfold transformInferred assemble
  simp [h]

/-- row view: one dense row of the fitted width per item, in input order -/
theorem transformRows_shape (lookup : α → Option Nat) (width : Nat)
    (items : List (List (α × Rat))) :
    (transformRows lookup width items).length = items.length ∧
    ∀ r ∈ transformRows lookup width items, r.length = width := by
  unfold transformRows denseRow
  refine ⟨by simp, ?_⟩
  intro r hr
  obtain ⟨item, _, rfl⟩ := List.mem_map.mp hr
  simp

/-! Non-vacuity: a fitted 3-column dictionary, a batch with an unseen token that misses the last
column: pinned shape gives 3×3, inferred shape gives width 2. -/
def exLookup : String → Option Nat
  | "a" => some 0 | "b" => some 1 | "c" => some 2 | _ => none
def exItems : List (List (String × Rat)) := [[("a", 1), ("zz", 1), ("b", 1)], [], [("b", 1), ("b", 1)]]

example : (∀ a c, exLookup a = some c → c < 3) := by
  intro a c h; unfold exLookup at h; split at h <;> simp at h <;> omega

example :
    ((transform exLookup 3 exItems).toOption.map fun M => (M.nRows, M.nCols)) = some (3, 3) ∧
    ((transformInferred exLookup exItems).toOption.map fun M => (M.nRows, M.nCols)) = some (3, 2) := by
  decide

end VecModel.Sparse
