import VecModel.Lemmas.Sparse
import VecModel.Lemmas.BPE
import VecModel.Props.C06
import VecModel.Props.C16
import VecModel.Model.Histogram
/-
  C01 — transform returns one row per input item in the fitted column space.
  Generic part: every row-producing vectorizer's `transform` is an instance of
  `Sparse.transform lookup width items` (features of each item looked up in the fitted dictionary,
  matrix assembled with the shape pinned to (number of items, fitted width)); the
  correspondence check (harness/c01.py) ties each real vectorizer to that instance.
  Vectorizer-specific instances (n-gram, skip-gram, edge list, LZ, BPE) live with their models.
-/
namespace VecModel.Sparse

/-- With the shape pinned, transform never fails — whatever the items contain (unseen features,
empty items, nothing at all) — and has exactly one row per item and the fitted width. -/
theorem transform_total {lookup : α → Option Nat} {width : Nat}
    (h : ∀ a c, lookup a = some c → c < width) (items : List (List (α × Rat))) :
    ∃ M, transform lookup width items = .ok M ∧ M.nRows = items.length ∧ M.nCols = width ∧
      M.entries = rowsEntries lookup 0 items := by
  unfold transform assemble
  have hall : (rowsEntries lookup 0 items).all (inShape (items.length, width)) = true := by
    rw [List.all_eq_true]
    intro e he
    obtain ⟨_, h2, h3⟩ := rowsEntries_bounds h items 0 e he
    simp [inShape, h3]; omega
  simp only [hall, if_true]
  exact ⟨_, rfl, rfl, rfl, rfl⟩

/-- Unseen vocabulary is ignored: erasing the features that have no fitted column from every
item does not change the result. -/
theorem transform_oov (lookup : α → Option Nat) (width : Nat) (items : List (List (α × Rat))) :
    transform lookup width (items.map fun item => item.filter fun fw => (lookup fw.1).isSome) =
      transform lookup width items := by
  unfold transform
  rw [rowsEntries_filter_known, List.length_map]

/-- every entry of the result sits in the row of the item that produced it -/
theorem transform_entries_in_shape {lookup : α → Option Nat} {width : Nat}
    (h : ∀ a c, lookup a = some c → c < width) (items : List (List (α × Rat))) :
    ∀ e ∈ rowsEntries lookup 0 items, e.1 < items.length ∧ e.2.1 < width := by
  intro e he
  obtain ⟨_, h2, h3⟩ := rowsEntries_bounds h items 0 e he
  exact ⟨by omega, h3⟩

/-- The mechanism behind the repaired defects (edge list, skip-gram, BPE matrix): without
`shape=` the width is whatever the data reaches, which is strictly less than the fitted width
as soon as no feature of the batch maps to the last fitted column. -/
theorem transformInferred_narrow {lookup : α → Option Nat} {width : Nat}
    (items : List (List (α × Rat))) (M : Matrix)
    (hM : transformInferred lookup items = .ok M)
    (hlast : ∀ e ∈ rowsEntries lookup 0 items, e.2.1 + 1 < width) :
    M.nCols < width := by
  unfold transformInferred assemble at hM
  simp only at hM
  by_cases hne : (rowsEntries lookup 0 items).isEmpty = true
  · simp [hne] at hM
  · simp only [hne] at hM
    have hw : 0 < width - 1 := by
      cases hes : rowsEntries lookup 0 items with
      | nil => simp [hes] at hne
      | cons e rest => have := hlast e (by simp [hes]); omega
    have := maxCol_lt (w := width - 1) hw (fun e he => by have := hlast e he; omega)
    injection hM with hM
    rw [← hM]
    show maxCol _ + 1 < width
    omega

/-- and it fails outright on a batch with no known feature at all -/
theorem transformInferred_empty_fails (lookup : α → Option Nat) (items : List (List (α × Rat)))
    (h : rowsEntries lookup 0 items = []) :
    ∃ e, transformInferred lookup items = .error e := by
  unfold transformInferred assemble
  simp [h]

/-- row view: one dense row of the fitted width per item, in input order -/
theorem transformRows_shape (lookup : α → Option Nat) (width : Nat)
    (items : List (List (α × Rat))) :
    (transformRows lookup width items).length = items.length ∧
    ∀ r ∈ transformRows lookup width items, r.length = width := by
  unfold transformRows denseRow
  refine ⟨by simp, ?_⟩
  intro r hr
  obtain ⟨item, _, rfl⟩ := List.mem_map.mp hr
  simp

/-! Non-vacuity: a fitted 3-column dictionary, a batch with an unseen token that misses the last
column: pinned shape gives 3×3, inferred shape gives width 2. -/
def exLookup : String → Option Nat
  | "a" => some 0 | "b" => some 1 | "c" => some 2 | _ => none
def exItems : List (List (String × Rat)) := [[("a", 1), ("zz", 1), ("b", 1)], [], [("b", 1), ("b", 1)]]

example : (∀ a c, exLookup a = some c → c < 3) := by
  intro a c h; unfold exLookup at h; split at h <;> simp at h <;> omega

example :
    ((transform exLookup 3 exItems).toOption.map fun M => (M.nRows, M.nCols)) = some (3, 3) ∧
    ((transformInferred exLookup exItems).toOption.map fun M => (M.nRows, M.nCols)) = some (3, 2) := by
  decide

end VecModel.Sparse


/-! ### The vectorizer-specific instances

Proved with their models in Props/C06 and Props/C16 and restated here as obligations of C01, so that
"one row per item, fitted width, unseen vocabulary ignored, never raises" is discharged for every
row-producing vectorizer whose glue is modelled. -/
namespace VecModel.C01

/-- NgramVectorizer.transform: total on a well-formed fitted model, one row per document, fitted width -/
theorem ngram_fitted_column_space (m : Ngram.Fitted) (h : Ngram.WF m) (X : List (List Int)) :
    ∃ M, Ngram.transform m X = .ok M ∧ M.nRows = X.length ∧ M.nCols = m.colLabel.length :=
  let ⟨M, h1, h2, h3, _⟩ := C06.ngram_transform_shape m h X
  ⟨M, h1, h2, h3⟩

/-- SkipgramVectorizer.transform: one row per document, exactly the columns kept at fit -/
theorem skipgram_fitted_column_space (m : Skipgram.Fitted) (h : Skipgram.WF m) (κ : Nat → Rat)
    (X : List (List Int)) :
    ∃ M, Skipgram.transform m κ X = .ok M ∧ M.nRows = X.length ∧
      M.nCols = (Counts.keptCols m.mask).length :=
  C06.skipgram_transform_shape m h κ X

/-- EdgeListVectorizer.transform: the fitted shape whatever labels the edge list contains or lacks -/
theorem edgelist_fitted_shape (m : EdgeList.Fitted) (hr : m.rowDict ≠ []) (hc : m.colDict ≠ [])
    (E : List EdgeList.Edge) :
    ∃ M, EdgeList.transform m E = .ok M ∧ M.nRows = Counts.maxPlus1 (m.rowDict.map (·.2)) ∧
      M.nCols = Counts.maxPlus1 (m.colDict.map (·.2)) :=
  C06.edgelist_transform_shape m hr hc E

/-- LZCompressionVectorizer.transform: one row per string, every column below the fitted width, phrases
without a fitted column dropped -/
theorem lz_fitted_column_space {κ : Type} [DecidableEq κ] (h : List Nat → κ) (cap : Nat)
    (base cols : LZ.Dict κ) (Y : List (List Nat)) (hok : LZ.ColsOK cols) :
    ∃ rows, LZ.transform h cap base cols Y = .ok rows ∧ rows.length = Y.length ∧
      ∀ (i : Nat) (_ : i < Y.length), ∃ row, rows[i]? = some row ∧ ∀ cv ∈ row, cv.1 < cols.length := by
  obtain ⟨rows, h1, h2, h3⟩ := LZ.transform_unseen h cap base cols Y hok
  refine ⟨rows, h1, h2, ?_⟩
  intro i hi
  obtain ⟨row, r1, _, _, r4⟩ := h3 i hi
  exact ⟨row, r1, r4⟩

/-- BytePairEncodingVectorizer 'matrix' output: one count per fitted column, codes without a column
(unseen characters, code 0) contribute nothing -/
theorem bpe_matrix_row_width (cols : List Int) (enc : List Int) :
    (BPE.countRow cols enc).length = cols.length ∧
    ∀ extra, (∀ c ∈ cols, c ∉ extra) → BPE.countRow cols (enc ++ extra) = BPE.countRow cols enc := by
  refine ⟨by simp [BPE.countRow], ?_⟩
  intro extra hex
  unfold BPE.countRow
  apply List.map_congr_left
  intro c hc
  have : extra.count c = 0 := List.count_eq_zero.mpr (hex c hc)
  simp [List.count_append, this]

/-- HistogramVectorizer.transform: one row per sequence, one column per fitted interval — whatever the
values are (values outside every interval leave the counts, never the shape; empty sequences give a row). -/
theorem histogram_fitted_shape (bins : List Hist.Bin) (X : List (List Rat)) :
    (X.map (Hist.counts bins)).length = X.length ∧
    ∀ r ∈ X.map (Hist.counts bins), r.length = bins.length := by
  refine ⟨by simp, ?_⟩
  intro r hr
  obtain ⟨xs, _, rfl⟩ := List.mem_map.mp hr
  simp [Hist.counts]

/-- KDEVectorizer.transform: one row per sequence, one column per point of the fitted evaluation grid
(any number type, kernel and bandwidth; empty sequences included). -/
theorem kde_fitted_shape {α : Type} [Add α] [Sub α] [Mul α] [Div α] [OfNat α 0] [NatCast α]
    (K : α → α) (h : α) (grid : List α) (X : List (List α)) :
    (X.map (Hist.kdeRow K h grid)).length = X.length ∧
    ∀ r ∈ X.map (Hist.kdeRow K h grid), r.length = grid.length := by
  refine ⟨by simp, ?_⟩
  intro r hr
  obtain ⟨xs, _, rfl⟩ := List.mem_map.mp hr
  simp [Hist.kdeRow]

/-- non-vacuity: an empty sequence and an all-outlier sequence still give rows of the fitted width -/
example : [[], [-100, 100], [1, 5]].map
    (Hist.counts [⟨.fin 0, .fin 4⟩, ⟨.fin 4, .fin 7⟩, ⟨.fin 7, .fin 20⟩]) = [[0, 0, 0], [0, 0, 0], [1, 1, 0]] := by
  decide

end VecModel.C01
