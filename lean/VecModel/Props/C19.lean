import VecModel.Lemmas.Sliding
/-
  C19 — Sliding windows contain exactly the documented in-range elements.
  Property theorems about the model in Model/Sliding.lean (helper lemmas: Lemmas/Sliding.lean).
  Every `theorem` in this file is an obligation of the C19 check; see DESIGN.md §5 C19.
  Conventions: a sequence of shape (L, d) is given by its `d` columns of length `L`; `w` = window
  width, `s` = window stride, `p`/`v` = pad_width / pad_value, `K` = the kernel matrix.
-/
namespace VecModel.Sliding

/-! ### the window count -/

/-- every window lies inside the sequence -/
theorem windows_in_range (L w s i : Nat) (hs : 0 < s) (hi : i < nWindows L w s) : i * s + w ≤ L :=
  in_range_of_lt_nWindows L w s i hs hi

/-- and no further window would: the count is maximal -/
theorem windows_maximal (L w s : Nat) (hs : 0 < s) : nWindows L w s * s + w > L := by
  apply Nat.lt_of_not_le
  intro h
  have := lt_nWindows_of_in_range L w s (nWindows L w s) hs h
  omega

/-- exactly the in-range window starts are produced -/
theorem window_count_iff (L w s i : Nat) (hs : 0 < s) : i < nWindows L w s ↔ i * s + w ≤ L :=
  ⟨in_range_of_lt_nWindows L w s i hs, lt_nWindows_of_in_range L w s i hs⟩

/-- stride 1: one window per start position, `L − w + 1` of them -/
theorem nWindows_stride_one (L w : Nat) (hw : w ≤ L + 1) : nWindows L w 1 = L + 1 - w := by
  simp [nWindows]

/-- **No gaps when the stride does not exceed the width**: every position before the end of the last
window lies in some window (`s ≤ w ≤ L`); only the tail after the last window (fewer than `s` elements,
by `windows_maximal`) is left out. -/
theorem windows_cover (L w s j : Nat) (hs : 0 < s) (hsw : s ≤ w) (hw : w ≤ L)
    (hj : j < (nWindows L w s - 1) * s + w) :
    ∃ i, i < nWindows L w s ∧ i * s ≤ j ∧ j < i * s + w := by
  have h0 : 0 < nWindows L w s := (window_count_iff L w s 0 hs).mpr (by simpa using hw)
  by_cases hq : j / s < nWindows L w s
  · refine ⟨j / s, hq, Nat.div_mul_le_self j s, ?_⟩
    have := Nat.lt_div_mul_add (a := j) hs
    omega
  · refine ⟨nWindows L w s - 1, by omega, ?_, hj⟩
    have h1 : nWindows L w s - 1 ≤ j / s := by omega
    calc (nWindows L w s - 1) * s ≤ (j / s) * s := Nat.mul_le_mul_right s h1
      _ ≤ j := Nat.div_mul_le_self j s

/-- the left-out tail is shorter than one stride -/
theorem tail_lt_stride (L w s : Nat) (hs : 0 < s) (hw : w ≤ L) :
    L - ((nWindows L w s - 1) * s + w) < s := by
  have h0 : 0 < nWindows L w s := (window_count_iff L w s 0 hs).mpr (by simpa using hw)
  have hmax := windows_maximal L w s hs
  have hlast := windows_in_range L w s (nWindows L w s - 1) hs (by omega)
  have : nWindows L w s * s = (nWindows L w s - 1) * s + s := by
    conv => lhs; rw [show nWindows L w s = (nWindows L w s - 1) + 1 by omega]
    rw [Nat.add_mul, Nat.one_mul]
  omega

example : nWindows 10 4 3 = 3 ∧ (∀ j, j < (3 - 1) * 3 + 4 → ∃ i, i < 3 ∧ i * 3 ≤ j ∧ j < i * 3 + 4) :=
  ⟨by decide, fun j hj => by
    have := windows_cover 10 4 3 j (by decide) (by decide) (by decide) (by simpa [show nWindows 10 4 3 = 3 by decide] using hj)
    simpa [show nWindows 10 4 3 = 3 by decide] using this⟩

/-- the code's `n_rows = int(np.ceil((L - w + 1) / s))` is the documented count whenever the
sequence is at least as long as the window (also for `L = w - 1`: zero windows) -/
theorem nRows_is_nWindows (L w s : Nat) (hs : 0 < s) (hw : w ≤ L + 1) : nRows L w s = .ok (nWindows L w s) :=
  nRows_eq L w s hs hw

/-! ### `window_sample` -/

/-- `None`: the whole window, positions `0 … w-1` in order -/
theorem sample_none (w : Nat) : sampleIdx w .all = .ok ((List.range w).map fun (k : Nat) => (k : Int)) := by
  rw [show sampleIdx w .all = arange 0 w 1 from rfl, arange_ok 0 w 1 (by omega)]
  have : (ceilDiv ((w : Int) - 0) (1 : Int).toNat).toNat = w := by
    unfold ceilDiv
    split
    · rename_i h; have : w = 0 := by omega
      subst this; simp
    · simp
  rw [this]
  congr 1
  apply List.map_congr_left
  intro k _; omega

/-- integer `n ≥ 1`: every `n`-th entry — exactly the positions `0 ≤ x < w` divisible by `n`,
in increasing order (`0, n, 2n, …`) -/
theorem sample_int (w : Nat) (n : Int) (hn : 0 < n) :
    ∃ l, sampleIdx w (.every n) = .ok l ∧ (∀ x, x ∈ l ↔ (0 ≤ x ∧ x < w ∧ n ∣ x)) ∧
      ∃ m : Nat, l = (List.range m).map fun (k : Nat) => (k : Int) * n := by
  refine ⟨_, arange_ok 0 w n hn, ?_, ⟨_, List.map_congr_left (fun k _ => Int.zero_add _)⟩⟩
  intro x
  rw [mem_arange_iff 0 w n hn x]
  constructor
  · rintro ⟨k, rfl, hlt⟩
    refine ⟨by have : (0 : Int) ≤ (k : Int) * n := Int.mul_nonneg (by omega) (by omega)
               omega, hlt, ⟨k, by rw [Int.mul_comm]; simp⟩⟩
  · rintro ⟨h0, hlt, ⟨q, rfl⟩⟩
    have hq : 0 ≤ q := by
      by_cases hneg : q < 0
      · have : n * q < 0 := Int.mul_neg_of_pos_of_neg hn hneg
        omega
      · omega
    exact ⟨q.toNat, by rw [Int.toNat_of_nonneg hq, Int.mul_comm]; simp, hlt⟩

/-- pair `(a, m)` with `a ≥ 0`, `m ≥ 1`: every `m`-th entry starting from the `a`-th — exactly the
positions `a ≤ x < w` with `m ∣ x - a`, in increasing order -/
theorem sample_pair (w : Nat) (a m : Int) (ha : 0 ≤ a) (hm : 0 < m) :
    ∃ l, sampleIdx w (.pair a m) = .ok l ∧ (∀ x, x ∈ l ↔ (a ≤ x ∧ x < w ∧ m ∣ (x - a))) ∧
      (∀ x ∈ l, 0 ≤ x ∧ x < w) ∧
      ∃ k : Nat, l = (List.range k).map fun (i : Nat) => a + (i : Int) * m := by
  have hmem : ∀ x, x ∈ (List.range (ceilDiv ((w : Int) - a) m.toNat).toNat).map (fun (k : Nat) => a + (k : Int) * m)
      ↔ (a ≤ x ∧ x < w ∧ m ∣ (x - a)) := by
    intro x
    rw [mem_arange_iff a w m hm x]
    constructor
    · rintro ⟨k, rfl, hlt⟩
      refine ⟨by have : (0 : Int) ≤ (k : Int) * m := Int.mul_nonneg (by omega) (by omega)
                 omega, hlt, ⟨k, by rw [Int.mul_comm]; omega⟩⟩
    · rintro ⟨h0, hlt, ⟨q, hq⟩⟩
      have hq0 : 0 ≤ q := by
        by_cases hneg : q < 0
        · have : m * q < 0 := Int.mul_neg_of_pos_of_neg hm hneg
          omega
        · omega
      exact ⟨q.toNat, by rw [Int.toNat_of_nonneg hq0, Int.mul_comm]; omega, hlt⟩
  refine ⟨_, arange_ok a w m hm, hmem, ?_, ⟨_, rfl⟩⟩
  intro x hx
  have := (hmem x).mp hx
  omega

/-- index list: exactly the listed positions, in the listed order (also when the list is as long
as, or longer than, the window) -/
theorem sample_list (w : Nat) (l : List Int) : sampleIdx w (.idx l) = .ok l := rfl

/-! ### padding -/

/-- `pad_width` copies of `pad_value` on both sides, the sequence in between -/
theorem padding (p : Nat) (v : Rat) (c : Col) :
    (padCol p v c).length = c.length + 2 * p ∧
    ∀ j, (padCol p v c)[j]? =
      if j < p then some v
      else if j < p + c.length then c[j - p]?
      else if j < c.length + 2 * p then some v else none :=
  ⟨padCol_length p v c, padCol_getElem? p v c⟩

/-! ### the windows -/

/-- the preconditions in the property's quantifier: positive stride, a rectangular sequence at
least as long as the window after padding, sample positions inside the window, a kernel matrix
with one column per sampled entry, `kernel_output_size = rows × d` -/
structure Valid (cols : List Col) (L w s : Nat) (sample : List Int) (K : Mat) (ncols p : Nat) : Prop where
  stride_pos : 0 < s
  rect : ∀ c ∈ cols, c.length = L
  fits : w ≤ L + 2 * p
  sample_in_window : ∀ j ∈ sample, 0 ≤ j ∧ j < (w : Int)
  kernel_shape : ∀ r ∈ K, r.length = sample.length
  out_size : ncols = K.length * cols.length

/-- **Window content**: the call succeeds, returns `⌈(L' − w + 1)/s⌉` rows for the padded length
`L' = L + 2p`, and row `i` is the kernel applied to the sampled entries of elements
`[i*s, i*s + w)` of the padded sequence — for every kernel row, the value for every column. -/
theorem window_content (cols : List Col) (L w s : Nat) (sample : List Int) (K : Mat) (ncols p : Nat) (v : Rat)
    (hv : Valid cols L w s sample K ncols p) :
    ∃ buf, slidingWindows cols L w s sample K ncols p v = .ok buf ∧
      buf.length = nWindows (L + 2 * p) w s ∧
      ∀ i, i < nWindows (L + 2 * p) w s →
        buf[i]? = some ((rowSpec (cols.map (padCol p v)) w s sample K i).map some) := by
  refine ⟨_, slidingWindows_ok cols L w s sample K ncols p v hv.stride_pos hv.rect (by have := hv.fits; omega)
    hv.sample_in_window hv.kernel_shape hv.out_size, by simp, ?_⟩
  intro i hi
  simp [hi]

/-- the sampled entries of window `i` are entries of the sequence at in-range positions
`i*s + j`, `j` running through the sample -/
theorem window_entries_in_range (c : Col) (w s i : Nat) (sample : List Int)
    (hin : i * s + w ≤ c.length) (hsamp : ∀ j ∈ sample, 0 ≤ j ∧ j < (w : Int)) :
    pick ((c.drop (i * s)).take w) sample = sample.filterMap (fun j => c[i * s + j.toNat]?) ∧
    (pick ((c.drop (i * s)).take w) sample).length = sample.length ∧
    ∀ j ∈ sample, i * s + j.toNat < c.length := by
  refine ⟨?_, ?_, ?_⟩
  · unfold pick
    apply filterMap_congr'
    intro j hj
    have := hsamp j hj
    rw [List.getElem?_take_of_lt (by omega), List.getElem?_drop]
  · have := gather_ok ((c.drop (i * s)).take w) sample (by
      intro j hj
      have := hsamp j hj
      simp only [List.length_take, List.length_drop]
      omega)
    exact this.2
  · intro j hj
    have := hsamp j hj
    omega

/-- **No uninitialised cell** of the `np.empty` result buffer survives: every cell of every row
has been written -/
theorem no_uninitialised (cols : List Col) (L w s : Nat) (sample : List Int) (K : Mat) (ncols p : Nat) (v : Rat)
    (hv : Valid cols L w s sample K ncols p) (buf : Buf)
    (hb : slidingWindows cols L w s sample K ncols p v = .ok buf) :
    ∀ row ∈ buf, row.length = ncols ∧ ∀ cell ∈ row, cell.isSome := by
  rw [slidingWindows_ok cols L w s sample K ncols p v hv.stride_pos hv.rect (by have := hv.fits; omega)
    hv.sample_in_window hv.kernel_shape hv.out_size] at hb
  simp only [Except.ok.injEq] at hb
  subst hb
  intro row hrow
  obtain ⟨i, _, rfl⟩ := List.mem_map.mp hrow
  refine ⟨by rw [List.length_map, rowSpec_length, hv.out_size]; simp, ?_⟩
  intro cell hcell
  obtain ⟨x, _, rfl⟩ := List.mem_map.mp hcell
  rfl

/-- **Index safety** (feeds C10): under the preconditions no checked read or write of the model
fails — no out-of-bounds window read, sample read or result write, no shape error -/
theorem index_safe (cols : List Col) (L w s : Nat) (sample : List Int) (K : Mat) (ncols p : Nat) (v : Rat)
    (hv : Valid cols L w s sample K ncols p) :
    ∃ buf, slidingWindows cols L w s sample K ncols p v = .ok buf :=
  let ⟨buf, h, _⟩ := window_content cols L w s sample K ncols p v hv
  ⟨buf, h⟩

/-! ### the difference kernel and `SequentialDifferenceTransformer` -/

/-- the number of rows of `difference_kernel` is the number of admissible differences:
`i < n_differences ↔ start + i*stride + step < n_cols` -/
theorem diff_count (n start step stride i : Nat) (hs : 0 < stride) :
    i < (nDiff n start step stride).toNat ↔ start + i * stride + step < n :=
  lt_nDiff_iff n start step stride i hs

/-- `difference_kernel` never writes out of range and has exactly those rows: `-1` at
`start + i*stride`, `+1` at `start + i*stride + step` -/
theorem diff_kernel_rows (n start step stride : Nat) (hs : 0 < stride) (hle : start + step ≤ n) :
    differenceKernel n start step stride
      = .ok ((List.range (nDiff n start step stride).toNat).map (diffRow n start step stride)) :=
  differenceKernel_ok n start step stride hs hle

/-- **`SequentialDifferenceTransformer(stride)` for every `stride ≥ 1`**: on a sequence of length
`L ≥ stride` it returns `L − stride` rows, row `i` holding `x[i + stride] − x[i]` for every column. -/
theorem seqdiff (cols : List Col) (L stride : Nat) (hs : 0 < stride) (hL : stride ≤ L)
    (hrect : ∀ c ∈ cols, c.length = L) :
    ∃ buf, seqDiff cols L stride = .ok buf ∧ buf.length = L - stride ∧
      ∀ i, i < L - stride → ∃ row, buf[i]? = some row ∧ row.length = cols.length ∧
        ∀ (m : Nat) (hm : m < cols.length), ∃ x y, cols[m][i]? = some x ∧ cols[m][i + stride]? = some y ∧
          row[m]? = some (some (y - x)) := by
  unfold seqDiff transformer
  rw [sample_none]
  simp only [bind, Except.bind, List.length_map, List.length_range]
  rw [buildKernel_differences (stride + 1) 0 stride stride hs (by omega)]
  have hnd : (nDiff (stride + 1) 0 stride stride).toNat = 1 := by
    have h1 : (0 : Nat) < (nDiff (stride + 1) 0 stride stride).toNat := (lt_nDiff_iff _ _ _ _ 0 hs).mpr (by omega)
    have h2 : ¬ (1 : Nat) < (nDiff (stride + 1) 0 stride stride).toNat := by
      rw [lt_nDiff_iff _ _ _ _ 1 hs]; omega
    omega
  simp only [hnd, List.range_one, List.map_cons, List.map_nil, List.length_cons, List.length_nil]
  have hrow : diffRow (stride + 1) 0 stride stride 0
      = ((List.replicate (stride + 1) (0 : Rat)).set 0 (-1)).set stride 1 := by simp [diffRow]
  rw [slidingWindows_ok cols L (stride + 1) 1 _ _ _ 0 0 (by omega) hrect (by omega)
    (by
      intro j hj
      obtain ⟨k, hk, rfl⟩ := List.mem_map.mp hj
      rw [List.mem_range] at hk
      omega)
    (by intro r hr; simp at hr; subst hr; simp [diffRow])
    (by simp)]
  simp only [Nat.mul_zero, Nat.add_zero]
  have hnw : nWindows L (stride + 1) 1 = L - stride := by
    unfold nWindows; simp
  have hpad : cols.map (padCol 0 0) = cols := by
    conv => rhs; rw [← List.map_id cols]
    apply List.map_congr_left
    intro c _; simp [padCol]
  rw [hnw, hpad]
  refine ⟨_, rfl, by simp, ?_⟩
  intro i hi
  refine ⟨_, by rw [List.getElem?_map, List.getElem?_range hi]; rfl, by simp [rowSpec], ?_⟩
  intro m hm
  have hcm : cols[m].length = L := hrect _ (List.getElem_mem hm)
  have hi1 : i < cols[m].length := by omega
  have hi2 : i + stride < cols[m].length := by omega
  refine ⟨cols[m][i], cols[m][i + stride], List.getElem?_eq_getElem hi1, List.getElem?_eq_getElem hi2, ?_⟩
  simp only [rowSpec, List.flatMap_cons, List.flatMap_nil, List.append_nil, List.map_map, List.getElem?_map,
    List.getElem?_eq_getElem hm, Option.map_some, Function.comp]
  congr 2
  have hww : wholeWindow ((List.range (stride + 1)).map fun (k : Nat) => (k : Int)) (stride + 1) = true := by
    simp [wholeWindow]
  rw [pick_whole _ _ (stride + 1) hww (by simp; omega), hrow]
  apply dot_diff_row (stride + 1) 0 stride _ _ _ (by omega) (by omega) (by omega)
  · rw [List.getElem?_take_of_lt (by omega), List.getElem?_drop]; simp [hi1]
  · rw [List.getElem?_take_of_lt (by omega), List.getElem?_drop]
    have : i * 1 + stride = i + stride := by omega
    rw [this]; simp [hi2]

/-! ### the transformer as a whole: sample interpretation + kernel matrix + windows -/

/-- the matrix `build_matrix_kernel` returns has one column per sampled entry (kernel lists with
`average` only in the last position) — so the `kernel_shape` precondition of `Valid` is met by
construction -/
theorem kernel_shape_ok (ks : List KSpec) (k : Nat) (K : Mat) (hav : avgLast ks = true)
    (h : buildKernel ks k = .ok K) : ∀ r ∈ K, r.length = k :=
  buildKernel_shape ks k K hav h

/-- **`SlidingWindowTransformer` end to end**: whenever the sample selects positions of the window
and the kernel list builds (`build_matrix_kernel` does not raise), `transform` succeeds and row `i`
is that kernel applied to the sampled entries of elements `[i*s, i*s + w)` of the padded sequence. -/
theorem transformer_content (cols : List Col) (L w s : Nat) (sample : Sample) (ks : List KSpec) (p : Nat) (v : Rat)
    (idx : List Int) (K : Mat) (hs : 0 < s) (hrect : ∀ c ∈ cols, c.length = L) (hfit : w ≤ L + 2 * p)
    (hidx : sampleIdx w sample = .ok idx) (hin : ∀ j ∈ idx, 0 ≤ j ∧ j < (w : Int))
    (hav : avgLast ks = true) (hK : buildKernel ks idx.length = .ok K) :
    transformer cols L w s sample ks p v =
      .ok ((List.range (nWindows (L + 2 * p) w s)).map fun i =>
        (rowSpec (cols.map (padCol p v)) w s idx K i).map some) := by
  unfold transformer
  simp only [hidx, hK, bind, Except.bind]
  exact slidingWindows_ok cols L w s idx K _ p v hs hrect (by omega) hin
    (buildKernel_shape ks idx.length K hav hK) rfl

/-- **`kernels=None`**: the transformer returns the sampled window entries themselves — row `i`
lists, for every sampled position `idx[j]` (in sample order) and every column, the element
`x[i*s + idx[j]]` of the padded sequence. -/
theorem identity_content (cols : List Col) (L w s : Nat) (sample : Sample) (p : Nat) (v : Rat)
    (idx : List Int) (hs : 0 < s) (hrect : ∀ c ∈ cols, c.length = L) (hfit : w ≤ L + 2 * p)
    (hidx : sampleIdx w sample = .ok idx) (hin : ∀ j ∈ idx, 0 ≤ j ∧ j < (w : Int)) :
    transformer cols L w s sample [] p v =
      .ok ((List.range (nWindows (L + 2 * p) w s)).map fun i =>
        ((List.range idx.length).flatMap fun j =>
          (cols.map (padCol p v)).filterMap fun c => (idx.filterMap fun k => c[i * s + k.toNat]?)[j]?).map some) := by
  rw [transformer_content cols L w s sample [] p v idx (eye idx.length) hs hrect hfit hidx hin rfl
    (buildKernel_nil idx.length)]
  congr 1
  apply List.map_congr_left
  intro i hi
  rw [List.mem_range] at hi
  have hir := in_range_of_lt_nWindows _ _ _ _ hs hi
  have hc' : ∀ c ∈ cols.map (padCol p v), i * s + w ≤ c.length := by
    intro c hcm
    obtain ⟨c0, hc0, rfl⟩ := List.mem_map.mp hcm
    rw [padCol_length, hrect c0 hc0]; exact hir
  congr 1
  rw [rowSpec_eye _ w s i idx (fun c hcm => (window_entries_in_range c w s i idx (hc' c hcm) hin).2.1)]
  apply flatMap_congr'
  intro j _
  apply filterMap_congr'
  intro c hcm
  rw [(window_entries_in_range c w s i idx (hc' c hcm) hin).1]

/-! ### non-vacuity -/

/-- width 4, stride 3, L = 10: windows start at 0, 3, 6 — `⌈7/3⌉ = 3` -/
example : nWindows 10 4 3 = 3 := by decide
/-- integer sample 2 in a window of width 5: positions 0, 2, 4 -/
example : (sampleIdx 5 (.every 2)).toOption = some [0, 2, 4] := by decide
example : (sampleIdx 7 (.pair 1 3)).toOption = some [1, 4] := by decide
/-- `Valid` is satisfiable: reversed window `[2, 1, 0]` with the identity kernel -/
example : Valid [[1, 2, 3, 4]] 4 3 1 [2, 1, 0] (eye 3) 3 0 :=
  ⟨by decide, by simp, by decide, by decide, by decide, by decide⟩
example : (slidingWindows [[1, 2, 3, 4]] 4 3 1 [2, 1, 0] (eye 3) 3 0 0).toOption
    = some [[some 3, some 2, some 1], [some 4, some 3, some 2]] := by decide +kernel
/-- the difference kernel on 5 columns, start 0, step 1, stride 2 has ⌈4/2⌉ = 2 rows (the floored
count of the unrepaired code is also 2 here; with stride 3 it is ⌈4/3⌉ = 2 against ⌊4/3⌋ = 1) -/
example : (nDiff 5 0 1 2).toNat = 2 ∧ (nDiff 5 0 1 3).toNat = 2 := by decide
/-- differences with stride 2 on a length-5 sequence -/
example : (seqDiff [[0, 1, 4, 9, 16]] 5 2).toOption = some [[some 4], [some 8], [some 12]] := by decide +kernel

end VecModel.Sliding
