import VecModel.Lemmas.LZ
/-
  C16 — LZ compression rows count each string's own parse phrases.
  Property theorems about the model in Model/LZ.lean (helper lemmas: Lemmas/LZ.lean).  Every
  `theorem` in this file is an obligation of the C16 check; see DESIGN.md §5 C16.
  Conventions: a string is its list of code points; `h : List Nat → κ` is the hash function
  (`id` for `identity_hash`, `hashOf seed size` with column hashing); `base` is the base dictionary,
  `cap` is `max_dict_size`; a dictionary is an insertion-ordered list of `(key, count)`.
-/
namespace VecModel.LZ

variable {κ : Type} [DecidableEq κ]

/-! ### the loop as written is the one-use-per-character parse -/

/-- `lempel_ziv_based_encode` (index loop over `end`, slices `string[start:end]`, initial empty
phrase) computes the character fold `parse`: each character position uses the current phrase once. -/
theorem encode_eq_parse (h : List Nat → κ) (cap : Nat) (base : Dict κ) (s : List Nat) :
    encode h cap base s = parse h cap base s :=
  encode_eq_parse' h cap base s

/-! ### row totals -/

/-- **Exact count, cap or no cap**: the row total plus the iterations lost to the cap is the string
length plus the base dictionary's initial counts. -/
theorem row_total_exact (h : List Nat → κ) (cap : Nat) (base : Dict κ) (s : List Nat) :
    total (encode h cap base s) + skipped h cap base s = s.length + total base := by
  rw [encode_eq_parse]
  have := fold_total h cap s (pinit base)
  simp only [pinit] at this
  unfold parse skipped prun pinit
  omega

/-- iterations are lost only once the dictionary holds `cap` phrases -/
theorem skipped_only_when_full (h : List Nat → κ) (cap : Nat) (base : Dict κ) (s : List Nat)
    (hsk : 0 < skipped h cap base s) : cap ≤ (encode h cap base s).length := by
  rw [encode_eq_parse]
  have h1 := fold_skipped h cap s (pinit base)
  have h2 := fold_size_dict h cap s (pinit base) rfl
  unfold skipped prun at hsk
  unfold parse prun
  have h0 : (pinit base).skipped = 0 := rfl
  rcases h1 with h1 | h1
  · rw [h1, h0] at hsk; omega
  · rw [← h2]; exact h1

/-- **Row total when the cap is not reached**: string length plus the base counts. -/
theorem row_total (h : List Nat → κ) (cap : Nat) (base : Dict κ) (s : List Nat)
    (hcap : (encode h cap base s).length < cap) :
    total (encode h cap base s) = s.length + total base := by
  have h1 := row_total_exact h cap base s
  have h2 : skipped h cap base s = 0 := by
    rcases Nat.eq_zero_or_pos (skipped h cap base s) with h0 | hpos
    · exact h0
    · have := skipped_only_when_full h cap base s hpos; omega
  omega

/-- the cap cannot be reached when it exceeds the base size plus the string length -/
theorem row_total_room (h : List Nat → κ) (cap : Nat) (base : Dict κ) (s : List Nat)
    (hroom : base.length + s.length < cap) :
    total (encode h cap base s) = s.length + total base := by
  apply row_total
  rw [encode_eq_parse]
  have h1 := fold_size_le_len h cap s (pinit base)
  have h2 := fold_size_dict h cap s (pinit base) rfl
  unfold parse prun
  simp only [pinit] at h1 h2 ⊢
  omega

/-- the dictionary is capped: it never holds more than `max cap |base|` phrases -/
theorem dict_size_le_cap (h : List Nat → κ) (cap : Nat) (base : Dict κ) (s : List Nat) :
    (encode h cap base s).length ≤ max cap base.length := by
  rw [encode_eq_parse]
  have h1 := fold_size_le h cap s (pinit base) base.length (by simp [pinit]; omega)
  have h2 := fold_size_dict h cap s (pinit base) rfl
  unfold parse prun
  omega

/-! ### fit_transform / transform -/

/-- the row read through the column labels: `(label of the column, count)` -/
def labelled (cols : Dict κ) (row : List (Nat × Nat)) : List (Option κ × Nat) :=
  row.map fun cv => (cols[cv.1]?.map (·.1), cv.2)

theorem labelled_emit (cols d : Dict κ) (hok : ColsOK cols) (hc : Covered cols d) :
    labelled cols (emit cols d) = d.map fun kv => (some kv.1, kv.2) := by
  induction d with
  | nil => rfl
  | cons kv rest ih =>
    have h1 := hc kv (by simp)
    have h2 : Covered cols rest := fun x hx => hc x (by simp [hx])
    obtain ⟨c, hc'⟩ := Option.isSome_iff_exists.mp h1
    have hpos := lookup_colsOK cols hok kv.1 c hc'
    simp only [labelled, emit, List.filterMap_cons, hc', Option.map_some, List.map_cons] at ih ⊢
    rw [ih h2, hpos]; rfl

/-- **Each row is determined by its own string alone.**  `fit_transform` succeeds, returns one row
per string, and row `i`, read through `column_label_dictionary_`, is exactly the count dictionary
of the parse of `X[i]` — a function of that string, the base dictionary and the cap only (the
per-string dictionary reset), whatever else the corpus contains. -/
theorem row_local (h : List Nat → κ) (cap : Nat) (base : Dict κ) (X : List (List Nat)) :
    ∃ rows cols, fitTransform h cap base X = .ok (rows, cols) ∧ rows.length = X.length ∧
      ∀ (i : Nat) (hi : i < X.length), ∃ row, rows[i]? = some row ∧
        labelled cols row = (encode h cap base X[i]).map fun kv => (some kv.1, kv.2) := by
  have inv := fitAsm_spec h cap base X
  refine ⟨_, _, fitTransform_eq h cap base X, by simp [rowsSpec], ?_⟩
  intro i hi
  refine ⟨emit (fitAsm h cap base X).cols (encode h cap base X[i]), by simp [rowsSpec, hi], ?_⟩
  exact labelled_emit _ _ inv.ok (inv.cov X[i] (List.getElem_mem hi))

/-- the data of a `fit_transform` row sum to the parse's total: with `row_total` this is
"row total = string length + base counts whenever the cap is not reached" on the matrix itself -/
theorem row_total_matrix (h : List Nat → κ) (cap : Nat) (base : Dict κ) (X : List (List Nat))
    (rows : List (List (Nat × Nat))) (cols : Dict κ) (hfit : fitTransform h cap base X = .ok (rows, cols))
    (i : Nat) (hi : i < X.length) (hcap : (encode h cap base X[i]).length < cap) :
    ∃ row, rows[i]? = some row ∧ (row.map (·.2)).sum = X[i].length + total base := by
  obtain ⟨rows', cols', h1, _, h3⟩ := row_local h cap base X
  rw [h1] at hfit
  obtain ⟨rfl, rfl⟩ : rows' = rows ∧ cols' = cols := by
    simpa using hfit
  obtain ⟨row, hr, hl⟩ := h3 i hi
  refine ⟨row, hr, ?_⟩
  have : row.map (·.2) = (encode h cap base X[i]).map (·.2) := by
    have := congrArg (List.map (·.2)) hl
    simpa [labelled, List.map_map, Function.comp_def] using this
  rw [this, ← row_total h cap base X[i] hcap]
  generalize encode h cap base X[i] = d
  induction d with
  | nil => rfl
  | cons p rest ih => obtain ⟨k, v⟩ := p; simp [ih]

/-- **The same phrase maps to the same column in `fit_transform` and `transform`**: transforming
the training corpus with the fitted dictionary reproduces the `fit_transform` rows column by
column; the fitted dictionary numbers distinct keys 0, 1, 2, … (a bijection key ↔ column). -/
theorem phrase_column_stable (h : List Nat → κ) (cap : Nat) (base : Dict κ) (X : List (List Nat))
    (rows : List (List (Nat × Nat))) (cols : Dict κ) (hfit : fitTransform h cap base X = .ok (rows, cols)) :
    transform h cap base cols X = .ok rows ∧ ColsOK cols ∧ (keys cols).Nodup := by
  rw [fitTransform_eq] at hfit
  obtain ⟨rfl, rfl⟩ : rowsSpec h cap base (fitAsm h cap base X).cols X = rows ∧ (fitAsm h cap base X).cols = cols := by
    simpa using hfit
  exact ⟨transform_eq h cap base _ X, (fitAsm_spec h cap base X).ok, (fitAsm_keys h cap base X).1⟩

/-- **Unseen phrases** (also C01): `transform` of *any* strings succeeds with the CSR arrays
consistent (one row per string), row `i` holds exactly the phrases of the parse of `Y[i]` that have
a fitted column — the others are dropped — and every column index is below the fitted width. -/
theorem transform_unseen (h : List Nat → κ) (cap : Nat) (base cols : Dict κ) (Y : List (List Nat))
    (hok : ColsOK cols) :
    ∃ rows, transform h cap base cols Y = .ok rows ∧ rows.length = Y.length ∧
      ∀ (i : Nat) (hi : i < Y.length), ∃ row, rows[i]? = some row ∧
        row = emit cols (encode h cap base Y[i]) ∧
        (∀ c v, (c, v) ∈ row ↔ ∃ k, (k, v) ∈ encode h cap base Y[i] ∧ lookup k cols = some c) ∧
        ∀ cv ∈ row, cv.1 < cols.length := by
  refine ⟨_, transform_eq h cap base cols Y, by simp [rowsSpec], ?_⟩
  intro i hi
  refine ⟨_, by simp [rowsSpec, hi], rfl, ?_, ?_⟩
  · intro c v
    simp only [emit, List.mem_filterMap, Option.map_eq_some_iff, Prod.mk.injEq]
    constructor
    · rintro ⟨kv, hkv, c', hl, rfl, rfl⟩; exact ⟨kv.1, hkv, hl⟩
    · rintro ⟨k, hk, hl⟩; exact ⟨(k, v), hk, c, hl, rfl, rfl⟩
  · intro cv hcv
    simp only [emit, List.mem_filterMap, Option.map_eq_some_iff] at hcv
    obtain ⟨kv, _, c, hl, rfl⟩ := hcv
    have := lookup_colsOK cols hok kv.1 c hl
    exact (List.getElem?_eq_some_iff.mp this).1

/-! ### column hashing -/

/-- `hash x < max_columns` -/
theorem hash_range (seed size : Nat) (hs : 0 < size) (p : List Nat) : hashOf seed size p < size :=
  Nat.mod_lt _ hs

/-- the raw murmur value is a 32-bit number (every path ends in the masked finalisation), so
the `% size` of `make_hash` acts on a non-negative value below 2^32 -/
theorem murmur_lt (key : List Nat) (seed : Nat) : murmur key seed < 2 ^ 32 :=
  fmix_lt _ _

/-- **At most `max_columns` columns** are used (base keys are hash values too), and all labels are
below `max_columns`. -/
theorem hash_columns_le (seed size : Nat) (hs : 0 < size) (cap : Nat) (base : Dict Nat)
    (hbase : ∀ k ∈ keys base, k < size) (X : List (List Nat))
    (rows : List (List (Nat × Nat))) (cols : Dict Nat)
    (hfit : fitTransform (hashOf seed size) cap base X = .ok (rows, cols)) :
    cols.length ≤ size ∧ ∀ k ∈ keys cols, k < size := by
  rw [fitTransform_eq] at hfit
  obtain ⟨_, rfl⟩ : _ ∧ (fitAsm (hashOf seed size) cap base X).cols = cols := by
    simpa using hfit
  obtain ⟨hnd, horigin⟩ := fitAsm_keys (hashOf seed size) cap base X
  have hlt : ∀ k ∈ keys (fitAsm (hashOf seed size) cap base X).cols, k < size := by
    intro k hk
    obtain ⟨s, _, hks⟩ := horigin k hk
    rw [encode_eq_parse] at hks
    exact fold_keys_origin (hashOf seed size) cap s (· < size) (hash_range seed size hs) (pinit base)
      (by simpa [pinit] using hbase) k hks
  refine ⟨?_, hlt⟩
  have := nodup_lt_length_le _ size hnd hlt
  simpa [keys] using this

/-- **Row totals are unchanged by hashing**: whatever the hash function (and whatever collisions),
as long as neither run reaches the cap both totals are the string length plus the base counts. -/
theorem hash_totals {κ₁ κ₂ : Type} [DecidableEq κ₁] [DecidableEq κ₂] (h₁ : List Nat → κ₁) (h₂ : List Nat → κ₂)
    (cap : Nat) (base₁ : Dict κ₁) (base₂ : Dict κ₂) (s : List Nat) (hb : total base₁ = total base₂)
    (hc₁ : (encode h₁ cap base₁ s).length < cap) (hc₂ : (encode h₂ cap base₂ s).length < cap) :
    total (encode h₂ cap base₂ s) = total (encode h₁ cap base₁ s) := by
  rw [row_total h₁ cap base₁ s hc₁, row_total h₂ cap base₂ s hc₂, hb]

/-- in every case hashing moves counts between the row total and the iterations lost to the cap only -/
theorem hash_totals_exact {κ₁ κ₂ : Type} [DecidableEq κ₁] [DecidableEq κ₂] (h₁ : List Nat → κ₁) (h₂ : List Nat → κ₂)
    (cap : Nat) (base₁ : Dict κ₁) (base₂ : Dict κ₂) (s : List Nat) (hb : total base₁ = total base₂) :
    total (encode h₂ cap base₂ s) + skipped h₂ cap base₂ s
      = total (encode h₁ cap base₁ s) + skipped h₁ cap base₁ s := by
  rw [row_total_exact, row_total_exact, hb]

/-- the phrases of a string's (unhashed) parse: its dictionary phrases (incl. the base
dictionary's) and every phrase the parse examines (incl. candidates skipped at the cap) -/
def phrases (cap : Nat) (base : Dict (List Nat)) (s : List Nat) : List (List Nat) :=
  keys (encode id cap base s) ++ examined id cap base s

/-- **No collision ⇒ relabelling.**  If the hash `f` is injective on the phrases of the string's
parse, the hashed run's count dictionary is the unhashed one with every key `k` replaced by `f k`
(same order, same counts) — cap or no cap.  With `row_local` the hashed matrix row is the unhashed
row with its columns relabelled. -/
theorem hash_relabel {κ' : Type} [DecidableEq κ'] (f : List Nat → κ') (cap : Nat) (base : Dict (List Nat))
    (s : List Nat) (hinj : InjOnList f (phrases cap base s)) :
    encode f cap (relabel f base) s = relabel f (encode id cap base s) := by
  rw [encode_eq_parse, encode_eq_parse]
  have hrel : Rel f (pinit base) (pinit (relabel f base)) :=
    ⟨rfl, by simp [pinit, relabel_length], rfl, rfl, rfl⟩
  have := fold_rel f id cap s (pinit base) (pinit (relabel f base)) hrel
    (by
      unfold phrases at hinj
      rw [encode_eq_parse] at hinj
      simpa [parse, examined, prun] using hinj)
  exact this.dict

/-- the same for a whole corpus: one hash, injective on the phrases of all its strings -/
theorem hash_relabel_corpus {κ' : Type} [DecidableEq κ'] (f : List Nat → κ') (cap : Nat)
    (base : Dict (List Nat)) (X : List (List Nat)) (hinj : InjOnList f (X.flatMap (phrases cap base))) :
    ∀ s ∈ X, encode f cap (relabel f base) s = relabel f (encode id cap base s) := by
  intro s hs
  apply hash_relabel
  exact hinj.mono fun a ha => List.mem_flatMap.mpr ⟨s, hs, ha⟩

/-- when the cap is not reached the phrases of the parse are exactly its dictionary phrases, so
injectivity on the dictionary keys (the columns of the unhashed row) suffices -/
theorem hash_relabel_nocap {κ' : Type} [DecidableEq κ'] (f : List Nat → κ') (cap : Nat) (base : Dict (List Nat))
    (s : List Nat) (hcap : (encode id cap base s).length < cap)
    (hinj : InjOnList f (keys (encode id cap base s))) :
    encode f cap (relabel f base) s = relabel f (encode id cap base s) := by
  apply hash_relabel
  apply hinj.mono
  intro p hp
  unfold phrases at hp
  rcases List.mem_append.mp hp with hp | hp
  · exact hp
  · have h2 : skipped id cap base s = 0 := by
      rcases Nat.eq_zero_or_pos (skipped id cap base s) with h0 | hpos
      · exact h0
      · have := skipped_only_when_full id cap base s hpos; omega
    rw [encode_eq_parse]
    have := fold_seen_keys id cap s (pinit base) (by simpa [skipped, prun, pinit] using h2)
      (by intro q hq; simp [pinit] at hq) p (by simpa [examined, prun] using hp)
    simpa [parse, prun] using this

/-! ### non-vacuity: "abababab" -/

def ab8 : List Nat := [97, 98, 97, 98, 97, 98, 97, 98]

/-- the parse of "abababab": phrases "", a, b, ab, aba with uses 1, 3, 1, 2, 1 (total 8 = length) -/
example : encode id 65536 [] ab8 = [([], 1), ([97], 3), ([98], 1), ([97, 98], 2), ([97, 98, 97], 1)] := by decide
example : total (encode id 65536 [] ab8) = 8 := by decide
/-- cap 3 is reached: 2 iterations are lost, the identity of `row_total_exact` is 6 + 2 = 8 + 0 -/
example : encode id 3 [] ab8 = [([], 1), ([97], 4), ([98], 1)] ∧ skipped id 3 [] ab8 = 2 := by decide
/-- hypotheses of `hash_relabel` are satisfiable by a non-injective hash (sum of the code points) -/
example : InjOnList (fun p : List Nat => p.sum) (phrases 65536 [] ab8) := by
  unfold InjOnList; decide
/-- and it can fail: "ab" / "ba" collide under the sum -/
example : ¬ InjOnList (fun p : List Nat => p.sum) (phrases 65536 [([98, 97], 1)] ab8) := by
  unfold InjOnList; decide
/-- fit_transform / transform with an unseen phrase ("z") in the model -/
example : (fitTransform id 65536 [] [ab8, [97]]).toOption.map (·.1)
    = some [[(0, 1), (1, 3), (2, 1), (3, 2), (4, 1)], [(0, 1)]] := by decide
example : (transform id 65536 [] [([], 0), ([97], 1)] [[97, 122, 122]]).toOption = some [[(0, 1), (1, 1)]] := by decide

end VecModel.LZ
