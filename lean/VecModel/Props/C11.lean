import VecModel.Lemmas.EMChunk
/-
  C11 — EM refinement and epsilon thresholding follow the documented procedure.
  Property theorems about lean/VecModel/Model/EM.lean (helper lemmas: Lemmas/EM*.lean).
  Every theorem in this file is an obligation of the C11 check; see DESIGN.md §5 C11.
-/
namespace VecModel.EM

/-! ### Memory safety of the kernel (shared with C10) -/

/-- **lookup_safe.**  One call of the index-level `em_update_matrix` on valid CSR arrays, for a
row that exists and windows/kernels of matching shape, performs no out-of-range read or write —
whatever the columns stored in the row are (in particular when thresholding removed the looked-up
cell and `searchsorted` returns the slice length), and returns a posterior of the same length. -/
theorem lookup_safe (indptr indices : List Nat) (data : List Rat) (n : Nat) (post : List Rat)
    (o : Occ) (hv : ValidCsr indptr indices data) (hp : post.length = data.length)
    (ht : o.target + 1 < indptr.length) (hs : o.Shaped) :
    ∃ r, emUpdateIdx indptr indices data n post o = .ok r ∧ r.length = post.length :=
  emUpdateIdx_ok indptr indices data n post o hv hp ht hs

/-- a whole EM round (`numba_*em_cooccurrence_iteration`) over the CSR arrays of any
row-structured matrix never fails, for any corpus of occurrences of existing rows. -/
theorem em_round_safe (M : Mat) (n : Nat) (occs : List Occ)
    (h : ∀ o ∈ occs, o.target < M.length ∧ o.Shaped) :
    ∃ r, emIterIdx (indptrOf M) (indicesOf M) (dataOf M) n occs = .ok r ∧
      r.length = (dataOf M).length := by
  unfold emIterIdx
  refine emIterIdxFrom_ok _ _ _ n (validCsr_of M) occs _ (by simp) ?_
  intro o ho
  have := h o ho
  exact ⟨by simp [indptrOf, indptrFrom_length]; omega, this.2⟩

/-- Non-vacuity and the D17 counter-example on the model: row 0 stores column 0 only, the
occurrence looks up column 2 (> every stored column): `searchsorted` returns 1 = slice length.
The repaired kernel returns normally (mass 0), the pre-repair lookup reads `col_ind[1]` out of range. -/
example :
    (emUpdateIdx [0, 1, 2] [0, 2] [1/2, 1/2] 3 [0, 0] ⟨0, [[2]], [[1]]⟩).toOption = some [0, 0] ∧
    (emUpdateIdxPreFix [0, 1, 2] [0, 2] [1/2, 1/2] 3 [0, 0] ⟨0, [[2]], [[1]]⟩).toOption = none := by
  decide +kernel

/-! ### Value range, column sums, support -/

/-- **entries_unit.**  Whenever EM or thresholding is requested (`n_iter ≥ 1` or `epsilon > 0`),
every stored entry of the result lies in [0, 1] — for every corpus of occurrences, every
`n_iter`, every epsilon, every chunking. -/
theorem entries_unit (n : Nat) (eps : Rat) (nIter : Nat) (chunks : List (List Occ)) (M0 : Mat)
    (h0 : Nonneg M0) (hreq : nIter > 0 ∨ eps > 0) :
    ∀ cv ∈ (em n eps nIter chunks M0).flatten, 0 ≤ cv.2 ∧ cv.2 ≤ 1 := by
  obtain ⟨X, hX, hem⟩ := em_shape n eps nIter chunks M0 h0 hreq
  rw [hem, threshold_flatten, normCols_flatten]
  intro cv hcv
  obtain ⟨x, hx, rfl⟩ := List.mem_map.mp (List.mem_filter.mp hcv).1
  exact normCell_unit X.flatten hX x hx

/-- **col_sum_le_one.**  Every column of the result sums to at most 1. -/
theorem col_sum_le_one (n : Nat) (eps : Rat) (nIter : Nat) (chunks : List (List Occ)) (M0 : Mat)
    (h0 : Nonneg M0) (hreq : nIter > 0 ∨ eps > 0) (c : Nat) :
    colSum (em n eps nIter chunks M0) c ≤ 1 := by
  obtain ⟨X, hX, hem⟩ := em_shape n eps nIter chunks M0 h0 hreq
  rw [hem]
  unfold colSum
  rw [threshold_flatten, normCols_flatten]
  refine le_trans (colSumL_filter_le _ _ c) ?_
  rw [colSumL_norm X.flatten hX c]
  split <;> norm_num

/-- **col_sum_eq_one.**  With `epsilon = 0` (and `n_iter ≥ 1`) every non-empty column of the
result — a column in which the result stores an entry — sums to exactly 1. -/
theorem col_sum_eq_one (n : Nat) (nIter : Nat) (chunks : List (List Occ)) (M0 : Mat)
    (h0 : Nonneg M0) (hreq : nIter > 0) (c : Nat)
    (hne : ∃ cv ∈ (em n 0 nIter chunks M0).flatten, cv.1 = c) :
    colSum (em n 0 nIter chunks M0) c = 1 := by
  obtain ⟨X, hX, hem⟩ := em_shape n 0 nIter chunks M0 h0 (Or.inl hreq)
  rw [hem] at hne ⊢
  unfold colSum
  rw [threshold_flatten, normCols_flatten] at *
  rw [colSumL_filter_keep0 _ (nonnegL_norm X.flatten hX) c, colSumL_norm X.flatten hX c]
  obtain ⟨cv, hcv, hc⟩ := hne
  obtain ⟨hmem, hkeep⟩ := List.mem_filter.mp hcv
  obtain ⟨x, hx, rfl⟩ := List.mem_map.mp hmem
  have hxc : x.1 = c := hc
  -- the kept entry is non-zero, so its column had a non-zero norm
  rw [if_neg]
  intro hzero
  have hle := le_colSumL X.flatten x hx
  rw [hxc, hzero, absQ_of_nonneg (hX x hx)] at hle
  have hx0 : x.2 = 0 := le_antisymm hle (hX x hx)
  have : (normCell (colSumL X.flatten) x).2 = 0 := by
    simp only [normCell, hxc, hzero, if_true, hx0]
  simp [keep, this] at hkeep

/-- **support_mono.**  The support never grows: in every row the stored columns of the result form
a sub-list of the stored columns of the `n_iter = 0` matrix. -/
theorem support_mono (n : Nat) (eps : Rat) (nIter : Nat) (chunks : List (List Occ)) (M0 : Mat) :
    SubSupport (em n eps nIter chunks M0) M0 := by
  unfold em
  split
  · exact (subSupport_emRun n eps chunks nIter _).trans
      ((subSupport_threshold eps _).trans (subSupport_normCols M0))
  · exact SubSupport.refl M0

/-! ### Mass of one occurrence -/

/-- **unit_mass.**  One occurrence adds total mass exactly 1 to the posterior values of its row
when at least one of its window contexts still has a stored positive cell, and exactly 0 otherwise
(for non-negative prior values; the kernel weights are arbitrary). -/
theorem unit_mass (n : Nat) (row : Row) (o : Occ) (p : List Rat) (hrow : NonnegL row)
    (hp : p.length = row.length) :
    (rowUpdate n row o p).sum = p.sum +
      (if ((eStep row (entriesF n o.windows o.kernels 0)).map (·.2)).sum > 0 then 1 else 0) := by
  unfold rowUpdate
  have hE := eStep_ok row hrow (entriesF n o.windows o.kernels 0)
  rw [sum_mStep row.length _ p hp (normPost_ok' _ _ hE), normPost_sum _ (fun x hx => (hE x hx).1)]

/-- **row_credit** (row level).  The posterior values of every other row are untouched by an
occurrence of row `o.target`. -/
theorem row_credit (n : Nat) (M : Mat) (post : Post) (o : Occ) (r : Nat) (hr : r ≠ o.target) :
    (emUpdate n M post o)[r]? = post[r]? := by
  unfold emUpdate
  split
  · rfl
  · rw [List.getElem?_modify]
    simp [Ne.symm hr]

/-- **row_credit** (index level).  A successful call of the kernel on the flat CSR arrays changes
`posterior_data` only inside the target row's slice `[indptr[target], indptr[target+1])` — mass
generated by an occurrence of one token is never credited to another token's row.  (This is what
the unrepaired kernel violated in compiled mode.) -/
theorem row_credit_idx (indptr indices : List Nat) (data : List Rat) (n : Nat) (post r : List Rat)
    (o : Occ) (h : emUpdateIdx indptr indices data n post o = .ok r) (lo hi : Nat)
    (hlo : indptr[o.target]? = some lo) (hhi : indptr[o.target + 1]? = some hi) :
    ∀ i, (i < lo ∨ hi ≤ i) → r[i]? = post[i]? :=
  emUpdateIdx_frame indptr indices data n post r o h lo hi hlo hhi

/-! ### Refinement of the documented procedure -/

/-- **em_refines_spec.**  For every canonical (sorted, duplicate-free rows) non-negative starting
matrix, every corpus of occurrences split into chunks in any way, every `n_iter` and epsilon: the
dense view of the model's result is the documented procedure applied to the dense view of the
starting matrix — L1-normalise the columns, zero the entries below epsilon, then per iteration let
every occurrence distribute one unit of mass over the cells (own row, context column) of its
window contexts in proportion to kernel weight × current cell value, re-normalise, re-threshold.
The chunking (`n_threads`) does not appear on the right-hand side. -/
theorem em_refines_spec (n : Nat) (eps : Rat) (nIter : Nat) (chunks : List (List Occ)) (M0 : Mat)
    (hc : Canon M0) (hn : Nonneg M0) :
    toDense (em n eps nIter chunks M0)
      = spec M0.length n eps nIter chunks.flatten (toDense M0) := by
  unfold em spec
  split
  · have hN : Canon (normCols M0) := canon_of_subSupport (subSupport_normCols M0) hc
    have hT : Canon (threshold eps (normCols M0)) := canon_of_subSupport (subSupport_threshold eps _) hN
    rw [toDense_emRun n eps chunks nIter _ hT (nonneg_threshold_normCols eps M0 hn),
      length_threshold, length_normCols, toDense_threshold eps _ hN, toDense_normCols M0 hc]
  · rfl

/-- **em_idx_eq_rows.**  The index-level kernel on the flat CSR arrays (indptr / indices / data,
`posterior_data` addressed as `indptr[target] + position`) computes exactly the row-level model
that the theorems above are about: a whole EM round over any corpus of well-shaped occurrences of
existing rows returns the flattened row-level posterior (in particular it never fails). -/
theorem em_idx_eq_rows (n : Nat) (M : Mat) (occs : List Occ)
    (h : ∀ o ∈ occs, o.target < M.length ∧ o.Shaped) :
    emIterIdx (indptrOf M) (indicesOf M) (dataOf M) n occs
      = .ok (emPosterior n M occs).flatten := by
  unfold emIterIdx emPosterior
  rw [← zerosLike_flatten]
  exact emIterIdxFrom_eq n M occs _ (shape_zerosLike M) h

/-- one EM round: the summed per-chunk posteriors, viewed densely, are the specification's
posterior of the whole corpus — whatever the chunk boundaries are. -/
theorem chunk_sum_refines (n : Nat) (M : Mat) (hc : Canon M) (hn : Nonneg M)
    (chunks : List (List Occ)) :
    toDense (withData M (chunkPosterior n M chunks))
      = specPosterior n (toDense M) chunks.flatten := by
  funext r c
  exact (toDense_chunkPosterior n M hc hn chunks r c).1

/-- **chunk_sum_eq.**  `sum(new_data_per_chunk)`: the element-wise sum of the posteriors computed
per chunk (each from zeros) is exactly the posterior computed over the concatenated corpus — for
every split into chunks (any `n_threads`, the per-document sums of the multiset vectorizer). -/
theorem chunk_sum_eq (n : Nat) (M : Mat) (chunks : List (List Occ)) :
    chunkPosterior n M chunks = emPosterior n M chunks.flatten :=
  chunkPosterior_eq n M chunks

/-- the canonical-form and sign invariants that `em_refines_spec` needs are preserved by every
round, so they only have to hold for the starting matrix. -/
theorem em_round_invariants (n : Nat) (eps : Rat) (chunks : List (List Occ)) (M : Mat)
    (hc : Canon M) (hn : Nonneg M) :
    Canon (emStep n eps chunks M) ∧ Nonneg (emStep n eps chunks M) ∧
      (emStep n eps chunks M).length = M.length :=
  emStep_inv n eps chunks M hc hn

/-- Non-vacuity of the refinement on a 3-token example in which thresholding removes a cell that the
next iteration looks up: starting matrix rows `[(0,1),(2,3)]`, `[(0,3),(1,1)]`, `[(2,1)]`, epsilon 0.3
removes cell (0,0) (1/4 < 0.3); the occurrence of token 0 looks up columns 0 and 2. -/
example :
    let M0 : Mat := [[(0, 1), (2, 3)], [(0, 3), (1, 1)], [(2, 1)]]
    let occs : List Occ := [⟨0, [[0, 2]], [[1, 1]]⟩, ⟨1, [[0, 1]], [[1, 1]]⟩, ⟨2, [[2]], [[1]]⟩]
    Canon M0 ∧ Nonneg M0 ∧
    (em 3 (3/10) 2 [occs] M0).map (·.map (·.1)) = [[2], [0, 1], []] ∧
    (List.range 3).map (fun r => (List.range 3).map fun c => toDense (em 3 (3/10) 1 [occs] M0) r c)
      = (List.range 3).map (fun r => (List.range 3).map fun c =>
          spec 3 3 (3/10) 1 occs (toDense M0) r c) := by
  refine ⟨?_, ?_, ?_, ?_⟩
  · intro row hrow
    simp only [List.mem_cons, List.not_mem_nil, or_false] at hrow
    rcases hrow with rfl | rfl | rfl <;> simp [SortedRow]
  · intro cv hcv
    simp only [List.flatten_cons, List.flatten_nil, List.cons_append, List.nil_append, List.append_nil,
      List.mem_cons, List.not_mem_nil, or_false] at hcv
    rcases hcv with rfl | rfl | rfl | rfl | rfl <;> norm_num
  · decide +kernel
  · decide +kernel

end VecModel.EM
