import VecModel.Lemmas.Sparse
import VecModel.Lemmas.BPE
import VecModel.Props.C06
import VecModel.Props.C16
import VecModel.Model.Histogram
/-
  C12 — each output row depends only on its own input item and the fitted model.
  Generic part: the row view of every row-wise `transform` is `items.map rowOf` with `rowOf`
  depending on the fitted model only; block / chunk loops (`n // b + 1` blocks of size `b`)
  concatenate to the unblocked result for every block size ≥ 1.
-/
namespace VecModel.Sparse

/-- transform is a map of a per-item function that only sees the fitted model -/
theorem transformRows_is_map (lookup : α → Option Nat) (width : Nat)
    (items : List (List (α × Rat))) :
    transformRows lookup width items = items.map (fun item => denseRow width (rowEntries lookup item)) :=
  rfl

/-- transforming a concatenation of batches = concatenating the transforms -/
theorem transformRows_append (lookup : α → Option Nat) (width : Nat)
    (A B : List (List (α × Rat))) :
    transformRows lookup width (A ++ B) =
      transformRows lookup width A ++ transformRows lookup width B := by
  simp [transformRows]

/-- permuting the inputs permutes the rows -/
theorem transformRows_perm (lookup : α → Option Nat) (width : Nat)
    {A B : List (List (α × Rat))} (h : A.Perm B) :
    (transformRows lookup width A).Perm (transformRows lookup width B) :=
  h.map _

/-- the row of item `i` is the transform of the one-item batch `[items[i]]` -/
theorem transformRows_getElem (lookup : α → Option Nat) (width : Nat)
    (items : List (List (α × Rat))) (i : Nat) (hi : i < items.length) :
    (transformRows lookup width items)[i]? = (transformRows lookup width [items[i]])[0]? := by
  simp [transformRows, hi]

/-- a duplicated item yields duplicated rows -/
theorem transformRows_dup (lookup : α → Option Nat) (width : Nat) (item : List (α × Rat)) (n : Nat) :
    transformRows lookup width (List.replicate n item) =
      List.replicate n (denseRow width (rowEntries lookup item)) := by
  simp [transformRows]

/-- Block loops: for every block size `b ≥ 1`, processing `n // b + 1` blocks of `b` rows
(the last possibly empty) with any per-row function and concatenating gives the unblocked
result — independence from memory_size / block / chunk sizes. -/
theorem blockwise_map (b : Nat) (hb : 0 < b) (g : α → β) (l : List α) :
    blockwise b (List.map g) l = l.map g := by
  unfold blockwise
  have hlen : l.length < (l.length / b + 1) * b := by
    have := Nat.div_add_mod l.length b
    have hm := Nat.mod_lt l.length hb
    rw [Nat.add_mul, Nat.mul_comm]
    omega
  have := blocks_flatten b (l.length / b + 1) l hlen
  rw [← List.map_flatten, this]

/-- hence blockwise transform = transform, for every block size -/
theorem blockwise_transformRows (b : Nat) (hb : 0 < b) (lookup : α → Option Nat) (width : Nat)
    (items : List (List (α × Rat))) :
    blockwise b (transformRows lookup width) items = transformRows lookup width items := by
  unfold transformRows
  exact blockwise_map b hb _ items

/-- parallel loops that write one result per index (prange): any execution order of the
per-index tasks yields the same array — writes to distinct indices commute. -/
theorem prange_order_irrelevant (f : Nat → β) (n : Nat) (order : List Nat)
    (hperm : order.Perm (List.range n)) (init : Nat → Option β) :
    ∀ i, i < n →
      (order.foldl (fun (arr : Nat → Option β) k => fun j => if j = k then some (f k) else arr j) init) i
        = some (f i) := by
  intro i hi
  have hmem : i ∈ order := hperm.mem_iff.mpr (by simp [hi])
  clear hperm
  induction order generalizing init with
  | nil => simp at hmem
  | cons k rest ih =>
    simp only [List.foldl_cons]
    by_cases hin : i ∈ rest
    · exact ih _ hin
    · have hk : i = k := by
        rcases List.mem_cons.mp hmem with h | h
        · exact h
        · exact absurd h hin
      subst hk
      -- later writes never touch index i
      have : ∀ (rest : List Nat) (arr : Nat → Option β), i ∉ rest →
          (rest.foldl (fun (arr : Nat → Option β) k => fun j => if j = k then some (f k) else arr j) arr) i
            = arr i := by
        intro rest
        induction rest with
        | nil => intro arr _; rfl
        | cons k' rest' ih' =>
          intro arr hni
          simp only [List.foldl_cons]
          rw [ih' _ (fun h => hni (by simp [h]))]
          have : i ≠ k' := fun h => hni (by simp [h])
          simp [this]
      rw [this rest _ hin]
      simp

/-! Non-vacuity -/
example : blockwise 2 (List.map (· + 1)) [1, 2, 3, 4, 5] = [2, 3, 4, 5, 6] ∧
    blocks 2 (5 / 2 + 1) [1, 2, 3, 4, 5] = [[1, 2], [3, 4], [5]] ∧
    blocks 2 (4 / 2 + 1) [1, 2, 3, 4] = [[1, 2], [3, 4], []] := by decide

end VecModel.Sparse


/-! ### Vectorizer-specific instances (models of C06 / C16 / C09) -/
namespace VecModel.C12

/-- NgramVectorizer.transform is a map of a per-document function of the fitted model: the rows of the
result are `X.map rowOf`, hence concatenation / permutation / duplication of the batch act row-wise. -/
theorem ngram_transform_is_map (m : Ngram.Fitted) (h : Ngram.WF m) (X : List (List Int)) :
    ∃ M, Ngram.transform m X = .ok M ∧
      M.rows = X.map fun doc => Ngram.countDoc m (Counts.reindex m.tokDict doc) :=
  let ⟨M, h1, _, _, h4⟩ := C06.ngram_transform_shape m h X
  ⟨M, h1, h4⟩

theorem ngram_transform_append (m : Ngram.Fitted) (h : Ngram.WF m) (A B : List (List Int)) :
    ∃ MA MB MAB, Ngram.transform m A = .ok MA ∧ Ngram.transform m B = .ok MB ∧
      Ngram.transform m (A ++ B) = .ok MAB ∧ MAB.rows = MA.rows ++ MB.rows := by
  obtain ⟨MA, a1, a2⟩ := ngram_transform_is_map m h A
  obtain ⟨MB, b1, b2⟩ := ngram_transform_is_map m h B
  obtain ⟨MAB, c1, c2⟩ := ngram_transform_is_map m h (A ++ B)
  exact ⟨MA, MB, MAB, a1, b1, c1, by rw [c2, a2, b2, List.map_append]⟩

/-- LZCompressionVectorizer.transform: row `i` is a function of string `i`, the fitted columns, the base
dictionary and the cap only (the per-string dictionary reset) -/
theorem lz_transform_is_map {κ : Type} [DecidableEq κ] (h : List Nat → κ) (cap : Nat)
    (base cols : LZ.Dict κ) (Y : List (List Nat)) (hok : LZ.ColsOK cols) :
    ∃ rows, LZ.transform h cap base cols Y = .ok rows ∧ rows.length = Y.length ∧
      ∀ (i : Nat) (hi : i < Y.length), rows[i]? = some (LZ.emit cols (LZ.encode h cap base Y[i])) := by
  obtain ⟨rows, h1, h2, h3⟩ := LZ.transform_unseen h cap base cols Y hok
  refine ⟨rows, h1, h2, ?_⟩
  intro i hi
  obtain ⟨row, r1, r2, _⟩ := h3 i hi
  rw [r1, r2]

/-- BytePairEncodingVectorizer.transform ('sequences'): one encoding per string, each a function of its own
string and the learned merges — whatever order a parallel loop fills them in (`prange_order_irrelevant`). -/
theorem bpe_transform_is_map (cl : List BPE.Pair) (mcc : Int) (A B : List (List Int)) :
    (A ++ B).map (BPE.encode cl mcc) = A.map (BPE.encode cl mcc) ++ B.map (BPE.encode cl mcc) ∧
    ∀ (i : Nat) (hi : i < A.length), ((A ++ B).map (BPE.encode cl mcc))[i]? = some (BPE.encode cl mcc A[i]) := by
  refine ⟨List.map_append, ?_⟩
  intro i hi
  simp [List.getElem?_append_left, hi]

/-- HistogramVectorizer / KDEVectorizer `transform` (model: one `Hist.counts bins` / `Hist.kdeRow K h grid`
per sequence): row `i` is a function of sequence `i` and the fitted model alone — the batch may be extended,
split, or the other sequences replaced without changing it. -/
theorem histogram_row_indep (bins : List Hist.Bin) (A B : List (List Rat)) :
    (A ++ B).map (Hist.counts bins) = A.map (Hist.counts bins) ++ B.map (Hist.counts bins) ∧
    ∀ (X Y : List (List Rat)) (i : Nat), X[i]? = Y[i]? →
      (X.map (Hist.counts bins))[i]? = (Y.map (Hist.counts bins))[i]? := by
  refine ⟨List.map_append, ?_⟩
  intro X Y i h
  simp [List.getElem?_map, h]

theorem kde_row_indep {α : Type} [Add α] [Sub α] [Mul α] [Div α] [OfNat α 0] [NatCast α]
    (K : α → α) (h : α) (grid : List α) (A B : List (List α)) :
    (A ++ B).map (Hist.kdeRow K h grid) = A.map (Hist.kdeRow K h grid) ++ B.map (Hist.kdeRow K h grid) ∧
    ∀ (X Y : List (List α)) (i : Nat), X[i]? = Y[i]? →
      (X.map (Hist.kdeRow K h grid))[i]? = (Y.map (Hist.kdeRow K h grid))[i]? := by
  refine ⟨List.map_append, ?_⟩
  intro X Y i hXY
  simp [List.getElem?_map, hXY]

end VecModel.C12
