import VecModel.Lemmas.CoocSpec
import VecModel.Lemmas.CoocNgram
import VecModel.Lemmas.CoocMulti
/-
  C03 — Co-occurrence matrices equal the windowed, kernel-weighted count definition.
  Property theorems (helper lemmas live in Lemmas/Window.lean, Cooc.lean, CoocSpec.lean, CoocOcc.lean,
  CoocNgram.lean, CoocMulti.lean). Every theorem
  here is an obligation of the C03 check; see DESIGN.md §5 C03.
-/
set_option linter.unusedSimpArgs false
set_option linter.unusedVariables false
namespace VecModel.Cooc
open VecModel.Window

/-! ### window content: exact, clipped to the sequence, never another sequence -/

/-- **'after' window**: entry `k` of `window_at_index(s, r, i)` is `s[i+1+k]` for exactly the
`k < r` that stay inside `s` — the tokens at distance `1..r` after position `i`, nearest first,
clipped at the end of the sequence, and nothing that is not an element of `s`. -/
theorem window_after_exact (s : List α) (r i k : Nat) :
    (windowAt s r i false)[k]? = if k < r then s[i + 1 + k]? else none :=
  windowAt_after_getElem? s r i k

/-- **'before' window**: entry `k` is `s[i-1-k]` for exactly the `k < r` with `k < i` — the tokens
at distance `1..r` before position `i`, nearest first, clipped at the start of the sequence. -/
theorem window_before_exact (s : List α) (r i k : Nat) (hi : i ≤ s.length) :
    (windowAt s r i true)[k]? = if k < r ∧ k < i then s[i - 1 - k]? else none :=
  windowAt_before_getElem? s r i k hi

/-- the window has `min r (room to the boundary)` entries: it never crosses a sequence boundary -/
theorem window_length (s : List α) (r i : Nat) (hi : i < s.length) :
    (windowAt s r i false).length = min r (s.length - 1 - i) ∧
    (windowAt s r i true).length = min r i := by
  constructor
  · rw [windowAt_after_length]; congr 1; omega
  · exact windowAt_before_length s r i (by omega)

/-- every window entry is an element of the same sequence at distance `1..r` from the target -/
theorem window_in_sequence (s : List α) (r i : Nat) (rev : Bool) (hi : i < s.length) (x : α)
    (hx : x ∈ windowAt s r i rev) :
    ∃ j, s[j]? = some x ∧ (if rev then j < i ∧ i ≤ j + r else i < j ∧ j ≤ i + r) := by
  obtain ⟨k, hk, hget⟩ := List.getElem_of_mem hx
  have hk? : (windowAt s r i rev)[k]? = some x := by
    rw [List.getElem?_eq_getElem hk]; simp [hget]
  cases rev with
  | false =>
    rw [windowAt_after_getElem?] at hk?
    split at hk?
    · exact ⟨i + 1 + k, hk?, by simp; omega⟩
    · simp at hk?
  | true =>
    rw [windowAt_before_getElem? s r i k (by omega)] at hk?
    split at hk?
    · rename_i h; exact ⟨i - 1 - k, hk?, by simp; omega⟩
    · simp at hk?

/-- conversely every position of the sequence within distance `r` on the proper side is in the
window -/
theorem window_complete (s : List α) (r i j : Nat) (rev : Bool) (hi : i < s.length)
    (hj : j < s.length) (hw : if rev then j < i ∧ i ≤ j + r else i < j ∧ j ≤ i + r) :
    s[j] ∈ windowAt s r i rev := by
  cases rev with
  | false =>
    simp at hw
    have : (windowAt s r i false)[j - i - 1]? = some s[j] := by
      rw [windowAt_after_getElem?]
      have h1 : j - i - 1 < r := by omega
      have h2 : i + 1 + (j - i - 1) = j := by omega
      simp [h1, h2, List.getElem?_eq_getElem hj]
    exact List.mem_of_getElem? this
  | true =>
    simp at hw
    have : (windowAt s r i true)[i - 1 - j]? = some s[j] := by
      rw [windowAt_before_getElem? s r i _ (by omega)]
      have h1 : i - 1 - j < r ∧ i - 1 - j < i := by omega
      have h2 : i - 1 - (i - 1 - j) = j := by omega
      simp [h1, h2, List.getElem?_eq_getElem hj]
    exact List.mem_of_getElem? this

/-! ### block layout -/

/-- every event of block `b` lands in columns `[b·n, (b+1)·n)`: its column is `context + b·n`
with the context token taken from that block's window — provided the context indices are below
`n = len(token_label_dictionary_)`. -/
theorem block_layout {n : Nat} {nw : Bool} {o : Occ} {e : Event} (h : e ∈ o.events n nw)
    (hn : ∀ w ∈ o.wins, ∀ c ∈ w.1, c < n) :
    ∃ b w c, o.wins[b]? = some w ∧ c ∈ w.1 ∧ c < n ∧ e.1 = o.row ∧ e.2.1 = c + b * n ∧
      b * n ≤ e.2.1 ∧ e.2.1 < (b + 1) * n ∧ e.2.1 / n = b ∧ e.2.1 % n = c := by
  obtain ⟨b, w, hw, cv, hcv, hpos, rfl⟩ := mem_occ_events h
  have hc : cv.1 ∈ w.1 := (List.of_mem_zip hcv).1
  have hwm : w ∈ o.wins := List.mem_of_getElem? hw
  have hlt := hn w hwm cv.1 hc
  have hnpos : 0 < n := by omega
  refine ⟨b, w, cv.1, hw, hc, hlt, rfl, rfl, by simp, ?_, ?_, ?_⟩
  · simp; rw [Nat.add_mul]; omega
  · simp
    rw [Nat.add_mul_div_right _ _ hnpos, Nat.div_eq_of_lt hlt]; omega
  · simp
    exact Nat.mod_eq_of_lt hlt

/-- the declared orientations expand to the reversal flags in declared order
('directional' = before, after) and the column blocks are labelled in the same order -/
theorem blockOrigin_expand (os : List Orient) (i : Nat) :
    (blockOrigin os i).map (·.1) = expand os := by
  induction os generalizing i with
  | nil => simp [blockOrigin, expand]
  | cons o r ih => cases o <;> simp [blockOrigin, expand, ih]

/-- column `c + b·n` (`c < n`) carries the label of block `b` and token `c`:
`pre_<i>_<token c>` / `post_<i>_<token c>` with `(isPre, i) = blockOrigin[b]`. -/
theorem column_label (os : List Orient) (n b c : Nat) (hc : c < n)
    (p : Bool × Nat) (hb : (blockOrigin os 0)[b]? = some p) :
    (columnLabels os n)[c + b * n]? = some (p.1, p.2, c) := by
  unfold columnLabels
  generalize blockOrigin os 0 = bl at hb
  induction bl generalizing b with
  | nil => simp at hb
  | cons q rest ih =>
    rw [List.flatMap_cons]
    cases b with
    | zero =>
      simp at hb; subst hb
      rw [List.getElem?_append_left (by simp; omega)]
      simp [hc]
    | succ b =>
      rw [List.getElem?_append_right (by simp; rw [Nat.add_mul]; omega)]
      have : c + (b + 1) * n - ((List.range n).map fun t => (q.1, q.2, t)).length = c + b * n := by
        simp; rw [Nat.add_mul]; omega
      rw [this]
      exact ih b (by simpa using hb)

/-! ### timed sequences: only differences of time stamps matter -/

/-- **shift invariance (exact arithmetic)**: moving every time stamp of the corpus by the same
amount — whatever its magnitude — leaves every event, hence every matrix cell, unchanged. -/
theorem timed_shift_invariant (cfg : Cfg) (a : Rat) (S : List TSeq) :
    seqEvents cfg (shiftTimes a S) = seqEvents cfg S := by
  unfold seqEvents seqOccs shiftTimes
  congr 1
  rw [List.flatMap_map]
  congr 1
  funext s
  rw [List.zipIdx_map, List.map_map]
  apply List.map_congr_left
  intro ti _
  simp only [Function.comp, seqOcc, Prod.map]
  congr 1
  apply List.map_congr_left
  intro b _
  unfold blockWin
  simp only [id_eq]
  rw [windowAt_map, List.map_map, mapIdx_map]
  have h1 : (Prod.fst ∘ fun p : Nat × Rat => (p.1, p.2 + a)) = Prod.fst := by
    funext p; rfl
  have h2 : (fun k (x : Nat × Rat) => b.w k (absR ((x.1, x.2 + a).2 - (ti.1.2 + a)))) =
      (fun k (x : Nat × Rat) => b.w k (absR (x.2 - ti.1.2))) := by
    funext k x
    have : x.2 + a - (ti.1.2 + a) = x.2 - ti.1.2 := by ring
    simp [this]
  simp only [Function.comp_def] at h1 ⊢
  rw [h2]

/-- `timed_storage_partial` — the same through a storage rounding `q` of the time axis (the packing
of (index, timestamp) into one array), **provided `q` is exact on the shifted time stamps**. This
is the hypothesis the float32 packing violated for epoch-scale time stamps (D12); with float64
storage it holds for every time stamp that is a float64 number. The full statement "for every
rounding" is false (see the example below). -/
theorem timed_storage_partial (cfg : Cfg) (q : Rat → Rat) (a : Rat) (S : List TSeq)
    (hq : ∀ s ∈ S, ∀ p ∈ s, q (p.2 + a) = p.2 + a) :
    seqEvents cfg (storeTimes q (shiftTimes a S)) = seqEvents cfg S := by
  have : storeTimes q (shiftTimes a S) = shiftTimes a S := by
    unfold storeTimes shiftTimes
    rw [List.map_map]
    apply List.map_congr_left
    intro s hs
    simp only [Function.comp, List.map_map]
    apply List.map_congr_left
    intro p hp
    simp [hq s hs p hp]
  rw [this, timed_shift_invariant]

/-! ### the matrix is the definition -/

/-- **events_eq_spec**: for every configuration (any number of blocks, any radii table, kernel
weights, mask, offset, kernel normalisation, mix weights, window normalisation) and every corpus
(any number of sequences, empty ones included) each cell of the matrix accumulated from the
code's triple loop equals the position-based definition: the sum over every occurrence `i` of the
row token, every block `w` and every position `j` of the window whose token `x` has
`x + w·n = c`, of `mix_w · kernel_w(i, j) / total(i)` — token and timed variants at once
(`Block.w` is the base weight as a function of the window position and of `|t_j − t_i|`). -/
theorem events_eq_spec (cfg : Cfg) (S : List TSeq) (r c : Nat) :
    cellSum (seqEvents cfg S) r c = spec cfg S r c := by
  unfold seqEvents seqOccs spec
  rw [List.flatMap_assoc, cellSum_flatMap]
  apply sumOver_congr
  intro s _
  rw [List.flatMap_map, cellSum_flatMap, sumOver_zipIdx]
  apply sumTo_congr
  intro i hi
  have hsi : s[i]? = some s[i] := List.getElem?_eq_getElem hi
  rw [hsi]
  simp only
  rw [cellSum_seqOcc cfg s i s[i] hsi r c]
  by_cases hr : s[i].1 = r
  · simp only [hr, if_true]
    apply sumOver_congr
    intro bw _
    apply sumTo_congr
    intro j hj
    have hsj : s[j]? = some s[j] := List.getElem?_eq_getElem hj
    simp [tokAt, hsj]
  · simp [hr]

/-- with non-negative mix weights and base kernel weights nothing is filtered away: `spec` is the
plain sum of `mix · kernel / total` of the property text -/
theorem spec_eq_specPlain (cfg : Cfg) (S : List TSeq) (r c : Nat)
    (hmix : ∀ b ∈ cfg.blocks, 0 ≤ b.mix) (hw : ∀ b ∈ cfg.blocks, ∀ k dt, 0 ≤ b.w k dt) :
    spec cfg S r c = specPlain cfg S r c := by
  unfold spec specPlain
  apply sumOver_congr
  intro s _
  apply sumTo_congr
  intro i _
  cases s[i]? with
  | none => rfl
  | some tgt =>
    simp only
    split
    · apply sumOver_congr
      intro bw hbw
      have hb : bw.1 ∈ cfg.blocks := (List.mem_zipIdx hbw).2.2 ▸ List.getElem_mem _
      apply sumTo_congr
      intro j _
      cases s[j]? with
      | none => rfl
      | some ctx =>
        simp only
        split
        · have h0 : 0 ≤ posKer bw.1 s i j / posTotal cfg s i :=
            div_nonneg (posKer_nonneg bw.1 s i j (hmix _ hb) (hw _ hb)) (le_of_lt (posTotal_pos cfg s i))
          unfold pos
          split
          · rfl
          · rename_i hn
            have : posKer bw.1 s i j / posTotal cfg s i = 0 := le_antisymm (not_lt.mp hn) h0
            rw [this]
        · rfl
    · rfl


/-- **the matrix is the definition** (non-negative weights): each cell is the sum, over every
occurrence of the row token and every occurrence of the column token inside the window of the
column's block, of kernel weight × mix weight / window total. -/
theorem events_eq_definition (cfg : Cfg) (S : List TSeq) (r c : Nat)
    (hmix : ∀ b ∈ cfg.blocks, 0 ≤ b.mix) (hw : ∀ b ∈ cfg.blocks, ∀ k dt, 0 ≤ b.w k dt) :
    cellSum (seqEvents cfg S) r c = specPlain cfg S r c := by
  rw [events_eq_spec, spec_eq_specPlain cfg S r c hmix hw]

/-- the token vectorizer is the instance whose time stamps are never read -/
theorem token_events_eq_spec (cfg : Cfg) (S : List (List Nat)) (r c : Nat) :
    cellSum (seqEvents cfg (untimed S)) r c = spec cfg (untimed S) r c :=
  events_eq_spec cfg (untimed S) r c

/-- a sequence contributes to a cell only through its own positions: the matrix of a corpus is
the cell-wise sum of the matrices of its sequences (no window crosses into another sequence; also
the algebra behind chunked / threaded accumulation). -/
theorem events_append (cfg : Cfg) (S₁ S₂ : List TSeq) (r c : Nat) :
    cellSum (seqEvents cfg (S₁ ++ S₂)) r c =
      cellSum (seqEvents cfg S₁) r c + cellSum (seqEvents cfg S₂) r c := by
  unfold seqEvents seqOccs
  rw [List.flatMap_append, List.flatMap_append, cellSum_append]

/-- an empty sequence contributes nothing -/
theorem events_empty_sequence (cfg : Cfg) (S : List TSeq) :
    seqEvents cfg ([] :: S) = seqEvents cfg S := by
  unfold seqEvents seqOccs
  simp

/-- **before = transpose of after** for fixed radii (radius `ρ` for every token, 0 for the mask
token when nullifying) without normalisation: if block `kB` is the 'before' window and block `kA`
the 'after' window of the same kernel, entry `(r, c)` of block `kB` equals entry `(c, r)` of
block `kA`. -/
theorem before_eq_after_transpose (cfg : Cfg) (S : List TSeq) (kB kA : Nat) (bB bA : Block) (ρ : Nat)
    (hB : cfg.blocks[kB]? = some bB) (hA : cfg.blocks[kA]? = some bA)
    (hnw : cfg.normWin = false)
    (hrevB : bB.rev = true) (hrevA : bA.rev = false) (hmix : bB.mix = bA.mix)
    (hargs : bB.args = bA.args) (hnn : bB.args.normalize = false) (hw : bB.w = bA.w)
    (hradB : ∀ t, t < cfg.n → bB.radius t = if bB.args.mask = some t then 0 else ρ)
    (hradA : ∀ t, t < cfg.n → bA.radius t = if bA.args.mask = some t then 0 else ρ)
    (hS : TokensBelow cfg.n S) (r c : Nat) (hr : r < cfg.n) (hc : c < cfg.n) :
    cellSum (seqEvents cfg S) r (c + kB * cfg.n) = cellSum (seqEvents cfg S) c (r + kA * cfg.n) := by
  rw [events_eq_spec, events_eq_spec,
      spec_block cfg S kB bB hB hnw hnn hS r c hc,
      spec_block cfg S kA bA hA hnw (by rw [← hargs]; exact hnn) hS c r hr]
  apply sumOver_congr
  intro s hs
  exact pairSum_transpose bB bA ρ cfg.n s r c hrevB hrevA hmix hargs hw hradB hradA (hS s hs)

/-! ### multiset and n-gram variants: accumulation, rows, windows -/

/-- **accumulation of one occurrence (all four variants)**: whatever produced the windows and
kernel values of a target occurrence, its contribution to cell `(r, c)` is the sum, over the
blocks `w` and the window entries `(context, value)` of block `w` with `context + w·n = c`, of
`value / total` (when positive) — and nothing when the row differs. -/
theorem occ_cell (n : Nat) (nw : Bool) (o : Occ) (r c : Nat) :
    cellSum (o.events n nw) r c =
      if o.row = r then
        sumOver o.wins.zipIdx fun wb => sumOver (wb.1.1.zip wb.1.2) fun cv =>
          if cv.1 + wb.2 * n = c then pos (cv.2 / o.total nw) else 0
      else 0 := by
  unfold Occ.events
  rw [cellSum_flatMap]
  by_cases hr : o.row = r
  · simp only [hr, if_true]
    apply sumOver_congr
    intro wb _
    rw [cellSum_filterMap]
    apply sumOver_congr
    intro cv _
    by_cases hp : cv.2 / o.total nw > 0
    · simp [hp, pos, hr]
    · simp [hp, pos]
  · simp only [hr, if_false]
    apply sumOver_eq_zero
    intro wb _
    apply cellSum_eq_zero_of_forall
    intro e he
    rw [List.mem_filterMap] at he
    obtain ⟨cv, _, hsome⟩ := he
    by_cases hp : cv.2 / o.total nw > 0
    · simp only [hp, if_true, Option.some.injEq] at hsome
      rw [← hsome]; simp [hr]
    · simp [hp] at hsome

/-- the matrix of any list of occurrences is the cell-wise sum of their contributions (token,
timed, multiset and n-gram generators all end in this accumulation) -/
theorem occs_cell (n : Nat) (nw : Bool) (occs : List Occ) (r c : Nat) :
    cellSum (occs.flatMap (Occ.events n nw)) r c =
      sumOver occs fun o => cellSum (o.events n nw) r c :=
  cellSum_flatMap occs _ r c

/-- **n-gram rows**: the occurrences of the n-gram vectorizer are exactly the positions `k` whose
n-gram `s[k : k+n]` is a kept n-gram `g`; the row is `g`, the 'after' windows start behind the
last token (`k + n - 1`), the 'before' windows in front of the first token (`k`), with the radius
of `g`. -/
theorem ngram_occurrences (cfg : Cfg) (nd : NgramDict) (nsize : Nat) (hn : 0 < nsize)
    (S : List (List Nat)) (o : Occ) :
    o ∈ ngramOccs cfg nd nsize S ↔
      ∃ s ∈ S, ∃ k g, k + nsize ≤ s.length ∧ nd.lookup ((s.drop k).take nsize) = some g ∧
        o = { row := g, wins := cfg.blocks.map fun b =>
                let win := windowAt s (b.radius g) (if b.rev then k else k + nsize - 1) b.rev
                (win, (kernelW (fun j => b.w j 0) b.args win).map (b.mix * ·)) } := by
  unfold ngramOccs
  rw [List.mem_flatMap]
  constructor
  · rintro ⟨s, hs, ho⟩
    rw [List.mem_filterMap] at ho
    obtain ⟨k, hk, hok⟩ := ho
    rw [List.mem_range] at hk
    cases hl : nd.lookup ((s.drop k).take nsize) with
    | none => simp [hl] at hok
    | some g =>
      simp only [hl, Option.map_some, Option.some.injEq] at hok
      refine ⟨s, hs, k, g, by omega, hl, ?_⟩
      rw [← hok]
      unfold ngramOcc
      congr 1
      apply List.map_congr_left
      intro b _
      have : k + nsize - 1 - (nsize - 1) = k := by omega
      simp only [this]
  · rintro ⟨s, hs, k, g, hk, hl, rfl⟩
    refine ⟨s, hs, ?_⟩
    rw [List.mem_filterMap]
    refine ⟨k, by rw [List.mem_range]; omega, ?_⟩
    simp only [hl, Option.map_some, Option.some.injEq]
    unfold ngramOcc
    congr 1
    apply List.map_congr_left
    intro b _
    have : k + nsize - 1 - (nsize - 1) = k := by omega
    simp only [this]

/-- **multiset windows**: the window of a target in multiset `d` is its own multiset followed by
the `window_at_index` window *of multisets* with the target's radius — the next (resp. previous)
`ρ` multisets of the same document, nearest first, clipped to the document. -/
theorem multi_window (b : Block) (doc : List (List Nat)) (d tgt : Nat) (hd : d < doc.length) :
    multiWin b doc d tgt = doc[d] :: windowAt doc (b.radius tgt) d b.rev := by
  unfold multiWin windowAt
  cases b.rev
  · simp only [Bool.false_eq_true, if_false]
    rw [List.drop_eq_getElem_cons hd, List.take_succ_cons]
  · simp only [if_true]
    have h1 : doc.take (d + 1) = doc.take d ++ [doc[d]] := by
      rw [List.take_add_one, List.getElem?_eq_getElem hd]; simp
    have h2 : (doc.take d).length = d := by simp; omega
    rw [h1, List.drop_append_of_le_length (by omega), List.reverse_append]
    simp

/-- the fixed radius table: `window_size` for every token, 0 at the mask index — and the call is
legal exactly when the mask index lies inside the table (`len(token_frequency) + 1` entries). -/
theorem fixedRadii_spec (w nf : Nat) (mask : Option Nat) :
    (∀ m, mask = some m → nf < m → ∃ e, fixedRadii w nf mask = .error e) ∧
    ((∀ m, mask = some m → m ≤ nf) →
      ∃ tb, fixedRadii w nf mask = .ok tb ∧ tb.length = nf + 1 ∧
        ∀ t, t ≤ nf → radiusOf tb t = if mask = some t then 0 else w) := by
  constructor
  · intro m hm hlt
    subst hm
    have : ¬ m < (List.replicate (nf + 1) w).length := by simp; omega
    exact ⟨.oob "radii" m (List.replicate (nf + 1) w).length, by simp only [fixedRadii, this, if_false]⟩
  · intro h
    cases mask with
    | none =>
      refine ⟨List.replicate (nf + 1) w, by simp [fixedRadii], by simp, ?_⟩
      intro t ht
      have : t < nf + 1 := by omega
      simp [radiusOf, List.getElem?_replicate, this]
    | some m =>
      have hm := h m rfl
      have hlt : m < (List.replicate (nf + 1) w).length := by simp; omega
      refine ⟨(List.replicate (nf + 1) w).set m 0, by simp only [fixedRadii, hlt, if_true], by simp, ?_⟩
      intro t ht
      have htl : t < nf + 1 := by omega
      by_cases htm : m = t
      · subst htm
        have : m < nf + 1 := by omega
        simp [radiusOf, List.getElem?_set, this]
      · have : ¬ (some m = some t) := by simpa using htm
        simp [radiusOf, List.getElem?_set, htm, this, List.getElem?_replicate, htl]

/-! ### n-gram rows: the matrix is the definition -/

/-- **ngram_events_eq_spec**: for every configuration (any blocks, radii tables, kernel weights,
mask, offset, kernel normalisation, mix weights, window normalisation), every n-gram dictionary,
every n-gram size `n ≥ 1` and every corpus (sequences shorter than `n` and empty ones included)
each cell `(g, c)` of the matrix accumulated from the n-gram vectorizer's loops equals the
position-based definition `specNgram`: the sum, over every position `k` at which a complete
n-gram equal to the kept n-gram `g` starts, every block `w` and every position `j` whose token `x`
has `x + w·n = c`, of `mix_w · kernel_w / total`, where the window of radius `ρ_w(g)` lies after the
n-gram's last token `k + n - 1` ('after') or before its first token `k` ('before'). -/
theorem ngram_events_eq_spec (cfg : Cfg) (nd : NgramDict) (nsize : Nat) (hn : 0 < nsize)
    (S : List (List Nat)) (g c : Nat) :
    cellSum (ngramEvents cfg nd nsize S) g c = specNgram cfg nd nsize S g c := by
  unfold ngramEvents ngramOccs specNgram
  rw [List.flatMap_assoc, cellSum_flatMap]
  apply sumOver_congr
  intro s _
  rw [cellSum_filterMap_flatMap, sumOver_range]
  have hle : s.length + 1 - nsize ≤ s.length := by omega
  symm
  rw [sumTo_tail_zero hle (by
    intro k h1 h2
    have : ¬ (k + nsize ≤ s.length) := by omega
    simp [this])]
  apply sumTo_congr
  intro k hk
  have hk' : k + nsize ≤ s.length := by omega
  cases hl : nd.lookup ((s.drop k).take nsize) with
  | none => simp
  | some g' =>
    simp only [Option.map_some, hk', true_and, Option.some.injEq]
    rw [cellSum_ngramOcc cfg s nsize g' k hn hk' g c]
    by_cases hg : g' = g
    · subst hg; simp; rfl
    · simp [hg]

/-- with non-negative mix weights and base kernel weights nothing is filtered away -/
theorem specNgram_eq_specNgramPlain (cfg : Cfg) (nd : NgramDict) (nsize : Nat) (hn : 0 < nsize)
    (S : List (List Nat)) (g c : Nat)
    (hmix : ∀ b ∈ cfg.blocks, 0 ≤ b.mix) (hw : ∀ b ∈ cfg.blocks, ∀ k dt, 0 ≤ b.w k dt) :
    specNgram cfg nd nsize S g c = specNgramPlain cfg nd nsize S g c := by
  unfold specNgram specNgramPlain
  apply sumOver_congr
  intro s _
  apply sumTo_congr
  intro k _
  split
  · rename_i hk
    apply sumOver_congr
    intro bw hbw
    have hb : bw.1 ∈ cfg.blocks := (List.mem_zipIdx hbw).2.2 ▸ List.getElem_mem _
    apply sumTo_congr
    intro j _
    cases s[j]? with
    | none => rfl
    | some ctx =>
      simp only
      split
      · have h0 : 0 ≤ ngKer bw.1 s g (ngAnchor bw.1.rev k nsize) j / ngTotal cfg s nsize g k :=
          div_nonneg (ngKer_nonneg bw.1 s g _ j (ngAnchor_lt hn hk.1) (hmix _ hb) (hw _ hb))
            (le_of_lt (ngTotal_pos cfg s nsize g k))
        unfold pos
        split
        · rfl
        · rename_i hneg
          exact (le_antisymm (not_lt.mp hneg) h0).symm
      · rfl
  · rfl

/-- **the n-gram matrix is the definition** (non-negative weights): the plain sum of
`mix · kernel / total` of the property text, no filter -/
theorem ngram_events_eq_definition (cfg : Cfg) (nd : NgramDict) (nsize : Nat) (hn : 0 < nsize)
    (S : List (List Nat)) (g c : Nat)
    (hmix : ∀ b ∈ cfg.blocks, 0 ≤ b.mix) (hw : ∀ b ∈ cfg.blocks, ∀ k dt, 0 ≤ b.w k dt) :
    cellSum (ngramEvents cfg nd nsize S) g c = specNgramPlain cfg nd nsize S g c := by
  rw [ngram_events_eq_spec cfg nd nsize hn, specNgram_eq_specNgramPlain cfg nd nsize hn S g c hmix hw]

/-- 1-grams whose row index is the token index are the token vectorizer: with `nd = [([t], t)]`
for every token the n-gram definition is C03's token definition `spec` -/
theorem specNgram_one_eq_spec (cfg : Cfg) (nd : NgramDict) (S : List (List Nat)) (g c : Nat)
    (hnd : ∀ t, nd.lookup [t] = some t) :
    specNgram cfg nd 1 S g c = spec cfg (untimed S) g c := by
  unfold specNgram spec untimed
  rw [sumOver_map]
  apply sumOver_congr
  intro s _
  rw [List.length_map]
  apply sumTo_congr
  intro k hk
  have hsk : s[k]? = some s[k] := List.getElem?_eq_getElem hk
  have hdrop : (s.drop k).take 1 = [s[k]] := by
    rw [List.drop_eq_getElem_cons hk]; rfl
  have hk1 : k + 1 ≤ s.length := by omega
  simp only [List.getElem?_map, hsk, Option.map_some, hdrop, hnd, hk1, true_and, Option.some.injEq]
  by_cases hg : s[k] = g
  · simp only [hg, if_true]
    apply sumOver_congr
    intro bw _
    apply sumTo_congr
    intro j hj
    have hsj : s[j]? = some s[j] := List.getElem?_eq_getElem hj
    simp only [hsj, Option.map_some]
    have hanchor : ngAnchor bw.1.rev k 1 = k := by unfold ngAnchor; split <;> omega
    have hker : ∀ (b : Block) (j : Nat), ngKer b s g k j =
        posKer b (s.map fun t => (t, (0 : Rat))) k j := by
      intro b j
      rw [ngKer_eq_posKer b s g k j hk]
      apply posKer_forRow
      intro tgt ht
      simp only [untimedSeq, List.getElem?_map, hsk, Option.map_some, Option.some.injEq] at ht
      rw [← ht]; exact hg
    have htot : ngTotal cfg s 1 g k = posTotal cfg (s.map fun t => (t, (0 : Rat))) k := by
      unfold ngTotal posTotal
      simp only [List.length_map]
      have : (sumOver cfg.blocks fun b => sumTo s.length fun j => ngKer b s g (ngAnchor b.rev k 1) j) =
          sumOver cfg.blocks fun b => sumTo s.length fun j =>
            posKer b (s.map fun t => (t, (0 : Rat))) k j := by
        apply sumOver_congr
        intro b _
        apply sumTo_congr
        intro j _
        have : ngAnchor b.rev k 1 = k := by unfold ngAnchor; split <;> omega
        rw [this, hker]
      rw [this]
    rw [hanchor, hker, htot]
  · simp [hg]

/-! ### multisets: the matrix is the definition -/

/-- **the multiset generator is total**: for every configuration and every corpus of documents
(empty documents and empty multisets included) `multiEvents` returns a matrix — the only checked
access of the model (`kernel_result[target_ind] = 0`, an IndexError / silent out-of-bounds write in
the code if it failed) always lands inside the target's own multiset, which is first in its window. -/
theorem multi_events_total (cfg : Cfg) (mask : Option Nat) (docs : List (List (List Nat))) :
    ∃ es, multiEvents cfg mask docs = .ok es := by
  unfold multiEvents
  rw [multiOccs_eq]
  exact ⟨_, rfl⟩

/-- **multi_events_eq_spec**: for every configuration (any blocks, radii tables, kernel weights,
mask, offset, kernel normalisation, mix weights, window normalisation) and every corpus each cell
`(r, c)` of the matrix accumulated from the multiset vectorizer's loops equals the position-based
definition `specMulti`: the sum, over every position `(d, w)` (entry `w` of multiset `d` of a
document) holding the row token `r`, every block `k` and every position `(e, v) ≠ (d, w)` of the
same document whose multiset `e` lies within `ρ_k(r)` multisets after (before) `d`, `d` itself
included, and whose token `x` has `x + k·n = c`, of `mix_k · kernel_k / total`; the kernel weight of
a multiset at distance `m` is `0` for `m < offset` and `w (m - offset)` otherwise; the row of the
nullified mask token is empty. -/
theorem multi_events_eq_spec (cfg : Cfg) (mask : Option Nat) (docs : List (List (List Nat)))
    (es : List Event) (h : multiEvents cfg mask docs = .ok es) (r c : Nat) :
    cellSum es r c = specMulti cfg mask docs r c := by
  unfold multiEvents at h
  rw [multiOccs_eq] at h
  simp only [bind, Except.bind, pure, Except.pure, Except.ok.injEq] at h
  subst h
  rw [cellSum_clearRow]
  unfold specMulti
  by_cases hm : mask = some r
  · simp [hm]
  · simp only [hm, if_false]
    rw [List.flatMap_map, cellSum_flatMap]
    unfold multiTargets sumDoc
    rw [sumOver_flatMap]
    apply sumOver_congr
    intro doc _
    rw [sumOver_flatMap]
    apply sumOver_congr
    intro md hmd
    rw [sumOver_map]
    apply sumOver_congr
    intro tw _
    have h1 : doc[md.2]? = some md.1 := List.mem_zipIdx_iff_getElem?.mp hmd
    have hown : ownMset (doc, md.2, tw.2, tw.1) = md.1 := by simp [ownMset, h1]
    simp only [hown]
    exact cellSum_multiOcc cfg doc md.2 tw.2 tw.1 md.1 h1 r c

/-- with non-negative mix weights and base kernel weights nothing is filtered away -/
theorem specMulti_eq_specMultiPlain (cfg : Cfg) (mask : Option Nat) (docs : List (List (List Nat)))
    (r c : Nat) (hmix : ∀ b ∈ cfg.blocks, 0 ≤ b.mix) (hw : ∀ b ∈ cfg.blocks, ∀ k dt, 0 ≤ b.w k dt) :
    specMulti cfg mask docs r c = specMultiPlain cfg mask docs r c := by
  unfold specMulti specMultiPlain
  split
  · rfl
  · apply sumOver_congr
    intro doc _
    apply sumDoc_congr
    intro tgt d w
    split
    · apply sumOver_congr
      intro bw hbw
      have hb : bw.1 ∈ cfg.blocks := (List.mem_zipIdx hbw).2.2 ▸ List.getElem_mem _
      apply sumDoc_congr
      intro ctx e v
      split
      · have h0 : 0 ≤ mKer bw.1 doc tgt d w ctx e v / mTotal cfg doc tgt d w :=
          div_nonneg (mKer_nonneg bw.1 doc tgt d w ctx e v (hmix _ hb) (hw _ hb))
            (le_of_lt (mTotal_pos cfg doc tgt d w))
        unfold pos
        split
        · rfl
        · rename_i hneg
          exact (le_antisymm (not_lt.mp hneg) h0).symm
      · rfl
    · rfl

/-- **the multiset matrix is the definition** (non-negative weights): the plain sum of
`mix · kernel / total` of the property text, no filter -/
theorem multi_events_eq_definition (cfg : Cfg) (mask : Option Nat) (docs : List (List (List Nat)))
    (es : List Event) (h : multiEvents cfg mask docs = .ok es) (r c : Nat)
    (hmix : ∀ b ∈ cfg.blocks, 0 ≤ b.mix) (hw : ∀ b ∈ cfg.blocks, ∀ k dt, 0 ≤ b.w k dt) :
    cellSum es r c = specMultiPlain cfg mask docs r c := by
  rw [multi_events_eq_spec cfg mask docs es h, specMulti_eq_specMultiPlain cfg mask docs r c hmix hw]

/-! ### Non-vacuity

Two sequences (one empty) over {0, 1, 2}, a directional window of radius 2 (before = block 0,
after = block 1), harmonic kernel; the hypotheses of `before_eq_after_transpose` are met and the
matrix is not zero; `[['a','a','a']]` 'before' radius 1 gives the single cell 2 (D9's input). -/

def exBlock (rev : Bool) : Block :=
  { rev := rev, mix := 1, args := {}, radius := fun _ => 2, w := fun k _ => Kernel.base .harmonic k }

def exCfg : Cfg := { n := 3, blocks := [exBlock true, exBlock false], normWin := false }

def exS : List TSeq := untimed [[0, 1, 2, 0, 1], [], [1, 0]]

example :
    exCfg.blocks[0]? = some (exBlock true) ∧ exCfg.blocks[1]? = some (exBlock false) ∧
    exCfg.normWin = false ∧ (exBlock true).args.normalize = false ∧
    cellSum (seqEvents exCfg exS) 0 (1 + 0 * 3) = 3 / 2 ∧
    cellSum (seqEvents exCfg exS) 1 (0 + 1 * 3) = 3 / 2 ∧
    spec exCfg exS 0 1 = 3 / 2 ∧
    cellSum (seqEvents { n := 1, blocks := [{ exBlock true with radius := fun _ => 1 }], normWin := true }
      (untimed [[0, 0, 0]])) 0 0 = 2 ∧
    (fixedRadii 2 2 (some 3)).toOption = none ∧ (fixedRadii 2 3 (some 3)).toOption = some [2, 2, 2, 0] := by
  refine ⟨rfl, rfl, rfl, rfl, by decide +kernel, by decide +kernel, by decide +kernel,
    by decide +kernel, by decide, by decide⟩

/-- the hypothesis of `timed_storage_partial` is needed: a storage rounding that is *not* exact on
the time stamps (here: to multiples of 128, the float32 spacing near 1.6e9) changes the matrix —
two events one second apart collapse to the same stored time stamp and get weight 1 instead of 1/2. -/
example :
    let q : Rat → Rat := fun t => (t / 128).floor * 128
    let b : Block := { rev := false, mix := 1, args := {}, radius := fun _ => 1,
                       w := fun _ dt => if dt = 0 then 1 else 1 / 2 }
    let cfg : Cfg := { n := 2, blocks := [b], normWin := false }
    let S : List TSeq := [[(0, 0), (1, 1)]]
    cellSum (seqEvents cfg S) 0 1 = 1 / 2 ∧
    cellSum (seqEvents cfg (storeTimes q (shiftTimes 1600000000 S))) 0 1 = 1 ∧
    cellSum (seqEvents cfg (shiftTimes 1600000000 S)) 0 1 = 1 / 2 := by
  decide +kernel

/-- all hypotheses of `before_eq_after_transpose` hold for the example (cells 3/2 above) -/
example : cellSum (seqEvents exCfg exS) 0 (1 + 0 * exCfg.n) =
    cellSum (seqEvents exCfg exS) 1 (0 + 1 * exCfg.n) := by
  have hbelow : TokensBelow exCfg.n exS := by
    intro s hs p hp
    simp only [exS, untimed, List.map_cons, List.map_nil, List.mem_cons, List.not_mem_nil, or_false] at hs
    rcases hs with rfl | rfl | rfl
    · simp at hp; rcases hp with h | h | h | h | h <;> simp [h, exCfg]
    · simp at hp
    · simp at hp; rcases hp with h | h <;> simp [h, exCfg]
  exact before_eq_after_transpose exCfg exS 0 1 (exBlock true) (exBlock false) 2 rfl rfl rfl rfl rfl
    rfl rfl rfl rfl (fun t _ => by simp [exBlock]) (fun t _ => by simp [exBlock]) hbelow 0 1
    (by decide) (by decide)


/-! #### n-gram and multiset definitions: non-vacuity

2-grams `ab, bc, ca` (rows 0, 1, 2) over `[a b c a b], [a], []` (a sequence shorter than `n` and an
empty one), directional harmonic window of radius 2 (before = block 0, after = block 1): the 'after'
window of `ab` at position 0 starts behind `b` (cells `(0, c+3) = 1`, `(0, a+3) = 1/2`), the 'before'
window of `ca` at position 2 ends in front of `c` (cells `(2, b) = 1`, `(2, a) = 1/2`); 3-grams with
window normalisation; the generator and the definition agree and are not zero. -/

def exNd : NgramDict := [([0, 1], 0), ([1, 2], 1), ([2, 0], 2)]

example :
    cellSum (ngramEvents exCfg exNd 2 [[0, 1, 2, 0, 1], [0], []]) 0 5 = 1 ∧
    specNgram exCfg exNd 2 [[0, 1, 2, 0, 1], [0], []] 0 5 = 1 ∧
    specNgram exCfg exNd 2 [[0, 1, 2, 0, 1], [0], []] 0 3 = 1 / 2 ∧
    cellSum (ngramEvents exCfg exNd 2 [[0, 1, 2, 0, 1], [0], []]) 2 1 = 1 ∧
    specNgram exCfg exNd 2 [[0, 1, 2, 0, 1], [0], []] 2 1 = 1 ∧
    specNgram exCfg exNd 2 [[0, 1, 2, 0, 1], [0], []] 2 0 = 1 / 2 ∧
    specNgramPlain exCfg exNd 2 [[0, 1, 2, 0, 1], [0], []] 2 0 = 1 / 2 ∧
    ngramEvents exCfg exNd 2 [[0], []] = [] ∧
    specNgram exCfg exNd 2 [[0], []] 0 5 = 0 ∧
    cellSum (ngramEvents { exCfg with normWin := true } [([0, 1, 2], 0), ([1, 2, 0], 1)] 3
      [[0, 1, 2, 0, 1, 2], [0, 1]]) 1 0 = 2 / 5 ∧
    specNgram { exCfg with normWin := true } [([0, 1, 2], 0), ([1, 2, 0], 1)] 3
      [[0, 1, 2, 0, 1, 2], [0, 1]] 1 0 = 2 / 5 := by
  refine ⟨by decide +kernel, by decide +kernel, by decide +kernel, by decide +kernel,
    by decide +kernel, by decide +kernel, by decide +kernel, by decide +kernel, by decide +kernel,
    by decide +kernel, by decide +kernel⟩

/-- the hypotheses of `ngram_events_eq_definition` / `specNgram_one_eq_spec` are satisfiable -/
example : (∀ b ∈ exCfg.blocks, 0 ≤ b.mix) ∧ (0 < 2) ∧
    (∀ t, ([([0], 0), ([1], 1), ([2], 2)] : NgramDict).lookup [t] = some t ∨ 3 ≤ t) := by
  refine ⟨?_, by decide, ?_⟩
  · intro b hb
    simp only [exCfg, List.mem_cons, List.not_mem_nil, or_false] at hb
    rcases hb with rfl | rfl <;> simp [exBlock]
  · intro t
    match t with
    | 0 | 1 | 2 => left; rfl
    | t + 3 => right; omega

/-- Multisets: documents `[{a,b},{c},{a,a}]`, `[{b},{},{c,a}]`, `[]`; `c` (index 2) is the nullified
mask (radius 0, kernel weight 0, row cleared); block 0 = 'before' radius 2 flat, block 1 = 'after'
radius 2 flat with `offset = 1` (the target's own multiset is skipped). The generator is total,
agrees with the definition, the cells are not zero and the mask row is empty. -/
def exMBlock (rev : Bool) (offset : Nat) : Block :=
  { rev := rev, mix := 1, args := { mask := some 2, offset := offset },
    radius := fun t => if t = 2 then 0 else 2, w := fun _ _ => 1 }

def exMCfg : Cfg := { n := 3, blocks := [exMBlock true 0, exMBlock false 1], normWin := false }

def exDocs : List (List (List Nat)) := [[[0, 1], [2], [0, 0]], [[1], [], [2, 0]], []]

example :
    (multiEvents exMCfg (some 2) exDocs).toOption.map (fun es => cellSum es 0 0) = some 4 ∧
    specMulti exMCfg (some 2) exDocs 0 0 = 4 ∧
    (multiEvents exMCfg (some 2) exDocs).toOption.map (fun es => cellSum es 0 3) = some 2 ∧
    specMulti exMCfg (some 2) exDocs 0 3 = 2 ∧
    (multiEvents exMCfg (some 2) exDocs).toOption.map (fun es => cellSum es 1 3) = some 3 ∧
    specMulti exMCfg (some 2) exDocs 1 3 = 3 ∧
    specMultiPlain exMCfg (some 2) exDocs 1 3 = 3 ∧
    (multiEvents exMCfg (some 2) exDocs).toOption.map (fun es => cellSum es 2 0) = some 0 ∧
    specMulti exMCfg (some 2) exDocs 2 0 = 0 ∧
    specMulti exMCfg none exDocs 2 0 ≠ 0 := by
  refine ⟨by decide +kernel, by decide +kernel, by decide +kernel, by decide +kernel,
    by decide +kernel, by decide +kernel, by decide +kernel, by decide +kernel, by decide +kernel,
    by decide +kernel⟩

end VecModel.Cooc
