import VecModel.Lemmas.Sparse
import VecModel.Lemmas.BPE
import VecModel.Props.C09
import Mathlib.Data.Matrix.Mul
import VecModel.Props.C16
import VecModel.Model.EdgeList
/-
  C02 — fit_transform(X) equals fit(X).transform(X).
  The pipelines that the code keeps separate are modelled separately and proved equal:
  * dictionary built on the fly while emitting rows (LZ `fit_transform`) vs lookup in the final
    dictionary (`transform`);
  * BPE: incremental training encodings vs replay of the merge list (Props/C09 `train_eq_replay`,
    restated here as this property's obligation);
  * SVD-compressed outputs: `u·s` at fit vs `X @ components.T` at transform (algebra only; that the
    library's SVD is accurate and the rank ≤ n_components is sklearn's — partial);
  * learn-then-lookup vectorizers: trivial by construction once the shape is pinned (C01).
  `fit` returning the estimator itself is an observable of the implementation only (oracle in
  harness/c02.py); vectorizer-specific pipelines (co-occurrence, n-gram masks) live in their own
  Props files and are re-used by the C02 check through the correspondence.
-/
namespace VecModel.C02

open VecModel.Sparse

/-- **LZ-style fit_transform = transform.** Rows emitted while the shared column dictionary is
being built equal the rows obtained by looking every feature up in the *final* dictionary — for
any corpus, any starting dictionary, and any later extension of the dictionary. -/
theorem assign_eq_lookup {α : Type} [BEq α] [LawfulBEq α]
    (D0 : List (α × Nat)) (rows : List (List (α × Rat))) :
    (assignRows D0 rows).2 = rows.map (rowEntries (lookupD (assignRows D0 rows).1)) :=
  (assignRows_spec rows D0).2 _ (Extends.refl _)

/-- the dictionary is only ever extended: a feature keeps the column it was first given -/
theorem assign_stable {α : Type} [BEq α] [LawfulBEq α]
    (D0 : List (α × Nat)) (rows : List (List (α × Rat))) (f : α) (c : Nat)
    (h : lookupD D0 f = some c) : lookupD (assignRows D0 rows).1 f = some c :=
  (assignRows_spec rows D0).1 f c h

/-- **BPE** (restated from C09): training encodings = replay of the learned merges, for every
selection rule, budget and corpus. -/
theorem bpe_fit_transform_eq_transform (select : BPE.TrainSt → Option BPE.Pair) (budget : Nat)
    (mcc0 : Int) (X : List (List Int)) :
    (BPE.train select budget mcc0 X).1.enc =
      X.map (BPE.encode (BPE.train select budget mcc0 X).1.cl (BPE.train select budget mcc0 X).2) :=
  BPE.train_eq_replay select budget mcc0 X

/-- **SVD-compressed outputs.** If `X = U · diag(s) · Vt` with orthonormal rows of `Vt`
(`Vt · Vtᵀ = 1`), projecting `X` on the components gives back `U · diag(s)`: what `fit_transform`
returns (`u * s`) is what `transform` computes (`X @ components_.T`). Over any commutative ring. -/
theorem svd_project {m n k : Type} [Fintype m] [Fintype n] [Fintype k] [DecidableEq k]
    {R : Type} [CommRing R]
    (X : Matrix m n R) (U : Matrix m k R) (S : Matrix k k R) (Vt : Matrix k n R)
    (hX : X = U * S * Vt) (hV : Vt * Vt.transpose = 1) :
    X * Vt.transpose = U * S := by
  rw [hX, Matrix.mul_assoc, hV, Matrix.mul_one]

/-- Learn-then-lookup vectorizers whose `fit_transform` is `fit` followed by the same pinned
row-wise assembly: equality is definitional once both paths use the fitted dictionary and width —
stated so that the obligation is visible. -/
theorem learn_then_lookup {α M : Type} (learn : List (List (α × Rat)) → M)
    (lookupOf : M → α → Option Nat) (widthOf : M → Nat) (X : List (List (α × Rat))) :
    let m := learn X
    Sparse.transform (lookupOf m) (widthOf m) X = Sparse.transform (lookupOf (learn X)) (widthOf (learn X)) X :=
  rfl

/-! Non-vacuity: two strings sharing a phrase; columns assigned on the fly. -/
example :
    assignRows ([] : List (String × Nat)) [[("", 1), ("a", 2)], [("", 1), ("b", 1), ("a", 1)]] =
      ([("", 0), ("a", 1), ("b", 2)], [[(0, 1), (1, 2)], [(0, 1), (2, 1), (1, 1)]]) := by
  decide

/-- **LZCompressionVectorizer** (its own model, Props/C16): transforming the training strings with the
fitted column dictionary reproduces the `fit_transform` rows exactly — any hash, base dictionary, cap. -/
theorem lz_fit_transform_eq_transform {κ : Type} [DecidableEq κ] (h : List Nat → κ) (cap : Nat)
    (base : LZ.Dict κ) (X : List (List Nat)) (rows : List (List (Nat × Nat))) (cols : LZ.Dict κ)
    (hfit : LZ.fitTransform h cap base X = .ok (rows, cols)) :
    LZ.transform h cap base cols X = .ok rows :=
  (LZ.phrase_column_stable h cap base X rows cols hfit).1

/-- a pivot that succeeded with any combination of validity filters kept exactly the edges whose two
labels are in the dictionaries — so the fully filtered pivot of `transform` returns the same entries -/
theorem edgelist_pivot_checked_of_ok (rd cd : List (Int × Nat)) (a b : Bool) :
    ∀ (E : List EdgeList.Edge) (es : List Counts.Entry),
      EdgeList.pivot rd cd a b E = .ok es → EdgeList.pivot rd cd true true E = .ok es
  | [], es, h => by simpa [EdgeList.pivot] using h
  | e :: rest, es, h => by
    simp only [EdgeList.pivot] at h ⊢
    cases hrest : EdgeList.pivot rd cd a b rest with
    | error err => simp [hrest] at h
    | ok more =>
      rw [hrest] at h
      rw [edgelist_pivot_checked_of_ok rd cd a b rest more hrest]
      cases hr : Counts.lookup rd e.1 <;> cases hc : Counts.lookup cd e.2.1 <;>
        cases a <;> cases b <;> simp_all

/-- **EdgeListVectorizer**: `fit_transform` returns the matrix pivoted during `fit` (`_train_matrix`),
`transform` pivots again with both validity filters on and the fitted shape; whenever `fit` succeeds
the two are the same matrix — learned, supplied or joint dictionaries, any edge list. -/
theorem edgelist_fit_transform_eq_transform (joint : Bool) (rowD colD : Option (List (Int × Nat)))
    (E : List EdgeList.Edge) (m : EdgeList.Fitted) (hfit : EdgeList.fit joint rowD colD E = .ok m) :
    EdgeList.transform m E = .ok m.train := by
  unfold EdgeList.fit at hfit
  split at hfit
  · cases hfit
  · rename_i rd cd chkR chkC _
    split at hfit
    · cases hfit
    · rename_i es hp
      split at hfit
      · cases hfit
      · rename_i M hM
        cases hfit
        simp only [EdgeList.transform, edgelist_pivot_checked_of_ok rd cd chkR chkC E es hp, hM]

/-- non-vacuity: a supplied row dictionary that filters one edge (label 3), a learned column side,
a duplicated edge; `fit` succeeds, so the theorem applies -/
example : ((EdgeList.fit false (some [(1, 0), (2, 1)]) none
    [(1, 10, 1), (3, 10, 2), (2, 11, 1/2), (1, 10, 1)]).toOption.isSome) = true := by
  decide +kernel

end VecModel.C02
