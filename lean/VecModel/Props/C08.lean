import VecModel.Lemmas.OT
import Mathlib.Data.Matrix.Mul
/-
  C08 — Wasserstein embeddings depend only on the measure, not on its encoding.

  Property theorems about the row pipeline of vectorizers/linear_optimal_transport.py as modelled
  in Model/OT.lean: normalisation, barycentric projection `images = (P·diag(1/q))ᵀ X`, the
  output row `lot = post (images, R)` for an ARBITRARY post-processing `post` (so the spherical
  branch is covered without modelling its trigonometry), the `n // b + 1` block / chunk loops and
  the Sinkhorn sub-chunk column selection.  The solver is not modelled (C07 validates its plans);
  the statements below say what every feasible / optimal plan gives.
  Helper lemmas: Lemmas/OT.lean.  Partial: see the note at `split_merge_unique`; the cosine
  post-processing, the accuracy of the SVD and Sinkhorn convergence are numerical code that is
  tested by harness/c08.py, not proved.
-/
namespace VecModel.OT

/-- **Scale invariance**: rescaling the weights of a row by `a > 0` does not change the
normalised distribution (nor whether the row is skipped). -/
theorem normalise_scale (a : Rat) (ha : 0 < a) (w : Vec) :
    normalise (w.map (a * ·)) = normalise w := by
  unfold normalise
  rw [sum_map_mul_left]
  by_cases hs : 0 < w.sum
  · rw [if_pos (mul_pos ha hs), if_pos hs, List.map_map]
    congr 1
    apply List.map_congr_left
    intro x _
    simp only [Function.comp]
    rw [mul_div_mul_left _ _ (ne_of_gt ha)]
  · rw [if_neg hs, if_neg]
    intro h
    have : w.sum ≤ 0 := not_lt.mp hs
    nlinarith

/-- a row that is not skipped enters the transport problem as a probability vector: total mass 1
(so item and reference have equal mass, the condition under which couplings exist —
`feasible_mass_balance`, Props/C07) -/
theorem normalise_sum_one (w v : Vec) (h : normalise w = some v) : v.sum = 1 := by
  unfold normalise at h
  split at h
  · rename_i hs
    obtain rfl := Option.some.inj h
    have : w.map (· / w.sum) = w.map (w.sum⁻¹ * ·) := by
      apply List.map_congr_left
      intro x _
      exact div_eq_inv_mul x w.sum
    rw [this, sum_map_mul_left, inv_mul_cancel₀ (ne_of_gt hs)]
  · cases h

/-- normalisation is idempotent: an already normalised row is left as it is (so the embedding of a
measure given by its normalised weights equals the one given by raw counts) -/
theorem normalise_idempotent (w v : Vec) (h : normalise w = some v) : normalise v = some v := by
  have h1 := normalise_sum_one w v h
  unfold normalise
  rw [h1, if_pos (by norm_num)]
  congr 1
  conv => rhs; rw [← List.map_id v]
  apply List.map_congr_left
  intro x _
  simp

example : normalise [2, 0, 6] = some [1/4, 0, 3/4] ∧ normalise [1/4, 0, 3/4] = some [1/4, 0, 3/4] ∧
    normalise [0, 0] = none := by
  refine ⟨by decide +kernel, by decide +kernel, by decide +kernel⟩

/-- the output row is a function of the images alone, whatever the post-processing -/
theorem lot_of_images (post : Mat → Mat → Mat) (d : Nat) (P X P' X' R : Mat) (q : Vec)
    (h : images d P X q = images d P' X' q) : lot post d P X R q = lot post d P' X' R q := by
  unfold lot; rw [h]

/-- **Zero-weight support points**: a support point of weight 0 — whose plan row is therefore
non-negative with sum 0, as feasibility forces — can be listed anywhere, with any vector, without
changing the images (hence the output row, by `lot_of_images`). -/
theorem zero_weight_row (d : Nat) (P1 P2 X1 X2 : Mat) (z x q : Vec)
    (h1 : P1.length = X1.length) (hz0 : ∀ t ∈ z, 0 ≤ t) (hzs : z.sum = 0)
    (hzl : z.length = q.length) (hx : x.length = d) :
    images d (P1 ++ z :: P2) (X1 ++ x :: X2) q = images d (P1 ++ P2) (X1 ++ X2) q := by
  have hz : ∀ t ∈ z, t = 0 := nonneg_sum_zero z hz0 hzs
  apply images_congr
  · simp only [List.length_append, List.length_cons, List.all_append, List.all_cons, hzl, hx, beq_self_eq_true,
      Bool.true_and]
    congr 2
    rw [Bool.eq_iff_iff]; simp only [beq_iff_eq]; omega
  · intro hc
    simp only [List.length_append, List.length_cons, List.all_append, List.all_cons, Bool.and_eq_true,
      beq_iff_eq, List.all_eq_true] at hc
    obtain ⟨⟨_, _, _, hP2⟩, _, _, hX2⟩ := hc
    simp only [scaleCols, List.map_append, List.map_cons]
    rw [tmul_append _ _ _ _ (by simpa using h1), tmul_append _ _ _ _ (by simpa using h1), tmul_cons]
    congr 1
    unfold step
    rw [outer_zero (scale_zero hz)]
    apply madd_zero_left
    have : (List.zipWith (fun pij qj => pij * (1 / qj)) z q).length = q.length := by simp [hzl]
    rw [this, hx]
    apply tmul_shape
    · intro s hs
      obtain ⟨r, hr, rfl⟩ := List.mem_map.mp hs
      simp [hP2 r hr]
    · exact hX2

/-- **Permutation equivariance**: listing the support points in another order, together with
their vectors (and the plan rows that belong to them), does not change the images. -/
theorem perm_equivariant (d : Nat) (P X P' X' : Mat) (q : Vec)
    (h1 : P.length = X.length) (h2 : P'.length = X'.length)
    (hp : (List.zip P X).Perm (List.zip P' X')) :
    images d P X q = images d P' X' q := by
  have hP : P.Perm P' := by
    have := hp.map Prod.fst
    rwa [List.map_fst_zip (by omega), List.map_fst_zip (by omega)] at this
  have hX : X.Perm X' := by
    have := hp.map Prod.snd
    rwa [List.map_snd_zip (by omega), List.map_snd_zip (by omega)] at this
  apply images_congr
  · have e1 : P.length = P'.length := hP.length_eq
    have e2 : X.length = X'.length := hX.length_eq
    have e3 : (P.all fun r => r.length == q.length) = (P'.all fun r => r.length == q.length) := by
      rw [Bool.eq_iff_iff]; simp only [List.all_eq_true]
      exact ⟨fun h r hr => h r (hP.mem_iff.mpr hr), fun h r hr => h r (hP.mem_iff.mp hr)⟩
    have e4 : (X.all fun r => r.length == d) = (X'.all fun r => r.length == d) := by
      rw [Bool.eq_iff_iff]; simp only [List.all_eq_true]
      exact ⟨fun h r hr => h r (hX.mem_iff.mpr hr), fun h r hr => h r (hX.mem_iff.mp hr)⟩
    rw [e1, e2, e3, e4]
  · intro _
    rw [tmul_eq, tmul_eq]
    have hz : ∀ (A B : Mat), List.zip (scaleCols A q) B =
        (List.zip A B).map (fun rx => (List.zipWith (fun pij qj => pij * (1 / qj)) rx.1 q, rx.2)) := by
      intro A B
      unfold scaleCols
      rw [List.zip_map_left]
      rfl
    rw [hz, hz]
    exact (hp.map _).foldr_eq' (fun a _ b _ c => step_left_comm b a c) _

/-- **Split / merge**: splitting a support point into two duplicates (same vector `x`, hence the
same cost row `c`) that share its mass (`a1 + a2`).  Merging the two plan rows of ANY coupling of
the split problem gives a coupling of the merged problem with the same cost and the same images. -/
theorem split_merge (d : Nat) (p1 p2 q : Vec) (a1 a2 : Rat) (P1 P2 C1 C2 X1 X2 : Mat) (r1 r2 c x : Vec)
    (hF : Feasible (p1 ++ a1 :: a2 :: p2) q (P1 ++ r1 :: r2 :: P2))
    (hp1 : P1.length = p1.length) (hC1 : P1.length = C1.length) (hX1 : P1.length = X1.length)
    (hc : c.length = q.length) :
    Feasible (p1 ++ (a1 + a2) :: p2) q (P1 ++ vadd r1 r2 :: P2) ∧
    inner (P1 ++ r1 :: r2 :: P2) (C1 ++ c :: c :: C2) = inner (P1 ++ vadd r1 r2 :: P2) (C1 ++ c :: C2) ∧
    images d (P1 ++ r1 :: r2 :: P2) (X1 ++ x :: x :: X2) q = images d (P1 ++ vadd r1 r2 :: P2) (X1 ++ x :: X2) q := by
  obtain ⟨⟨hlen, hrows⟩, hnn, hrs, hcs⟩ := hF
  have hr1 : r1.length = q.length := hrows r1 (by simp)
  have hr2 : r2.length = q.length := hrows r2 (by simp)
  have hr12 : (vadd r1 r2).length = q.length := by rw [vadd_length, hr1, hr2]; simp
  refine ⟨⟨⟨?_, ?_⟩, ?_, ?_, ?_⟩, ?_, ?_⟩
  · simp only [List.length_append, List.length_cons] at hlen ⊢; omega
  · intro r hr
    simp only [List.mem_append, List.mem_cons] at hr
    rcases hr with hr | rfl | hr
    · exact hrows r (by simp [hr])
    · exact hr12
    · exact hrows r (by simp [hr])
  · intro r hr
    simp only [List.mem_append, List.mem_cons] at hr
    rcases hr with hr | rfl | hr
    · exact hnn r (by simp [hr])
    · exact vadd_nonneg (hnn r1 (by simp)) (hnn r2 (by simp))
    · exact hnn r (by simp [hr])
  · simp only [rowSums, List.map_append, List.map_cons] at hrs ⊢
    obtain ⟨e1, e2⟩ := List.append_inj hrs (by simpa using hp1)
    simp only [List.cons.injEq] at e2
    obtain ⟨e2, e3, e4⟩ := e2
    rw [e1, e4, sum_vadd (by rw [hr1, hr2]), e2, e3]
  · simp only [colSums, List.foldr_append, List.foldr_cons] at hcs ⊢
    rw [vadd_assoc]; exact hcs
  · unfold inner
    rw [List.zipWith_append (by simpa using hC1), List.zipWith_append (by simpa using hC1)]
    simp only [List.zipWith_cons_cons, List.sum_append, List.sum_cons]
    rw [dot_vadd_left (by rw [hr1, hr2]) (by rw [hr2, hc])]
    ring
  · apply images_congr
    · simp only [List.length_append, List.length_cons, List.all_append, List.all_cons, hr1, hr2, hr12,
        beq_self_eq_true, Bool.true_and]
      by_cases hxd : x.length = d
      · simp only [hxd, beq_self_eq_true, Bool.true_and]
        congr 2
        rw [Bool.eq_iff_iff]; simp only [beq_iff_eq]; omega
      · have hb : (x.length == d) = false := beq_eq_false_iff_ne.mpr hxd
        simp [hb]
    · intro _
      simp only [scaleCols, List.map_append, List.map_cons]
      rw [tmul_append _ _ _ _ (by simpa using hX1), tmul_append _ _ _ _ (by simpa using hX1), tmul_cons, tmul_cons,
        tmul_cons]
      congr 1
      unfold step
      rw [zipWith_scale_vadd, outer_vadd, madd_assoc]

/-- **Memory-size independence**: for every block (or chunk) size `b ≥ 1` the `n // b + 1` loop
`for i: X[i*b : min(n, i*b+b)]`, applied to a row-wise function and concatenated, is the row-wise
function on the whole input — nothing dropped, duplicated or reordered, including the empty last
block when `b` divides `n`.  (Also the block part of property C12.) -/
theorem blocks_concat {α β : Type} (b : Nat) (hb : 1 ≤ b) (X : List α) (f : α → β) :
    ((blocks b X).map (List.map f)).flatten = X.map f := by
  rw [← List.map_flatten, blocks_flatten b hb]

/-- nested blocks and chunks (the Sinkhorn / generator loops) -/
theorem blocks_chunks_concat {α β : Type} (b c : Nat) (hb : 1 ≤ b) (hc : 1 ≤ c) (X : List α) (f : α → β) :
    ((blocks b X).map fun blk => ((blocks c blk).map (List.map f)).flatten).flatten = X.map f := by
  have : (fun blk : List α => ((blocks c blk).map (List.map f)).flatten) = List.map f := by
    funext blk; exact blocks_concat c hc blk f
  rw [this]; exact blocks_concat b hb X f

/-- **Sinkhorn sub-chunk support**: in a chunk of non-negative rows the column selection
`col_sums > 0` drops only entries that are 0 in every row of the chunk, so each row keeps all
its non-zeros and its total mass. -/
theorem subchunk_support (m : Nat) (chunk : Mat) (hs : ∀ r ∈ chunk, r.length = m) (hn : NonNeg chunk)
    (row : Vec) (hrow : row ∈ chunk) :
    List.Forall₂ (fun b x => b = false → x = 0) (colMask m chunk) row ∧
    (selectCols (colMask m chunk) row).sum = row.sum := by
  have h : List.Forall₂ (fun b x => b = false → x = 0) (colMask m chunk) row := by
    unfold colMask
    rw [List.forall₂_map_left_iff]
    refine (forall₂_with_right (Pp := fun x => (0 : Rat) ≤ x) (colSums_ge_row hs hn hrow) (hn row hrow)).imp ?_
    intro s x hxs hb
    simp only [decide_eq_false_iff_not, not_lt] at hb
    linarith [hxs.1, hxs.2]
  exact ⟨h, selectCols_sum _ _ h⟩


/-- Merging an OPTIMAL coupling of the split problem gives an OPTIMAL coupling of the merged
problem (every coupling of the merged problem splits back with the same cost). -/
theorem split_merge_optimal (p1 p2 q : Vec) (a1 a2 : Rat) (P1 P2 C1 C2 : Mat) (r1 r2 c : Vec)
    (hO : Optimal (p1 ++ a1 :: a2 :: p2) q (C1 ++ c :: c :: C2) (P1 ++ r1 :: r2 :: P2))
    (hp1 : P1.length = p1.length) (hC1 : P1.length = C1.length) (hc : c.length = q.length) :
    Optimal (p1 ++ (a1 + a2) :: p2) q (C1 ++ c :: C2) (P1 ++ vadd r1 r2 :: P2) := by
  obtain ⟨hF, hmin⟩ := hO
  obtain ⟨hFm, hcost, _⟩ := split_merge 0 p1 p2 q a1 a2 P1 P2 C1 C2 P1 [] r1 r2 c [] hF hp1 hC1
    rfl hc
  refine ⟨hFm, ?_⟩
  intro Q hQ
  -- masses of the two duplicates are non-negative (row sums of non-negative rows)
  obtain ⟨⟨_, _⟩, hnn, hrs, _⟩ := hF
  simp only [rowSums, List.map_append, List.map_cons] at hrs
  obtain ⟨_, e2⟩ := List.append_inj hrs (by simpa using hp1)
  simp only [List.cons.injEq] at e2
  have ha1 : 0 ≤ a1 := by rw [← e2.1]; exact sum_nonneg' (hnn r1 (by simp))
  have ha2 : 0 ≤ a2 := by rw [← e2.2.1]; exact sum_nonneg' (hnn r2 (by simp))
  obtain ⟨Q1, s1, s2, Q2, hQ1, rfl, hQs⟩ := split_feasible p1 p2 q a1 a2 ha1 ha2 Q hQ
  have h1 := hmin _ hQs
  obtain ⟨_, hcostQ, _⟩ := split_merge 0 p1 p2 q a1 a2 Q1 Q2 C1 C2 Q1 [] s1 s2 c [] hQs hQ1
    (by rw [hQ1, ← hp1, hC1]) rfl hc
  rw [← hcost, ← hcostQ]
  exact h1


/-- **Split, exact strength.**  If the coupling used for the split encoding is optimal and the
merged problem has a unique optimal coupling `Pstar`, the images (hence the embedding) of the split
encoding equal those of the merged encoding.  Without uniqueness the mathematics gives only
"equal to the images of SOME optimal coupling of the merged problem" (`split_merge_optimal` +
`split_merge`); a solver may pick different optimal vertices for the two encodings, and nothing
stronger is true of the code. -/
theorem split_merge_unique (d : Nat) (p1 p2 q : Vec) (a1 a2 : Rat) (P1 P2 C1 C2 X1 X2 : Mat)
    (r1 r2 c x : Vec) (Pstar : Mat)
    (hO : Optimal (p1 ++ a1 :: a2 :: p2) q (C1 ++ c :: c :: C2) (P1 ++ r1 :: r2 :: P2))
    (huniq : ∀ Q, Optimal (p1 ++ (a1 + a2) :: p2) q (C1 ++ c :: C2) Q → Q = Pstar)
    (hp1 : P1.length = p1.length) (hC1 : P1.length = C1.length) (hX1 : P1.length = X1.length)
    (hc : c.length = q.length) :
    images d (P1 ++ r1 :: r2 :: P2) (X1 ++ x :: x :: X2) q = images d Pstar (X1 ++ x :: X2) q := by
  rw [← huniq _ (split_merge_optimal p1 p2 q a1 a2 P1 P2 C1 C2 r1 r2 c hO hp1 hC1 hc)]
  exact (split_merge d p1 p2 q a1 a2 P1 P2 C1 C2 X1 X2 r1 r2 c x hO.1 hp1 hC1 hX1 hc).2.2

/-- **Isometry of the compression on the row space**: if the SVD components `V` (k × D) have
orthonormal rows (`V Vᵀ = 1`) then for every vector `w = a − b` in the row space of `V` the
projected vector `w Vᵀ` has the same squared Euclidean length.  (Over any commutative ring; for
`n_components` = rank all differences of LOT vectors lie in that row space.  That sklearn's
randomized SVD returns such a `V` is assumed, not proved.) -/
theorem isometry {R : Type} [CommRing R] {k D : Nat} (V : Matrix (Fin k) (Fin D) R)
    (hV : V * V.transpose = 1) (w : Fin D → R) (hw : ∃ c : Fin k → R, w = Matrix.vecMul c V) :
    dotProduct (Matrix.vecMul w V.transpose) (Matrix.vecMul w V.transpose) = dotProduct w w := by
  obtain ⟨c, rfl⟩ := hw
  have h1 : Matrix.vecMul (Matrix.vecMul c V) V.transpose = c := by
    rw [Matrix.vecMul_vecMul, hV, Matrix.vecMul_one]
  rw [h1]
  conv_rhs => rw [← Matrix.dotProduct_mulVec, ← Matrix.vecMul_transpose, h1]

/-- **Input formats**: the sparse kernel, reading row `i` of the CSR encoding through `indptr`,
sees exactly the (support index, weight) lists that the list / generator encodings hand to the
dense kernel — same entries, same order, for every row, and the reads never go out of bounds. -/
theorem input_format (rows : List (List (Nat × Rat))) (i : Nat) (hi : i < rows.length) :
    csrRow (toCsr rows).1 (toCsr rows).2.1 (toCsr rows).2.2 i =
      .ok (rows[i].map Prod.fst, rows[i].map Prod.snd) := by
  unfold csrRow toCsr
  have h1 := indptrOf_get rows 0 i (by omega)
  have h2 := indptrOf_get rows 0 (i + 1) (by omega)
  have r1 : rd "indptr" (indptrOf rows 0) i = .ok ((rows.take i).flatten.length) := by
    unfold rd; rw [h1]; simp
  have r2 : rd "indptr" (indptrOf rows 0) (i + 1) = .ok ((rows.take (i + 1)).flatten.length) := by
    unfold rd; rw [h2]; simp
  simp only [r1, r2, Except.bind]
  rw [← List.map_drop, ← List.map_take, ← List.map_drop, ← List.map_take, flatten_slice rows i hi]

/-! ### Non-vacuity -/

/-- a 2-point distribution whose second point is split in two: the hypotheses of `split_merge`
hold for a concrete coupling, and the two sides of its conclusions are really computed. -/
example :
    Feasible ([1/2] ++ 1/4 :: 1/4 :: []) [1/2, 1/2] ([[1/2, 0]] ++ [0, 1/4] :: [0, 1/4] :: []) ∧
    images 1 ([[1/2, 0]] ++ [0, 1/4] :: [0, 1/4] :: []) ([[1]] ++ [3] :: [3] :: []) [1/2, 1/2]
      = some [[1], [3]] ∧
    images 1 ([[1/2, 0]] ++ vadd [0, 1/4] [0, 1/4] :: []) ([[1]] ++ [3] :: []) [1/2, 1/2] = some [[1], [3]] ∧
    images 1 [[1, 0]] [[1]] [1, 0] = none ∧
    normalise [2, 6] = some [1/4, 3/4] ∧ normalise [0, 0] = none := by
  refine ⟨⟨⟨rfl, by decide⟩, ?_, by decide +kernel, by decide +kernel⟩, by decide +kernel, by decide +kernel,
    by decide +kernel, by decide +kernel, by decide +kernel⟩
  unfold NonNeg; decide +kernel

/-- `blocks` on 4 and 5 rows with block size 2 (empty last block when 2 | 4); the loop without
`+ 1` loses the tail, and the sub-chunk mask drops exactly the all-zero column. -/
example :
    blocks 2 [0, 1, 2, 3] = [[0, 1], [2, 3], []] ∧ blocks 2 [0, 1, 2, 3, 4] = [[0, 1], [2, 3], [4]] ∧
    (blocksNoPlus 2 [0, 1, 2, 3, 4]).flatten = [0, 1, 2, 3] ∧
    colMask 3 [[1, 0, 0], [0, 0, 2]] = [true, false, true] ∧
    selectCols [true, false, true] ([1, 0, 0] : Vec) = [1, 0] := by
  refine ⟨by decide, by decide, by decide, by decide +kernel, by decide +kernel⟩

end VecModel.OT
