import VecModel.Lemmas.Vocab
/-
  C05 — the learned vocabulary is exactly the tokens meeting every pruning constraint.
  Property theorems about Model/Vocab.lean (helper lemmas: Lemmas/Vocab.lean); DESIGN.md §5 C05.

  The model follows the code *after* the two `fix:` commits of this property (float64 token
  frequencies; no division by an empty total).  Rounding is explicit: `rn 53` on both sides of
  every comparison.  What is proved for which totals:
    * "every constraint holds ⇒ kept", in particular "count = bound ⇒ kept": all counts and totals
      (monotonicity of `rn` only; no size restriction);
    * "kept ⇒ every constraint holds" (a token strictly outside a bound is dropped): totals and
      document totals below 2^52 — neighbouring quotients c/n, (c+1)/n stay apart after rounding
      while 2c+1 < 2^53 (relative-error argument).  These theorems are named `…_partial`; the
      unrestricted statement is false for the model (and for IEEE doubles) once counts approach 2^53.
  The float32 arithmetic of the unfixed code is kept in the model only for the counter-example
  `float32_misclassifies_count_eq_bound`.
-/
namespace VecModel.Vocab

variable {τ : Type} [DecidableEq τ]

/-- every configured constraint holds for a dictionary row (token, count, document count) given the
total number of tokens `n` and of documents `D`: occurrence bounds on the exact integers, frequency
bounds on the float64 frequency, not excluded, not matched by the regex -/
def Sat (P : Params τ) (n D : ℕ) (r : Row τ) : Prop :=
  SatLo r.2.1 n P.minB ∧ SatHi r.2.1 n P.maxB ∧ SatLo r.2.2 D P.minD ∧ SatHi r.2.2 D P.maxD ∧
    r.1 ∉ P.excl ∧ P.regex r.1 = false

/-- the row of token `t` in the corpus `docs` -/
def rowOf (docs : List (List τ)) (t : τ) : Row τ := (t, docs.flatten.count t, docCount t docs)

/-! ### the rounding function -/

/-- round-to-nearest-even is monotone (on the non-negative rationals — all the code ever rounds) -/
theorem rn_monotone (p : ℕ) (hp : 1 ≤ p) {x y : ℚ} (hx : 0 ≤ x) (hxy : x ≤ y) : rn p x ≤ rn p y :=
  rn_mono p hp hx hxy

/-- one rounding to `p` bits has relative error at most `2^-p` -/
theorem rn_relative_error (p : ℕ) {x : ℚ} (hx : 0 < x) : |rn p x - x| ≤ x / (2:ℚ) ^ p :=
  rn_err p hx

/-- different counts over the same total keep their strict order after rounding while `2c+1 < 2^p` -/
theorem rn_quotients_strict (p : ℕ) (hp : 1 ≤ p) {c b n : ℕ} (hn : 0 < n) (hcb : c < b)
    (hc : 2 * c + 1 < 2 ^ p) : rn p ((c:ℚ) / n) < rn p ((b:ℚ) / n) :=
  rn_div_strict p hp hn hcb hc

/-! ### kept ⟺ every constraint holds (before the top-k step) -/

/-- **a token occurring exactly the bound is kept** — for every count and every total: the frequency
and the threshold are the same correctly rounded quotient. -/
theorem count_eq_bound_kept (c n : ℕ) (hn : 0 < n) (hc : c ≤ n) :
    keepFreq c n (some (.occ c)) (some (.occ c)) = true := by
  rw [keepFreq_iff']
  exact ⟨minThr_le_of_sat hn (lo := some (.occ c)) (Nat.le_refl c),
    le_maxThr_of_sat hn hc (hi := some (.occ c)) (Nat.le_refl c)⟩

/-- a row satisfying every configured constraint survives — all counts, all totals -/
theorem kept_of_sat (P : Params τ) (n D : ℕ) (r : Row τ) (hn : 0 < n) (hD : 0 < D)
    (hc : r.2.1 ≤ n) (hd : r.2.2 ≤ D) (h : Sat P n D r) : keeps P n D r = true := by
  obtain ⟨h1, h2, h3, h4, h5, h6⟩ := h
  unfold keeps
  simp only [Bool.and_eq_true, Bool.not_eq_true', List.contains_eq_mem, decide_eq_false_iff_not]
  refine ⟨⟨⟨?_, ?_⟩, h5⟩, h6⟩
  · rw [keepFreq_iff']; exact ⟨minThr_le_of_sat hn h1, le_maxThr_of_sat hn hc h2⟩
  · rw [keepFreq_iff']; exact ⟨minThr_le_of_sat hD h3, le_maxThr_of_sat hD hd h4⟩

/-- a surviving row satisfies every configured constraint — proved for totals below 2^52.
Full statement (no bound on `n`, `D`): false for the model once `2c+1 ≥ 2^53`; counts that large are
not exact in float64 either (model assumption). -/
theorem kept_iff_partial (P : Params τ) (n D : ℕ) (r : Row τ) (hn : 0 < n) (hD : 0 < D)
    (hc : r.2.1 ≤ n) (hd : r.2.2 ≤ D) (hnb : n < 2 ^ 52) (hDb : D < 2 ^ 52) :
    keeps P n D r = true ↔ Sat P n D r := by
  constructor
  · intro h
    unfold keeps at h
    simp only [Bool.and_eq_true, Bool.not_eq_true', List.contains_eq_mem, decide_eq_false_iff_not] at h
    obtain ⟨⟨⟨k1, k2⟩, h5⟩, h6⟩ := h
    rw [keepFreq_iff'] at k1 k2
    exact ⟨sat_of_minThr_le hn (by omega) k1.1, sat_of_le_maxThr hn hc (by omega) k1.2,
      sat_of_minThr_le hD (by omega) k2.1, sat_of_le_maxThr hD hd (by omega) k2.2, h5, h6⟩
  · exact kept_of_sat P n D r hn hD hc hd

/-- corpus level, all corpora: a token of the corpus meeting every constraint is in the vocabulary
(before `max_unique_tokens`) -/
theorem vocab0_of_sat {lt : τ → τ → Bool} (hlt : StrictTotal lt) (P : Params τ) (docs : List (List τ))
    (t : τ) (ht : t ∈ docs.flatten)
    (h : Sat P docs.flatten.length docs.length (rowOf docs t)) : t ∈ vocab0 lt P docs := by
  rw [mem_vocab0 hlt]
  obtain ⟨hn, hD⟩ := total_pos_of_mem ht
  exact ⟨ht, kept_of_sat P _ _ (rowOf docs t) hn hD (count_le_total docs t) (docCount_le docs t) h⟩

/-- corpus level: the vocabulary before `max_unique_tokens` is exactly the set of tokens of the corpus
meeting every constraint — for corpora of fewer than 2^52 tokens and documents -/
theorem vocab0_iff_partial {lt : τ → τ → Bool} (hlt : StrictTotal lt) (P : Params τ)
    (docs : List (List τ)) (hn : docs.flatten.length < 2 ^ 52) (hD : docs.length < 2 ^ 52) (t : τ) :
    t ∈ vocab0 lt P docs ↔
      t ∈ docs.flatten ∧ Sat P docs.flatten.length docs.length (rowOf docs t) := by
  rw [mem_vocab0 hlt]
  constructor
  · rintro ⟨ht, hk⟩
    obtain ⟨hn0, hD0⟩ := total_pos_of_mem ht
    exact ⟨ht, (kept_iff_partial P _ _ (rowOf docs t) hn0 hD0 (count_le_total docs t)
      (docCount_le docs t) hn hD).mp hk⟩
  · rintro ⟨ht, hs⟩
    obtain ⟨hn0, hD0⟩ := total_pos_of_mem ht
    exact ⟨ht, kept_of_sat P _ _ (rowOf docs t) hn0 hD0 (count_le_total docs t) (docCount_le docs t) hs⟩

/-- a frequency bound `f` that is itself a double (`rn 53 f = f`): a token whose exact frequency
reaches `f` satisfies the lower constraint as the code evaluates it -/
theorem freq_bound_exact_lo {c n : ℕ} {f : ℚ} (hf : rn 53 f = f) (h : f ≤ (c:ℚ) / n) :
    SatLo c n (some (.freq f)) := by
  show f ≤ freq53 c n
  rcases le_or_gt 0 f with h0 | h0
  · rw [freq53_eq, ← hf]; exact rn_mono 53 (by norm_num) h0 h
  · exact le_trans h0.le (freq53_nonneg c n)

theorem freq_bound_exact_hi {c n : ℕ} {f : ℚ} (hf : rn 53 f = f) (h : (c:ℚ) / n ≤ f) :
    SatHi c n (some (.freq f)) := by
  show freq53 c n ≤ f
  rw [freq53_eq, ← hf]; exact rn_mono 53 (by norm_num) (by positivity) h

/-! ### max_unique_tokens -/

/-- at most `k` tokens are kept -/
theorem topk_at_most_k {lt : τ → τ → Bool} (P : Params τ) (docs : List (List τ)) (k : ℕ)
    (hk : P.maxUnique = some k) : (vocab lt P docs).length ≤ k := by
  unfold vocab prune
  rw [hk, List.length_map]
  exact topk_length_le k _

/-- the step only removes tokens … -/
theorem topk_subset {lt : τ → τ → Bool} (P : Params τ) (docs : List (List τ)) :
    (vocab lt P docs).Sublist (vocab0 lt P docs) :=
  vocab_sublist_vocab0 P docs

/-- … none of them when the vocabulary already fits (or no limit is configured) … -/
theorem topk_no_cut {lt : τ → τ → Bool} (P : Params τ) (docs : List (List τ))
    (h : P.maxUnique = none ∨ ∃ k, P.maxUnique = some k ∧ (vocab0 lt P docs).length ≤ k) :
    vocab lt P docs = vocab0 lt P docs := by
  unfold vocab vocab0 prune
  rcases h with h | ⟨k, hk, hl⟩
  · rw [h, topk_none]
  · rw [hk, topk_of_le]
    unfold vocab0 at hl
    simpa using hl

/-- … and **no kept token is less frequent than a dropped one**: every token the step drops occurs
strictly less often than every token it keeps. -/
theorem topk_none_less_frequent {lt : τ → τ → Bool} (hlt : StrictTotal lt) (P : Params τ)
    (docs : List (List τ)) (a b : τ) (ha : a ∈ vocab lt P docs) (hb : b ∈ vocab0 lt P docs)
    (hnb : b ∉ vocab lt P docs) : docs.flatten.count b < docs.flatten.count a := by
  unfold vocab prune at ha hnb
  unfold vocab0 at hb
  obtain ⟨ea, hea, rfl⟩ := List.mem_map.mp ha
  obtain ⟨eb, heb, rfl⟩ := List.mem_map.mp hb
  have hnb' : eb ∉ topk P.maxUnique (survivors P docs.flatten.length docs.length (table lt docs)) :=
    fun h => hnb (List.mem_map.mpr ⟨eb, h, rfl⟩)
  have hlt' := topk_dominates _ _ hea heb hnb'
  rw [mem_survivors hlt P docs ea ((topk_sublist _ _).subset hea), mem_survivors hlt P docs eb heb] at hlt'
  by_contra hge
  exact absurd (freq53_mono (n := docs.flatten.length) (Nat.le_of_not_lt hge)) (not_le.mpr hlt')

/-! ### indices -/

/-- the learned tokens are in strictly increasing token order and the dictionary assigns the `i`-th
of them the index `i`: indices are `0..m-1` in sorted token order -/
theorem indices_sorted {lt : τ → τ → Bool} (hlt : StrictTotal lt) (P : Params τ) (docs : List (List τ)) :
    (vocab lt P docs).Pairwise (fun a b => lt a b = true) ∧
    (learn lt P docs).length = (vocab lt P docs).length ∧
    ∀ i : ℕ, (learn lt P docs)[i]? = (vocab lt P docs)[i]?.map (fun t => (t, i)) := by
  refine ⟨pairwise_vocab hlt P docs, by simp [learn], ?_⟩
  intro i
  unfold learn
  rw [List.getElem?_zipIdx]
  simp

/-- the dictionary does not depend on the order of the documents or of the tokens inside them -/
theorem order_independent {lt : τ → τ → Bool} (hlt : StrictTotal lt) (P : Params τ)
    (docs docs' : List (List τ)) (h : DocsPerm docs docs') : learn lt P docs' = learn lt P docs := by
  unfold learn vocab
  rw [table_congr hlt h, h.flatten.length_eq, h.length_eq]

/-! ### supplied dictionary, mask entry -/

/-- a supplied `token_dictionary` is used as given -/
theorem supplied_dictionary_verbatim {lt : τ → τ → Bool} (P : Params τ) (d : List (τ × ℕ))
    (docs : List (List τ)) : fitted lt P (some d) none docs = d := rfl

/-- … plus the mask entry (index `len`) when masking is on -/
theorem supplied_dictionary_mask {lt : τ → τ → Bool} (P : Params τ) (d : List (τ × ℕ)) (m : τ)
    (docs : List (List τ)) (hm : ∀ e ∈ d, e.1 ≠ m) :
    fitted lt P (some d) (some m) docs = d ++ [(m, d.length)] := by
  unfold fitted
  simp only []
  have : d.filter (fun e => !decide (e.1 = m)) = d := by
    rw [List.filter_eq_self]
    intro e he
    simp [hm e he]
  rw [this]

/-- a learned dictionary with masking on: the learned entries, then the mask -/
theorem learned_dictionary_mask {lt : τ → τ → Bool} (P : Params τ) (m : τ) (docs : List (List τ))
    (hm : m ∉ docs.flatten) (hlt : StrictTotal lt) :
    fitted lt P none (some m) docs = learn lt P docs ++ [(m, (learn lt P docs).length)] := by
  unfold fitted
  simp only []
  have : (learn lt P docs).filter (fun e => !decide (e.1 = m)) = learn lt P docs := by
    rw [List.filter_eq_self]
    intro e he
    have h1 : e.1 ∈ vocab lt P docs := by
      unfold learn at he
      have := List.mem_zipIdx' he
      rw [this.2]; exact List.getElem_mem _
    have h2 : e.1 ∈ docs.flatten :=
      (mem_sortedUnique hlt _ _).mp (((vocab_sublist_vocab0 P docs).trans (vocab0_sublist P docs)).subset h1)
    have : e.1 ≠ m := fun h => hm (h ▸ h2)
    simp [this]
  rw [this]

/-! ### second stage: n-grams -/

/-- the n-gram vocabulary (before `max_unique_tokens`) is exactly the set of n-grams of the pruned
sequences whose own counts / document counts — relative to the n-gram total — meet the bounds
(no excluded set / regex at this stage); same restriction on the totals as `vocab0_iff_partial` -/
theorem ngram_second_stage_partial {lt : τ → τ → Bool} (hlt : StrictTotal lt) (P : Params τ) (n : ℕ)
    (docs : List (List τ)) (g : List τ)
    (hn : (gramDocs lt P n docs).flatten.length < 2 ^ 52) (hD : docs.length < 2 ^ 52) :
    g ∈ vocab0 (lexLt lt) (ngramParams P) (gramDocs lt P n docs) ↔
      g ∈ (gramDocs lt P n docs).flatten ∧
        SatLo (rowOf (gramDocs lt P n docs) g).2.1 (gramDocs lt P n docs).flatten.length P.minB ∧
        SatHi (rowOf (gramDocs lt P n docs) g).2.1 (gramDocs lt P n docs).flatten.length P.maxB ∧
        SatLo (rowOf (gramDocs lt P n docs) g).2.2 docs.length P.minD ∧
        SatHi (rowOf (gramDocs lt P n docs) g).2.2 docs.length P.maxD := by
  have hlen : (gramDocs lt P n docs).length = docs.length := by simp [gramDocs]
  rw [vocab0_iff_partial (lexLt_strictTotal hlt) (ngramParams P) _ hn (by rw [hlen]; exact hD)]
  simp only [Sat, ngramParams, hlen, List.not_mem_nil, not_false_eq_true, and_true]

/-- the n-gram dictionary does not depend on the order of the documents (it does, of course, depend
on the order of the tokens inside a document) -/
theorem ngram_order_independent {lt : τ → τ → Bool} (hlt : StrictTotal lt) (P : Params τ) (n : ℕ)
    (docs docs' : List (List τ)) (h : docs'.Perm docs) :
    learnNgram lt P n docs' = learnNgram lt P n docs := by
  unfold learnNgram
  apply order_independent (lexLt_strictTotal hlt)
  apply docsPerm_of_perm
  unfold gramDocs
  simp only [vocab_congr hlt P (docsPerm_of_perm h)]
  exact h.map _

/-! ### the arithmetic before the fix -/

/-- float32 frequencies (the unfixed code): with 2^24+1 tokens a token occurring exactly
`max_occurrences = 3` times is pruned — `count = bound ⇒ kept` fails for totals ≥ 2^24.  (`decide`
evaluates the model's integer rounding functions on this one witness.) -/
theorem float32_misclassifies_count_eq_bound :
    ∃ c n : ℕ, 2 ^ 24 ≤ n ∧ c ≤ n ∧ prunedMax32 c n c = true :=
  ⟨3, 2 ^ 24 + 1, by norm_num, by norm_num, by decide +kernel⟩

/-- … whereas below 2^24 tokens the unfixed float32 arithmetic was right: the float64 quotient cast to
float32 equals the float32 quotient (innocuous double rounding, `double_round_div`), so a count
equal to the bound was never pruned. -/
theorem float32_ok_below_2p24 (c n : ℕ) (hc : 1 ≤ c) (hcn : c ≤ n) (hn : n < 2 ^ 24) :
    thr32 c n = freq32 c n ∧ prunedMax32 c n c = false ∧ prunedMin32 c n c = false := by
  have hnpos : 0 < n := by omega
  have hnq : (0:ℚ) < n := by exact_mod_cast hnpos
  have hdr := double_round_div c n hc hcn hn
  have h1 : thr32 c n = freq32 c n := by
    unfold thr32 freq32
    have hc' := rn_repr 24 c 0 (by omega) (by omega)
    have hn' := rn_repr 24 n 0 hnpos hn
    simp only [zpow_zero, mul_one] at hc' hn'
    rw [hc', hn', thr_eq, hdr]
  refine ⟨h1, ?_, ?_⟩
  · unfold prunedMax32
    rw [h1]
    have hle : freq32 c n ≤ 1 := by
      rw [← h1]; unfold thr32
      rw [thr_eq, hdr, ← rn_one 24 (by norm_num)]
      apply rn_mono 24 (by norm_num) (by positivity)
      rw [div_le_one hnq]; exact_mod_cast hcn
    simp only [decide_eq_false_iff_not, not_lt]
    split_ifs with h
    · exact le_refl _
    · exact hle
  · unfold prunedMin32
    rw [h1]
    simp

/-- rounding a quotient of integers below 2^24 to float64 first does not change its float32 rounding -/
theorem double_rounding_innocuous (c n : ℕ) (hc : 1 ≤ c) (hcn : c ≤ n) (hn : n < 2 ^ 24) :
    rn 24 (rn 53 ((c:ℚ) / n)) = rn 24 ((c:ℚ) / n) :=
  double_round_div c n hc hcn hn

/-! ### non-vacuity -/

/-- `<` on naturals is a strict total order (hypothesis `StrictTotal` is satisfiable) -/
example : StrictTotal (fun a b : ℕ => decide (a < b)) :=
  ⟨fun a => by simp, fun a b c h1 h2 => by simp at *; omega, fun a b h1 h2 => by simp at *; omega⟩

/-- tokens 1 (count 2 = min_occurrences) and 2 (count 3 = max_occurrences) sit exactly on the bounds
and are kept; 3 (count 5) and 4 (count 1) are dropped -/
example : learn (fun a b : ℕ => decide (a < b)) {minB := some (.occ 2), maxB := some (.occ 3)}
    [[1, 1, 2, 2, 2, 3], [3, 3, 3, 3, 4]] = [(1, 0), (2, 1)] := by decide +kernel

/-- hypotheses of `kept_iff_partial` / `kept_of_sat` hold for a concrete row, with a bound hit exactly -/
example : (0 < 11 ∧ 0 < 2 ∧ (2:ℕ) ≤ 11 ∧ (1:ℕ) ≤ 2 ∧ 11 < 2 ^ 52 ∧ 2 < 2 ^ 52) ∧
    Sat (τ := ℕ) {minB := some (.occ 2), maxB := some (.occ 3)} 11 2 (1, 2, 1) :=
  ⟨by norm_num, by simp [Sat, SatLo, SatHi]⟩

/-- top-k cutting inside a tie keeps fewer than `k`: counts 3,2,2,1 with k = 2 keep only the first -/
example : learn (fun a b : ℕ => decide (a < b)) {maxUnique := some 2} [[1, 1, 1, 2, 2, 3, 3, 4]] = [(1, 0)] := by
  decide +kernel

/-- a shuffled corpus (hypothesis `DocsPerm` is satisfiable) -/
example : DocsPerm [[1, 2, 2], [3]] [[3], [2, 1, 2]] :=
  ⟨[[3], [1, 2, 2]], by decide, List.Forall₂.cons (List.Perm.refl _)
    (List.Forall₂.cons (by decide) List.Forall₂.nil)⟩

/-- the n-gram stage on a corpus: bigrams (1,2) twice, (2,1) once; min_occurrences = 2 -/
example : learnNgram (fun a b : ℕ => decide (a < b)) {minB := some (.occ 2)} 2 [[1, 2, 1, 2], [2, 2, 1, 2]] =
    [([1, 2], 0), ([2, 1], 1)] := by decide +kernel

end VecModel.Vocab
