import VecModel.Props.C09
import VecModel.Lemmas.EMSafe
import VecModel.Props.C04
import VecModel.Props.C18
import VecModel.Props.C19
/-
  C10 — Compiled kernels never access memory outside their arrays.
  Safety theorems "Valid input → index-level kernel model returns .ok" (DESIGN.md §5 C10, §2.3).
  One section per kernel model.  Theorems of further models (Coo buffers, sliding windows,
  sparse_sum, …) are appended as further sections (each in its own `namespace … end` block,
  importing its own Lemmas file) at integration.
-/
namespace VecModel.C10

/-! ### BPE: `contract_pair` / `bpe_encode` (mixed_gram_vectorizer.py:462-534) -/

/-- C10 obligation for `contract_pair`: for every array (incl. length 0 and 1), pair and code the
index-level loop performs no out-of-range read/write and reads no unassigned loop variable. -/
theorem bpe_contract_pair_safe (a : List Int) (p : BPE.Pair) (c : Int) :
    ∃ r, BPE.contractPairIdx a p c = .ok r :=
  ⟨_, BPE.contractPairIdx_eq a p c⟩

/-- C10 obligation for `bpe_encode`: replaying any merge list through the index-level kernel
never fails. -/
theorem bpe_encode_safe (cl : List BPE.Pair) (mcc : Int) (chars : List Int) :
    ∃ r, BPE.encodeIdx cl mcc chars = .ok r :=
  ⟨_, BPE.encodeIdx_eq cl mcc chars⟩

/-! ### EM: `em_update_matrix` (coo_utils.py:247-339) -/

/-- One kernel call on valid CSR arrays (`ValidCsr`: `len(indices) = len(data)`, `indptr`
non-decreasing and bounded by `nnz` — sortedness of the columns is *not* needed), a posterior of
the same length, an existing target row and one kernel array per window at least as long as the
window: every read of `prior_indptr`, `kernels`, `col_ind`, `prior_data` and every write of
`posterior_data` is in range.  Pruned cells (lookup key above every stored column, so that
`searchsorted` returns the slice length) and empty rows are inside the precondition. -/
theorem em_update_matrix_safe (indptr indices : List Nat) (data : List Rat) (n : Nat)
    (post : List Rat) (o : EM.Occ) (hv : EM.ValidCsr indptr indices data)
    (hp : post.length = data.length) (ht : o.target + 1 < indptr.length) (hs : o.Shaped) :
    ∃ r, EM.emUpdateIdx indptr indices data n post o = .ok r ∧ r.length = post.length :=
  EM.emUpdateIdx_ok indptr indices data n post o hv hp ht hs

/-- the caller side: the CSR arrays of any row-structured matrix are valid, so a whole EM round
over any corpus of occurrences of existing rows never fails. -/
theorem em_round_safe (M : EM.Mat) (n : Nat) (occs : List EM.Occ)
    (h : ∀ o ∈ occs, o.target < M.length ∧ o.Shaped) :
    ∃ r, EM.emIterIdx (EM.indptrOf M) (EM.indicesOf M) (EM.dataOf M) n occs = .ok r ∧
      r.length = (EM.dataOf M).length := by
  unfold EM.emIterIdx
  refine EM.emIterIdxFrom_ok _ _ _ n (EM.validCsr_of M) occs _ (by simp) ?_
  intro o ho
  have := h o ho
  exact ⟨by simp [EM.indptrOf, EM.indptrFrom_length]; omega, this.2⟩

/-- writes stay inside the target row's slice of `posterior_data` -/
theorem em_update_matrix_frame (indptr indices : List Nat) (data : List Rat) (n : Nat)
    (post r : List Rat) (o : EM.Occ) (h : EM.emUpdateIdx indptr indices data n post o = .ok r)
    (lo hi : Nat) (hlo : indptr[o.target]? = some lo) (hhi : indptr[o.target + 1]? = some hi) :
    ∀ i, (i < lo ∨ hi ≤ i) → r[i]? = post[i]? :=
  EM.emUpdateIdx_frame indptr indices data n post r o h lo hi hlo hhi

/-- non-vacuity + the pre-repair behaviour (D17) on the model -/
example :
    (EM.emUpdateIdx [0, 1, 2] [0, 2] [1/2, 1/2] 3 [0, 0] ⟨0, [[2]], [[1]]⟩).toOption = some [0, 0] ∧
    (EM.emUpdateIdxPreFix [0, 1, 2] [0, 2] [1/2, 1/2] 3 [0, 0] ⟨0, [[2]], [[1]]⟩).toOption = none := by
  decide +kernel

/-! ### Radius table `window_size_array[w, token]` (token_cooccurrence_vectorizer.py:90-96,
_window_kernels.py:19-42)

`fixed_window_radii` / `variable_window_radii` return `len(token_frequency) + 1` entries per
window.  The lookups are safe when every looked-up token index is `≤ len(token_frequency)` (the
extra entry is the mask index).  **Partial**: that precondition is established by the callers only
when the frequency table covers the whole dictionary; with a supplied `token_dictionary` whose
trailing tokens (≥ 2) never occur in the data, `np.bincount` stops at the largest occurring index and
a later `transform` containing such a token indexes past the table (defect D30, owned by the
preprocessing area).  Full statement wanted: `∀ corpus dictionary, every index produced by
re-indexing < table length`. -/
theorem radius_lookup_safe_partial (nFreq : Nat) (radii : List Nat) (qs : List (Nat × Nat))
    (h : ∀ q ∈ qs, q.1 < radii.length ∧ q.2 ≤ nFreq) :
    ∃ rs, EM.radiusLookups (radii.map (EM.radiusTable nFreq)) qs = .ok rs ∧ rs.length = qs.length := by
  apply EM.radiusLookups_ok _ (nFreq + 1)
  · intro row hrow
    obtain ⟨r, _, rfl⟩ := List.mem_map.mp hrow
    simp [EM.radiusTable]
  · intro q hq
    have := h q hq
    exact ⟨by simpa using this.1, by omega⟩

/-- non-vacuity, and the D30 shape on the model: table for 3 occurring tokens (+ mask slot),
token index 4 (second unused trailing dictionary entry) is out of range. -/
example :
    (EM.radiusLookups ([2, 2].map (EM.radiusTable 3)) [(0, 0), (1, 3)]).toOption = some [2, 2] ∧
    (EM.radiusLookups ([2, 2].map (EM.radiusTable 3)) [(0, 4)]).toOption = none := by
  decide

end VecModel.C10

/-! ### Append buffers (coo_utils.py: coo_append, coo_sum_duplicates, merge_*, coo_increase_mem) — model and
proof in Props/C04; restated as C10 obligations -/
namespace VecModel.C10

/-- every checked read/write of the index-level buffer model succeeds: any event sequence into a fresh buffer
of any capacity ≥ 5, under any sort limit ≥ 1 (the vectorizers allocate ≥ 32), never leaves the arrays -/
theorem coo_append_safe {lim cap : Nat} (es : List Coo.Entry) (hl : 1 ≤ lim) (hc : 5 ≤ cap)
    (hk : ∀ e ∈ es, e.key ≠ -1) :
    ∃ c0 c', Coo.mk cap = .ok c0 ∧ Coo.appendAll lim c0 es = .ok c' :=
  let ⟨c0, c', h0, h1, _⟩ := C04.appendAll_refines es hl hc hk
  ⟨c0, c', h0, h1⟩

/-! ### Sparse helpers (distances.py: sparse_sum / sparse_diff / sparse_mul) — Props/C18 -/

/-- the merge loops and their tail loops never index outside the result buffers of length |union| /
|intersection| on sorted duplicate-free inputs -/
theorem sparse_helpers_safe (ind1 : List Nat) (data1 : List Rat) (ind2 : List Nat) (data2 : List Rat)
    (h1 : data1.length = ind1.length) (h2 : data2.length = ind2.length)
    (s1 : Dist.StrictInc ind1) (s2 : Dist.StrictInc ind2) :
    (∃ r, Dist.sparseSum ind1 data1 ind2 data2 = .ok r) ∧
    (∃ r, Dist.sparseDiff ind1 data1 ind2 data2 = .ok r) ∧
    (∃ r, Dist.sparseMul ind1 data1 ind2 data2 = .ok r) := by
  obtain ⟨r1, e1, _⟩ := Dist.sparseSum_dense ind1 data1 ind2 data2 h1 h2 s1 s2
  obtain ⟨r2, e2, _⟩ := Dist.sparseDiff_dense ind1 data1 ind2 data2 h1 h2 s1 s2
  obtain ⟨r3, e3, _⟩ := Dist.sparseMul_dense ind1 data1 ind2 data2 h1 h2 s1 s2
  exact ⟨⟨r1, e1⟩, ⟨r2, e2⟩, ⟨r3, e3⟩⟩

/-! ### Sliding windows (transformers/sliding_windows.py) — Props/C19 -/

/-- under the transformer's own preconditions no checked read of the sequence / sample / kernel and no
write into the `np.empty` result buffer fails -/
theorem sliding_windows_safe (cols : List Sliding.Col) (L w s : Nat) (sample : List Int) (K : Sliding.Mat)
    (ncols p : Nat) (v : Rat) (hv : Sliding.Valid cols L w s sample K ncols p) :
    ∃ buf, Sliding.slidingWindows cols L w s sample K ncols p v = .ok buf :=
  Sliding.index_safe cols L w s sample K ncols p v hv

end VecModel.C10
