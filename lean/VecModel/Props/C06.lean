import VecModel.Lemmas.Ngram
import VecModel.Lemmas.NgramAdd
import VecModel.Lemmas.Skipgram
import VecModel.Lemmas.EdgeList
/-
  C06 — N-gram, skip-gram and edge-list matrices hold exact counts; '+' merges models.
  Property theorems only (helper lemmas: Lemmas/{CountsBase,Ngram,NgramAdd,Skipgram,EdgeList}.lean).
  Every theorem here is an obligation of the C06 check; see DESIGN.md §5 C06.
-/
namespace VecModel.C06
open VecModel.Counts VecModel.Ngram

/-! ## `ngrams_of` -/

/-- The two nested index loops of `ngrams_of` produce, for every start position in order, the
run of length `n` (exact) resp. the runs of lengths `1 … n` (subgrams) that fit. -/
theorem ngramsOf_eq_spec (s : List α) (n : Nat) (beh : Behaviour) :
    ngramsOf s n beh = gramsSpec s n beh :=
  ngramsOf_eq_gramsSpec s n beh

/-- Each run `g` is produced exactly as often as it occurs in the sequence — when its length is
one the mode produces (`n`, resp. `1 … n`) — and never otherwise. -/
theorem ngramsOf_count (s g : List Int) (n : Nat) (beh : Behaviour) :
    (ngramsOf s n beh).count g = if produced n beh g.length then countOcc g s else 0 := by
  rw [ngramsOf_eq_gramsSpec, count_gramsSpec]

/-- sequences shorter than `n` have no n-gram in exact mode -/
theorem ngramsOf_short (s : List α) (n : Nat) (h : s.length < n) : ngramsOf s n .exact = [] := by
  rw [ngramsOf_eq_gramsSpec, gramsSpec_exact_short s n h]

/-! ## NgramVectorizer: cells, shape, unseen tokens -/

/-- `transform` (and the identical counting loop of `fit`) never fails on a well-formed fitted
model and returns `len(X)` rows × the fitted width, row `i` being the counter of document `i`. -/
theorem ngram_transform_shape (m : Fitted) (h : WF m) (X : List (List Int)) :
    ∃ M, transform m X = .ok M ∧ M.nRows = X.length ∧ M.nCols = m.colLabel.length ∧
      M.rows = X.map fun doc => countDoc m (reindex m.tokDict doc) := by
  refine ⟨_, countMatrix_ok m h _, ?_, rfl, ?_⟩ <;> simp

/-- **Entry (i, j) = number of occurrences of n-gram j in document i** (fit and transform, seen or
unseen documents): for the column `j` whose label is the label of the run `g` — a raw token for a
1-gram, the tuple otherwise — the entry is the number of positions of the document's kept-token
sequence at which `g` starts, provided the mode produces runs of that length (length `n` in exact
mode, `1 … n` in subgrams mode), and 0 otherwise.

`_partial`: the full statement would also cover columns labelled by a **1-tuple** `(t,)`, which is
how `fit` labels the unigram columns in subgrams mode with `ngram_size ≥ 2`.  The code looks a
1-gram up under the raw token `t`, never under `(t,)`, so those columns stay 0
(`ngram_one_tuple_column_zero` below; known finding `ngram.one-tuple-label-never-counted`). -/
theorem ngram_cell_partial (m : Fitted) (h : WF m) (X : List (List Int)) (M : CountMatrix)
    (hM : transform m X = .ok M) (i : Nat) (hi : i < X.length) (g : List Int) (j : Nat)
    (hj : lookup m.colLabel (labelOfGram g) = some j) :
    M.get? i j = some (if produced m.n m.beh g.length then countOcc g (kept m.tokDict X[i]) else 0) := by
  obtain ⟨M', hM', _, _, hrows⟩ := ngram_transform_shape m h X
  rw [hM] at hM'
  cases hM'
  simp only [CountMatrix.get?, hrows, List.getElem?_map, List.getElem?_eq_getElem hi, Option.map_some]
  rw [cellOf_countDoc m h _ g j hj, count_gramsSpec]

/-- the deviation behind `_partial`: a column labelled by a 1-tuple is never incremented -/
theorem ngram_one_tuple_column_zero (m : Fitted) (h : WF m) (doc : List Int) (t : Int) (j : Nat)
    (hj : lookup m.colLabel (.tup [t]) = some j) :
    cellOf (countDoc m (reindex m.tokDict doc)) j = 0 := by
  unfold countDoc
  rw [cellOf_countGrams]
  simp only [cellOf, lookup_nil, Nat.zero_add, List.length_eq_zero_iff, List.filter_eq_nil_iff]
  intro ig hig
  rw [ngramsOf_eq_gramsSpec, reindex_eq_map, gramsSpec_map] at hig
  obtain ⟨pg, hpg, rfl⟩ := List.mem_map.mp hig
  have hp : ∀ p ∈ pg, lookup m.tokDict p.1 = some p.2 :=
    fun p hp => mem_keptPairs (mem_gramsSpec hpg p hp)
  rw [colOf_pairs m h pg hp]
  intro hc
  have hc' := of_decide_eq_true (by simpa using hc) |> fun (x : lookup m.colLabel (labelOfGram (pg.map (·.1))) = some j) => x
  have := h.colInj _ _ _ hc' hj
  unfold labelOfGram at this
  split at this <;> simp_all

/-- tokens outside the fitted vocabulary are ignored: deleting them from a document does not
change its row (so they can neither raise nor shift a column). -/
theorem ngram_unseen_ignored (m : Fitted) (doc : List Int) :
    countDoc m (reindex m.tokDict (kept m.tokDict doc)) = countDoc m (reindex m.tokDict doc) := by
  rw [reindex_kept]

/-- documents with fewer than `n` kept tokens give an empty row in exact mode -/
theorem ngram_short_doc_empty_row (m : Fitted) (hb : m.beh = .exact) (doc : List Int)
    (hs : (kept m.tokDict doc).length < m.n) : countDoc m (reindex m.tokDict doc) = [] := by
  unfold countDoc
  rw [hb, ngramsOf_short _ _ (by rw [length_reindex]; exact hs)]
  rfl

/-! ## `+` on unigram models

`UWF` (Model/Ngram.lean) describes what `NgramVectorizer().fit` produces for `ngram_size = 1` without
fixed dictionaries — `fit_unigram_wellformed` — and is preserved by `+` — `add_wellformed`.  The
parameter `enum` of `add` is the iteration order of the python set `disjoint_vocab`; every theorem
holds for every order, so results are stated by column **label**. -/

section Add

/-- the default unigram fit is a well-formed unigram model whose columns are the corpus tokens -/
theorem fit_unigram_wellformed (X : List (List Int)) (c : Fitted) (h : fitUnigram X = .ok c) :
    UWF c ∧ ∀ t, hasColumn c (.tok t) ↔ t ∈ X.flatten :=
  ⟨fitUnigram_uwf h, fun t => fitUnigram_labels h t⟩

/-- `a + b` never fails on well-formed unigram models with the same `ngram_behaviour`, whatever
the iteration order of `disjoint_vocab` -/
theorem add_never_fails (a b : Fitted) (enum : List Label) (ha : UWF a) (hb : UWF b)
    (hbeh : a.beh = b.beh) (he : isEnumOf a b enum = true) : ∃ r, add a b enum = .ok r :=
  add_total ha hb hbeh he

/-- the merged model is again a well-formed unigram model: in particular its
`_inverse_token_dictionary_` inverts its `_token_dictionary_` (the D14 repair) -/
theorem add_wellformed (a b r : Fitted) (enum : List Label) (ha : UWF a) (hb : UWF b)
    (h : add a b enum = .ok r) : UWF r :=
  add_uwf ha hb h

/-- **same set of columns**: `labels (a + b) = labels a ∪ labels b` -/
theorem add_columns (a b r : Fitted) (enum : List Label) (ha : UWF a) (hb : UWF b)
    (h : add a b enum = .ok r) (L : Label) :
    hasColumn r L ↔ hasColumn a L ∨ hasColumn b L :=
  add_labels ha hb h L

/-- **same training matrix up to column order**: the merged training matrix is the vertical stack
of the two training matrices, every row keeping its entries label by label (the right model's
columns are re-indexed), and it has one column per label. -/
theorem add_train_matrix (a b r : Fitted) (enum : List Label) (ha : UWF a) (hb : UWF b)
    (h : add a b enum = .ok r) :
    r.train.nRows = a.train.nRows + b.train.nRows ∧ r.train.nCols = r.colLabel.length ∧
    (∀ (i : Nat) (row : Counter), a.train.rows[i]? = some row →
      r.train.rows[i]? = some row ∧ ∀ L, cellByLabel r.colLabel row L = cellByLabel a.colLabel row L) ∧
    (∀ (i : Nat) (row : Counter), b.train.rows[i]? = some row →
      ∃ row', r.train.rows[a.train.nRows + i]? = some row' ∧
        ∀ L, cellByLabel r.colLabel row' L = cellByLabel b.colLabel row L) := by
  obtain ⟨_, _, _, _, _, hci, hcl, _, _, _, _, _, _, htrain⟩ := add_spec ha h
  refine ⟨by rw [htrain], ?_, fun i row hr => add_train_top ha hb h i row hr,
    fun i row hr => add_train_bottom ha hb h i row hr⟩
  rw [htrain, (add_uwf ha hb h).colLabelEq, hci]; simp

/-- a well-formed unigram model's `transform` counts, in the column of token `t`, the occurrences
of `t` in the document -/
theorem unigram_transform_counts (m : Fitted) (hm : UWF m) (X : List (List Int)) (M : CountMatrix)
    (hM : transform m X = .ok M) (i : Nat) (hi : i < X.length) (t : Int) (j : Nat)
    (hj : lookup m.colLabel (.tok t) = some j) : M.get? i j = some (X[i].count t) :=
  unigram_transform_cell hm X M hM i hi t j hj

/-- **`(a + b).transform` counts the tokens of both vocabularies**: never fails, one row per
document, one column per label of either model, and the column of a token of either vocabulary
holds its number of occurrences. -/
theorem add_transform (a b r : Fitted) (enum : List Label) (ha : UWF a) (hb : UWF b)
    (h : add a b enum = .ok r) (X : List (List Int)) :
    ∃ M, transform r X = .ok M ∧ M.nRows = X.length ∧ M.nCols = r.colLabel.length ∧
      ∀ i (hi : i < X.length) t, (hasColumn a (.tok t) ∨ hasColumn b (.tok t)) →
        ∃ j, lookup r.colLabel (.tok t) = some j ∧ M.get? i j = some (X[i].count t) := by
  have hr := add_uwf ha hb h
  obtain ⟨M, hM, h1, h2, _⟩ := ngram_transform_shape r hr.toWF X
  refine ⟨M, hM, h1, h2, ?_⟩
  intro i hi t ht
  obtain ⟨j, hj⟩ := (add_labels ha hb h (.tok t)).mpr ht
  exact ⟨j, hj, unigram_transform_cell hr X M hM i hi t j hj⟩

/-- **The sum behaves like one model fitted on the concatenated corpora**: for `a = fit Xa`,
`b = fit Xb`, `c = fit (Xa ++ Xb)` (default unigram fits) and `r = a + b`:
same set of columns; same training matrix label by label; and for every collection `X`,
`r.transform X` and `c.transform X` agree label by label. -/
theorem add_eq_joint_fit (Xa Xb : List (List Int)) (a b c r : Fitted) (enum : List Label)
    (hfa : fitUnigram Xa = .ok a) (hfb : fitUnigram Xb = .ok b) (hfc : fitUnigram (Xa ++ Xb) = .ok c)
    (h : add a b enum = .ok r) :
    (∀ L, hasColumn r L ↔ hasColumn c L) ∧
    (∀ (i : Nat) (doc : List Int), (Xa ++ Xb)[i]? = some doc → ∃ rowr rowc,
      r.train.rows[i]? = some rowr ∧ c.train.rows[i]? = some rowc ∧
      ∀ L, cellByLabel r.colLabel rowr L = cellByLabel c.colLabel rowc L) ∧
    (∀ doc L, cellByLabel r.colLabel (countDoc r (reindex r.tokDict doc)) L =
      cellByLabel c.colLabel (countDoc c (reindex c.tokDict doc)) L) := by
  have ha := fitUnigram_uwf hfa
  have hb := fitUnigram_uwf hfb
  have hc := fitUnigram_uwf hfc
  have hr := add_uwf ha hb h
  have hcols : ∀ L, hasColumn r L ↔ hasColumn c L := by
    intro L
    rw [show hasColumn r L ↔ hasColumn a L ∨ hasColumn b L from add_labels ha hb h L]
    cases L with
    | tup ts =>
      constructor
      · rintro (hh | hh)
        · obtain ⟨t, ht⟩ := ha.label_tok hh; cases ht
        · obtain ⟨t, ht⟩ := hb.label_tok hh; cases ht
      · intro hh; obtain ⟨t, ht⟩ := hc.label_tok hh; cases ht
    | tok t =>
      rw [show hasColumn a (.tok t) ↔ t ∈ Xa.flatten from fitUnigram_labels hfa t,
        show hasColumn b (.tok t) ↔ t ∈ Xb.flatten from fitUnigram_labels hfb t,
        show hasColumn c (.tok t) ↔ t ∈ (Xa ++ Xb).flatten from fitUnigram_labels hfc t]
      simp
  refine ⟨hcols, ?_, ?_⟩
  · intro i doc hdoc
    obtain ⟨rowc, hrc, hcc⟩ := fitUnigram_train_by_label hfc i doc hdoc
    have hna : a.train.nRows = Xa.length := by
      rw [← ha.trainRows, fitUnigram_rows hfa]; simp
    by_cases hi : i < Xa.length
    · have hda : Xa[i]? = some doc := by rw [List.getElem?_append_left hi] at hdoc; exact hdoc
      obtain ⟨rowa, hra, hca⟩ := fitUnigram_train_by_label hfa i doc hda
      obtain ⟨hrr, hcr⟩ := add_train_top ha hb h i rowa hra
      exact ⟨rowa, rowc, hrr, hrc, fun L => by rw [hcr, hca, hcc]⟩
    · have hdb : Xb[i - Xa.length]? = some doc := by
        rw [List.getElem?_append_right (by omega)] at hdoc; exact hdoc
      obtain ⟨rowb, hrb, hcb⟩ := fitUnigram_train_by_label hfb (i - Xa.length) doc hdb
      obtain ⟨rowr, hrr, hcr⟩ := add_train_bottom ha hb h (i - Xa.length) rowb hrb
      have e : a.train.nRows + (i - Xa.length) = i := by omega
      rw [e] at hrr
      exact ⟨rowr, rowc, hrr, hrc, fun L => by rw [hcr, hcb, hcc]⟩
  · intro doc L
    have d1 : Decidable (hasColumn r L) := Classical.propDecidable _
    have d2 : Decidable (hasColumn c L) := Classical.propDecidable _
    rw [uwf_row_by_label hr doc L, uwf_row_by_label hc doc L]
    by_cases hh : hasColumn r L
    · simp [hh, (hcols L).mp hh]
    · have : ¬ hasColumn c L := fun hx => hh ((hcols L).mpr hx)
      simp [hh, this]

end Add

/-! ## `sum_coo_entries` -/

section Skipgram
open VecModel.Skipgram

/-- `sum_coo_entries` (sort, then run-length sum) preserves the sum of every coordinate … -/
theorem sumCoo_preserves_sums (l r : List Triple) (h : sumCooEntries l = .ok r) (a b : Nat) :
    cell r a b = cell l a b :=
  sumCooEntries_cell l r h a b

/-- … and yields each coordinate once, in strictly increasing lexicographic order -/
theorem sumCoo_sorted_distinct (l r : List Triple) (h : sumCooEntries l = .ok r) :
    r.Pairwise fun x y => x.1 < y.1 ∨ (x.1 = y.1 ∧ x.2.1 < y.2.1) :=
  sumCooEntries_sorted l r h

/-- it only fails on the empty list (`seq[0]`), which `build_skip_grams` never passes -/
theorem sumCoo_total (l : List Triple) (h : l ≠ []) : ∃ r, sumCooEntries l = .ok r :=
  sumCooEntries_total l h

/-! ## SkipgramVectorizer -/

/-- column id: `// n` and `% n` recover head and tail of `head * n + tail` when `tail < n` -/
theorem skipgram_decode (n a b : Nat) (hb : b < n) : decode n (encode n a b) = (a, b) :=
  decode_encode n a b hb

/-- distinct pairs get distinct column ids -/
theorem skipgram_encode_injective (n a b a' b' : Nat) (hb : b < n) (hb' : b' < n)
    (h : encode n a b = encode n a' b') : a = a' ∧ b = b' :=
  encode_inj n a b a' b' hb hb' h

/-- `build_skip_grams` on one document: the summed entry of the pair `(a, b)` is the summed kernel
weight of `b` within the window after `a`: `Σ_k [s_k = a] Σ_{d=1…w_a, k+d<len} [s_{k+d} = b] κ d`. -/
theorem skipgram_doc_cell (ws : List Nat) (κ : Nat → Rat) (s : List Nat) (tr : List Triple)
    (h : buildSkipGrams ws κ s = .ok tr) (a b w : Nat) (hw : ws[a]? = some w) :
    cell tr a b = pairWeight κ s w a b :=
  buildSkipGrams_cell ws κ s tr h a b w hw

/-- `transform` never fails on a well-formed fitted model — whatever pairs the data contain or
lack — and returns `len(X)` rows × the number of columns kept at fit time. -/
theorem skipgram_transform_shape (m : Skipgram.Fitted) (h : Skipgram.WF m) (κ : Nat → Rat)
    (X : List (List Int)) :
    ∃ M, Skipgram.transform m κ X = .ok M ∧ M.nRows = X.length ∧
      M.nCols = (keptCols m.mask).length := by
  obtain ⟨es, _, hB⟩ := baseMatrix_ok m.tokDict m.ws κ h.wsLen h.tokBound X
  obtain ⟨M, hM⟩ := selectCols_ok m.mask ⟨X.length, width m.tokDict.length, es⟩ h.maskLen
  refine ⟨M, ?_, ?_⟩
  · unfold Skipgram.transform; rw [hB]; exact hM
  · obtain ⟨_, h1, h2, _⟩ := selectCols_eq hM
    exact ⟨h1, h2⟩

/-- **Entry (i, (a, b)) = summed kernel weight of `b` within the window after `a` in document i**:
output column `j` is the `j`-th column kept at fit time; when that is the id of the pair `(a, b)`,
the entry of row `i` is `pairWeight` of the document's kept-token sequence. -/
theorem skipgram_cell (m : Skipgram.Fitted) (h : Skipgram.WF m) (κ : Nat → Rat) (X : List (List Int))
    (M : Matrix) (hM : Skipgram.transform m κ X = .ok M) (i : Nat) (hi : i < X.length)
    (j : Nat) (hj : j < (keptCols m.mask).length) (a b w : Nat)
    (hab : (keptCols m.mask)[j] = encode m.tokDict.length a b) (hb : b < m.tokDict.length)
    (hw : m.ws[a]? = some w) :
    M.get i j = pairWeight κ (reindex m.tokDict X[i]) w a b := by
  obtain ⟨es, hes, hB⟩ := baseMatrix_ok m.tokDict m.ws κ h.wsLen h.tokBound X
  unfold Skipgram.transform at hM
  rw [hB] at hM
  rw [cell_selectCols hM i j hj, hab]
  have hlt : ∀ s ∈ X.map (reindex m.tokDict), ∀ t ∈ s, t < m.tokDict.length := by
    intro s hs t ht
    obtain ⟨doc, _, rfl⟩ := List.mem_map.mp hs
    exact reindex_lt m.tokDict _ h.tokBound doc t ht
  have := cooRows_cell m.ws κ m.tokDict.length a b w hb hw _ 0 es hes hlt i
    (reindex m.tokDict X[i]) (by simp [List.getElem?_map, List.getElem?_eq_getElem hi])
  simpa [Matrix.get] using this

/-- tokens outside the fitted vocabulary are ignored: deleting them from the documents does not
change the result (they can neither raise nor move a column) -/
theorem skipgram_unseen_ignored (m : Skipgram.Fitted) (κ : Nat → Rat) (X : List (List Int)) :
    Skipgram.transform m κ (X.map (kept m.tokDict)) = Skipgram.transform m κ X := by
  unfold Skipgram.transform Skipgram.baseMatrix
  simp only [List.map_map, List.length_map]
  have : (reindex m.tokDict ∘ kept m.tokDict) = reindex m.tokDict := by
    funext doc; exact reindex_kept m.tokDict doc
  rw [this]

end Skipgram

/-! ## EdgeListVectorizer -/

section EdgeList
open VecModel.EdgeList

/-- `transform` never fails on a fitted model with non-empty dictionaries, whatever labels the
edge list contains or lacks, and always returns the fitted shape
`(max row index + 1, max column index + 1)`. -/
theorem edgelist_transform_shape (m : EdgeList.Fitted) (hr : m.rowDict ≠ []) (hc : m.colDict ≠ [])
    (E : List Edge) :
    ∃ M, EdgeList.transform m E = .ok M ∧ M.nRows = maxPlus1 (m.rowDict.map (·.2)) ∧
      M.nCols = maxPlus1 (m.colDict.map (·.2)) := by
  obtain ⟨M, h1, h2, h3, _⟩ := transform_spec m hr hc E
  exact ⟨M, h1, h2, h3⟩

/-- **Entry (r, c) = sum of the values of all edges labelled (r, c)** for `transform` … -/
theorem edgelist_cell (m : EdgeList.Fitted) (hri : DictInj m.rowDict) (hci : DictInj m.colDict)
    (E : List Edge) (M : Matrix) (hM : EdgeList.transform m E = .ok M)
    (r c : Int) (ri ci : Nat) (hr : lookup m.rowDict r = some ri) (hc : lookup m.colDict c = some ci) :
    M.get ri ci = edgeSum E r c := by
  have hr' : m.rowDict ≠ [] := by intro h; rw [h] at hr; cases hr
  have hc' : m.colDict ≠ [] := by intro h; rw [h] at hc; cases hc
  obtain ⟨M', h1, _, _, h4⟩ := transform_spec m hr' hc' E
  rw [hM] at h1
  cases h1
  rw [h4, pivotSum_eq_edgeSum m.rowDict m.colDict hri hci r c ri ci hr hc]

/-- … and for the training matrix of `fit` (learned, supplied or joint dictionaries), which has
the shape `(max row index + 1, max column index + 1)`. -/
theorem edgelist_fit_cell (joint : Bool) (rowD colD : Option (List (Int × Nat))) (E : List Edge)
    (m : EdgeList.Fitted) (hfit : EdgeList.fit joint rowD colD E = .ok m)
    (hri : DictInj m.rowDict) (hci : DictInj m.colDict)
    (r c : Int) (ri ci : Nat) (hr : lookup m.rowDict r = some ri) (hc : lookup m.colDict c = some ci) :
    m.train.get ri ci = edgeSum E r c ∧
    m.train.nRows = maxPlus1 (m.rowDict.map (·.2)) ∧ m.train.nCols = maxPlus1 (m.colDict.map (·.2)) := by
  have hr' : m.rowDict ≠ [] := by intro h; rw [h] at hr; cases hr
  have hc' : m.colDict ≠ [] := by intro h; rw [h] at hc; cases hc
  obtain ⟨h1, h2, h3⟩ := fit_spec hfit hr' hc'
  exact ⟨by rw [h3, pivotSum_eq_edgeSum m.rowDict m.colDict hri hci r c ri ci hr hc], h1, h2⟩

/-- dictionaries learned from the data (`np.unique`) are injective and contain every label, so
the hypotheses of the cell theorems hold for them -/
theorem edgelist_learned_dictionary (L : List Int) :
    DictInj (learn L) ∧ ∀ x ∈ L, (lookup (learn L) x).isSome :=
  ⟨fun _ _ _ hx hy => learn_inj hx hy, fun _ hx => learn_isSome hx⟩

/-- edges with a row or column label outside the fitted dictionaries are ignored: removing them
changes no cell -/
theorem edgelist_unseen_ignored (m : EdgeList.Fitted) (hr : m.rowDict ≠ []) (hc : m.colDict ≠ [])
    (E : List Edge) (M M' : Matrix) (hM : EdgeList.transform m E = .ok M)
    (hM' : EdgeList.transform m
      (E.filter fun e => (lookup m.rowDict e.1).isSome && (lookup m.colDict e.2.1).isSome) = .ok M')
    (ri ci : Nat) : M'.get ri ci = M.get ri ci := by
  obtain ⟨M1, h1, _, _, h4⟩ := transform_spec m hr hc E
  obtain ⟨M2, h1', _, _, h4'⟩ := transform_spec m hr hc
    (E.filter fun e => (lookup m.rowDict e.1).isSome && (lookup m.colDict e.2.1).isSome)
  rw [hM] at h1; cases h1
  rw [hM'] at h1'; cases h1'
  rw [h4, h4', pivotSum_filter]

end EdgeList

/-! ## non-vacuity: the hypotheses of the theorems above are satisfiable (and small runs of the model) -/

/-- the D14 corpora: a = fit [[a,b,b],[c,a]], b = fit [[b,d],[e,d,d]] (a…e = 1…5) -/
example : ∃ a b r, fitUnigram [[1, 2, 2], [3, 1]] = .ok a ∧ fitUnigram [[2, 4], [5, 4, 4]] = .ok b ∧
    UWF a ∧ UWF b ∧ WF a ∧ isEnumOf a b [.tok 5, .tok 4] = true ∧ add a b [.tok 5, .tok 4] = .ok r ∧
    r.colLabel = [(.tok 1, 0), (.tok 2, 1), (.tok 3, 2), (.tok 5, 3), (.tok 4, 4)] ∧
    (transform r [[1, 4, 4, 9]]).toOption.map (·.rows) = some [[(0, 1), (4, 2)]] :=
  ⟨_, _, _, rfl, rfl, fitUnigram_uwf (X := [[1, 2, 2], [3, 1]]) rfl,
    fitUnigram_uwf (X := [[2, 4], [5, 4, 4]]) rfl,
    (fitUnigram_uwf (X := [[1, 2, 2], [3, 1]]) rfl).toWF, by decide, rfl, by decide, by decide⟩

/-- bigrams, exact and subgrams; a document shorter than n; an unseen token (9) -/
def bigramModel (beh : Behaviour) : Fitted :=
  { n := 2, beh := beh, tokDict := [(1, 0), (2, 1)], invDict := [(0, 1), (1, 2)],
    colLabel := [(.tup [1, 2], 0), (.tup [2, 2], 1), (.tok 1, 2), (.tup [2], 3)], colIndex := [],
    train := ⟨0, 4, []⟩ }

example : (transform (bigramModel .exact) [[1, 2, 9, 2], [1], []]).toOption.map (·.rows) =
    some [[(0, 1), (1, 1)], [], []] := by decide

/-- subgrams: the raw-token column `.tok 1` is counted, the 1-tuple column `(2,)` is not (known finding) -/
example : (transform (bigramModel .subgrams) [[1, 2, 9, 2], [1], []]).toOption.map (·.rows) =
    some [[(2, 1), (0, 1), (1, 1)], [(2, 1)], []] := by decide


/-- a fitted skip-gram model over two tokens, radius 2, keeping the pairs (a,b) = column 1 and
(b,b) = column 3 of the 4 base columns -/
def skipModel : Skipgram.Fitted :=
  { tokDict := [(10, 0), (11, 1)], invDict := [(0, 10), (1, 11)], ws := [2, 2, 0],
    mask := [false, true, false, true], colLabel := [((10, 11), 0), ((11, 11), 1)],
    train := ⟨0, 2, []⟩ }

/-- transform of a document with an unseen token (99) that lacks the last kept pair: shape (1, 2),
never fails (D2); `Skipgram.WF skipModel` holds -/
example : Skipgram.WF skipModel ∧
    ∃ M, Skipgram.transform skipModel (fun _ => 1) [[10, 99, 11]] = .ok M ∧ M.nRows = 1 ∧ M.nCols = 2 := by
  have hwf : Skipgram.WF skipModel :=
    { wsLen := rfl
      tokBound := by
        intro t i h
        simp only [skipModel, lookup_cons, lookup_nil] at h
        split at h
        · cases h; decide
        · split at h
          · cases h; decide
          · cases h
      maskLen := rfl }
  obtain ⟨M, h1, h2, h3⟩ := skipgram_transform_shape skipModel hwf (fun _ => 1) [[10, 99, 11]]
  exact ⟨hwf, M, h1, h2, by rw [h3]; decide⟩

example : Skipgram.decode 3 (Skipgram.encode 3 2 1) = (2, 1) := by decide

example : ∃ r, Skipgram.sumCooEntries [(1, 2, 1), (0, 2, 3), (1, 2, 1)] = .ok r :=
  sumCoo_total _ (by simp)

/-- edge list with a duplicate edge: learned dictionaries are injective; transform of a subset / of
unseen labels keeps the fitted shape (D1) -/
example : DictInj (EdgeList.learn [1, 1, 2, 3]) ∧ DictInj (EdgeList.learn [5, 5, 6, 7]) :=
  ⟨(edgelist_learned_dictionary _).1, (edgelist_learned_dictionary _).1⟩

example : ((EdgeList.fit false none none [(1, 5, 1), (1, 5, 2), (2, 6, 7/2), (3, 7, 1)]).toOption.map
      fun m => (m.rowDict, m.colDict, m.train.nRows, m.train.nCols)) =
    some (([(1, 0), (2, 1), (3, 2)] : List (Int × Nat)), ([(5, 0), (6, 1), (7, 2)] : List (Int × Nat)),
      (3 : Nat), (3 : Nat)) := by decide


end VecModel.C06
