import VecModel.Lemmas.EMSafe
import Mathlib.Algebra.Order.BigOperators.Group.List
import Mathlib.Algebra.BigOperators.Group.List.Basic
import Mathlib.Algebra.Order.Field.Rat
import Mathlib.Tactic.Linarith
import Mathlib.Tactic.Ring
import Mathlib.Tactic.FieldSimp
import Mathlib.Tactic.Positivity
/-
  Helper lemmas for Props/C11: normalisation, thresholding, posterior mass, support.
-/
namespace VecModel.EM

/-- all stored values are non-negative -/
def NonnegL (l : List (Nat × Rat)) : Prop := ∀ cv ∈ l, 0 ≤ cv.2
def Nonneg (M : Mat) : Prop := NonnegL M.flatten

theorem absQ_of_nonneg {x : Rat} (h : 0 ≤ x) : absQ x = x := by
  unfold absQ; split <;> linarith

theorem absQ_nonneg (x : Rat) : 0 ≤ absQ x := by
  unfold absQ; split <;> linarith

theorem sum_map_div {α : Type} (l : List α) (f : α → Rat) (t : Rat) :
    (l.map fun x => f x / t).sum = (l.map f).sum / t := by
  induction l with
  | nil => simp
  | cons a l ih => simp [ih, add_div]

theorem colSumL_nonneg (l : List (Nat × Rat)) (c : Nat) : 0 ≤ colSumL l c := by
  unfold colSumL
  apply List.sum_nonneg
  intro x hx
  obtain ⟨cv, _, rfl⟩ := List.mem_map.mp hx
  exact absQ_nonneg _

theorem le_colSumL (l : List (Nat × Rat)) (cv : Nat × Rat) (h : cv ∈ l) :
    absQ cv.2 ≤ colSumL l cv.1 := by
  unfold colSumL
  apply List.single_le_sum
  · intro x hx
    obtain ⟨y, _, rfl⟩ := List.mem_map.mp hx
    exact absQ_nonneg _
  · exact List.mem_map.mpr ⟨cv, List.mem_filter.mpr ⟨h, by simp⟩, rfl⟩

theorem colSumL_filter_le (l : List (Nat × Rat)) (p : Nat × Rat → Bool) (c : Nat) :
    colSumL (l.filter p) c ≤ colSumL l c := by
  unfold colSumL
  apply List.Sublist.sum_le_sum
  · exact (List.filter_sublist.filter _).map _
  · intro x hx
    obtain ⟨y, _, rfl⟩ := List.mem_map.mp hx
    exact absQ_nonneg _

theorem normCell_fst (S : Nat → Rat) (cv : Nat × Rat) : (normCell S cv).1 = cv.1 := rfl

/-- the column sums after normalisation: 1 for a column with non-zero norm, else 0 -/
theorem colSumL_norm (l : List (Nat × Rat)) (hl : NonnegL l) (c : Nat) :
    colSumL (l.map (normCell (colSumL l))) c = if colSumL l c = 0 then 0 else 1 := by
  have hfilter : (l.map (normCell (colSumL l))).filter (fun cv => cv.1 == c)
      = (l.filter (fun cv => cv.1 == c)).map (normCell (colSumL l)) := by
    rw [List.filter_map]; rfl
  unfold colSumL at *
  rw [hfilter, List.map_map]
  by_cases h0 : ((l.filter fun cv => cv.1 == c).map fun cv => absQ cv.2).sum = 0
  · rw [if_pos h0, ← h0]
    apply congrArg
    apply List.map_congr_left
    intro cv hcv
    have hc : cv.1 = c := by simpa using (List.mem_filter.mp hcv).2
    simp only [Function.comp, normCell, hc]
    rw [if_pos h0]
  · rw [if_neg h0]
    have hpos : 0 < ((l.filter fun cv => cv.1 == c).map fun cv => absQ cv.2).sum := by
      have := colSumL_nonneg l c
      unfold colSumL at this
      exact lt_of_le_of_ne this (Ne.symm h0)
    have : (l.filter fun cv => cv.1 == c).map ((fun cv => absQ cv.2) ∘ normCell fun c =>
        ((l.filter fun cv => cv.1 == c).map fun cv => absQ cv.2).sum)
        = (l.filter fun cv => cv.1 == c).map (fun cv => absQ cv.2 /
          ((l.filter fun cv => cv.1 == c).map fun cv => absQ cv.2).sum) := by
      apply List.map_congr_left
      intro cv hcv
      have hc : cv.1 = c := by simpa using (List.mem_filter.mp hcv).2
      have hnn : 0 ≤ cv.2 := hl cv (List.mem_filter.mp hcv).1
      simp only [Function.comp, normCell, hc]
      rw [if_neg h0, absQ_of_nonneg hnn, absQ_of_nonneg (div_nonneg hnn hpos.le)]
    rw [this, sum_map_div, div_self h0]

theorem normCols_flatten (M : Mat) :
    (normCols M).flatten = M.flatten.map (normCell (colSumL M.flatten)) := by
  unfold normCols colSum
  rw [List.map_flatten]

theorem threshold_flatten (eps : Rat) (M : Mat) :
    (threshold eps M).flatten = M.flatten.filter (keep eps) := by
  unfold threshold
  rw [List.filter_flatten]

/-- normalised values lie in [0, 1] -/
theorem normCell_unit (l : List (Nat × Rat)) (hl : NonnegL l) (cv : Nat × Rat) (h : cv ∈ l) :
    0 ≤ (normCell (colSumL l) cv).2 ∧ (normCell (colSumL l) cv).2 ≤ 1 := by
  have hnn := hl cv h
  have hle := le_colSumL l cv h
  rw [absQ_of_nonneg hnn] at hle
  simp only [normCell]
  by_cases h0 : colSumL l cv.1 = 0
  · rw [if_pos h0]
    rw [h0] at hle
    have : cv.2 = 0 := le_antisymm hle hnn
    rw [this]; exact ⟨le_refl _, by norm_num⟩
  · rw [if_neg h0]
    have hpos : 0 < colSumL l cv.1 := lt_of_le_of_ne (colSumL_nonneg _ _) (Ne.symm h0)
    exact ⟨div_nonneg hnn hpos.le, (div_le_one hpos).mpr hle⟩

theorem nonnegL_norm (l : List (Nat × Rat)) (hl : NonnegL l) :
    NonnegL (l.map (normCell (colSumL l))) := by
  intro x hx
  obtain ⟨cv, hcv, rfl⟩ := List.mem_map.mp hx
  exact (normCell_unit l hl cv hcv).1

/-- with epsilon = 0 only exact zeros are removed: column sums are unchanged -/
theorem colSumL_filter_keep0 (l : List (Nat × Rat)) (hl : NonnegL l) (c : Nat) :
    colSumL (l.filter (keep 0)) c = colSumL l c := by
  induction l with
  | nil => rfl
  | cons cv l ih =>
    have hl' : NonnegL l := fun x hx => hl x (List.mem_cons_of_mem _ hx)
    have hnn : 0 ≤ cv.2 := hl cv (by simp)
    have ih := ih hl'
    unfold colSumL at *
    by_cases hk : keep 0 cv = true
    · rw [List.filter_cons_of_pos hk]
      by_cases hc : (cv.1 == c) = true
      · simp only [List.filter_cons, hc, if_true, List.map_cons, List.sum_cons, ih]
      · simp only [List.filter_cons, hc]; exact ih
    · rw [List.filter_cons_of_neg hk]
      have hz : cv.2 = 0 := by
        by_contra hne
        apply hk
        simp only [keep, Bool.and_eq_true, Bool.not_eq_eq_eq_not, Bool.not_true, decide_eq_false_iff_not,
          not_lt]
        exact ⟨hnn, hne⟩
      by_cases hc : (cv.1 == c) = true
      · have habs : absQ cv.2 = 0 := by rw [hz]; rfl
        rw [List.filter_cons (p := fun (cv : Nat × Rat) => cv.1 == c), if_pos hc, List.map_cons,
          List.sum_cons, habs, zero_add]
        exact ih
      · simp only [List.filter_cons, hc]; exact ih

/-! ### posterior values -/

theorem mem_modify {α : Type} (f : α → α) :
    ∀ (l : List α) (i : Nat) (x : α), x ∈ l.modify i f → x ∈ l ∨ ∃ y ∈ l, x = f y := by
  intro l
  induction l with
  | nil => intro i x h; simp at h
  | cons a l ih =>
    intro i x h
    cases i with
    | zero =>
      simp only [List.modify_zero_cons, List.mem_cons] at h
      rcases h with rfl | h
      · exact Or.inr ⟨a, by simp, rfl⟩
      · exact Or.inl (by simp [h])
    | succ i =>
      simp only [List.modify_succ_cons, List.mem_cons] at h
      rcases h with rfl | h
      · exact Or.inl (by simp)
      · rcases ih i x h with h | ⟨y, hy, rfl⟩
        · exact Or.inl (by simp [h])
        · exact Or.inr ⟨y, by simp [hy], rfl⟩

def NonnegV (p : List Rat) : Prop := ∀ v ∈ p, 0 ≤ v
def NonnegP (P : Post) : Prop := ∀ p ∈ P, NonnegV p

theorem mStep_nonneg : ∀ (lk : List (Nat × Rat)) (p : List Rat), NonnegV p → NonnegV (mStep lk p) := by
  intro lk
  induction lk with
  | nil => intro p h; exact h
  | cons x xs ih =>
    intro p h
    unfold mStep
    apply ih
    split
    · rename_i hx
      intro v hv
      rcases mem_modify _ p x.1 v hv with hv | ⟨y, hy, rfl⟩
      · exact h v hv
      · have := h y hy; linarith
    · exact h

theorem emUpdate_nonneg (n : Nat) (M : Mat) (P : Post) (o : Occ) (h : NonnegP P) :
    NonnegP (emUpdate n M P o) := by
  unfold emUpdate
  split
  · exact h
  · intro p hp
    rcases mem_modify _ P o.target p hp with hp | ⟨q, hq, rfl⟩
    · exact h p hp
    · exact mStep_nonneg _ q (h q hq)

theorem zerosLike_nonneg (M : Mat) : NonnegP (zerosLike M) := by
  intro p hp v hv
  unfold zerosLike at hp
  obtain ⟨row, _, rfl⟩ := List.mem_map.mp hp
  obtain ⟨_, _, rfl⟩ := List.mem_map.mp hv
  exact le_refl _

theorem foldl_emUpdate_nonneg (n : Nat) (M : Mat) :
    ∀ (occs : List Occ) (P : Post), NonnegP P → NonnegP (occs.foldl (emUpdate n M) P) := by
  intro occs
  induction occs with
  | nil => intro P h; exact h
  | cons o os ih => intro P h; exact ih _ (emUpdate_nonneg n M P o h)

theorem emPosterior_nonneg (n : Nat) (M : Mat) (occs : List Occ) : NonnegP (emPosterior n M occs) :=
  foldl_emUpdate_nonneg n M occs _ (zerosLike_nonneg M)

theorem mem_zipWith {α β γ : Type} (f : α → β → γ) :
    ∀ (a : List α) (b : List β) (z : γ), z ∈ List.zipWith f a b → ∃ x ∈ a, ∃ y ∈ b, z = f x y := by
  intro a
  induction a with
  | nil => intro b z h; simp at h
  | cons x xs ih =>
    intro b z h
    cases b with
    | nil => simp at h
    | cons y ys =>
      simp only [List.zipWith_cons_cons, List.mem_cons] at h
      rcases h with rfl | h
      · exact ⟨x, by simp, y, by simp, rfl⟩
      · obtain ⟨x', hx', y', hy', rfl⟩ := ih ys z h
        exact ⟨x', by simp [hx'], y', by simp [hy'], rfl⟩

theorem addPost_nonneg (A B : Post) (hA : NonnegP A) (hB : NonnegP B) : NonnegP (addPost A B) := by
  intro p hp v hv
  obtain ⟨a, ha, b, hb, rfl⟩ := mem_zipWith _ A B p hp
  obtain ⟨x, hx, y, hy, rfl⟩ := mem_zipWith _ a b v hv
  have := hA a ha x hx
  have := hB b hb y hy
  linarith

theorem chunkPosterior_nonneg (n : Nat) (M : Mat) (chunks : List (List Occ)) :
    NonnegP (chunkPosterior n M chunks) := by
  unfold chunkPosterior
  suffices H : ∀ (chunks : List (List Occ)) (A : Post), NonnegP A →
      NonnegP (chunks.foldl (fun acc ch => addPost acc (emPosterior n M ch)) A) from
    H chunks _ (zerosLike_nonneg M)
  intro chunks
  induction chunks with
  | nil => intro A h; exact h
  | cons ch rest ih =>
    intro A h
    exact ih _ (addPost_nonneg A _ h (emPosterior_nonneg n M ch))

theorem withData_nonneg (M : Mat) (P : Post) (h : NonnegP P) : Nonneg (withData M P) := by
  intro cv hcv
  obtain ⟨row, hrow, hcv⟩ := List.mem_flatten.mp hcv
  obtain ⟨r, _, p, hp, rfl⟩ := mem_zipWith _ M P row hrow
  unfold zipRow at hcv
  obtain ⟨x, _, v, hv, rfl⟩ := mem_zipWith _ r p cv hcv
  exact h p hp v hv

/-! ### the shape of the result of `em` -/

theorem emRun_shape (n : Nat) (eps : Rat) (chunks : List (List Occ)) :
    ∀ (k : Nat) (M : Mat), (∃ X, Nonneg X ∧ M = threshold eps (normCols X)) →
      ∃ X, Nonneg X ∧ emRun n eps chunks k M = threshold eps (normCols X) := by
  intro k
  induction k with
  | zero => intro M h; exact h
  | succ k ih =>
    intro M _
    unfold emRun
    apply ih
    exact ⟨_, withData_nonneg M _ (chunkPosterior_nonneg n M chunks), rfl⟩

/-- whenever EM or thresholding is requested, the result is a thresholded column-normalised
non-negative matrix -/
theorem em_shape (n : Nat) (eps : Rat) (nIter : Nat) (chunks : List (List Occ)) (M0 : Mat)
    (h0 : Nonneg M0) (hreq : nIter > 0 ∨ eps > 0) :
    ∃ X, Nonneg X ∧ em n eps nIter chunks M0 = threshold eps (normCols X) := by
  unfold em
  rw [if_pos hreq]
  exact emRun_shape n eps chunks nIter _ ⟨M0, h0, rfl⟩

/-! ### support -/

/-- row-wise: the stored columns of `A` are a sub-list of the stored columns of `B` -/
def SubSupport (A B : Mat) : Prop :=
  ∀ r : Nat, List.Sublist (((A[r]?).getD []).map Prod.fst) (((B[r]?).getD []).map Prod.fst)

theorem SubSupport.refl (A : Mat) : SubSupport A A := fun _ => List.Sublist.refl _

theorem SubSupport.trans {A B C : Mat} (h1 : SubSupport A B) (h2 : SubSupport B C) : SubSupport A C :=
  fun r => (h1 r).trans (h2 r)

theorem subSupport_threshold (eps : Rat) (M : Mat) : SubSupport (threshold eps M) M := by
  intro r
  unfold threshold
  rw [List.getElem?_map]
  cases M[r]? with
  | none => simp
  | some row => exact (List.filter_sublist).map _

theorem subSupport_normCols (M : Mat) : SubSupport (normCols M) M := by
  intro r
  unfold normCols
  rw [List.getElem?_map]
  cases M[r]? with
  | none => simp
  | some row =>
    simp only [Option.map_some, Option.getD_some, List.map_map]
    exact List.Sublist.refl _

theorem zipWith_fst_sublist : ∀ (row : Row) (p : List Rat),
    List.Sublist ((List.zipWith (fun cv v => ((cv.1, v) : Nat × Rat)) row p).map Prod.fst) (row.map Prod.fst) := by
  intro row
  induction row with
  | nil => intro p; simp
  | cons cv row ih =>
    intro p
    cases p with
    | nil => simp
    | cons v p =>
      simp only [List.zipWith_cons_cons, List.map_cons]
      exact (ih p).cons_cons _

theorem subSupport_withData (M : Mat) (P : Post) : SubSupport (withData M P) M := by
  intro r
  unfold withData
  rw [List.getElem?_zipWith]
  cases hM : M[r]? with
  | none => simp
  | some row =>
    cases hP : P[r]? with
    | none => simp
    | some p =>
      simp only [Option.getD_some, zipRow]
      exact zipWith_fst_sublist row p

theorem subSupport_emStep (n : Nat) (eps : Rat) (chunks : List (List Occ)) (M : Mat) :
    SubSupport (emStep n eps chunks M) M :=
  (subSupport_threshold eps _).trans ((subSupport_normCols _).trans (subSupport_withData M _))

theorem subSupport_emRun (n : Nat) (eps : Rat) (chunks : List (List Occ)) :
    ∀ (k : Nat) (M : Mat), SubSupport (emRun n eps chunks k M) M := by
  intro k
  induction k with
  | zero => intro M; exact SubSupport.refl M
  | succ k ih => intro M; exact (ih _).trans (subSupport_emStep n eps chunks M)

/-! ### the mass added by one occurrence -/

theorem sum_modify_add : ∀ (p : List Rat) (i : Nat) (v : Rat), i < p.length →
    (p.modify i (· + v)).sum = p.sum + v := by
  intro p
  induction p with
  | nil => intro i v h; simp at h
  | cons a p ih =>
    intro i v h
    cases i with
    | zero => simp only [List.modify_zero_cons, List.sum_cons]; ring
    | succ i =>
      simp only [List.modify_succ_cons, List.sum_cons]
      rw [ih i v (by simpa using h)]; ring

theorem length_mStep : ∀ (lk : List (Nat × Rat)) (p : List Rat), (mStep lk p).length = p.length := by
  intro lk
  induction lk with
  | nil => intro p; rfl
  | cons x xs ih =>
    intro p
    unfold mStep
    rw [ih]
    split <;> simp

/-- the M-step adds exactly the positive weights (all of which point inside the row) -/
theorem sum_mStep (len : Nat) : ∀ (lk : List (Nat × Rat)) (p : List Rat), p.length = len →
    (∀ x ∈ lk, 0 ≤ x.2 ∧ (x.2 ≠ 0 → x.1 < len)) →
    (mStep lk p).sum = p.sum + (lk.map (·.2)).sum := by
  intro lk
  induction lk with
  | nil => intro p _ _; simp [mStep]
  | cons x xs ih =>
    intro p hp h
    have hx := h x (by simp)
    have hxs : ∀ y ∈ xs, 0 ≤ y.2 ∧ (y.2 ≠ 0 → y.1 < len) := fun y hy => h y (by simp [hy])
    unfold mStep
    by_cases hv : x.2 > 0
    · rw [if_pos hv, ih _ (by simp [hp]) hxs, sum_modify_add p x.1 x.2 (by rw [hp]; exact hx.2 (ne_of_gt hv))]
      simp only [List.map_cons, List.sum_cons]; ring
    · rw [if_neg hv, ih _ hp hxs]
      have : x.2 = 0 := le_antisymm (not_lt.mp hv) hx.1
      simp only [List.map_cons, List.sum_cons, this]; ring

theorem look_ok (row : Row) (key : Nat) :
    (look row key).2 ≠ 0 → (look row key).1 < row.length := by
  unfold look
  simp only
  split
  · rename_i cv hcv
    intro _
    split <;> exact (List.getElem?_eq_some_iff.mp hcv).1
  · intro h; exact absurd rfl h

theorem look_nonneg (row : Row) (hrow : NonnegL row) (key : Nat) : 0 ≤ (look row key).2 := by
  unfold look
  simp only
  split
  · rename_i cv hcv
    split
    · exact hrow cv (List.mem_of_getElem? hcv)
    · exact le_refl _
  · exact le_refl _

theorem eStep_ok (row : Row) (hrow : NonnegL row) (es : List (Nat × Rat)) :
    ∀ x ∈ eStep row es, 0 ≤ x.2 ∧ (x.2 ≠ 0 → x.1 < row.length) := by
  intro x hx
  unfold eStep at hx
  obtain ⟨e, _, rfl⟩ := List.mem_map.mp hx
  split
  · rename_i hk
    refine ⟨mul_nonneg (le_of_lt hk) (look_nonneg row hrow _), ?_⟩
    intro hne
    apply look_ok
    intro h0
    apply hne
    simp [h0]
  · exact ⟨le_refl _, fun h => absurd rfl h⟩

theorem normPost_sum (lk : List (Nat × Rat)) (h : ∀ x ∈ lk, 0 ≤ x.2) :
    ((normPost lk).map (·.2)).sum = if (lk.map (·.2)).sum > 0 then 1 else 0 := by
  simp only [normPost]
  by_cases hT : (lk.map (·.2)).sum > 0
  · rw [if_pos hT, if_pos hT, List.map_map]
    have : (lk.map ((fun x => x.2) ∘ fun x => ((x.1, x.2 / (lk.map (·.2)).sum) : Nat × Rat)))
        = lk.map (fun x => x.2 / (lk.map (·.2)).sum) := rfl
    rw [this, sum_map_div, div_self (ne_of_gt hT)]
  · rw [if_neg hT, if_neg hT]
    apply le_antisymm (not_lt.mp hT)
    apply List.sum_nonneg
    intro v hv
    obtain ⟨x, hx, rfl⟩ := List.mem_map.mp hv
    exact h x hx

theorem normPost_ok' (len : Nat) (lk : List (Nat × Rat))
    (h : ∀ x ∈ lk, 0 ≤ x.2 ∧ (x.2 ≠ 0 → x.1 < len)) :
    ∀ x ∈ normPost lk, 0 ≤ x.2 ∧ (x.2 ≠ 0 → x.1 < len) := by
  simp only [normPost]
  split
  · rename_i hT
    intro x hx
    obtain ⟨y, hy, rfl⟩ := List.mem_map.mp hx
    have := h y hy
    refine ⟨div_nonneg this.1 (le_of_lt hT), ?_⟩
    intro hne
    apply this.2
    intro h0
    apply hne
    simp [h0]
  · exact h

end VecModel.EM
