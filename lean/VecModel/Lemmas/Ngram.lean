import VecModel.Model.Ngram
import VecModel.Lemmas.CountsBase
/- Helper lemmas for the n-gram part of Props/C06 (and C01). Core Lean only. -/
namespace VecModel.Ngram
open VecModel.Counts

/-! ### loops = closed form -/

theorem flatMap_range_succ {β} (f : Nat → List β) (n : Nat) :
    (List.range (n + 1)).flatMap f = f 0 ++ (List.range n).flatMap (fun k => f (k + 1)) := by
  rw [List.range_succ_eq_map]
  simp [List.flatMap_map]

theorem subInner_eq (s : List α) (i : Nat) : ∀ (fuel j : Nat),
    subInner s i fuel j = (List.range fuel).flatMap fun k =>
      if i + (j + k) ≤ s.length then [slice s i (i + (j + k))] else [] := by
  intro fuel
  induction fuel with
  | zero => intro j; simp [subInner]
  | succ fuel ih =>
    intro j
    rw [flatMap_range_succ, subInner, ih]
    simp only [Nat.add_zero]
    congr 1
    apply flatMap_congr'
    intro k _
    have : j + 1 + k = j + (k + 1) := by omega
    rw [this]

theorem gramsLoop_eq (s : List α) (n : Nat) (beh : Behaviour) : ∀ (fuel i : Nat),
    gramsLoop s n beh fuel i = (List.range fuel).flatMap fun k => gramsAt s n beh (i + k) := by
  intro fuel
  induction fuel with
  | zero => intro i; simp [gramsLoop]
  | succ fuel ih =>
    intro i
    rw [flatMap_range_succ, gramsLoop, ih]
    simp only [Nat.add_zero]
    congr 1
    apply flatMap_congr'
    intro k _
    have : i + 1 + k = i + (k + 1) := by omega
    rw [this]

theorem ngramsOf_eq_gramsSpec (s : List α) (n : Nat) (beh : Behaviour) :
    ngramsOf s n beh = gramsSpec s n beh := by
  unfold ngramsOf
  rw [gramsLoop_eq]
  cases beh with
  | exact => simp [gramsSpec, gramsAt]
  | subgrams =>
    simp only [gramsSpec, gramsAt, Nat.zero_add]
    apply flatMap_congr'
    intro i _
    rw [subInner_eq]
    apply flatMap_congr'
    intro k _
    have : 1 + k = k + 1 := by omega
    rw [this]

/-! ### counting occurrences in the closed form -/

theorem slice_length (s : List α) (i k : Nat) (h : i + k ≤ s.length) :
    (slice s i (i + k)).length = k := by
  simp [slice]; omega

theorem sum_map_ite (l : List Nat) (p : Nat → Bool) :
    (l.map fun i => if p i then 1 else 0).sum = (l.filter p).length := by
  induction l with
  | nil => rfl
  | cons x xs ih =>
    simp only [List.map_cons, List.sum_cons, ih, List.filter_cons]
    split <;> simp <;> omega

/-- a sum over `range n` whose terms vanish except possibly at `m` -/
theorem sum_range_single (n m : Nat) (f : Nat → Nat) (h : ∀ j, j ≠ m → f j = 0) :
    ((List.range n).map f).sum = if m < n then f m else 0 := by
  induction n with
  | zero => simp
  | succ n ih =>
    rw [List.range_succ, List.map_append, List.sum_append, ih]
    simp only [List.map_cons, List.map_nil, List.sum_cons, List.sum_nil, Nat.add_zero]
    by_cases h1 : m < n
    · have : n ≠ m := by omega
      simp [h1, h n this, Nat.lt_succ_of_lt h1]
    · by_cases h2 : m = n
      · subst h2; simp
      · have : ¬ m < n + 1 := by omega
        simp [h1, this, h n (Ne.symm h2)]

theorem sum_eq_zero' (l : List Nat) (h : ∀ x ∈ l, x = 0) : l.sum = 0 := by
  induction l with
  | nil => rfl
  | cons x xs ih =>
    simp only [List.sum_cons, h x (by simp), ih (fun y hy => h y (by simp [hy]))]

theorem count_singleton_if [DecidableEq α] (g x : List α) (c : Prop) [Decidable c] :
    (if c then [x] else []).count g = if c ∧ x = g then 1 else 0 := by
  by_cases hc : c
  · by_cases hx : x = g
    · simp [hc, hx]
    · simp [hc, hx]
  · simp [hc]

theorem count_exact [DecidableEq α] (s g : List α) (n : Nat) :
    (gramsSpec s n .exact).count g = if g.length = n then countOcc g s else 0 := by
  simp only [gramsSpec, List.count_flatMap, countOcc]
  by_cases hn : g.length = n
  · subst hn
    simp only [if_true]
    rw [← sum_map_ite]
    congr 1
    apply List.map_congr_left
    intro i _
    simp only [Function.comp, count_singleton_if]
    by_cases h1 : i + g.length ≤ s.length <;> by_cases h2 : slice s i (i + g.length) = g <;> simp [h1, h2]
  · simp only [hn, if_false]
    apply sum_eq_zero'
    intro x hx
    obtain ⟨i, _, rfl⟩ := List.mem_map.mp hx
    simp only [Function.comp, count_singleton_if]
    split
    · rename_i h
      have := slice_length s i n h.1
      rw [h.2] at this
      exact absurd this hn
    · rfl

theorem count_subgrams [DecidableEq α] (s g : List α) (n : Nat) :
    (gramsSpec s n .subgrams).count g =
      if 1 ≤ g.length ∧ g.length ≤ n then countOcc g s else 0 := by
  simp only [gramsSpec, List.count_flatMap, countOcc]
  have inner : ∀ i, ((List.range n).map (List.count g ∘ fun j =>
        if i + (j + 1) ≤ s.length then [slice s i (i + (j + 1))] else [])).sum =
      if 1 ≤ g.length ∧ g.length ≤ n then
        (if (decide (i + g.length ≤ s.length) && decide (slice s i (i + g.length) = g)) then 1 else 0)
      else 0 := by
    intro i
    rw [sum_range_single n (g.length - 1)]
    · simp only [Function.comp, count_singleton_if]
      by_cases hg : 1 ≤ g.length
      · have e : g.length - 1 + 1 = g.length := by omega
        rw [e]
        by_cases hn : g.length ≤ n
        · have : g.length - 1 < n := by omega
          simp only [this, hg, hn, and_self, if_true]
          by_cases h1 : i + g.length ≤ s.length <;> by_cases h2 : slice s i (i + g.length) = g <;> simp [h1, h2]
        · have : ¬ g.length - 1 < n := by omega
          simp [this, hn]
      · have hz : g.length = 0 := by omega
        have hg' : g = [] := List.length_eq_zero_iff.mp hz
        subst hg'
        simp only [List.length_nil, Nat.zero_sub, Nat.zero_add, Nat.le_zero_eq, Nat.succ_ne_zero, false_and, if_false]
        split
        · split
          · rename_i h
            have := slice_length s i 1 h.1
            rw [h.2] at this
            simp at this
          · rfl
        · rfl
    · intro j hj
      simp only [Function.comp, count_singleton_if]
      split
      · rename_i h
        have := slice_length s i (j + 1) h.1
        rw [h.2] at this
        omega
      · rfl
  have : ((List.range s.length).map (List.count g ∘ fun i => (List.range n).flatMap fun j =>
        if i + (j + 1) ≤ s.length then [slice s i (i + (j + 1))] else [])) =
      (List.range s.length).map fun i => if 1 ≤ g.length ∧ g.length ≤ n then
        (if (decide (i + g.length ≤ s.length) && decide (slice s i (i + g.length) = g)) then 1 else 0)
      else 0 := by
    apply List.map_congr_left
    intro i _
    simp only [Function.comp, List.count_flatMap]
    exact inner i
  rw [this]
  by_cases hc : 1 ≤ g.length ∧ g.length ≤ n
  · simp only [hc, and_self, if_true]
    exact sum_map_ite _ _
  · simp only [hc, if_false]
    apply sum_eq_zero'
    intro x hx
    obtain ⟨i, _, rfl⟩ := List.mem_map.mp hx
    rfl

/-! ### the counting loop -/

theorem mapM_some_of_forall {f : α → Option β} {g : α → β} (l : List α)
    (h : ∀ x ∈ l, f x = some (g x)) : l.mapM f = some (l.map g) := by
  induction l with
  | nil => rfl
  | cons x xs ih =>
    rw [List.mapM_cons, h x (by simp), ih (fun y hy => h y (by simp [hy]))]
    rfl

theorem cellOf_dictSet (c : Counter) (j j' v : Nat) :
    cellOf (dictSet c j v) j' = if j = j' then v else cellOf c j' := by
  simp only [cellOf, lookup_dictSet]
  by_cases h : j = j' <;> simp [h]

theorem cellOf_counterAdd (c : Counter) (j j' : Nat) :
    cellOf (counterAdd c j) j' = cellOf c j' + if j = j' then 1 else 0 := by
  unfold counterAdd
  split
  · rename_i v hv
    rw [cellOf_dictSet]
    split
    · rename_i h; subst h; simp [cellOf, hv]
    · simp
  · rename_i hv
    rw [cellOf_dictSet]
    split
    · rename_i h; subst h; simp [cellOf, hv]
    · simp

theorem cellOf_countGrams (inv : List (Nat × Int)) (col : List (Label × Nat)) (j : Nat) :
    ∀ (grams : List (List Nat)) (c : Counter),
      cellOf (countGrams inv col grams c) j =
        cellOf c j + (grams.filter fun g => colOf inv col g == some j).length := by
  intro grams
  induction grams with
  | nil => intro c; simp [countGrams]
  | cons g rest ih =>
    intro c
    unfold countGrams
    split
    · rename_i j' hj'
      rw [ih, cellOf_counterAdd, List.filter_cons, hj']
      by_cases h : j' = j
      · subst h; simp; omega
      · simp [h]
    · rename_i hn
      rw [ih, List.filter_cons, hn]
      simp

/-! ### index grams versus token grams -/

def keptPairs (d : List (Int × Nat)) (doc : List Int) : List (Int × Nat) :=
  doc.filterMap fun t => (lookup d t).map fun i => (t, i)

theorem reindex_eq_map (d : List (Int × Nat)) (doc : List Int) :
    reindex d doc = (keptPairs d doc).map (·.2) := by
  induction doc with
  | nil => rfl
  | cons t rest ih =>
    simp only [reindex, keptPairs, List.filterMap_cons] at *
    cases h : lookup d t <;> simp [ih]

theorem kept_eq_map (d : List (Int × Nat)) (doc : List Int) :
    kept d doc = (keptPairs d doc).map (·.1) := by
  induction doc with
  | nil => rfl
  | cons t rest ih =>
    simp only [kept, keptPairs, List.filterMap_cons, List.filter_cons] at *
    cases h : lookup d t <;> simp [ih]

theorem mem_keptPairs {d : List (Int × Nat)} {doc : List Int} {p : Int × Nat}
    (h : p ∈ keptPairs d doc) : lookup d p.1 = some p.2 := by
  simp only [keptPairs, List.mem_filterMap] at h
  obtain ⟨t, _, ht⟩ := h
  cases hl : lookup d t with
  | none => simp [hl] at ht
  | some i => simp [hl] at ht; subst ht; exact hl

theorem slice_map (f : α → β) (l : List α) (i j : Nat) :
    slice (l.map f) i j = (slice l i j).map f := by
  simp [slice, List.map_take, List.map_drop]

theorem gramsSpec_map (f : α → β) (l : List α) (n : Nat) (beh : Behaviour) :
    gramsSpec (l.map f) n beh = (gramsSpec l n beh).map (List.map f) := by
  cases beh with
  | exact =>
    simp only [gramsSpec, List.length_map, List.map_flatMap, slice_map]
    apply flatMap_congr'
    intro i _
    split <;> simp
  | subgrams =>
    simp only [gramsSpec, List.length_map, List.map_flatMap, slice_map]
    apply flatMap_congr'
    intro i _
    apply flatMap_congr'
    intro j _
    split <;> simp

theorem mem_slice {l : List α} {i j : Nat} {x : α} (h : x ∈ slice l i j) : x ∈ l :=
  List.mem_of_mem_drop (List.mem_of_mem_take h)

theorem mem_gramsSpec {l : List α} {n : Nat} {beh : Behaviour} {g : List α}
    (h : g ∈ gramsSpec l n beh) : ∀ x ∈ g, x ∈ l := by
  intro x hx
  cases beh with
  | exact =>
    simp only [gramsSpec, List.mem_flatMap] at h
    obtain ⟨i, _, hi⟩ := h
    split at hi
    · simp at hi; subst hi; exact mem_slice hx
    · simp at hi
  | subgrams =>
    simp only [gramsSpec, List.mem_flatMap] at h
    obtain ⟨i, _, j, _, hi⟩ := h
    split at hi
    · simp at hi; subst hi; exact mem_slice hx
    · simp at hi

theorem labelOfGram_inj {g g' : List Int} (h : labelOfGram g = labelOfGram g') : g = g' := by
  unfold labelOfGram at h
  split at h <;> split at h <;> simp_all

theorem mapM_map_some {f : α → γ} {g : γ → Option β} {h : α → β} (l : List α)
    (hh : ∀ x ∈ l, g (f x) = some (h x)) : (l.map f).mapM g = some (l.map h) := by
  induction l with
  | nil => rfl
  | cons x xs ih =>
    rw [List.map_cons, List.mapM_cons, hh x (by simp), ih (fun y hy => hh y (by simp [hy]))]
    rfl

theorem gramLabel_pairs (inv : List (Nat × Int)) (pg : List (Int × Nat))
    (hp : ∀ p ∈ pg, lookup inv p.2 = some p.1) :
    gramLabel inv (pg.map (·.2)) = some (labelOfGram (pg.map (·.1))) := by
  match pg, hp with
  | [], _ => rfl
  | [p], hp => simp [gramLabel, labelOfGram, hp p (by simp)]
  | p :: q :: r, hp =>
    have := mapM_map_some (f := fun p : Int × Nat => p.2) (g := lookup inv) (h := (·.1)) (p :: q :: r) hp
    simp only [List.map_cons] at this
    simp only [List.map_cons, gramLabel, labelOfGram, this, Option.map_some]


/-! ### the cell of a row -/

theorem count_map_eq [BEq β] [LawfulBEq β] (f : α → β) (L : List α) (g : β) :
    (L.map f).count g = (L.filter fun x => f x == g).length := by
  induction L with
  | nil => rfl
  | cons x xs ih =>
    simp only [List.map_cons, List.count_cons, ih, List.filter_cons]
    by_cases h : f x = g <;> simp [h]

theorem filter_length_congr {L : List α} {p q : α → Bool} (h : ∀ x ∈ L, p x = q x) :
    (L.filter p).length = (L.filter q).length := by
  rw [List.filter_congr h]

theorem colOf_pairs (m : Fitted) (h : WF m) (pg : List (Int × Nat))
    (hp : ∀ p ∈ pg, lookup m.tokDict p.1 = some p.2) :
    colOf m.invDict m.colLabel (pg.map (·.2)) = lookup m.colLabel (labelOfGram (pg.map (·.1))) := by
  unfold colOf
  rw [gramLabel_pairs m.invDict pg (fun p hpm => h.tokInv _ _ (hp p hpm))]
  rfl

/-- the entry of column `j` in the row of `doc` is the number of n-grams of the kept token
sequence whose label is the label of column `j` -/
theorem cellOf_countDoc (m : Fitted) (h : WF m) (doc : List Int) (g : List Int) (j : Nat)
    (hj : lookup m.colLabel (labelOfGram g) = some j) :
    cellOf (countDoc m (reindex m.tokDict doc)) j =
      (gramsSpec (kept m.tokDict doc) m.n m.beh).count g := by
  unfold countDoc
  rw [ngramsOf_eq_gramsSpec, cellOf_countGrams, reindex_eq_map, kept_eq_map, gramsSpec_map,
    gramsSpec_map, count_map_eq, List.filter_map, List.length_map]
  simp only [cellOf, lookup_nil, Nat.zero_add]
  apply filter_length_congr
  intro pg hpg
  have hp : ∀ p ∈ pg, lookup m.tokDict p.1 = some p.2 :=
    fun p hp => mem_keptPairs (mem_gramsSpec hpg p hp)
  simp only [Function.comp, colOf_pairs m h pg hp]
  by_cases he : List.map (·.1) pg = g
  · rw [he, hj]; simp
  · have : lookup m.colLabel (labelOfGram (List.map (·.1) pg)) ≠ some j := by
      intro hc
      exact he (labelOfGram_inj (h.colInj _ _ _ hc hj))
    rw [beq_eq_false_iff_ne.mpr this, beq_eq_false_iff_ne.mpr he]


/-! ### matrix level -/

theorem count_gramsSpec [DecidableEq α] (s g : List α) (n : Nat) (beh : Behaviour) :
    (gramsSpec s n beh).count g = if produced n beh g.length then countOcc g s else 0 := by
  cases beh with
  | exact => rw [count_exact]; simp [produced]
  | subgrams => rw [count_subgrams]; simp [produced]

theorem mem_dictSet {c : List (Nat × Nat)} {k v : Nat} {p : Nat × Nat} (h : p ∈ dictSet c k v) :
    p.1 = k ∨ p ∈ c := by
  induction c with
  | nil => simp [dictSet] at h; left; rw [h]
  | cons q rest ih =>
    obtain ⟨k0, v0⟩ := q
    simp only [dictSet] at h
    split at h
    · rename_i hk
      rcases List.mem_cons.mp h with h | h
      · left; rw [h]; exact hk
      · right; exact List.mem_cons_of_mem _ h
    · rcases List.mem_cons.mp h with h | h
      · right; rw [h]; exact List.mem_cons_self
      · rcases ih h with h | h
        · left; exact h
        · right; exact List.mem_cons_of_mem _ h

theorem mem_counterAdd {c : Counter} {j : Nat} {p : Nat × Nat} (h : p ∈ counterAdd c j) :
    p.1 = j ∨ p ∈ c := by
  unfold counterAdd at h
  split at h <;> exact mem_dictSet h

theorem keys_countGrams (inv : List (Nat × Int)) (col : List (Label × Nat)) (P : Nat → Prop)
    (hP : ∀ g j, colOf inv col g = some j → P j) :
    ∀ (grams : List (List Nat)) (c : Counter), (∀ p ∈ c, P p.1) →
      ∀ p ∈ countGrams inv col grams c, P p.1 := by
  intro grams
  induction grams with
  | nil => intro c hc; simpa [countGrams] using hc
  | cons g rest ih =>
    intro c hc
    unfold countGrams
    split
    · rename_i j hj
      apply ih
      intro p hp
      rcases mem_counterAdd hp with h | h
      · rw [h]; exact hP g j hj
      · exact hc p h
    · exact ih c hc

theorem colOf_bound (m : Fitted) (h : WF m) (g : List Nat) (j : Nat)
    (hj : colOf m.invDict m.colLabel g = some j) : j < m.colLabel.length := by
  unfold colOf at hj
  cases hl : gramLabel m.invDict g with
  | none => simp [hl] at hj
  | some L => simp [hl] at hj; exact h.colBound L j hj

theorem countMatrix_ok (m : Fitted) (h : WF m) (seqs : List (List Nat)) :
    countMatrix m seqs = .ok ⟨seqs.length, m.colLabel.length, seqs.map (countDoc m)⟩ := by
  unfold countMatrix
  have : ((seqs.map (countDoc m)).flatMap id).find? (fun p => decide (m.colLabel.length ≤ p.1)) = none := by
    rw [List.find?_eq_none]
    intro p hp
    simp only [List.mem_flatMap, List.mem_map, id] at hp
    obtain ⟨row, ⟨seq, _, rfl⟩, hp⟩ := hp
    have := keys_countGrams m.invDict m.colLabel (fun j => j < m.colLabel.length)
      (colOf_bound m h) (ngramsOf seq m.n m.beh) [] (by simp) p hp
    simp; omega
  simp only [this]

theorem reindex_kept (d : List (Int × Nat)) (doc : List Int) :
    reindex d (kept d doc) = reindex d doc := by
  induction doc with
  | nil => rfl
  | cons t rest ih =>
    simp only [reindex, kept, List.filter_cons, List.filterMap_cons] at *
    cases hl : lookup d t <;> simp [hl, ih]

theorem kept_kept (d : List (Int × Nat)) (doc : List Int) : kept d (kept d doc) = kept d doc := by
  simp [kept]

theorem length_reindex (d : List (Int × Nat)) (doc : List Int) :
    (reindex d doc).length = (kept d doc).length := by
  rw [reindex_eq_map, kept_eq_map]; simp

theorem gramsSpec_exact_short (s : List α) (n : Nat) (h : s.length < n) :
    gramsSpec s n .exact = [] := by
  simp only [gramsSpec, List.flatMap_eq_nil_iff]
  intro i hi
  have := List.mem_range.mp hi
  have : ¬ i + n ≤ s.length := by omega
  simp [this]


end VecModel.Ngram
