import Mathlib.Analysis.SpecialFunctions.Pow.Real
import Mathlib.Analysis.SpecialFunctions.Log.Basic
import Mathlib.Analysis.SpecialFunctions.Sqrt
import VecModel.Model.Analytic
/-
  The `ℝ` instance of the numeric interface `Analytic` (Model/Analytic.lean): exact real
  arithmetic, with the partial operations refusing exactly where IEEE arithmetic leaves the finite
  numbers (√ of a negative, log of a non-positive, division by zero, 0 to a negative power).
  The theorems of C17 / C18 about `sqrt`, `log`, `/`, `**` are proved for this instance.
-/
namespace VecModel

open Classical in
noncomputable instance instAnalyticReal : Analytic ℝ where
  sqrt x := if 0 ≤ x then .ok (Real.sqrt x) else .error (.invalid "sqrt<0")
  log x := if 0 < x then .ok (Real.log x) else .error (.invalid "log<=0")
  div a b := if b = 0 then .error (.invalid "div0") else .ok (a / b)
  pow a b := if a < 0 ∨ (a = 0 ∧ b < 0) then .error (.invalid "pow") else .ok (a ^ b)
  ltb a b := decide (a < b)
  isZero a := decide (a = 0)
  half := 1 / 2
  ofNat n := (n : ℝ)

namespace Analytic

theorem sqrt_real {x : ℝ} (h : 0 ≤ x) : Analytic.sqrt x = .ok (Real.sqrt x) := if_pos h
theorem log_real {x : ℝ} (h : 0 < x) : Analytic.log x = .ok (Real.log x) := if_pos h
theorem div_real {a b : ℝ} (h : b ≠ 0) : Analytic.div a b = .ok (a / b) := if_neg h
theorem pow_real {a b : ℝ} (h : 0 < a ∨ (a = 0 ∧ 0 ≤ b)) : Analytic.pow a b = .ok (a ^ b) := by
  apply if_neg
  rintro (h' | ⟨h1, h2⟩)
  · rcases h with h | ⟨h, _⟩ <;> linarith
  · rcases h with h | ⟨_, h⟩ <;> linarith
theorem ltb_real {a b : ℝ} : (Analytic.ltb a b = true) ↔ a < b := by
  show decide (a < b) = true ↔ _
  simp
theorem isZero_real {a : ℝ} : (Analytic.isZero a = true) ↔ a = 0 := by
  show decide (a = 0) = true ↔ _
  simp
theorem half_real : (Analytic.half : ℝ) = 1 / 2 := rfl
theorem ofNat_real (n : Nat) : (Analytic.ofNat n : ℝ) = (n : ℝ) := rfl

end Analytic

/-- over ℝ the left-to-right accumulation is the sum -/
theorem fsum_eq_sum (l : List ℝ) : fsum l = l.sum := by
  unfold fsum
  rw [List.sum_eq_foldl]

end VecModel
