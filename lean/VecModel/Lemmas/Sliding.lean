import VecModel.Model.Sliding
import Mathlib.Algebra.Ring.Rat
import Mathlib.Tactic.Ring
/-
  Helper lemmas for C19 (property theorems are in Props/C19.lean).
-/
namespace VecModel.Sliding

/-! ### ceiling division and the window count -/

theorem lt_ceil_iff (x s k : Nat) (hs : 0 < s) : k < (x + (s - 1)) / s ↔ k * s < x := by
  rw [show k < (x + (s - 1)) / s ↔ k + 1 ≤ (x + (s - 1)) / s from Iff.rfl, Nat.le_div_iff_mul_le hs,
    Nat.succ_mul]
  omega

theorem ceilDiv_toNat_lt_iff (d : Int) (m k : Nat) (hm : 0 < m) :
    k < (ceilDiv d m).toNat ↔ ((k * m : Nat) : Int) < d := by
  unfold ceilDiv
  split
  · rename_i hd
    generalize (-d).toNat / m = q
    have : (-((q : Nat) : Int)).toNat = 0 := by omega
    rw [this]
    constructor
    · intro h; omega
    · intro h; omega
  · rename_i hd
    have hiff := lt_ceil_iff d.toNat m k hm
    generalize hq : (d.toNat + (m - 1)) / m = q at hiff ⊢
    have : ((q : Nat) : Int).toNat = q := by omega
    rw [this, hiff]
    omega

theorem ceilDiv_nonneg_of_nonneg (d : Int) (m : Nat) (hd : 0 ≤ d) : 0 ≤ ceilDiv d m := by
  unfold ceilDiv
  split
  · have : d = 0 := by omega
    subst this; simp
  · generalize (d.toNat + (m - 1)) / m = q
    omega

theorem nRows_eq (L w s : Nat) (hs : 0 < s) (hw : w ≤ L + 1) : nRows L w s = .ok (nWindows L w s) := by
  unfold nRows
  have hs' : s ≠ 0 := by omega
  simp only [hs', if_false]
  have hnn := ceilDiv_nonneg_of_nonneg ((L : Int) - w + 1) s (by omega)
  have hlt : ¬ ceilDiv ((L : Int) - w + 1) s < 0 := by omega
  simp only [hlt, if_false]
  congr 1
  unfold ceilDiv nWindows
  split
  · rename_i hx
    have : L + 1 - w = 0 := by omega
    rw [this]
    have : (0 + (s - 1)) / s = 0 := Nat.div_eq_of_lt (by omega)
    rw [this]
    have h2 : (-((L : Int) - w + 1)).toNat = 0 := by omega
    rw [h2]; simp
  · rename_i hx
    have : ((L : Int) - w + 1).toNat = L + 1 - w := by omega
    rw [this]
    generalize (L + 1 - w + (s - 1)) / s = q
    omega

/-! ### `np.arange` -/

theorem arange_ok (a b m : Int) (hm : 0 < m) :
    arange a b m = .ok ((List.range (ceilDiv (b - a) m.toNat).toNat).map fun (k : Nat) => a + (k : Int) * m) := by
  unfold arange
  have h1 : ¬ m = 0 := by omega
  have h2 : ¬ m < 0 := by omega
  simp [h1, h2]

theorem mem_arange_iff (a b m : Int) (hm : 0 < m) (x : Int) :
    x ∈ (List.range (ceilDiv (b - a) m.toNat).toNat).map (fun (k : Nat) => a + (k : Int) * m)
      ↔ ∃ k : Nat, x = a + (k : Int) * m ∧ x < b := by
  have hmn : 0 < m.toNat := by omega
  have hmm : (m.toNat : Int) = m := by omega
  simp only [List.mem_map, List.mem_range]
  constructor
  · rintro ⟨k, hk, rfl⟩
    refine ⟨k, rfl, ?_⟩
    rw [ceilDiv_toNat_lt_iff _ _ _ hmn] at hk
    push_cast at hk
    rw [hmm] at hk
    omega
  · rintro ⟨k, rfl, hlt⟩
    refine ⟨k, ?_, rfl⟩
    rw [ceilDiv_toNat_lt_iff _ _ _ hmn]
    push_cast
    rw [hmm]
    omega

/-! ### padding -/

theorem padCol_length (p : Nat) (v : Rat) (c : Col) : (padCol p v c).length = c.length + 2 * p := by
  unfold padCol
  split
  · simp; omega
  · have : p = 0 := by omega
    simp [this]

theorem padCol_getElem? (p : Nat) (v : Rat) (c : Col) (j : Nat) :
    (padCol p v c)[j]? =
      if j < p then some v
      else if j < p + c.length then c[j - p]?
      else if j < c.length + 2 * p then some v else none := by
  unfold padCol
  by_cases hp : p > 0
  · simp only [hp, if_true]
    by_cases h1 : j < p
    · rw [if_pos h1, List.append_assoc, List.getElem?_append_left (by simp; exact h1)]
      simp [List.getElem?_replicate, h1]
    · by_cases h2 : j < p + c.length
      · rw [if_neg h1, if_pos h2, List.append_assoc, List.getElem?_append_right (by simp; omega)]
        simp only [List.length_replicate]
        rw [List.getElem?_append_left (by omega)]
      · rw [if_neg h1, if_neg h2, List.append_assoc, List.getElem?_append_right (by simp; omega)]
        simp only [List.length_replicate]
        rw [List.getElem?_append_right (by omega), List.getElem?_replicate]
        by_cases h3 : j < c.length + 2 * p
        · have : j - p - c.length < p := by omega
          simp [h3, this]
        · have : ¬ j - p - c.length < p := by omega
          simp [h3, this]
  · have hp0 : p = 0 := by omega
    subst hp0
    simp only [Nat.lt_irrefl, if_false, Nat.not_lt_zero, Nat.zero_add, Nat.sub_zero, Nat.mul_zero, Nat.add_zero]
    by_cases h : j < c.length
    · simp [h]
    · simp [h]

/-! ### `mapM` in `Except` -/

theorem mapM_ok {α β : Type} (f : α → Except Err β) (g : α → β) (l : List α) (h : ∀ x ∈ l, f x = .ok (g x)) :
    l.mapM f = .ok (l.map g) := by
  induction l with
  | nil => rfl
  | cons x xs ih =>
    rw [List.mapM_cons, h x (by simp), ih (fun y hy => h y (by simp [hy]))]
    rfl

/-! ### windows and sampling -/

/-- the sampled entries of a window, as a specification: the entries at the sample's positions -/
def pick (win : Col) (sample : List Int) : Col := sample.filterMap fun j => win[j.toNat]?

theorem pySlice_eq (c : Col) (a w : Nat) : pySlice c a (a + w) = (c.drop a).take w := by
  unfold pySlice
  have : a + w - a = w := by omega
  rw [this]

theorem pySlice_length (c : Col) (a w : Nat) (h : a + w ≤ c.length) : (pySlice c a (a + w)).length = w := by
  rw [pySlice_eq]; simp; omega

theorem readIdx_ok (win : Col) (j : Int) (h0 : 0 ≤ j) (h1 : j < win.length) :
    ∃ x, win[j.toNat]? = some x ∧ readIdx win j = .ok x := by
  have hlt : j.toNat < win.length := by omega
  refine ⟨win[j.toNat], List.getElem?_eq_getElem hlt, ?_⟩
  unfold readIdx
  have : ¬ j < 0 := by omega
  simp only [this, if_false]
  exact rd_ok hlt

theorem gather_ok (win : Col) (sample : List Int) (h : ∀ j ∈ sample, 0 ≤ j ∧ j < win.length) :
    gather win sample = .ok (pick win sample) ∧ (pick win sample).length = sample.length := by
  unfold gather pick
  induction sample with
  | nil => exact ⟨rfl, rfl⟩
  | cons j rest ih =>
    obtain ⟨x, hx, hr⟩ := readIdx_ok win j (h j (by simp)).1 (h j (by simp)).2
    obtain ⟨h1, h2⟩ := ih (fun k hk => h k (by simp [hk]))
    rw [List.mapM_cons, hr, h1]
    simp only [List.filterMap_cons, hx, List.length_cons, h2]
    exact ⟨rfl, trivial⟩

theorem filterMap_range_getElem? (l : Col) (n : Nat) : (List.range n).filterMap (fun k => l[k]?) = l.take n := by
  induction n with
  | zero => simp
  | succ n ih =>
    rw [List.range_succ, List.filterMap_append, ih, List.take_add_one]
    congr 1

theorem pick_whole (win : Col) (sample : List Int) (w : Nat) (hw : wholeWindow sample w = true)
    (hlen : win.length = w) : pick win sample = win := by
  unfold wholeWindow at hw
  simp only [Bool.and_eq_true, beq_iff_eq] at hw
  unfold pick
  rw [hw.2, List.filterMap_map]
  have : ((fun j : Int => win[j.toNat]?) ∘ fun (k : Nat) => (k : Int)) = fun k => win[k]? := by
    funext k; simp
  rw [this, filterMap_range_getElem?, ← hlen, List.take_length]

theorem wholeWindow_length (sample : List Int) (w : Nat) (hw : wholeWindow sample w = true) :
    sample.length = w := by
  unfold wholeWindow at hw
  simp only [Bool.and_eq_true, beq_iff_eq] at hw
  exact hw.1

/-- the value of output row `i`, as a specification: for every kernel row and every column, the
kernel row applied to the sampled entries of `c[i*s : i*s + w]` -/
def rowSpec (cols : List Col) (w s : Nat) (sample : List Int) (K : Mat) (i : Nat) : List Rat :=
  K.flatMap fun r => cols.map fun c => dot r (pick ((c.drop (i * s)).take w) sample)

theorem rowSpec_length (cols : List Col) (w s : Nat) (sample : List Int) (K : Mat) (i : Nat) :
    (rowSpec cols w s sample K i).length = K.length * cols.length := by
  unfold rowSpec
  induction K with
  | nil => simp
  | cons r rest ih => simp only [List.flatMap_cons, List.length_append, List.length_map, ih, List.length_cons]; rw [Nat.succ_mul]; omega

theorem applyKernel_ok (K : Mat) (wins : List Col) (n : Nat) (hK : ∀ r ∈ K, r.length = n)
    (hw : ∀ c ∈ wins, c.length = n) :
    applyKernel K wins = .ok (K.flatMap fun r => wins.map fun c => dot r c) := by
  unfold applyKernel
  have : (K.any fun r => wins.any fun c => r.length != c.length) = false := by
    rw [List.any_eq_false]
    intro r hr
    simp only [Bool.not_eq_true]
    rw [List.any_eq_false]
    intro c hc
    simp [hK r hr, hw c hc]
  simp [this]

theorem flatMap_congr' {α β : Type} (l : List α) (f g : α → List β) (h : ∀ x ∈ l, f x = g x) :
    l.flatMap f = l.flatMap g := by
  induction l with
  | nil => rfl
  | cons x xs ih => simp only [List.flatMap_cons]; rw [h x (by simp), ih (fun y hy => h y (by simp [hy]))]

theorem windowRow_ok (cols : List Col) (L w s : Nat) (sample : List Int) (K : Mat) (i : Nat)
    (hc : ∀ c ∈ cols, c.length = L) (hi : i * s + w ≤ L)
    (hsamp : ∀ j ∈ sample, 0 ≤ j ∧ j < (w : Int)) (hK : ∀ r ∈ K, r.length = sample.length) :
    windowRow cols w s sample K i = .ok (rowSpec cols w s sample K i) := by
  unfold windowRow rowSpec
  have hlen : ∀ c ∈ cols, (pySlice c (i * s) (i * s + w)).length = w :=
    fun c hcm => pySlice_length c _ _ (by rw [hc c hcm]; exact hi)
  by_cases hw : wholeWindow sample w = true
  · simp only [hw, if_true]
    rw [applyKernel_ok K _ sample.length hK
      (by intro c hcm; obtain ⟨c', hc', rfl⟩ := List.mem_map.mp hcm
          rw [hlen c' hc', wholeWindow_length sample w hw])]
    congr 1
    apply flatMap_congr'
    intro r _
    rw [List.map_map]
    apply List.map_congr_left
    intro c hcm
    simp only [Function.comp]
    rw [← pySlice_eq, pick_whole _ sample w hw (hlen c hcm)]
  · simp only [hw]
    have hg : (cols.map fun c => pySlice c (i * s) (i * s + w)).mapM (fun win => gather win sample)
        = .ok ((cols.map fun c => pySlice c (i * s) (i * s + w)).map fun win => pick win sample) := by
      apply mapM_ok
      intro win hwin
      obtain ⟨c, hcm, rfl⟩ := List.mem_map.mp hwin
      exact (gather_ok _ sample (by intro j hj; rw [hlen c hcm]; exact hsamp j hj)).1
    simp only [Bool.false_eq_true, if_false, hg, bind, Except.bind]
    rw [applyKernel_ok K _ sample.length hK
      (by intro x hx
          simp only [List.map_map, List.mem_map, Function.comp] at hx
          obtain ⟨c, hcm, rfl⟩ := hx
          exact (gather_ok _ sample (by intro j hj; rw [hlen c hcm]; exact hsamp j hj)).2)]
    congr 1
    apply flatMap_congr'
    intro r _
    simp only [List.map_map]
    apply List.map_congr_left
    intro c _
    simp only [Function.comp]
    rw [pySlice_eq]

/-! ### filling the result buffer -/

theorem fillLoop_ok (f : Nat → Except Err (List Rat)) (r : Nat → List Rat) (ncols : Nat) :
    ∀ (fuel i : Nat) (buf : Buf), buf.length = i + fuel →
      (∀ j, i ≤ j → j < i + fuel → f j = .ok (r j) ∧ (r j).length = ncols) →
      fillLoop f ncols fuel i buf = .ok (buf.take i ++ (List.range' i fuel).map fun j => (r j).map some) := by
  intro fuel
  induction fuel with
  | zero => intro i buf hl _; simp [fillLoop]; rw [List.take_of_length_le (by omega)]
  | succ fuel ih =>
    intro i buf hl hf
    obtain ⟨h1, h2⟩ := hf i (Nat.le_refl _) (by omega)
    unfold fillLoop
    simp only [h1, bind, Except.bind]
    have hw : writeRow buf ncols i (r i) = .ok (buf.set i ((r i).map some)) := by
      unfold writeRow
      have : i < buf.length := by omega
      simp [this, h2]
    simp only [hw]
    rw [ih (i + 1) _ (by simp; omega) (fun j hj1 hj2 => hf j (by omega) (by omega))]
    congr 1
    rw [List.range'_succ, List.map_cons, List.take_add_one]
    have : (buf.set i ((r i).map some))[i]? = some ((r i).map some) := by
      rw [List.getElem?_set_self (by omega)]
    rw [this, List.take_set_of_le (Nat.le_refl _)]
    simp

/-! ### `sliding_windows` as a whole -/

theorem in_range_of_lt_nWindows (L w s i : Nat) (hs : 0 < s) (hi : i < nWindows L w s) : i * s + w ≤ L := by
  unfold nWindows at hi
  rw [lt_ceil_iff _ _ _ hs] at hi
  omega

theorem lt_nWindows_of_in_range (L w s i : Nat) (hs : 0 < s) (hi : i * s + w ≤ L) : i < nWindows L w s := by
  unfold nWindows
  rw [lt_ceil_iff _ _ _ hs]
  omega

theorem slidingWindows_ok (cols : List Col) (L w s : Nat) (sample : List Int) (K : Mat) (ncols p : Nat) (v : Rat)
    (hs : 0 < s) (hc : ∀ c ∈ cols, c.length = L) (hw : w ≤ L + 2 * p + 1)
    (hsamp : ∀ j ∈ sample, 0 ≤ j ∧ j < (w : Int)) (hK : ∀ r ∈ K, r.length = sample.length)
    (hn : ncols = K.length * cols.length) :
    slidingWindows cols L w s sample K ncols p v =
      .ok ((List.range (nWindows (L + 2 * p) w s)).map fun i =>
        (rowSpec (cols.map (padCol p v)) w s sample K i).map some) := by
  unfold slidingWindows
  have hL : (if p > 0 then 2 * p + L else L) = L + 2 * p := by split <;> omega
  simp only [hL]
  rw [nRows_eq _ _ _ hs hw]
  simp only [bind, Except.bind]
  have hc' : ∀ c ∈ cols.map (padCol p v), c.length = L + 2 * p := by
    intro c hcm
    obtain ⟨c0, hc0, rfl⟩ := List.mem_map.mp hcm
    rw [padCol_length, hc c0 hc0]
  rw [fillLoop_ok _ (rowSpec (cols.map (padCol p v)) w s sample K) ncols (nWindows (L + 2 * p) w s) 0 _
    (by simp)
    (by
      intro j _ hj
      refine ⟨windowRow_ok _ (L + 2 * p) w s sample K j hc'
        (in_range_of_lt_nWindows _ _ _ _ hs (by omega)) hsamp hK, ?_⟩
      rw [rowSpec_length, hn]; simp)]
  simp [List.range_eq_range']

/-! ### dot products with the rows of the difference kernel -/

theorem dot_nil_left (v : List Rat) : dot [] v = 0 := by cases v <;> rfl

theorem dot_replicate_zero (n : Nat) (v : List Rat) : dot (List.replicate n 0) v = 0 := by
  induction n generalizing v with
  | zero => exact dot_nil_left v
  | succ n ih =>
    cases v with
    | nil => rfl
    | cons x xs => simp [List.replicate_succ, dot, ih]

theorem dot_set (l v : List Rat) (a : Nat) (y : Rat) (x : Rat) (ha : a < l.length) (hv : v[a]? = some x) :
    dot (l.set a y) v = dot l v + (y - l[a]) * x := by
  induction l generalizing v a with
  | nil => simp at ha
  | cons l0 ls ih =>
    cases v with
    | nil => simp at hv
    | cons v0 vs =>
      cases a with
      | zero =>
        simp only [List.getElem?_cons_zero, Option.some.injEq] at hv
        subst hv
        simp only [List.set_cons_zero, dot, List.getElem_cons_zero]
        ring
      | succ a =>
        simp only [List.getElem?_cons_succ] at hv
        simp only [List.set_cons_succ, dot, List.getElem_cons_succ]
        rw [ih vs a (by simpa using ha) hv]
        ring

/-- the row `-1` at `a`, `+1` at `b` computes `v[b] - v[a]` -/
theorem dot_diff_row (n a b : Nat) (v : List Rat) (x y : Rat) (hab : a ≠ b) (ha : a < n) (hb : b < n)
    (hx : v[a]? = some x) (hy : v[b]? = some y) :
    dot (((List.replicate n (0 : Rat)).set a (-1)).set b 1) v = y - x := by
  rw [dot_set _ v b 1 y (by simp; exact hb) hy, dot_set _ v a (-1) x (by simp; exact ha) hx, dot_replicate_zero]
  have : ((List.replicate n (0 : Rat)).set a (-1))[b]'(by simp; exact hb) = 0 := by
    rw [List.getElem_set_ne hab]; simp
  rw [this]
  simp
  ring

/-! ### the difference kernel -/

/-- row `i` of the difference kernel: `-1` at `start + i*stride`, `+1` at `start + i*stride + step` -/
def diffRow (n start step stride i : Nat) : List Rat :=
  ((List.replicate n (0 : Rat)).set (start + i * stride) (-1)).set (start + i * stride + step) 1

theorem lt_nDiff_iff (n start step stride i : Nat) (hs : 0 < stride) :
    i < (nDiff n start step stride).toNat ↔ start + i * stride + step < n := by
  unfold nDiff
  rw [ceilDiv_toNat_lt_iff _ _ _ hs]
  push_cast
  omega

theorem differenceKernel_ok (n start step stride : Nat) (hs : 0 < stride) (hle : start + step ≤ n) :
    differenceKernel n start step stride
      = .ok ((List.range (nDiff n start step stride).toNat).map (diffRow n start step stride)) := by
  unfold differenceKernel
  have h0 : ¬ stride = 0 := by omega
  have hnn : ¬ nDiff n start step stride < 0 := by
    have := ceilDiv_nonneg_of_nonneg ((n : Int) - start - step) stride (by omega)
    unfold nDiff; omega
  simp only [h0, hnn, if_false]
  apply mapM_ok
  intro i hi
  rw [List.mem_range, lt_nDiff_iff _ _ _ _ _ hs] at hi
  unfold setChecked diffRow
  have h1 : start + i * stride < (List.replicate n (0 : Rat)).length := by simp; omega
  simp only [h1, if_true, bind, Except.bind]
  have h2 : start + i * stride + step < ((List.replicate n (0 : Rat)).set (start + i * stride) (-1)).length := by
    simp; omega
  simp only [h2, if_true]

/-! ### `K @ I = K` -/

theorem dot_comm (a b : List Rat) : dot a b = dot b a := by
  induction a generalizing b with
  | nil => cases b <;> rfl
  | cons x xs ih =>
    cases b with
    | nil => rfl
    | cons y ys => simp only [dot, ih ys]; ring

def unit (k j : Nat) : List Rat := (List.replicate k (0 : Rat)).set j 1

theorem eye_eq (k : Nat) : eye k = (List.range k).map (unit k) := rfl

theorem dot_unit (r : List Rat) (k j : Nat) (x : Rat) (hj : j < k) (hx : r[j]? = some x) : dot r (unit k j) = x := by
  rw [dot_comm]
  unfold unit
  rw [dot_set _ r j 1 x (by simp; exact hj) hx, dot_replicate_zero]
  simp

theorem unit_getElem? (k i j : Nat) (hi : i < k) (hj : j < k) :
    (unit k i)[j]? = some (if i = j then 1 else 0) := by
  unfold unit
  by_cases h : i = j
  · subst h; simp [hi]
  · rw [List.getElem?_set_ne h]; simp [h, hj]

theorem transposeN_eye (k : Nat) : transposeN k (eye k) = .ok (eye k) := by
  unfold transposeN
  have hcol : ∀ j ∈ List.range k, (eye k).mapM (fun row => rd "kernel row" row j) = .ok (unit k j) := by
    intro j hj
    rw [List.mem_range] at hj
    rw [mapM_ok _ (fun row => (row[j]?).getD 0) (eye k)]
    · congr 1
      rw [eye_eq, List.map_map]
      apply List.ext_getElem?
      intro i
      by_cases hi : i < k
      · rw [List.getElem?_map, List.getElem?_range hi, unit_getElem? k j i hj hi]
        simp only [Option.map_some, Function.comp, unit_getElem? k i j hi hj, Option.getD_some]
        by_cases h : i = j
        · simp [h]
        · have : ¬ j = i := fun e => h e.symm
          simp [h, this]
      · rw [List.getElem?_eq_none (by simp; omega), List.getElem?_eq_none (by simp [unit]; omega)]
    · intro row hrow
      rw [eye_eq] at hrow
      obtain ⟨i, hi, rfl⟩ := List.mem_map.mp hrow
      rw [List.mem_range] at hi
      unfold rd
      rw [unit_getElem? k i j hi hj]; rfl
  rw [mapM_ok _ (unit k) (List.range k) hcol]
  rfl

theorem matMul_eye (M : Mat) (k : Nat) (hM : ∀ r ∈ M, r.length = k) : matMul M (eye k) k = .ok M := by
  unfold matMul
  have : (M.any fun r => r.length != (eye k).length) = false := by
    rw [List.any_eq_false]
    intro r hr
    simp [hM r hr, eye]
  simp only [this, Bool.false_eq_true, if_false, transposeN_eye, bind, Except.bind, pure, Except.pure]
  congr 1
  conv => rhs; rw [← List.map_id M]
  apply List.map_congr_left
  intro r hr
  simp only [id]
  rw [eye_eq, List.map_map]
  apply List.ext_getElem?
  intro j
  by_cases hj : j < k
  · rw [List.getElem?_map, List.getElem?_range hj]
    have hjr : j < r.length := by rw [hM r hr]; exact hj
    simp only [Option.map_some, Function.comp]
    rw [dot_unit r k j r[j] hj (List.getElem?_eq_getElem hjr), List.getElem?_eq_getElem hjr]
  · rw [List.getElem?_eq_none (by simp; omega), List.getElem?_eq_none (by rw [hM r hr]; omega)]

/-- a single 2-d kernel on the identity: `build_matrix_kernel([spec], k)` is the kernel's own matrix -/
theorem buildKernel_differences (k start step stride : Nat) (hs : 0 < stride) (hle : start + step ≤ k) :
    buildKernel [.differences start step stride] k
      = .ok ((List.range (nDiff k start step stride).toNat).map (diffRow k start step stride)) := by
  unfold buildKernel
  simp only [List.foldlM_cons, List.foldlM_nil, KRes.shape0, eye, List.length_map, List.length_range,
    kernelArray, differenceKernel_ok k start step stride hs hle, Except.map, bind, Except.bind, applyTo]
  have hrows : ∀ r ∈ (List.range (nDiff k start step stride).toNat).map (diffRow k start step stride), r.length = k := by
    intro r hr
    obtain ⟨i, _, rfl⟩ := List.mem_map.mp hr
    simp [diffRow]
  have := matMul_eye _ k hrows
  rw [eye_eq] at this
  unfold unit at this
  simp only [this]
  rfl

theorem filterMap_congr' {α β : Type} (l : List α) (f g : α → Option β) (h : ∀ x ∈ l, f x = g x) :
    l.filterMap f = l.filterMap g := by
  induction l with
  | nil => rfl
  | cons x xs ih =>
    simp only [List.filterMap_cons]
    rw [h x (by simp), ih (fun y hy => h y (by simp [hy]))]

/-! ### the shape of the matrix `build_matrix_kernel` returns -/

theorem mapM_length {α β : Type} (f : α → Except Err β) (l : List α) (r : List β) (h : l.mapM f = .ok r) :
    r.length = l.length := by
  induction l generalizing r with
  | nil => simp [List.mapM_nil, pure, Except.pure] at h; subst h; rfl
  | cons x xs ih =>
    rw [List.mapM_cons] at h
    cases hx : f x with
    | error e => simp [hx, bind, Except.bind] at h
    | ok y =>
      cases hxs : xs.mapM f with
      | error e => simp [hx, hxs, bind, Except.bind] at h
      | ok ys =>
        simp [hx, hxs, bind, Except.bind, pure, Except.pure] at h
        subst h
        simp [ih ys hxs]

theorem transposeN_length (n : Nat) (B Bt : Mat) (h : transposeN n B = .ok Bt) : Bt.length = n := by
  unfold transposeN at h
  have := mapM_length _ _ _ h
  simpa using this

/-- no `average` kernel except in the last position (an `average` produces a 1-d array, after
which `build_matrix_kernel` no longer returns a matrix over the sampled entries) -/
def avgLast : List KSpec → Bool
  | [] => true
  | [_] => true
  | .average :: _ :: _ => false
  | _ :: rest => avgLast rest

/-- 2-d result with `k` columns per row -/
def MatK (k : Nat) : KRes → Prop
  | .mat rows n => n = k ∧ ∀ r ∈ rows, r.length = k
  | .vec _ => False

theorem applyTo_mat_shape (A : Mat) (na : Nat) (B : Mat) (k : Nat) (res : KRes) (hB : MatK k (.mat B k))
    (h : applyTo (.mat A na) (.mat B k) = .ok res) : MatK k res := by
  unfold applyTo at h
  simp only [Except.map] at h
  cases hm : matMul A B k with
  | error e => simp [hm] at h
  | ok M =>
    simp only [hm, Except.ok.injEq] at h
    subst h
    refine ⟨rfl, ?_⟩
    unfold matMul at hm
    split at hm
    · simp [throw, throwThe, MonadExceptOf.throw, bind, Except.bind] at hm
    · cases ht : transposeN k B with
      | error e => simp [ht, bind, Except.bind] at hm
      | ok Bt =>
        simp only [ht, bind, Except.bind, pure, Except.pure, Except.ok.injEq] at hm
        subst hm
        intro r hr
        obtain ⟨r0, _, rfl⟩ := List.mem_map.mp hr
        simp [transposeN_length k B Bt ht]

theorem kernelArray_not_avg (n : Nat) (spec : KSpec) (hs : spec ≠ .average) (K : KRes)
    (h : kernelArray n spec = .ok K) : ∃ A na, K = .mat A na := by
  cases spec with
  | average => exact absurd rfl hs
  | differences a st sd =>
    simp only [kernelArray, Except.map] at h
    cases hd : differenceKernel n a st sd with
    | error e => simp [hd] at h
    | ok m => simp only [hd, Except.ok.injEq] at h; exact ⟨m, n, h.symm⟩
  | weight w =>
    simp only [kernelArray] at h
    split at h
    · simp at h
    · simp only [Except.ok.injEq] at h; exact ⟨_, _, h.symm⟩
  | matrix m =>
    simp only [kernelArray] at h
    split at h
    · simp at h
    · simp only [Except.ok.injEq] at h; exact ⟨_, _, h.symm⟩

theorem buildKernel_shape (ks : List KSpec) (k : Nat) (K : Mat) (hav : avgLast ks = true)
    (h : buildKernel ks k = .ok K) : ∀ r ∈ K, r.length = k := by
  unfold buildKernel at h
  -- generalise the starting matrix
  suffices H : ∀ (ks : List KSpec) (B : Mat), avgLast ks = true → (∀ r ∈ B, r.length = k) →
      ∀ K, (do
        let res ← ks.foldlM (fun (res : KRes) spec => do
            let K ← kernelArray res.shape0 spec
            applyTo K res) (KRes.mat B k)
        match res with
        | .mat rows _ => pure rows
        | .vec v => pure [v]) = Except.ok K → ∀ r ∈ K, r.length = k by
    exact H ks (eye k) hav (by intro r hr; obtain ⟨i, _, rfl⟩ := List.mem_map.mp hr; simp) K h
  intro ks
  induction ks with
  | nil =>
    intro B _ hB K hK
    simp only [List.foldlM_nil, bind, Except.bind, pure, Except.pure, Except.ok.injEq] at hK
    subst hK; exact hB
  | cons spec rest ih =>
    intro B hav hB K hK
    rw [List.foldlM_cons] at hK
    cases hka : kernelArray (KRes.mat B k).shape0 spec with
    | error e => simp [hka, bind, Except.bind] at hK
    | ok Ka =>
      cases hap : applyTo Ka (KRes.mat B k) with
      | error e => simp [hka, hap, bind, Except.bind] at hK
      | ok res =>
        simp only [hka, hap, bind, Except.bind] at hK
        by_cases hs : spec = .average
        · -- `average` must be last
          subst hs
          cases rest with
          | cons _ _ => simp [avgLast] at hav
          | nil =>
            simp only [kernelArray] at hka
            split at hka
            · simp at hka
            · simp only [Except.ok.injEq] at hka
              subst hka
              simp only [applyTo] at hap
              split at hap
              · simp at hap
              · cases ht : transposeN k B with
                | error e => simp [ht, Except.map] at hap
                | ok Bt =>
                  simp only [ht, Except.map, Except.ok.injEq] at hap
                  subst hap
                  simp only [List.foldlM_nil, pure, Except.pure, Except.ok.injEq] at hK
                  subst hK
                  intro r hr
                  simp at hr; subst hr
                  simp [transposeN_length k B Bt ht]
        · obtain ⟨A, na, rfl⟩ := kernelArray_not_avg _ spec hs Ka hka
          have hshape := applyTo_mat_shape A na B k res ⟨rfl, hB⟩ hap
          cases res with
          | vec v => exact absurd hshape (by simp [MatK])
          | mat rows n =>
            obtain ⟨hn, hrows⟩ := hshape
            subst hn
            have hav' : avgLast rest = true := by
              cases rest with
              | nil => rfl
              | cons s2 r2 =>
                cases spec <;> simp_all [avgLast]
            exact ih rows hav' hrows K hK

/-! ### no kernels: the identity matrix passes the sampled entries through -/

theorem buildKernel_nil (k : Nat) : buildKernel [] k = .ok (eye k) := rfl

theorem filterMap_eq_map_of_some {α β : Type} (l : List α) (f : α → Option β) (g : α → β)
    (h : ∀ x ∈ l, f x = some (g x)) : l.filterMap f = l.map g := by
  induction l with
  | nil => rfl
  | cons x xs ih =>
    simp only [List.filterMap_cons, h x (by simp), List.map_cons]
    rw [ih (fun y hy => h y (by simp [hy]))]

theorem rowSpec_eye (cols : List Col) (w s i : Nat) (idx : List Int)
    (hlen : ∀ c ∈ cols, (pick ((c.drop (i * s)).take w) idx).length = idx.length) :
    rowSpec cols w s idx (eye idx.length) i =
      (List.range idx.length).flatMap fun j => cols.filterMap fun c => (pick ((c.drop (i * s)).take w) idx)[j]? := by
  unfold rowSpec
  rw [eye_eq, List.flatMap_map]
  apply flatMap_congr'
  intro j hj
  rw [List.mem_range] at hj
  symm
  apply filterMap_eq_map_of_some
  intro c hc
  have hjl : j < (pick ((c.drop (i * s)).take w) idx).length := by rw [hlen c hc]; exact hj
  rw [List.getElem?_eq_getElem hjl, dot_comm, dot_unit _ idx.length j _ hj (List.getElem?_eq_getElem hjl)]

end VecModel.Sliding
