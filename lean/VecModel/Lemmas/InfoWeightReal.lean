import VecModel.Lemmas.RealAnalytic
import VecModel.Lemmas.InfoWeight
import Mathlib.Tactic.Linarith
import Mathlib.Tactic.Ring
import Mathlib.Tactic.FieldSimp
import Mathlib.Algebra.Order.BigOperators.Group.List
/-
  Helper lemmas for C17 over ℝ: the exact-prior kernel computes the KL divergence of the
  posterior from the baseline; Gibbs' inequality.
-/
namespace VecModel.IW
open Analytic

/-- dense value of a column at row `i` (sum over the stored entries with that row) -/
noncomputable def cval (l : List (Nat × ℝ)) (i : Nat) : ℝ :=
  (l.map (fun p => if p.1 = i then p.2 else 0)).sum

/-- `Σ_{i < n} f i` -/
noncomputable def rsum (n : Nat) (f : Nat → ℝ) : ℝ := ((List.range n).map f).sum

/-- posterior of a column: counts plus `s` times the baseline, normalised -/
noncomputable def posterior (idx : List Nat) (data base : List ℝ) (s : ℝ) (i : Nat) : ℝ :=
  (cval (List.zip idx data) i + s * base.getD i 0) / (data.sum + s)

noncomputable def klTerm (p q : ℝ) : ℝ := p * Real.log (p / q)

/-- `KL(p ‖ q) = Σ_{i<n} p_i log (p_i / q_i)` (with `0 log 0 = 0`, which is how `Real.log` and `/`
behave at 0) -/
noncomputable def klDiv (n : Nat) (p q : Nat → ℝ) : ℝ := rsum n (fun i => klTerm (p i) (q i))

theorem rsum_succ (n : Nat) (f : Nat → ℝ) : rsum (n + 1) f = rsum n f + f n := by
  simp [rsum, List.range_succ]

theorem cval_nil (i : Nat) : cval [] i = 0 := by simp [cval]
theorem cval_cons (p : Nat × ℝ) (l : List (Nat × ℝ)) (i : Nat) :
    cval (p :: l) i = (if p.1 = i then p.2 else 0) + cval l i := by simp [cval]

theorem cval_of_not_mem (idx : List Nat) (data : List ℝ) (i : Nat) (h : i ∉ idx) :
    cval (List.zip idx data) i = 0 := by
  induction idx generalizing data with
  | nil => simp [cval]
  | cons j idx ih =>
    cases data with
    | nil => simp [cval]
    | cons d data =>
      simp only [List.mem_cons, not_or] at h
      rw [List.zip_cons_cons, cval_cons, if_neg (fun e => h.1 e.symm), ih data h.2]; ring

theorem cval_getElem (idx : List Nat) (data : List ℝ) (hlen : data.length = idx.length)
    (hs : StrictInc idx) (k : Nat) (hk : k < idx.length) :
    cval (List.zip idx data) idx[k] = data[k]'(by omega) := by
  induction idx generalizing data k with
  | nil => simp at hk
  | cons j idx ih =>
    cases data with
    | nil => simp at hlen
    | cons d data =>
      obtain ⟨h1, h2⟩ := List.pairwise_cons.mp hs
      rw [List.zip_cons_cons, cval_cons]
      cases k with
      | zero =>
        simp only [List.getElem_cons_zero, if_true]
        rw [cval_of_not_mem idx data j (fun hm => by have := h1 j hm; omega)]; ring
      | succ k =>
        simp only [List.getElem_cons_succ]
        have hk' : k < idx.length := by simpa using hk
        have hne : j ≠ idx[k] := by have := h1 idx[k] (List.getElem_mem hk'); omega
        rw [if_neg hne, ih data (by simpa using hlen) h2 k hk']; ring

theorem cval_nonneg (l : List (Nat × ℝ)) (h : ∀ p ∈ l, 0 ≤ p.2) (i : Nat) : 0 ≤ cval l i := by
  unfold cval
  apply List.sum_nonneg
  intro x hx
  obtain ⟨p, hp, rfl⟩ := List.mem_map.mp hx
  split
  · exact h p hp
  · exact le_refl 0


theorem getD_eq_getElem (l : List ℝ) (i : Nat) (h : i < l.length) : l.getD i 0 = l[i] := by
  simp [List.getD, h]

/-- one iteration of the exact-prior kernel adds the KL term of row `i` -/
theorem exactStep_eq (idx : List Nat) (data base : List ℝ) (s : ℝ)
    (hlen : data.length = idx.length) (hs : StrictInc idx) (hs0 : 0 < s)
    (hd : ∀ c ∈ data, 0 ≤ c) (hb : ∀ b ∈ base, 0 ≤ b)
    (hcons : ∀ k (h : k < idx.length), 0 < data[k]'(by omega) → 0 < base.getD idx[k] 0)
    (i : Nat) (hi : i < base.length) (result : ℝ) :
    exactStep idx data base s (data.sum + s) (s / (data.sum + s) * Real.log (s / (data.sum + s)))
        result i
      = .ok (result + klTerm (posterior idx data base s i) (base.getD i 0)) := by
  have hN : 0 ≤ data.sum := List.sum_nonneg hd
  have hnorm : 0 < data.sum + s := by linarith
  have hbi : 0 ≤ base[i] := hb _ (List.getElem_mem hi)
  unfold exactStep
  by_cases hm : i ∈ idx
  · rw [if_pos (by simpa using hm)]
    obtain ⟨k, hk, rfl⟩ := List.mem_iff_getElem.mp hm
    have hkd : k < data.length := by omega
    rw [searchsorted_getElem idx hs k hk]
    simp only [bind, Except.bind]
    rw [rd_ok hkd, rd_ok hi]
    simp only []
    rw [div_real (ne_of_gt hnorm)]
    simp only []
    have hc : 0 ≤ data[k] := hd _ (List.getElem_mem hkd)
    have hpost : posterior idx data base s idx[k] = (data[k] + s * base[idx[k]]) / (data.sum + s) := by
      unfold posterior
      rw [cval_getElem idx data hlen hs k hk, getD_eq_getElem base _ hi]
    rw [hpost, getD_eq_getElem base _ hi]
    have hop : 0 ≤ (data[k] + s * base[idx[k]]) / (data.sum + s) :=
      div_nonneg (by nlinarith) (le_of_lt hnorm)
    by_cases hpos : 0 < (data[k] + s * base[idx[k]]) / (data.sum + s)
    · rw [if_pos (ltb_real.mpr hpos)]
      have hbpos : 0 < base[idx[k]] := by
        rcases lt_or_eq_of_le hbi with h | h
        · exact h
        · exfalso
          have hnum : 0 < data[k] + s * base[idx[k]] := by
            by_contra hn
            have : (data[k] + s * base[idx[k]]) / (data.sum + s) ≤ 0 :=
              div_nonpos_of_nonpos_of_nonneg (not_lt.mp hn) (le_of_lt hnorm)
            linarith
          rw [← h] at hnum
          have hcpos : 0 < data[k] := by linarith
          have := hcons k hk hcpos
          rw [getD_eq_getElem base _ hi, ← h] at this
          exact lt_irrefl _ this
      rw [div_real (ne_of_gt hbpos)]
      simp only []
      rw [log_real (div_pos hpos hbpos)]
      simp only [pure, Except.pure, klTerm]
    · rw [if_neg (fun h => hpos (ltb_real.mp h))]
      have hz : (data[k] + s * base[idx[k]]) / (data.sum + s) = 0 := le_antisymm (not_lt.mp hpos) hop
      simp only [pure, Except.pure, klTerm, hz]
      simp
  · rw [if_neg (by simpa using hm)]
    simp only [bind, Except.bind]
    rw [rd_ok hi]
    simp only [pure, Except.pure]
    have hpost : posterior idx data base s i = s * base[i] / (data.sum + s) := by
      unfold posterior
      rw [cval_of_not_mem idx data i hm, getD_eq_getElem base _ hi]; ring
    rw [hpost, getD_eq_getElem base _ hi]
    congr 1
    unfold klTerm
    by_cases hb0 : base[i] = 0
    · rw [hb0]; simp
    · have : s * base[i] / (data.sum + s) / base[i] = s / (data.sum + s) := by
        field_simp
      rw [this]; ring


theorem exactLoop_eq (idx : List Nat) (data base : List ℝ) (s : ℝ)
    (hlen : data.length = idx.length) (hs : StrictInc idx) (hs0 : 0 < s)
    (hd : ∀ c ∈ data, 0 ≤ c) (hb : ∀ b ∈ base, 0 ≤ b)
    (hcons : ∀ k (h : k < idx.length), 0 < data[k]'(by omega) → 0 < base.getD idx[k] 0) :
    ∀ (l : List Nat) (result : ℝ), (∀ i ∈ l, i < base.length) →
      exactLoop idx data base s (data.sum + s)
          (s / (data.sum + s) * Real.log (s / (data.sum + s))) l result
        = .ok (result + (l.map (fun i => klTerm (posterior idx data base s i) (base.getD i 0))).sum) := by
  intro l
  induction l with
  | nil => intro result _; simp [exactLoop]
  | cons i l ih =>
    intro result hl
    unfold exactLoop
    rw [exactStep_eq idx data base s hlen hs hs0 hd hb hcons i (hl i (by simp)) result]
    simp only [bind, Except.bind]
    rw [ih _ (fun j hj => hl j (by simp [hj]))]
    simp only [List.map_cons, List.sum_cons]
    congr 1; ring

theorem zeroConst_real (data : List ℝ) (s : ℝ) (hs0 : 0 < s) (hd : ∀ c ∈ data, 0 ≤ c) :
    zeroConst data s
      = .ok (data.sum + s, s / (data.sum + s) * Real.log (s / (data.sum + s))) := by
  have hN : 0 ≤ data.sum := List.sum_nonneg hd
  have hnorm : 0 < data.sum + s := by linarith
  unfold zeroConst
  rw [fsum_eq_sum]
  simp only []
  rw [div_real (ne_of_gt hnorm)]
  simp only [bind, Except.bind]
  rw [log_real (div_pos hs0 hnorm)]
  rfl

/-- Gibbs' inequality, termwise: `p log (p / q) ≥ p − q` for `p ≥ 0`, `q ≥ 0`, `p > 0 → q > 0` -/
theorem klTerm_ge (p q : ℝ) (hp : 0 ≤ p) (hq : 0 ≤ q) (hpq : 0 < p → 0 < q) :
    p - q ≤ klTerm p q := by
  unfold klTerm
  rcases lt_or_eq_of_le hp with hp' | hp'
  · have hq' := hpq hp'
    have h1 : Real.log (q / p) ≤ q / p - 1 := Real.log_le_sub_one_of_pos (div_pos hq' hp')
    have h2 : Real.log (p / q) = - Real.log (q / p) := by
      rw [← Real.log_inv, inv_div]
    rw [h2]
    have h3 : p * (q / p - 1) = q - p := by field_simp
    nlinarith
  · rw [← hp']; simp; exact hq

theorem rsum_le_rsum (n : Nat) (f g : Nat → ℝ) (h : ∀ i < n, f i ≤ g i) : rsum n f ≤ rsum n g := by
  induction n with
  | zero => simp [rsum]
  | succ n ih =>
    rw [rsum_succ, rsum_succ]
    have := ih (fun i hi => h i (by omega))
    have := h n (by omega)
    linarith

theorem rsum_sub (n : Nat) (f g : Nat → ℝ) : rsum n (fun i => f i - g i) = rsum n f - rsum n g := by
  induction n with
  | zero => simp [rsum]
  | succ n ih => rw [rsum_succ, rsum_succ, rsum_succ, ih]; ring

/-- Gibbs' inequality -/
theorem klDiv_nonneg (n : Nat) (p q : Nat → ℝ) (hp : ∀ i < n, 0 ≤ p i) (hq : ∀ i < n, 0 ≤ q i)
    (hpq : ∀ i < n, 0 < p i → 0 < q i) (hsum : rsum n q ≤ rsum n p) : 0 ≤ klDiv n p q := by
  unfold klDiv
  have h := rsum_le_rsum n (fun i => p i - q i) (fun i => klTerm (p i) (q i))
    (fun i hi => klTerm_ge (p i) (q i) (hp i hi) (hq i hi) (hpq i hi))
  rw [rsum_sub] at h
  linarith


theorem klExact_eq (idx : List Nat) (data base : List ℝ) (s : ℝ)
    (hlen : data.length = idx.length) (hs : StrictInc idx) (hs0 : 0 < s)
    (hd : ∀ c ∈ data, 0 ≤ c) (hb : ∀ b ∈ base, 0 ≤ b)
    (hcons : ∀ k (h : k < idx.length), 0 < data[k]'(by omega) → 0 < base.getD idx[k] 0) :
    klExact idx data base s
      = .ok (klDiv base.length (posterior idx data base s) (fun i => base.getD i 0)) := by
  unfold klExact
  rw [zeroConst_real data s hs0 hd]
  simp only [bind, Except.bind]
  rw [exactLoop_eq idx data base s hlen hs hs0 hd hb hcons _ 0 (fun i hi => by simpa using hi)]
  simp [klDiv, rsum]

theorem rsum_add (n : Nat) (f g : Nat → ℝ) : rsum n (fun i => f i + g i) = rsum n f + rsum n g := by
  induction n with
  | zero => simp [rsum]
  | succ n ih => rw [rsum_succ, rsum_succ, rsum_succ, ih]; ring

theorem rsum_mul_left (n : Nat) (c : ℝ) (f : Nat → ℝ) : rsum n (fun i => c * f i) = c * rsum n f := by
  induction n with
  | zero => simp [rsum]
  | succ n ih => rw [rsum_succ, rsum_succ, ih]; ring

theorem rsum_div (n : Nat) (c : ℝ) (f : Nat → ℝ) : rsum n (fun i => f i / c) = rsum n f / c := by
  induction n with
  | zero => simp [rsum]
  | succ n ih => rw [rsum_succ, rsum_succ, ih]; ring

theorem rsum_ite (n j : Nat) (v : ℝ) (h : j < n) : rsum n (fun i => if j = i then v else 0) = v := by
  induction n with
  | zero => omega
  | succ n ih =>
    rw [rsum_succ]
    by_cases hj : j = n
    · subst hj
      have : rsum j (fun i => if j = i then v else 0) = 0 := by
        have := rsum_le_rsum j (fun i => if j = i then v else 0) (fun _ => 0)
          (fun i hi => by rw [if_neg (by omega)])
        have h2 := rsum_le_rsum j (fun _ => 0) (fun i => if j = i then v else 0)
          (fun i hi => by rw [if_neg (by omega)])
        have h0 : rsum j (fun _ => (0 : ℝ)) = 0 := by
          have := rsum_mul_left j 0 (fun _ => 0); simpa using this
        linarith
      rw [this]; simp
    · rw [ih (by omega), if_neg hj]; ring

theorem rsum_cval (n : Nat) (l : List (Nat × ℝ)) (h : ∀ p ∈ l, p.1 < n) :
    rsum n (cval l) = (l.map (·.2)).sum := by
  induction l with
  | nil =>
    have := rsum_mul_left n 0 (fun _ => 0)
    simp only [List.map_nil, List.sum_nil]
    show rsum n (fun i => cval [] i) = 0
    simp only [cval_nil]
    simpa using this
  | cons p l ih =>
    have : cval (p :: l) = fun i => (if p.1 = i then p.2 else 0) + cval l i := by
      funext i; exact cval_cons p l i
    rw [this, rsum_add, rsum_ite n p.1 p.2 (h p (by simp)), ih (fun q hq => h q (by simp [hq]))]
    simp

theorem rsum_getD (l : List ℝ) : rsum l.length (fun i => l.getD i 0) = l.sum := by
  unfold rsum
  congr 1
  apply List.ext_getElem
  · simp
  · intro i h1 h2
    simp only [List.getElem_map, List.getElem_range]
    exact getD_eq_getElem l i h2

/-- the posterior of a column is a probability vector when the baseline is one -/
theorem rsum_posterior (idx : List Nat) (data base : List ℝ) (s : ℝ)
    (hlen : data.length = idx.length) (hidx : ∀ i ∈ idx, i < base.length) :
    rsum base.length (posterior idx data base s) = (data.sum + s * base.sum) / (data.sum + s) := by
  have : posterior idx data base s
      = fun i => (cval (List.zip idx data) i + s * base.getD i 0) / (data.sum + s) := rfl
  rw [this, rsum_div, rsum_add, rsum_mul_left, rsum_getD, rsum_cval]
  · rw [List.map_snd_zip (by omega)]
  · intro p hp
    exact hidx p.1 (List.of_mem_zip hp).1


/-! ### mapM in `Except` -/

theorem mapM_ok_of_forall {α β : Type} (f : α → Except Err β) (g : α → β) (l : List α)
    (h : ∀ a ∈ l, f a = .ok (g a)) : l.mapM f = .ok (l.map g) := by
  induction l with
  | nil => rfl
  | cons a l ih =>
    rw [List.mapM_cons, h a (by simp), ih (fun b hb => h b (by simp [hb]))]
    rfl

theorem mapM_ok_mem {α β : Type} (f : α → Except Err β) (l : List α) (r : List β)
    (h : l.mapM f = .ok r) : ∀ b ∈ r, ∃ a ∈ l, f a = .ok b := by
  induction l generalizing r with
  | nil =>
    simp only [List.mapM_nil, pure, Except.pure] at h
    cases h; intro b hb; cases hb
  | cons a l ih =>
    rw [List.mapM_cons] at h
    cases hfa : f a with
    | error e => rw [hfa] at h; cases h
    | ok b0 =>
      rw [hfa] at h
      cases hl : l.mapM f with
      | error e => rw [hl] at h; cases h
      | ok r0 =>
        rw [hl] at h
        simp only [bind, Except.bind, pure, Except.pure] at h
        cases h
        intro b hb
        rcases List.mem_cons.mp hb with rfl | hb
        · exact ⟨a, by simp, hfa⟩
        · obtain ⟨a', ha', hfa'⟩ := ih r0 hl b hb
          exact ⟨a', by simp [ha'], hfa'⟩


/-! ### dense matrices: `X @ diag(w)` -/

def madd (X Y : List (List ℝ)) : List (List ℝ) := List.zipWith (List.zipWith (· + ·)) X Y
def msmul (c : ℝ) (X : List (List ℝ)) : List (List ℝ) := X.map (fun r => r.map (fun x => c * x))
/-- entry `(i, j)` of a dense row-major matrix (0 outside) -/
def mget (X : List (List ℝ)) (i j : Nat) : ℝ := (X.getD i []).getD j 0

theorem transform_ok_iff (X : List (List ℝ)) (w : List ℝ) (T : List (List ℝ)) :
    transform X w = .ok T ↔
      (∀ r ∈ X, r.length = w.length) ∧ T = X.map (fun row => List.zipWith (· * ·) row w) := by
  unfold transform
  by_cases h : X.all (fun row => decide (row.length = w.length)) = true
  · rw [if_pos h]
    have h' : ∀ r ∈ X, r.length = w.length := by simpa using h
    constructor
    · intro e; cases e; exact ⟨h', rfl⟩
    · rintro ⟨_, rfl⟩; rfl
  · rw [if_neg h]
    constructor
    · intro e; cases e
    · rintro ⟨h', _⟩; exact absurd (by simpa using h') h

theorem row_linear (a b : ℝ) : ∀ (r1 r2 w : List ℝ), r1.length = w.length → r2.length = w.length →
    List.zipWith (· * ·) (List.zipWith (· + ·) (r1.map (fun x => a * x)) (r2.map (fun x => b * x))) w
      = List.zipWith (· + ·) ((List.zipWith (· * ·) r1 w).map (fun x => a * x))
          ((List.zipWith (· * ·) r2 w).map (fun x => b * x)) := by
  intro r1
  induction r1 with
  | nil => intro r2 w h1 h2; simp
  | cons x r1 ih =>
    intro r2 w h1 h2
    cases w with
    | nil => simp at h1
    | cons v w =>
      cases r2 with
      | nil => simp at h2
      | cons y r2 =>
        simp only [List.map_cons, List.zipWith_cons_cons]
        rw [ih r2 w (by simpa using h1) (by simpa using h2)]
        congr 1; ring


/-! ### canonical CSC: duplicates summed, rows sorted -/

theorem cval_insertAdd (r : Nat) (v : ℝ) (l : List (Nat × ℝ)) (i : Nat) :
    cval (insertAdd r v l) i = cval l i + (if r = i then v else 0) := by
  induction l with
  | nil => simp [insertAdd, cval]
  | cons p t ih =>
    unfold insertAdd
    by_cases h1 : r < p.1
    · rw [if_pos h1, cval_cons]; simp only []; ring
    · rw [if_neg h1]
      by_cases h2 : r = p.1
      · rw [if_pos h2, cval_cons, cval_cons]
        simp only []
        subst h2
        by_cases h3 : p.1 = i
        · simp only [h3, if_true]; ring
        · simp only [h3, if_false]; ring
      · rw [if_neg h2, cval_cons, cval_cons, ih]; ring

theorem cval_foldl_insertAdd (es acc : List (Nat × ℝ)) (i : Nat) :
    cval (es.foldl (fun acc e => insertAdd e.1 e.2 acc) acc) i = cval acc i + cval es i := by
  induction es generalizing acc with
  | nil => simp [cval_nil]
  | cons e es ih => rw [List.foldl_cons, ih, cval_insertAdd, cval_cons]; ring

/-- summing duplicates and sorting does not change the dense column -/
theorem cval_canonCol (es : List (Nat × ℝ)) (i : Nat) : cval (canonCol es) i = cval es i := by
  unfold canonCol
  rw [cval_foldl_insertAdd, cval_nil]; ring

theorem insertAdd_keys (r : Nat) (v : ℝ) (l : List (Nat × ℝ)) :
    ∀ j, j ∈ (insertAdd r v l).map (·.1) ↔ j = r ∨ j ∈ l.map (·.1) := by
  induction l with
  | nil => intro j; simp [insertAdd]
  | cons p t ih =>
    intro j
    unfold insertAdd
    by_cases h1 : r < p.1
    · rw [if_pos h1]; simp
    · rw [if_neg h1]
      by_cases h2 : r = p.1
      · rw [if_pos h2]; subst h2; simp
      · rw [if_neg h2]
        simp only [List.map_cons, List.mem_cons, ih j]
        tauto

theorem insertAdd_strict (r : Nat) (v : ℝ) (l : List (Nat × ℝ)) (h : StrictInc (l.map (·.1))) :
    StrictInc ((insertAdd r v l).map (·.1)) := by
  unfold StrictInc at *
  induction l with
  | nil => simp [insertAdd]
  | cons p t ih =>
    have h' : List.Pairwise (· < ·) (p.1 :: t.map (·.1)) := h
    obtain ⟨h1, h2⟩ := List.pairwise_cons.mp h'
    unfold insertAdd
    by_cases c1 : r < p.1
    · rw [if_pos c1]
      simp only [List.map_cons]
      refine List.pairwise_cons.mpr ⟨?_, by simpa using h⟩
      intro z hz
      rcases List.mem_cons.mp hz with rfl | hz
      · exact c1
      · have := h1 z hz; omega
    · rw [if_neg c1]
      by_cases c2 : r = p.1
      · rw [if_pos c2]; simpa using h
      · rw [if_neg c2]
        simp only [List.map_cons]
        refine List.pairwise_cons.mpr ⟨?_, ih h2⟩
        intro z hz
        rcases (insertAdd_keys r v t z).mp hz with rfl | hz
        · omega
        · exact h1 z hz

theorem insertAdd_nonneg (r : Nat) (v : ℝ) (hv : 0 ≤ v) (l : List (Nat × ℝ))
    (h : ∀ p ∈ l, 0 ≤ p.2) : ∀ p ∈ insertAdd r v l, 0 ≤ p.2 := by
  induction l with
  | nil => intro p hp; simp [insertAdd] at hp; subst hp; exact hv
  | cons q t ih =>
    have hq := h q (by simp)
    have ht : ∀ p ∈ t, 0 ≤ p.2 := fun p hp => h p (by simp [hp])
    unfold insertAdd
    by_cases c1 : r < q.1
    · rw [if_pos c1]
      intro p hp
      rcases List.mem_cons.mp hp with rfl | hp
      · exact hv
      · exact h p hp
    · rw [if_neg c1]
      by_cases c2 : r = q.1
      · rw [if_pos c2]
        intro p hp
        rcases List.mem_cons.mp hp with rfl | hp
        · simp only []; linarith
        · exact ht p hp
      · rw [if_neg c2]
        intro p hp
        rcases List.mem_cons.mp hp with rfl | hp
        · exact hq
        · exact ih ht p hp

/-- the canonical column: strictly increasing rows, rows among the stored ones, non-negative
values when the stored values are -/
theorem canonCol_spec (es : List (Nat × ℝ)) :
    StrictInc ((canonCol es).map (·.1)) ∧
    (∀ j ∈ (canonCol es).map (·.1), j ∈ es.map (·.1)) ∧
    ((∀ e ∈ es, 0 ≤ e.2) → ∀ p ∈ canonCol es, 0 ≤ p.2) := by
  unfold canonCol
  suffices H : ∀ (acc : List (Nat × ℝ)), StrictInc (acc.map (·.1)) →
      StrictInc ((es.foldl (fun acc e => insertAdd e.1 e.2 acc) acc).map (·.1)) ∧
      (∀ j ∈ (es.foldl (fun acc e => insertAdd e.1 e.2 acc) acc).map (·.1),
        j ∈ acc.map (·.1) ∨ j ∈ es.map (·.1)) ∧
      ((∀ e ∈ es, 0 ≤ e.2) → (∀ p ∈ acc, 0 ≤ p.2) →
        ∀ p ∈ es.foldl (fun acc e => insertAdd e.1 e.2 acc) acc, 0 ≤ p.2) by
    obtain ⟨h1, h2, h3⟩ := H [] (by simp [StrictInc])
    refine ⟨h1, fun j hj => ?_, fun he => h3 he (by simp)⟩
    rcases h2 j hj with h | h
    · simp at h
    · exact h
  induction es with
  | nil => intro acc hacc; exact ⟨hacc, fun j hj => Or.inl hj, fun _ h => h⟩
  | cons e es ih =>
    intro acc hacc
    obtain ⟨h1, h2, h3⟩ := ih (insertAdd e.1 e.2 acc) (insertAdd_strict e.1 e.2 acc hacc)
    refine ⟨h1, ?_, ?_⟩
    · intro j hj
      rcases h2 j hj with h | h
      · rcases (insertAdd_keys e.1 e.2 acc j).mp h with rfl | h
        · right; simp
        · left; exact h
      · right; simp only [List.map_cons, List.mem_cons]; right; exact h
    · intro he hacc'
      exact h3 (fun x hx => he x (by simp [hx]))
        (insertAdd_nonneg e.1 e.2 (he e (by simp)) acc hacc')


/-! ### row masses are a function of the canonical CSC -/

noncomputable def rowMass (es : List (Entry ℝ)) (i : Nat) : ℝ :=
  ((es.filter (fun e => e.1 = i)).map (fun e => e.2.2)).sum

theorem rowSums_eq (nrows : Nat) (es : List (Entry ℝ)) :
    rowSums nrows es = (List.range nrows).map (rowMass es) := by
  unfold rowSums rowMass
  apply List.map_congr_left
  intro i _
  rw [fsum_eq_sum]

theorem rsum_congr (n : Nat) (f g : Nat → ℝ) (h : ∀ i < n, f i = g i) : rsum n f = rsum n g := by
  unfold rsum
  congr 1
  apply List.map_congr_left
  intro i hi
  exact h i (by simpa using hi)

theorem rsum_zero (n : Nat) : rsum n (fun _ => 0) = 0 := by
  have := rsum_mul_left n 0 (fun _ => 0)
  simpa using this

theorem rowMass_cons (e : Entry ℝ) (es : List (Entry ℝ)) (i : Nat) :
    rowMass (e :: es) i = (if e.1 = i then e.2.2 else 0) + rowMass es i := by
  unfold rowMass
  by_cases h : e.1 = i
  · simp [h]
  · simp [h]

theorem colEntries_cons (j : Nat) (e : Entry ℝ) (es : List (Entry ℝ)) :
    colEntries j (e :: es)
      = if e.2.1 = j then (e.1, e.2.2) :: colEntries j es else colEntries j es := by
  unfold colEntries
  by_cases h : e.2.1 = j
  · simp [h]
  · simp [h]

theorem rowMass_eq_rsum_cols (ncols : Nat) (es : List (Entry ℝ)) (hv : ∀ e ∈ es, e.2.1 < ncols)
    (i : Nat) : rowMass es i = rsum ncols (fun j => cval (colEntries j es) i) := by
  induction es with
  | nil =>
    have : (fun j => cval (colEntries j ([] : List (Entry ℝ))) i) = fun _ => (0 : ℝ) := by
      funext j; simp [colEntries, cval]
    rw [this, rsum_zero]; simp [rowMass]
  | cons e es ih =>
    rw [rowMass_cons, ih (fun x hx => hv x (by simp [hx]))]
    have : (fun j => cval (colEntries j (e :: es)) i)
        = fun j => (if e.2.1 = j then (if e.1 = i then e.2.2 else 0) else 0) + cval (colEntries j es) i := by
      funext j
      rw [colEntries_cons]
      by_cases h : e.2.1 = j
      · rw [if_pos h, if_pos h, cval_cons]
      · rw [if_neg h, if_neg h]; ring
    rw [this, rsum_add, rsum_ite ncols e.2.1 _ (hv e (by simp))]

theorem canonCSC_getD (ncols : Nat) (es : List (Entry ℝ)) (j : Nat) (hj : j < ncols) :
    (canonCSC ncols es).getD j [] = canonCol (colEntries j es) := by
  unfold canonCSC
  simp [List.getD, hj]

theorem validEntries_iff (nrows ncols : Nat) (es : List (Entry ℝ)) :
    validEntries nrows ncols es = true ↔ ∀ e ∈ es, e.1 < nrows ∧ e.2.1 < ncols := by
  simp [validEntries]

/-- the row sums (hence every baseline) are determined by the canonical CSC -/
theorem rowSums_of_canon (nrows ncols : Nat) (es : List (Entry ℝ))
    (hv : validEntries nrows ncols es = true) :
    rowSums nrows es = (List.range nrows).map (fun i =>
      rsum ncols (fun j => cval ((canonCSC ncols es).getD j []) i)) := by
  rw [rowSums_eq]
  apply List.map_congr_left
  intro i _
  rw [rowMass_eq_rsum_cols ncols es (fun e he => ((validEntries_iff nrows ncols es).mp hv e he).2)]
  apply rsum_congr
  intro j hj
  rw [canonCSC_getD ncols es j hj, cval_canonCol]

theorem bind_eq_ok {α β : Type} (x : Except Err α) (f : α → Except Err β) (b : β)
    (h : (x >>= f) = .ok b) : ∃ a, x = .ok a ∧ f a = .ok b := by
  cases x with
  | error e => cases h
  | ok a => exact ⟨a, rfl, h⟩


/-! ### the whole matrix: `information_weight` with the exact prior -/

/-- dense entry `(i, j)`: the sum of the stored values at that cell -/
noncomputable def mval (es : List (Entry ℝ)) (i j : Nat) : ℝ := cval (colEntries j es) i
noncomputable def colMass (es : List (Entry ℝ)) (j : Nat) : ℝ := ((colEntries j es).map (·.2)).sum
noncomputable def total (nrows : Nat) (es : List (Entry ℝ)) : ℝ := rsum nrows (rowMass es)
/-- the row-mass baseline distribution -/
noncomputable def baseline (nrows : Nat) (es : List (Entry ℝ)) (i : Nat) : ℝ :=
  rowMass es i / total nrows es
/-- posterior of column `j`: counts plus `s` times the baseline, normalised -/
noncomputable def post (nrows : Nat) (es : List (Entry ℝ)) (s : ℝ) (j i : Nat) : ℝ :=
  (mval es i j + s * baseline nrows es i) / (colMass es j + s)
noncomputable def klWeight (nrows : Nat) (es : List (Entry ℝ)) (s : ℝ) (j : Nat) : ℝ :=
  klDiv nrows (post nrows es s j) (baseline nrows es)

theorem sum_insertAdd (r : Nat) (v : ℝ) (l : List (Nat × ℝ)) :
    ((insertAdd r v l).map (·.2)).sum = (l.map (·.2)).sum + v := by
  induction l with
  | nil => simp [insertAdd]
  | cons p t ih =>
    unfold insertAdd
    by_cases h1 : r < p.1
    · rw [if_pos h1]; simp only [List.map_cons, List.sum_cons]; ring
    · rw [if_neg h1]
      by_cases h2 : r = p.1
      · rw [if_pos h2]; simp only [List.map_cons, List.sum_cons]; ring
      · rw [if_neg h2]; simp only [List.map_cons, List.sum_cons, ih]; ring

theorem sum_canonCol (es : List (Nat × ℝ)) : ((canonCol es).map (·.2)).sum = (es.map (·.2)).sum := by
  unfold canonCol
  suffices H : ∀ acc : List (Nat × ℝ),
      ((es.foldl (fun acc e => insertAdd e.1 e.2 acc) acc).map (·.2)).sum
        = (acc.map (·.2)).sum + (es.map (·.2)).sum by
    simpa using H []
  induction es with
  | nil => intro acc; simp
  | cons e es ih => intro acc; rw [List.foldl_cons, ih, sum_insertAdd]; simp only [List.map_cons, List.sum_cons]; ring

theorem zip_map_fst_snd {α β : Type} (l : List (α × β)) : List.zip (l.map (·.1)) (l.map (·.2)) = l := by
  induction l with
  | nil => rfl
  | cons p t ih => simp only [List.map_cons, List.zip_cons_cons, ih]

theorem rowMass_nonneg (es : List (Entry ℝ)) (h : ∀ e ∈ es, 0 ≤ e.2.2) (i : Nat) : 0 ≤ rowMass es i := by
  unfold rowMass
  apply List.sum_nonneg
  intro x hx
  obtain ⟨e, he, rfl⟩ := List.mem_map.mp hx
  exact h e (List.mem_filter.mp he).1

theorem mval_nonneg (es : List (Entry ℝ)) (h : ∀ e ∈ es, 0 ≤ e.2.2) (i j : Nat) : 0 ≤ mval es i j := by
  unfold mval
  apply cval_nonneg
  intro p hp
  unfold colEntries at hp
  obtain ⟨e, he, rfl⟩ := List.mem_map.mp hp
  exact h e (List.mem_filter.mp he).1

theorem rsum_ge_term (n : Nat) (f : Nat → ℝ) (h : ∀ i < n, 0 ≤ f i) (j : Nat) (hj : j < n) :
    f j ≤ rsum n f := by
  induction n with
  | zero => omega
  | succ n ih =>
    rw [rsum_succ]
    by_cases hjn : j = n
    · subst hjn
      have : 0 ≤ rsum j f := by
        have := rsum_le_rsum j (fun _ => 0) f (fun i hi => h i (by omega))
        rw [rsum_zero] at this; exact this
      linarith
    · have := ih (fun i hi => h i (by omega)) (by omega)
      have := h n (by omega)
      linarith

theorem mval_le_rowMass (ncols : Nat) (es : List (Entry ℝ)) (h : ∀ e ∈ es, 0 ≤ e.2.2)
    (hv : ∀ e ∈ es, e.2.1 < ncols) (i j : Nat) (hj : j < ncols) : mval es i j ≤ rowMass es i := by
  rw [rowMass_eq_rsum_cols ncols es hv i]
  exact rsum_ge_term ncols (fun j => cval (colEntries j es) i) (fun j' _ => mval_nonneg es h i j') j hj

theorem getD_map_range (n : Nat) (f : Nat → ℝ) (i : Nat) (hi : i < n) :
    ((List.range n).map f).getD i 0 = f i := by
  simp [List.getD, hi]

/-- **information_weight = KL(posterior ‖ row-mass baseline), column by column** -/
theorem informationWeight_exact_eq (nrows ncols : Nat) (es : List (Entry ℝ)) (s : ℝ)
    (hv : validEntries nrows ncols es = true) (hnn : ∀ e ∈ es, 0 ≤ e.2.2)
    (htot : 0 < total nrows es) (hs0 : 0 < s) :
    informationWeight nrows ncols es s .exact none
      = .ok ((List.range ncols).map (klWeight nrows es s)) := by
  have hvalid := (validEntries_iff nrows ncols es).mp hv
  unfold informationWeight
  rw [hv]
  simp only [Bool.not_true, Bool.false_eq_true, if_false]
  -- the baseline
  have hbase : normaliseA (rowSums nrows es) = .ok ((List.range nrows).map (baseline nrows es)) := by
    unfold normaliseA
    rw [fsum_eq_sum, rowSums_eq]
    have ht : ((List.range nrows).map (rowMass es)).sum = total nrows es := rfl
    rw [ht]
    rw [mapM_ok_of_forall _ (fun x => x / total nrows es) _
      (fun a _ => div_real (ne_of_gt htot))]
    rw [List.map_map]
    rfl
  rw [hbase]
  simp only [bind, Except.bind]
  unfold columnWeights canonCSC
  rw [List.mapM_map]
  rw [mapM_ok_of_forall _ (klWeight nrows es s)]
  intro j hj
  have hj' : j < ncols := by simpa using hj
  simp only [Function.comp]
  obtain ⟨hstrict, hkeys, hnonneg⟩ := canonCol_spec (colEntries j es)
  have hcolnn : ∀ e ∈ colEntries j es, 0 ≤ e.2 := by
    intro p hp
    unfold colEntries at hp
    obtain ⟨e, he, rfl⟩ := List.mem_map.mp hp
    exact hnn e (List.mem_filter.mp he).1
  have hrows : ∀ r ∈ (canonCol (colEntries j es)).map (·.1), r < nrows := by
    intro r hr
    have := hkeys r hr
    unfold colEntries at this
    obtain ⟨p, hp, rfl⟩ := List.mem_map.mp this
    obtain ⟨e, he, rfl⟩ := List.mem_map.mp hp
    exact (hvalid e (List.mem_filter.mp he).1).1
  have hbl : ((List.range nrows).map (baseline nrows es)).length = nrows := by simp
  have hbnn : ∀ i, 0 ≤ baseline nrows es i := fun i =>
    div_nonneg (rowMass_nonneg es hnn i) (le_of_lt htot)
  have hcv : ∀ i, cval (canonCol (colEntries j es)) i = mval es i j := fun i => cval_canonCol _ i
  have hsum : ((canonCol (colEntries j es)).map (·.2)).sum = colMass es j := sum_canonCol _
  have hdnn : ∀ p ∈ canonCol (colEntries j es), 0 ≤ p.2 := hnonneg hcolnn
  clear hkeys hnonneg hcolnn
  generalize canonCol (colEntries j es) = col at *
  have hzip : List.zip (col.map (·.1)) (col.map (·.2)) = col := zip_map_fst_snd _
  rw [klExact_eq (col.map (·.1)) (col.map (·.2)) _ s (by simp) hstrict hs0
    (fun c hc => by
      obtain ⟨p, hp, rfl⟩ := List.mem_map.mp hc
      exact hdnn p hp)
    (fun b hb => by
      obtain ⟨i, _, rfl⟩ := List.mem_map.mp hb
      exact hbnn i)
    (fun k hk hpos => by
      have hr := hrows _ (List.getElem_mem hk)
      rw [getD_map_range nrows _ _ hr]
      have hc := cval_getElem (col.map (·.1)) (col.map (·.2)) (by simp) hstrict k hk
      rw [hzip, hcv] at hc
      have hle := mval_le_rowMass ncols es hnn (fun e he => (hvalid e he).2)
        ((col.map (·.1))[k]) j hj'
      unfold baseline
      apply div_pos _ htot
      rw [hc] at hle
      linarith)]
  rw [hbl]
  congr 1
  unfold klWeight klDiv
  apply rsum_congr
  intro i hi
  congr 1
  · unfold posterior post
    rw [hzip, hcv, getD_map_range nrows _ _ hi, hsum]
  · exact getD_map_range nrows _ _ hi


/-! ### non-negativity of the matrix-level weights -/

theorem rsum_mval (nrows ncols : Nat) (es : List (Entry ℝ))
    (hvalid : ∀ e ∈ es, e.1 < nrows ∧ e.2.1 < ncols) (j : Nat) :
    rsum nrows (fun i => mval es i j) = colMass es j := by
  unfold mval colMass
  apply rsum_cval
  intro p hp
  unfold colEntries at hp
  obtain ⟨e, he, rfl⟩ := List.mem_map.mp hp
  exact (hvalid e (List.mem_filter.mp he).1).1

theorem rsum_baseline (nrows : Nat) (es : List (Entry ℝ)) (htot : 0 < total nrows es) :
    rsum nrows (baseline nrows es) = 1 := by
  have : baseline nrows es = fun i => rowMass es i / total nrows es := rfl
  rw [this, rsum_div]
  exact div_self (ne_of_gt htot)

theorem colMass_nonneg (es : List (Entry ℝ)) (hnn : ∀ e ∈ es, 0 ≤ e.2.2) (j : Nat) :
    0 ≤ colMass es j := by
  unfold colMass
  apply List.sum_nonneg
  intro x hx
  obtain ⟨p, hp, rfl⟩ := List.mem_map.mp hx
  unfold colEntries at hp
  obtain ⟨e, he, rfl⟩ := List.mem_map.mp hp
  exact hnn e (List.mem_filter.mp he).1

theorem klWeight_nonneg (nrows ncols : Nat) (es : List (Entry ℝ)) (s : ℝ)
    (hvalid : ∀ e ∈ es, e.1 < nrows ∧ e.2.1 < ncols) (hnn : ∀ e ∈ es, 0 ≤ e.2.2)
    (htot : 0 < total nrows es) (hs0 : 0 < s) (j : Nat) (hj : j < ncols) :
    0 ≤ klWeight nrows es s j := by
  have hcm := colMass_nonneg es hnn j
  have hden : 0 < colMass es j + s := by linarith
  have hbnn : ∀ i, 0 ≤ baseline nrows es i := fun i =>
    div_nonneg (rowMass_nonneg es hnn i) (le_of_lt htot)
  unfold klWeight
  apply klDiv_nonneg
  · intro i _
    exact div_nonneg (by have := mval_nonneg es hnn i j; have := hbnn i; nlinarith) (le_of_lt hden)
  · intro i _; exact hbnn i
  · intro i _ hpos
    rcases lt_or_eq_of_le (hbnn i) with h | h
    · exact h
    · exfalso
      have hrm : rowMass es i = 0 := by
        unfold baseline at h
        have := (div_eq_zero_iff.mp h.symm)
        rcases this with h0 | h0
        · exact h0
        · exact absurd h0 (ne_of_gt htot)
      have hm : mval es i j = 0 :=
        le_antisymm (by have := mval_le_rowMass ncols es hnn (fun e he => (hvalid e he).2) i j hj; linarith)
          (mval_nonneg es hnn i j)
      unfold post at hpos
      rw [hm, ← h] at hpos
      simp at hpos
  · have hp : post nrows es s j = fun i => (mval es i j + s * baseline nrows es i) / (colMass es j + s) := rfl
    rw [hp, rsum_div, rsum_add, rsum_mul_left, rsum_baseline nrows es htot,
      rsum_mval nrows ncols es hvalid j, mul_one, div_self (ne_of_gt hden)]

/-! ### permutations -/

/-- `Σ_{i<n} f (ρ i) = Σ_{i<n} f i` for a permutation `ρ` of `[0, n)` (given with its inverse) -/
theorem rsum_perm (n : Nat) (f : Nat → ℝ) (ρ ρi : Nat → Nat) (h1 : ∀ i < n, ρ i < n)
    (h2 : ∀ i < n, ρi i < n) (h3 : ∀ i < n, ρi (ρ i) = i) (h4 : ∀ i < n, ρ (ρi i) = i) :
    rsum n (fun i => f (ρ i)) = rsum n f := by
  unfold rsum
  have hperm : List.Perm ((List.range n).map ρ) (List.range n) := by
    apply (List.perm_ext_iff_of_nodup _ (List.nodup_range)).mpr
    · intro x
      simp only [List.mem_map, List.mem_range]
      constructor
      · rintro ⟨i, hi, rfl⟩; exact h1 i hi
      · intro hx; exact ⟨ρi x, h2 x hx, h4 x hx⟩
    · apply List.Nodup.map_on _ List.nodup_range
      intro a ha b hb hab
      have ha' : a < n := by simpa using ha
      have hb' : b < n := by simpa using hb
      rw [← h3 a ha', ← h3 b hb', hab]
  have := (hperm.map f).sum_eq
  rw [List.map_map] at this
  exact this

/-- the matrix with its rows renamed by `ρ` -/
def permRows (ρ : Nat → Nat) (es : List (Entry ℝ)) : List (Entry ℝ) :=
  es.map (fun e => (ρ e.1, e.2.1, e.2.2))

/-- the matrix with its columns renamed by `τ` -/
def permCols (τ : Nat → Nat) (es : List (Entry ℝ)) : List (Entry ℝ) :=
  es.map (fun e => (e.1, τ e.2.1, e.2.2))

theorem rowMass_permRows (nrows : Nat) (ρ : Nat → Nat)
    (hinj : ∀ a < nrows, ∀ b < nrows, ρ a = ρ b → a = b) (es : List (Entry ℝ))
    (hr : ∀ e ∈ es, e.1 < nrows) (i : Nat) (hi : i < nrows) :
    rowMass (permRows ρ es) (ρ i) = rowMass es i := by
  induction es with
  | nil => rfl
  | cons e es ih =>
    have he := hr e (by simp)
    show rowMass ((ρ e.1, e.2.1, e.2.2) :: permRows ρ es) (ρ i) = _
    rw [rowMass_cons, rowMass_cons, ih (fun x hx => hr x (by simp [hx]))]
    by_cases h : e.1 = i
    · simp [h]
    · rw [if_neg h, if_neg (fun h' => h (hinj _ he _ hi h'))]

theorem colEntries_permRows (ρ : Nat → Nat) (j : Nat) (es : List (Entry ℝ)) :
    colEntries j (permRows ρ es) = (colEntries j es).map (fun p => (ρ p.1, p.2)) := by
  induction es with
  | nil => rfl
  | cons e es ih =>
    show colEntries j ((ρ e.1, e.2.1, e.2.2) :: permRows ρ es) = _
    rw [colEntries_cons, colEntries_cons, ih]
    by_cases h : e.2.1 = j
    · simp [h]
    · simp [h]

theorem cval_map_inj (nrows : Nat) (ρ : Nat → Nat)
    (hinj : ∀ a < nrows, ∀ b < nrows, ρ a = ρ b → a = b) (l : List (Nat × ℝ))
    (hl : ∀ p ∈ l, p.1 < nrows) (i : Nat) (hi : i < nrows) :
    cval (l.map (fun p => (ρ p.1, p.2))) (ρ i) = cval l i := by
  induction l with
  | nil => rfl
  | cons p l ih =>
    have hp := hl p (by simp)
    rw [List.map_cons, cval_cons, cval_cons, ih (fun x hx => hl x (by simp [hx]))]
    by_cases h : p.1 = i
    · simp [h]
    · rw [if_neg h, if_neg (fun h' => h (hinj _ hp _ hi h'))]

theorem colEntries_rows_lt (nrows ncols : Nat) (es : List (Entry ℝ))
    (hvalid : ∀ e ∈ es, e.1 < nrows ∧ e.2.1 < ncols) (j : Nat) : ∀ p ∈ colEntries j es, p.1 < nrows := by
  intro p hp
  unfold colEntries at hp
  obtain ⟨e, he, rfl⟩ := List.mem_map.mp hp
  exact (hvalid e (List.mem_filter.mp he).1).1

theorem colMass_permRows (ρ : Nat → Nat) (es : List (Entry ℝ)) (j : Nat) :
    colMass (permRows ρ es) j = colMass es j := by
  unfold colMass
  rw [colEntries_permRows, List.map_map]
  rfl

/-- **row permutation**: the KL weight of every column is unchanged -/
theorem klWeight_permRows (nrows ncols : Nat) (es : List (Entry ℝ)) (s : ℝ) (ρ ρi : Nat → Nat)
    (hvalid : ∀ e ∈ es, e.1 < nrows ∧ e.2.1 < ncols)
    (h1 : ∀ i < nrows, ρ i < nrows) (h2 : ∀ i < nrows, ρi i < nrows)
    (h3 : ∀ i < nrows, ρi (ρ i) = i) (h4 : ∀ i < nrows, ρ (ρi i) = i) (j : Nat) :
    klWeight nrows (permRows ρ es) s j = klWeight nrows es s j ∧
    total nrows (permRows ρ es) = total nrows es := by
  have hinj : ∀ a < nrows, ∀ b < nrows, ρ a = ρ b → a = b := by
    intro a ha b hb hab
    rw [← h3 a ha, ← h3 b hb, hab]
  have hrm : ∀ i < nrows, rowMass (permRows ρ es) (ρ i) = rowMass es i :=
    fun i hi => rowMass_permRows nrows ρ hinj es (fun e he => (hvalid e he).1) i hi
  have htot : total nrows (permRows ρ es) = total nrows es := by
    unfold total
    rw [← rsum_perm nrows (rowMass (permRows ρ es)) ρ ρi h1 h2 h3 h4]
    exact rsum_congr nrows _ _ hrm
  refine ⟨?_, htot⟩
  unfold klWeight klDiv
  rw [← rsum_perm nrows (fun i => klTerm (post nrows (permRows ρ es) s j i)
    (baseline nrows (permRows ρ es) i)) ρ ρi h1 h2 h3 h4]
  apply rsum_congr
  intro i hi
  have hb : baseline nrows (permRows ρ es) (ρ i) = baseline nrows es i := by
    unfold baseline; rw [hrm i hi, htot]
  have hm : mval (permRows ρ es) (ρ i) j = mval es i j := by
    unfold mval
    rw [colEntries_permRows]
    exact cval_map_inj nrows ρ hinj _ (colEntries_rows_lt nrows ncols es hvalid j) i hi
  unfold post
  rw [hb, hm, colMass_permRows]


theorem rowMass_permCols (τ : Nat → Nat) (es : List (Entry ℝ)) (i : Nat) :
    rowMass (permCols τ es) i = rowMass es i := by
  induction es with
  | nil => rfl
  | cons e es ih =>
    show rowMass ((e.1, τ e.2.1, e.2.2) :: permCols τ es) i = _
    rw [rowMass_cons, rowMass_cons, ih]

theorem colEntries_permCols (ncols : Nat) (τ : Nat → Nat)
    (hinj : ∀ a < ncols, ∀ b < ncols, τ a = τ b → a = b) (es : List (Entry ℝ))
    (hc : ∀ e ∈ es, e.2.1 < ncols) (j : Nat) (hj : j < ncols) :
    colEntries (τ j) (permCols τ es) = colEntries j es := by
  induction es with
  | nil => rfl
  | cons e es ih =>
    have he := hc e (by simp)
    show colEntries (τ j) ((e.1, τ e.2.1, e.2.2) :: permCols τ es) = _
    rw [colEntries_cons, colEntries_cons, ih (fun x hx => hc x (by simp [hx]))]
    by_cases h : e.2.1 = j
    · simp [h]
    · rw [if_neg h, if_neg (fun h' => h (hinj _ he _ hj h'))]

/-- **column permutation**: the KL weights move with their columns -/
theorem klWeight_permCols (nrows ncols : Nat) (es : List (Entry ℝ)) (s : ℝ) (τ : Nat → Nat)
    (hinj : ∀ a < ncols, ∀ b < ncols, τ a = τ b → a = b)
    (hvalid : ∀ e ∈ es, e.1 < nrows ∧ e.2.1 < ncols) (j : Nat) (hj : j < ncols) :
    klWeight nrows (permCols τ es) s (τ j) = klWeight nrows es s j ∧
    total nrows (permCols τ es) = total nrows es := by
  have hrm : rowMass (permCols τ es) = rowMass es := funext (rowMass_permCols τ es)
  have htot : total nrows (permCols τ es) = total nrows es := by unfold total; rw [hrm]
  have hce := colEntries_permCols ncols τ hinj es (fun e he => (hvalid e he).2) j hj
  refine ⟨?_, htot⟩
  unfold klWeight klDiv
  apply rsum_congr
  intro i _
  have hb : baseline nrows (permCols τ es) i = baseline nrows es i := by
    unfold baseline; rw [hrm, htot]
  unfold post mval colMass
  rw [hb, hce]

theorem validEntries_permRows (nrows ncols : Nat) (ρ : Nat → Nat) (es : List (Entry ℝ))
    (h1 : ∀ i < nrows, ρ i < nrows) (hv : validEntries nrows ncols es = true) :
    validEntries nrows ncols (permRows ρ es) = true := by
  rw [validEntries_iff] at hv ⊢
  intro e he
  obtain ⟨e0, he0, rfl⟩ := List.mem_map.mp he
  exact ⟨h1 _ (hv e0 he0).1, (hv e0 he0).2⟩

theorem validEntries_permCols (nrows ncols : Nat) (τ : Nat → Nat) (es : List (Entry ℝ))
    (h1 : ∀ j < ncols, τ j < ncols) (hv : validEntries nrows ncols es = true) :
    validEntries nrows ncols (permCols τ es) = true := by
  rw [validEntries_iff] at hv ⊢
  intro e he
  obtain ⟨e0, he0, rfl⟩ := List.mem_map.mp he
  exact ⟨(hv e0 he0).1, h1 _ (hv e0 he0).2⟩

theorem nonneg_permRows (ρ : Nat → Nat) (es : List (Entry ℝ)) (h : ∀ e ∈ es, 0 ≤ e.2.2) :
    ∀ e ∈ permRows ρ es, 0 ≤ e.2.2 := by
  intro e he
  obtain ⟨e0, he0, rfl⟩ := List.mem_map.mp he
  exact h e0 he0

theorem nonneg_permCols (τ : Nat → Nat) (es : List (Entry ℝ)) (h : ∀ e ∈ es, 0 ≤ e.2.2) :
    ∀ e ∈ permCols τ es, 0 ≤ e.2.2 := by
  intro e he
  obtain ⟨e0, he0, rfl⟩ := List.mem_map.mp he
  exact h e0 he0

end VecModel.IW
