import VecModel.Model.CountsBase
/- Helper lemmas about the shared sparse / dictionary model. Core Lean only. -/
namespace VecModel.Counts

theorem flatMap_congr' {l : List α} {f g : α → List β} (h : ∀ a ∈ l, f a = g a) :
    l.flatMap f = l.flatMap g := by
  induction l with
  | nil => rfl
  | cons x xs ih =>
    simp only [List.flatMap_cons]
    rw [h x (by simp), ih (fun a ha => h a (by simp [ha]))]

theorem lookup_nil [DecidableEq κ] (k : κ) : lookup ([] : List (κ × ν)) k = none := rfl

theorem lookup_cons [DecidableEq κ] (k' : κ) (v : ν) (rest : List (κ × ν)) (k : κ) :
    lookup ((k', v) :: rest) k = if k' = k then some v else lookup rest k := rfl

theorem lookup_dictSet [DecidableEq κ] (d : List (κ × ν)) (k k' : κ) (v : ν) :
    lookup (dictSet d k v) k' = if k = k' then some v else lookup d k' := by
  induction d with
  | nil => simp [dictSet, lookup]
  | cons p rest ih =>
    obtain ⟨k0, v0⟩ := p
    simp only [dictSet]
    by_cases h : k0 = k
    · subst h; simp only [if_true, lookup_cons]; split <;> rfl
    · simp only [h, if_false, lookup_cons, ih]
      by_cases h2 : k0 = k'
      · subst h2; simp [Ne.symm h]
      · simp [h2]

/-! ### cells, assembly, column masks -/

theorem cell_nil' (a b : Nat) : cell [] a b = 0 := rfl

theorem cell_cons' (e : Entry) (es : List Entry) (a b : Nat) :
    cell (e :: es) a b = (if e.1 = a ∧ e.2.1 = b then e.2.2 else 0) + cell es a b := rfl

theorem assemble_some_ok (nr nc : Nat) (es : List Entry) (h : ∀ e ∈ es, e.1 < nr ∧ e.2.1 < nc) :
    assemble (some (nr, nc)) es = .ok ⟨nr, nc, es⟩ := by
  unfold assemble
  have : es.find? (fun e => decide (nr ≤ e.1) || decide (nc ≤ e.2.1)) = none := by
    rw [List.find?_eq_none]
    intro e he
    have := h e he
    simp; omega
  simp only [this]

theorem assemble_some_eq {s : Nat × Nat} {es : List Entry} {M : Matrix}
    (h : assemble (some s) es = .ok M) : M = ⟨s.1, s.2, es⟩ := by
  unfold assemble at h
  simp only at h
  split at h
  · cases h
  · cases h; rfl

theorem mem_keptCols {mask : List Bool} {c : Nat} : c ∈ keptCols mask ↔ mask[c]? = some true := by
  simp only [keptCols, List.mem_filter, List.mem_range, beq_iff_eq]
  constructor
  · exact fun h => h.2
  · intro h
    refine ⟨?_, h⟩
    by_cases hc : c < mask.length
    · exact hc
    · rw [List.getElem?_eq_none (by omega)] at h; cases h

theorem keptCols_nodup (mask : List Bool) : (keptCols mask).Nodup :=
  List.Nodup.sublist List.filter_sublist List.nodup_range

theorem keptCols_lt {mask : List Bool} {c : Nat} (h : c ∈ keptCols mask) : c < mask.length := by
  simp only [keptCols, List.mem_filter, List.mem_range] at h
  exact h.1

theorem idxOf_getElem_nodup {l : List Nat} (hn : l.Nodup) : ∀ (j : Nat) (h : j < l.length),
    l.idxOf l[j] = j := by
  induction l with
  | nil => intro j h; simp at h
  | cons x xs ih =>
    intro j h
    cases j with
    | zero => simp
    | succ j =>
      have hx := (List.nodup_cons.mp hn)
      have hj : j < xs.length := by simpa using h
      have hne : x ≠ xs[j] := by
        intro he; apply hx.1; rw [he]; exact List.getElem_mem _
      simp only [List.getElem_cons_succ, List.idxOf_cons, ih hx.2 j hj]
      have : (x == xs[j]) = false := by simpa using hne
      rw [this]; rfl

theorem selectCols_eq {mask : List Bool} {M M' : Matrix} (h : selectCols mask M = .ok M') :
    mask.length = M.nCols ∧ M'.nRows = M.nRows ∧ M'.nCols = (keptCols mask).length ∧
    M'.entries = M.entries.filterMap (fun e =>
      if e.2.1 ∈ keptCols mask then some (e.1, (keptCols mask).idxOf e.2.1, e.2.2) else none) := by
  unfold selectCols at h
  split at h
  · cases h
  · rename_i hl
    cases h
    exact ⟨by simpa using hl, rfl, rfl, rfl⟩

theorem selectCols_ok (mask : List Bool) (M : Matrix) (h : mask.length = M.nCols) :
    ∃ M', selectCols mask M = .ok M' := by
  unfold selectCols
  simp [h]

/-- `M[:, mask]`: new column `j` is old column `keptCols[j]` -/
theorem cell_selectCols {mask : List Bool} {M M' : Matrix} (h : selectCols mask M = .ok M')
    (i j : Nat) (hj : j < (keptCols mask).length) :
    M'.get i j = M.get i (keptCols mask)[j] := by
  obtain ⟨_, _, _, he⟩ := selectCols_eq h
  simp only [Matrix.get, he]
  generalize M.entries = es
  induction es with
  | nil => rfl
  | cons e rest ih =>
    rw [List.filterMap_cons]
    by_cases hm : e.2.1 ∈ keptCols mask
    · simp only [hm, if_true, cell_cons', ih]
      congr 1
      by_cases hc : e.2.1 = (keptCols mask)[j]
      · have : (keptCols mask).idxOf e.2.1 = j := by
          rw [hc]; exact idxOf_getElem_nodup (keptCols_nodup mask) j hj
        rw [this, hc]; simp
      · have : (keptCols mask).idxOf e.2.1 ≠ j := by
          intro hh
          apply hc
          have hlt : (keptCols mask).idxOf e.2.1 < (keptCols mask).length := by omega
          have := List.getElem_idxOf hlt
          simp only [hh] at this
          exact this.symm
        simp [hc, this]
    · simp only [hm, if_false, cell_cons', ih]
      have : e.2.1 ≠ (keptCols mask)[j] := by
        intro hc; apply hm; rw [hc]; exact List.getElem_mem _
      simp [this, Rat.zero_add]


end VecModel.Counts
