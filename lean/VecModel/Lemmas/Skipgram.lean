import VecModel.Model.Skipgram
import VecModel.Lemmas.CountsBase
/- Helper lemmas for the skip-gram part of Props/C06 (and C01). Core Lean only. -/
namespace VecModel.Skipgram
open VecModel.Counts

/-! ### cells of COO lists -/

theorem cell_nil (a b : Nat) : cell [] a b = 0 := rfl

theorem cell_cons (e : Entry) (es : List Entry) (a b : Nat) :
    cell (e :: es) a b = (if e.1 = a ∧ e.2.1 = b then e.2.2 else 0) + cell es a b := rfl

theorem cell_append (l₁ l₂ : List Entry) (a b : Nat) :
    cell (l₁ ++ l₂) a b = cell l₁ a b + cell l₂ a b := by
  induction l₁ with
  | nil => simp [cell_nil, Rat.zero_add]
  | cons e es ih => simp only [List.cons_append, cell_cons, ih, Rat.add_assoc]

theorem cell_perm {l₁ l₂ : List Entry} (h : l₁.Perm l₂) (a b : Nat) : cell l₁ a b = cell l₂ a b := by
  induction h with
  | nil => rfl
  | cons x _ ih => simp only [cell_cons, ih]
  | swap x y l => simp only [cell_cons]; rw [Rat.add_left_comm]
  | trans _ _ ih₁ ih₂ => rw [ih₁, ih₂]

/-! ### `sum_coo_entries` -/

theorem cell_runLength (a b : Nat) : ∀ (l : List Triple) (co : Nat × Nat) (sm : Rat),
    cell (runLength co sm l) a b = (if co.1 = a ∧ co.2 = b then sm else 0) + cell l a b := by
  intro l
  induction l with
  | nil => intro co sm; simp [runLength, cell_cons, cell_nil]
  | cons e rest ih =>
    intro co sm
    unfold runLength
    split
    · rename_i hco
      rw [ih, cell_cons]
      have h1 : e.1 = co.1 := by rw [← hco]
      have h2 : e.2.1 = co.2 := by rw [← hco]
      rw [h1, h2]
      by_cases hc : co.1 = a ∧ co.2 = b
      · simp only [hc, and_self, if_true]; rw [Rat.add_assoc]
      · simp only [hc, if_false, Rat.zero_add]
    · rw [cell_cons, ih, cell_cons]

theorem tripleLe_trans (a b c : Triple) (h1 : tripleLe a b = true) (h2 : tripleLe b c = true) :
    tripleLe a c = true := by
  simp only [tripleLe, Bool.or_eq_true, Bool.and_eq_true, decide_eq_true_eq] at *
  rcases h1 with h1 | ⟨h1, h1' | ⟨h1', h1''⟩⟩ <;> rcases h2 with h2 | ⟨h2, h2' | ⟨h2', h2''⟩⟩
  · left; omega
  · left; omega
  · left; omega
  · left; omega
  · right; exact ⟨by omega, Or.inl (by omega)⟩
  · right; exact ⟨by omega, Or.inl (by omega)⟩
  · left; omega
  · right; exact ⟨by omega, Or.inl (by omega)⟩
  · right; exact ⟨by omega, Or.inr ⟨by omega, Rat.le_trans h1'' h2''⟩⟩

theorem tripleLe_total (a b : Triple) : (tripleLe a b || tripleLe b a) = true := by
  simp only [tripleLe, Bool.or_eq_true, Bool.and_eq_true, decide_eq_true_eq]
  rcases Nat.lt_trichotomy a.1 b.1 with h | h | h
  · left; left; exact h
  · rcases Nat.lt_trichotomy a.2.1 b.2.1 with h' | h' | h'
    · left; right; exact ⟨h, Or.inl h'⟩
    · rcases Rat.le_total (a := a.2.2) (b := b.2.2) with h'' | h''
      · left; right; exact ⟨h, Or.inr ⟨h', h''⟩⟩
      · right; right; exact ⟨h.symm, Or.inr ⟨h'.symm, h''⟩⟩
    · right; right; exact ⟨h.symm, Or.inl h'⟩
  · right; left; exact h

/-- lexicographic order on coordinates -/
def coLe (p q : Nat × Nat) : Prop := p.1 < q.1 ∨ (p.1 = q.1 ∧ p.2 ≤ q.2)
def coLt (p q : Nat × Nat) : Prop := p.1 < q.1 ∨ (p.1 = q.1 ∧ p.2 < q.2)

def co (t : Triple) : Nat × Nat := (t.1, t.2.1)

theorem coLe_of_tripleLe {a b : Triple} (h : tripleLe a b = true) : coLe (co a) (co b) := by
  simp only [tripleLe, Bool.or_eq_true, Bool.and_eq_true, decide_eq_true_eq] at h
  simp only [coLe, co]
  omega

/-- every coordinate of the output is the running coordinate or the coordinate of an input -/
theorem mem_runLength {c : Nat × Nat} {sm : Rat} {l : List Triple} {t : Triple}
    (h : t ∈ runLength c sm l) : co t = c ∨ ∃ e ∈ l, co t = co e := by
  induction l generalizing c sm with
  | nil => simp [runLength] at h; left; simp [h, co]
  | cons e rest ih =>
    unfold runLength at h
    split at h
    · rcases ih h with h | ⟨e', he', h⟩
      · left; exact h
      · right; exact ⟨e', List.mem_cons_of_mem _ he', h⟩
    · rcases List.mem_cons.mp h with h | h
      · left; simp [h, co]
      · rcases ih h with h | ⟨e', he', h⟩
        · right; exact ⟨e, List.mem_cons_self, h⟩
        · right; exact ⟨e', List.mem_cons_of_mem _ he', h⟩

theorem runLength_sorted : ∀ (l : List Triple) (c : Nat × Nat) (sm : Rat),
    l.Pairwise (fun a b => tripleLe a b = true) → (∀ e ∈ l, coLe c (co e)) →
    (runLength c sm l).Pairwise (fun a b => coLt (co a) (co b)) := by
  intro l
  induction l with
  | nil => intro c sm _ _; simp [runLength]
  | cons e rest ih =>
    intro c sm hs hge
    have hrest := (List.pairwise_cons.mp hs).2
    have hhead := (List.pairwise_cons.mp hs).1
    unfold runLength
    split
    · exact ih c _ hrest (fun x hx => hge x (List.mem_cons_of_mem _ hx))
    · rename_i hne
      have hec : coLt c (co e) := by
        have := hge e List.mem_cons_self
        have hne' : ¬ (e.1 = c.1 ∧ e.2.1 = c.2) := by
          intro hh; apply hne; exact Prod.ext hh.1 hh.2
        simp only [coLe, coLt, co] at this ⊢
        omega
      rw [List.pairwise_cons]
      refine ⟨?_, ih (e.1, e.2.1) _ hrest (fun x hx => coLe_of_tripleLe (hhead x hx))⟩
      intro t ht
      rcases mem_runLength ht with h | ⟨e', he', h⟩
      · rw [h]; exact hec
      · have := coLe_of_tripleLe (hhead e' he')
        rw [h]
        simp only [coLe, coLt, co] at this hec ⊢
        omega


theorem sumCooEntries_cell (l r : List Triple) (h : sumCooEntries l = .ok r) (a b : Nat) :
    cell r a b = cell l a b := by
  unfold sumCooEntries at h
  split at h
  · cases h
  · rename_i e rest hs
    cases h
    rw [cell_runLength, ← hs, cell_perm (List.mergeSort_perm l _) a b]
    simp [Rat.zero_add]

theorem sumCooEntries_sorted (l r : List Triple) (h : sumCooEntries l = .ok r) :
    r.Pairwise (fun x y => coLt (co x) (co y)) := by
  unfold sumCooEntries at h
  split at h
  · cases h
  · rename_i e rest hs
    cases h
    have hp := List.pairwise_mergeSort (le := fun a b => tripleLe a b) tripleLe_trans tripleLe_total l
    rw [hs] at hp
    apply runLength_sorted _ _ _ hp
    intro x hx
    rcases List.mem_cons.mp hx with hx | hx
    · subst hx; simp [coLe, co]
    · exact coLe_of_tripleLe ((List.pairwise_cons.mp hp).1 x hx)

theorem sumCooEntries_total (l : List Triple) (h : l ≠ []) : ∃ r, sumCooEntries l = .ok r := by
  unfold sumCooEntries
  split
  · rename_i hs
    have := (List.mergeSort_perm l (fun a b => tripleLe a b)).length_eq
    rw [hs] at this
    exact absurd (List.length_eq_zero_iff.mp this.symm) h
  · exact ⟨_, rfl⟩

theorem sumCooEntries_coords (l r : List Triple) (h : sumCooEntries l = .ok r) :
    ∀ t ∈ r, ∃ e ∈ l, co t = co e := by
  unfold sumCooEntries at h
  split at h
  · cases h
  · rename_i e rest hs
    cases h
    intro t ht
    have hm : ∀ x, x ∈ e :: rest → x ∈ l := by
      intro x hx; rw [← hs] at hx; exact List.mem_mergeSort.mp hx
    rcases mem_runLength ht with h | ⟨e', he', h⟩
    · exact ⟨e, hm e List.mem_cons_self, by rw [h]; rfl⟩
    · exact ⟨e', hm e' he', h⟩

/-! ### column ids -/

theorem decode_encode (n h t : Nat) (ht : t < n) : decode n (encode n h t) = (h, t) := by
  have hn : 0 < n := by omega
  unfold decode encode
  rw [Nat.mul_comm, Nat.mul_add_div hn, Nat.mul_add_mod, Nat.div_eq_of_lt ht, Nat.mod_eq_of_lt ht]
  simp

theorem encode_inj (n h t h' t' : Nat) (ht : t < n) (ht' : t' < n)
    (he : encode n h t = encode n h' t') : h = h' ∧ t = t' := by
  have := congrArg (decode n) he
  rw [decode_encode n h t ht, decode_encode n h' t' ht'] at this
  exact ⟨congrArg Prod.fst this, congrArg Prod.snd this⟩

theorem encode_lt (n h t : Nat) (hh : h < n) (ht : t < n) : encode n h t < n * n := by
  unfold encode
  calc h * n + t < h * n + n := by omega
    _ = (h + 1) * n := by rw [Nat.add_mul, Nat.one_mul]
    _ ≤ n * n := Nat.mul_le_mul_right n hh



/-! ### the triples of one document -/

theorem sumRat_nil : sumRat [] = 0 := rfl
theorem sumRat_cons (x : Rat) (xs : List Rat) : sumRat (x :: xs) = x + sumRat xs := rfl

theorem sumRat_append (l₁ l₂ : List Rat) : sumRat (l₁ ++ l₂) = sumRat l₁ + sumRat l₂ := by
  induction l₁ with
  | nil => simp [sumRat_nil, Rat.zero_add]
  | cons x xs ih => simp only [List.cons_append, sumRat_cons, ih, Rat.add_assoc]

theorem sumRat_range_succ (f : Nat → Rat) (n : Nat) :
    sumRat ((List.range (n + 1)).map f) = f 0 + sumRat ((List.range n).map fun k => f (k + 1)) := by
  rw [List.range_succ_eq_map]
  simp [sumRat_cons, List.map_map, Function.comp_def]

theorem sumRat_range_succ_last (f : Nat → Rat) (n : Nat) :
    sumRat ((List.range (n + 1)).map f) = sumRat ((List.range n).map f) + f n := by
  rw [List.range_succ, List.map_append, sumRat_append]
  simp [sumRat_cons, sumRat_nil, Rat.add_zero]

theorem sumRat_range_extend (f : Nat → Rat) (m : Nat) :
    ∀ n, m ≤ n → (∀ j, m ≤ j → j < n → f j = 0) →
      sumRat ((List.range n).map f) = sumRat ((List.range m).map f) := by
  intro n
  induction n with
  | zero => intro hn _
            have : m = 0 := by omega
            subst this; rfl
  | succ n ih =>
    intro hn h0
    by_cases hm : m = n + 1
    · subst hm; rfl
    · rw [sumRat_range_succ_last, ih (by omega) (fun j h1 h2 => h0 j h1 (by omega)),
        h0 n (by omega) (by omega), Rat.add_zero]

theorem sumRat_congr {l : List α} {f g : α → Rat} (h : ∀ x ∈ l, f x = g x) :
    sumRat (l.map f) = sumRat (l.map g) := by
  rw [List.map_congr_left h]

/-- weight of `b` in a window whose first element is at distance `d` -/
def winWeight (κ : Nat → Rat) (b : Nat) : Nat → List Nat → Rat
  | _, [] => 0
  | d, t :: rest => (if t = b then κ d else 0) + winWeight κ b (d + 1) rest

theorem cell_headTriples (κ : Nat → Rat) (h a b : Nat) : ∀ (win : List Nat) (d : Nat),
    cell (headTriples κ h d win) a b = if h = a then winWeight κ b d win else 0 := by
  intro win
  induction win with
  | nil => intro d; simp [headTriples, cell_nil, winWeight]
  | cons t rest ih =>
    intro d
    simp only [headTriples, cell_cons, ih, winWeight]
    by_cases ha : h = a
    · by_cases hb : t = b <;> simp [ha, hb]
    · simp [ha, Rat.zero_add]

theorem winWeight_eq_sum (κ : Nat → Rat) (b : Nat) : ∀ (win : List Nat) (d : Nat),
    winWeight κ b d win =
      sumRat ((List.range win.length).map fun j => if win[j]? = some b then κ (d + j) else 0) := by
  intro win
  induction win with
  | nil => intro d; rfl
  | cons t rest ih =>
    intro d
    rw [winWeight, ih, List.length_cons, sumRat_range_succ]
    simp only [List.getElem?_cons_zero, Nat.add_zero, List.getElem?_cons_succ, Option.some.injEq]
    congr 2
    apply List.map_congr_left
    intro j _
    have : d + 1 + j = d + (j + 1) := by omega
    rw [this]

theorem windowAt_length (s : List Nat) (w i : Nat) :
    (windowAt s w i).length = min w (s.length - (i + 1)) := by
  simp only [windowAt, List.length_take, List.length_drop]
  omega

theorem windowAt_getElem? (s : List Nat) (w i j : Nat) (hj : j < min w (s.length - (i + 1))) :
    (windowAt s w i)[j]? = s[i + (j + 1)]? := by
  simp only [windowAt]
  rw [List.getElem?_take_of_lt (by omega), List.getElem?_drop]
  congr 1
  omega

theorem winWeight_windowAt (κ : Nat → Rat) (s : List Nat) (w b i : Nat) :
    winWeight κ b 1 (windowAt s w i) = afterWeight κ s w b i := by
  rw [winWeight_eq_sum, windowAt_length, afterWeight]
  rw [sumRat_range_extend
    (fun d => if s[i + (d + 1)]? = some b then κ (d + 1) else 0) (min w (s.length - (i + 1)))
    w (Nat.min_le_left _ _)
    (by
      intro j hj hjw
      have : s.length ≤ i + (j + 1) := by omega
      simp [List.getElem?_eq_none this])]
  apply sumRat_congr
  intro j hj
  have hj' := List.mem_range.mp hj
  rw [windowAt_getElem? s w i j hj']
  have : 1 + j = j + 1 := by omega
  rw [this]



theorem rd_eq_ok {name : String} {l : List α} {i : Nat} {x : α} (h : rd name l i = .ok x) :
    l[i]? = some x := by
  unfold rd at h
  split at h
  · rename_i y hy; cases h; exact hy
  · cases h

theorem cell_docLoop (ws : List Nat) (κ : Nat → Rat) (s : List Nat) (a b w : Nat)
    (hw : ws[a]? = some w) : ∀ (fuel i : Nat) (L : List Triple),
    docLoop ws κ s fuel i = .ok L →
    cell L a b = sumRat ((List.range fuel).map fun k =>
      if s[i + k]? = some a then afterWeight κ s w b (i + k) else 0) := by
  intro fuel
  induction fuel with
  | zero => intro i L h; simp [docLoop] at h; subst h; rfl
  | succ fuel ih =>
    intro i L h
    unfold docLoop at h
    split at h
    · cases h
    · rename_i head hhead
      split at h
      · cases h
      · rename_i w' hw'
        split at h
        · cases h
        · rename_i rest hrest
          cases h
          rw [cell_append, cell_headTriples, ih (i + 1) rest hrest, sumRat_range_succ]
          have h1 := rd_eq_ok hhead
          have h2 := rd_eq_ok hw'
          simp only [Nat.add_zero, h1, Option.some.injEq]
          congr 1
          · by_cases ha : head = a
            · subst ha
              rw [hw] at h2
              cases h2
              simp [winWeight_windowAt]
            · simp [ha]
          · apply sumRat_congr
            intro k _
            have : i + 1 + k = i + (k + 1) := by omega
            rw [this]

theorem docLoop_total (ws : List Nat) (κ : Nat → Rat) (s : List Nat)
    (hs : ∀ t ∈ s, t < ws.length) : ∀ (fuel i : Nat), i + fuel ≤ s.length →
    ∃ L, docLoop ws κ s fuel i = .ok L := by
  intro fuel
  induction fuel with
  | zero => intro i _; exact ⟨[], rfl⟩
  | succ fuel ih =>
    intro i hi
    have hlt : i < s.length := by omega
    obtain ⟨rest, hrest⟩ := ih (i + 1) (by omega)
    have hh : s[i] < ws.length := hs _ (List.getElem_mem hlt)
    unfold docLoop
    rw [rd_ok hlt]
    simp only [rd_ok hh, hrest]
    exact ⟨_, rfl⟩

theorem buildSkipGrams_cell (ws : List Nat) (κ : Nat → Rat) (s : List Nat) (tr : List Triple)
    (h : buildSkipGrams ws κ s = .ok tr) (a b w : Nat) (hw : ws[a]? = some w) :
    cell tr a b = pairWeight κ s w a b := by
  unfold buildSkipGrams at h
  split at h
  · cases h
  · rename_i L hL
    rw [sumCooEntries_cell _ _ h, cell_cons, cell_docLoop ws κ s a b w hw _ _ _ hL, pairWeight]
    simp [Rat.zero_add]

theorem buildSkipGrams_total (ws : List Nat) (κ : Nat → Rat) (s : List Nat)
    (hs : ∀ t ∈ s, t < ws.length) : ∃ tr, buildSkipGrams ws κ s = .ok tr := by
  obtain ⟨L, hL⟩ := docLoop_total ws κ s hs s.length 0 (by omega)
  unfold buildSkipGrams
  rw [hL]
  exact sumCooEntries_total _ (by simp)



/-! ### rows of the base matrix -/

theorem mem_headTriples {κ : Nat → Rat} {h : Nat} {win : List Nat} {d : Nat} {t : Triple}
    (ht : t ∈ headTriples κ h d win) : t.1 = h ∧ t.2.1 ∈ win := by
  induction win generalizing d with
  | nil => simp [headTriples] at ht
  | cons x rest ih =>
    simp only [headTriples, List.mem_cons] at ht
    rcases ht with ht | ht
    · subst ht; simp
    · have := ih ht
      exact ⟨this.1, List.mem_cons_of_mem _ this.2⟩

theorem mem_windowAt {s : List Nat} {w i x : Nat} (h : x ∈ windowAt s w i) : x ∈ s :=
  List.mem_of_mem_drop (List.mem_of_mem_take h)

theorem docLoop_coords (ws : List Nat) (κ : Nat → Rat) (s : List Nat) : ∀ (fuel i : Nat) (L : List Triple),
    docLoop ws κ s fuel i = .ok L → ∀ t ∈ L, t.1 ∈ s ∧ t.2.1 ∈ s := by
  intro fuel
  induction fuel with
  | zero => intro i L h; simp [docLoop] at h; subst h; simp
  | succ fuel ih =>
    intro i L h
    unfold docLoop at h
    split at h
    · cases h
    · rename_i head hhead
      split at h
      · cases h
      · split at h
        · cases h
        · rename_i rest hrest
          cases h
          intro t ht
          rcases List.mem_append.mp ht with ht | ht
          · have := mem_headTriples ht
            have hm : head ∈ s := List.mem_of_getElem? (rd_eq_ok hhead)
            exact ⟨this.1 ▸ hm, mem_windowAt this.2⟩
          · exact ih (i + 1) rest hrest t ht

theorem buildSkipGrams_coords (ws : List Nat) (κ : Nat → Rat) (s : List Nat) (tr : List Triple)
    (h : buildSkipGrams ws κ s = .ok tr) :
    ∀ t ∈ tr, (t.1 = 0 ∧ t.2.1 = 0) ∨ (t.1 ∈ s ∧ t.2.1 ∈ s) := by
  unfold buildSkipGrams at h
  split at h
  · cases h
  · rename_i L hL
    intro t ht
    obtain ⟨e, he, hco⟩ := sumCooEntries_coords _ _ h t ht
    have h12 : t.1 = e.1 ∧ t.2.1 = e.2.1 := by
      have := hco; simp only [co, Prod.mk.injEq] at this; exact this
    have h1 := h12.1
    have h2 := h12.2
    rcases List.mem_cons.mp he with he | he
    · left; subst he; exact ⟨h1, h2⟩
    · right; rw [h1, h2]; exact docLoop_coords ws κ s _ _ _ hL e he

theorem cell_eq_zero_of_row {es : List Entry} {i : Nat} (h : ∀ e ∈ es, e.1 ≠ i) (c : Nat) :
    cell es i c = 0 := by
  induction es with
  | nil => rfl
  | cons e rest ih =>
    rw [cell_cons, ih (fun x hx => h x (List.mem_cons_of_mem _ hx))]
    have := h e List.mem_cons_self
    simp [this, Rat.add_zero]

theorem cell_rowEntries (n r : Nat) (tr : List Triple) (htails : ∀ t ∈ tr, t.2.1 < n)
    (i a b : Nat) (hb : b < n) :
    cell (tr.map fun t => (r, encode n t.1 t.2.1, t.2.2)) i (encode n a b) =
      if r = i then cell tr a b else 0 := by
  induction tr with
  | nil => simp [cell_nil]
  | cons t rest ih =>
    rw [List.map_cons, cell_cons, ih (fun x hx => htails x (List.mem_cons_of_mem _ hx)), cell_cons]
    have ht := htails t List.mem_cons_self
    by_cases hr : r = i
    · simp only [hr, true_and, if_true]
      by_cases he : encode n t.1 t.2.1 = encode n a b
      · have := encode_inj n _ _ _ _ ht hb he
        simp [this.1, this.2]
      · have : ¬ (t.1 = a ∧ t.2.1 = b) := by
          intro hh; apply he; rw [hh.1, hh.2]
        simp [he, this]
    · simp [hr, Rat.zero_add]

theorem cooRows_rows (ws : List Nat) (κ : Nat → Rat) (n : Nat) : ∀ (seqs : List (List Nat)) (r : Nat)
    (es : List Entry), cooRows ws κ n r seqs = .ok es → ∀ e ∈ es, r ≤ e.1 ∧ e.1 < r + seqs.length := by
  intro seqs
  induction seqs with
  | nil => intro r es h; simp [cooRows] at h; subst h; simp
  | cons s rest ih =>
    intro r es h
    unfold cooRows at h
    split at h
    · cases h
    · split at h
      · cases h
      · rename_i tr _ more hmore
        cases h
        intro e he
        rcases List.mem_append.mp he with he | he
        · obtain ⟨t, _, rfl⟩ := List.mem_map.mp he
          simp
        · have := ih (r + 1) more hmore e he
          simp only [List.length_cons]
          omega

/-- entry of row `r + i`, column `encode n a b` of the COO data = the pair weight in document `i` -/
theorem cooRows_cell (ws : List Nat) (κ : Nat → Rat) (n a b w : Nat) (hb : b < n)
    (hw : ws[a]? = some w) : ∀ (seqs : List (List Nat)) (r : Nat) (es : List Entry),
    cooRows ws κ n r seqs = .ok es → (∀ s ∈ seqs, ∀ t ∈ s, t < n) →
    ∀ (i : Nat) (s : List Nat), seqs[i]? = some s →
      cell es (r + i) (encode n a b) = pairWeight κ s w a b := by
  intro seqs
  induction seqs with
  | nil => intro r es _ _ i s hs; simp at hs
  | cons s0 rest ih =>
    intro r es h hlt i s hs
    unfold cooRows at h
    split at h
    · cases h
    · rename_i tr htr
      split at h
      · cases h
      · rename_i more hmore
        cases h
        have htails : ∀ t ∈ tr, t.2.1 < n := by
          intro t ht
          rcases buildSkipGrams_coords ws κ s0 tr htr t ht with h0 | h1
          · rw [h0.2]; omega
          · exact hlt s0 List.mem_cons_self _ h1.2
        rw [cell_append, cell_rowEntries n r tr htails _ a b hb]
        cases i with
        | zero =>
          simp only [List.getElem?_cons_zero, Option.some.injEq] at hs
          subst hs
          have hz : cell more (r + 0) (encode n a b) = 0 := by
            apply cell_eq_zero_of_row
            intro e he
            have := cooRows_rows ws κ n rest (r + 1) more hmore e he
            omega
          rw [hz, Rat.add_zero]
          simp [buildSkipGrams_cell ws κ s0 tr htr a b w hw]
        | succ i =>
          simp only [List.getElem?_cons_succ] at hs
          have hne : ¬ r = r + (i + 1) := by omega
          simp only [hne, if_false, Rat.zero_add]
          have := ih (r + 1) more hmore (fun s hs => hlt s (List.mem_cons_of_mem _ hs)) i s hs
          have e : r + 1 + i = r + (i + 1) := by omega
          rw [e] at this
          exact this



/-! ### base matrix, transform -/

theorem reindex_lt (d : List (Int × Nat)) (n : Nat) (hb : ∀ t i, lookup d t = some i → i < n)
    (doc : List Int) : ∀ x ∈ reindex d doc, x < n := by
  intro x hx
  simp only [reindex, List.mem_filterMap] at hx
  obtain ⟨t, _, ht⟩ := hx
  exact hb t x ht

theorem cooRows_total (ws : List Nat) (κ : Nat → Rat) (n : Nat) : ∀ (seqs : List (List Nat)) (r : Nat),
    (∀ s ∈ seqs, ∀ t ∈ s, t < ws.length) → ∃ es, cooRows ws κ n r seqs = .ok es := by
  intro seqs
  induction seqs with
  | nil => intro r _; exact ⟨[], rfl⟩
  | cons s rest ih =>
    intro r h
    obtain ⟨tr, htr⟩ := buildSkipGrams_total ws κ s (h s List.mem_cons_self)
    obtain ⟨more, hmore⟩ := ih (r + 1) (fun s hs => h s (List.mem_cons_of_mem _ hs))
    unfold cooRows
    simp only [htr, hmore]
    exact ⟨_, rfl⟩

theorem cooRows_cols (ws : List Nat) (κ : Nat → Rat) (n : Nat) : ∀ (seqs : List (List Nat)) (r : Nat)
    (es : List Entry), cooRows ws κ n r seqs = .ok es → (∀ s ∈ seqs, ∀ t ∈ s, t < n) →
    ∀ e ∈ es, e.2.1 < width n := by
  intro seqs
  induction seqs with
  | nil => intro r es h _; simp [cooRows] at h; subst h; simp
  | cons s rest ih =>
    intro r es h hlt
    unfold cooRows at h
    split at h
    · cases h
    · rename_i tr htr
      split at h
      · cases h
      · rename_i more hmore
        cases h
        intro e he
        rcases List.mem_append.mp he with he | he
        · obtain ⟨t, ht, rfl⟩ := List.mem_map.mp he
          simp only [width]
          rcases buildSkipGrams_coords ws κ s tr htr t ht with h0 | h1
          · rw [h0.1, h0.2]; simp [encode]; omega
          · have ha := hlt s List.mem_cons_self _ h1.1
            have hb := hlt s List.mem_cons_self _ h1.2
            have := encode_lt n _ _ ha hb
            omega
        · exact ih (r + 1) more hmore (fun s hs => hlt s (List.mem_cons_of_mem _ hs)) e he

theorem baseMatrix_ok (tokDict : List (Int × Nat)) (ws : List Nat) (κ : Nat → Rat)
    (hws : ws.length = tokDict.length + 1)
    (hb : ∀ t i, lookup tokDict t = some i → i < tokDict.length) (X : List (List Int)) :
    ∃ es, cooRows ws κ tokDict.length 0 (X.map (reindex tokDict)) = .ok es ∧
      baseMatrix tokDict ws κ X = .ok ⟨X.length, width tokDict.length, es⟩ := by
  have hlt : ∀ s ∈ X.map (reindex tokDict), ∀ t ∈ s, t < tokDict.length := by
    intro s hs t ht
    obtain ⟨doc, _, rfl⟩ := List.mem_map.mp hs
    exact reindex_lt tokDict _ hb doc t ht
  obtain ⟨es, hes⟩ := cooRows_total ws κ tokDict.length (X.map (reindex tokDict)) 0
    (fun s hs t ht => by have := hlt s hs t ht; omega)
  refine ⟨es, hes, ?_⟩
  unfold baseMatrix
  have e : ws.length - 1 = tokDict.length := by omega
  simp only [e, hes, List.length_map]
  apply assemble_some_ok
  intro x hx
  have h1 := cooRows_rows ws κ _ _ 0 es hes x hx
  have h2 := cooRows_cols ws κ _ _ 0 es hes hlt x hx
  simp only [List.length_map] at h1
  exact ⟨by omega, h2⟩


end VecModel.Skipgram
