import Mathlib.Tactic.Linarith
import Mathlib.Tactic.FieldSimp
import Mathlib.Tactic.Positivity
import Mathlib.Data.Rat.Floor
import Mathlib.Algebra.Order.Field.Power
import VecModel.Model.Vocab
/-
  Helper lemmas for Props/C05 (vocabulary pruning).
  Part 1: the rounding function `rn p` (monotone, relative error 2^-p, strict on neighbouring
  quotients), the thresholds and `keepFreq`.
  Part 2: lists — sorted unique tokens, counts under permutation, the top-k step, indices.
-/
set_option linter.unusedSectionVars false
namespace VecModel.Vocab

/-! ## Part 1: rounding -/

theorem pow2_eq (e : ℤ) : pow2 e = (2:ℚ)^e := by
  unfold pow2
  split
  · rename_i h
    obtain ⟨k, rfl⟩ := Int.eq_ofNat_of_zero_le h
    simp
  · rename_i h
    obtain ⟨k, hk⟩ : ∃ k : ℕ, e = -(k:ℤ) := ⟨(-e).toNat, by omega⟩
    subst hk; simp [zpow_neg]

theorem floor_spec (s : ℚ) : ((s.floor : ℤ) : ℚ) ≤ s ∧ s < (s.floor : ℚ) + 1 := by
  have h1 : s.floor = ⌊s⌋ := rfl
  rw [h1]
  exact ⟨Int.floor_le s, Int.lt_floor_add_one s⟩

theorem rhe_cases (s : ℚ) : rhe s = s.floor ∨ rhe s = s.floor + 1 := by
  unfold rhe; simp only []; split_ifs <;> simp

theorem rhe_mono {s t : ℚ} (h : s ≤ t) : rhe s ≤ rhe t := by
  obtain ⟨hs1, hs2⟩ := floor_spec s
  obtain ⟨ht1, ht2⟩ := floor_spec t
  have hfg : s.floor ≤ t.floor := by
    have : ((s.floor : ℤ) : ℚ) < (t.floor : ℚ) + 1 := by linarith
    have : s.floor < t.floor + 1 := by exact_mod_cast this
    omega
  rcases lt_or_eq_of_le hfg with hlt | heq
  · rcases rhe_cases s with h1 | h1 <;> rcases rhe_cases t with h2 | h2 <;> omega
  · unfold rhe; simp only []
    rw [← heq] at ht1 ht2 ⊢
    split_ifs <;> first | omega | (exfalso; linarith)

theorem rhe_err (s : ℚ) : |(rhe s : ℚ) - s| ≤ 1/2 := by
  obtain ⟨hs1, hs2⟩ := floor_spec s
  unfold rhe; simp only []
  rw [abs_le]
  split_ifs <;> push_cast <;> constructor <;> linarith

theorem rhe_int (k : ℤ) : rhe (k : ℚ) = k := by
  have : (k:ℚ).floor = k := by
    show ⌊(k:ℚ)⌋ = k
    simp
  unfold rhe; simp only [this]
  simp

theorem log2_bounds (a : ℕ) (ha : 0 < a) : ((2:ℚ)^(a.log2) ≤ (a:ℚ)) ∧ ((a:ℚ) < 2 * (2:ℚ)^(a.log2)) := by
  have h1 := Nat.log2_self_le (n := a) (by omega)
  have h2 := Nat.lt_log2_self (n := a)
  constructor
  · exact_mod_cast h1
  · have : a < 2 * 2 ^ a.log2 := by rw [pow_succ] at h2; omega
    exact_mod_cast this

/-- the scaled significand lies in one binade: `2^p / 2 ≤ x / 2^e < 2^p` -/
theorem expo_spec (p : ℕ) (x : ℚ) (hx : 0 < x) :
    (2:ℚ)^p / 2 ≤ x / (2:ℚ)^(expo p x) ∧ x / (2:ℚ)^(expo p x) < (2:ℚ)^p := by
  have hnum : 0 < x.num := Rat.num_pos.mpr hx
  have hden : 0 < x.den := x.den_pos
  obtain ⟨hA1, hA2⟩ := log2_bounds x.num.natAbs (by omega)
  obtain ⟨hB1, hB2⟩ := log2_bounds x.den hden
  have hxe : x = (x.num.natAbs : ℚ) / (x.den : ℚ) := by
    have h := (Rat.num_div_den x).symm
    have : ((x.num.natAbs : ℕ) : ℚ) = (x.num : ℚ) := by
      have h' : ((x.num.natAbs : ℕ) : ℤ) = x.num := Int.natAbs_of_nonneg hnum.le
      rw [← Int.cast_natCast, h']
    rw [this]; exact h
  set A : ℚ := (x.num.natAbs : ℚ) with hA
  set B : ℚ := (x.den : ℚ) with hB
  set la := x.num.natAbs.log2
  set lb := x.den.log2
  set u : ℚ := (2:ℚ)^la
  set v : ℚ := (2:ℚ)^lb
  set w : ℚ := (2:ℚ)^p
  have hu : 0 < u := by positivity
  have hv : 0 < v := by positivity
  have hw : 0 < w := by positivity
  have hBpos : 0 < B := by linarith
  have hApos : 0 < A := by linarith
  have he0 : (2:ℚ)^((la:ℤ) - (lb:ℤ) - (p:ℤ)) = u / (v * w) := by
    rw [zpow_sub₀ (by norm_num), zpow_sub₀ (by norm_num)]
    simp only [zpow_natCast]
    rw [div_div]
  have hs0 : x / (2:ℚ)^((la:ℤ) - (lb:ℤ) - (p:ℤ)) = A * v * w / (B * u) := by
    rw [he0, hxe]; field_simp
  have hlo : w / 2 < A * v * w / (B * u) := by
    rw [lt_div_iff₀ (by positivity)]
    have : B * u < 2 * (A * v) := by nlinarith
    nlinarith
  have hhi : A * v * w / (B * u) < 2 * w := by
    rw [div_lt_iff₀ (by positivity)]
    have : A * v < 2 * (B * u) := by nlinarith
    nlinarith
  unfold expo
  simp only []
  rw [pow2_eq]
  have hwc : ((2 ^ p : ℕ) : ℚ) = w := by push_cast; rfl
  rw [hwc]
  split_ifs with hc
  · rw [hs0] at hc ⊢
    exact ⟨hlo.le, hc⟩
  · rw [hs0] at hc
    rw [zpow_add_one₀ (by norm_num), ← div_div, hs0]
    have hc := not_lt.mp hc
    constructor <;> linarith


theorem rnPos_eq (p : ℕ) (x : ℚ) :
    rnPos p x = (rhe (x / (2:ℚ)^(expo p x)) : ℚ) * (2:ℚ)^(expo p x) := by
  unfold rnPos; simp only [pow2_eq]

theorem mant_bounds (p : ℕ) (hp : 1 ≤ p) (x : ℚ) (hx : 0 < x) :
    (2:ℚ)^p / 2 ≤ (rhe (x / (2:ℚ)^(expo p x)) : ℚ) ∧ (rhe (x / (2:ℚ)^(expo p x)) : ℚ) ≤ (2:ℚ)^p := by
  obtain ⟨h1, h2⟩ := expo_spec p x hx
  obtain ⟨q, rfl⟩ : ∃ q, p = q + 1 := ⟨p - 1, by omega⟩
  constructor
  · have e1 : (2:ℚ)^(q+1) / 2 = (((2:ℤ)^q : ℤ) : ℚ) := by push_cast; rw [pow_succ]; field_simp
    rw [e1] at h1 ⊢
    have := rhe_mono h1
    rw [rhe_int] at this
    exact_mod_cast this
  · have e2 : (2:ℚ)^(q+1) = (((2:ℤ)^(q+1) : ℤ) : ℚ) := by push_cast; rfl
    rw [e2] at h2 ⊢
    have := rhe_mono h2.le
    rw [rhe_int] at this
    exact_mod_cast this

theorem rnPos_pos (p : ℕ) (hp : 1 ≤ p) (x : ℚ) (hx : 0 < x) : 0 < rnPos p x := by
  rw [rnPos_eq]
  obtain ⟨h1, _⟩ := mant_bounds p hp x hx
  have : (0:ℚ) < (2:ℚ)^p / 2 := by positivity
  have hE : (0:ℚ) < (2:ℚ)^(expo p x) := by positivity
  have : (0:ℚ) < (rhe (x / (2:ℚ)^(expo p x)) : ℚ) := by linarith
  positivity

/-- relative error of one rounding: at most `2^-p` -/
theorem rnPos_err (p : ℕ) (x : ℚ) (hx : 0 < x) : |rnPos p x - x| ≤ x / (2:ℚ)^p := by
  rw [rnPos_eq]
  obtain ⟨h1, _⟩ := expo_spec p x hx
  set E : ℚ := (2:ℚ)^(expo p x) with hE
  have hEpos : 0 < E := by positivity
  have hw : (0:ℚ) < (2:ℚ)^p := by positivity
  have herr := rhe_err (x / E)
  have hx' : x = (x / E) * E := by field_simp
  have hdiff : (rhe (x / E) : ℚ) * E - x = ((rhe (x / E) : ℚ) - x / E) * E := by
    rw [sub_mul, ← hx']
  rw [hdiff, abs_mul, abs_of_pos hEpos]
  have h2 : E / 2 ≤ x / (2:ℚ)^p := by
    rw [le_div_iff₀ hw]
    have : (2:ℚ)^p / 2 * E ≤ x / E * E := by
      apply mul_le_mul_of_nonneg_right h1 hEpos.le
    rw [← hx'] at this
    linarith
  calc |(rhe (x / E) : ℚ) - x / E| * E ≤ 1/2 * E := by
        apply mul_le_mul_of_nonneg_right herr hEpos.le
    _ = E / 2 := by ring
    _ ≤ _ := h2

theorem expo_mono (p : ℕ) {x y : ℚ} (hx : 0 < x) (hxy : x ≤ y) : expo p x ≤ expo p y := by
  by_contra hlt
  have hlt : expo p y + 1 ≤ expo p x := by omega
  obtain ⟨hx1, _⟩ := expo_spec p x hx
  obtain ⟨_, hy2⟩ := expo_spec p y (lt_of_lt_of_le hx hxy)
  have hEx : (0:ℚ) < (2:ℚ)^(expo p x) := by positivity
  have hEy : (0:ℚ) < (2:ℚ)^(expo p y) := by positivity
  have hmono : (2:ℚ)^(expo p y + 1) ≤ (2:ℚ)^(expo p x) := zpow_le_zpow_right₀ (by norm_num) hlt
  rw [zpow_add_one₀ (by norm_num)] at hmono
  rw [le_div_iff₀ hEx] at hx1
  rw [div_lt_iff₀ hEy] at hy2
  have hw : (0:ℚ) < (2:ℚ)^p := by positivity
  nlinarith

theorem rnPos_mono (p : ℕ) (hp : 1 ≤ p) {x y : ℚ} (hx : 0 < x) (hxy : x ≤ y) : rnPos p x ≤ rnPos p y := by
  have hy : 0 < y := lt_of_lt_of_le hx hxy
  have he := expo_mono p hx hxy
  rw [rnPos_eq, rnPos_eq]
  obtain ⟨_, mx2⟩ := mant_bounds p hp x hx
  obtain ⟨my1, _⟩ := mant_bounds p hp y hy
  have hEx : (0:ℚ) < (2:ℚ)^(expo p x) := by positivity
  have hEy : (0:ℚ) < (2:ℚ)^(expo p y) := by positivity
  rcases lt_or_eq_of_le he with hlt | heq
  · have hlt : expo p x + 1 ≤ expo p y := by omega
    have hmono : (2:ℚ)^(expo p x + 1) ≤ (2:ℚ)^(expo p y) := zpow_le_zpow_right₀ (by norm_num) hlt
    rw [zpow_add_one₀ (by norm_num)] at hmono
    have hw : (0:ℚ) < (2:ℚ)^p := by positivity
    calc (rhe (x / (2:ℚ)^(expo p x)) : ℚ) * (2:ℚ)^(expo p x) ≤ (2:ℚ)^p * (2:ℚ)^(expo p x) := by
          apply mul_le_mul_of_nonneg_right mx2 hEx.le
      _ ≤ (2:ℚ)^p / 2 * (2:ℚ)^(expo p y) := by nlinarith
      _ ≤ _ := by apply mul_le_mul_of_nonneg_right my1 hEy.le
  · rw [heq]
    apply mul_le_mul_of_nonneg_right _ hEy.le
    have : x / (2:ℚ)^(expo p y) ≤ y / (2:ℚ)^(expo p y) := by
      apply div_le_div_of_nonneg_right hxy hEy.le
    exact_mod_cast rhe_mono this

theorem rn_zero (p : ℕ) : rn p 0 = 0 := by simp [rn]

theorem rn_of_pos (p : ℕ) {x : ℚ} (hx : 0 < x) : rn p x = rnPos p x := by
  unfold rn; rw [if_neg hx.ne', if_pos hx]

theorem rn_nonneg (p : ℕ) (hp : 1 ≤ p) {x : ℚ} (hx : 0 ≤ x) : 0 ≤ rn p x := by
  rcases hx.lt_or_eq with h | h
  · rw [rn_of_pos p h]; exact (rnPos_pos p hp x h).le
  · rw [← h, rn_zero]

theorem rn_pos (p : ℕ) (hp : 1 ≤ p) {x : ℚ} (hx : 0 < x) : 0 < rn p x := by
  rw [rn_of_pos p hx]; exact rnPos_pos p hp x hx

/-- rounding is monotone (on the non-negative rationals, which is all the code rounds) -/
theorem rn_mono (p : ℕ) (hp : 1 ≤ p) {x y : ℚ} (hx : 0 ≤ x) (hxy : x ≤ y) : rn p x ≤ rn p y := by
  rcases hx.lt_or_eq with h | h
  · rw [rn_of_pos p h, rn_of_pos p (lt_of_lt_of_le h hxy)]
    exact rnPos_mono p hp h hxy
  · rw [← h, rn_zero]; exact rn_nonneg p hp (h ▸ hxy)

theorem rn_err (p : ℕ) {x : ℚ} (hx : 0 < x) : |rn p x - x| ≤ x / (2:ℚ)^p := by
  rw [rn_of_pos p hx]; exact rnPos_err p x hx

/-- `1` is representable -/
theorem rn_one (p : ℕ) (hp : 1 ≤ p) : rn p 1 = 1 := by
  rw [rn_of_pos p one_pos, rnPos_eq]
  obtain ⟨h1, h2⟩ := expo_spec p 1 one_pos
  obtain ⟨q, rfl⟩ : ∃ q, p = q + 1 := ⟨p - 1, by omega⟩
  set e := expo (q+1) 1
  have hE : (0:ℚ) < (2:ℚ)^e := by positivity
  rw [le_div_iff₀ hE] at h1
  rw [div_lt_iff₀ hE] at h2
  -- 2^(q+1+e) ∈ [.., 2) and > 1/… : e = -q
  have h1' : (2:ℚ)^((q:ℤ) + e) ≤ (2:ℚ)^(0:ℤ) := by
    rw [zpow_add₀ (by norm_num), zpow_natCast, zpow_zero]
    rw [pow_succ] at h1; linarith
  have h2' : (2:ℚ)^(0:ℤ) < (2:ℚ)^((q:ℤ) + 1 + e) := by
    rw [zpow_add₀ (by norm_num), zpow_add₀ (by norm_num), zpow_natCast, zpow_zero, zpow_one]
    rw [pow_succ] at h2; linarith
  have a1 := (zpow_le_zpow_iff_right₀ (by norm_num : (1:ℚ) < 2)).mp h1'
  have a2 := (zpow_lt_zpow_iff_right₀ (by norm_num : (1:ℚ) < 2)).mp h2'
  have he : e = -(q:ℤ) := by omega
  rw [he]
  have : (1:ℚ) / (2:ℚ)^(-(q:ℤ)) = (((2:ℤ)^q : ℤ) : ℚ) := by
    rw [zpow_neg, zpow_natCast]; push_cast; field_simp
  rw [this, rhe_int]
  push_cast
  rw [zpow_neg, zpow_natCast]
  field_simp

/-- neighbouring quotients `c/n < b/n` stay strictly ordered after rounding as long as `2c+1 < 2^p` -/
theorem rn_div_strict (p : ℕ) (hp : 1 ≤ p) {c b n : ℕ} (hn : 0 < n) (hcb : c < b) (hc : 2 * c + 1 < 2 ^ p) :
    rn p ((c:ℚ) / n) < rn p ((b:ℚ) / n) := by
  have hnq : (0:ℚ) < n := by exact_mod_cast hn
  have hbq : (0:ℚ) < b := by exact_mod_cast (by omega : 0 < b)
  have hy : (0:ℚ) < (b:ℚ) / n := by positivity
  rcases Nat.eq_zero_or_pos c with h0 | hcpos
  · subst h0; simp only [Nat.cast_zero, zero_div, rn_zero]; exact rn_pos p hp hy
  have hcq : (0:ℚ) < c := by exact_mod_cast hcpos
  have hx : (0:ℚ) < (c:ℚ) / n := by positivity
  have ex := rn_err p hx
  have ey := rn_err p hy
  rw [abs_le] at ex ey
  have hw : (0:ℚ) < (2:ℚ)^p := by positivity
  have hcw : 2 * (c:ℚ) + 1 < (2:ℚ)^p := by exact_mod_cast hc
  have hcb' : (c:ℚ) + 1 ≤ b := by exact_mod_cast hcb
  -- x (1 + u) < y (1 - u)
  have key : (c:ℚ) / n + (c:ℚ) / n / (2:ℚ)^p < (b:ℚ) / n - (b:ℚ) / n / (2:ℚ)^p := by
    have e1 : (c:ℚ) / n + (c:ℚ) / n / (2:ℚ)^p = (c * ((2:ℚ)^p + 1)) / (n * (2:ℚ)^p) := by field_simp
    have e2 : (b:ℚ) / n - (b:ℚ) / n / (2:ℚ)^p = (b * ((2:ℚ)^p - 1)) / (n * (2:ℚ)^p) := by field_simp
    rw [e1, e2]
    apply div_lt_div_of_pos_right _ (by positivity)
    nlinarith
  linarith [ex.2, ey.1]

theorem freq53_eq (c n : ℕ) : freq53 c n = rn 53 ((c:ℚ) / n) := by
  unfold freq53; rw [Rat.mkRat_eq_div]; push_cast; rfl

theorem thr_eq (b n : ℕ) : rn 53 (mkRat b n) = rn 53 ((b:ℚ) / n) := by
  rw [Rat.mkRat_eq_div]; push_cast; rfl

theorem freq53_nonneg (c n : ℕ) : 0 ≤ freq53 c n := by
  rw [freq53_eq]; exact rn_nonneg 53 (by norm_num) (by positivity)

theorem freq53_le_one {c n : ℕ} (hn : 0 < n) (hc : c ≤ n) : freq53 c n ≤ 1 := by
  rw [freq53_eq, ← rn_one 53 (by norm_num)]
  apply rn_mono 53 (by norm_num) (by positivity)
  have hnq : (0:ℚ) < n := by exact_mod_cast hn
  rw [div_le_one hnq]; exact_mod_cast hc

theorem freq53_mono {c b n : ℕ} (h : c ≤ b) : freq53 c n ≤ freq53 b n := by
  rw [freq53_eq, freq53_eq]
  apply rn_mono 53 (by norm_num) (by positivity)
  apply div_le_div_of_nonneg_right (by exact_mod_cast h) (by positivity)

theorem freq53_strict {c b n : ℕ} (hn : 0 < n) (h : c < b) (hc : c < 2 ^ 52) : freq53 c n < freq53 b n := by
  rw [freq53_eq, freq53_eq]
  exact rn_div_strict 53 (by norm_num) hn h (by omega)

/-- the lower / upper constraint a bound expresses, on exact integers for occurrence bounds and on
the float64 frequency for frequency bounds -/
def SatLo (c n : ℕ) : Option Bound → Prop
  | none => True
  | some (.occ b) => b ≤ c
  | some (.freq f) => f ≤ freq53 c n

def SatHi (c n : ℕ) : Option Bound → Prop
  | none => True
  | some (.occ b) => c ≤ b
  | some (.freq f) => freq53 c n ≤ f

theorem keepFreq_iff' (c n : ℕ) (lo hi : Option Bound) :
    keepFreq c n lo hi = true ↔ minThr n lo ≤ freq53 c n ∧ freq53 c n ≤ maxThr n hi := by
  unfold keepFreq
  simp only [Bool.and_eq_true, Bool.not_eq_true', decide_eq_false_iff_not, not_lt]

theorem minThr_le_of_sat {c n : ℕ} (hn : 0 < n) {lo : Option Bound} (h : SatLo c n lo) :
    minThr n lo ≤ freq53 c n := by
  match lo, h with
  | none, _ => exact freq53_nonneg c n
  | some (.occ b), h =>
    simp only [minThr, if_neg hn.ne']
    rw [thr_eq, ← freq53_eq]; exact freq53_mono h
  | some (.freq f), h => exact h

theorem le_maxThr_of_sat {c n : ℕ} (hn : 0 < n) (hc : c ≤ n) {hi : Option Bound} (h : SatHi c n hi) :
    freq53 c n ≤ maxThr n hi := by
  match hi, h with
  | none, _ => exact freq53_le_one hn hc
  | some (.occ b), h =>
    simp only [maxThr, if_neg hn.ne']
    rw [thr_eq, ← freq53_eq]
    split_ifs
    · exact freq53_mono h
    · exact freq53_le_one hn hc
  | some (.freq f), h => exact h

theorem sat_of_minThr_le {c n : ℕ} (hn : 0 < n) (hc : c < 2 ^ 52) {lo : Option Bound}
    (h : minThr n lo ≤ freq53 c n) : SatLo c n lo := by
  match lo, h with
  | none, _ => trivial
  | some (.occ b), h =>
    simp only [minThr, if_neg hn.ne'] at h
    rw [thr_eq, ← freq53_eq] at h
    show b ≤ c
    by_contra hlt
    exact absurd (freq53_strict hn (by omega : c < b) hc) (not_lt.mpr h)
  | some (.freq f), h => exact h

theorem sat_of_le_maxThr {c n : ℕ} (hn : 0 < n) (hc : c ≤ n) (hbig : n ≤ 2 ^ 52) {hi : Option Bound}
    (h : freq53 c n ≤ maxThr n hi) : SatHi c n hi := by
  match hi, h with
  | none, _ => trivial
  | some (.occ b), h =>
    simp only [maxThr, if_neg hn.ne'] at h
    rw [thr_eq, ← freq53_eq] at h
    show c ≤ b
    by_contra hlt
    have hs := freq53_strict hn (by omega : b < c) (by omega)
    split_ifs at h <;> linarith
  | some (.freq f), h => exact h

/-! ### representable numbers, double rounding (only needed for the float32 arithmetic before the fix) -/

/-- the exponent is determined by the binade -/
theorem expo_unique (p : ℕ) {x : ℚ} (hx : 0 < x) (e : ℤ)
    (h1 : (2:ℚ)^p / 2 ≤ x / (2:ℚ)^e) (h2 : x / (2:ℚ)^e < (2:ℚ)^p) : expo p x = e := by
  obtain ⟨g1, g2⟩ := expo_spec p x hx
  have hw : (0:ℚ) < (2:ℚ)^p := by positivity
  have hE : (0:ℚ) < (2:ℚ)^e := by positivity
  have hE' : (0:ℚ) < (2:ℚ)^(expo p x) := by positivity
  rw [le_div_iff₀ hE] at h1
  rw [div_lt_iff₀ hE] at h2
  rw [le_div_iff₀ hE'] at g1
  rw [div_lt_iff₀ hE'] at g2
  by_contra hne
  rcases lt_or_gt_of_ne hne with hlt | hgt
  · have : expo p x + 1 ≤ e := by omega
    have hm : (2:ℚ)^(expo p x + 1) ≤ (2:ℚ)^e := zpow_le_zpow_right₀ (by norm_num) this
    rw [zpow_add_one₀ (by norm_num)] at hm
    nlinarith
  · have : e + 1 ≤ expo p x := by omega
    have hm : (2:ℚ)^(e + 1) ≤ (2:ℚ)^(expo p x) := zpow_le_zpow_right₀ (by norm_num) this
    rw [zpow_add_one₀ (by norm_num)] at hm
    nlinarith

/-- numbers with a significand of fewer than `p` bits are not changed by rounding -/
theorem rn_repr (p : ℕ) (k : ℕ) (j : ℤ) (hk : 0 < k) (hk2 : k < 2 ^ p) :
    rn p ((k:ℚ) * (2:ℚ)^j) = (k:ℚ) * (2:ℚ)^j := by
  have hkq : (0:ℚ) < k := by exact_mod_cast hk
  have hx : (0:ℚ) < (k:ℚ) * (2:ℚ)^j := by positivity
  rw [rn_of_pos p hx, rnPos_eq]
  obtain ⟨g1, g2⟩ := expo_spec p _ hx
  set e := expo p ((k:ℚ) * (2:ℚ)^j)
  have hs : (k:ℚ) * (2:ℚ)^j / (2:ℚ)^e = (k:ℚ) * (2:ℚ)^(j - e) := by
    rw [zpow_sub₀ (by norm_num)]; ring
  rw [hs] at g1 g2 ⊢
  have hk2q : (k:ℚ) < (2:ℚ)^p := by exact_mod_cast hk2
  have hd : 0 ≤ j - e := by
    by_contra hneg
    have : j - e ≤ -1 := by omega
    have hm : (2:ℚ)^(j - e) ≤ (2:ℚ)^(-1:ℤ) := zpow_le_zpow_right₀ (by norm_num) this
    have : (2:ℚ)^(-1:ℤ) = 1/2 := by norm_num
    rw [this] at hm
    nlinarith
  obtain ⟨d, hd'⟩ := Int.eq_ofNat_of_zero_le hd
  rw [hd', zpow_natCast]
  have : (k:ℚ) * (2:ℚ)^d = (((k * 2^d : ℕ) : ℤ) : ℚ) := by push_cast; ring
  rw [this, rhe_int]
  push_cast
  have hj : j = d + e := by omega
  rw [hj, zpow_add₀ (by norm_num), zpow_natCast]
  ring

/-- **innocuous double rounding** of quotients with a denominator below 2^24: rounding `c/n` to 53 bits
first does not change its rounding to 24 bits.  (`c/n` is either a 25-bit number — then the first
rounding is exact — or at least `1/(2n) > 2^-25` ulps away from every 24-bit rounding boundary, while
the first rounding moves it by less than `2^-29` ulps.) -/
theorem double_round_div (c n : ℕ) (hc : 1 ≤ c) (hcn : c ≤ n) (hn : n < 2 ^ 24) :
    rn 24 (rn 53 ((c:ℚ) / n)) = rn 24 ((c:ℚ) / n) := by
  have hnpos : 0 < n := by omega
  have hnq : (0:ℚ) < n := by exact_mod_cast hnpos
  have hcq : (0:ℚ) < c := by exact_mod_cast hc
  set x : ℚ := (c:ℚ) / n with hxdef
  have hx : 0 < x := by positivity
  have hx1 : x ≤ 1 := by rw [hxdef, div_le_one hnq]; exact_mod_cast hcn
  obtain ⟨g1, g2⟩ := expo_spec 24 x hx
  set e := expo 24 x with hedef
  set s : ℚ := x / (2:ℚ)^e with hsdef
  have hE : (0:ℚ) < (2:ℚ)^e := by positivity
  have hxs : x = s * (2:ℚ)^e := by rw [hsdef]; field_simp
  -- e < 0
  have he : e < 0 := by
    by_contra hge
    have : (2:ℚ)^(0:ℤ) ≤ (2:ℚ)^e := zpow_le_zpow_right₀ (by norm_num) (by omega)
    rw [zpow_zero] at this
    have : s ≤ x := by rw [hsdef]; exact div_le_self hx.le this
    norm_num at g1
    linarith
  obtain ⟨k, hk⟩ : ∃ k : ℕ, e = -(k:ℤ) := ⟨(-e).toNat, by omega⟩
  have hsk : s = (c:ℚ) * (2:ℚ)^k / n := by
    rw [hsdef, hk, zpow_neg, zpow_natCast, hxdef]; field_simp
  set x' : ℚ := rn 53 x with hx'def
  have hx' : 0 < x' := rn_pos 53 (by norm_num) hx
  have herr := rn_err 53 hx
  set s' : ℚ := x' / (2:ℚ)^e with hs'def
  have hx's : x' = s' * (2:ℚ)^e := by rw [hs'def]; field_simp
  -- the goal in terms of s, s'
  by_cases hhalf : ∃ J : ℤ, s = (J:ℚ) / 2
  · -- 25-bit number: exactly representable in 53 bits
    obtain ⟨J, hJ⟩ := hhalf
    have hJpos : 0 < J := by
      have : (0:ℚ) < (J:ℚ) / 2 := by rw [← hJ]; norm_num at g1; linarith
      have : (0:ℚ) < (J:ℚ) := by linarith
      exact_mod_cast this
    obtain ⟨j, rfl⟩ := Int.eq_ofNat_of_zero_le hJpos.le
    have e24 : (2:ℚ)^24 = 16777216 := by norm_num
    have hjlt : j < 2 ^ 53 := by
      have h1 : ((j:ℤ):ℚ) / 2 < (2:ℚ)^24 := by rw [← hJ]; exact g2
      rw [Int.cast_natCast, e24] at h1
      have h2 : (j:ℚ) < 33554432 := by linarith
      have h3 : j < 33554432 := by exact_mod_cast h2
      omega
    have hxj : x = (j:ℚ) * (2:ℚ)^(e - 1) := by
      rw [hxs, hJ, zpow_sub₀ (by norm_num)]; push_cast; ring
    have : x' = x := by
      rw [hx'def, hxj]
      exact rn_repr 53 j (e - 1) (by exact_mod_cast hJpos) hjlt
    rw [this]
  · push Not at hhalf
    -- every half-integer is at least 1/(2n) away from s
    have hgap : ∀ J : ℤ, 1 / (2 * (n:ℚ)) ≤ |s - (J:ℚ) / 2| := by
      intro J
      have hne : (2 * (c:ℤ) * 2 ^ k - J * n : ℤ) ≠ 0 := by
        intro h0
        apply hhalf J
        rw [hsk, div_eq_div_iff hnq.ne' (by norm_num)]
        have : ((2 * (c:ℤ) * 2 ^ k - J * n : ℤ) : ℚ) = 0 := by rw [h0]; simp
        push_cast at this
        linarith
      have h1 : (1:ℚ) ≤ |((2 * (c:ℤ) * 2 ^ k - J * n : ℤ) : ℚ)| := by
        rw [← Int.cast_abs]
        exact_mod_cast Int.one_le_abs hne
      have h2 : s - (J:ℚ) / 2 = ((2 * (c:ℤ) * 2 ^ k - J * n : ℤ) : ℚ) / (2 * (n:ℚ)) := by
        rw [hsk]; push_cast; field_simp
      rw [h2, abs_div, abs_of_pos (by positivity : (0:ℚ) < 2 * (n:ℚ))]
      exact div_le_div_of_nonneg_right h1 (by positivity)
    -- the first rounding moves s by less than 1/(2n)
    have hmove : |s' - s| < 1 / (2 * (n:ℚ)) := by
      have h1 : s' - s = (x' - x) / (2:ℚ)^e := by rw [hs'def, hsdef]; ring
      rw [h1, abs_div, abs_of_pos hE]
      have h2 : |x' - x| / (2:ℚ)^e ≤ s / (2:ℚ)^53 := by
        rw [hsdef, div_div, mul_comm, ← div_div]
        exact div_le_div_of_nonneg_right herr hE.le
      have h3 : s / (2:ℚ)^53 < 1 / (2 * (n:ℚ)) := by
        have e24 : (2:ℚ)^24 = 16777216 := by norm_num
        have hn24 : (n:ℚ) < 16777216 := by rw [← e24]; exact_mod_cast hn
        have g2' : s < 16777216 := by rw [← e24]; exact g2
        have hs0 : 0 ≤ s := by rw [hsdef]; positivity
        have hsn : s * (n:ℚ) < 16777216 * 16777216 := mul_lt_mul'' g2' hn24 hs0 hnq.le
        rw [div_lt_div_iff₀ (by positivity) (by positivity)]
        norm_num
        linarith
      linarith
    have hside : ∀ J : ℤ, ((J:ℚ) / 2 < s → (J:ℚ) / 2 < s') ∧ (s < (J:ℚ) / 2 → s' < (J:ℚ) / 2) ∧
        (s ≠ (J:ℚ) / 2) := by
      intro J
      have hg := hgap J
      rw [abs_lt] at hmove
      rw [le_abs] at hg
      refine ⟨fun h => ?_, fun h => ?_, hhalf J⟩
      · rcases hg with hg | hg <;> linarith
      · rcases hg with hg | hg <;> linarith
    -- same binade
    have hb1 : (2:ℚ)^24 / 2 ≤ s' := by
      have := hside (2 ^ 24)
      have hlt : (((2:ℤ) ^ 24 : ℤ) : ℚ) / 2 < s := by
        have hne := this.2.2
        push_cast at hne ⊢
        exact lt_of_le_of_ne g1 (Ne.symm hne)
      have := this.1 hlt
      push_cast at this
      exact this.le
    have hb2 : s' < (2:ℚ)^24 := by
      have := (hside (2 ^ 25)).2.1 (by push_cast; norm_num at g2 ⊢; linarith)
      push_cast at this; norm_num at this ⊢; linarith
    have hexp : expo 24 x' = e := expo_unique 24 hx' e hb1 hb2
    -- same rounding of the significand
    have hrhe : rhe s' = rhe s := by
      obtain ⟨f1, f2⟩ := floor_spec s
      set f := s.floor with hf
      have hfs : (f:ℚ) < s := by
        have hne := (hside (2 * f)).2.2
        push_cast at hne
        exact lt_of_le_of_ne f1 (fun h => hne (by rw [← h]; ring))
      have hfs' : (f:ℚ) < s' := by
        have := (hside (2 * f)).1 (by push_cast; linarith)
        push_cast at this; linarith
      have hfs1' : s' < (f:ℚ) + 1 := by
        have := (hside (2 * f + 2)).2.1 (by push_cast; linarith)
        push_cast at this; linarith
      have hfl : s'.floor = f := by
        show ⌊s'⌋ = f
        rw [Int.floor_eq_iff]
        exact ⟨hfs'.le, hfs1'⟩
      have hmid := hside (2 * f + 1)
      push_cast at hmid
      unfold rhe
      simp only [hfl, ← hf]
      rcases lt_or_gt_of_ne hmid.2.2 with hlt | hgt
      · have h' := hmid.2.1 hlt
        have r1 : s' - (f:ℚ) < 1 / 2 := by linarith
        have r2 : s - (f:ℚ) < 1 / 2 := by linarith
        rw [if_pos r1, if_pos r2]
      · have h' := hmid.1 hgt
        have r1 : ¬ (s' - (f:ℚ) < 1 / 2) := by linarith
        have r2 : ¬ (s - (f:ℚ) < 1 / 2) := by linarith
        have r3 : 1 / 2 < s' - (f:ℚ) := by linarith
        have r4 : 1 / 2 < s - (f:ℚ) := by linarith
        rw [if_neg r1, if_pos r3, if_neg r2, if_pos r4]
    rw [rn_of_pos 24 hx', rn_of_pos 24 hx, rnPos_eq, rnPos_eq, hexp, ← hedef, ← hs'def, ← hsdef, hrhe]


/-! ## Part 2: lists -/

/-- the order on tokens is a strict total order (Python's `<` on str / int / tuples of them) -/
structure StrictTotal {τ : Type} (lt : τ → τ → Bool) : Prop where
  irrefl : ∀ a, lt a a = false
  trans : ∀ a b c, lt a b = true → lt b c = true → lt a c = true
  tri : ∀ a b, lt a b = false → lt b a = false → a = b

section
variable {τ : Type} [DecidableEq τ] {lt : τ → τ → Bool}

theorem mem_insertU (h : StrictTotal lt) (x t : τ) (l : List τ) :
    t ∈ insertU lt x l ↔ t = x ∨ t ∈ l := by
  induction l with
  | nil => simp [insertU]
  | cons y ys ih =>
    unfold insertU
    split_ifs with h1 h2
    · simp
    · simp only [List.mem_cons, ih]; tauto
    · have : x = y := h.tri x y (by simpa using h1) (by simpa using h2)
      subst this; simp

theorem pairwise_insertU (h : StrictTotal lt) (x : τ) (l : List τ)
    (hl : l.Pairwise (fun a b => lt a b = true)) :
    (insertU lt x l).Pairwise (fun a b => lt a b = true) := by
  induction l with
  | nil => simp [insertU]
  | cons y ys ih =>
    rw [List.pairwise_cons] at hl
    unfold insertU
    split_ifs with h1 h2
    · rw [List.pairwise_cons]
      refine ⟨?_, List.pairwise_cons.mpr hl⟩
      intro z hz
      rcases List.mem_cons.mp hz with rfl | hz
      · exact h1
      · exact h.trans _ _ _ h1 (hl.1 z hz)
    · rw [List.pairwise_cons]
      refine ⟨?_, ih hl.2⟩
      intro z hz
      rcases (mem_insertU h x z ys).mp hz with rfl | hz
      · exact h2
      · exact hl.1 z hz
    · exact List.pairwise_cons.mpr hl

theorem mem_sortedUnique (h : StrictTotal lt) (t : τ) (l : List τ) :
    t ∈ sortedUnique lt l ↔ t ∈ l := by
  unfold sortedUnique
  induction l with
  | nil => simp
  | cons y ys ih => simp only [List.foldr_cons, mem_insertU h, ih, List.mem_cons]

theorem pairwise_sortedUnique (h : StrictTotal lt) (l : List τ) :
    (sortedUnique lt l).Pairwise (fun a b => lt a b = true) := by
  unfold sortedUnique
  induction l with
  | nil => simp
  | cons y ys ih => exact pairwise_insertU h y _ ih

/-- a strictly sorted list is determined by its members -/
theorem sorted_ext (h : StrictTotal lt) : ∀ {l1 l2 : List τ},
    l1.Pairwise (fun a b => lt a b = true) → l2.Pairwise (fun a b => lt a b = true) →
    (∀ t, t ∈ l1 ↔ t ∈ l2) → l1 = l2
  | [], [], _, _, _ => rfl
  | [], b :: bs, _, _, hm => by have := (hm b).mpr (by simp); simp at this
  | a :: as, [], _, _, hm => by have := (hm a).mp (by simp); simp at this
  | a :: as, b :: bs, p1, p2, hm => by
    rw [List.pairwise_cons] at p1 p2
    have hab : a = b := by
      by_contra hne
      have ha : a ∈ bs := by
        have := (hm a).mp (by simp)
        rcases List.mem_cons.mp this with h' | h'
        · exact absurd h' hne
        · exact h'
      have hb : b ∈ as := by
        have := (hm b).mpr (by simp)
        rcases List.mem_cons.mp this with h' | h'
        · exact absurd h'.symm hne
        · exact h'
      have h1 := p2.1 a ha
      have h2 := p1.1 b hb
      have := h.trans _ _ _ h1 h2
      rw [h.irrefl] at this; exact Bool.false_ne_true this
    subst hab
    congr 1
    apply sorted_ext h p1.2 p2.2
    intro t
    constructor
    · intro ht
      have := (hm t).mp (List.mem_cons_of_mem _ ht)
      rcases List.mem_cons.mp this with h' | h'
      · subst h'; have := p1.1 t ht; rw [h.irrefl] at this; exact absurd this Bool.false_ne_true
      · exact h'
    · intro ht
      have := (hm t).mpr (List.mem_cons_of_mem _ ht)
      rcases List.mem_cons.mp this with h' | h'
      · subst h'; have := p2.1 t ht; rw [h.irrefl] at this; exact absurd this Bool.false_ne_true
      · exact h'

theorem sortedUnique_congr (h : StrictTotal lt) {l l' : List τ} (hm : ∀ t, t ∈ l ↔ t ∈ l') :
    sortedUnique lt l = sortedUnique lt l' :=
  sorted_ext h (pairwise_sortedUnique h l) (pairwise_sortedUnique h l')
    (fun t => by rw [mem_sortedUnique h, mem_sortedUnique h, hm])


/-! ### permuting documents and tokens inside documents -/

/-- `docs'` arises from `docs` by permuting the documents and the tokens inside each document -/
def DocsPerm (docs docs' : List (List τ)) : Prop :=
  ∃ m, m.Perm docs ∧ List.Forall₂ List.Perm m docs'

theorem forall₂_perm_flatten {m d : List (List τ)} (h : List.Forall₂ List.Perm m d) :
    m.flatten.Perm d.flatten := by
  induction h with
  | nil => simp
  | cons hab _ ih => simp only [List.flatten_cons]; exact hab.append ih

theorem forall₂_perm_docCount (t : τ) {m d : List (List τ)} (h : List.Forall₂ List.Perm m d) :
    docCount t m = docCount t d := by
  unfold docCount
  induction h with
  | nil => rfl
  | cons hab _ ih =>
    simp only [List.countP_cons, ih]
    congr 1
    simp only [List.contains_iff_mem, hab.mem_iff]

theorem forall₂_length {α β : Type} {R : α → β → Prop} {a : List α} {b : List β}
    (h : List.Forall₂ R a b) : a.length = b.length := by
  induction h with
  | nil => rfl
  | cons _ _ ih => simp [ih]

theorem DocsPerm.flatten {docs docs' : List (List τ)} (h : DocsPerm docs docs') :
    docs.flatten.Perm docs'.flatten := by
  obtain ⟨m, hm, hf⟩ := h
  exact (hm.flatten.symm).trans (forall₂_perm_flatten hf)

theorem DocsPerm.docCount_eq {docs docs' : List (List τ)} (h : DocsPerm docs docs') (t : τ) :
    docCount t docs = docCount t docs' := by
  obtain ⟨m, hm, hf⟩ := h
  rw [← forall₂_perm_docCount t hf]
  unfold docCount
  exact (hm.countP_eq _).symm

theorem DocsPerm.length_eq {docs docs' : List (List τ)} (h : DocsPerm docs docs') :
    docs.length = docs'.length := by
  obtain ⟨m, hm, hf⟩ := h
  rw [← forall₂_length hf, hm.length_eq]

theorem table_congr (hlt : StrictTotal lt) {docs docs' : List (List τ)} (h : DocsPerm docs docs') :
    table lt docs = table lt docs' := by
  unfold table
  have hp := h.flatten
  rw [sortedUnique_congr hlt (fun t => hp.mem_iff)]
  apply List.map_congr_left
  intro t _
  rw [hp.count_eq, h.docCount_eq]

theorem forall₂_perm_refl (l : List (List τ)) : List.Forall₂ List.Perm l l := by
  induction l with
  | nil => exact List.Forall₂.nil
  | cons a as ih => exact List.Forall₂.cons (List.Perm.refl a) ih

theorem docsPerm_of_perm {docs docs' : List (List τ)} (h : docs'.Perm docs) : DocsPerm docs docs' :=
  ⟨docs', h, forall₂_perm_refl docs'⟩

theorem vocab_congr (hlt : StrictTotal lt) (P : Params τ)
    {docs docs' : List (List τ)} (h : DocsPerm docs docs') : vocab lt P docs' = vocab lt P docs := by
  unfold vocab
  rw [table_congr hlt h, h.flatten.length_eq, h.length_eq]

/-! ### membership in the vocabulary before the top-k step -/

theorem mem_table (hlt : StrictTotal lt) (docs : List (List τ)) (r : Row τ) :
    r ∈ table lt docs ↔ r.1 ∈ docs.flatten ∧ r = (r.1, docs.flatten.count r.1, docCount r.1 docs) := by
  unfold table
  simp only [List.mem_map, mem_sortedUnique hlt]
  constructor
  · rintro ⟨t, ht, rfl⟩; exact ⟨ht, rfl⟩
  · rintro ⟨h1, h2⟩; exact ⟨r.1, h1, h2.symm⟩

theorem mem_vocab0 (hlt : StrictTotal lt) (P : Params τ) (docs : List (List τ)) (t : τ) :
    t ∈ vocab0 lt P docs ↔ t ∈ docs.flatten ∧
      keeps P docs.flatten.length docs.length (t, docs.flatten.count t, docCount t docs) = true := by
  unfold vocab0 survivors
  simp only [List.map_map, List.mem_map, List.mem_filter, Function.comp]
  constructor
  · rintro ⟨r, ⟨hr, hk⟩, rfl⟩
    obtain ⟨h1, h2⟩ := (mem_table hlt docs r).mp hr
    refine ⟨h1, ?_⟩
    rw [← h2]; exact hk
  · rintro ⟨h1, hk⟩
    exact ⟨_, ⟨(mem_table hlt docs _).mpr ⟨h1, rfl⟩, hk⟩, rfl⟩

theorem count_le_total (docs : List (List τ)) (t : τ) : docs.flatten.count t ≤ docs.flatten.length :=
  List.count_le_length

theorem docCount_le (docs : List (List τ)) (t : τ) : docCount t docs ≤ docs.length :=
  List.countP_le_length

theorem total_pos_of_mem {docs : List (List τ)} {t : τ} (h : t ∈ docs.flatten) :
    0 < docs.flatten.length ∧ 0 < docs.length := by
  constructor
  · exact List.length_pos_of_mem h
  · rcases docs with _ | ⟨d, ds⟩
    · simp at h
    · simp


/-! ### the top-k step -/

theorem insertQ_perm (x : ℚ) (l : List ℚ) : (insertQ x l).Perm (x :: l) := by
  induction l with
  | nil => exact List.Perm.refl _
  | cons y ys ih =>
    unfold insertQ
    split_ifs
    · exact List.Perm.refl _
    · exact (List.Perm.cons y ih).trans (List.Perm.swap x y ys)

theorem insertQ_sorted (x : ℚ) (l : List ℚ) (h : l.Pairwise (· ≤ ·)) : (insertQ x l).Pairwise (· ≤ ·) := by
  induction l with
  | nil => simp [insertQ]
  | cons y ys ih =>
    rw [List.pairwise_cons] at h
    unfold insertQ
    split_ifs with hxy
    · rw [List.pairwise_cons]
      refine ⟨?_, List.pairwise_cons.mpr h⟩
      intro z hz
      rcases List.mem_cons.mp hz with rfl | hz
      · exact hxy
      · exact le_trans hxy (h.1 z hz)
    · rw [List.pairwise_cons]
      refine ⟨?_, ih h.2⟩
      intro z hz
      rcases List.mem_cons.mp ((insertQ_perm x ys).mem_iff.mp hz) with rfl | hz
      · exact (not_le.mp hxy).le
      · exact h.1 z hz

theorem sortFreqs_perm (L : List (τ × ℚ)) : (sortFreqs L).Perm (L.map (·.2)) := by
  unfold sortFreqs
  induction L with
  | nil => exact List.Perm.refl _
  | cons e es ih =>
    simp only [List.map_cons, List.foldr_cons]
    exact (insertQ_perm _ _).trans (List.Perm.cons _ ih)

theorem sortFreqs_sorted (L : List (τ × ℚ)) : (sortFreqs L).Pairwise (· ≤ ·) := by
  unfold sortFreqs
  induction L with
  | nil => simp
  | cons e es ih =>
    simp only [List.map_cons, List.foldr_cons]
    exact insertQ_sorted _ _ ih

theorem topk_none (L : List (τ × ℚ)) : topk none L = L := rfl

theorem topk_of_le {k : ℕ} {L : List (τ × ℚ)} (h : L.length ≤ k) : topk (some k) L = L := by
  unfold topk; simp only []; rw [dif_neg (by omega)]

theorem topk_sublist (k : Option ℕ) (L : List (τ × ℚ)) : (topk k L).Sublist L := by
  unfold topk
  split
  · exact List.Sublist.refl _
  · split_ifs
    · exact List.filter_sublist
    · exact List.Sublist.refl _

/-- in an ascending list at most `len - (m+1)` entries exceed the entry at position `m` -/
theorem countP_gt_sorted (s : List ℚ) (hsorted : s.Pairwise (· ≤ ·)) (m : ℕ) (hml : m < s.length) (thr : ℚ)
    (hthr : thr = s[m]) :
    List.countP (fun q => decide (thr < q)) s ≤ s.length - (m + 1) := by
  have hsplit : s = s.take (m + 1) ++ s.drop (m + 1) := (List.take_append_drop _ _).symm
  have h1 : List.countP (fun q => decide (thr < q)) (s.take (m + 1)) = 0 := by
    rw [List.countP_eq_zero]
    intro x hx
    simp only [decide_eq_true_eq, not_lt]
    obtain ⟨i, hi, rfl⟩ := List.mem_iff_getElem.mp hx
    simp only [List.length_take] at hi
    rw [List.getElem_take, hthr]
    rcases Nat.lt_or_ge i m with hlt | hge
    · exact List.pairwise_iff_getElem.mp hsorted i m (by omega) hml hlt
    · have : i = m := by omega
      subst this; exact le_refl _
  have h2 : List.countP (fun q => decide (thr < q)) (s.drop (m + 1)) ≤ s.length - (m + 1) := by
    calc _ ≤ (s.drop (m + 1)).length := List.countP_le_length
      _ = s.length - (m + 1) := List.length_drop
  calc List.countP (fun q => decide (thr < q)) s
      = List.countP (fun q => decide (thr < q)) (s.take (m + 1) ++ s.drop (m + 1)) := by rw [← hsplit]
    _ = _ + _ := List.countP_append
    _ ≤ s.length - (m + 1) := by rw [h1]; simpa using h2

/-- the threshold of the top-k step: the kept entries are exactly those above it, and there are at most `k` -/
theorem topk_threshold {k : ℕ} {L : List (τ × ℚ)} (h : k < L.length) :
    ∃ thr : ℚ, topk (some k) L = L.filter (fun e => decide (thr < e.2)) ∧
      (L.filter (fun e => decide (thr < e.2))).length ≤ k := by
  have hlen := length_sortFreqs L
  have hml : L.length - k - 1 < (sortFreqs L).length := by rw [hlen]; omega
  refine ⟨(sortFreqs L)[L.length - k - 1]'hml, ?_, ?_⟩
  · unfold topk; simp only []; rw [dif_pos h]
  · have hc := countP_gt_sorted (sortFreqs L) (sortFreqs_sorted L) _ hml _ rfl
    rw [(sortFreqs_perm L).countP_eq, List.countP_map, hlen] at hc
    rw [← List.countP_eq_length_filter]
    have : (fun e : τ × ℚ => decide ((sortFreqs L)[L.length - k - 1] < e.2)) =
        ((fun q => decide ((sortFreqs L)[L.length - k - 1] < q)) ∘ fun x : τ × ℚ => x.2) := rfl
    rw [this]
    omega

theorem topk_length_le (k : ℕ) (L : List (τ × ℚ)) : (topk (some k) L).length ≤ k := by
  rcases Nat.lt_or_ge k L.length with h | h
  · obtain ⟨thr, h1, h2⟩ := topk_threshold h
    rw [h1]; exact h2
  · rw [topk_of_le h]; exact h

theorem topk_dominates (k : Option ℕ) (L : List (τ × ℚ)) {a b : τ × ℚ}
    (ha : a ∈ topk k L) (hb : b ∈ L) (hnb : b ∉ topk k L) : b.2 < a.2 := by
  match k with
  | none => exact absurd hb hnb
  | some k =>
    rcases Nat.lt_or_ge k L.length with h | h
    · obtain ⟨thr, h1, _⟩ := topk_threshold h
      rw [h1] at ha hnb
      simp only [List.mem_filter, decide_eq_true_eq, not_and, not_lt] at ha hnb
      exact lt_of_le_of_lt (hnb hb) ha.2
    · rw [topk_of_le h] at hnb; exact absurd hb hnb


/-! ### the learned vocabulary as a sublist of the sorted unique tokens -/

theorem survivors_map_fst (P : Params τ) (n D : ℕ) (tab : List (Row τ)) :
    (survivors P n D tab).map (·.1) = (tab.filter (keeps P n D)).map (·.1) := by
  unfold survivors; simp [List.map_map, Function.comp]

theorem table_map_fst (docs : List (List τ)) :
    (table lt docs).map (·.1) = sortedUnique lt docs.flatten := by
  unfold table
  rw [List.map_map]
  conv_rhs => rw [← List.map_id (sortedUnique lt docs.flatten)]
  apply List.map_congr_left
  intro t _; rfl

theorem vocab_sublist_vocab0 (P : Params τ) (docs : List (List τ)) :
    (vocab lt P docs).Sublist (vocab0 lt P docs) := by
  unfold vocab vocab0 prune
  exact (topk_sublist _ _).map _

theorem vocab0_sublist (P : Params τ) (docs : List (List τ)) :
    (vocab0 lt P docs).Sublist (sortedUnique lt docs.flatten) := by
  unfold vocab0
  rw [survivors_map_fst, ← table_map_fst]
  exact List.filter_sublist.map _

theorem pairwise_vocab (hlt : StrictTotal lt) (P : Params τ) (docs : List (List τ)) :
    (vocab lt P docs).Pairwise (fun a b => lt a b = true) :=
  (pairwise_sortedUnique hlt _).sublist ((vocab_sublist_vocab0 P docs).trans (vocab0_sublist P docs))

theorem mem_survivors (hlt : StrictTotal lt) (P : Params τ) (docs : List (List τ)) (e : τ × ℚ)
    (h : e ∈ survivors P docs.flatten.length docs.length (table lt docs)) :
    e.2 = freq53 (docs.flatten.count e.1) docs.flatten.length := by
  unfold survivors at h
  simp only [List.mem_map, List.mem_filter] at h
  obtain ⟨r, ⟨hr, _⟩, rfl⟩ := h
  obtain ⟨_, h2⟩ := (mem_table hlt docs r).mp hr
  simp only []
  rw [h2]

/-! ### lexicographic order on n-grams -/

theorem lexLt_strictTotal (hlt : StrictTotal lt) : StrictTotal (lexLt lt) where
  irrefl := by
    intro a
    induction a with
    | nil => rfl
    | cons x xs ih => simp [lexLt, hlt.irrefl, ih]
  tri := by
    intro a
    induction a with
    | nil => intro b h1 _; cases b with
      | nil => rfl
      | cons y ys => simp [lexLt] at h1
    | cons x xs ih => intro b h1 h2; cases b with
      | nil => simp [lexLt] at h2
      | cons y ys =>
        simp only [lexLt, Bool.or_eq_false_iff, Bool.and_eq_false_iff, Bool.not_eq_false'] at h1 h2
        have hxy : x = y := hlt.tri x y h1.1 h2.1
        subst hxy
        have hi := hlt.irrefl x
        rw [hi] at h1 h2
        simp only [Bool.false_eq_true, false_or] at h1 h2
        rw [ih ys h1.2 h2.2]
  trans := by
    intro a
    induction a with
    | nil => intro b c h1 h2; cases b with
      | nil => simp [lexLt] at h1
      | cons y ys => cases c with
        | nil => simp [lexLt] at h2
        | cons z zs => rfl
    | cons x xs ih => intro b c h1 h2; cases b with
      | nil => simp [lexLt] at h1
      | cons y ys => cases c with
        | nil => simp [lexLt] at h2
        | cons z zs =>
          simp only [lexLt, Bool.or_eq_true, Bool.and_eq_true, Bool.not_eq_true'] at h1 h2 ⊢
          -- x < z whenever one of the two steps is strict at the head
          have step1 : lt x y = true → lt z y = false → lt x z = true := by
            intro hxy hzy
            by_cases hyz : lt y z = true
            · exact hlt.trans _ _ _ hxy hyz
            · have : y = z := hlt.tri y z (by simpa using hyz) hzy
              subst this; exact hxy
          have step2 : lt y x = false → lt y z = true → lt x z = true := by
            intro hyx hyz
            by_cases hxy : lt x y = true
            · exact hlt.trans _ _ _ hxy hyz
            · have : x = y := hlt.tri x y (by simpa using hxy) hyx
              subst this; exact hyz
          rcases h1 with hxy | ⟨hyx, hl1⟩
          · rcases h2 with hyz | ⟨hzy, _⟩
            · exact Or.inl (hlt.trans _ _ _ hxy hyz)
            · exact Or.inl (step1 hxy hzy)
          · rcases h2 with hyz | ⟨hzy, hl2⟩
            · exact Or.inl (step2 hyx hyz)
            · by_cases hxy : lt x y = true
              · exact Or.inl (step1 hxy hzy)
              · by_cases hyz : lt y z = true
                · exact Or.inl (step2 hyx hyz)
                · have e1 : x = y := hlt.tri x y (by simpa using hxy) hyx
                  have e2 : y = z := hlt.tri y z (by simpa using hyz) hzy
                  subst e1; subst e2
                  exact Or.inr ⟨hlt.irrefl x, ih ys zs hl1 hl2⟩

end

end VecModel.Vocab
