import VecModel.Lemmas.Tree
import VecModel.Lemmas.TreeRemove
/-
  Helper lemmas for C15: on a pruned forest the estimator never fails (no IndexError in
  `remove_node`, no KeyError in the alignment to the label dictionary).
-/
namespace VecModel.Tree

/-! ### `remove_node` keeps the shape -/

theorem removeNode_length {L L' : Lil} {x : Nat} (h : removeNode L x = .ok L') : L'.length = L.length := by
  unfold removeNode at h
  cases e : L[x]? with
  | none => rw [e] at h; cases h
  | some r =>
    rw [e] at h
    simp only [Except.ok.injEq] at h
    subst h; simp

theorem removeNodes_ok {L : Lil} {xs : List Nat} (hxs : ∀ x ∈ xs, x < L.length) :
    ∃ L', removeNodes L xs = .ok L' ∧ L'.length = L.length := by
  induction xs generalizing L with
  | nil => exact ⟨L, rfl, rfl⟩
  | cons x xs ih =>
    have hx : x < L.length := hxs x List.mem_cons_self
    have : ∃ L1, removeNode L x = .ok L1 := by
      unfold removeNode
      rw [List.getElem?_eq_getElem hx]
      exact ⟨_, rfl⟩
    obtain ⟨L1, h1⟩ := this
    have hl := removeNode_length h1
    obtain ⟨L', h2, hl2⟩ := ih (L := L1) (fun y hy => hl ▸ hxs y (List.mem_cons_of_mem _ hy))
    refine ⟨L', ?_, by omega⟩
    unfold removeNodes
    rw [h1]
    exact h2

def AllCols (n : Nat) (L : Lil) : Prop := ∀ row ∈ L, ∀ p ∈ row, p.1 < n

theorem lilOk_iff {n : Nat} {L : Lil} : lilOk n L = true ↔ L.length = n ∧ AllCols n L := by
  simp [lilOk, AllCols, List.all_eq_true]

theorem removeNode_allCols {n : Nat} {L L' : Lil} {x : Nat} (hc : AllCols n L)
    (h : removeNode L x = .ok L') : AllCols n L' := by
  have hx : ∃ rowx, L[x]? = some rowx := by
    unfold removeNode at h
    cases e : L[x]? with
    | none => rw [e] at h; cases h
    | some r => exact ⟨r, rfl⟩
  obtain ⟨rowx, hx⟩ := hx
  intro row' hrow' p hp
  obtain ⟨i, hi⟩ := List.mem_iff_getElem?.mp hrow'
  rw [removeNode_getElem? hx h i] at hi
  cases hu : L[i]? with
  | none => rw [hu] at hi; cases hi
  | some row =>
    rw [hu] at hi
    simp only [Option.map_some, Option.some.injEq] at hi
    subst hi
    have hrow := hc row (List.mem_of_getElem? hu)
    have hrx := hc rowx (List.mem_of_getElem? hx)
    unfold editRow at hp
    by_cases hix : i = x
    · simp [hix] at hp
    · simp only [hix, if_false] at hp
      cases hk : colIdx row x with
      | none => rw [hk] at hp; exact hrow p hp
      | some k =>
        rw [hk] at hp
        simp only [List.mem_append] at hp
        rcases hp with (hp | hp) | hp
        · exact hrow p (List.mem_of_mem_take hp)
        · exact hrx p ((rowToRemove_sublist rowx x).subset hp)
        · exact hrow p (List.mem_of_mem_drop hp)

theorem removeNodes_allCols {n : Nat} {L L' : Lil} {xs : List Nat} (hc : AllCols n L)
    (h : removeNodes L xs = .ok L') : AllCols n L' := by
  induction xs generalizing L with
  | nil => simp only [removeNodes, Except.ok.injEq] at h; subst h; exact hc
  | cons x xs ih =>
    unfold removeNodes at h
    cases h1 : removeNode L x with
    | error e => rw [h1] at h; cases h
    | ok L1 =>
      rw [h1] at h
      exact ih (removeNode_allCols hc h1) h

/-! ### isolated nodes contribute nothing -/

theorem rowEnt_ne_zero {row : Row} {v : Nat} (h : rowEnt row v ≠ 0) : v ∈ cols row := by
  induction row with
  | nil => simp [rowEnt] at h
  | cons p ps ih =>
    simp only [rowEnt, List.foldr_cons] at h
    by_cases e : p.1 = v
    · simp [cols, e]
    · simp only [e, if_false] at h
      have := ih h
      simp only [cols, List.map_cons, List.mem_cons]
      exact Or.inr this

theorem lilEnt_eq_zero {L : Lil} {u v : Nat} (h : ¬ HasEdge L u v) : lilEnt L u v = 0 := by
  unfold lilEnt
  cases e : L[u]? with
  | none => rfl
  | some row =>
    simp only
    cases hz : decide (rowEnt row v = 0) with
    | true => simpa using hz
    | false =>
      exfalso
      apply h
      exact ⟨row, e, rowEnt_ne_zero (by simpa using hz)⟩

theorem walks_iso_left {n : Nat} {L : Lil} {x : Nat} (hx : x < n) (hiso : ∀ w, ¬ HasEdge L x w)
    (k v : Nat) : walks n (adjMat n L) (k + 1) x v = 0 := by
  simp only [walks]
  apply sumTo_eq_zero
  intro m hm
  unfold adjMat
  rw [ent_ofFn hx hm, lilEnt_eq_zero (hiso m)]
  grind

theorem walks_iso_right {n : Nat} {L : Lil} {x : Nat} (hx : x < n) (hiso : ∀ w, ¬ HasEdge L w x)
    (k : Nat) {u : Nat} (hu : u < n) : walks n (adjMat n L) (k + 1) u x = 0 := by
  rw [walks_succ_right k hu hx]
  apply sumTo_eq_zero
  intro m hm
  unfold adjMat
  rw [ent_ofFn hm hx, lilEnt_eq_zero (hiso m)]
  grind

theorem walkSum_zero {n : Nat} {A : Mat} {u v : Nat} (ws : List Rat) (k : Nat)
    (h : ∀ j, walks n A (k + 1 + j) u v = 0) : walkSum n A ws (k + 1) u v = 0 := by
  induction ws generalizing k with
  | nil => rfl
  | cons w ws ih =>
    simp only [walkSum]
    rw [show walks n A (k + 1) u v = 0 from h 0, ih (k + 1) (fun j => by
      have := h (j + 1)
      rwa [show k + 1 + (j + 1) = k + 1 + 1 + j by omega] at this)]
    grind

theorem mem_nodesToRemove {dict labels : List Nat} {u : Nat} :
    u ∈ nodesToRemove dict labels ↔ ∃ l, labels[u]? = some l ∧ l ∉ dict := by
  unfold nodesToRemove
  simp only [List.mem_filter, List.mem_range]
  constructor
  · rintro ⟨hu, h⟩
    rw [List.getElem?_eq_getElem hu] at h
    exact ⟨labels[u], List.getElem?_eq_getElem hu, by simpa using h⟩
  · rintro ⟨l, hl, hd⟩
    have hu := (List.getElem?_eq_some_iff.mp hl).1
    refine ⟨hu, ?_⟩
    rw [hl]; simpa using hd

/-- one pruned tree: nodes whose label is outside the dictionary are isolated ⇒ no KeyError -/
theorem treeCounts_ok {ws : List Rat} {dict : List Nat} {t : TreeIn} (hws : ws ≠ [])
    (hshape : lilOk t.n t.lil = true) (hlen : t.labels.length = t.n)
    (hiso : ∀ u l, t.labels[u]? = some l → l ∉ dict →
      ∀ w, ¬ HasEdge t.lil u w ∧ ¬ HasEdge t.lil w u) :
    ∃ G, treeCounts ws dict t = .ok G := by
  unfold treeCounts
  have hcond : (!(lilOk t.n t.lil) || t.labels.length != t.n) = false := by simp [hshape, hlen]
  simp only [hcond, Bool.false_eq_true, if_false]
  obtain ⟨count, hb⟩ := build_ok (n := t.n) (A := adjMat t.n t.lil) hws
  rw [hb]
  simp only [Except.bind]
  generalize hsc : sparseCollapse t.n count t.labels = r
  obtain ⟨C, cls⟩ := r
  simp only
  suffices hk : keysOk dict cls C = true by simp [hk]
  simp only [keysOk, List.all_eq_true, List.mem_range, Bool.or_eq_true, beq_iff_eq, Bool.and_eq_true]
  intro a ha b hb'
  have ea : cls[a]? = some cls[a] := List.getElem?_eq_getElem ha
  have eb : cls[b]? = some cls[b] := List.getElem?_eq_getElem hb'
  by_cases hda : cls[a] ∈ dict
  · by_cases hdb : cls[b] ∈ dict
    · right
      simp [clsAt, ea, eb, hda, hdb]
    · left
      rcases sparseCollapse_cases hsc with ⟨_, hcls⟩ | ⟨hcls, hC⟩
      · subst hcls; simp at ha
      · have hc : cls.Nodup := hcls ▸ classesOf_nodup t.labels
        have hm : ∀ l ∈ t.labels, l ∈ cls := fun l hl => hcls ▸ mem_classesOf.mpr hl
        rw [hC, collapse_entry hlen hc hm ea eb]
        apply sumTo_eq_zero; intro u hu
        apply sumTo_eq_zero; intro v hv
        split
        · rename_i hlab
          rw [build_spec hb hu hv]
          apply walkSum_zero ws 0
          intro j
          have := walks_iso_right hv (fun w => (hiso v _ hlab.2 hdb w).2) j hu
          simpa [Nat.add_comm] using this
        · rfl
  · left
    rcases sparseCollapse_cases hsc with ⟨_, hcls⟩ | ⟨hcls, hC⟩
    · subst hcls; simp at ha
    · have hc : cls.Nodup := hcls ▸ classesOf_nodup t.labels
      have hm : ∀ l ∈ t.labels, l ∈ cls := fun l hl => hcls ▸ mem_classesOf.mpr hl
      rw [hC, collapse_entry hlen hc hm ea eb]
      apply sumTo_eq_zero; intro u hu
      apply sumTo_eq_zero; intro v hv
      split
      · rename_i hlab
        rw [build_spec hb hu hv]
        apply walkSum_zero ws 0
        intro j
        have := walks_iso_left hu (fun w => (hiso u _ hlab.1 hda w).1) j v
        simpa [Nat.add_comm] using this
      · rfl

/-- preprocessing a well-formed forest (`mask_string=None`) never fails, keeps the shape and the
labels, and isolates every node whose label is outside the dictionary -/
theorem preprocess_ok {dict : List Nat} {t : TreeIn}
    (hshape : lilOk t.n t.lil = true) (hlen : t.labels.length = t.n)
    (hnd : NoDupCols t.lil) (hin : InDeg1 t.lil) :
    ∃ t', preprocess dict none t = .ok t' ∧ t'.n = t.n ∧ t'.labels = t.labels ∧
      lilOk t'.n t'.lil = true ∧
      removeNodes t.lil (nodesToRemove dict t.labels) = .ok t'.lil ∧
      (∀ u l, t'.labels[u]? = some l → l ∉ dict → ∀ w, ¬ HasEdge t'.lil u w ∧ ¬ HasEdge t'.lil w u) := by
  obtain ⟨hL, hC⟩ := lilOk_iff.mp hshape
  have hxs : ∀ x ∈ nodesToRemove dict t.labels, x < t.lil.length := by
    intro x hx
    obtain ⟨l, hl, _⟩ := mem_nodesToRemove.mp hx
    have := (List.getElem?_eq_some_iff.mp hl).1
    omega
  obtain ⟨L', hrm, hlen'⟩ := removeNodes_ok hxs
  refine ⟨{ t with lil := L' }, ?_, rfl, rfl, ?_, hrm, ?_⟩
  · simp [preprocess, hrm, Except.bind]
  · exact lilOk_iff.mpr ⟨by simp only; omega, removeNodes_allCols hC hrm⟩
  · intro u l hl hd w
    exact removeNodes_isolated hnd hin hrm (mem_nodesToRemove.mpr ⟨l, hl, hd⟩) w

/-- a well-formed rooted forest: `n` rows, columns below `n`, one label per node, no column stored
twice in a row, at most one predecessor per node (edges parent → child) -/
def WellFormed (t : TreeIn) : Prop :=
  lilOk t.n t.lil = true ∧ t.labels.length = t.n ∧ NoDupCols t.lil ∧ InDeg1 t.lil

/-- a pruned tree: well-shaped and every node labelled outside the dictionary is isolated -/
def Pruned (dict : List Nat) (t : TreeIn) : Prop :=
  lilOk t.n t.lil = true ∧ t.labels.length = t.n ∧
    ∀ u l, t.labels[u]? = some l → l ∉ dict → ∀ w, ¬ HasEdge t.lil u w ∧ ¬ HasEdge t.lil w u

theorem mapM_ok {α β : Type} {f : α → Except Err β} {P : β → Prop} {l : List α}
    (h : ∀ a ∈ l, ∃ b, f a = .ok b ∧ P b) : ∃ bs, l.mapM f = .ok bs ∧ ∀ b ∈ bs, P b := by
  induction l with
  | nil => exact ⟨[], by simp [pure, Except.pure], by simp⟩
  | cons a l ih =>
    obtain ⟨b, hb, pb⟩ := h a List.mem_cons_self
    obtain ⟨bs, hbs, pbs⟩ := ih (fun a' ha' => h a' (List.mem_cons_of_mem _ ha'))
    refine ⟨b :: bs, ?_, ?_⟩
    · simp [List.mapM_cons, hb, hbs, bind, Except.bind, pure, Except.pure]
    · intro c hc
      rcases List.mem_cons.mp hc with rfl | hc
      · exact pb
      · exact pbs c hc

theorem sumTrees_ok {ws : List Rat} {dict : List Nat} {ts : List TreeIn} (hws : ws ≠ [])
    (h : ∀ t ∈ ts, Pruned dict t) : ∃ G, sumTrees ws dict ts = .ok G := by
  induction ts with
  | nil => exact ⟨_, rfl⟩
  | cons t ts ih =>
    obtain ⟨h1, h2, h3⟩ := h t List.mem_cons_self
    obtain ⟨G1, e1⟩ := treeCounts_ok (dict := dict) hws h1 h2 h3
    obtain ⟨G2, e2⟩ := ih (fun t' ht' => h t' (List.mem_cons_of_mem _ ht'))
    exact ⟨add dict.length dict.length G1 G2, by simp [sumTrees, e1, e2, Except.bind]⟩

/-- **the estimator never fails on well-formed forests** (`mask_string=None`, radius ≥ 1) -/
theorem vectorize_total {ws : List Rat} {dict : List Nat} {trees : List TreeIn} (o : Orient)
    (hws : ws ≠ []) (hwf : ∀ t ∈ trees, WellFormed t) :
    ∃ ts G, trees.mapM (preprocess dict none) = .ok ts ∧ (∀ t ∈ ts, Pruned dict t) ∧
      vectorize ws dict none false o trees = .ok G := by
  obtain ⟨ts, hts, pts⟩ := mapM_ok (f := preprocess dict none) (P := Pruned dict) (l := trees) (by
    intro t ht
    obtain ⟨h1, h2, h3, h4⟩ := hwf t ht
    obtain ⟨t', e, hn, hl, hs, _, hiso⟩ := preprocess_ok (dict := dict) h1 h2 h3 h4
    exact ⟨t', e, hs, by rw [hl, hn]; exact h2, hiso⟩)
  obtain ⟨G, hG⟩ := sumTrees_ok (ws := ws) hws pts
  refine ⟨ts, orientMat dict.length o G, hts, pts, ?_⟩
  simp [vectorize, hts, cooc, hG, Except.bind]

end VecModel.Tree
