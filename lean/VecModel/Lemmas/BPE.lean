import VecModel.Model.BPE
/- Helper lemmas for Props/C09 (and the BPE parts of C02, C10). Core Lean only. -/
namespace VecModel.BPE

theorem contract_nil (p : Pair) (c : Int) : contract p c [] = [] := by
  simp [contract]

theorem contract_single (p : Pair) (c : Int) (x : Int) : contract p c [x] = [x] := by
  simp [contract]

theorem contract_cons_cons (p : Pair) (c : Int) (a b : Int) (rest : List Int) :
    contract p c (a :: b :: rest) =
      if a = p.1 ∧ b = p.2 then c :: contract p c rest else a :: contract p c (b :: rest) := by
  simp [contract]

/-- what happens after the loop of `contract_pair` -/
def finish (a : List Int) (r : Bool × List Int) : Except Err (List Int) :=
  if !r.1 && decide (a.length > 0) then
    (rd "char_list" a (a.length - 1)) >>= fun x => wr a.length r.2 x
  else .ok r.2

theorem contractPairIdx_eq_bind (a : List Int) (p : Pair) (c : Int) :
    contractPairIdx a p c = (cpLoop a p c (a.length - 1) 0 false [] >>= finish a) := by
  unfold contractPairIdx finish
  rfl

theorem wr_ok {n : Nat} {out : List Int} {x : Int} (h : out.length < n) :
    wr n out x = .ok (out ++ [x]) := by
  simp [wr, h]

theorem drop_eq_cons_cons {a : List Int} {i : Nat} (h : i + 1 < a.length) :
    a.drop i = a[i] :: a[i+1] :: a.drop (i + 2) := by
  rw [List.drop_eq_getElem_cons (by omega), List.drop_eq_getElem_cons (by omega)]

theorem cpLoop_finish (a : List Int) (p : Pair) (c : Int) :
    ∀ (fuel i : Nat) (skip : Bool) (out : List Int),
      i + fuel + 1 = a.length → out.length ≤ i →
      (cpLoop a p c fuel i skip out >>= finish a) =
        .ok (out ++ contract p c (a.drop (if skip then i + 1 else i))) := by
  intro fuel
  induction fuel with
  | zero =>
    intro i skip out hi hout
    cases skip with
    | true =>
      have : a.drop (i + 1) = [] := List.drop_eq_nil_of_le (by omega)
      simp [cpLoop, finish, this, contract_nil, bind, Except.bind]
    | false =>
      have hlt : i < a.length := by omega
      have hd : a.drop i = [a[i]] := by
        rw [List.drop_eq_getElem_cons hlt]
        have : a.drop (i + 1) = [] := List.drop_eq_nil_of_le (by omega)
        rw [this]
      have hpos : a.length > 0 := by omega
      have hidx : a.length - 1 = i := by omega
      simp only [cpLoop, finish, bind, Except.bind, Bool.not_false, Bool.true_and, hpos,
        decide_true, if_true, hidx, rd_ok hlt, Bool.false_eq_true, if_false, hd, contract_single]
      rw [wr_ok (by omega)]
  | succ fuel ih =>
    intro i skip out hi hout
    cases skip with
    | true =>
      have := ih (i + 1) false out (by omega) (by omega)
      simpa [cpLoop] using this
    | false =>
      have h0 : i < a.length := by omega
      have h1 : i + 1 < a.length := by omega
      simp only [cpLoop, Bool.false_eq_true, if_false, rd_ok h0, rd_ok h1, bind, Except.bind]
      rw [drop_eq_cons_cons h1, contract_cons_cons]
      by_cases hm : a[i] = p.1 ∧ a[i+1] = p.2
      · simp only [hm, and_self, if_true]
        rw [wr_ok (by omega)]
        have := ih (i + 1) true (out ++ [c]) (by omega) (by simp; omega)
        simp only [bind, Except.bind, if_true] at this
        simp only [this]
        simp
      · simp only [hm, if_false]
        rw [wr_ok (by omega)]
        have := ih (i + 1) false (out ++ [a[i]]) (by omega) (by simp; omega)
        simp only [bind, Except.bind, Bool.false_eq_true, if_false] at this
        simp only [this]
        rw [List.drop_eq_getElem_cons h1]
        simp

end VecModel.BPE

namespace VecModel.BPE

/-! ### decoding lemmas -/

theorem codeStr_append_left {T U : List (List Int)} {mcc x : Int}
    (h : x < mcc + 1 + T.length) : codeStr (T ++ U) mcc x = codeStr T mcc x := by
  unfold codeStr
  by_cases hx : x ≤ mcc
  · simp [hx]
  · simp only [hx, if_false]
    have : (x - mcc - 1).toNat < T.length := by omega
    rw [List.getElem?_append_left this]

theorem codeStr_isSome {T : List (List Int)} {mcc x : Int}
    (h : x < mcc + 1 + T.length) : ∃ l, codeStr T mcc x = some l := by
  unfold codeStr
  by_cases hx : x ≤ mcc
  · exact ⟨[x], by simp [hx]⟩
  · have hlt : (x - mcc - 1).toNat < T.length := by omega
    exact ⟨T[(x - mcc - 1).toNat], by simp [hx]⟩

theorem codeStr_new {T : List (List Int)} {mcc : Int} (t : List Int) (U : List (List Int)) :
    codeStr (T ++ t :: U) mcc (mcc + 1 + T.length) = some t := by
  unfold codeStr
  have h1 : ¬ (mcc + 1 + (T.length : Int) ≤ mcc) := by omega
  have h2 : (mcc + 1 + (T.length : Int) - mcc - 1).toNat = T.length := by omega
  simp [h1, h2]

theorem decode_cons (T : List (List Int)) (mcc x : Int) (xs : List Int) :
    decode T mcc (x :: xs) =
      (codeStr T mcc x).bind fun a => (decode T mcc xs).bind fun b => some (a ++ b) := by
  rw [decode]

/-- contracting a pair whose new code decodes to the concatenation of the pair's strings does
not change the decoded string. -/
theorem decode_contract {T : List (List Int)} {mcc : Int} {p : Pair} {c : Int}
    {l r : List Int}
    (h1 : codeStr T mcc p.1 = some l) (h2 : codeStr T mcc p.2 = some r)
    (hc : codeStr T mcc c = some (l ++ r)) :
    ∀ s : List Int, decode T mcc (contract p c s) = decode T mcc s := by
  intro s
  induction s using contract.induct p with
  | case1 a b rest hm ih =>
    rw [contract_cons_cons]
    simp only [hm, and_self, if_true]
    obtain ⟨ha, hb⟩ := hm
    subst ha; subst hb
    rw [decode_cons, decode_cons, decode_cons, ih, hc, h1, h2]
    cases decode T mcc rest <;> simp
  | case2 a b rest hm ih =>
    rw [contract_cons_cons]
    simp only [hm, if_false]
    rw [decode_cons, ih, decode_cons (x := a)]
  | case3 l hl =>
    unfold contract
    split
    · exact absurd rfl (hl _ _ _)
    · rfl

theorem contract_lt {p : Pair} {c : Int} {b : Int} (hc : c < b) :
    ∀ s : List Int, (∀ x ∈ s, x < b) → ∀ x ∈ contract p c s, x < b := by
  intro s
  induction s using contract.induct p with
  | case1 a b' rest hm ih =>
    intro hs x hx
    rw [contract_cons_cons] at hx
    simp only [hm, and_self, if_true] at hx
    rcases List.mem_cons.mp hx with h | h
    · omega
    · exact ih (fun y hy => hs y (by simp [hy])) x h
  | case2 a b' rest hm ih =>
    intro hs x hx
    rw [contract_cons_cons] at hx
    simp only [hm, if_false] at hx
    rcases List.mem_cons.mp hx with h | h
    · exact h ▸ hs a (by simp)
    · exact ih (fun y hy => hs y (by simp [hy])) x h
  | case3 l hl =>
    intro hs x hx
    have : contract p c l = l := by
      unfold contract
      split
      · exact absurd rfl (hl _ _ _)
      · rfl
    rw [this] at hx
    exact hs x hx

theorem buildTokens_prefix (mcc : Int) :
    ∀ (cl : List Pair) (T T' : List (List Int)), buildTokens mcc cl T = some T' →
      ∃ U, T' = T ++ U ∧ U.length = cl.length := by
  intro cl
  induction cl with
  | nil =>
    intro T T' h
    simp [buildTokens] at h
    exact ⟨[], by simp [h]⟩
  | cons p rest ih =>
    intro T T' h
    unfold buildTokens at h
    split at h
    · rename_i l r _ _
      obtain ⟨U, hU, hlen⟩ := ih _ _ h
      exact ⟨(l ++ r) :: U, by simp [hU], by simp [hlen]⟩
    · exact absurd h (by simp)

/-- decoding a list of in-range codes always succeeds -/
theorem decode_isSome {T : List (List Int)} {mcc : Int} :
    ∀ s : List Int, (∀ x ∈ s, x < mcc + 1 + T.length) → ∃ d, decode T mcc s = some d := by
  intro s
  induction s with
  | nil => intro _; exact ⟨[], by simp [decode]⟩
  | cons x xs ih =>
    intro h
    obtain ⟨l, hl⟩ := codeStr_isSome (T := T) (mcc := mcc) (h x (by simp))
    obtain ⟨d, hd⟩ := ih (fun y hy => h y (by simp [hy]))
    exact ⟨l ++ d, by rw [decode_cons, hl, hd]; rfl⟩

/-- Main replay lemma: with a well-formed merge list, replaying the merges does not change what
the sequence decodes to under the final token table. -/
theorem replay_decode (mcc : Int) :
    ∀ (cl : List Pair) (T T' : List (List Int)) (next : Int) (s : List Int),
      next = mcc + 1 + T.length → wfFrom next cl = true →
      buildTokens mcc cl T = some T' → (∀ x ∈ s, x < next) →
      decode T' mcc (replay cl next s) = decode T' mcc s := by
  intro cl
  induction cl with
  | nil => intro T T' next s _ _ _ _; simp [replay]
  | cons p rest ih =>
    intro T T' next s hnext hwf hbuild hs
    simp only [wfFrom, Bool.and_eq_true, decide_eq_true_eq] at hwf
    obtain ⟨⟨hp1, hp2⟩, hwfr⟩ := hwf
    unfold buildTokens at hbuild
    split at hbuild
    · rename_i l r hl hr
      have hnext' : next + 1 = mcc + 1 + ((T ++ [l ++ r]).length : Int) := by
        simp; omega
      have hs1 : ∀ x ∈ contract p next s, x < next + 1 :=
        contract_lt (by omega) s (fun x hx => by have := hs x hx; omega)
      have step := ih (T ++ [l ++ r]) T' (next + 1) (contract p next s) hnext' hwfr hbuild hs1
      simp only [replay]
      rw [step]
      obtain ⟨U, hU, _⟩ := buildTokens_prefix mcc rest _ _ hbuild
      have hT' : T' = T ++ ((l ++ r) :: U) := by simp [hU]
      have e1 : codeStr T' mcc p.1 = some l := by
        rw [hT', codeStr_append_left (by omega)]; exact hl
      have e2 : codeStr T' mcc p.2 = some r := by
        rw [hT', codeStr_append_left (by omega)]; exact hr
      have e3 : codeStr T' mcc next = some (l ++ r) := by
        rw [hT', hnext]; exact codeStr_new _ _
      exact decode_contract e1 e2 e3 s
    · exact absurd hbuild (by simp)

theorem buildTokens_isSome (mcc : Int) :
    ∀ (cl : List Pair) (T : List (List Int)), wfFrom (mcc + 1 + T.length) cl = true →
      ∃ T', buildTokens mcc cl T = some T' := by
  intro cl
  induction cl with
  | nil => intro T _; exact ⟨T, by simp [buildTokens]⟩
  | cons p rest ih =>
    intro T hwf
    simp only [wfFrom, Bool.and_eq_true, decide_eq_true_eq] at hwf
    obtain ⟨⟨hp1, hp2⟩, hwfr⟩ := hwf
    obtain ⟨l, hl⟩ := codeStr_isSome (T := T) (mcc := mcc) hp1
    obtain ⟨r, hr⟩ := codeStr_isSome (T := T) (mcc := mcc) hp2
    have : mcc + 1 + (T.length : Int) + 1 = mcc + 1 + ((T ++ [l ++ r]).length : Int) := by
      simp; omega
    rw [this] at hwfr
    obtain ⟨T', hT'⟩ := ih _ hwfr
    exact ⟨T', by unfold buildTokens; rw [hl, hr]; exact hT'⟩

theorem decode_chars {T : List (List Int)} {mcc : Int} :
    ∀ s : List Int, (∀ x ∈ s, x ≤ mcc) → decode T mcc s = some s := by
  intro s
  induction s with
  | nil => intro _; simp [decode]
  | cons x xs ih =>
    intro h
    have hx : x ≤ mcc := h x (by simp)
    rw [decode_cons, ih (fun y hy => h y (by simp [hy]))]
    simp [codeStr, hx]

theorem replay_append (cl : List Pair) (p : Pair) :
    ∀ (next : Int) (s : List Int),
      replay (cl ++ [p]) next s = contract p (next + cl.length) (replay cl next s) := by
  induction cl with
  | nil => intro next s; simp [replay]
  | cons q rest ih =>
    intro next s
    simp only [List.cons_append, replay, List.length_cons]
    rw [ih]
    congr 1
    push_cast
    omega

theorem wfFrom_append (cl : List Pair) (p : Pair) :
    ∀ next : Int, wfFrom next (cl ++ [p]) =
      (wfFrom next cl && (decide (p.1 < next + cl.length) && decide (p.2 < next + cl.length))) := by
  induction cl with
  | nil => intro next; simp [wfFrom]
  | cons q rest ih =>
    intro next
    simp only [List.cons_append, wfFrom, List.length_cons, ih]
    have : next + 1 + (rest.length : Int) = next + ((rest.length + 1 : Nat) : Int) := by
      push_cast; omega
    rw [this]
    simp [Bool.and_assoc]

end VecModel.BPE
