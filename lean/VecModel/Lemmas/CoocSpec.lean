import VecModel.Lemmas.Cooc
/- Refinement of the procedural events to the position-based definition (`spec`): lemmas. -/
set_option linter.unusedSimpArgs false
set_option linter.unusedVariables false
namespace VecModel.Cooc
open VecModel.Window

/-! ### positions of the window entries -/

/-- position in the sequence of window entry `k` -/
def wpos (rev : Bool) (i k : Nat) : Nat := if rev then i - 1 - k else i + 1 + k

/-- number of window entries -/
def wlen (rev : Bool) (ρ i n : Nat) : Nat := if rev then min ρ i else min ρ (n - (i + 1))

theorem windowAt_length_eq (s : List α) (ρ i : Nat) (rev : Bool) (hi : i < s.length) :
    (windowAt s ρ i rev).length = wlen rev ρ i s.length := by
  cases rev
  · simp [wlen, windowAt_after_length]
  · simp [wlen, windowAt_before_length s ρ i (by omega)]

theorem windowAt_getElem?_eq (s : List α) (ρ i k : Nat) (rev : Bool) (hi : i < s.length)
    (hk : k < wlen rev ρ i s.length) :
    (windowAt s ρ i rev)[k]? = s[wpos rev i k]? ∧ wpos rev i k < s.length ∧
      inWin rev ρ i (wpos rev i k) = true ∧ gap i (wpos rev i k) = k := by
  cases rev
  · simp only [wlen, Bool.false_eq_true, if_false] at hk
    have h1 : k < ρ := by omega
    refine ⟨?_, ?_, ?_, ?_⟩
    · rw [windowAt_after_getElem?]; simp [h1, wpos]
    · simp [wpos]; omega
    · simp [inWin, wpos]; omega
    · simp only [gap, wpos, Bool.false_eq_true, if_false]
      have : i ≤ i + 1 + k := by omega
      simp [this]; omega
  · simp only [wlen, if_true] at hk
    have h1 : k < ρ ∧ k < i := by omega
    refine ⟨?_, ?_, ?_, ?_⟩
    · rw [windowAt_before_getElem? s ρ i k (by omega)]; simp [h1, wpos]
    · simp [wpos]; omega
    · simp [inWin, wpos]; omega
    · simp only [gap, wpos, if_true]
      have : ¬ (i ≤ i - 1 - k) := by omega
      simp [this]; omega

/-- **re-indexing**: a sum over the window entries is the sum over all positions of a summand that
vanishes outside the window. -/
theorem sumTo_window (rev : Bool) (ρ i n : Nat) (hi : i < n) (f : Nat → Rat)
    (hf : ∀ j, j < n → inWin rev ρ i j = false → f j = 0) :
    sumTo (wlen rev ρ i n) (fun k => f (wpos rev i k)) = sumTo n f := by
  cases rev
  · simp only [wlen, wpos, Bool.false_eq_true, if_false]
    have h1 : sumTo n f = sumTo (n - (i + 1)) (fun k => f (i + 1 + k)) :=
      sumTo_head_zero (by omega) (fun k hk => hf k (by omega) (by simp [inWin]; omega))
    rw [h1]
    symm
    apply sumTo_tail_zero (by omega)
    intro k hk1 hk2
    apply hf (i + 1 + k) (by omega)
    simp [inWin]; omega
  · simp only [wlen, wpos, if_true]
    have h1 : sumTo n f = sumTo i f :=
      sumTo_tail_zero (by omega) (fun k hk1 hk2 => hf k hk2 (by simp [inWin]; omega))
    rw [h1, sumTo_reflect i f]
    symm
    apply sumTo_tail_zero (by omega)
    intro k hk1 hk2
    apply hf (i - 1 - k) (by omega)
    simp [inWin]; omega

/-! ### lists given entry by entry -/

theorem list_eq_map_range (l : List β) (f : Nat → β) (h : ∀ k, k < l.length → l[k]? = some (f k)) :
    l = (List.range l.length).map f := by
  apply List.ext_getElem?
  intro k
  by_cases hk : k < l.length
  · rw [h k hk]; simp [List.getElem?_map, List.getElem?_range hk]
  · rw [List.getElem?_eq_none (by omega), List.getElem?_eq_none (by simp; omega)]

/-! ### the kernel of one block, entry by entry -/

section block
variable (b : Block) (s : TSeq) (i : Nat) (tgt : Nat × Rat)

/-- the (un-normalised) weights computed from the window are the positional weights -/
theorem rawWeights_window (hi : s[i]? = some tgt) :
    let win := windowAt s (b.radius tgt.1) i b.rev
    rawWeights b.args (win.map (·.1)) (win.mapIdx fun k p => b.w k (absR (p.2 - tgt.2))) =
      (List.range (wlen b.rev (b.radius tgt.1) i s.length)).map
        (fun k => posRaw b s i (wpos b.rev i k)) := by
  intro win
  have hil : i < s.length := by
    by_contra h; rw [List.getElem?_eq_none (by omega)] at hi; simp at hi
  have hlen : win.length = wlen b.rev (b.radius tgt.1) i s.length := windowAt_length_eq s _ i _ hil
  have hrl : (rawWeights b.args (win.map (·.1)) (win.mapIdx fun k p => b.w k (absR (p.2 - tgt.2)))).length
      = win.length := by simp [rawWeights]
  rw [← hlen, ← hrl]
  apply list_eq_map_range
  intro k hk
  rw [hrl] at hk
  obtain ⟨hget, hlt, hin, hgap⟩ := windowAt_getElem?_eq s (b.radius tgt.1) i k b.rev hil (by omega)
  have hwk : win[k]? = some s[wpos b.rev i k] := by
    show (windowAt s (b.radius tgt.1) i b.rev)[k]? = _
    rw [hget, List.getElem?_eq_getElem hlt]
  have hwk' : win[k] = s[wpos b.rev i k] := by
    have := List.getElem?_eq_getElem hk
    rw [this] at hwk; simpa using hwk
  simp only [rawWeights, List.getElem?_mapIdx, List.getElem?_zip_eq_some, List.getElem?_map]
  simp only [posRaw, hi, List.getElem?_eq_getElem hlt, hin, if_true, hgap]
  simp [List.getElem?_eq_getElem hk, hwk', List.zip_eq_zipWith, List.getElem?_zipWith]

theorem posRaw_outside (hi : s[i]? = some tgt) (j : Nat)
    (h : inWin b.rev (b.radius tgt.1) i j = false) : posRaw b s i j = 0 := by
  unfold posRaw
  rw [hi]
  cases s[j]? with
  | none => rfl
  | some ctx => simp [h]

theorem posKer_outside (hi : s[i]? = some tgt) (j : Nat)
    (h : inWin b.rev (b.radius tgt.1) i j = false) : posKer b s i j = 0 := by
  unfold posKer
  rw [posRaw_outside b s i tgt hi j h]
  split <;> [split; skip] <;> simp

/-- the kernel-level normalisation constant is the positional one -/
theorem raw_sum_eq_posZ (hi : s[i]? = some tgt) :
    ((List.range (wlen b.rev (b.radius tgt.1) i s.length)).map
        (fun k => posRaw b s i (wpos b.rev i k))).sum = posZ b s i := by
  have hil : i < s.length := by
    by_contra h; rw [List.getElem?_eq_none (by omega)] at hi; simp at hi
  rw [sum_map_range]
  unfold posZ
  exact sumTo_window b.rev (b.radius tgt.1) i s.length hil (fun j => posRaw b s i j)
    (fun j _ h => posRaw_outside b s i tgt hi j h)

/-- token of position `j` (0 outside the sequence; only used inside it) -/
def tokAt (s : TSeq) (j : Nat) : Nat :=
  match s[j]? with
  | some p => p.1
  | none => 0

/-- **the window and kernel of a block, entry by entry**: entry `k` is the token at `wpos k` with
the positional kernel value of that position. -/
theorem blockWin_eq (hi : s[i]? = some tgt) :
    blockWin b s i tgt =
      ((List.range (wlen b.rev (b.radius tgt.1) i s.length)).map (fun k => tokAt s (wpos b.rev i k)),
       (List.range (wlen b.rev (b.radius tgt.1) i s.length)).map (fun k => posKer b s i (wpos b.rev i k))) := by
  have hil : i < s.length := by
    by_contra h; rw [List.getElem?_eq_none (by omega)] at hi; simp at hi
  have hraw := rawWeights_window b s i tgt hi
  simp only at hraw
  have hsum := raw_sum_eq_posZ b s i tgt hi
  unfold blockWin
  simp only
  congr 1
  · -- tokens
    have hlen := windowAt_length_eq s (b.radius tgt.1) i b.rev hil
    have h0 : ((windowAt s (b.radius tgt.1) i b.rev).map (·.1)).length =
        wlen b.rev (b.radius tgt.1) i s.length := by simp [hlen]
    rw [← h0]
    apply list_eq_map_range
    intro k hk
    rw [h0] at hk
    obtain ⟨hget, hlt, _, _⟩ := windowAt_getElem?_eq s (b.radius tgt.1) i k b.rev hil hk
    simp [List.getElem?_map, hget, tokAt, List.getElem?_eq_getElem hlt]
  · -- kernel values
    unfold applyKernel l1norm
    rw [hraw, hsum]
    unfold posKer
    by_cases hn : b.args.normalize = true
    · by_cases hz : posZ b s i > 0
      · simp [hn, hz, List.map_map, Function.comp_def]
      · simp [hn, hz, List.map_map, Function.comp_def]
    · simp [hn, List.map_map, Function.comp_def]

/-- **a sum over the zipped window is a sum over all positions** (for summands that vanish with
the weight) -/
theorem sumOver_blockWin (hi : s[i]? = some tgt) (G : Nat → Rat → Rat) (hG : ∀ c, G c 0 = 0) :
    sumOver ((blockWin b s i tgt).1.zip (blockWin b s i tgt).2) (fun cv => G cv.1 cv.2) =
      sumTo s.length (fun j => G (tokAt s j) (posKer b s i j)) := by
  have hil : i < s.length := by
    by_contra h; rw [List.getElem?_eq_none (by omega)] at hi; simp at hi
  rw [blockWin_eq b s i tgt hi]
  simp only [List.zip_map', sumOver_map, sumOver_range]
  exact sumTo_window b.rev (b.radius tgt.1) i s.length hil
    (fun j => G (tokAt s j) (posKer b s i j))
    (fun j _ h => by rw [posKer_outside b s i tgt hi j h, hG])

/-- the kernel sum of a block -/
theorem blockWin_sum (hi : s[i]? = some tgt) :
    (blockWin b s i tgt).2.sum = sumTo s.length (fun j => posKer b s i j) := by
  have hil : i < s.length := by
    by_contra h; rw [List.getElem?_eq_none (by omega)] at hi; simp at hi
  rw [blockWin_eq b s i tgt hi]
  simp only [sum_map_range]
  exact sumTo_window b.rev (b.radius tgt.1) i s.length hil (fun j => posKer b s i j)
    (fun j _ h => posKer_outside b s i tgt hi j h)

end block

/-! ### one occurrence -/

theorem pos_zero_div (t : Rat) : pos (0 / t) = 0 := by simp [pos]

theorem seqOcc_total (cfg : Cfg) (s : TSeq) (i : Nat) (tgt : Nat × Rat) (hi : s[i]? = some tgt) :
    (seqOcc cfg s i tgt).total cfg.normWin = posTotal cfg s i := by
  unfold Occ.total posTotal seqOcc
  simp only [List.map_map]
  have : (cfg.blocks.map ((fun w : List Nat × List Rat => w.2.sum) ∘ fun b => blockWin b s i tgt)).sum =
      sumOver cfg.blocks (fun b => sumTo s.length fun j => posKer b s i j) := by
    unfold sumOver
    congr 1
    apply List.map_congr_left
    intro b _
    simp only [Function.comp]
    exact blockWin_sum b s i tgt hi
  rw [this]

/-- the cell contribution of one target occurrence -/
theorem cellSum_seqOcc (cfg : Cfg) (s : TSeq) (i : Nat) (tgt : Nat × Rat) (hi : s[i]? = some tgt)
    (r c : Nat) :
    cellSum ((seqOcc cfg s i tgt).events cfg.n cfg.normWin) r c =
      if tgt.1 = r then
        sumOver cfg.blocks.zipIdx fun bw => sumTo s.length fun j =>
          if tokAt s j + bw.2 * cfg.n = c then pos (posKer bw.1 s i j / posTotal cfg s i) else 0
      else 0 := by
  have hT := seqOcc_total cfg s i tgt hi
  unfold Occ.events
  rw [cellSum_flatMap, hT]
  have hw : (seqOcc cfg s i tgt).wins.zipIdx =
      cfg.blocks.zipIdx.map (fun bw => (blockWin bw.1 s i tgt, bw.2)) := by
    simp [seqOcc, List.zipIdx_map]
  rw [hw, sumOver_map]
  have hrow : (seqOcc cfg s i tgt).row = tgt.1 := rfl
  by_cases hr : tgt.1 = r
  · simp only [hr, if_true]
    apply sumOver_congr
    intro bw _
    rw [cellSum_filterMap]
    have := sumOver_blockWin bw.1 s i tgt hi
      (fun c' v => if c' + bw.2 * cfg.n = c then pos (v / posTotal cfg s i) else 0)
      (fun c' => by simp [pos])
    rw [← this]
    apply sumOver_congr
    intro cv _
    simp only [hrow, hr]
    by_cases hp : cv.2 / posTotal cfg s i > 0
    · simp [hp, pos]
    · simp [hp, pos]
  · simp only [hr, if_false]
    apply sumOver_eq_zero
    intro bw _
    apply cellSum_eq_zero_of_forall
    intro e he
    rw [List.mem_filterMap] at he
    obtain ⟨cv, _, hsome⟩ := he
    by_cases hp : cv.2 / posTotal cfg s i > 0
    · simp only [hp, if_true, Option.some.injEq] at hsome
      rw [← hsome]
      simp [hrow, hr]
    · simp [hp] at hsome

/-! ### cells of one block, transposition, nullify -/

/-- all tokens of the corpus are vocabulary indices -/
def TokensBelow (n : Nat) (S : List TSeq) : Prop := ∀ s ∈ S, ∀ p ∈ s, p.1 < n

theorem col_decomp {n x k c k' : Nat} (hx : x < n) (hc : c < n) :
    x + k * n = c + k' * n ↔ x = c ∧ k = k' := by
  constructor
  · intro h
    have h1 : (x + k * n) % n = (c + k' * n) % n := by rw [h]
    have h2 : (x + k * n) / n = (c + k' * n) / n := by rw [h]
    have hn : 0 < n := by omega
    rw [Nat.add_mul_mod_self_right, Nat.add_mul_mod_self_right, Nat.mod_eq_of_lt hx, Nat.mod_eq_of_lt hc] at h1
    rw [Nat.add_mul_div_right _ _ hn, Nat.add_mul_div_right _ _ hn, Nat.div_eq_of_lt hx, Nat.div_eq_of_lt hc] at h2
    omega
  · rintro ⟨rfl, rfl⟩; rfl

theorem sumTo_single {n : Nat} {f : Nat → Rat} (j : Nat) (hj : j < n)
    (h : ∀ k, k < n → k ≠ j → f k = 0) : sumTo n f = f j := by
  rw [← sumTo_ite_eq j hj (f j)]
  apply sumTo_congr
  intro k hk
  by_cases hkj : k = j
  · simp [hkj]
  · simp [hkj, h k hk hkj]

theorem sumOver_zipIdx_pick (l : List α) (k : Nat) (x : α) (hk : l[k]? = some x)
    (F : α × Nat → Rat) (hF : ∀ y k', k' ≠ k → F (y, k') = 0) :
    sumOver l.zipIdx F = F (x, k) := by
  rw [sumOver_zipIdx]
  have hkl : k < l.length := by
    by_contra h; rw [List.getElem?_eq_none (by omega)] at hk; simp at hk
  rw [sumTo_single k hkl]
  · simp [hk]
  · intro k' _ hne
    cases l[k']? with
    | none => rfl
    | some y => exact hF y k' hne

theorem posTotal_noNorm (cfg : Cfg) (s : TSeq) (i : Nat) (h : cfg.normWin = false) :
    posTotal cfg s i = 1 := by
  simp [posTotal, h]

theorem tokAt_lt {n : Nat} {S : List TSeq} (hS : TokensBelow n S) {s : TSeq} (hs : s ∈ S) {j : Nat}
    (hj : j < s.length) : tokAt s j < n := by
  have hsj : s[j]? = some s[j] := List.getElem?_eq_getElem hj
  simp only [tokAt, hsj]
  exact hS s hs s[j] (List.getElem_mem _)

/-- contribution of one block to a cell, as a double sum over (target, context) positions -/
def pairSum (b : Block) (s : TSeq) (r c : Nat) : Rat :=
  sumTo s.length fun i => sumTo s.length fun j =>
    if tokAt s i = r ∧ tokAt s j = c then pos (b.mix * posRaw b s i j) else 0

/-- without window normalisation and kernel normalisation a cell of block `k` only depends on
that block -/
theorem spec_block (cfg : Cfg) (S : List TSeq) (k : Nat) (b : Block)
    (hb : cfg.blocks[k]? = some b) (hnw : cfg.normWin = false) (hnn : b.args.normalize = false)
    (hS : TokensBelow cfg.n S) (r c : Nat) (hc : c < cfg.n) :
    spec cfg S r (c + k * cfg.n) = sumOver S fun s => pairSum b s r c := by
  unfold spec pairSum
  apply sumOver_congr
  intro s hs
  apply sumTo_congr
  intro i hi
  have hsi : s[i]? = some s[i] := List.getElem?_eq_getElem hi
  rw [hsi]
  simp only
  have hti : tokAt s i = s[i].1 := by simp [tokAt, hsi]
  by_cases hr : s[i].1 = r
  · simp only [hr, if_true, hti, true_and]
    rw [sumOver_zipIdx_pick cfg.blocks k b hb]
    · apply sumTo_congr
      intro j hj
      have hsj : s[j]? = some s[j] := List.getElem?_eq_getElem hj
      have htj : tokAt s j = s[j].1 := by simp [tokAt, hsj]
      have hx : s[j].1 < cfg.n := hS s hs s[j] (List.getElem_mem _)
      rw [hsj]
      simp only [htj, posTotal_noNorm cfg s i hnw, div_one]
      have hker : posKer b s i j = b.mix * posRaw b s i j := by simp [posKer, hnn]
      by_cases hcol : s[j].1 = c
      · simp [hcol, hker]
      · have : ¬ (s[j].1 + k * cfg.n = c + k * cfg.n) := by omega
        simp [hcol, this]
    · intro y k' hne
      apply sumTo_eq_zero
      intro j hj
      have hsj : s[j]? = some s[j] := List.getElem?_eq_getElem hj
      have hx : s[j].1 < cfg.n := hS s hs s[j] (List.getElem_mem _)
      rw [hsj]
      simp only
      have : ¬ (s[j].1 + k' * cfg.n = c + k * cfg.n) := by
        intro h
        exact hne ((col_decomp hx hc).mp h).2
      simp [this]
  · simp [hr, hti, sumTo_zero']

theorem absR_sub_comm (a b : Rat) : absR (a - b) = absR (b - a) := by
  unfold absR
  by_cases h1 : a - b < 0
  · have h2 : ¬ (b - a < 0) := by linarith
    simp [h1, h2]
  · by_cases h2 : b - a < 0
    · simp [h1, h2]
    · have : a - b = 0 := by linarith
      have h3 : b - a = 0 := by linarith
      simp [this, h3]

theorem gap_comm (i j : Nat) : gap i j = gap j i := by
  unfold gap
  split <;> split <;> omega

theorem inWin_swap (ρ i j : Nat) : inWin true ρ i j = inWin false ρ j i := by
  simp [inWin]

theorem inWin_zero (rev : Bool) (i j : Nat) : inWin rev 0 i j = false := by
  cases rev <;> simp [inWin]

/-- fixed radii (0 for the mask token, `ρ` otherwise), same kernel: the weight the 'before' block
gives to context `j` of target `i` is the weight the 'after' block gives to context `i` of target `j` -/
theorem posRaw_transpose (bB bA : Block) (ρ n : Nat) (s : TSeq) (i j : Nat)
    (hrevB : bB.rev = true) (hrevA : bA.rev = false) (hargs : bB.args = bA.args) (hw : bB.w = bA.w)
    (hradB : ∀ t, t < n → bB.radius t = if bB.args.mask = some t then 0 else ρ)
    (hradA : ∀ t, t < n → bA.radius t = if bA.args.mask = some t then 0 else ρ)
    (hs : ∀ p ∈ s, p.1 < n) :
    posRaw bB s i j = posRaw bA s j i := by
  unfold posRaw
  cases hi : s[i]? with
  | none => cases s[j]? <;> rfl
  | some tgt =>
    cases hj : s[j]? with
    | none => rfl
    | some ctx =>
      have h1n := hs tgt (List.mem_of_getElem? hi)
      have h2n := hs ctx (List.mem_of_getElem? hj)
      simp only [hrevB, hrevA, hradB tgt.1 h1n, hradA ctx.1 h2n, ← hargs, ← hw]
      by_cases h1 : bB.args.mask = some tgt.1
      · simp [h1, inWin_zero]
      · by_cases h2 : bB.args.mask = some ctx.1
        · simp [h1, h2, inWin_zero]
        · simp only [h1, h2, if_false, inWin_swap ρ i j, gap_comm j i, absR_sub_comm tgt.2 ctx.2]

theorem pairSum_transpose (bB bA : Block) (ρ n : Nat) (s : TSeq) (r c : Nat)
    (hrevB : bB.rev = true) (hrevA : bA.rev = false) (hmix : bB.mix = bA.mix)
    (hargs : bB.args = bA.args) (hw : bB.w = bA.w)
    (hradB : ∀ t, t < n → bB.radius t = if bB.args.mask = some t then 0 else ρ)
    (hradA : ∀ t, t < n → bA.radius t = if bA.args.mask = some t then 0 else ρ)
    (hs : ∀ p ∈ s, p.1 < n) :
    pairSum bB s r c = pairSum bA s c r := by
  unfold pairSum
  rw [sumTo_comm]
  apply sumTo_congr
  intro j _
  apply sumTo_congr
  intro i _
  rw [posRaw_transpose bB bA ρ n s i j hrevB hrevA hargs hw hradB hradA hs, hmix]
  by_cases h : tokAt s i = r ∧ tokAt s j = c
  · simp [h]
  · have : ¬ (tokAt s j = c ∧ tokAt s i = r) := fun h' => h ⟨h'.2, h'.1⟩
    simp [h, this]


/-- the positional weight of a masked context is zero, also after the kernel-level normalisation -/
theorem posKer_masked (b : Block) (s : TSeq) (i j m : Nat) (hm : b.args.mask = some m)
    (hj : tokAt s j = m) (hjl : j < s.length) : posKer b s i j = 0 := by
  have hraw : posRaw b s i j = 0 := by
    unfold posRaw
    have hsj : s[j]? = some s[j] := List.getElem?_eq_getElem hjl
    simp only [tokAt, hsj] at hj
    rw [hsj]
    cases s[i]? with
    | none => rfl
    | some tgt => simp [hm, hj]
  unfold posKer
  rw [hraw]
  split <;> [split; skip] <;> simp

theorem posRaw_nullify (m : Nat) (b : Block) (s : TSeq) (i j : Nat) (hmask : b.args.mask = none)
    (hi : tokAt s i ≠ m) (hj : tokAt s j ≠ m) (hil : i < s.length) (hjl : j < s.length) :
    posRaw (nullifyBlock m b) s i j = posRaw b s i j := by
  have hsi : s[i]? = some s[i] := List.getElem?_eq_getElem hil
  have hsj : s[j]? = some s[j] := List.getElem?_eq_getElem hjl
  simp only [tokAt, hsi, hsj] at hi hj
  unfold posRaw
  rw [hsi, hsj]
  have h1 : ¬ (some m = some s[j].1) := by
    intro h; exact hj (Option.some.inj h).symm
  simp only [nullifyBlock, hi, if_false, hmask, h1]
  simp only [reduceCtorEq, if_false]
  rfl

/-! ### non-negative weights -/

theorem sumTo_nonneg {n : Nat} {f : Nat → Rat} (h : ∀ k, k < n → 0 ≤ f k) : 0 ≤ sumTo n f := by
  induction n with
  | zero => simp [sumTo]
  | succ n ih =>
    simp only [sumTo]
    have := ih (fun k hk => h k (by omega))
    have := h n (by omega)
    linarith

theorem sumOver_nonneg {l : List α} {f : α → Rat} (h : ∀ x ∈ l, 0 ≤ f x) : 0 ≤ sumOver l f := by
  induction l with
  | nil => simp [sumOver]
  | cons x l ih =>
    rw [sumOver_cons]
    have := ih (fun y hy => h y (List.mem_cons_of_mem _ hy))
    have := h x List.mem_cons_self
    linarith

/-- non-negative base weights and mix weight: every positional kernel value is non-negative -/
theorem posKer_nonneg (b : Block) (s : TSeq) (i j : Nat) (hmix : 0 ≤ b.mix)
    (hw : ∀ k dt, 0 ≤ b.w k dt) : 0 ≤ posKer b s i j := by
  have hraw : ∀ j, 0 ≤ posRaw b s i j := by
    intro j
    unfold posRaw
    cases s[i]? with
    | none => simp
    | some tgt =>
      cases s[j]? with
      | none => simp
      | some ctx =>
        simp only
        split
        · split
          · simp
          · split
            · simp
            · exact hw _ _
        · simp
  have hz : 0 ≤ posZ b s i := sumTo_nonneg (fun k _ => hraw k)
  unfold posKer
  apply mul_nonneg hmix
  split
  · split
    · exact div_nonneg (hraw j) hz
    · exact hraw j
  · exact hraw j

theorem posTotal_pos (cfg : Cfg) (s : TSeq) (i : Nat) : 0 < posTotal cfg s i := by
  unfold posTotal
  generalize (if cfg.normWin = true then
      sumOver cfg.blocks fun b => sumTo s.length fun j => posKer b s i j else 0) = t
  show 0 < if t ≤ 0 then 1 else t
  by_cases h : t ≤ 0
  · simp [h]
  · simp only [h, if_false]; exact lt_of_not_ge h

end VecModel.Cooc
