import VecModel.Lemmas.EM
/-
  Helper lemmas for Props/C11: the row-level model refines the dense specification, the flat
  index-level kernel agrees with the row-level model, chunk sums.
-/
namespace VecModel.EM

/-- canonical CSR row: strictly increasing columns -/
def SortedRow (row : Row) : Prop := (row.map Prod.fst).Pairwise (· < ·)
/-- canonical CSR matrix (what scipy's `tocsr()` / `sum_duplicates()` produce) -/
def Canon (M : Mat) : Prop := ∀ row ∈ M, SortedRow row

theorem rowVal_nil (c : Nat) : rowVal [] c = 0 := rfl

theorem rowVal_cons (cv : Nat × Rat) (row : Row) (c : Nat) :
    rowVal (cv :: row) c = (if cv.1 = c then cv.2 else 0) + rowVal row c := by
  unfold rowVal
  by_cases h : cv.1 = c
  · have : (cv.1 == c) = true := by simp [h]
    simp [this, h]
  · have : (cv.1 == c) = false := by simp [h]
    simp [this, h]

/-- in a row whose columns all exceed `c` the value at `c` is 0 -/
theorem rowVal_of_lt (row : Row) (c : Nat) (h : ∀ cv ∈ row, c < cv.1) : rowVal row c = 0 := by
  induction row with
  | nil => rfl
  | cons cv row ih =>
    rw [rowVal_cons, ih (fun x hx => h x (by simp [hx]))]
    have := h cv (by simp)
    rw [if_neg (by omega)]; simp

theorem searchsorted_cons (c : Nat) (cs : List Nat) (key : Nat) :
    searchsorted (c :: cs) key = if c < key then searchsorted cs key + 1 else 0 := by
  unfold searchsorted
  by_cases h : c < key
  · simp [h]
  · simp [h]

theorem look_fst (row : Row) (key : Nat) : (look row key).1 = searchsorted (row.map Prod.fst) key := by
  unfold look
  simp only
  split
  · split <;> rfl
  · rfl

/-- the value found at a position -/
def valAt (row : Row) (pos key : Nat) : Rat :=
  match row[pos]? with
  | some cv => if cv.1 = key then cv.2 else 0
  | none => 0

theorem look_snd (row : Row) (key : Nat) :
    (look row key).2 = valAt row (searchsorted (row.map Prod.fst) key) key := by
  unfold look valAt
  simp only
  cases row[searchsorted (List.map (fun x => x.1) row) key]? with
  | none => rfl
  | some cv =>
    simp only
    split <;> rfl

theorem valAt_cons_succ (cv : Nat × Rat) (row : Row) (pos key : Nat) :
    valAt (cv :: row) (pos + 1) key = valAt row pos key := by
  simp [valAt]

theorem valAt_cons_zero (cv : Nat × Rat) (row : Row) (key : Nat) :
    valAt (cv :: row) 0 key = if cv.1 = key then cv.2 else 0 := by
  simp [valAt]

theorem valAt_ne_zero (row : Row) (pos key : Nat) (h : valAt row pos key ≠ 0) :
    ∃ v, row[pos]? = some (key, v) := by
  unfold valAt at h
  split at h
  · rename_i cv hcv
    split at h
    · rename_i hk
      exact ⟨cv.2, by rw [hcv, ← hk]⟩
    · exact absurd rfl h
  · exact absurd rfl h

/-- **lookup in a canonical row**: the value found at the `searchsorted` position is the stored
value of the key (0 when the key is not stored). -/
theorem valAt_sorted (row : Row) (hs : SortedRow row) (key : Nat) :
    valAt row (searchsorted (row.map Prod.fst) key) key = rowVal row key := by
  induction row with
  | nil => simp [valAt, searchsorted, rowVal]
  | cons cv row ih =>
    have hs' : SortedRow row := by
      unfold SortedRow at hs ⊢
      simp only [List.map_cons, List.pairwise_cons] at hs
      exact hs.2
    have hgt : ∀ x ∈ row, cv.1 < x.1 := by
      unfold SortedRow at hs
      simp only [List.map_cons, List.pairwise_cons] at hs
      intro x hx
      exact hs.1 x.1 (List.mem_map.mpr ⟨x, hx, rfl⟩)
    have ih := ih hs'
    simp only [List.map_cons, searchsorted_cons]
    by_cases hlt : cv.1 < key
    · rw [if_pos hlt, valAt_cons_succ, rowVal_cons, if_neg (by omega), zero_add]
      exact ih
    · rw [if_neg hlt, valAt_cons_zero, rowVal_cons,
        rowVal_of_lt row key (fun x hx => by have := hgt x hx; omega), add_zero]

theorem look_sorted (row : Row) (hs : SortedRow row) (key : Nat) :
    (look row key).2 = rowVal row key ∧
    ((look row key).2 ≠ 0 → ∃ v, row[(look row key).1]? = some (key, v)) := by
  rw [look_snd, look_fst]
  exact ⟨valAt_sorted row hs key, valAt_ne_zero row _ key⟩

/-! ### the dense view of the M-step -/

theorem zipRow_cons_cons (cv : Nat × Rat) (row : Row) (a : Rat) (p : List Rat) :
    zipRow (cv :: row) (a :: p) = (cv.1, a) :: zipRow row p := rfl

theorem rowVal_zipRow_modify : ∀ (row : Row) (p : List Rat) (pos : Nat) (v : Rat) (c : Nat)
    (cv : Nat × Rat), p.length = row.length → row[pos]? = some cv →
    rowVal (zipRow row (p.modify pos (· + v))) c
      = rowVal (zipRow row p) c + (if cv.1 = c then v else 0) := by
  intro row
  induction row with
  | nil => intro p pos v c cv _ h; simp at h
  | cons x row ih =>
    intro p pos v c cv hp h
    cases p with
    | nil => simp at hp
    | cons a p =>
      cases pos with
      | zero =>
        simp only [List.getElem?_cons_zero, Option.some.injEq] at h
        subst h
        simp only [List.modify_zero_cons, zipRow_cons_cons, rowVal_cons]
        split <;> ring
      | succ pos =>
        simp only [List.getElem?_cons_succ] at h
        simp only [List.modify_succ_cons, zipRow_cons_cons, rowVal_cons]
        rw [ih p pos v c cv (by simpa using hp) h]
        ring

theorem sum_filter_key_cons {α : Type} (key : α → Nat) (f : α → Rat) (a : α) (l : List α) (c : Nat) :
    (((a :: l).filter (fun x => key x == c)).map f).sum
      = (if key a = c then f a else 0) + ((l.filter (fun x => key x == c)).map f).sum := by
  by_cases h : key a = c
  · have : (key a == c) = true := by simp [h]
    rw [List.filter_cons, if_pos this, if_pos h, List.map_cons, List.sum_cons]
  · have : ¬ (key a == c) = true := by simp [h]
    rw [List.filter_cons, if_neg this, if_neg h, zero_add]

/-- dense view of the M-step.  `kl` lists `(key, position, weight)`; a non-zero weight comes with a
position that holds the cell of its key. -/
theorem rowVal_mStep (row : Row) : ∀ (kl : List (Nat × Nat × Rat)) (p : List Rat),
    p.length = row.length →
    (∀ t ∈ kl, 0 ≤ t.2.2 ∧ (t.2.2 ≠ 0 → ∃ v, row[t.2.1]? = some (t.1, v))) →
    ∀ c, rowVal (zipRow row (mStep (kl.map (·.2)) p)) c
      = rowVal (zipRow row p) c + ((kl.filter (·.1 == c)).map (·.2.2)).sum := by
  intro kl
  induction kl with
  | nil => intro p _ _ c; simp [mStep]
  | cons t kl ih =>
    intro p hp h c
    have ht := h t (by simp)
    have hkl : ∀ t' ∈ kl, 0 ≤ t'.2.2 ∧ (t'.2.2 ≠ 0 → ∃ v, row[t'.2.1]? = some (t'.1, v)) :=
      fun t' ht' => h t' (by simp [ht'])
    simp only [List.map_cons]
    unfold mStep
    by_cases hv : t.2.2 > 0
    · rw [if_pos hv]
      obtain ⟨v, hv'⟩ := ht.2 (ne_of_gt hv)
      rw [ih _ (by simp [hp]) hkl c, rowVal_zipRow_modify row p t.2.1 t.2.2 c (t.1, v) hp hv',
        sum_filter_key_cons (fun x : Nat × Nat × Rat => x.1) (fun x => x.2.2) t kl c]
      ring
    · rw [if_neg hv, ih _ hp hkl c,
        sum_filter_key_cons (fun x : Nat × Nat × Rat => x.1) (fun x => x.2.2) t kl c]
      have hz : t.2.2 = 0 := le_antisymm (not_lt.mp hv) ht.1
      rw [hz]
      split <;> ring

/-! ### one occurrence, dense view -/

/-- kernel weight × current cell value of the occurrence's own row -/
def qOf (row : Row) (e : Nat × Rat) : Rat := if e.2 > 0 then e.2 * rowVal row e.1 else 0

/-- the E-step body -/
def gOf (row : Row) (e : Nat × Rat) : Nat × Rat :=
  if e.2 > 0 then ((look row e.1).1, e.2 * (look row e.1).2) else (0, 0)

theorem eStep_eq (row : Row) (es : List (Nat × Rat)) : eStep row es = es.map (gOf row) := rfl

theorem gOf_snd (row : Row) (hs : SortedRow row) (e : Nat × Rat) : (gOf row e).2 = qOf row e := by
  unfold gOf qOf
  split
  · simp only; rw [(look_sorted row hs e.1).1]
  · rfl

theorem gOf_pos (row : Row) (hs : SortedRow row) (e : Nat × Rat) (h : (gOf row e).2 ≠ 0) :
    ∃ v, row[(gOf row e).1]? = some (e.1, v) := by
  unfold gOf at h ⊢
  split
  · rename_i hk
    rw [if_pos hk] at h
    simp only at h ⊢
    apply (look_sorted row hs e.1).2
    intro h0; apply h; rw [h0]; ring
  · rename_i hk
    rw [if_neg hk] at h
    exact absurd rfl h

theorem qOf_nonneg (row : Row) (hrow : NonnegL row) (e : Nat × Rat) : 0 ≤ qOf row e := by
  unfold qOf
  split
  · rename_i hk
    apply mul_nonneg (le_of_lt hk)
    unfold rowVal
    apply List.sum_nonneg
    intro v hv
    obtain ⟨cv, hcv, rfl⟩ := List.mem_map.mp hv
    exact hrow cv (List.mem_filter.mp hcv).1
  · exact le_refl _

/-- what the occurrence adds to the dense value of its row at column `c` -/
def massRow (row : Row) (es : List (Nat × Rat)) (c : Nat) : Rat :=
  if (es.map (qOf row)).sum > 0 then
    ((es.filter fun e => e.1 == c).map fun e => qOf row e / (es.map (qOf row)).sum).sum
  else 0

theorem rowVal_rowUpdate (n : Nat) (row : Row) (hs : SortedRow row) (hrow : NonnegL row) (o : Occ)
    (p : List Rat) (hp : p.length = row.length) (c : Nat) :
    rowVal (zipRow row (rowUpdate n row o p)) c
      = rowVal (zipRow row p) c + massRow row (entriesF n o.windows o.kernels 0) c := by
  unfold rowUpdate
  generalize entriesF n o.windows o.kernels 0 = es
  have hsum : ((eStep row es).map (·.2)).sum = (es.map (qOf row)).sum := by
    rw [eStep_eq, List.map_map]
    apply congrArg
    apply List.map_congr_left
    intro e _
    exact gOf_snd row hs e
  unfold massRow
  by_cases hT : (es.map (qOf row)).sum > 0
  · rw [if_pos hT]
    have hnp : normPost (eStep row es)
        = (es.map fun e => ((e.1, (gOf row e).1, (gOf row e).2 / (es.map (qOf row)).sum) :
            Nat × Nat × Rat)).map (·.2) := by
      simp only [normPost]
      rw [hsum, if_pos hT, eStep_eq, List.map_map, List.map_map]
      rfl
    rw [hnp, rowVal_mStep row _ p hp ?_ c, List.filter_map, List.map_map]
    · congr 1
      apply congrArg
      apply List.map_congr_left
      intro e _
      simp only [Function.comp, gOf_snd row hs e]
    · intro t ht
      obtain ⟨e, _, rfl⟩ := List.mem_map.mp ht
      simp only
      rw [gOf_snd row hs e]
      refine ⟨div_nonneg (qOf_nonneg row hrow e) (le_of_lt hT), ?_⟩
      intro hne
      apply gOf_pos row hs e
      rw [gOf_snd row hs e]
      intro h0; apply hne; rw [h0]; simp
  · rw [if_neg hT]
    have hz : ∀ e ∈ es, qOf row e = 0 := by
      intro e he
      have hle : qOf row e ≤ (es.map (qOf row)).sum := by
        apply List.single_le_sum
        · intro x hx
          obtain ⟨e', _, rfl⟩ := List.mem_map.mp hx
          exact qOf_nonneg row hrow e'
        · exact List.mem_map.mpr ⟨e, he, rfl⟩
      exact le_antisymm (le_trans hle (not_lt.mp hT)) (qOf_nonneg row hrow e)
    have hnp : normPost (eStep row es)
        = (es.map fun e => ((e.1, (gOf row e).1, (gOf row e).2) : Nat × Nat × Rat)).map (·.2) := by
      simp only [normPost]
      rw [hsum, if_neg hT, eStep_eq, List.map_map]
      rfl
    rw [hnp, rowVal_mStep row _ p hp ?_ c, List.filter_map, List.map_map]
    · congr 1
      apply List.sum_eq_zero
      intro x hx
      obtain ⟨e, he, rfl⟩ := List.mem_map.mp hx
      simp only [Function.comp, gOf_snd row hs e]
      exact hz e (List.mem_filter.mp he).1
    · intro t ht
      obtain ⟨e, he, rfl⟩ := List.mem_map.mp ht
      simp only
      rw [gOf_snd row hs e, hz e he]
      exact ⟨le_refl _, fun h => absurd rfl h⟩

/-! ### matrix level -/

/-- the posterior values have the structure of the matrix -/
def Shape (P : Post) (M : Mat) : Prop := P.map List.length = M.map List.length

theorem Shape.length {P : Post} {M : Mat} (h : Shape P M) : P.length = M.length := by
  have := congrArg List.length h
  simpa using this

theorem Shape.row {P : Post} {M : Mat} (h : Shape P M) (r : Nat) (p : List Rat) (row : Row)
    (hp : P[r]? = some p) (hr : M[r]? = some row) : p.length = row.length := by
  have h1 : (P.map List.length)[r]? = some p.length := by rw [List.getElem?_map, hp]; rfl
  have h2 : (M.map List.length)[r]? = some row.length := by rw [List.getElem?_map, hr]; rfl
  rw [h] at h1
  rw [h1] at h2
  exact Option.some.inj h2

theorem shape_zerosLike (M : Mat) : Shape (zerosLike M) M := by
  unfold Shape zerosLike
  rw [List.map_map]
  apply List.map_congr_left
  intro row _
  simp

theorem map_length_modify {α : Type} (f : List α → List α) (hf : ∀ l, (f l).length = l.length) :
    ∀ (L : List (List α)) (i : Nat), (L.modify i f).map List.length = L.map List.length := by
  intro L
  induction L with
  | nil => intro i; simp
  | cons a L ih =>
    intro i
    cases i with
    | zero => simp [hf]
    | succ i => simp [ih i]

theorem shape_emUpdate (n : Nat) (M : Mat) (P : Post) (o : Occ) (h : Shape P M) :
    Shape (emUpdate n M P o) M := by
  unfold emUpdate
  split
  · exact h
  · unfold Shape at h ⊢
    rw [map_length_modify _ (fun l => by unfold rowUpdate; exact length_mStep _ l)]
    exact h

theorem shape_foldl_emUpdate (n : Nat) (M : Mat) :
    ∀ (occs : List Occ) (P : Post), Shape P M → Shape (occs.foldl (emUpdate n M) P) M := by
  intro occs
  induction occs with
  | nil => intro P h; exact h
  | cons o os ih => intro P h; exact ih _ (shape_emUpdate n M P o h)

theorem shape_emPosterior (n : Nat) (M : Mat) (occs : List Occ) : Shape (emPosterior n M occs) M :=
  shape_foldl_emUpdate n M occs _ (shape_zerosLike M)

theorem toDense_withData (M : Mat) (P : Post) (r c : Nat) :
    toDense (withData M P) r c =
      match M[r]?, P[r]? with
      | some row, some p => rowVal (zipRow row p) c
      | _, _ => 0 := by
  unfold toDense withData
  rw [List.getElem?_zipWith]
  cases M[r]? with
  | none => rfl
  | some row =>
    cases P[r]? with
    | none => rfl
    | some p => rfl

theorem specWeights_eq (n : Nat) (M : Mat) (o : Occ) (row : Row) (h : M[o.target]? = some row) :
    specWeights n (toDense M) o
      = (entriesF n o.windows o.kernels 0).map fun e => (e.1, qOf row e) := by
  unfold specWeights
  apply List.map_congr_left
  intro e _
  simp only [toDense, h, qOf]

theorem specMass_some (n : Nat) (M : Mat) (o : Occ) (row : Row) (h : M[o.target]? = some row)
    (r c : Nat) :
    specMass n (toDense M) o r c
      = if r = o.target then massRow row (entriesF n o.windows o.kernels 0) c else 0 := by
  simp only [specMass]
  rw [specWeights_eq n M o row h, List.map_map]
  have hT : ((entriesF n o.windows o.kernels 0).map
      ((fun x : Nat × Rat => x.2) ∘ fun e => (e.1, qOf row e))).sum
      = ((entriesF n o.windows o.kernels 0).map (qOf row)).sum := rfl
  rw [hT]
  unfold massRow
  by_cases hr : r = o.target
  · rw [if_pos hr]
    by_cases hpos : ((entriesF n o.windows o.kernels 0).map (qOf row)).sum > 0
    · rw [if_pos ⟨hr, hpos⟩, if_pos hpos, List.filter_map, List.map_map]
      rfl
    · rw [if_neg (fun h => hpos h.2), if_neg hpos]
  · rw [if_neg hr, if_neg (fun h => hr h.1)]

theorem specMass_none (n : Nat) (M : Mat) (o : Occ) (h : M[o.target]? = none) (r c : Nat) :
    specMass n (toDense M) o r c = 0 := by
  simp only [specMass]
  have hw : ((specWeights n (toDense M) o).map (·.2)).sum = 0 := by
    apply List.sum_eq_zero
    intro x hx
    obtain ⟨w, hw, rfl⟩ := List.mem_map.mp hx
    unfold specWeights at hw
    obtain ⟨e, _, rfl⟩ := List.mem_map.mp hw
    simp only [toDense, h]
    split <;> simp
  rw [hw]
  rw [if_neg (fun h => absurd h.2 (by norm_num))]

/-- **one occurrence refines the specification** -/
theorem toDense_emUpdate (n : Nat) (M : Mat) (hc : Canon M) (hn : Nonneg M) (P : Post)
    (hP : Shape P M) (o : Occ) (r c : Nat) :
    toDense (withData M (emUpdate n M P o)) r c
      = toDense (withData M P) r c + specMass n (toDense M) o r c := by
  unfold emUpdate
  cases hrow : M[o.target]? with
  | none => simp only; rw [specMass_none n M o hrow, add_zero]
  | some row =>
    simp only
    rw [specMass_some n M o row hrow, toDense_withData, toDense_withData]
    by_cases hr : r = o.target
    · subst hr
      rw [if_pos rfl, hrow]
      have hlt : o.target < P.length := by
        rw [hP.length]; exact (List.getElem?_eq_some_iff.mp hrow).1
      have hp : P[o.target]? = some P[o.target] := List.getElem?_eq_getElem hlt
      rw [List.getElem?_modify, hp]
      simp only [if_true, Option.map_some]
      have hmem : row ∈ M := List.mem_of_getElem? hrow
      exact rowVal_rowUpdate n row (hc row hmem)
        (fun cv hcv => hn cv (List.mem_flatten.mpr ⟨row, hmem, hcv⟩)) o _
        (hP.row o.target _ row hp hrow) c
    · rw [if_neg hr, add_zero, List.getElem?_modify]
      have : ¬ o.target = r := fun h => hr h.symm
      simp only [this, if_false]
      cases P[r]? <;> rfl

theorem toDense_foldl_emUpdate (n : Nat) (M : Mat) (hc : Canon M) (hn : Nonneg M) (r c : Nat) :
    ∀ (occs : List Occ) (P : Post), Shape P M →
      toDense (withData M (occs.foldl (emUpdate n M) P)) r c
        = toDense (withData M P) r c + (occs.map fun o => specMass n (toDense M) o r c).sum := by
  intro occs
  induction occs with
  | nil => intro P _; simp
  | cons o os ih =>
    intro P hP
    simp only [List.foldl_cons, List.map_cons, List.sum_cons]
    rw [ih _ (shape_emUpdate n M P o hP), toDense_emUpdate n M hc hn P hP o r c]
    ring

theorem rowVal_zipRow_zeros (row : Row) (c : Nat) :
    rowVal (zipRow row (row.map fun _ => (0 : Rat))) c = 0 := by
  induction row with
  | nil => rfl
  | cons cv row ih =>
    simp only [List.map_cons, zipRow_cons_cons, rowVal_cons, ih]
    split <;> simp

theorem toDense_zeros (M : Mat) (r c : Nat) : toDense (withData M (zerosLike M)) r c = 0 := by
  rw [toDense_withData]
  unfold zerosLike
  rw [List.getElem?_map]
  cases M[r]? with
  | none => rfl
  | some row => exact rowVal_zipRow_zeros row c

theorem toDense_emPosterior (n : Nat) (M : Mat) (hc : Canon M) (hn : Nonneg M) (occs : List Occ)
    (r c : Nat) :
    toDense (withData M (emPosterior n M occs)) r c = specPosterior n (toDense M) occs r c := by
  unfold emPosterior specPosterior
  rw [toDense_foldl_emUpdate n M hc hn r c occs _ (shape_zerosLike M), toDense_zeros, zero_add]

theorem rowVal_zipRow_add : ∀ (row : Row) (a b : List Rat) (c : Nat),
    a.length = row.length → b.length = row.length →
    rowVal (zipRow row (List.zipWith (· + ·) a b)) c
      = rowVal (zipRow row a) c + rowVal (zipRow row b) c := by
  intro row
  induction row with
  | nil => intro a b c _ _; simp [zipRow, rowVal]
  | cons cv row ih =>
    intro a b c ha hb
    cases a with
    | nil => simp at ha
    | cons x a =>
      cases b with
      | nil => simp at hb
      | cons y b =>
        simp only [List.zipWith_cons_cons, zipRow_cons_cons, rowVal_cons]
        rw [ih a b c (by simpa using ha) (by simpa using hb)]
        split <;> ring

theorem shape_addPost (A B : Post) (M : Mat) (hA : Shape A M) (hB : Shape B M) :
    Shape (addPost A B) M := by
  unfold Shape addPost at *
  induction M generalizing A B with
  | nil =>
    cases A with
    | nil => simp
    | cons a A => simp at hA
  | cons row M ih =>
    cases A with
    | nil => simp at hA
    | cons a A =>
      cases B with
      | nil => simp at hB
      | cons b B =>
        simp only [List.map_cons, List.cons.injEq] at hA hB
        simp only [List.zipWith_cons_cons, List.map_cons, List.length_zipWith, List.cons.injEq]
        exact ⟨by omega, ih A B hA.2 hB.2⟩

theorem toDense_addPost (M : Mat) (A B : Post) (hA : Shape A M) (hB : Shape B M) (r c : Nat) :
    toDense (withData M (addPost A B)) r c
      = toDense (withData M A) r c + toDense (withData M B) r c := by
  rw [toDense_withData, toDense_withData, toDense_withData]
  unfold addPost
  rw [List.getElem?_zipWith]
  cases hrow : M[r]? with
  | none => simp
  | some row =>
    have hlt : r < M.length := (List.getElem?_eq_some_iff.mp hrow).1
    have hltA : r < A.length := by rw [hA.length]; exact hlt
    have hltB : r < B.length := by rw [hB.length]; exact hlt
    have ha : A[r]? = some A[r] := List.getElem?_eq_getElem hltA
    have hb : B[r]? = some B[r] := List.getElem?_eq_getElem hltB
    rw [ha, hb]
    simp only
    exact rowVal_zipRow_add row _ _ c (hA.row r _ row ha hrow) (hB.row r _ row hb hrow)

theorem toDense_chunkPosterior (n : Nat) (M : Mat) (hc : Canon M) (hn : Nonneg M)
    (chunks : List (List Occ)) (r c : Nat) :
    toDense (withData M (chunkPosterior n M chunks)) r c
      = specPosterior n (toDense M) chunks.flatten r c
    ∧ Shape (chunkPosterior n M chunks) M := by
  unfold chunkPosterior
  suffices H : ∀ (chunks : List (List Occ)) (A : Post), Shape A M →
      toDense (withData M (chunks.foldl (fun acc ch => addPost acc (emPosterior n M ch)) A)) r c
        = toDense (withData M A) r c + specPosterior n (toDense M) chunks.flatten r c
      ∧ Shape (chunks.foldl (fun acc ch => addPost acc (emPosterior n M ch)) A) M by
    have := H chunks _ (shape_zerosLike M)
    rw [toDense_zeros, zero_add] at this
    exact this
  intro chunks
  induction chunks with
  | nil => intro A hA; simp [specPosterior, hA]
  | cons ch rest ih =>
    intro A hA
    simp only [List.foldl_cons, List.flatten_cons]
    have hsh := shape_addPost A _ M hA (shape_emPosterior n M ch)
    obtain ⟨h1, h2⟩ := ih _ hsh
    refine ⟨?_, h2⟩
    rw [h1, toDense_addPost M A _ hA (shape_emPosterior n M ch), toDense_emPosterior n M hc hn]
    unfold specPosterior
    simp only [List.map_append, List.sum_append]
    ring

/-! ### normalisation and thresholding, dense view -/

theorem colSumL_cons (cv : Nat × Rat) (l : List (Nat × Rat)) (c : Nat) :
    colSumL (cv :: l) c = (if cv.1 = c then absQ cv.2 else 0) + colSumL l c := by
  unfold colSumL
  exact sum_filter_key_cons (fun x : Nat × Rat => x.1) (fun x => absQ x.2) cv l c

theorem colSumL_append (a b : List (Nat × Rat)) (c : Nat) :
    colSumL (a ++ b) c = colSumL a c + colSumL b c := by
  unfold colSumL
  rw [List.filter_append, List.map_append, List.sum_append]

theorem colSumL_of_lt (row : Row) (c : Nat) (h : ∀ cv ∈ row, c < cv.1) : colSumL row c = 0 := by
  induction row with
  | nil => rfl
  | cons cv row ih =>
    rw [colSumL_cons, ih (fun x hx => h x (by simp [hx]))]
    have := h cv (by simp)
    rw [if_neg (by omega)]; simp

theorem sortedRow_tail {cv : Nat × Rat} {row : Row} (hs : SortedRow (cv :: row)) :
    SortedRow row ∧ ∀ x ∈ row, cv.1 < x.1 := by
  unfold SortedRow at hs ⊢
  simp only [List.map_cons, List.pairwise_cons] at hs
  exact ⟨hs.2, fun x hx => hs.1 x.1 (List.mem_map.mpr ⟨x, hx, rfl⟩)⟩

theorem absQ_zero : absQ 0 = 0 := rfl

theorem colSumL_sorted (row : Row) (hs : SortedRow row) (c : Nat) :
    colSumL row c = absQ (rowVal row c) := by
  induction row with
  | nil => rfl
  | cons cv row ih =>
    obtain ⟨hs', hgt⟩ := sortedRow_tail hs
    rw [colSumL_cons, rowVal_cons]
    by_cases h : cv.1 = c
    · rw [if_pos h, if_pos h, colSumL_of_lt row c (fun x hx => by have := hgt x hx; omega),
        rowVal_of_lt row c (fun x hx => by have := hgt x hx; omega), add_zero, add_zero]
    · rw [if_neg h, if_neg h, zero_add, zero_add]; exact ih hs'

theorem colSum_eq_sum_rows (M : Mat) (c : Nat) :
    colSum M c = (M.map fun row => colSumL row c).sum := by
  unfold colSum
  induction M with
  | nil => rfl
  | cons row M ih => rw [List.flatten_cons, colSumL_append, ih, List.map_cons, List.sum_cons]

theorem sum_map_eq_range {α : Type} (f : α → Rat) : ∀ (l : List α),
    (l.map f).sum = ((List.range l.length).map fun r =>
      match l[r]? with
      | some a => f a
      | none => 0).sum := by
  intro l
  induction l with
  | nil => rfl
  | cons a l ih =>
    rw [List.length_cons, List.range_succ_eq_map, List.map_cons, List.map_cons, List.sum_cons,
      List.sum_cons, List.map_map, ih]
    rfl

theorem colSum_eq_spec (M : Mat) (hc : Canon M) (c : Nat) :
    colSum M c = specColSum M.length (toDense M) c := by
  rw [colSum_eq_sum_rows, sum_map_eq_range]
  unfold specColSum
  apply congrArg
  apply List.map_congr_left
  intro r _
  unfold toDense
  cases hrow : M[r]? with
  | none => rfl
  | some row => exact colSumL_sorted row (hc row (List.mem_of_getElem? hrow)) c

theorem rowVal_map_normCell (S : Nat → Rat) (row : Row) (c : Nat) :
    rowVal (row.map (normCell S)) c = if S c = 0 then rowVal row c else rowVal row c / S c := by
  unfold rowVal
  have hf : (row.map (normCell S)).filter (fun cv => cv.1 == c)
      = (row.filter (fun cv => cv.1 == c)).map (normCell S) := by
    rw [List.filter_map]; rfl
  rw [hf, List.map_map]
  by_cases h0 : S c = 0
  · rw [if_pos h0]
    apply congrArg
    apply List.map_congr_left
    intro cv hcv
    have hcc : cv.1 = c := by simpa using (List.mem_filter.mp hcv).2
    simp only [Function.comp, normCell, hcc, h0, if_true]
  · rw [if_neg h0, ← sum_map_div]
    apply congrArg
    apply List.map_congr_left
    intro cv hcv
    have hcc : cv.1 = c := by simpa using (List.mem_filter.mp hcv).2
    simp only [Function.comp, normCell, hcc, h0, if_false]

theorem toDense_normCols (M : Mat) (hc : Canon M) :
    toDense (normCols M) = specNorm M.length (toDense M) := by
  funext r c
  unfold specNorm
  rw [← colSum_eq_spec M hc c]
  unfold toDense normCols
  rw [List.getElem?_map]
  cases M[r]? with
  | none => simp
  | some row => exact rowVal_map_normCell (colSum M) row c

theorem rowVal_filter_of_lt (row : Row) (p : Nat × Rat → Bool) (c : Nat) (h : ∀ cv ∈ row, c < cv.1) :
    rowVal (row.filter p) c = 0 :=
  rowVal_of_lt _ c (fun cv hcv => h cv (List.mem_filter.mp hcv).1)

theorem rowVal_threshold (eps : Rat) (row : Row) (hs : SortedRow row) (c : Nat) :
    rowVal (row.filter (keep eps)) c = if rowVal row c < eps then 0 else rowVal row c := by
  induction row with
  | nil => simp [rowVal]
  | cons cv row ih =>
    obtain ⟨hs', hgt⟩ := sortedRow_tail hs
    by_cases h : cv.1 = c
    · have hr0 : rowVal row c = 0 := rowVal_of_lt row c (fun x hx => by have := hgt x hx; omega)
      have hf0 : rowVal (row.filter (keep eps)) c = 0 :=
        rowVal_filter_of_lt row _ c (fun x hx => by have := hgt x hx; omega)
      rw [rowVal_cons, if_pos h, hr0, add_zero]
      by_cases hk : keep eps cv = true
      · rw [List.filter_cons_of_pos hk, rowVal_cons, if_pos h, hf0, add_zero]
        have : ¬ cv.2 < eps := by
          simp only [keep, Bool.and_eq_true, Bool.not_eq_eq_eq_not, Bool.not_true,
            decide_eq_false_iff_not] at hk
          exact hk.1
        rw [if_neg this]
      · rw [List.filter_cons_of_neg hk, hf0]
        by_cases hlt : cv.2 < eps
        · rw [if_pos hlt]
        · rw [if_neg hlt]
          by_contra hne
          apply hk
          simp only [keep, Bool.and_eq_true, Bool.not_eq_eq_eq_not, Bool.not_true,
            decide_eq_false_iff_not]
          exact ⟨hlt, fun h0 => hne (by rw [h0])⟩
    · rw [rowVal_cons, if_neg h, zero_add, ← ih hs']
      by_cases hk : keep eps cv = true
      · rw [List.filter_cons_of_pos hk, rowVal_cons, if_neg h, zero_add]
      · rw [List.filter_cons_of_neg hk]

theorem toDense_threshold (eps : Rat) (M : Mat) (hc : Canon M) :
    toDense (threshold eps M) = specThresh eps (toDense M) := by
  funext r c
  unfold specThresh toDense threshold
  rw [List.getElem?_map]
  cases hrow : M[r]? with
  | none =>
    simp only [Option.map_none]
    split <;> rfl
  | some row => exact rowVal_threshold eps row (hc row (List.mem_of_getElem? hrow)) c

/-! ### invariants of the pipeline -/

theorem canon_of_subSupport {A B : Mat} (h : SubSupport A B) (hB : Canon B) : Canon A := by
  intro row hrow
  obtain ⟨r, hr, rfl⟩ := List.getElem_of_mem hrow
  have := h r
  rw [List.getElem?_eq_getElem hr] at this
  simp only [Option.getD_some] at this
  unfold SortedRow
  cases hb : B[r]? with
  | none =>
    rw [hb] at this
    simp only [Option.getD_none, List.map_nil, List.sublist_nil] at this
    rw [this]; exact List.Pairwise.nil
  | some brow =>
    rw [hb] at this
    exact List.Pairwise.sublist this (hB brow (List.mem_of_getElem? hb))

theorem nonneg_threshold_normCols (eps : Rat) (X : Mat) (hX : Nonneg X) :
    Nonneg (threshold eps (normCols X)) := by
  unfold Nonneg
  rw [threshold_flatten, normCols_flatten]
  intro cv hcv
  obtain ⟨x, hx, rfl⟩ := List.mem_map.mp (List.mem_filter.mp hcv).1
  exact (normCell_unit X.flatten hX x hx).1

theorem length_threshold (eps : Rat) (M : Mat) : (threshold eps M).length = M.length := by
  simp [threshold]

theorem length_normCols (M : Mat) : (normCols M).length = M.length := by
  simp [normCols]

theorem length_withData (M : Mat) (P : Post) (h : Shape P M) : (withData M P).length = M.length := by
  simp [withData, h.length]

theorem toDense_emStep (n : Nat) (eps : Rat) (chunks : List (List Occ)) (M : Mat) (hc : Canon M)
    (hn : Nonneg M) :
    toDense (emStep n eps chunks M) = specStep M.length n eps chunks.flatten (toDense M) := by
  unfold emStep specStep
  have hW : Canon (withData M (chunkPosterior n M chunks)) :=
    canon_of_subSupport (subSupport_withData M _) hc
  have hN : Canon (normCols (withData M (chunkPosterior n M chunks))) :=
    canon_of_subSupport (subSupport_normCols _) hW
  have hlen : (withData M (chunkPosterior n M chunks)).length = M.length :=
    length_withData M _ (toDense_chunkPosterior n M hc hn chunks 0 0).2
  have hpost : toDense (withData M (chunkPosterior n M chunks))
      = specPosterior n (toDense M) chunks.flatten := by
    funext r c
    exact (toDense_chunkPosterior n M hc hn chunks r c).1
  rw [toDense_threshold eps _ hN, toDense_normCols _ hW, hlen, hpost]

theorem emStep_inv (n : Nat) (eps : Rat) (chunks : List (List Occ)) (M : Mat) (hc : Canon M)
    (hn : Nonneg M) :
    Canon (emStep n eps chunks M) ∧ Nonneg (emStep n eps chunks M) ∧
      (emStep n eps chunks M).length = M.length := by
  refine ⟨canon_of_subSupport (subSupport_emStep n eps chunks M) hc, ?_, ?_⟩
  · exact nonneg_threshold_normCols eps _ (withData_nonneg M _ (chunkPosterior_nonneg n M chunks))
  · unfold emStep
    rw [length_threshold, length_normCols,
      length_withData M _ (toDense_chunkPosterior n M hc hn chunks 0 0).2]

theorem toDense_emRun (n : Nat) (eps : Rat) (chunks : List (List Occ)) :
    ∀ (k : Nat) (M : Mat), Canon M → Nonneg M →
      toDense (emRun n eps chunks k M) = specRun M.length n eps chunks.flatten k (toDense M) := by
  intro k
  induction k with
  | zero => intro M _ _; rfl
  | succ k ih =>
    intro M hc hn
    obtain ⟨hc', hn', hlen⟩ := emStep_inv n eps chunks M hc hn
    unfold emRun specRun
    rw [ih _ hc' hn', hlen, toDense_emStep n eps chunks M hc hn]

end VecModel.EM
