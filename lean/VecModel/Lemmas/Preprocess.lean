import VecModel.Model.Preprocess
/- Helper lemmas for Props/C14 (re-indexing, mask entry). Core Lean only. -/
set_option linter.unusedSimpArgs false
namespace VecModel.Pre

theorem find_append (d e : Dict) (t : Nat) :
    find (d ++ e) t = (find d t).or (find e t) := by
  unfold find
  induction d with
  | nil => simp [List.lookup]
  | cons p rest ih =>
    obtain ⟨k, v⟩ := p
    simp only [List.cons_append, List.lookup_cons]
    by_cases h : t == k <;> simp [h, ih]

theorem find_dropMask_self (d : Dict) (μ : Nat) : find (dropMask d μ) μ = none := by
  unfold find dropMask
  induction d with
  | nil => simp [List.lookup]
  | cons p rest ih =>
    obtain ⟨k, v⟩ := p
    by_cases h : k = μ
    · subst h; simpa [List.filter_cons] using ih
    · have h' : (μ == k) = false := by simp; omega
      simp [List.filter_cons, h, List.lookup_cons, h', ih]

theorem find_dropMask_ne (d : Dict) (μ t : Nat) (h : t ≠ μ) :
    find (dropMask d μ) t = find d t := by
  unfold find dropMask
  induction d with
  | nil => simp
  | cons p rest ih =>
    obtain ⟨k, v⟩ := p
    by_cases hk : k = μ
    · subst hk
      have : (t == k) = false := by simp; omega
      simpa [List.filter_cons, List.lookup_cons, this] using ih
    · by_cases ht : t = k
      · subst ht; simp [List.filter_cons, hk, List.lookup_cons]
      · have : (t == k) = false := by simp; omega
        simp [List.filter_cons, hk, List.lookup_cons, this, ih]

theorem dropMask_of_not_mem (d : Dict) (μ : Nat) (h : find d μ = none) : dropMask d μ = d := by
  unfold find at h
  unfold dropMask
  induction d with
  | nil => simp
  | cons p rest ih =>
    obtain ⟨k, v⟩ := p
    by_cases hk : μ = k
    · subst hk; simp [List.lookup_cons] at h
    · have : (μ == k) = false := by simp; omega
      simp only [List.lookup_cons, this] at h
      have hk' : k ≠ μ := fun e => hk e.symm
      simp [List.filter_cons, hk', ih h]

end VecModel.Pre
