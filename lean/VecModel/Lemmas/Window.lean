import VecModel.Model.Cooc
import Mathlib.Tactic.Ring
import Mathlib.Tactic.Linarith
import Mathlib.Algebra.Order.Field.Rat
/- Helper lemmas for Props/C03 and C14: finite sums `sumTo`, list sums, `window_at_index`. -/
set_option linter.unusedSimpArgs false
set_option linter.unusedVariables false
namespace VecModel.Cooc
open VecModel.Window

/-! ### `sumTo` -/

theorem sumTo_congr {n : Nat} {f g : Nat → Rat} (h : ∀ k, k < n → f k = g k) :
    sumTo n f = sumTo n g := by
  induction n with
  | zero => rfl
  | succ n ih =>
    simp only [sumTo]
    rw [ih (fun k hk => h k (by omega)), h n (by omega)]

theorem sumTo_zero' (n : Nat) : sumTo n (fun _ => 0) = 0 := by
  induction n with
  | zero => rfl
  | succ n ih => simp [sumTo, ih]

theorem sumTo_eq_zero {n : Nat} {f : Nat → Rat} (h : ∀ k, k < n → f k = 0) : sumTo n f = 0 := by
  rw [sumTo_congr h, sumTo_zero']

theorem sumTo_add (n : Nat) (f g : Nat → Rat) :
    sumTo n (fun k => f k + g k) = sumTo n f + sumTo n g := by
  induction n with
  | zero => simp [sumTo]
  | succ n ih => simp only [sumTo, ih]; ring

theorem sumTo_mul_left (n : Nat) (c : Rat) (f : Nat → Rat) :
    sumTo n (fun k => c * f k) = c * sumTo n f := by
  induction n with
  | zero => simp [sumTo]
  | succ n ih => simp only [sumTo, ih]; ring

theorem sumTo_div (n : Nat) (c : Rat) (f : Nat → Rat) :
    sumTo n (fun k => f k / c) = sumTo n f / c := by
  induction n with
  | zero => simp [sumTo]
  | succ n ih => simp only [sumTo, ih]; ring

/-- `Σ_{k<a+b} f k = Σ_{k<a} f k + Σ_{k<b} f (a+k)` -/
theorem sumTo_split (a b : Nat) (f : Nat → Rat) :
    sumTo (a + b) f = sumTo a f + sumTo b (fun k => f (a + k)) := by
  induction b with
  | zero => simp [sumTo]
  | succ b ih =>
    have : a + (b + 1) = (a + b) + 1 := by omega
    rw [this]
    simp only [sumTo, ih]; ring

/-- terms beyond `m` vanish -/
theorem sumTo_tail_zero {m n : Nat} {f : Nat → Rat} (hmn : m ≤ n)
    (h : ∀ k, m ≤ k → k < n → f k = 0) : sumTo n f = sumTo m f := by
  obtain ⟨b, rfl⟩ := Nat.exists_eq_add_of_le hmn
  rw [sumTo_split]
  have : sumTo b (fun k => f (m + k)) = 0 := sumTo_eq_zero (fun k hk => h (m + k) (by omega) (by omega))
  rw [this]; ring

/-- terms below `a` vanish -/
theorem sumTo_head_zero {a n : Nat} {f : Nat → Rat} (han : a ≤ n)
    (h : ∀ k, k < a → f k = 0) : sumTo n f = sumTo (n - a) (fun k => f (a + k)) := by
  obtain ⟨b, rfl⟩ := Nat.exists_eq_add_of_le han
  rw [sumTo_split, sumTo_eq_zero h]
  have : a + b - a = b := by omega
  rw [this]; ring

/-- reversal of the summation order -/
theorem sumTo_reflect (n : Nat) (f : Nat → Rat) :
    sumTo n f = sumTo n (fun k => f (n - 1 - k)) := by
  induction n generalizing f with
  | zero => rfl
  | succ n ih =>
    -- Σ_{k<n+1} f k = f 0 + Σ_{k<n} f (k+1)
    have hsplit : ∀ g : Nat → Rat, sumTo (n + 1) g = g 0 + sumTo n (fun k => g (1 + k)) := by
      intro g
      have := sumTo_split 1 n g
      rw [Nat.add_comm 1 n] at this
      rw [this]; simp [sumTo]
    rw [hsplit (fun k => f (n + 1 - 1 - k))]
    simp only [sumTo]
    rw [ih f]
    have : sumTo n (fun k => f (n + 1 - 1 - (1 + k))) = sumTo n (fun k => f (n - 1 - k)) :=
      sumTo_congr (fun k hk => by congr 1; omega)
    rw [this]
    have : n + 1 - 1 - 0 = n := by omega
    rw [this]; ring

/-- Fubini for finite sums -/
theorem sumTo_comm (m n : Nat) (f : Nat → Nat → Rat) :
    sumTo m (fun i => sumTo n (fun j => f i j)) = sumTo n (fun j => sumTo m (fun i => f i j)) := by
  induction m with
  | zero => simp [sumTo, sumTo_zero']
  | succ m ih =>
    simp only [sumTo, ih]
    rw [← sumTo_add]

theorem sumTo_ite_eq {n : Nat} (j : Nat) (hj : j < n) (v : Rat) :
    sumTo n (fun k => if k = j then v else 0) = v := by
  induction n with
  | zero => omega
  | succ n ih =>
    simp only [sumTo]
    by_cases h : j = n
    · subst h
      have : sumTo j (fun k => if k = j then v else 0) = 0 :=
        sumTo_eq_zero (fun k hk => by simp; omega)
      simp [this]
    · have hn : ¬ n = j := fun e => h e.symm
      rw [ih (by omega)]; simp [hn]

/-! ### list sums -/

theorem sum_map_range (m : Nat) (f : Nat → Rat) : ((List.range m).map f).sum = sumTo m f := by
  induction m with
  | zero => simp [sumTo]
  | succ m ih => simp [List.range_succ, List.sum_append, ih, sumTo]

theorem sumOver_nil (f : α → Rat) : sumOver ([] : List α) f = 0 := by simp [sumOver]

theorem sumOver_cons (x : α) (l : List α) (f : α → Rat) :
    sumOver (x :: l) f = f x + sumOver l f := by simp [sumOver]

theorem sumOver_append (l₁ l₂ : List α) (f : α → Rat) :
    sumOver (l₁ ++ l₂) f = sumOver l₁ f + sumOver l₂ f := by
  simp [sumOver, List.sum_append]

theorem sumOver_map (l : List α) (g : α → β) (f : β → Rat) :
    sumOver (l.map g) f = sumOver l (fun x => f (g x)) := by
  simp [sumOver, Function.comp_def]

theorem sumOver_congr {l : List α} {f g : α → Rat} (h : ∀ x ∈ l, f x = g x) :
    sumOver l f = sumOver l g := by
  unfold sumOver
  rw [List.map_congr_left h]

theorem sumOver_range (m : Nat) (f : Nat → Rat) : sumOver (List.range m) f = sumTo m f :=
  sum_map_range m f

theorem sumOver_zero (l : List α) : sumOver l (fun _ => (0 : Rat)) = 0 := by
  induction l with
  | nil => simp [sumOver]
  | cons x l ih => rw [sumOver_cons, ih]; ring

theorem sumOver_eq_zero {l : List α} {f : α → Rat} (h : ∀ x ∈ l, f x = 0) : sumOver l f = 0 := by
  rw [sumOver_congr h, sumOver_zero]

theorem sumOver_add (l : List α) (f g : α → Rat) :
    sumOver l (fun x => f x + g x) = sumOver l f + sumOver l g := by
  induction l with
  | nil => simp [sumOver]
  | cons x l ih => simp only [sumOver_cons, ih]; ring

theorem sumOver_comm_sumTo (l : List α) (n : Nat) (f : α → Nat → Rat) :
    sumOver l (fun x => sumTo n (fun j => f x j)) = sumTo n (fun j => sumOver l (fun x => f x j)) := by
  induction l with
  | nil => simp [sumOver_nil, sumTo_zero']
  | cons x l ih => simp only [sumOver_cons, ih]; rw [← sumTo_add]

/-- a list sum as an indexed sum -/
theorem sumOver_eq_sumTo (l : List α) (f : α → Rat) :
    sumOver l f = sumTo l.length (fun k => match l[k]? with | some x => f x | none => 0) := by
  induction l with
  | nil => simp [sumOver, sumTo]
  | cons x l ih =>
    rw [sumOver_cons, ih]
    have h := sumTo_split 1 l.length (fun k => match (x :: l)[k]? with | some y => f y | none => 0)
    have hlen : (x :: l).length = 1 + l.length := by simp; omega
    rw [hlen, h]
    simp only [sumTo]
    have : sumTo l.length (fun k => match (x :: l)[1 + k]? with | some y => f y | none => 0) =
        sumTo l.length (fun k => match l[k]? with | some y => f y | none => 0) := by
      apply sumTo_congr
      intro k hk
      have : 1 + k = k + 1 := by omega
      simp [this]
    rw [this]; simp

/-- `enumerate(seq)` as an indexed sum -/
theorem sumOver_zipIdx (l : List α) (f : α × Nat → Rat) :
    sumOver l.zipIdx f = sumTo l.length (fun k => match l[k]? with | some x => f (x, k) | none => 0) := by
  rw [sumOver_eq_sumTo]
  simp only [List.length_zipIdx]
  apply sumTo_congr
  intro k hk
  simp [List.getElem?_zipIdx, List.getElem?_eq_getElem hk]

/-! ### `window_at_index` -/

theorem windowAt_after (s : List α) (r i : Nat) :
    windowAt s r i false = (s.drop (i + 1)).take r := by simp [windowAt]

theorem windowAt_before (s : List α) (r i : Nat) :
    windowAt s r i true = ((s.take i).drop (i - r)).reverse := by simp [windowAt]

theorem windowAt_after_length (s : List α) (r i : Nat) :
    (windowAt s r i false).length = min r (s.length - (i + 1)) := by
  simp [windowAt]

theorem windowAt_before_length (s : List α) (r i : Nat) (hi : i ≤ s.length) :
    (windowAt s r i true).length = min r i := by
  simp [windowAt]; omega

/-- **window content, 'after'**: entry `k` is the token at position `i + 1 + k`, for exactly the
`k < r` that stay inside the sequence. -/
theorem windowAt_after_getElem? (s : List α) (r i k : Nat) :
    (windowAt s r i false)[k]? = if k < r then s[i + 1 + k]? else none := by
  simp only [windowAt, Bool.false_eq_true, if_false, List.getElem?_take, List.getElem?_drop]

/-- **window content, 'before'**: entry `k` is the token at position `i - 1 - k`, for exactly the
`k < r` with `k < i` (clipped at the start of the sequence). -/
theorem windowAt_before_getElem? (s : List α) (r i k : Nat) (hi : i ≤ s.length) :
    (windowAt s r i true)[k]? = if k < r ∧ k < i then s[i - 1 - k]? else none := by
  simp only [windowAt, if_true]
  have hlen : ((s.take i).drop (i - r)).length = min r i := by simp; omega
  by_cases hk : k < min r i
  · rw [List.getElem?_reverse (by omega)]
    have h1 : k < r ∧ k < i := by omega
    simp only [h1, and_self, if_true, hlen, List.getElem?_drop, List.getElem?_take]
    have h2 : i - r + (min r i - 1 - k) = i - 1 - k := by omega
    have h3 : i - 1 - k < i := by omega
    simp [h2, h3]
  · have : ¬ (k < r ∧ k < i) := by omega
    simp only [this, if_false]
    apply List.getElem?_eq_none
    simp; omega

end VecModel.Cooc
