import VecModel.Model.Histogram
/-
  Helper lemmas for C20 (histogram partition / conservation).  Core Lean only.
-/
namespace VecModel.Hist

/-! ### the order on end points -/

theorem B.lt_def (a b : B) : (a < b) = B.lt a b := rfl

theorem B.lt_irrefl (a : B) : ¬ a < a := by
  cases a <;> simp [B.lt_def, B.lt]

theorem B.lt_trans {a b c : B} (h1 : a < b) (h2 : b < c) : a < c := by
  cases a <;> cases b <;> cases c <;> simp_all [B.lt_def, B.lt]
  grind

theorem B.lt_asymm {a b : B} (h1 : a < b) : ¬ b < a :=
  fun h2 => B.lt_irrefl a (B.lt_trans h1 h2)

/-- `x ≤ b` written as `¬ b < x`; for finite values the order is total -/
theorem B.fin_lt_fin {a b : Rat} : (B.fin a < B.fin b) ↔ a < b := by
  simp [B.lt_def, B.lt]

theorem B.lt_of_not_lt_of_lt {a b : B} {x : Rat} (h1 : ¬ a < .fin x) (h2 : b < .fin x) : b < a := by
  cases a <;> cases b <;> simp_all [B.lt_def, B.lt]
  grind

theorem B.ne_of_lt {a b : B} (h : a < b) : a ≠ b := by
  intro e; subst e; exact B.lt_irrefl a h

/-- `x ∈ (lo, hi]` -/
def InRange (lo hi : B) (x : Rat) : Prop := lo < .fin x ∧ ¬ hi < .fin x

instance (lo hi : B) (x : Rat) : Decidable (InRange lo hi x) := by
  unfold InRange; infer_instance

theorem contains_iff (b : Bin) (x : Rat) : b.contains x = true ↔ InRange b.lo b.hi x := by
  simp [Bin.contains, InRange]

/-! ### partitions -/

/-- `bins` is a gap-free, non-overlapping, increasing partition of `(lo, hi]`: every interval is
non-empty, each starts where its predecessor ends, the first starts at `lo`, the last ends at `hi`. -/
def Partition : B → B → List Bin → Prop
  | _, _, [] => False
  | lo, hi, [b] => b.lo = lo ∧ b.hi = hi ∧ lo < hi
  | lo, hi, b :: c :: cs => b.lo = lo ∧ lo < b.hi ∧ Partition b.hi hi (c :: cs)

theorem Partition.lt {lo hi : B} {bins : List Bin} (h : Partition lo hi bins) : lo < hi := by
  induction bins generalizing lo with
  | nil => exact h.elim
  | cons b rest ih =>
    cases rest with
    | nil => exact h.2.2
    | cons c cs => exact B.lt_trans h.2.1 (ih h.2.2)

theorem Partition.head_lo {lo hi : B} {b : Bin} {bs : List Bin} (h : Partition lo hi (b :: bs)) :
    b.lo = lo := by
  cases bs with
  | nil => exact h.1
  | cons c cs => exact h.1

/-- a value lies in some interval of a partition of `(lo, hi]` iff it lies in `(lo, hi]` -/
theorem Partition.covers {lo hi : B} {bins : List Bin} (h : Partition lo hi bins) (x : Rat) :
    (∃ b ∈ bins, b.contains x = true) ↔ InRange lo hi x := by
  induction bins generalizing lo with
  | nil => exact h.elim
  | cons b rest ih =>
    cases rest with
    | nil =>
      obtain ⟨h1, h2, _⟩ := h
      simp [contains_iff, h1, h2]
    | cons c cs =>
      obtain ⟨h1, h2, h3⟩ := h
      have ih' := ih h3
      have hlt := h3.lt
      simp only [List.mem_cons, exists_eq_or_imp] at ih' ⊢
      rw [ih', contains_iff, h1]
      unfold InRange
      constructor
      · rintro (⟨a, b'⟩ | ⟨a, b'⟩)
        · exact ⟨a, fun hx => b' (B.lt_trans hlt hx)⟩
        · exact ⟨B.lt_trans h2 a, b'⟩
      · rintro ⟨a, b'⟩
        by_cases hx : b.hi < .fin x
        · exact Or.inr ⟨hx, b'⟩
        · exact Or.inl ⟨a, hx⟩

/-- the intervals of a partition are pairwise disjoint: if the head contains `x`, no later one does -/
theorem Partition.head_excl {lo hi : B} {b : Bin} {bs : List Bin} (h : Partition lo hi (b :: bs))
    (x : Rat) (hb : b.contains x = true) : ∀ c ∈ bs, c.contains x = false := by
  cases bs with
  | nil => simp
  | cons c cs =>
    intro d hd
    obtain ⟨_, _, h3⟩ := h
    have := (h3.covers x).mp
    by_cases hc : d.contains x = true
    · have hr := this ⟨d, hd, hc⟩
      have hb' := (contains_iff b x).mp hb
      exact absurd hr.1 hb'.2
    · simpa using hc

theorem Partition.cons {lo hi : B} {b : Bin} {l : List Bin} (h1 : b.lo = lo) (h2 : lo < b.hi)
    (h3 : Partition b.hi hi l) : Partition lo hi (b :: l) := by
  cases l with
  | nil => exact h3.elim
  | cons c cs => exact ⟨h1, h2, h3⟩

theorem Partition.tail {lo hi : B} {b c : Bin} {cs : List Bin} (h : Partition lo hi (b :: c :: cs)) :
    Partition b.hi hi (c :: cs) := h.2.2

/-! ### cut -/

theorem cutFrom_some {bins : List Bin} {i k : Nat} {x : Rat} (h : cutFrom bins i x = some k) :
    i ≤ k ∧ k - i < bins.length ∧ ∃ b, bins[k - i]? = some b ∧ b.contains x = true := by
  induction bins generalizing i with
  | nil => simp [cutFrom] at h
  | cons b bs ih =>
    unfold cutFrom at h
    split at h
    · rename_i hb
      cases h
      simp [hb]
    · obtain ⟨h1, h2, c, h3, h4⟩ := ih h
      refine ⟨by omega, by simp; omega, c, ?_, h4⟩
      have : k - i = (k - (i + 1)) + 1 := by omega
      rw [this]; simpa using h3

theorem cutFrom_none {bins : List Bin} {i : Nat} {x : Rat} :
    cutFrom bins i x = none ↔ ∀ b ∈ bins, b.contains x = false := by
  induction bins generalizing i with
  | nil => simp [cutFrom]
  | cons b bs ih =>
    unfold cutFrom
    by_cases hb : b.contains x = true
    · simp [hb]
    · simp [hb, ih]

theorem cut_isSome_iff (bins : List Bin) (x : Rat) :
    (cut bins x).isSome = true ↔ ∃ b ∈ bins, b.contains x = true := by
  unfold cut
  cases h : cutFrom bins 0 x with
  | none =>
    have := cutFrom_none.mp h
    simp only [Option.isSome_none, Bool.false_eq_true, false_iff, not_exists, not_and]
    intro b hb; simp [this b hb]
  | some k =>
    obtain ⟨_, _, b, hb, hc⟩ := cutFrom_some h
    simp only [Option.isSome_some, true_iff]
    exact ⟨b, List.mem_of_getElem? hb, hc⟩

theorem cut_lt_length {bins : List Bin} {x : Rat} {k : Nat} (h : cut bins x = some k) :
    k < bins.length := by
  have := (cutFrom_some h).2.1
  simpa using this

/-! ### counting -/

theorem sum_map_add (l : List Nat) (f g : Nat → Nat) :
    (l.map (fun i => f i + g i)).sum = (l.map f).sum + (l.map g).sum := by
  induction l with
  | nil => rfl
  | cons a l ih => simp only [List.map_cons, List.sum_cons, ih]; omega

theorem sum_map_zero (l : List Nat) : (l.map (fun _ => 0)).sum = 0 := by
  induction l with
  | nil => rfl
  | cons a l ih => simp only [List.map_cons, List.sum_cons, ih]

theorem sum_indicator (n : Nat) (c : Option Nat) :
    ((List.range n).map (fun i => if c == some i then 1 else 0)).sum =
      if (∃ k, c = some k ∧ k < n) then 1 else 0 := by
  induction n with
  | zero => simp
  | succ n ih =>
    rw [List.range_succ, List.map_append, List.sum_append, ih]
    cases c with
    | none => simp
    | some k =>
      by_cases h1 : k < n
      · have : ¬ k = n := by omega
        simp [h1, this]; omega
      · by_cases h2 : k = n
        · subst h2; simp
        · have : ¬ k < n + 1 := by omega
          simp [h1, h2, this]

theorem countAt_cons (bins : List Bin) (x : Rat) (xs : List Rat) (i : Nat) :
    countAt bins (x :: xs) i = (if cut bins x == some i then 1 else 0) + countAt bins xs i := by
  unfold countAt
  rw [List.filter_cons]
  split <;> simp <;> omega

/-- the row total is the number of values that fall into some interval -/
theorem counts_sum (bins : List Bin) (xs : List Rat) :
    (counts bins xs).sum = (xs.filter (fun x => (cut bins x).isSome)).length := by
  unfold counts
  induction xs with
  | nil =>
    have : countAt bins [] = fun _ => 0 := by funext i; simp [countAt]
    simp [this, sum_map_zero]
  | cons x xs ih =>
    have : countAt bins (x :: xs) =
        (fun i => (if cut bins x == some i then 1 else 0) + countAt bins xs i) := by
      funext i; exact countAt_cons bins x xs i
    rw [this, sum_map_add, ih, sum_indicator, List.filter_cons]
    cases hc : cut bins x with
    | none => simp
    | some k =>
      have := cut_lt_length hc
      simp [this]; omega

/-! ### breaks → partition -/

theorem fromBreaks_partition (a : Rat) (rest : List Rat) (hne : rest ≠ [])
    (hinc : List.Pairwise (· < ·) (a :: rest)) :
    Partition (.fin a) (.fin ((a :: rest).getLast (by simp))) (fromBreaks (a :: rest)) := by
  induction rest generalizing a with
  | nil => exact absurd rfl hne
  | cons b rest ih =>
    have hab : a < b := (List.pairwise_cons.mp hinc).1 b (by simp)
    have hinc' : List.Pairwise (· < ·) (b :: rest) := (List.pairwise_cons.mp hinc).2
    cases rest with
    | nil =>
      simp [fromBreaks, Partition, B.fin_lt_fin, hab]
    | cons c cs =>
      have := ih b (by simp) hinc'
      unfold fromBreaks
      have hf : fromBreaks (b :: c :: cs) = ⟨.fin b, .fin c⟩ :: fromBreaks (c :: cs) := by
        simp [fromBreaks]
      rw [hf] at this ⊢
      refine ⟨rfl, ?_, ?_⟩
      · simpa [B.fin_lt_fin] using hab
      · simpa using this

/-! ### expansion and outlier bins -/

theorem setLastHi_partition {lo hi a1 : B} {bins : List Bin} (h : Partition lo hi bins) :
    Partition lo (if hi < a1 then a1 else hi) (setLastHi a1 bins) := by
  induction bins generalizing lo with
  | nil => exact h.elim
  | cons b rest ih =>
    cases rest with
    | nil =>
      obtain ⟨h1, h2, h3⟩ := h
      subst h1 h2
      unfold setLastHi
      by_cases hx : b.hi < a1
      · simp only [hx, if_true]
        exact ⟨rfl, rfl, B.lt_trans h3 hx⟩
      · simp only [hx, if_false]
        exact ⟨rfl, rfl, h3⟩
    | cons c cs =>
      obtain ⟨h1, h2, h3⟩ := h
      have := ih h3
      unfold setLastHi
      exact Partition.cons h1 h2 this

theorem setFirstLo_partition {lo hi a0 : B} {bins : List Bin} (h : Partition lo hi bins) :
    Partition (if a0 < lo then a0 else lo) hi (setFirstLo a0 bins) := by
  cases bins with
  | nil => exact h.elim
  | cons b rest =>
    cases rest with
    | nil =>
      obtain ⟨h1, h2, h3⟩ := h
      subst h1 h2
      unfold setFirstLo
      by_cases hx : a0 < b.lo
      · simp only [hx, if_true]
        exact ⟨rfl, rfl, B.lt_trans hx h3⟩
      · simp only [hx, if_false]
        exact ⟨rfl, rfl, h3⟩
    | cons c cs =>
      obtain ⟨h1, h2, h3⟩ := h
      subst h1
      unfold setFirstLo
      by_cases hx : a0 < b.lo
      · simp only [hx, if_true]
        exact ⟨rfl, B.lt_trans hx h2, h3⟩
      · simp only [hx, if_false]
        exact ⟨rfl, h2, h3⟩

theorem addRightOutlier_partition {lo hi a1 : B} {bins : List Bin} (h : Partition lo hi bins) :
    Partition lo (if hi < a1 then a1 else hi) (addRightOutlier a1 bins) := by
  induction bins generalizing lo with
  | nil => exact h.elim
  | cons b rest ih =>
    cases rest with
    | nil =>
      obtain ⟨h1, h2, h3⟩ := h
      subst h1 h2
      unfold addRightOutlier
      by_cases hx : b.hi < a1
      · simp only [hx, if_true]
        exact ⟨rfl, h3, rfl, rfl, hx⟩
      · simp only [hx, if_false]
        exact ⟨rfl, rfl, h3⟩
    | cons c cs =>
      obtain ⟨h1, h2, h3⟩ := h
      have := ih h3
      unfold addRightOutlier
      exact Partition.cons h1 h2 this

theorem addLeftOutlier_partition {lo hi a0 : B} {bins : List Bin} (h : Partition lo hi bins) :
    Partition (if a0 < lo then a0 else lo) hi (addLeftOutlier a0 bins) := by
  cases bins with
  | nil => exact h.elim
  | cons b rest =>
    have hb : b.lo = lo := h.head_lo
    subst hb
    unfold addLeftOutlier
    by_cases hx : a0 < b.lo
    · simp only [hx, if_true]
      exact ⟨rfl, hx, h⟩
    · simp only [hx, if_false]
      exact h

theorem addLeftOutlier_ne_nil {a0 : B} {bins : List Bin} (h : bins ≠ []) : addLeftOutlier a0 bins ≠ [] := by
  cases bins with
  | nil => exact absurd rfl h
  | cons b bs => simp only [addLeftOutlier]; split <;> simp

end VecModel.Hist
