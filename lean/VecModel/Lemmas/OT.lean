import VecModel.Model.OT
import Mathlib.Algebra.Order.Field.Rat
import Mathlib.Tactic.Linarith
import Mathlib.Tactic.Ring
import Mathlib.Tactic.FieldSimp
import Mathlib.Data.List.Forall2
/- Helper lemmas for Props/C07 and Props/C08. -/
namespace VecModel.OT

/-! ### the arc map -/

theorem cell_lt {n m i j : Nat} (hi : i < n) (hj : j < m) : i * m + j < n * m := by
  have h1 : (i + 1) * m ≤ n * m := Nat.mul_le_mul_right m hi
  have h2 : (i + 1) * m = i * m + m := by ring
  omega

theorem arcOf_range {n m i j : Nat} (hi : i < n) (hj : j < m) :
    0 ≤ arcOf n m i j ∧ arcOf n m i j < (n * m : Nat) := by
  have := cell_lt hi hj
  unfold arcOf
  omega

theorem cell_inj {m i j i' j' : Nat} (hj : j < m) (hj' : j' < m)
    (h : i * m + j = i' * m + j') : i = i' ∧ j = j' := by
  have hm : 0 < m := by omega
  have e1 : (i * m + j) / m = i := by
    rw [Nat.add_comm, Nat.add_mul_div_right _ _ hm, Nat.div_eq_of_lt hj]; simp
  have e2 : (i' * m + j') / m = i' := by
    rw [Nat.add_comm, Nat.add_mul_div_right _ _ hm, Nat.div_eq_of_lt hj']; simp
  have hi : i = i' := by rw [← e1, ← e2, h]
  subst hi
  exact ⟨rfl, by omega⟩

theorem arcOf_inj {n m i j i' j' : Nat} (_hi : i < n) (hj : j < m) (_hi' : i' < n) (hj' : j' < m)
    (h : arcOf n m i j = arcOf n m i' j') : i = i' ∧ j = j' := by
  unfold arcOf at h
  exact cell_inj hj hj' (by omega)

theorem arcOf_surj {n m : Nat} {k : Nat} (hk : k < n * m) :
    ∃ i j, i < n ∧ j < m ∧ arcOf n m i j = (k : Int) := by
  have hm : 0 < m := by
    rcases Nat.eq_zero_or_pos m with h | h
    · subst h; simp at hk
    · exact h
  refine ⟨(n * m - 1 - k) / m, (n * m - 1 - k) % m, ?_, Nat.mod_lt _ hm, ?_⟩
  · rw [Nat.div_lt_iff_lt_mul hm]; omega
  · unfold arcOf
    have := Nat.div_add_mod' (n * m - 1 - k) m
    omega

/-! ### the write log -/

theorem lastWrite_mem {ws : List (Int × Rat)} {k : Int} {x : Rat} (h : lastWrite ws k = some x) :
    (k, x) ∈ ws := by
  induction ws with
  | nil => simp [lastWrite] at h
  | cons w rest ih =>
    obtain ⟨k', v⟩ := w
    unfold lastWrite at h
    split at h
    · rename_i y hy
      cases h
      exact List.mem_cons_of_mem _ (ih hy)
    · split at h
      · rename_i hk
        cases h
        subst hk
        exact List.mem_cons_self
      · cases h

theorem lastWrite_none {ws : List (Int × Rat)} {k : Int} (h : lastWrite ws k = none) :
    ∀ v, (k, v) ∉ ws := by
  induction ws with
  | nil => simp
  | cons w rest ih =>
    obtain ⟨k', v'⟩ := w
    unfold lastWrite at h
    split at h
    · cases h
    · rename_i hn
      split at h
      · cases h
      · rename_i hk
        intro v hv
        rcases List.mem_cons.mp hv with e | e
        · cases e; exact hk rfl
        · exact ih hn v e

/-- a key that is written with one value only reads back that value -/
theorem lastWrite_of_functional {ws : List (Int × Rat)} {k : Int} {v : Rat} (hm : (k, v) ∈ ws)
    (hf : ∀ v', (k, v') ∈ ws → v' = v) : lastWrite ws k = some v := by
  cases h : lastWrite ws k with
  | none => exact absurd hm (lastWrite_none h v)
  | some x => rw [hf x (lastWrite_mem h)]

theorem mem_costWrites {n m : Nat} {C : Mat} {r0 : List Rat} {rest : Mat} (hC : C = r0 :: rest)
    {k : Int} {v : Rat} :
    (k, v) ∈ costWrites n m C ↔
      ∃ i j row, C[i]? = some row ∧ row[j]? = some v ∧
        k = ((n * m : Nat) : Int) - 1 - ((i * r0.length + j : Nat) : Int) := by
  subst hC
  simp only [costWrites, List.mem_flatMap, List.mem_map, Prod.exists, List.mem_zipIdx_iff_getElem?,
    Prod.mk.injEq]
  constructor
  · rintro ⟨row, i, hrow, c, j, hc, rfl, rfl⟩
    exact ⟨i, j, row, hrow, hc, rfl⟩
  · rintro ⟨i, j, row, hrow, hc, rfl⟩
    exact ⟨row, i, hrow, v, j, hc, rfl, rfl⟩

/-- the array `costArray` returns when no write is out of bounds -/
def cellArr (size : Nat) (ws : List (Int × Rat)) : List Rat :=
  (List.range size).map fun (k : Nat) => match lastWrite ws (k : Int) with
    | some v => v
    | none => 1

theorem cellArr_length (size : Nat) (ws : List (Int × Rat)) : (cellArr size ws).length = size := by
  simp [cellArr]

theorem cellArr_get {size : Nat} {ws : List (Int × Rat)} {k : Nat} {v : Rat} (hk : k < size)
    (h : lastWrite ws (k : Int) = some v) : (cellArr size ws)[k]'(by simp [cellArr, hk]) = v := by
  simp [cellArr, h]

/-! ### monadic maps over ranges -/

theorem mapM_ok_of_forall {α β : Type} (f : α → Except Err β) (g : α → β) (l : List α)
    (h : ∀ x ∈ l, f x = .ok (g x)) : l.mapM f = .ok (l.map g) := by
  induction l with
  | nil => rfl
  | cons a as ih =>
    rw [List.mapM_cons, h a List.mem_cons_self, ih (fun x hx => h x (List.mem_cons_of_mem _ hx))]
    rfl

theorem mapM_some_of_forall {α β : Type} (f : α → Option β) (g : α → β) (l : List α)
    (h : ∀ x ∈ l, f x = some (g x)) : l.mapM f = some (l.map g) := by
  induction l with
  | nil => rfl
  | cons a as ih =>
    rw [List.mapM_cons, h a List.mem_cons_self, ih (fun x hx => h x (List.mem_cons_of_mem _ hx))]
    rfl

theorem rdI_ok {α : Type} {name : String} {a : List α} {k : Nat} (h : k < a.length) :
    rdI name a (k : Int) = .ok a[k] := by
  unfold rdI
  simp [rd, h]

/-- a matrix of shape n×m is the table of its entries -/
theorem mat_eq_table {β : Type} {n m : Nat} {C : List (List β)} (hn : C.length = n)
    (hm : ∀ r ∈ C, r.length = m) (g : Nat → Nat → β)
    (hg : ∀ i j (hi : i < C.length) (hj : j < C[i].length), g i j = C[i][j]) :
    (List.range n).map (fun i => (List.range m).map (fun j => g i j)) = C := by
  apply List.ext_getElem
  · simp [hn]
  · intro i h1 h2
    have hi : i < C.length := h2
    have hl : C[i].length = m := hm _ (List.getElem_mem hi)
    simp only [List.getElem_map, List.getElem_range]
    apply List.ext_getElem
    · simp [hl]
    · intro j h3 h4
      simp only [List.getElem_map, List.getElem_range]
      exact hg i j hi h4


/-! ### list algebra for the checker -/

def Shape (n m : Nat) (M : Mat) : Prop := M.length = n ∧ ∀ r ∈ M, r.length = m
def NonNeg (M : Mat) : Prop := ∀ r ∈ M, ∀ x ∈ r, (0 : Rat) ≤ x

theorem shapeOK_iff {n m : Nat} {M : Mat} : shapeOK n m M = true ↔ Shape n m M := by
  simp [shapeOK, Shape]

theorem dot_nil_left (b : Vec) : dot [] b = 0 := by simp [dot]
theorem dot_nil_right (a : Vec) : dot a [] = 0 := by simp [dot]
theorem dot_cons (x y : Rat) (a b : Vec) : dot (x :: a) (y :: b) = x * y + dot a b := by
  simp [dot]

theorem vadd_cons (x y : Rat) (a b : Vec) : vadd (x :: a) (y :: b) = (x + y) :: vadd a b := by
  simp [vadd]

theorem vadd_length (a b : Vec) : (vadd a b).length = min a.length b.length := by
  simp [vadd]

theorem vadd_comm (a b : Vec) : vadd a b = vadd b a := by
  induction a generalizing b with
  | nil => cases b <;> simp [vadd]
  | cons x a ih =>
    cases b with
    | nil => simp [vadd]
    | cons y b => rw [vadd_cons, vadd_cons, ih, add_comm]

theorem vadd_assoc (a b c : Vec) : vadd (vadd a b) c = vadd a (vadd b c) := by
  induction a generalizing b c with
  | nil => simp [vadd]
  | cons x a ih =>
    cases b with
    | nil => simp [vadd]
    | cons y b =>
      cases c with
      | nil => simp [vadd]
      | cons z c => simp only [vadd_cons, ih, add_assoc]

theorem sum_vadd {a b : Vec} (h : a.length = b.length) : (vadd a b).sum = a.sum + b.sum := by
  induction a generalizing b with
  | nil => cases b with
    | nil => simp [vadd]
    | cons _ _ => simp at h
  | cons x a ih =>
    cases b with
    | nil => simp at h
    | cons y b =>
      rw [vadd_cons, List.sum_cons, List.sum_cons, List.sum_cons, ih (by simpa using h)]
      ring

theorem dot_vadd_right {v a b : Vec} (h1 : v.length = a.length) (h2 : a.length = b.length) :
    dot v (vadd a b) = dot v a + dot v b := by
  induction v generalizing a b with
  | nil => simp [dot_nil_left]
  | cons x v ih =>
    cases a with
    | nil => simp at h1
    | cons y a =>
      cases b with
      | nil => simp at h2
      | cons z b =>
        rw [vadd_cons, dot_cons, dot_cons, dot_cons, ih (by simpa using h1) (by simpa using h2)]
        ring

theorem dot_vadd_left {c a b : Vec} (h1 : a.length = b.length) (h2 : b.length = c.length) :
    dot (vadd a b) c = dot a c + dot b c := by
  induction c generalizing a b with
  | nil => simp [dot_nil_right]
  | cons x c ih =>
    cases a with
    | nil => cases b with
      | nil => simp [vadd, dot_nil_left]
      | cons _ _ => simp at h1
    | cons y a =>
      cases b with
      | nil => simp at h1
      | cons z b =>
        rw [vadd_cons, dot_cons, dot_cons, dot_cons, ih (by simpa using h1) (by simpa using h2)]
        ring

theorem colSums_length {m : Nat} {P : Mat} (h : ∀ r ∈ P, r.length = m) : (colSums m P).length = m := by
  induction P with
  | nil => simp [colSums]
  | cons r P ih =>
    have hr : r.length = m := h r List.mem_cons_self
    have := ih (fun r hr => h r (List.mem_cons_of_mem _ hr))
    simp only [colSums, List.foldr_cons] at *
    rw [vadd_length, hr, this]; simp

theorem colSums_cons (m : Nat) (r : Vec) (P : Mat) : colSums m (r :: P) = vadd r (colSums m P) := rfl

theorem sum_replicate_zero (m : Nat) : (List.replicate m (0 : Rat)).sum = 0 := by
  induction m with
  | zero => rfl
  | succ m ih => simp [List.replicate_succ, ih]

theorem dot_replicate_zero (v : Vec) (m : Nat) : dot v (List.replicate m 0) = 0 := by
  induction v generalizing m with
  | nil => simp [dot_nil_left]
  | cons x v ih =>
    cases m with
    | zero => simp [dot_nil_right]
    | succ m => rw [List.replicate_succ, dot_cons, ih]; ring

/-- total mass by rows = total mass by columns -/
theorem sum_colSums {m : Nat} {P : Mat} (h : ∀ r ∈ P, r.length = m) :
    (colSums m P).sum = (rowSums P).sum := by
  induction P with
  | nil => simp [colSums, rowSums]
  | cons r P ih =>
    have hP : ∀ r ∈ P, r.length = m := fun r hr => h r (List.mem_cons_of_mem _ hr)
    have hr : r.length = m := h r List.mem_cons_self
    rw [colSums_cons, sum_vadd (by rw [hr, colSums_length hP]), ih hP]
    simp [rowSums]

/-- one row of weak duality -/
theorem row_duality (δ ui : Rat) : ∀ (r c v : Vec), r.length = c.length → r.length = v.length →
    (∀ x ∈ r, 0 ≤ x) → (∀ vc ∈ List.zip v c, ui + vc.1 ≤ vc.2 + δ) →
    ui * r.sum + dot v r ≤ dot r c + δ * r.sum := by
  intro r
  induction r with
  | nil => intro c v _ _ _ _; simp [dot_nil_left, dot_nil_right]
  | cons x r ih =>
    intro c v hc hv hx hd
    cases c with
    | nil => simp at hc
    | cons y c =>
      cases v with
      | nil => simp at hv
      | cons z v =>
        have h0 : 0 ≤ x := hx x List.mem_cons_self
        have hz : ui + z ≤ y + δ := hd (z, y) (by simp)
        have := ih c v (by simpa using hc) (by simpa using hv)
          (fun t ht => hx t (List.mem_cons_of_mem _ ht))
          (fun vc hvc => hd vc (by simp only [List.zip_cons_cons]; exact List.mem_cons_of_mem _ hvc))
        rw [List.sum_cons, dot_cons, dot_cons]
        nlinarith [mul_le_mul_of_nonneg_right hz h0]

theorem inner_cons (r c : Vec) (P C : Mat) : inner (r :: P) (c :: C) = dot r c + inner P C := by
  simp [inner]

/-- weak duality in list form: for a non-negative `Q` of shape n×m and `δ`-feasible potentials,
`Σ_i u_i·rowsum_i + Σ_j v_j·colsum_j ≤ ⟨Q,C⟩ + δ·mass(Q)` -/
theorem weak_duality_core (δ : Rat) (m : Nat) (v : Vec) (hv : v.length = m) :
    ∀ (Q C : Mat) (u : Vec), Q.length = C.length → Q.length = u.length →
      (∀ r ∈ Q, r.length = m) → (∀ c ∈ C, c.length = m) → NonNeg Q →
      (∀ uc ∈ List.zip u C, ∀ vc ∈ List.zip v uc.2, uc.1 + vc.1 ≤ vc.2 + δ) →
      dot u (rowSums Q) + dot v (colSums m Q) ≤ inner Q C + δ * (rowSums Q).sum := by
  intro Q
  induction Q with
  | nil =>
    intro C u _ _ _ _ _ _
    simp [rowSums, colSums, dot_nil_right, inner, dot_replicate_zero]
  | cons r Q ih =>
    intro C u hC hu hQ hCm hnn hd
    cases C with
    | nil => simp at hC
    | cons c C =>
      cases u with
      | nil => simp at hu
      | cons ui u =>
        have hr : r.length = m := hQ r List.mem_cons_self
        have hc : c.length = m := hCm c List.mem_cons_self
        have hQ' : ∀ r ∈ Q, r.length = m := fun r hr => hQ r (List.mem_cons_of_mem _ hr)
        have ihh := ih C u (by simpa using hC) (by simpa using hu) hQ'
          (fun c hc => hCm c (List.mem_cons_of_mem _ hc))
          (fun r hr => hnn r (List.mem_cons_of_mem _ hr))
          (fun uc huc => hd uc (by simp only [List.zip_cons_cons]; exact List.mem_cons_of_mem _ huc))
        have hrow := row_duality δ ui r c v (by rw [hr, hc]) (by rw [hr, hv])
          (hnn r List.mem_cons_self) (hd (ui, c) (by simp))
        have e1 : rowSums (r :: Q) = r.sum :: rowSums Q := rfl
        rw [e1, dot_cons, colSums_cons, dot_vadd_right (by rw [hv, hr]) (by rw [hr, colSums_length hQ']),
          inner_cons, List.sum_cons]
        nlinarith [hrow, ihh]

/-! ### unpacking the Boolean checks -/

theorem allGE_iff {lo : Rat} {M : Mat} : allGE lo M = true ↔ ∀ r ∈ M, ∀ x ∈ r, lo ≤ x := by
  simp [allGE]

theorem within_iff {eps : Rat} {a b : Vec} :
    within eps a b = true ↔ a.length = b.length ∧ ∀ xy ∈ List.zip a b, xy.1 - xy.2 ≤ eps ∧ xy.2 - xy.1 ≤ eps := by
  simp [within]

theorem dualFeas_iff {δ : Rat} {u v : Vec} {C : Mat} :
    dualFeas δ u v C = true ↔ ∀ uc ∈ List.zip u C, ∀ vc ∈ List.zip v uc.2, uc.1 + vc.1 ≤ vc.2 + δ := by
  simp [dualFeas]


/-! ### feasibility, optimality -/

/-- `Q` is a coupling of `p` and `q`: right shape, non-negative, exact marginals -/
def Feasible (p q : Vec) (Q : Mat) : Prop :=
  Shape p.length q.length Q ∧ NonNeg Q ∧ rowSums Q = p ∧ colSums q.length Q = q

/-- `u_i + v_j ≤ C_ij + δ` for every cell (in zipped form; see `dualFeasible_index`) -/
def DualFeasible (δ : Rat) (u v : Vec) (C : Mat) : Prop :=
  ∀ uc ∈ List.zip u C, ∀ vc ∈ List.zip v uc.2, uc.1 + vc.1 ≤ vc.2 + δ

def Optimal (p q : Vec) (C P : Mat) : Prop :=
  Feasible p q P ∧ ∀ Q, Feasible p q Q → inner P C ≤ inner Q C

theorem dualFeasible_index {δ : Rat} {u v : Vec} {C : Mat} (h : DualFeasible δ u v C)
    (i j : Nat) (hi : i < u.length) (hi' : i < C.length) (hj : j < v.length) (hj' : j < C[i].length) :
    u[i] + v[j] ≤ C[i][j] + δ := by
  have h1 : (u[i], C[i]) ∈ List.zip u C := by
    rw [List.mem_iff_getElem]
    exact ⟨i, by simp [hi, hi'], by simp⟩
  have h2 : (v[j], C[i][j]) ∈ List.zip v C[i] := by
    rw [List.mem_iff_getElem]
    exact ⟨j, by simp [hj, hj'], by simp⟩
  exact h _ h1 _ h2

/-! ### cost orientation -/

theorem transpose_pairwise {α β : Type} (d : α → α → β) (X R : List α) :
    transpose X.length (pairwise d R X) = some (pairwise (fun a b => d b a) X R) := by
  unfold transpose
  have hall : (pairwise d R X).all (fun r => r.length == X.length) = true := by
    simp [pairwise]
  rw [if_pos hall]
  congr 1
  clear hall
  induction R with
  | nil => simp [pairwise, List.map_const']
  | cons b R ih =>
    simp only [pairwise, List.map_cons, List.foldr_cons] at ih ⊢
    rw [ih, List.zipWith_map_left, List.zipWith_map_right, List.zipWith_self]


/-! ## C08 -/

theorem sum_map_mul_left (a : Rat) (w : Vec) : (w.map (a * ·)).sum = a * w.sum := by
  induction w with
  | nil => simp
  | cons x w ih => rw [List.map_cons, List.sum_cons, List.sum_cons, ih]; ring

/-! ### blocks -/

theorem blocks_take {α : Type} (b : Nat) (X : List α) (k : Nat) :
    ((List.range k).map fun i => (X.drop (i * b)).take b).flatten = X.take (k * b) := by
  induction k with
  | zero => simp
  | succ k ih =>
    rw [List.range_succ, List.map_append, List.flatten_append, ih, Nat.succ_mul, List.take_add]
    simp

theorem blocks_flatten {α : Type} (b : Nat) (hb : 1 ≤ b) (X : List α) : (blocks b X).flatten = X := by
  unfold blocks
  rw [blocks_take]
  apply List.take_of_length_le
  have h1 := Nat.div_add_mod X.length b
  have h2 := Nat.mod_lt X.length (show 0 < b by omega)
  have h3 : (X.length / b + 1) * b = b * (X.length / b) + b := by ring
  omega

/-! ### non-negative vectors -/

theorem nonneg_sum_zero : ∀ (z : Vec), (∀ t ∈ z, 0 ≤ t) → z.sum = 0 → ∀ t ∈ z, t = 0 := by
  intro z
  induction z with
  | nil => intro _ _ t ht; simp at ht
  | cons x z ih =>
    intro h0 hs t ht
    have hx : 0 ≤ x := h0 x List.mem_cons_self
    have hz : ∀ t ∈ z, 0 ≤ t := fun t ht => h0 t (List.mem_cons_of_mem _ ht)
    have hzs : 0 ≤ z.sum := by
      clear ih hs ht h0
      induction z with
      | nil => simp
      | cons y z ih2 =>
        rw [List.sum_cons]
        have := ih2 (fun t ht => hz t (List.mem_cons_of_mem _ ht))
        have := hz y List.mem_cons_self
        linarith
    rw [List.sum_cons] at hs
    rcases List.mem_cons.mp ht with rfl | ht
    · linarith
    · exact ih hz (by linarith) t ht

theorem sum_nonneg' {z : Vec} (hz : ∀ t ∈ z, 0 ≤ t) : 0 ≤ z.sum := by
  induction z with
  | nil => simp
  | cons y z ih =>
    rw [List.sum_cons]
    have := ih (fun t ht => hz t (List.mem_cons_of_mem _ ht))
    have := hz y List.mem_cons_self
    linarith

theorem vadd_nonneg {a b : Vec} (ha : ∀ t ∈ a, 0 ≤ t) (hb : ∀ t ∈ b, 0 ≤ t) : ∀ t ∈ vadd a b, 0 ≤ t := by
  induction a generalizing b with
  | nil => intro t ht; simp [vadd] at ht
  | cons x a ih =>
    cases b with
    | nil => intro t ht; simp [vadd] at ht
    | cons y b =>
      intro t ht
      rw [vadd_cons] at ht
      rcases List.mem_cons.mp ht with rfl | ht
      · have := ha x List.mem_cons_self
        have := hb y List.mem_cons_self
        linarith
      · exact ih (fun t ht => ha t (List.mem_cons_of_mem _ ht)) (fun t ht => hb t (List.mem_cons_of_mem _ ht)) t ht

theorem colSums_nonneg {m : Nat} {P : Mat} (h : NonNeg P) : ∀ t ∈ colSums m P, 0 ≤ t := by
  induction P with
  | nil => intro t ht; simp [colSums] at ht; rw [ht.2]
  | cons r P ih =>
    rw [colSums_cons]
    exact vadd_nonneg (h r List.mem_cons_self) (ih (fun r hr => h r (List.mem_cons_of_mem _ hr)))

/-! ### Sinkhorn sub-chunk column selection -/

theorem forall₂_le_vadd_left : ∀ (r acc : Vec), (∀ t ∈ acc, 0 ≤ t) → r.length = acc.length →
    List.Forall₂ (fun s x => x ≤ s) (vadd r acc) r := by
  intro r
  induction r with
  | nil => intro acc _ _; simp [vadd]
  | cons x r ih =>
    intro acc h hl
    cases acc with
    | nil => simp at hl
    | cons y acc =>
      rw [vadd_cons]
      refine List.Forall₂.cons ?_ (ih acc (fun t ht => h t (List.mem_cons_of_mem _ ht)) (by simpa using hl))
      have := h y List.mem_cons_self
      linarith

theorem forall₂_le_vadd_right : ∀ (r acc row : Vec), (∀ t ∈ r, 0 ≤ t) → r.length = acc.length →
    List.Forall₂ (fun s x => x ≤ s) acc row → List.Forall₂ (fun s x => x ≤ s) (vadd r acc) row := by
  intro r
  induction r with
  | nil =>
    intro acc row _ hl h
    have : acc = [] := List.length_eq_zero_iff.mp (by simpa using hl.symm)
    subst this
    simpa [vadd] using h
  | cons x r ih =>
    intro acc row h0 hl h
    cases h with
    | nil => simp at hl
    | @cons s t acc' row' hst hrest =>
      rw [vadd_cons]
      refine List.Forall₂.cons ?_ (ih acc' row' (fun t ht => h0 t (List.mem_cons_of_mem _ ht)) (by simpa using hl) hrest)
      have := h0 x List.mem_cons_self
      linarith

/-- every entry of a row of a non-negative chunk is bounded by its column sum -/
theorem colSums_ge_row {m : Nat} {chunk : Mat} (hs : ∀ r ∈ chunk, r.length = m) (hn : NonNeg chunk)
    {row : Vec} (hrow : row ∈ chunk) : List.Forall₂ (fun s x => x ≤ s) (colSums m chunk) row := by
  induction chunk with
  | nil => simp at hrow
  | cons r P ih =>
    have hsP : ∀ r ∈ P, r.length = m := fun r hr => hs r (List.mem_cons_of_mem _ hr)
    have hnP : NonNeg P := fun r hr => hn r (List.mem_cons_of_mem _ hr)
    have hl : r.length = (colSums m P).length := by rw [hs r List.mem_cons_self, colSums_length hsP]
    rw [colSums_cons]
    rcases List.mem_cons.mp hrow with rfl | hrow
    · exact forall₂_le_vadd_left _ _ (colSums_nonneg hnP) hl
    · exact forall₂_le_vadd_right _ _ _ (hn r List.mem_cons_self) hl (ih hsP hnP hrow)

theorem selectCols_sum : ∀ (mask : List Bool) (row : Vec),
    List.Forall₂ (fun b x => b = false → x = 0) mask row → (selectCols mask row).sum = row.sum := by
  intro mask row h
  induction h with
  | nil => simp [selectCols]
  | @cons b x mask row hbx _ ih =>
    unfold selectCols at ih ⊢
    cases b with
    | true => simp only [List.zip_cons_cons, List.filterMap_cons, if_true, List.sum_cons, ih]
    | false =>
      simp only [List.zip_cons_cons, List.filterMap_cons, Bool.false_eq_true, if_false, List.sum_cons, ih]
      rw [hbx rfl]; ring

/-! ### the barycentric projection as a sum of outer products -/

theorem madd_comm (A B : Mat) : madd A B = madd B A := by
  induction A generalizing B with
  | nil => cases B <;> simp [madd]
  | cons a A ih =>
    cases B with
    | nil => simp [madd]
    | cons b B =>
      have := ih B
      simp only [madd, List.zipWith_cons_cons] at this ⊢
      rw [this, vadd_comm]

theorem madd_assoc (A B C : Mat) : madd (madd A B) C = madd A (madd B C) := by
  induction A generalizing B C with
  | nil => simp [madd]
  | cons a A ih =>
    cases B with
    | nil => simp [madd]
    | cons b B =>
      cases C with
      | nil => simp [madd]
      | cons c C =>
        have := ih B C
        simp only [madd, List.zipWith_cons_cons] at this ⊢
        rw [this, vadd_assoc]

/-- one term of `tmul` -/
def step (sx : Vec × Vec) (acc : Mat) : Mat := madd (outer sx.1 sx.2) acc

theorem step_left_comm (a b : Vec × Vec) (acc : Mat) : step a (step b acc) = step b (step a acc) := by
  unfold step
  rw [← madd_assoc, ← madd_assoc, madd_comm (outer a.1 a.2)]

theorem tmul_eq (m d : Nat) (S X : Mat) : tmul m d S X = (List.zip S X).foldr step (zeroM m d) := rfl

theorem tmul_cons (m d : Nat) (s x : Vec) (S X : Mat) :
    tmul m d (s :: S) (x :: X) = step (s, x) (tmul m d S X) := rfl

theorem tmul_append (m d : Nat) {S1 X1 : Mat} (S2 X2 : Mat) (h : S1.length = X1.length) :
    tmul m d (S1 ++ S2) (X1 ++ X2) = (List.zip S1 X1).foldr step (tmul m d S2 X2) := by
  rw [tmul_eq, List.zip_append h, List.foldr_append]
  rfl

def MShape (m d : Nat) (T : Mat) : Prop := T.length = m ∧ ∀ r ∈ T, r.length = d

theorem zeroM_shape (m d : Nat) : MShape m d (zeroM m d) := by
  constructor
  · simp [zeroM]
  · intro r hr
    simp [zeroM] at hr
    rw [hr.2]; simp

theorem outer_shape {s x : Vec} : MShape s.length x.length (outer s x) := by
  constructor
  · simp [outer]
  · intro r hr
    simp [outer, smul] at hr
    obtain ⟨_, _, rfl⟩ := hr
    simp

theorem madd_shape {m d : Nat} {A B : Mat} (hA : MShape m d A) (hB : MShape m d B) : MShape m d (madd A B) := by
  constructor
  · simp [madd, hA.1, hB.1]
  · intro r hr
    unfold madd at hr
    obtain ⟨i, hi, rfl⟩ := List.mem_iff_getElem.mp hr
    simp only [List.length_zipWith] at hi
    rw [List.getElem_zipWith, vadd_length, hA.2 _ (List.getElem_mem _), hB.2 _ (List.getElem_mem _)]
    simp

theorem tmul_shape {m d : Nat} : ∀ {S X : Mat}, (∀ s ∈ S, s.length = m) → (∀ x ∈ X, x.length = d) →
    MShape m d (tmul m d S X) := by
  intro S
  induction S with
  | nil => intro X _ _; simpa [tmul] using zeroM_shape m d
  | cons s S ih =>
    intro X hS hX
    cases X with
    | nil => simpa [tmul] using zeroM_shape m d
    | cons x X =>
      rw [tmul_cons]
      unfold step
      have h1 : MShape m d (outer s x) := by
        have := @outer_shape s x
        rw [hS s List.mem_cons_self, hX x List.mem_cons_self] at this
        exact this
      exact madd_shape h1 (ih (fun s hs => hS s (List.mem_cons_of_mem _ hs)) (fun x hx => hX x (List.mem_cons_of_mem _ hx)))

theorem vadd_zero_left : ∀ (d : Nat) (t : Vec), t.length = d → vadd (List.replicate d 0) t = t := by
  intro d
  induction d with
  | zero => intro t ht; simp [vadd, List.length_eq_zero_iff.mp ht]
  | succ d ih =>
    intro t ht
    cases t with
    | nil => simp at ht
    | cons y t => rw [List.replicate_succ, vadd_cons, ih t (by simpa using ht)]; simp

theorem madd_zero_left {m d : Nat} {T : Mat} (hT : MShape m d T) : madd (zeroM m d) T = T := by
  obtain ⟨hl, hr⟩ := hT
  induction T generalizing m with
  | nil => simp [madd]
  | cons t T ih =>
    cases m with
    | zero => simp at hl
    | succ m =>
      have := ih (m := m) (by simpa using hl) (fun r h => hr r (List.mem_cons_of_mem _ h))
      simp only [madd, zeroM, List.replicate_succ, List.zipWith_cons_cons] at this ⊢
      rw [this, vadd_zero_left d t (hr t List.mem_cons_self)]

theorem outer_zero {s x : Vec} (hs : ∀ t ∈ s, t = 0) : outer s x = zeroM s.length x.length := by
  induction s with
  | nil => rfl
  | cons t s ih =>
    have ht : t = 0 := hs t List.mem_cons_self
    have := ih (fun t h => hs t (List.mem_cons_of_mem _ h))
    simp only [outer, List.map_cons, zeroM, List.length_cons, List.replicate_succ] at this ⊢
    rw [this, ht]
    congr 1
    simp only [smul, zero_mul]
    exact List.map_const' ..

theorem zipWith_scale_vadd (r1 r2 q : Vec) :
    List.zipWith (fun pij qj => pij * (1 / qj)) (vadd r1 r2) q =
      vadd (List.zipWith (fun pij qj => pij * (1 / qj)) r1 q) (List.zipWith (fun pij qj => pij * (1 / qj)) r2 q) := by
  induction r1 generalizing r2 q with
  | nil => simp [vadd]
  | cons a r1 ih =>
    cases r2 with
    | nil => simp [vadd]
    | cons b r2 =>
      cases q with
      | nil => simp [vadd]
      | cons c q =>
        rw [vadd_cons]
        simp only [List.zipWith_cons_cons]
        rw [vadd_cons, ih]
        congr 1
        ring

theorem outer_vadd (s1 s2 x : Vec) : outer (vadd s1 s2) x = madd (outer s1 x) (outer s2 x) := by
  induction s1 generalizing s2 with
  | nil => simp [vadd, outer, madd]
  | cons a s1 ih =>
    cases s2 with
    | nil => simp [vadd, outer, madd]
    | cons b s2 =>
      have := ih s2
      rw [vadd_cons]
      simp only [outer, List.map_cons, madd, List.zipWith_cons_cons] at this ⊢
      rw [this]
      congr 1
      simp only [smul, vadd, List.zipWith_map_left, List.zipWith_map_right, List.zipWith_self]
      apply List.map_congr_left
      intro t _
      ring

theorem scale_zero {z q : Vec} (hz : ∀ t ∈ z, t = 0) :
    ∀ t ∈ List.zipWith (fun pij qj => pij * (1 / qj)) z q, t = 0 := by
  induction z generalizing q with
  | nil => intro t ht; simp at ht
  | cons a z ih =>
    cases q with
    | nil => intro t ht; simp at ht
    | cons c q =>
      intro t ht
      simp only [List.zipWith_cons_cons] at ht
      rcases List.mem_cons.mp ht with rfl | ht
      · rw [hz a List.mem_cons_self]; ring
      · exact ih (fun t h => hz t (List.mem_cons_of_mem _ h)) t ht


theorem forall₂_with_right {α β : Type} {R : α → β → Prop} {Pp : β → Prop} {l : List α} {row : List β}
    (h : List.Forall₂ R l row) (hp : ∀ x ∈ row, Pp x) : List.Forall₂ (fun s x => Pp x ∧ R s x) l row := by
  induction h with
  | nil => exact List.Forall₂.nil
  | cons hab _ ih =>
    exact List.Forall₂.cons ⟨hp _ List.mem_cons_self, hab⟩ (ih (fun x hx => hp x (List.mem_cons_of_mem _ hx)))

/-- `images` only looks at the shape check and at `tmul` of the scaled plan -/
theorem images_congr {d : Nat} {P X P' X' : Mat} {q : Vec}
    (hcond : (P.length == X.length && P.all (fun r => r.length == q.length) && X.all (fun x => x.length == d)) =
             (P'.length == X'.length && P'.all (fun r => r.length == q.length) && X'.all (fun x => x.length == d)))
    (hT : (P.length == X.length && P.all (fun r => r.length == q.length) && X.all (fun x => x.length == d)) = true →
      tmul q.length d (scaleCols P q) X = tmul q.length d (scaleCols P' q) X') :
    images d P X q = images d P' X' q := by
  unfold images
  split
  · rfl
  · rw [← hcond]
    split
    · rfl
    · rename_i hc
      simp only [Bool.not_eq_true', Bool.not_eq_false] at hc
      rw [hT hc]


/-! ### splitting a plan row (converse of merging) -/

theorem smul_length (t : Rat) (x : Vec) : (smul t x).length = x.length := by simp [smul]

theorem smul_sum (t : Rat) (x : Vec) : (smul t x).sum = t * x.sum := sum_map_mul_left t x

theorem vadd_smul (s t : Rat) (x : Vec) : vadd (smul s x) (smul t x) = smul (s + t) x := by
  simp only [vadd, smul, List.zipWith_map_left, List.zipWith_map_right, List.zipWith_self]
  apply List.map_congr_left
  intro y _; ring

theorem smul_one (x : Vec) : smul 1 x = x := by
  simp [smul]

theorem smul_nonneg {t : Rat} {x : Vec} (ht : 0 ≤ t) (hx : ∀ y ∈ x, 0 ≤ y) : ∀ y ∈ smul t x, 0 ≤ y := by
  intro y hy
  simp only [smul, List.mem_map] at hy
  obtain ⟨z, hz, rfl⟩ := hy
  exact mul_nonneg ht (hx z hz)

/-- a coupling of the merged problem splits into a coupling of the split problem with merged
rows equal to the original ones -/
theorem split_feasible (p1 p2 q : Vec) (a1 a2 : Rat) (ha1 : 0 ≤ a1) (ha2 : 0 ≤ a2) (Q : Mat)
    (hF : Feasible (p1 ++ (a1 + a2) :: p2) q Q) :
    ∃ Q1 s1 s2 Q2, Q1.length = p1.length ∧ Q = Q1 ++ vadd s1 s2 :: Q2 ∧
      Feasible (p1 ++ a1 :: a2 :: p2) q (Q1 ++ s1 :: s2 :: Q2) := by
  obtain ⟨⟨hlen, hrows⟩, hnn, hrs, hcs⟩ := hF
  have hk : p1.length < Q.length := by simp only [List.length_append, List.length_cons] at hlen; omega
  -- decompose Q at position |p1|
  have hdec : Q = Q.take p1.length ++ Q[p1.length] :: Q.drop (p1.length + 1) := by
    rw [← List.drop_eq_getElem_cons hk, List.take_append_drop]
  generalize hQ1 : Q.take p1.length = Q1 at hdec
  generalize hrow : Q[p1.length] = row at hdec
  generalize hQ2 : Q.drop (p1.length + 1) = Q2 at hdec
  have hQ1l : Q1.length = p1.length := by rw [← hQ1, List.length_take]; omega
  subst hdec
  have hrl : row.length = q.length := hrows row (by simp)
  have hrn : ∀ y ∈ row, 0 ≤ y := hnn row (by simp)
  -- row sums
  simp only [rowSums, List.map_append, List.map_cons] at hrs
  obtain ⟨e1, e2⟩ := List.append_inj hrs (by simpa using hQ1l)
  simp only [List.cons.injEq] at e2
  obtain ⟨e2, e3⟩ := e2
  -- the split fraction
  obtain ⟨l, hl0, hl1, hla⟩ : ∃ l : Rat, 0 ≤ l ∧ l ≤ 1 ∧ l * (a1 + a2) = a1 := by
    by_cases h0 : a1 + a2 = 0
    · exact ⟨0, le_refl _, by norm_num, by rw [h0]; linarith⟩
    · have hpos : 0 < a1 + a2 := lt_of_le_of_ne (by linarith) (Ne.symm h0)
      refine ⟨a1 / (a1 + a2), div_nonneg ha1 (le_of_lt hpos), ?_, by field_simp⟩
      rw [div_le_iff₀ hpos]; linarith
  refine ⟨Q1, smul l row, smul (1 - l) row, Q2, hQ1l, ?_, ⟨?_, ?_⟩, ?_, ?_, ?_⟩
  · rw [vadd_smul]; simp [smul_one]
  · simp only [List.length_append, List.length_cons] at hlen ⊢; omega
  · intro r hr
    simp only [List.mem_append, List.mem_cons] at hr
    rcases hr with hr | rfl | rfl | hr
    · exact hrows r (by simp [hr])
    · rw [smul_length, hrl]
    · rw [smul_length, hrl]
    · exact hrows r (by simp [hr])
  · intro r hr
    simp only [List.mem_append, List.mem_cons] at hr
    rcases hr with hr | rfl | rfl | hr
    · exact hnn r (by simp [hr])
    · exact smul_nonneg hl0 hrn
    · exact smul_nonneg (by linarith) hrn
    · exact hnn r (by simp [hr])
  · simp only [rowSums, List.map_append, List.map_cons]
    rw [e1, e3, smul_sum, smul_sum, e2]
    congr 2
    congr 1
    linarith
  · simp only [colSums, List.foldr_append, List.foldr_cons] at hcs ⊢
    rw [← vadd_assoc, vadd_smul]
    simpa [smul_one] using hcs


/-! ### CSR rows -/

theorem indptrOf_get {α : Type} : ∀ (rows : List (List α)) (s i : Nat), i ≤ rows.length →
    (indptrOf rows s)[i]? = some (s + (rows.take i).flatten.length) := by
  intro rows
  induction rows with
  | nil => intro s i hi; simp at hi; subst hi; simp [indptrOf]
  | cons r rs ih =>
    intro s i hi
    cases i with
    | zero => simp [indptrOf]
    | succ i =>
      simp only [indptrOf, List.getElem?_cons_succ, List.take_succ_cons, List.flatten_cons, List.length_append]
      rw [ih (s + r.length) i (by simpa using hi)]
      congr 1; omega

theorem flatten_slice {α : Type} (rows : List (List α)) (i : Nat) (hi : i < rows.length) :
    (rows.flatten.drop (rows.take i).flatten.length).take
      ((rows.take (i + 1)).flatten.length - (rows.take i).flatten.length) = rows[i] := by
  have hdec : rows = rows.take i ++ rows[i] :: rows.drop (i + 1) := by
    rw [← List.drop_eq_getElem_cons hi, List.take_append_drop]
  have h1 : rows.take (i + 1) = rows.take i ++ [rows[i]] := by
    rw [List.take_succ_eq_append_getElem hi]
  have h2 : rows.flatten = (rows.take i ++ rows[i] :: rows.drop (i + 1)).flatten := by rw [← hdec]
  simp only [List.flatten_append, List.flatten_cons] at h2
  have hlen : (rows.take (i + 1)).flatten.length - (rows.take i).flatten.length = rows[i].length := by
    rw [h1]
    simp only [List.flatten_append, List.length_append, List.flatten_cons, List.flatten_nil, List.append_nil]
    omega
  rw [hlen, h2, List.drop_left' rfl, List.take_left' rfl]

end VecModel.OT
