import VecModel.Model.Sparse
namespace VecModel.Sparse

theorem rowEntries_col_lt {lookup : α → Option Nat} {width : Nat}
    (h : ∀ a c, lookup a = some c → c < width) (item : List (α × Rat)) :
    ∀ cw ∈ rowEntries lookup item, cw.1 < width := by
  intro cw hcw
  unfold rowEntries at hcw
  obtain ⟨fw, _, hfw⟩ := List.mem_filterMap.mp hcw
  cases hl : lookup fw.1 with
  | none => simp [hl] at hfw
  | some c =>
    simp [hl] at hfw
    subst hfw
    exact h _ _ hl

theorem rowsEntries_bounds {lookup : α → Option Nat} {width : Nat}
    (h : ∀ a c, lookup a = some c → c < width) :
    ∀ (items : List (List (α × Rat))) (i : Nat),
      ∀ e ∈ rowsEntries lookup i items, i ≤ e.1 ∧ e.1 < i + items.length ∧ e.2.1 < width := by
  intro items
  induction items with
  | nil => intro i e he; simp [rowsEntries] at he
  | cons item rest ih =>
    intro i e he
    simp only [rowsEntries, List.mem_append, List.mem_map] at he
    rcases he with ⟨cw, hcw, rfl⟩ | he
    · exact ⟨Nat.le_refl _, by simp, rowEntries_col_lt h item cw hcw⟩
    · obtain ⟨h1, h2, h3⟩ := ih (i + 1) e he
      refine ⟨by omega, by simp only [List.length_cons]; omega, h3⟩

theorem rowEntries_filter_known (lookup : α → Option Nat) (item : List (α × Rat)) :
    rowEntries lookup (item.filter fun fw => (lookup fw.1).isSome) = rowEntries lookup item := by
  unfold rowEntries
  induction item with
  | nil => rfl
  | cons fw rest ih =>
    cases hl : lookup fw.1 with
    | none => simp [hl, ih]
    | some c => simp [hl, ih]

theorem rowsEntries_filter_known (lookup : α → Option Nat) :
    ∀ (items : List (List (α × Rat))) (i : Nat),
      rowsEntries lookup i (items.map fun item => item.filter fun fw => (lookup fw.1).isSome) =
        rowsEntries lookup i items := by
  intro items
  induction items with
  | nil => intro i; rfl
  | cons item rest ih =>
    intro i
    simp only [List.map_cons, rowsEntries, rowEntries_filter_known, ih]

theorem maxCol_lt {es : List (Nat × Nat × Rat)} {w : Nat} (hw : 0 < w)
    (h : ∀ e ∈ es, e.2.1 < w) : maxCol es < w := by
  unfold maxCol
  induction es with
  | nil => simpa
  | cons e rest ih =>
    simp only [List.foldr_cons]
    have h1 := h e (by simp)
    have h2 := ih (fun x hx => h x (by simp [hx]))
    omega

theorem blocks_flatten (b : Nat) :
    ∀ (fuel : Nat) (l : List α), l.length < fuel * b → (blocks b fuel l).flatten = l := by
  intro fuel
  induction fuel with
  | zero => intro l h; simp at h
  | succ fuel ih =>
    intro l h
    simp only [blocks, List.flatten_cons]
    by_cases hl : l.length < b
    · have : l.drop b = [] := List.drop_eq_nil_of_le (by omega)
      have ht : l.take b = l := List.take_of_length_le (by omega)
      rw [this, ht]
      have : ∀ f, (blocks b f ([] : List α)).flatten = [] := by
        intro f
        induction f with
        | zero => rfl
        | succ f ihf => simp [blocks, ihf]
      rw [this]; simp
    · have hlen : (l.drop b).length < fuel * b := by
        rw [List.length_drop]
        have : (fuel + 1) * b = fuel * b + b := by rw [Nat.add_mul]; simp
        omega
      rw [ih _ hlen, List.take_append_drop]

end VecModel.Sparse

namespace VecModel.Sparse

section assign
variable {α : Type} [BEq α] [LawfulBEq α]

/-- a dictionary only ever grows by keys it did not contain: lookups of known keys are stable -/
def Extends (D D' : List (α × Nat)) : Prop :=
  ∀ f c, lookupD D f = some c → lookupD D' f = some c

theorem Extends.refl (D : List (α × Nat)) : Extends D D := fun _ _ h => h

theorem Extends.trans {A B C : List (α × Nat)} (h1 : Extends A B) (h2 : Extends B C) : Extends A C :=
  fun f c h => h2 f c (h1 f c h)

theorem lookupD_append_new {D : List (α × Nat)} {f : α} (hf : lookupD D f = none) (c : Nat) :
    Extends D (D ++ [(f, c)]) ∧ lookupD (D ++ [(f, c)]) f = some c := by
  constructor
  · intro g d hg
    unfold lookupD at *
    rw [List.find?_append]
    cases hfind : D.find? (fun kv => kv.1 == g) with
    | none => simp [hfind] at hg
    | some kv => simpa [hfind] using hg
  · unfold lookupD at *
    rw [List.find?_append]
    cases hfind : D.find? (fun kv => kv.1 == f) with
    | none => simp
    | some kv => simp [hfind] at hf

theorem assignRow_spec (row : List (α × Rat)) :
    ∀ D : List (α × Nat), Extends D (assignRow D row).1 ∧
      ∀ D', Extends (assignRow D row).1 D' → (assignRow D row).2 = rowEntries (lookupD D') row := by
  induction row with
  | nil =>
    intro D
    exact ⟨Extends.refl D, fun _ _ => by simp [assignRow, rowEntries]⟩
  | cons fw rest ih =>
    intro D
    obtain ⟨f, w⟩ := fw
    unfold assignRow
    cases hl : lookupD D f with
    | some c =>
      simp only
      obtain ⟨e1, e2⟩ := ih D
      refine ⟨e1, ?_⟩
      intro D' hD'
      have hc : lookupD D' f = some c := hD' f c (e1 f c hl)
      rw [e2 D' hD']
      simp [rowEntries, hc]
    | none =>
      simp only
      obtain ⟨n1, n2⟩ := lookupD_append_new hl D.length
      obtain ⟨e1, e2⟩ := ih (D ++ [(f, D.length)])
      refine ⟨Extends.trans n1 e1, ?_⟩
      intro D' hD'
      have hc : lookupD D' f = some D.length := hD' f _ (e1 f _ n2)
      rw [e2 D' hD']
      simp [rowEntries, hc]

theorem assignRows_spec (rows : List (List (α × Rat))) :
    ∀ D : List (α × Nat), Extends D (assignRows D rows).1 ∧
      ∀ D', Extends (assignRows D rows).1 D' →
        (assignRows D rows).2 = rows.map (rowEntries (lookupD D')) := by
  induction rows with
  | nil => intro D; exact ⟨Extends.refl D, fun _ _ => by simp [assignRows]⟩
  | cons row rest ih =>
    intro D
    unfold assignRows
    simp only
    obtain ⟨a1, a2⟩ := assignRow_spec row D
    obtain ⟨b1, b2⟩ := ih (assignRow D row).1
    refine ⟨Extends.trans a1 b1, ?_⟩
    intro D' hD'
    rw [a2 D' (Extends.trans b1 hD'), b2 D' hD']
    simp

end assign
end VecModel.Sparse
