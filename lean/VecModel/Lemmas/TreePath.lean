import VecModel.Lemmas.Tree
/-
  Helper lemmas for C15: on a path graph the walk counts are the token-window indicator.
-/
namespace VecModel.Tree

/-- the path `0 → 1 → … → n-1` as LIL rows (row `i` holds column `i+1`) -/
def pathLil (n : Nat) : Lil :=
  (List.range n).map fun i => if i + 1 < n then [(i + 1, (1 : Rat))] else []

def pathTree (seq : List Nat) : TreeIn :=
  { n := seq.length, lil := pathLil seq.length, labels := seq }

theorem lilEnt_path {n i j : Nat} (hi : i < n) :
    lilEnt (pathLil n) i j = if j = i + 1 ∧ i + 1 < n then 1 else 0 := by
  simp only [lilEnt, pathLil, List.getElem?_map, List.getElem?_range hi, Option.map_some]
  by_cases h : i + 1 < n
  · by_cases e : j = i + 1
    · simp [h, e, rowEnt]; grind
    · have : ¬ i + 1 = j := fun e' => e e'.symm
      simp [h, e, this, rowEnt]
  · simp [h, rowEnt]

theorem walks_path {n : Nat} (k : Nat) {u v : Nat} (hu : u < n) (hv : v < n) :
    walks n (adjMat n (pathLil n)) k u v = if u + k = v then 1 else 0 := by
  induction k generalizing u with
  | zero => simp [walks]
  | succ k ih =>
    simp only [walks]
    by_cases h : u + 1 < n
    · rw [sumTo_single (u + 1) h]
      · rw [ih h]
        unfold adjMat
        rw [ent_ofFn hu h, lilEnt_path hu]
        have : (u + 1 + k = v) ↔ (u + (k + 1) = v) := by omega
        simp [h, this]
      · intro m hm hne
        unfold adjMat
        rw [ent_ofFn hu hm, lilEnt_path hu]
        simp [hne]
    · rw [sumTo_eq_zero]
      · have : ¬ u + (k + 1) = v := by omega
        simp [this]
      · intro m hm
        unfold adjMat
        rw [ent_ofFn hu hm, lilEnt_path hu]
        simp [h]

/-- token side: weights of the positions `u+d, u+d+1, …` after position `u` that hold token `lb` -/
def tokRow (seq : List Nat) (lb : Nat) : List Rat → Nat → Nat → Rat
  | [], _, _ => 0
  | w :: ws, d, u => (if seq[u + d]? = some lb then w else 0) + tokRow seq lb ws (d + 1) u

theorem path_row (seq : List Nat) (lb : Nat) (ws : List Rat) (d : Nat) {u : Nat} (hu : u < seq.length) :
    (sumTo seq.length fun v =>
      if seq[v]? = some lb then walkSum seq.length (adjMat seq.length (pathLil seq.length)) ws d u v else 0)
      = tokRow seq lb ws d u := by
  induction ws generalizing d with
  | nil => simp [walkSum, tokRow, sumTo_zero]
  | cons w ws ih =>
    simp only [walkSum, tokRow]
    rw [← ih (d + 1), ← sumTo_single_ite seq lb w d hu, ← sumTo_add]
    apply sumTo_congr
    intro v hv
    rw [walks_path d hu hv]
    by_cases e : seq[v]? = some lb <;> by_cases e2 : u + d = v <;> simp [e, e2] <;> grind
where
  sumTo_single_ite (seq : List Nat) (lb : Nat) (w : Rat) (d : Nat) {u : Nat} (_hu : u < seq.length) :
      (sumTo seq.length fun v => if seq[v]? = some lb ∧ u + d = v then w else 0) =
        (if seq[u + d]? = some lb then w else 0) := by
    by_cases h : u + d < seq.length
    · rw [sumTo_single (u + d) h]
      · simp
      · intro i _ hne
        have : ¬ u + d = i := fun e => hne e.symm
        simp [this]
    · rw [sumTo_eq_zero]
      · have : seq[u + d]? = none := List.getElem?_eq_none (by omega)
        simp [this]
      · intro i hi
        have : ¬ u + d = i := by omega
        simp [this]

/-- the token co-occurrence definition (`window_orientation='after'`, fixed radius `r = ws.length`,
no window normalisation): `Σ_i [seq_i = la] Σ_{d=1..r} w_d [seq_{i+d} = lb]` -/
def tokenAfter (ws : List Rat) (la lb : Nat) (seq : List Nat) : Rat :=
  sumTo seq.length fun i => if seq[i]? = some la then tokRow seq lb ws 1 i else 0

end VecModel.Tree
