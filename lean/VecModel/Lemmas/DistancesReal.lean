import VecModel.Lemmas.RealAnalytic
import VecModel.Model.Distances
import Mathlib.Tactic.Ring
import Mathlib.Tactic.Linarith
import Mathlib.Tactic.Positivity
import Mathlib.Tactic.FieldSimp
import Mathlib.Algebra.Order.BigOperators.Group.List
/-
  C18, analytic layer over `ℝ` (instance `Analytic ℝ`, Lemmas/RealAnalytic.lean):

  A. `hellingerG fl` with an arbitrary monotone rounding `fl` (fl 0 = 0, fl 1 = 1, no underflow)
     is always defined with a value in [0, 1]; without the clamp it can fail.
  B. exact arithmetic (`fl = id`): closed form `√(1 − BC)`, range, symmetry, zero on proportional
     inputs, triangle inequality.
  C. Jensen–Shannon / symmetric KL with `0 < eps`: defined, non-negative, symmetric, zero on x = x.
-/
namespace VecModel.Dist

open VecModel Analytic

/-! ## A. Hellinger under an arbitrary rounding function -/

theorem fl_nonneg {fl : ℝ → ℝ} (hm : Monotone fl) (h0 : fl 0 = 0) {t : ℝ} (ht : 0 ≤ t) :
    0 ≤ fl t := by
  have := hm ht
  rwa [h0] at this

theorem fl_le_one {fl : ℝ → ℝ} (hm : Monotone fl) (h1 : fl 1 = 1) {t : ℝ} (ht : t ≤ 1) :
    fl t ≤ 1 := by
  have := hm ht
  rwa [h1] at this

/-- the accumulation loop never fails on non-negative inputs of equal length, and all three
accumulators stay non-negative -/
theorem hellAcc_ok (fl : ℝ → ℝ) (hm : Monotone fl) (h0 : fl 0 = 0) :
    ∀ (x y : List ℝ), x.length = y.length → (∀ a ∈ x, 0 ≤ a) → (∀ b ∈ y, 0 ≤ b) →
    ∀ r lx ly : ℝ, 0 ≤ r → 0 ≤ lx → 0 ≤ ly →
    ∃ r' lx' ly', hellAcc fl x y r lx ly = .ok (r', lx', ly') ∧ 0 ≤ r' ∧ 0 ≤ lx' ∧ 0 ≤ ly' := by
  intro x
  induction x with
  | nil =>
    intro y hlen _ _ r lx ly hr hlx hly
    cases y with
    | nil => exact ⟨r, lx, ly, by rw [hellAcc], hr, hlx, hly⟩
    | cons b y => simp at hlen
  | cons a x ih =>
    intro y hlen hx hy r lx ly hr hlx hly
    cases y with
    | nil => simp at hlen
    | cons b y =>
      have ha : 0 ≤ a := hx a (by simp)
      have hb : 0 ≤ b := hy b (by simp)
      have hab : 0 ≤ fl (a * b) := fl_nonneg hm h0 (mul_nonneg ha hb)
      rw [hellAcc, sqrt_real hab]
      simp only [bind, Except.bind]
      apply ih y (by simpa using hlen) (fun a' h => hx a' (by simp [h])) (fun b' h => hy b' (by simp [h]))
      · exact fl_nonneg hm h0 (add_nonneg hr (fl_nonneg hm h0 (Real.sqrt_nonneg _)))
      · exact fl_nonneg hm h0 (add_nonneg hlx ha)
      · exact fl_nonneg hm h0 (add_nonneg hly hb)

theorem isZero_real' (a : ℝ) : (Analytic.isZero a) = decide (a = 0) := rfl
theorem ltb_real' (a b : ℝ) : (Analytic.ltb a b) = decide (a < b) := rfl

/-- **never NaN under any rounding**: for every monotone rounding function that fixes 0 and 1 and
does not underflow, the fixed `hellinger` is defined and in `[0, 1]`. -/
theorem hellinger_defined_lem (fl : ℝ → ℝ) (hm : Monotone fl) (h0 : fl 0 = 0) (h1 : fl 1 = 1)
    (hnu : ∀ t, fl t = 0 → t = 0) (x y : List ℝ) (hlen : x.length = y.length)
    (hx : ∀ a ∈ x, 0 ≤ a) (hy : ∀ b ∈ y, 0 ≤ b) :
    ∃ v, hellingerG fl x y = .ok v ∧ 0 ≤ v ∧ v ≤ 1 := by
  obtain ⟨r, lx, ly, hacc, hr, hlx, hly⟩ :=
    hellAcc_ok fl hm h0 x y hlen hx hy 0 0 0 le_rfl le_rfl le_rfl
  have hprod : 0 ≤ fl (lx * ly) := fl_nonneg hm h0 (mul_nonneg hlx hly)
  unfold hellingerG
  rw [hacc]
  simp only [bind, Except.bind]
  rw [sqrt_real hprod]
  simp only [isZero_real', ltb_real', Bool.and_eq_true, Bool.or_eq_true, decide_eq_true_eq]
  by_cases hz : lx = 0 ∧ ly = 0
  · rw [if_pos hz]; exact ⟨0, rfl, le_rfl, zero_le_one⟩
  rw [if_neg hz]
  by_cases hz' : lx = 0 ∨ ly = 0
  · rw [if_pos hz']; exact ⟨1, rfl, zero_le_one, le_rfl⟩
  rw [if_neg hz']
  by_cases hlt : fl (Real.sqrt (fl (lx * ly))) < r
  · rw [if_pos hlt]; exact ⟨0, rfl, le_rfl, zero_le_one⟩
  rw [if_neg hlt]
  have hz' := not_or.mp hz'
  have hlt := not_lt.mp hlt
  -- the denominator is positive
  have hlxp : 0 < lx := lt_of_le_of_ne hlx (Ne.symm hz'.1)
  have hlyp : 0 < ly := lt_of_le_of_ne hly (Ne.symm hz'.2)
  have hpp : 0 < fl (lx * ly) :=
    lt_of_le_of_ne hprod (fun h => (mul_pos hlxp hlyp).ne' (hnu _ h.symm))
  have hsq : 0 < Real.sqrt (fl (lx * ly)) := Real.sqrt_pos.mpr hpp
  have hs : 0 < fl (Real.sqrt (fl (lx * ly))) :=
    lt_of_le_of_ne (fl_nonneg hm h0 hsq.le) (fun h => hsq.ne' (hnu _ h.symm))
  rw [div_real hs.ne']
  simp only []
  have hq0 : 0 ≤ r / fl (Real.sqrt (fl (lx * ly))) := div_nonneg hr hs.le
  have hq1 : r / fl (Real.sqrt (fl (lx * ly))) ≤ 1 := (div_le_one hs).mpr hlt
  have hf0 := fl_nonneg hm h0 hq0
  have hf1 := fl_le_one hm h1 hq1
  have hg0 : 0 ≤ fl (1 - fl (r / fl (Real.sqrt (fl (lx * ly))))) :=
    fl_nonneg hm h0 (by linarith)
  have hg1 : fl (1 - fl (r / fl (Real.sqrt (fl (lx * ly))))) ≤ 1 :=
    fl_le_one hm h1 (by linarith)
  rw [sqrt_real hg0]
  refine ⟨_, rfl, fl_nonneg hm h0 (Real.sqrt_nonneg _), fl_le_one hm h1 ?_⟩
  exact Real.sqrt_le_one.mpr hg1

/-- the rounding function of the counterexample: the identity, except that `[9/4, 4]` is rounded
down to `9/4` -/
noncomputable def flBad (t : ℝ) : ℝ := if 9 / 4 ≤ t ∧ t ≤ 4 then 9 / 4 else t

theorem flBad_of_lt {t : ℝ} (h : t < 9 / 4) : flBad t = t := by
  unfold flBad
  rw [if_neg]
  intro h'
  linarith [h'.1]

theorem flBad_four : flBad 4 = 9 / 4 := by
  unfold flBad
  rw [if_pos]
  constructor <;> norm_num

theorem flBad_monotone : Monotone flBad := by
  intro a b hab
  unfold flBad
  by_cases ha : 9 / 4 ≤ a ∧ a ≤ 4 <;> by_cases hb : 9 / 4 ≤ b ∧ b ≤ 4
  · rw [if_pos ha, if_pos hb]
  · rw [if_pos ha, if_neg hb]; linarith [ha.1]
  · rw [if_neg ha, if_pos hb]
    by_contra h
    exact ha ⟨by linarith, by linarith [hb.2]⟩
  · rw [if_neg ha, if_neg hb]; exact hab

theorem flBad_no_underflow (t : ℝ) (h : flBad t = 0) : t = 0 := by
  unfold flBad at h
  by_cases ht : 9 / 4 ≤ t ∧ t ≤ 4
  · rw [if_pos ht] at h; norm_num at h
  · rw [if_neg ht] at h; exact h

/-- **the clamp is necessary**: there is a monotone rounding function (fixing 0 and 1, without
underflow) for which the code before the fix takes the square root of a negative number
(`x = y = [1, 1]`: the accumulated `result` is 2 but `sqrt(fl(2 * 2)) = 3/2`). -/
theorem hellingerNoClamp_can_fail_lem :
    ∃ fl : ℝ → ℝ, Monotone fl ∧ fl 0 = 0 ∧ fl 1 = 1 ∧ (∀ t, fl t = 0 → t = 0) ∧
      ∃ x y : List ℝ, x.length = y.length ∧ (∀ a ∈ x, 0 ≤ a) ∧ (∀ b ∈ y, 0 ≤ b) ∧
        ∃ e, hellingerNoClampG fl x y = .error e := by
  have f0 : flBad 0 = 0 := flBad_of_lt (by norm_num)
  have f1 : flBad 1 = 1 := flBad_of_lt (by norm_num)
  have f2 : flBad 2 = 2 := flBad_of_lt (by norm_num)
  refine ⟨flBad, flBad_monotone, f0, f1, flBad_no_underflow, [1, 1], [1, 1], rfl, ?_, ?_, ?_⟩
  · intro a ha; simp at ha; rw [ha]; exact zero_le_one
  · intro a ha; simp at ha; rw [ha]; exact zero_le_one
  have hs1 : Analytic.sqrt (1 : ℝ) = .ok 1 := by rw [sqrt_real zero_le_one, Real.sqrt_one]
  have hacc : hellAcc flBad [1, 1] [1, 1] 0 0 0 = .ok (2, 2, 2) := by
    simp only [hellAcc, mul_one, f1, hs1, bind, Except.bind, zero_add, one_add_one_eq_two, f2]
  have h94 : Real.sqrt (9 / 4) = 3 / 2 := by
    rw [show (9 / 4 : ℝ) = (3 / 2) ^ 2 by norm_num, Real.sqrt_sq (by norm_num)]
  have hs2 : Analytic.sqrt (flBad (2 * 2)) = .ok (3 / 2) := by
    rw [show (2 * 2 : ℝ) = 4 by norm_num, flBad_four, sqrt_real (by norm_num), h94]
  have f32 : flBad (3 / 2) = 3 / 2 := flBad_of_lt (by norm_num)
  have hq : Analytic.div (2 : ℝ) (3 / 2) = .ok (4 / 3) := by
    rw [div_real (by norm_num)]; norm_num
  have f43 : flBad (4 / 3) = 4 / 3 := flBad_of_lt (by norm_num)
  have fneg : flBad (1 - 4 / 3) = -(1 / 3) := by
    rw [flBad_of_lt (by norm_num)]; norm_num
  have hs3 : Analytic.sqrt (-(1 / 3) : ℝ) = .error (.invalid "sqrt<0") := by
    apply if_neg; norm_num
  have hz2 : Analytic.isZero (2 : ℝ) = false := by
    rw [isZero_real']; simp
  refine ⟨.invalid "sqrt<0", ?_⟩
  unfold hellingerNoClampG
  rw [hacc]
  simp only [bind, Except.bind, hz2, Bool.and_self, Bool.or_self, Bool.false_eq_true, if_false,
    hs2, f32, hq, f43, fneg, hs3]

/-! ## B. Exact arithmetic (`fl = id`) -/

/-- `Σ √(x_i y_i)` -/
noncomputable def sqrtDot (x y : List ℝ) : ℝ :=
  (List.zipWith (fun a b => Real.sqrt (a * b)) x y).sum

/-- Bhattacharyya coefficient of the normalised vectors -/
noncomputable def bc (x y : List ℝ) : ℝ :=
  (List.zipWith (fun a b => Real.sqrt (a * b)) x y).sum / Real.sqrt (x.sum * y.sum)

theorem sqrtDot_nonneg : ∀ x y : List ℝ, 0 ≤ sqrtDot x y := by
  intro x
  induction x with
  | nil => intro y; simp [sqrtDot]
  | cons a x ih =>
    intro y
    cases y with
    | nil => simp [sqrtDot]
    | cons b y =>
      have := ih y
      unfold sqrtDot at this ⊢
      rw [List.zipWith_cons_cons, List.sum_cons]
      exact add_nonneg (Real.sqrt_nonneg _) this

theorem hellAcc_id : ∀ (x y : List ℝ), x.length = y.length → (∀ a ∈ x, 0 ≤ a) → (∀ b ∈ y, 0 ≤ b) →
    ∀ r lx ly : ℝ, hellAcc id x y r lx ly = .ok (r + sqrtDot x y, lx + x.sum, ly + y.sum) := by
  intro x
  induction x with
  | nil =>
    intro y hlen _ _ r lx ly
    cases y with
    | nil => simp [hellAcc, sqrtDot]
    | cons b y => simp at hlen
  | cons a x ih =>
    intro y hlen hx hy r lx ly
    cases y with
    | nil => simp at hlen
    | cons b y =>
      have ha : 0 ≤ a := hx a (by simp)
      have hb : 0 ≤ b := hy b (by simp)
      rw [hellAcc, id_eq, sqrt_real (mul_nonneg ha hb)]
      simp only [bind, Except.bind, id_eq]
      rw [ih y (by simpa using hlen) (fun a' h => hx a' (by simp [h])) (fun b' h => hy b' (by simp [h]))]
      simp only [sqrtDot, List.zipWith_cons_cons, List.sum_cons, add_assoc]

theorem sqrt_add_le_aux {a b X Y : ℝ} (ha : 0 ≤ a) (hb : 0 ≤ b) (hX : 0 ≤ X) (hY : 0 ≤ Y) :
    Real.sqrt (a * b) + Real.sqrt (X * Y) ≤ Real.sqrt ((a + X) * (b + Y)) := by
  obtain ⟨sa, hsa, rfl⟩ : ∃ s, 0 ≤ s ∧ a = s ^ 2 := ⟨_, Real.sqrt_nonneg a, (Real.sq_sqrt ha).symm⟩
  obtain ⟨sb, hsb, rfl⟩ : ∃ s, 0 ≤ s ∧ b = s ^ 2 := ⟨_, Real.sqrt_nonneg b, (Real.sq_sqrt hb).symm⟩
  obtain ⟨sX, hsX, rfl⟩ : ∃ s, 0 ≤ s ∧ X = s ^ 2 := ⟨_, Real.sqrt_nonneg X, (Real.sq_sqrt hX).symm⟩
  obtain ⟨sY, hsY, rfl⟩ : ∃ s, 0 ≤ s ∧ Y = s ^ 2 := ⟨_, Real.sqrt_nonneg Y, (Real.sq_sqrt hY).symm⟩
  rw [show sa ^ 2 * sb ^ 2 = (sa * sb) ^ 2 by ring, show sX ^ 2 * sY ^ 2 = (sX * sY) ^ 2 by ring,
    Real.sqrt_sq (mul_nonneg hsa hsb), Real.sqrt_sq (mul_nonneg hsX hsY)]
  apply Real.le_sqrt_of_sq_le
  nlinarith [sq_nonneg (sa * sY - sb * sX)]

/-- Cauchy–Schwarz: `Σ √(x_i y_i) ≤ √(Σx · Σy)` -/
theorem sqrtDot_le : ∀ x y : List ℝ, (∀ a ∈ x, 0 ≤ a) → (∀ b ∈ y, 0 ≤ b) →
    sqrtDot x y ≤ Real.sqrt (x.sum * y.sum) := by
  intro x
  induction x with
  | nil => intro y _ _; simp [sqrtDot]
  | cons a x ih =>
    intro y hx hy
    cases y with
    | nil => simp [sqrtDot]
    | cons b y =>
      have ha : 0 ≤ a := hx a (by simp)
      have hb : 0 ≤ b := hy b (by simp)
      have hx' : ∀ a' ∈ x, 0 ≤ a' := fun a' h => hx a' (by simp [h])
      have hy' : ∀ b' ∈ y, 0 ≤ b' := fun b' h => hy b' (by simp [h])
      have := ih y hx' hy'
      have h2 := sqrt_add_le_aux ha hb (List.sum_nonneg hx') (List.sum_nonneg hy')
      unfold sqrtDot at this ⊢
      rw [List.zipWith_cons_cons, List.sum_cons, List.sum_cons, List.sum_cons]
      linarith

theorem bc_nonneg_lem (x y : List ℝ) : 0 ≤ bc x y :=
  div_nonneg (sqrtDot_nonneg x y) (Real.sqrt_nonneg _)

theorem bc_le_one_lem (x y : List ℝ) (hx : ∀ a ∈ x, 0 ≤ a) (hy : ∀ b ∈ y, 0 ≤ b) : bc x y ≤ 1 :=
  div_le_one_of_le₀ (sqrtDot_le x y hx hy) (Real.sqrt_nonneg _)

/-- closed form in exact arithmetic: `hellinger(x, y) = √(1 − BC(x, y))` -/
theorem hellinger_exact_lem (x y : List ℝ) (hlen : x.length = y.length)
    (hx : ∀ a ∈ x, 0 ≤ a) (hy : ∀ b ∈ y, 0 ≤ b) (hX : 0 < x.sum) (hY : 0 < y.sum) :
    hellingerG id x y = .ok (Real.sqrt (1 - bc x y)) := by
  have hprod : 0 < x.sum * y.sum := mul_pos hX hY
  have hs : 0 < Real.sqrt (x.sum * y.sum) := Real.sqrt_pos.mpr hprod
  unfold hellingerG
  rw [hellAcc_id x y hlen hx hy]
  simp only [bind, Except.bind, zero_add, id_eq]
  rw [sqrt_real hprod.le]
  simp only [isZero_real', ltb_real', Bool.and_eq_true, Bool.or_eq_true, decide_eq_true_eq]
  rw [if_neg (fun h => hX.ne' h.1), if_neg (fun h => h.elim hX.ne' hY.ne'),
    if_neg (not_lt.mpr (sqrtDot_le x y hx hy)), div_real hs.ne']
  have h1 : 0 ≤ 1 - sqrtDot x y / Real.sqrt (x.sum * y.sum) := by
    have := bc_le_one_lem x y hx hy
    unfold bc at this
    unfold sqrtDot
    linarith
  simp only []
  rw [sqrt_real h1]
  rfl

theorem hellinger_range_lem (x y : List ℝ) (hlen : x.length = y.length)
    (hx : ∀ a ∈ x, 0 ≤ a) (hy : ∀ b ∈ y, 0 ≤ b) :
    ∃ v, hellingerG id x y = .ok v ∧ 0 ≤ v ∧ v ≤ 1 :=
  hellinger_defined_lem id monotone_id rfl rfl (fun _ h => h) x y hlen hx hy

theorem hellAcc_swap (fl : ℝ → ℝ) : ∀ (x y : List ℝ) (r lx ly : ℝ),
    hellAcc fl y x r ly lx = (hellAcc fl x y r lx ly).map (fun t => (t.1, t.2.2, t.2.1)) := by
  intro x
  induction x with
  | nil =>
    intro y r lx ly
    cases y with
    | nil => simp only [hellAcc]; rfl
    | cons b y => simp only [hellAcc]; rfl
  | cons a x ih =>
    intro y r lx ly
    cases y with
    | nil => simp only [hellAcc]; rfl
    | cons b y =>
      rw [hellAcc, hellAcc, mul_comm b a]
      cases h : Analytic.sqrt (fl (a * b)) with
      | error e => rfl
      | ok s =>
        simp only [bind, Except.bind]
        exact ih y _ _ _

/-- `hellinger` is symmetric — for every rounding function, with no hypothesis on the inputs
(also when it refuses) -/
theorem hellinger_symm_fl (fl : ℝ → ℝ) (x y : List ℝ) : hellingerG fl x y = hellingerG fl y x := by
  unfold hellingerG
  rw [hellAcc_swap fl x y]
  cases hellAcc fl x y 0 0 0 with
  | error e => rfl
  | ok t =>
    obtain ⟨r, lx, ly⟩ := t
    simp only [Except.map, bind, Except.bind]
    rw [mul_comm ly lx, Bool.and_comm (Analytic.isZero ly), Bool.or_comm (Analytic.isZero ly)]

theorem hellinger_symm_lem (x y : List ℝ) : hellingerG id x y = hellingerG id y x :=
  hellinger_symm_fl id x y

theorem sqrtDot_map_mul {k : ℝ} (hk : 0 ≤ k) : ∀ x : List ℝ, (∀ a ∈ x, 0 ≤ a) →
    sqrtDot x (x.map (k * ·)) = Real.sqrt k * x.sum := by
  intro x
  induction x with
  | nil => intro _; simp [sqrtDot]
  | cons a x ih =>
    intro hx
    have ha : 0 ≤ a := hx a (by simp)
    have := ih (fun a' h => hx a' (by simp [h]))
    unfold sqrtDot at this ⊢
    rw [List.map_cons, List.zipWith_cons_cons, List.sum_cons, List.sum_cons, this,
      show a * (k * a) = k * (a * a) by ring, Real.sqrt_mul hk, Real.sqrt_mul_self ha]
    ring

theorem sum_map_mul (k : ℝ) (x : List ℝ) : (x.map (k * ·)).sum = k * x.sum := by
  induction x with
  | nil => simp
  | cons a x ih => rw [List.map_cons, List.sum_cons, List.sum_cons, ih, mul_add]

/-- proportional inputs are at distance 0 -/
theorem hellinger_zero_of_proportional_lem (x : List ℝ) (k : ℝ) (hk : 0 < k)
    (hx : ∀ a ∈ x, 0 ≤ a) (hX : 0 < x.sum) :
    hellingerG id x (x.map (k * ·)) = .ok 0 := by
  have hsum : (x.map (k * ·)).sum = k * x.sum := sum_map_mul k x
  have hy : ∀ b ∈ x.map (k * ·), 0 ≤ b := by
    intro b hb
    obtain ⟨a, ha, rfl⟩ := List.mem_map.mp hb
    exact mul_nonneg hk.le (hx a ha)
  rw [hellinger_exact_lem x _ (by simp) hx hy hX (by rw [hsum]; exact mul_pos hk hX)]
  have hbc : bc x (x.map (k * ·)) = 1 := by
    have h := sqrtDot_map_mul hk.le x hx
    unfold sqrtDot at h
    unfold bc
    rw [h, hsum, show x.sum * (k * x.sum) = k * (x.sum * x.sum) by ring, Real.sqrt_mul hk.le,
      Real.sqrt_mul_self hX.le]
    exact div_self (mul_pos (Real.sqrt_pos.mpr hk) hX).ne'
  rw [hbc, sub_self, Real.sqrt_zero]

/-! ### Triangle inequality -/

/-- `Σ (f x_i − g y_i)²` -/
noncomputable def sqDist (f g : ℝ → ℝ) (x y : List ℝ) : ℝ :=
  (List.zipWith (fun a b => (f a - g b) ^ 2) x y).sum

theorem sqDist_nonneg (f g : ℝ → ℝ) : ∀ x y : List ℝ, 0 ≤ sqDist f g x y := by
  intro x
  induction x with
  | nil => intro y; simp [sqDist]
  | cons a x ih =>
    intro y
    cases y with
    | nil => simp [sqDist]
    | cons b y =>
      have := ih y
      unfold sqDist at this ⊢
      rw [List.zipWith_cons_cons, List.sum_cons]
      exact add_nonneg (sq_nonneg _) this

/-- Minkowski in the plane -/
theorem mink2 (p1 p2 q1 q2 : ℝ) :
    Real.sqrt ((p1 + q1) ^ 2 + (p2 + q2) ^ 2)
      ≤ Real.sqrt (p1 ^ 2 + p2 ^ 2) + Real.sqrt (q1 ^ 2 + q2 ^ 2) := by
  have hA : 0 ≤ p1 ^ 2 + p2 ^ 2 := by positivity
  have hB : 0 ≤ q1 ^ 2 + q2 ^ 2 := by positivity
  have hcs : p1 * q1 + p2 * q2 ≤ Real.sqrt (p1 ^ 2 + p2 ^ 2) * Real.sqrt (q1 ^ 2 + q2 ^ 2) := by
    rw [← Real.sqrt_mul hA]
    apply Real.le_sqrt_of_sq_le
    nlinarith [sq_nonneg (p1 * q2 - p2 * q1)]
  rw [Real.sqrt_le_left (add_nonneg (Real.sqrt_nonneg _) (Real.sqrt_nonneg _))]
  have e1 := Real.sq_sqrt hA
  have e2 := Real.sq_sqrt hB
  nlinarith

theorem mink_acc (f g h : ℝ → ℝ) : ∀ x y z : List ℝ, x.length = y.length → y.length = z.length →
    ∀ P Q R : ℝ, 0 ≤ P → 0 ≤ Q → 0 ≤ R → Real.sqrt R ≤ Real.sqrt P + Real.sqrt Q →
      Real.sqrt (R + sqDist f h x z)
        ≤ Real.sqrt (P + sqDist f g x y) + Real.sqrt (Q + sqDist g h y z) := by
  intro x
  induction x with
  | nil =>
    intro y z hxy hyz P Q R _ _ _ hR
    have hy : y = [] := List.length_eq_zero_iff.mp hxy.symm
    subst hy
    have hz : z = [] := List.length_eq_zero_iff.mp hyz.symm
    subst hz
    simpa [sqDist] using hR
  | cons a x ih =>
    intro y z hxy hyz P Q R hP hQ hR0 hR
    cases y with
    | nil => simp at hxy
    | cons b y =>
      cases z with
      | nil => simp at hyz
      | cons c z =>
        have key : Real.sqrt (R + (f a - h c) ^ 2)
            ≤ Real.sqrt (P + (f a - g b) ^ 2) + Real.sqrt (Q + (g b - h c) ^ 2) := by
          have m := mink2 (Real.sqrt P) (f a - g b) (Real.sqrt Q) (g b - h c)
          rw [Real.sq_sqrt hP, Real.sq_sqrt hQ] at m
          refine le_trans (Real.sqrt_le_sqrt ?_) m
          have : R ≤ (Real.sqrt P + Real.sqrt Q) ^ 2 := by
            rw [← Real.sq_sqrt hR0]
            exact pow_le_pow_left₀ (Real.sqrt_nonneg _) hR 2
          have e : f a - g b + (g b - h c) = f a - h c := by ring
          rw [e]
          linarith
        have := ih y z (by simpa using hxy) (by simpa using hyz) _ _ _
          (add_nonneg hP (sq_nonneg (f a - g b))) (add_nonneg hQ (sq_nonneg (g b - h c)))
          (add_nonneg hR0 (sq_nonneg (f a - h c))) key
        unfold sqDist at this ⊢
        simp only [List.zipWith_cons_cons, List.sum_cons]
        simpa only [add_assoc] using this

/-- Minkowski for lists: `√Σ(f x_i − h z_i)² ≤ √Σ(f x_i − g y_i)² + √Σ(g y_i − h z_i)²` -/
theorem mink (f g h : ℝ → ℝ) (x y z : List ℝ) (hxy : x.length = y.length)
    (hyz : y.length = z.length) :
    Real.sqrt (sqDist f h x z) ≤ Real.sqrt (sqDist f g x y) + Real.sqrt (sqDist g h y z) := by
  have := mink_acc f g h x y z hxy hyz 0 0 0 le_rfl le_rfl le_rfl (by simp)
  simpa only [zero_add] using this

/-- `Σ (√(x_i/X) − √(y_i/Y))² = Σx/X + Σy/Y − 2 Σ√(x_i y_i) / √(XY)` -/
theorem sqDist_sqrt {X Y : ℝ} (hX : 0 < X) (hY : 0 < Y) : ∀ x y : List ℝ, x.length = y.length →
    (∀ a ∈ x, 0 ≤ a) → (∀ b ∈ y, 0 ≤ b) →
    sqDist (fun a => Real.sqrt (a / X)) (fun b => Real.sqrt (b / Y)) x y
      = x.sum / X + y.sum / Y - 2 * (sqrtDot x y / Real.sqrt (X * Y)) := by
  intro x
  induction x with
  | nil =>
    intro y hlen _ _
    have hy : y = [] := List.length_eq_zero_iff.mp hlen.symm
    subst hy
    simp [sqDist, sqrtDot]
  | cons a x ih =>
    intro y hlen hx hy
    cases y with
    | nil => simp at hlen
    | cons b y =>
      have ha : 0 ≤ a := hx a (by simp)
      have hb : 0 ≤ b := hy b (by simp)
      have := ih y (by simpa using hlen) (fun a' h => hx a' (by simp [h]))
        (fun b' h => hy b' (by simp [h]))
      unfold sqDist sqrtDot at this ⊢
      simp only [List.zipWith_cons_cons, List.sum_cons]
      rw [this]
      have e1 : Real.sqrt (a / X) ^ 2 = a / X := Real.sq_sqrt (div_nonneg ha hX.le)
      have e2 : Real.sqrt (b / Y) ^ 2 = b / Y := Real.sq_sqrt (div_nonneg hb hY.le)
      have e3 : Real.sqrt (a / X) * Real.sqrt (b / Y) = Real.sqrt (a * b) / Real.sqrt (X * Y) := by
        rw [← Real.sqrt_mul (div_nonneg ha hX.le), ← Real.sqrt_div (mul_nonneg ha hb),
          div_mul_div_comm]
      have e4 : (Real.sqrt (a / X) - Real.sqrt (b / Y)) ^ 2
          = a / X + b / Y - 2 * (Real.sqrt (a * b) / Real.sqrt (X * Y)) := by
        rw [← e3, sub_sq, e1, e2]; ring
      rw [e4]
      ring

/-- `1 − BC(x, y) = ½ Σ (√p_i − √q_i)²` for the normalised `p = x/Σx`, `q = y/Σy` -/
theorem one_sub_bc (x y : List ℝ) (hlen : x.length = y.length)
    (hx : ∀ a ∈ x, 0 ≤ a) (hy : ∀ b ∈ y, 0 ≤ b) (hX : 0 < x.sum) (hY : 0 < y.sum) :
    1 - bc x y
      = sqDist (fun a => Real.sqrt (a / x.sum)) (fun b => Real.sqrt (b / y.sum)) x y / 2 := by
  rw [sqDist_sqrt hX hY x y hlen hx hy, div_self hX.ne', div_self hY.ne']
  unfold bc sqrtDot
  ring

/-- triangle inequality of the Hellinger distance (exact arithmetic) -/
theorem hellinger_triangle_lem (x y z : List ℝ) (hxy : x.length = y.length) (hyz : y.length = z.length)
    (hx : ∀ a ∈ x, 0 ≤ a) (hy : ∀ b ∈ y, 0 ≤ b) (hz : ∀ c ∈ z, 0 ≤ c)
    (hX : 0 < x.sum) (hY : 0 < y.sum) (hZ : 0 < z.sum) :
    ∃ a b c, hellingerG id x z = .ok a ∧ hellingerG id x y = .ok b ∧ hellingerG id y z = .ok c ∧
      a ≤ b + c := by
  refine ⟨_, _, _, hellinger_exact_lem x z (hxy.trans hyz) hx hz hX hZ,
    hellinger_exact_lem x y hxy hx hy hX hY, hellinger_exact_lem y z hyz hy hz hY hZ, ?_⟩
  rw [one_sub_bc x z (hxy.trans hyz) hx hz hX hZ, one_sub_bc x y hxy hx hy hX hY,
    one_sub_bc y z hyz hy hz hY hZ, Real.sqrt_div (sqDist_nonneg _ _ _ _),
    Real.sqrt_div (sqDist_nonneg _ _ _ _), Real.sqrt_div (sqDist_nonneg _ _ _ _), ← add_div]
  exact div_le_div_of_nonneg_right (mink _ _ _ x y z hxy hyz) (Real.sqrt_nonneg _)

/-! ## C. Jensen–Shannon and symmetric KL (exact arithmetic, `0 < eps`) -/

theorem mapM_ok {α β : Type} (f : α → Except Err β) (g : α → β) :
    ∀ l : List α, (∀ a ∈ l, f a = .ok (g a)) → l.mapM f = .ok (l.map g) := by
  intro l
  induction l with
  | nil => intro _; rfl
  | cons a l ih =>
    intro h
    rw [List.mapM_cons, h a (by simp), ih (fun a' h' => h a' (by simp [h']))]
    rfl

/-- the smoothed pdf `(x + eps) / (Σx + eps · n)` -/
noncomputable def pdfR (eps : ℝ) (x : List ℝ) : List ℝ :=
  x.map (fun a => (a + eps) / (x.sum + eps * (x.length : ℝ)))

theorem pdfR_length (eps : ℝ) (x : List ℝ) : (pdfR eps x).length = x.length := by
  simp [pdfR]

theorem smooth_den_pos {eps : ℝ} (heps : 0 < eps) {x : List ℝ} (hx : ∀ a ∈ x, 0 ≤ a)
    {a : ℝ} (ha : a ∈ x) : 0 < x.sum + eps * (x.length : ℝ) := by
  have h1 : 0 ≤ x.sum := List.sum_nonneg hx
  have h2 : 0 < (x.length : ℝ) := by exact_mod_cast List.length_pos_of_mem ha
  have := mul_pos heps h2
  linarith

theorem pdfR_pos {eps : ℝ} (heps : 0 < eps) {x : List ℝ} (hx : ∀ a ∈ x, 0 ≤ a) :
    ∀ p ∈ pdfR eps x, 0 < p := by
  intro p hp
  obtain ⟨a, ha, rfl⟩ := List.mem_map.mp hp
  exact div_pos (by linarith [hx a ha]) (smooth_den_pos heps hx ha)

theorem smoothPdf_ok {eps : ℝ} (heps : 0 < eps) {x : List ℝ} (hx : ∀ a ∈ x, 0 ≤ a) :
    smoothPdf eps x = .ok (pdfR eps x) := by
  unfold smoothPdf pdfR
  simp only [fsum_eq_sum, ofNat_real]
  apply mapM_ok
  intro a ha
  exact div_real (smooth_den_pos heps hx ha).ne'

/-- closed form of the generic divergence for a summand that is defined on positive arguments -/
theorem divergence_ok (term : ℝ → ℝ → Except Err ℝ) (t : ℝ → ℝ → ℝ)
    (ht : ∀ p q, 0 < p → 0 < q → term p q = .ok (t p q))
    {eps : ℝ} (heps : 0 < eps) {x y : List ℝ} (hlen : x.length = y.length)
    (hx : ∀ a ∈ x, 0 ≤ a) (hy : ∀ b ∈ y, 0 ≤ b) :
    divergenceG term eps x y
      = .ok (((pdfR eps x).zip (pdfR eps y)).map (fun pq => t pq.1 pq.2)).sum := by
  unfold divergenceG
  rw [if_neg (not_not.mpr hlen), smoothPdf_ok heps hx, smoothPdf_ok heps hy]
  simp only [bind, Except.bind]
  rw [mapM_ok _ (fun pq => t pq.1 pq.2)]
  · simp only [pure, Except.pure, fsum_eq_sum]
  · intro pq hpq
    have := List.of_mem_zip hpq
    exact ht _ _ (pdfR_pos heps hx _ this.1) (pdfR_pos heps hy _ this.2)

/-- value of one Jensen–Shannon summand -/
noncomputable def jsVal (p q : ℝ) : ℝ :=
  1 / 2 * (p * Real.log (p / (1 / 2 * (p + q))) + q * Real.log (q / (1 / 2 * (p + q))))

/-- value of one symmetric-KL summand -/
noncomputable def sklVal (p q : ℝ) : ℝ := p * Real.log (p / q) + q * Real.log (q / p)

theorem jsTerm_ok (p q : ℝ) (hp : 0 < p) (hq : 0 < q) : jsTerm p q = .ok (jsVal p q) := by
  have hm : 0 < 1 / 2 * (p + q) := by positivity
  unfold jsTerm jsVal
  simp only [half_real]
  rw [div_real hm.ne']
  simp only [bind, Except.bind]
  rw [log_real (div_pos hp hm)]
  simp only []
  rw [div_real hm.ne']
  simp only []
  rw [log_real (div_pos hq hm)]
  rfl

theorem sklTerm_ok (p q : ℝ) (hp : 0 < p) (hq : 0 < q) : sklTerm p q = .ok (sklVal p q) := by
  unfold sklTerm sklVal
  rw [div_real hq.ne']
  simp only [bind, Except.bind]
  rw [log_real (div_pos hp hq)]
  simp only []
  rw [div_real hp.ne']
  simp only []
  rw [log_real (div_pos hq hp)]
  rfl

/-- `p log(p/m) ≥ p − m` (Gibbs) -/
theorem mul_log_div_ge {p m : ℝ} (hp : 0 < p) (hm : 0 < m) : p - m ≤ p * Real.log (p / m) := by
  have h := Real.log_le_sub_one_of_pos (div_pos hm hp)
  rw [Real.log_div hm.ne' hp.ne'] at h
  rw [Real.log_div hp.ne' hm.ne']
  have h2 := mul_le_mul_of_nonneg_left h hp.le
  have e : p * (m / p - 1) = m - p := by field_simp
  rw [e] at h2
  nlinarith

theorem jsVal_nonneg {p q : ℝ} (hp : 0 < p) (hq : 0 < q) : 0 ≤ jsVal p q := by
  have hm : 0 < 1 / 2 * (p + q) := by positivity
  have h1 := mul_log_div_ge hp hm
  have h2 := mul_log_div_ge hq hm
  unfold jsVal
  linarith

theorem sklVal_nonneg {p q : ℝ} (hp : 0 < p) (hq : 0 < q) : 0 ≤ sklVal p q := by
  unfold sklVal
  rw [Real.log_div hp.ne' hq.ne', Real.log_div hq.ne' hp.ne']
  have e : p * (Real.log p - Real.log q) + q * (Real.log q - Real.log p)
      = (p - q) * (Real.log p - Real.log q) := by ring
  rw [e]
  rcases le_total p q with h | h
  · exact mul_nonneg_of_nonpos_of_nonpos (by linarith) (by linarith [Real.log_le_log hp h])
  · exact mul_nonneg (by linarith) (by linarith [Real.log_le_log hq h])

theorem jsVal_comm (p q : ℝ) : jsVal p q = jsVal q p := by
  unfold jsVal
  rw [add_comm q p, add_comm (q * _)]

theorem sklVal_comm (p q : ℝ) : sklVal p q = sklVal q p := by
  unfold sklVal
  rw [add_comm]

theorem jsVal_self {p : ℝ} (hp : 0 < p) : jsVal p p = 0 := by
  unfold jsVal
  rw [show 1 / 2 * (p + p) = p by ring, div_self hp.ne', Real.log_one]
  ring

theorem sklVal_self {p : ℝ} (hp : 0 < p) : sklVal p p = 0 := by
  unfold sklVal
  rw [div_self hp.ne', Real.log_one]
  ring

theorem zip_map_nonneg (t : ℝ → ℝ → ℝ) (a b : List ℝ) (ha : ∀ p ∈ a, 0 < p) (hb : ∀ q ∈ b, 0 < q)
    (ht : ∀ p q, 0 < p → 0 < q → 0 ≤ t p q) :
    0 ≤ ((a.zip b).map (fun pq => t pq.1 pq.2)).sum := by
  apply List.sum_nonneg
  intro v hv
  obtain ⟨pq, hpq, rfl⟩ := List.mem_map.mp hv
  have := List.of_mem_zip hpq
  exact ht _ _ (ha _ this.1) (hb _ this.2)

theorem zip_map_swap (t : ℝ → ℝ → ℝ) (ht : ∀ p q, t p q = t q p) : ∀ a b : List ℝ,
    (a.zip b).map (fun pq => t pq.1 pq.2) = (b.zip a).map (fun pq => t pq.1 pq.2) := by
  intro a
  induction a with
  | nil => intro b; simp
  | cons p a ih =>
    intro b
    cases b with
    | nil => simp
    | cons q b =>
      simp only [List.zip_cons_cons, List.map_cons]
      rw [ih b, ht p q]

theorem zip_self_map_zero (t : ℝ → ℝ → ℝ) : ∀ a : List ℝ, (∀ p ∈ a, t p p = 0) →
    ((a.zip a).map (fun pq => t pq.1 pq.2)).sum = 0 := by
  intro a
  induction a with
  | nil => intro _; simp
  | cons p a ih =>
    intro h
    simp only [List.zip_cons_cons, List.map_cons, List.sum_cons]
    rw [h p (by simp), ih (fun p' h' => h p' (by simp [h'])), add_zero]

/-- generic: defined and non-negative -/
theorem divergence_defined_nonneg (term : ℝ → ℝ → Except Err ℝ) (t : ℝ → ℝ → ℝ)
    (ht : ∀ p q, 0 < p → 0 < q → term p q = .ok (t p q))
    (hn : ∀ p q, 0 < p → 0 < q → 0 ≤ t p q)
    {eps : ℝ} (heps : 0 < eps) {x y : List ℝ} (hlen : x.length = y.length)
    (hx : ∀ a ∈ x, 0 ≤ a) (hy : ∀ b ∈ y, 0 ≤ b) :
    ∃ v, divergenceG term eps x y = .ok v ∧ 0 ≤ v :=
  ⟨_, divergence_ok term t ht heps hlen hx hy,
    zip_map_nonneg t _ _ (pdfR_pos heps hx) (pdfR_pos heps hy) hn⟩

/-- generic: symmetric (also when the shapes differ: both sides refuse) -/
theorem divergence_symm (term : ℝ → ℝ → Except Err ℝ) (t : ℝ → ℝ → ℝ)
    (ht : ∀ p q, 0 < p → 0 < q → term p q = .ok (t p q)) (hc : ∀ p q, t p q = t q p)
    {eps : ℝ} (heps : 0 < eps) {x y : List ℝ}
    (hx : ∀ a ∈ x, 0 ≤ a) (hy : ∀ b ∈ y, 0 ≤ b) :
    divergenceG term eps x y = divergenceG term eps y x := by
  by_cases hlen : x.length = y.length
  · rw [divergence_ok term t ht heps hlen hx hy, divergence_ok term t ht heps hlen.symm hy hx,
      zip_map_swap t hc]
  · unfold divergenceG
    rw [if_pos hlen, if_pos (fun h => hlen h.symm)]

/-- Jensen–Shannon divergence: defined (finite, never NaN) and non-negative -/
theorem js_defined_nonneg_lem {eps : ℝ} (heps : 0 < eps) {x y : List ℝ} (hlen : x.length = y.length)
    (hx : ∀ a ∈ x, 0 ≤ a) (hy : ∀ b ∈ y, 0 ≤ b) :
    ∃ v, jensenShannonG eps x y = .ok v ∧ 0 ≤ v :=
  divergence_defined_nonneg jsTerm jsVal jsTerm_ok (fun _ _ hp hq => jsVal_nonneg hp hq)
    heps hlen hx hy

/-- symmetric KL divergence: defined (finite, never NaN) and non-negative -/
theorem skl_defined_nonneg_lem {eps : ℝ} (heps : 0 < eps) {x y : List ℝ} (hlen : x.length = y.length)
    (hx : ∀ a ∈ x, 0 ≤ a) (hy : ∀ b ∈ y, 0 ≤ b) :
    ∃ v, symmetricKLG eps x y = .ok v ∧ 0 ≤ v :=
  divergence_defined_nonneg sklTerm sklVal sklTerm_ok (fun _ _ hp hq => sklVal_nonneg hp hq)
    heps hlen hx hy

theorem js_symm_lem {eps : ℝ} (heps : 0 < eps) {x y : List ℝ}
    (hx : ∀ a ∈ x, 0 ≤ a) (hy : ∀ b ∈ y, 0 ≤ b) :
    jensenShannonG eps x y = jensenShannonG eps y x :=
  divergence_symm jsTerm jsVal jsTerm_ok jsVal_comm heps hx hy

theorem skl_symm_lem {eps : ℝ} (heps : 0 < eps) {x y : List ℝ}
    (hx : ∀ a ∈ x, 0 ≤ a) (hy : ∀ b ∈ y, 0 ≤ b) :
    symmetricKLG eps x y = symmetricKLG eps y x :=
  divergence_symm sklTerm sklVal sklTerm_ok sklVal_comm heps hx hy

theorem js_self_lem {eps : ℝ} (heps : 0 < eps) {x : List ℝ} (hx : ∀ a ∈ x, 0 ≤ a) :
    jensenShannonG eps x x = .ok 0 := by
  unfold jensenShannonG
  rw [divergence_ok jsTerm jsVal jsTerm_ok heps rfl hx hx,
    zip_self_map_zero jsVal _ (fun p hp => jsVal_self (pdfR_pos heps hx p hp))]

theorem skl_self_lem {eps : ℝ} (heps : 0 < eps) {x : List ℝ} (hx : ∀ a ∈ x, 0 ≤ a) :
    symmetricKLG eps x x = .ok 0 := by
  unfold symmetricKLG
  rw [divergence_ok sklTerm sklVal sklTerm_ok heps rfl hx hx,
    zip_self_map_zero sklVal _ (fun p hp => sklVal_self (pdfR_pos heps hx p hp))]

/-! ### Jensen–Shannon is symmetric with no hypothesis at all (also in what it refuses)

The same is *not* true of `symmetricKLG`: for `p = 0 < q` the summand `sklTerm p q` refuses at
`log 0` while `sklTerm q p` refuses at the division by `p` (`sklTerm_not_comm`); under
`0 < eps` and non-negative inputs neither happens (`skl_symm_lem`). -/

theorem log_real_neg {x : ℝ} (h : ¬ 0 < x) : Analytic.log x = .error (.invalid "log<=0") :=
  if_neg h

theorem div_real_zero (a : ℝ) : Analytic.div a (0 : ℝ) = .error (.invalid "div0") := if_pos rfl

theorem jsTerm_comm (p q : ℝ) : jsTerm p q = jsTerm q p := by
  unfold jsTerm
  rw [add_comm q p]
  by_cases hm : (Analytic.half : ℝ) * (p + q) = 0
  · simp only [hm, div_real_zero]; rfl
  · by_cases h1 : 0 < p / (Analytic.half * (p + q)) <;>
      by_cases h2 : 0 < q / (Analytic.half * (p + q))
    · simp only [div_real hm, log_real h1, log_real h2, bind, Except.bind, pure, Except.pure]
      rw [add_comm]
    · simp only [div_real hm, log_real h1, log_real_neg h2, bind, Except.bind]
    · simp only [div_real hm, log_real_neg h1, log_real h2, bind, Except.bind]
    · simp only [div_real hm, log_real_neg h1, log_real_neg h2, bind, Except.bind]

theorem sklTerm_not_comm : sklTerm (0 : ℝ) 1 ≠ sklTerm 1 0 := by
  unfold sklTerm
  rw [div_real one_ne_zero, div_real_zero]
  simp only [bind, Except.bind]
  rw [log_real_neg (by norm_num)]
  intro h
  injection h with h
  injection h with h
  exact absurd h (by decide)

theorem smoothPdf_cases (eps : ℝ) (x : List ℝ) :
    (∃ l, smoothPdf eps x = .ok l) ∨ smoothPdf eps x = .error (.invalid "div0") := by
  unfold smoothPdf
  by_cases h : fsum x + eps * Analytic.ofNat x.length = 0
  · cases x with
    | nil => exact Or.inl ⟨[], rfl⟩
    | cons a x =>
      right
      simp only [] at h ⊢
      rw [List.mapM_cons, h, div_real_zero]
      rfl
  · exact Or.inl ⟨_, mapM_ok _ (fun a => (a + eps) / (fsum x + eps * Analytic.ofNat x.length)) x
      (fun a _ => div_real h)⟩

theorem zip_mapM_swap (term : ℝ → ℝ → Except Err ℝ) (ht : ∀ p q, term p q = term q p) :
    ∀ a b : List ℝ, (a.zip b).mapM (fun pq => term pq.1 pq.2)
      = (b.zip a).mapM (fun pq => term pq.1 pq.2) := by
  intro a
  induction a with
  | nil => intro b; simp
  | cons p a ih =>
    intro b
    cases b with
    | nil => simp
    | cons q b =>
      simp only [List.zip_cons_cons, List.mapM_cons]
      rw [ih b, ht p q]

theorem divergence_symm_total (term : ℝ → ℝ → Except Err ℝ) (ht : ∀ p q, term p q = term q p)
    (eps : ℝ) (x y : List ℝ) : divergenceG term eps x y = divergenceG term eps y x := by
  unfold divergenceG
  by_cases hlen : x.length = y.length
  · rw [if_neg (not_not.mpr hlen), if_neg (not_not.mpr hlen.symm)]
    rcases smoothPdf_cases eps x with ⟨px, hpx⟩ | hpx <;>
      rcases smoothPdf_cases eps y with ⟨py, hpy⟩ | hpy
    · rw [hpx, hpy]
      simp only [bind, Except.bind]
      rw [zip_mapM_swap term ht]
    · rw [hpx, hpy]; rfl
    · rw [hpx, hpy]; rfl
    · rw [hpx, hpy]
  · rw [if_pos hlen, if_pos (fun h => hlen h.symm)]

/-- `jensen_shannon_divergence` is symmetric for all inputs and every `eps` -/
theorem js_symm_total (eps : ℝ) (x y : List ℝ) :
    jensenShannonG eps x y = jensenShannonG eps y x :=
  divergence_symm_total jsTerm jsTerm_comm eps x y

end VecModel.Dist
