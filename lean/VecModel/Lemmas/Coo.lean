import VecModel.Model.Coo
/-
  Lemmas about the run-level model of the append buffer (Model/Coo.lean, namespace Coo.Runs):
  `total k` (summed weight of key `k`) is invariant under sorting, merging and summing of
  duplicates; sortedness of runs; capacity head-room; chunk boundaries are contiguous.
-/
namespace VecModel.Coo
open List

/-! ### total -/

@[simp] theorem total_nil (k : Int) : total k [] = 0 := rfl

@[simp] theorem total_cons (k : Int) (e : Entry) (l : List Entry) :
    total k (e :: l) = (if e.key = k then e.val else 0) + total k l := rfl

theorem total_append (k : Int) (a b : List Entry) : total k (a ++ b) = total k a + total k b := by
  induction a with
  | nil => simp
  | cons e a ih => simp [ih, Int.add_assoc]

theorem total_perm {a b : List Entry} (k : Int) (h : a ~ b) : total k a = total k b := by
  induction h with
  | nil => rfl
  | cons x _ ih => simp [ih]
  | swap x y l => simp; omega
  | trans _ _ ih1 ih2 => exact ih1.trans ih2

theorem total_mergeSort (k : Int) (l : List Entry) : total k (l.mergeSort kle) = total k l :=
  total_perm k (mergeSort_perm l kle)

theorem total_merge (k : Int) (a b : List Entry) : total k (List.merge a b kle) = total k a + total k b := by
  rw [total_perm k (merge_perm_append (le := kle)), total_append]

theorem total_dedupSum (k : Int) (l : List Entry) : total k (dedupSum l) = total k l := by
  induction l with
  | nil => rfl
  | cons e l ih =>
    simp only [dedupSum]
    cases h : dedupSum l with
    | nil => rw [h] at ih; simp [← ih]
    | cons f r =>
      rw [h] at ih
      simp only
      split
      · next hk => simp only [total_cons] at ih ⊢; rw [← ih, hk]; split <;> omega
      · simp only [total_cons] at ih ⊢; rw [← ih]

theorem total_canon (k : Int) (l : List Entry) : total k (canon l) = total k l := by
  rw [canon, total_dedupSum, total_mergeSort]

theorem total_merge2 (k : Int) (a b : List Entry) : total k (Runs.merge2 a b) = total k a + total k b := by
  rw [Runs.merge2, total_dedupSum, total_merge]

/-! ### sortedness -/

/-- sorted by key, duplicates allowed -/
def Sorted (l : List Entry) : Prop := l.Pairwise (fun a b => a.key ≤ b.key)
/-- strictly sorted by key: sorted and every key at most once -/
def SSorted (l : List Entry) : Prop := l.Pairwise (fun a b => a.key < b.key)

theorem kle_trans (a b c : Entry) : kle a b → kle b c → kle a c := by
  simp only [kle, decide_eq_true_eq]; omega

theorem kle_total (a b : Entry) : kle a b || kle b a := by
  simp only [kle, Bool.or_eq_true, decide_eq_true_eq]; omega

theorem sorted_mergeSort (l : List Entry) : Sorted (l.mergeSort kle) := by
  have := pairwise_mergeSort kle_trans kle_total l
  exact this.imp (by intro a b h; simpa [kle] using h)

theorem SSorted.sorted {l : List Entry} (h : SSorted l) : Sorted l :=
  h.imp (by intro a b h; omega)

theorem sorted_merge {a b : List Entry} (ha : Sorted a) (hb : Sorted b) : Sorted (List.merge a b kle) := by
  have ha' : a.Pairwise (fun x y => kle x y) := ha.imp (by intro x y h; simpa [kle] using h)
  have hb' : b.Pairwise (fun x y => kle x y) := hb.imp (by intro x y h; simpa [kle] using h)
  have := pairwise_merge kle_trans kle_total a b ha' hb'
  exact this.imp (by intro x y h; simpa [kle] using h)

/-- every entry of `dedupSum l` has the key, row and column of some entry of `l` -/
theorem mem_dedupSum {l : List Entry} {x : Entry} (hx : x ∈ dedupSum l) :
    ∃ y ∈ l, y.key = x.key ∧ y.row = x.row ∧ y.col = x.col := by
  induction l generalizing x with
  | nil => simp [dedupSum] at hx
  | cons e l ih =>
    simp only [dedupSum] at hx
    cases h : dedupSum l with
    | nil =>
      rw [h] at hx; simp at hx; subst hx
      exact ⟨x, by simp, rfl, rfl, rfl⟩
    | cons f r =>
      rw [h] at hx ih
      simp only at hx
      split at hx
      · rcases List.mem_cons.mp hx with rfl | hr
        · exact ⟨e, by simp, rfl, rfl, rfl⟩
        · obtain ⟨y, hy, h1⟩ := ih (List.mem_cons_of_mem _ hr)
          exact ⟨y, List.mem_cons_of_mem _ hy, h1⟩
      · rcases List.mem_cons.mp hx with rfl | hr
        · exact ⟨x, by simp, rfl, rfl, rfl⟩
        · obtain ⟨y, hy, h1⟩ := ih hr
          exact ⟨y, List.mem_cons_of_mem _ hy, h1⟩

theorem ssorted_dedupSum {l : List Entry} (h : Sorted l) : SSorted (dedupSum l) := by
  induction l with
  | nil => simp [dedupSum, SSorted]
  | cons e l ih =>
    have hl : Sorted l := (List.pairwise_cons.mp h).2
    have he : ∀ y ∈ l, e.key ≤ y.key := (List.pairwise_cons.mp h).1
    have ih' := ih hl
    simp only [dedupSum]
    cases hd : dedupSum l with
    | nil => simp [SSorted]
    | cons f r =>
      rw [hd] at ih'
      have hfr : ∀ y ∈ r, f.key < y.key := (List.pairwise_cons.mp ih').1
      have hr : SSorted r := (List.pairwise_cons.mp ih').2
      obtain ⟨y, hy, hyk, _⟩ := mem_dedupSum (l := l) (x := f) (by rw [hd]; simp)
      have hef : e.key ≤ f.key := by have := he y hy; omega
      simp only
      split
      · next hk =>
        refine List.pairwise_cons.mpr ⟨?_, hr⟩
        intro z hz; have := hfr z hz; simp only; omega
      · next hk =>
        refine List.pairwise_cons.mpr ⟨?_, ih'⟩
        intro z hz
        rcases List.mem_cons.mp hz with rfl | hz
        · omega
        · have := hfr z hz; omega

theorem ssorted_canon (l : List Entry) : SSorted (canon l) :=
  ssorted_dedupSum (sorted_mergeSort l)

theorem ssorted_merge2 {a b : List Entry} (ha : Sorted a) (hb : Sorted b) : SSorted (Runs.merge2 a b) :=
  ssorted_dedupSum (sorted_merge ha hb)

theorem length_dedupSum_le (l : List Entry) : (dedupSum l).length ≤ l.length := by
  induction l with
  | nil => simp [dedupSum]
  | cons e l ih =>
    simp only [dedupSum]
    cases h : dedupSum l with
    | nil => simp
    | cons f r =>
      rw [h] at ih
      simp only
      split <;> simp at ih ⊢ <;> omega

theorem length_canon_le (l : List Entry) : (canon l).length ≤ l.length := by
  have := length_dedupSum_le (l.mergeSort kle)
  simpa [canon] using this

theorem length_merge2_le (a b : List Entry) : (Runs.merge2 a b).length ≤ a.length + b.length := by
  have := length_dedupSum_le (List.merge a b kle)
  simpa [Runs.merge2] using this

/-- an entry of a merged run comes (key, row, column) from one of the two runs -/
theorem mem_merge2 {a b : List Entry} {x : Entry} (hx : x ∈ Runs.merge2 a b) :
    ∃ y, (y ∈ a ∨ y ∈ b) ∧ y.key = x.key ∧ y.row = x.row ∧ y.col = x.col := by
  obtain ⟨y, hy, h⟩ := mem_dedupSum hx
  exact ⟨y, mem_merge.mp hy, h⟩

theorem mem_canon {l : List Entry} {x : Entry} (hx : x ∈ canon l) :
    ∃ y ∈ l, y.key = x.key ∧ y.row = x.row ∧ y.col = x.col := by
  obtain ⟨y, hy, h⟩ := mem_dedupSum hx
  exact ⟨y, mem_mergeSort.mp hy, h⟩

theorem total_zero_of_lt {l : List Entry} {k : Int} (h : ∀ y ∈ l, k < y.key) : total k l = 0 := by
  induction l with
  | nil => rfl
  | cons f l ih =>
    have hf := h f (by simp)
    have : ¬ f.key = k := by omega
    simp only [total_cons, this, if_false, Int.zero_add]
    exact ih (fun y hy => h y (List.mem_cons_of_mem _ hy))

/-- a strictly sorted list is determined entry by entry by `total`: the weight stored under a
key is the total of that key -/
theorem total_of_mem_ssorted {l : List Entry} (h : SSorted l) {x : Entry} (hx : x ∈ l) :
    total x.key l = x.val := by
  induction l with
  | nil => simp at hx
  | cons e l ih =>
    have hl : SSorted l := (List.pairwise_cons.mp h).2
    have he : ∀ y ∈ l, e.key < y.key := (List.pairwise_cons.mp h).1
    rcases List.mem_cons.mp hx with rfl | hx'
    · simp [total_zero_of_lt he]
    · have := he x hx'
      have hne : ¬ e.key = x.key := by omega
      simp only [total_cons, hne, if_false, Int.zero_add]
      exact ih hl hx'

/-! ### run-level state -/
namespace Runs

theorem liveLevels_length (ls : List (Option (List Entry))) : (liveLevels ls).length = lenAbove ls := by
  induction ls with
  | nil => rfl
  | cons o ls ih => cases o <;> simp [liveLevels, lenAbove, ih]; omega

/-- all occupied levels hold strictly sorted runs -/
def WFL (ls : List (Option (List Entry))) : Prop := ∀ r, some r ∈ ls → SSorted r
def WF (s : St) : Prop := WFL s.levels

theorem total_place (k : Int) (acc : List Entry) (above ls : List (Option (List Entry))) :
    total k (liveLevels (place acc above :: ls)) = total k (liveLevels ls) + total k acc := by
  unfold place
  split
  · next h =>
    have : acc = [] := List.eq_nil_of_length_eq_zero (by omega)
    simp [liveLevels, this]
  · simp [liveLevels, total_append]

theorem total_carry (k : Int) (acc : List Entry) (ls : List (Option (List Entry))) :
    total k (liveLevels (carry acc ls)) = total k (liveLevels ls) + total k acc := by
  induction ls generalizing acc with
  | nil => simpa [carry] using total_place k acc [] []
  | cons o ls ih =>
    cases o with
    | none => simpa [carry, liveLevels] using total_place k acc ls ls
    | some r =>
      simp only [carry, liveLevels, ih, total_merge2, total_append]
      omega

theorem liveLevels_nones (n : Nat) : liveLevels (List.replicate n none) = [] := by
  induction n with
  | zero => rfl
  | succ n ih => simpa [List.replicate_succ, liveLevels] using ih

theorem liveLevels_append_nones (xs : List (Option (List Entry))) (n : Nat) :
    liveLevels (xs ++ List.replicate n none) = liveLevels xs := by
  induction xs with
  | nil => simpa [liveLevels] using liveLevels_nones n
  | cons o xs ih => cases o <;> simp [liveLevels, ih]

theorem liveLevels_filterMap (ls : List (Option (List Entry))) :
    liveLevels ((ls.filterMap id).map some) = liveLevels ls := by
  induction ls with
  | nil => rfl
  | cons o ls ih => cases o <;> simp [liveLevels, ih]

theorem liveLevels_compact (ls : List (Option (List Entry))) : liveLevels (compact ls) = liveLevels ls := by
  simp [compact, liveLevels_append_nones, liveLevels_filterMap]

theorem wfl_place {acc : List Entry} {above ls : List (Option (List Entry))}
    (ha : SSorted acc) (h : WFL ls) : WFL (place acc above :: ls) := by
  intro r hr
  rcases List.mem_cons.mp hr with h1 | h1
  · unfold place at h1; split at h1
    · cases h1
    · cases h1; exact ha
  · exact h r h1

theorem wfl_carry {acc : List Entry} {ls : List (Option (List Entry))}
    (ha : SSorted acc) (h : WFL ls) : WFL (carry acc ls) := by
  induction ls generalizing acc with
  | nil => exact wfl_place ha h
  | cons o ls ih =>
    have hls : WFL ls := fun r hr => h r (List.mem_cons_of_mem _ hr)
    cases o with
    | none => exact wfl_place ha hls
    | some r =>
      have hr : SSorted r := h r (by simp)
      intro r' hr'
      simp only [carry] at hr'
      rcases List.mem_cons.mp hr' with h1 | h1
      · cases h1
      · exact ih (ssorted_merge2 hr.sorted ha.sorted) hls r' h1

theorem wfl_compact {ls : List (Option (List Entry))} (h : WFL ls) : WFL (compact ls) := by
  intro r hr
  simp only [compact, List.mem_append, List.mem_map, List.mem_filterMap, id] at hr
  rcases hr with ⟨a, ⟨b, hb, hba⟩, hra⟩ | hr
  · cases hra; subst hba; exact h _ hb
  · have := List.eq_of_mem_replicate hr; cases this

theorem ssorted_nil : SSorted [] := by simp [SSorted]

/-! #### after merge_all everything sits in one strictly sorted run -/

theorem carry_compact_single {acc : List Entry} (rs : List (List Entry)) (n : Nat)
    (ha : SSorted acc) (hrs : ∀ r ∈ rs, SSorted r) :
    SSorted (liveLevels (carry acc (rs.map some ++ List.replicate n none))) := by
  induction rs generalizing acc with
  | nil =>
    cases n with
    | zero =>
      simp only [List.map_nil, List.replicate_zero, List.append_nil, carry, place]
      split <;> simp [liveLevels, ssorted_nil, ha]
    | succ n =>
      simp only [List.map_nil, List.nil_append, List.replicate_succ, carry, place]
      split <;> simp [liveLevels, liveLevels_nones, ssorted_nil, ha]
  | cons r rs ih =>
    simp only [List.map_cons, List.cons_append, carry, liveLevels]
    exact ih (ssorted_merge2 (hrs r (by simp)).sorted ha.sorted) (fun r' hr' => hrs r' (List.mem_cons_of_mem _ hr'))

theorem mergeAll_single {s : St} (h : WF s) (ht : s.tail = []) : SSorted (live (mergeAll s)) := by
  simp only [live, mergeAll, ht, List.append_nil, compact]
  apply carry_compact_single _ _ ssorted_nil
  intro r hr
  simp only [List.mem_filterMap, id] at hr
  obtain ⟨a, ha, rfl⟩ := hr
  exact h r ha

/-! #### per-operation facts: abs, WF, ind -/

theorem abs_round (s : St) (k : Int) : abs (round s) k = abs s k := by
  simp [abs, live, round, total_append, total_carry, total_canon]

theorem abs_mergeAll (s : St) (k : Int) : abs (mergeAll s) k = abs s k := by
  simp [abs, live, mergeAll, total_append, total_carry, liveLevels_compact]

theorem abs_grow (lim : Nat) (s : St) (k : Int) : abs (grow lim s) k = abs s k := rfl

theorem abs_compactAndGrow (lim : Nat) (s : St) (k : Int) : abs (compactAndGrow lim s) k = abs s k := by
  unfold compactAndGrow
  simp only
  split
  · split <;> simp [abs_grow, abs_mergeAll, abs_round]
  · exact abs_round s k

theorem wf_round {s : St} (h : WF s) : WF (round s) := wfl_carry (ssorted_canon _) h
theorem wf_mergeAll {s : St} (h : WF s) : WF (mergeAll s) := wfl_carry ssorted_nil (wfl_compact h)
theorem wf_grow {lim : Nat} {s : St} (h : WF s) : WF (grow lim s) := h

theorem wf_compactAndGrow {lim : Nat} {s : St} (h : WF s) : WF (compactAndGrow lim s) := by
  unfold compactAndGrow
  simp only
  split
  · split
    · exact wf_grow (wf_mergeAll (wf_round h))
    · exact wf_mergeAll (wf_round h)
  · exact wf_round h

theorem tail_round (s : St) : (round s).tail = [] := rfl
theorem tail_mergeAll (s : St) : (mergeAll s).tail = s.tail := rfl

theorem lenAbove_place_le (acc : List Entry) (above ls : List (Option (List Entry))) :
    lenAbove (place acc above :: ls) ≤ acc.length + lenAbove ls := by
  unfold place; split <;> simp [lenAbove]

theorem lenAbove_carry_le (acc : List Entry) (ls : List (Option (List Entry))) :
    lenAbove (carry acc ls) ≤ acc.length + lenAbove ls := by
  induction ls generalizing acc with
  | nil => simpa [carry] using lenAbove_place_le acc [] []
  | cons o ls ih =>
    cases o with
    | none => simpa [carry, lenAbove] using lenAbove_place_le acc ls ls
    | some r =>
      simp only [carry, lenAbove]
      have := ih (merge2 r acc)
      have := length_merge2_le r acc
      omega

theorem lenAbove_compact (ls : List (Option (List Entry))) : lenAbove (compact ls) = lenAbove ls := by
  rw [← liveLevels_length, ← liveLevels_length, liveLevels_compact]

theorem ind_round_le (s : St) : ind (round s) ≤ ind s := by
  have := lenAbove_carry_le (canon s.tail) s.levels
  have := length_canon_le s.tail
  simp only [ind, round, List.length_nil]; omega

theorem ind_mergeAll_le (s : St) : ind (mergeAll s) ≤ ind s := by
  have := lenAbove_carry_le [] (compact s.levels)
  rw [lenAbove_compact] at this
  simp only [ind, mergeAll]; simp at this; omega

theorem roundHalfEven3_gt (n : Nat) (h : 1 ≤ n) : n + 1 ≤ roundHalfEven3 n := by
  unfold roundHalfEven3
  split
  · omega
  · simp only; split <;> omega

/-- the shared body of coo_append's two blocks leaves room for two more entries -/
theorem room_compactAndGrow {lim : Nat} {s : St} (hl : 1 ≤ lim) (h : ind s + 1 ≤ s.cap) :
    ind (compactAndGrow lim s) + 2 ≤ (compactAndGrow lim s).cap := by
  have h1 := ind_round_le s
  have h2 := ind_mergeAll_le (round s)
  have hc1 : (round s).cap = s.cap := rfl
  have hc2 : (mergeAll (round s)).cap = s.cap := rfl
  unfold compactAndGrow
  simp only
  split
  · split
    · have hg : ind (grow lim (mergeAll (round s))) = ind (mergeAll (round s)) := rfl
      have : s.cap + 1 ≤ (grow lim (mergeAll (round s))).cap := by
        have := roundHalfEven3_gt s.cap (by omega)
        simp only [grow, hc2]; omega
      omega
    · next hng => omega
  · next hnc => omega

theorem ind_snoc (s : St) (e : Entry) : ind { s with tail := s.tail ++ [e] } = ind s + 1 := by
  simp [ind]; omega

end Runs

/-! ### chunk boundaries -/

/-- `bs` is a chain of adjacent half-open intervals from `a` to `b` -/
inductive Contig : List (Nat × Nat) → Nat → Nat → Prop
  | nil (a : Nat) : Contig [] a a
  | cons {a m b : Nat} {rest : List (Nat × Nat)} : a ≤ m → Contig rest m b → Contig ((a, m) :: rest) a b

theorem Contig.le {bs : List (Nat × Nat)} {a b : Nat} (h : Contig bs a b) : a ≤ b := by
  induction h with
  | nil => exact Nat.le_refl _
  | cons h1 _ ih => omega

theorem Contig.snoc {bs : List (Nat × Nat)} {a b c : Nat} (h : Contig bs a b) (hbc : b ≤ c) :
    Contig (bs ++ [(b, c)]) a c := by
  induction h with
  | nil => exact Contig.cons hbc (Contig.nil _)
  | cons h1 _ ih => exact Contig.cons h1 (ih hbc)

theorem take_drop_split {α} (l : List α) {a m b : Nat} (h1 : a ≤ m) (h2 : m ≤ b) :
    (l.take b).drop a = (l.take m).drop a ++ (l.take b).drop m := by
  have e1 : l.take m = (l.take b).take m := by rw [List.take_take]; congr 1; omega
  rw [e1]
  generalize l.take b = t
  have : t.drop a = (t.drop a).take (m - a) ++ (t.drop a).drop (m - a) := (List.take_append_drop _ _).symm
  rw [this, List.drop_drop]
  congr 1
  · rw [List.drop_take]
  · congr 1; omega

theorem flatten_chunksOf {α} (docs : List α) {bs : List (Nat × Nat)} {a b : Nat} (h : Contig bs a b) :
    (chunksOf docs bs).flatten = (docs.take b).drop a := by
  induction h with
  | nil a => simp [chunksOf]
  | @cons a m b rest h1 h2 ih =>
    have : chunksOf docs ((a, m) :: rest) = (docs.take m).drop a :: chunksOf docs rest := rfl
    rw [this, List.flatten_cons, ih]
    exact (take_drop_split docs h1 h2.le).symm

theorem chunkLoop_contig (cs : Nat) (sizes : List Nat) (idx cum lastCum lastEnd : Nat)
    (acc : List (Nat × Nat)) (h : Contig acc.reverse 0 lastEnd) (hle : lastEnd ≤ idx) :
    Contig (chunkLoop cs sizes idx cum lastCum lastEnd acc).1 0 (chunkLoop cs sizes idx cum lastCum lastEnd acc).2 ∧
    (chunkLoop cs sizes idx cum lastCum lastEnd acc).2 ≤ idx + sizes.length := by
  induction sizes generalizing idx cum lastCum lastEnd acc with
  | nil => simpa [chunkLoop] using ⟨h, hle⟩
  | cons sz rest ih =>
    simp only [chunkLoop]
    split
    · have := ih (idx + 1) (cum + sz) (cum + sz) idx ((lastEnd, idx) :: acc)
        (by simpa using h.snoc hle) (by omega)
      refine ⟨this.1, ?_⟩
      have := this.2; simp only [List.length_cons]; omega
    · have := ih (idx + 1) (cum + sz) lastCum lastEnd acc h (by omega)
      refine ⟨this.1, ?_⟩
      have := this.2; simp only [List.length_cons]; omega

theorem chunkBoundaries_contig (sizes : List Nat) (n : Nat) :
    Contig (chunkBoundaries sizes n) 0 sizes.length := by
  unfold chunkBoundaries
  simp only
  have := chunkLoop_contig ((sizes.sum + n - 1) / n) sizes 0 0 0 0 [] (Contig.nil 0) (Nat.le_refl _)
  generalize chunkLoop ((sizes.sum + n - 1) / n) sizes 0 0 0 0 [] = p at this
  obtain ⟨cs, le⟩ := p
  exact this.1.snoc (by simpa using this.2)

/-! ### sums of per-chunk matrices -/

theorem sum_perm_int {a b : List Int} (h : a ~ b) : a.sum = b.sum := by
  induction h with
  | nil => rfl
  | cons x _ ih => simp [ih]
  | swap x y l => simp; omega
  | trans _ _ ih1 ih2 => exact ih1.trans ih2

theorem total_flatten (k : Int) (ls : List (List Entry)) : total k ls.flatten = (ls.map (total k)).sum := by
  induction ls with
  | nil => rfl
  | cons l ls ih => simp [total_append, ih]

end VecModel.Coo

/-! ### canonical form: which cells are present, and with which row/column -/
namespace VecModel.Coo
open List

/-- every entry of `a` has the key, row and column of some entry of `b` -/
def SigSub (a b : List Entry) : Prop := ∀ x ∈ a, ∃ y ∈ b, y.key = x.key ∧ y.row = x.row ∧ y.col = x.col
/-- every key of `a` occurs in `b` -/
def KeySub (a b : List Entry) : Prop := ∀ x ∈ a, ∃ y ∈ b, y.key = x.key

/-- `a` holds the same cells as `b`: nothing invented (with `b`'s row/column), nothing dropped -/
def Same (a b : List Entry) : Prop := SigSub a b ∧ KeySub b a

theorem Same.refl (a : List Entry) : Same a a :=
  ⟨fun x hx => ⟨x, hx, rfl, rfl, rfl⟩, fun x hx => ⟨x, hx, rfl⟩⟩

theorem Same.trans {a b c : List Entry} (h1 : Same a b) (h2 : Same b c) : Same a c := by
  refine ⟨?_, ?_⟩
  · intro x hx
    obtain ⟨y, hy, e1, e2, e3⟩ := h1.1 x hx
    obtain ⟨z, hz, f1, f2, f3⟩ := h2.1 y hy
    exact ⟨z, hz, by omega, by omega, by omega⟩
  · intro x hx
    obtain ⟨y, hy, e1⟩ := h2.2 x hx
    obtain ⟨z, hz, f1⟩ := h1.2 y hy
    exact ⟨z, hz, by omega⟩

theorem Same.of_mem_iff {a b : List Entry} (h : ∀ x, x ∈ a ↔ x ∈ b) : Same a b :=
  ⟨fun x hx => ⟨x, (h x).mp hx, rfl, rfl, rfl⟩, fun x hx => ⟨x, (h x).mpr hx, rfl⟩⟩

theorem Same.append {a a' b b' : List Entry} (h1 : Same a a') (h2 : Same b b') : Same (a ++ b) (a' ++ b') := by
  refine ⟨?_, ?_⟩
  · intro x hx
    rcases List.mem_append.mp hx with hx | hx
    · obtain ⟨y, hy, e⟩ := h1.1 x hx; exact ⟨y, List.mem_append_left _ hy, e⟩
    · obtain ⟨y, hy, e⟩ := h2.1 x hx; exact ⟨y, List.mem_append_right _ hy, e⟩
  · intro x hx
    rcases List.mem_append.mp hx with hx | hx
    · obtain ⟨y, hy, e⟩ := h1.2 x hx; exact ⟨y, List.mem_append_left _ hy, e⟩
    · obtain ⟨y, hy, e⟩ := h2.2 x hx; exact ⟨y, List.mem_append_right _ hy, e⟩

theorem keySub_dedupSum (l : List Entry) : KeySub l (dedupSum l) := by
  induction l with
  | nil => intro x hx; simp at hx
  | cons e l ih =>
    intro x hx
    simp only [dedupSum]
    cases h : dedupSum l with
    | nil =>
      rw [h] at ih
      rcases List.mem_cons.mp hx with rfl | hx'
      · exact ⟨x, by simp, rfl⟩
      · obtain ⟨y, hy, _⟩ := ih x hx'; simp at hy
    | cons f r =>
      rw [h] at ih
      simp only
      rcases List.mem_cons.mp hx with rfl | hx'
      · split
        · exact ⟨_, List.mem_cons_self, rfl⟩
        · exact ⟨x, List.mem_cons_self, rfl⟩
      · obtain ⟨y, hy, hk⟩ := ih x hx'
        split
        · next hef =>
          rcases List.mem_cons.mp hy with rfl | hy'
          · exact ⟨_, List.mem_cons_self, by simp only; omega⟩
          · exact ⟨y, List.mem_cons_of_mem _ hy', hk⟩
        · exact ⟨y, List.mem_cons_of_mem _ hy, hk⟩

theorem same_dedupSum (l : List Entry) : Same (dedupSum l) l :=
  ⟨fun _ hx => mem_dedupSum hx, keySub_dedupSum l⟩

theorem same_canon (l : List Entry) : Same (canon l) l :=
  (same_dedupSum _).trans (Same.of_mem_iff fun _ => mem_mergeSort)

theorem same_merge2 (a b : List Entry) : Same (Runs.merge2 a b) (a ++ b) :=
  (same_dedupSum _).trans (Same.of_mem_iff fun x => by rw [mem_merge, List.mem_append])

theorem same_comm_append (a b : List Entry) : Same (a ++ b) (b ++ a) :=
  Same.of_mem_iff fun x => by simp [List.mem_append, or_comm]

/-- two strictly sorted lists with the same weights, the same keys and compatible row/column
labels are equal -/
theorem ssorted_ext {l1 l2 : List Entry} (s1 : SSorted l1) (s2 : SSorted l2)
    (ht : ∀ k, total k l1 = total k l2) (k12 : KeySub l1 l2) (k21 : KeySub l2 l1)
    (hrc : ∀ x ∈ l1, ∀ y ∈ l2, x.key = y.key → x.row = y.row ∧ x.col = y.col) : l1 = l2 := by
  induction l1 generalizing l2 with
  | nil =>
    cases l2 with
    | nil => rfl
    | cons b t2 => obtain ⟨y, hy, _⟩ := k21 b (by simp); simp at hy
  | cons a t1 ih =>
    cases l2 with
    | nil => obtain ⟨y, hy, _⟩ := k12 a (by simp); simp at hy
    | cons b t2 =>
      have ha := (List.pairwise_cons.mp s1).1
      have hb := (List.pairwise_cons.mp s2).1
      have st1 := (List.pairwise_cons.mp s1).2
      have st2 := (List.pairwise_cons.mp s2).2
      have hk : a.key = b.key := by
        obtain ⟨y, hy, e1⟩ := k12 a (by simp)
        obtain ⟨z, hz, e2⟩ := k21 b (by simp)
        rcases List.mem_cons.mp hy with rfl | hy'
        · omega
        · rcases List.mem_cons.mp hz with rfl | hz'
          · omega
          · have := hb y hy'; have := ha z hz'; omega
      have hv : a.val = b.val := by
        have e1 := total_of_mem_ssorted s1 (x := a) (by simp)
        have e2 := total_of_mem_ssorted s2 (x := b) (by simp)
        rw [← e1, ← e2, hk]; exact ht b.key
      have hrc' := hrc a (by simp) b (by simp) hk
      have hab : a = b := by
        cases a; cases b; simp_all
      subst hab
      congr 1
      apply ih st1 st2
      · intro k; have := ht k; simp only [total_cons] at this; omega
      · intro x hx
        obtain ⟨y, hy, e⟩ := k12 x (List.mem_cons_of_mem _ hx)
        rcases List.mem_cons.mp hy with rfl | hy'
        · have := ha x hx; omega
        · exact ⟨y, hy', e⟩
      · intro x hx
        obtain ⟨y, hy, e⟩ := k21 x (List.mem_cons_of_mem _ hx)
        rcases List.mem_cons.mp hy with rfl | hy'
        · have := hb x hx; omega
        · exact ⟨y, hy', e⟩
      · intro x hx y hy; exact hrc x (List.mem_cons_of_mem _ hx) y (List.mem_cons_of_mem _ hy)

namespace Runs

theorem same_place (acc : List Entry) (above ls : List (Option (List Entry))) :
    Same (liveLevels (place acc above :: ls)) (liveLevels ls ++ acc) := by
  unfold place
  split
  · next h =>
    have : acc = [] := List.eq_nil_of_length_eq_zero (by omega)
    simpa [liveLevels, this] using Same.refl _
  · simpa [liveLevels] using Same.refl _

theorem same_carry (acc : List Entry) (ls : List (Option (List Entry))) :
    Same (liveLevels (carry acc ls)) (liveLevels ls ++ acc) := by
  induction ls generalizing acc with
  | nil => simpa [carry] using same_place acc [] []
  | cons o ls ih =>
    cases o with
    | none => simpa [carry, liveLevels] using same_place acc ls ls
    | some r =>
      simp only [carry, liveLevels]
      refine (ih (merge2 r acc)).trans ?_
      rw [List.append_assoc]
      exact Same.append (Same.refl _) (same_merge2 r acc)

theorem same_round (s : St) : Same (live (round s)) (live s) := by
  simp only [live, round, List.append_nil]
  exact (same_carry _ _).trans (Same.append (Same.refl _) (same_canon _))

theorem same_mergeAll (s : St) : Same (live (mergeAll s)) (live s) := by
  simp only [live, mergeAll]
  refine Same.append ?_ (Same.refl _)
  have := same_carry [] (compact s.levels)
  simpa [liveLevels_compact] using this

theorem same_compactAndGrow (lim : Nat) (s : St) : Same (live (compactAndGrow lim s)) (live s) := by
  unfold compactAndGrow
  simp only
  split
  · split
    · exact (same_mergeAll (round s)).trans (same_round s)
    · exact (same_mergeAll (round s)).trans (same_round s)
  · exact same_round s

theorem same_append (lim : Nat) (s : St) (e : Entry) : Same (live (append lim s e)) (live s ++ [e]) := by
  have h1 : live { s with tail := s.tail ++ [e] } = live s ++ [e] := by simp [live]
  unfold append
  simp only
  split
  · split
    · exact (same_compactAndGrow _ _).trans ((same_compactAndGrow _ _).trans (h1 ▸ Same.refl _))
    · exact (same_compactAndGrow _ _).trans (h1 ▸ Same.refl _)
  · split
    · exact (same_compactAndGrow _ _).trans (h1 ▸ Same.refl _)
    · exact h1 ▸ Same.refl _

theorem same_appendAll (lim : Nat) (s : St) (es : List Entry) :
    Same (live (appendAll lim s es)) (live s ++ es) := by
  induction es generalizing s with
  | nil => simpa [appendAll] using Same.refl _
  | cons e es ih =>
    simp only [appendAll, List.foldl_cons]
    have := ih (append lim s e)
    simp only [appendAll] at this
    refine this.trans ?_
    have h2 : live s ++ e :: es = (live s ++ [e]) ++ es := by simp
    rw [h2]
    exact Same.append (same_append lim s e) (Same.refl _)

theorem same_build (lim cap : Nat) (es : List Entry) : Same (build lim cap es) es := by
  unfold build finalize
  refine (same_mergeAll _).trans ((same_round _).trans ?_)
  have := same_appendAll lim (mk cap) es
  simpa [live, mk, liveLevels] using this

end Runs
end VecModel.Coo

/-! ### depth of the run stack: a binary counter -/
namespace VecModel.Coo.Runs
open List

/-- the levels read as a binary number (level 0 = least significant bit) -/
def cval : List (Option (List Entry)) → Nat
  | [] => 0
  | none :: ls => 2 * cval ls
  | some _ :: ls => 2 * cval ls + 1

/-- after `t` carries: the counter is at most `t` and `2^(depth-1) ≤ t` -/
def DI (t : Nat) (ls : List (Option (List Entry))) : Prop := cval ls ≤ t ∧ 2 ^ ls.length ≤ 2 * t + 1

theorem DI.mono {t t' : Nat} {ls : List (Option (List Entry))} (h : DI t ls) (ht : t ≤ t') : DI t' ls :=
  ⟨by have := h.1; omega, by have := h.2; omega⟩

theorem cval_lt (ls : List (Option (List Entry))) : cval ls < 2 ^ ls.length := by
  induction ls with
  | nil => simp [cval]
  | cons o ls ih => cases o <;> simp only [cval, List.length_cons, Nat.pow_succ] <;> omega

theorem cval_place_le (acc : List Entry) (above ls : List (Option (List Entry))) :
    cval (place acc above :: ls) ≤ 2 * cval ls + 1 := by
  unfold place; split <;> simp [cval]

theorem carry_counter (acc : List Entry) (ls : List (Option (List Entry))) :
    cval (carry acc ls) ≤ cval ls + 1 ∧
    ((carry acc ls).length = ls.length ∨
      ((carry acc ls).length = ls.length + 1 ∧ cval ls + 1 = 2 ^ ls.length)) := by
  induction ls generalizing acc with
  | nil =>
    refine ⟨?_, Or.inr ⟨by simp [carry], by simp [cval]⟩⟩
    have := cval_place_le acc [] []; simpa [carry, cval] using this
  | cons o ls ih =>
    cases o with
    | none =>
      refine ⟨?_, Or.inl (by simp [carry])⟩
      have := cval_place_le acc ls ls; simpa [carry, cval] using this
    | some r =>
      obtain ⟨h1, h2⟩ := ih (merge2 r acc)
      refine ⟨by simp only [carry, cval]; omega, ?_⟩
      rcases h2 with h2 | ⟨h2, h3⟩
      · exact Or.inl (by simp [carry, h2])
      · refine Or.inr ⟨by simp [carry, h2], ?_⟩
        simp only [cval, List.length_cons, Nat.pow_succ]; omega

theorem di_carry {t : Nat} {ls : List (Option (List Entry))} (acc : List Entry) (h : DI t ls) :
    DI (t + 1) (carry acc ls) := by
  obtain ⟨h1, h2⟩ := carry_counter acc ls
  refine ⟨by have := h.1; omega, ?_⟩
  rcases h2 with h2 | ⟨h2, h3⟩
  · rw [h2]; have := h.2; omega
  · rw [h2, Nat.pow_succ]; have := h.1; omega

theorem cval_append_nones (xs : List (Option (List Entry))) (n : Nat) :
    cval (xs ++ List.replicate n none) = cval xs := by
  induction xs with
  | nil =>
    induction n with
    | zero => rfl
    | succ n ih =>
      simp only [List.nil_append, List.replicate_succ, cval] at ih ⊢; omega
  | cons o xs ih => cases o <;> simp [cval, ih]

theorem cval_somes_le (ls : List (Option (List Entry))) : cval ((ls.filterMap id).map some) ≤ cval ls := by
  induction ls with
  | nil => simp [cval]
  | cons o ls ih => cases o <;> simp [cval] <;> omega

theorem length_compact (ls : List (Option (List Entry))) : (compact ls).length = ls.length := by
  have := List.length_filterMap_le id ls
  simp [compact]; omega

theorem di_compact {t : Nat} {ls : List (Option (List Entry))} (h : DI t ls) : DI t (compact ls) := by
  refine ⟨?_, by rw [length_compact]; exact h.2⟩
  have := cval_somes_le ls
  have h1 := h.1
  simp only [compact, cval_append_nones]; omega

theorem di_round {t : Nat} {s : St} (h : DI t s.levels) : DI (t + 1) (round s).levels := di_carry _ h
theorem di_mergeAll {t : Nat} {s : St} (h : DI t s.levels) : DI (t + 1) (mergeAll s).levels :=
  di_carry _ (di_compact h)

theorem di_compactAndGrow {t : Nat} {lim : Nat} {s : St} (h : DI t s.levels) :
    DI (t + 2) (compactAndGrow lim s).levels := by
  unfold compactAndGrow
  simp only
  split
  · split
    · exact di_mergeAll (di_round h)
    · exact di_mergeAll (di_round h)
  · exact (di_round h).mono (by omega)

theorem di_append {t : Nat} {lim : Nat} {s : St} (e : Entry) (h : DI t s.levels) :
    DI (t + 4) (append lim s e).levels := by
  have h0 : DI t ({ s with tail := s.tail ++ [e] } : St).levels := h
  unfold append
  simp only
  split
  · split
    · exact di_compactAndGrow (di_compactAndGrow h0)
    · exact (di_compactAndGrow h0).mono (by omega)
  · split
    · exact (di_compactAndGrow h0).mono (by omega)
    · exact h0.mono (by omega)

theorem di_appendAll {t : Nat} {lim : Nat} {s : St} (es : List Entry) (h : DI t s.levels) :
    DI (t + 4 * es.length) (appendAll lim s es).levels := by
  induction es generalizing s t with
  | nil => simpa [appendAll] using h
  | cons e es ih =>
    have := ih (di_append (lim := lim) e h)
    simp only [appendAll, List.foldl_cons, List.length_cons] at this ⊢
    exact this.mono (by omega)

end VecModel.Coo.Runs

namespace VecModel.Coo.Runs

theorem mcap_compactAndGrow (lim : Nat) (s : St) : s.mcap ≤ (compactAndGrow lim s).mcap := by
  unfold compactAndGrow
  simp only
  split
  · split
    · have := roundHalfEven3_gt (s.mcap + 2) (by omega)
      simp only [grow, mergeAll, round]; omega
    · exact Nat.le_refl _
  · exact Nat.le_refl _

theorem mcap_append (lim : Nat) (s : St) (e : Entry) : s.mcap ≤ (append lim s e).mcap := by
  have h0 : ({ s with tail := s.tail ++ [e] } : St).mcap = s.mcap := rfl
  unfold append
  simp only
  split
  · split
    · exact Nat.le_trans (h0 ▸ mcap_compactAndGrow lim _) (mcap_compactAndGrow lim _)
    · exact h0 ▸ mcap_compactAndGrow lim _
  · split
    · exact h0 ▸ mcap_compactAndGrow lim _
    · exact Nat.le_refl _

theorem mcap_appendAll (lim : Nat) (s : St) (es : List Entry) : s.mcap ≤ (appendAll lim s es).mcap := by
  induction es generalizing s with
  | nil => exact Nat.le_refl _
  | cons e es ih =>
    simp only [appendAll, List.foldl_cons]
    exact Nat.le_trans (mcap_append lim s e) (ih (append lim s e))

end VecModel.Coo.Runs
