import VecModel.Model.EM
/-
  Helper lemmas for the memory-safety part of C11 / C10: the index-level `em_update_matrix`
  model never fails on valid CSR arrays.  Core Lean only.
-/
namespace VecModel.EM

/-- what scipy guarantees about the CSR arrays handed to the kernel (only the part memory safety
needs: sortedness of the columns inside a row is *not* required) -/
structure ValidCsr (indptr indices : List Nat) (data : List Rat) : Prop where
  len : indices.length = data.length
  mono : indptr.Pairwise (· ≤ ·)
  le : ∀ x ∈ indptr, x ≤ indices.length

/-- what the drivers guarantee about one occurrence: a kernel array per window, as long as the window -/
def Occ.Shaped (o : Occ) : Prop :=
  o.windows.length ≤ o.kernels.length ∧
  ∀ w (hw : w < o.windows.length) (hk : w < o.kernels.length), o.windows[w].length ≤ o.kernels[w].length

theorem searchsorted_le (a : List Nat) (key : Nat) : searchsorted a key ≤ a.length := by
  unfold searchsorted
  exact (List.takeWhile_sublist _).length_le

/-! ### iteration space -/

theorem entriesW_ok (n w : Nat) (ker : List Rat) :
    ∀ (win : List Nat) (i : Nat), i + win.length ≤ ker.length →
      ∃ es, entriesW n w ker win i = .ok es := by
  intro win
  induction win with
  | nil => intro i _; exact ⟨[], rfl⟩
  | cons ctx rest ih =>
    intro i h
    have hi : i < ker.length := by simp at h; omega
    obtain ⟨tl, htl⟩ := ih (i + 1) (by simp at h; omega)
    exact ⟨(ctx + w * n, ker[i]) :: tl, by simp [entriesW, rd_ok hi, htl, Except.bind]⟩

theorem entries_ok (n : Nat) (kernels : List (List Rat)) :
    ∀ (windows : List (List Nat)) (w : Nat),
      w + windows.length ≤ kernels.length →
      (∀ j (hj : j < windows.length) (hk : w + j < kernels.length),
        windows[j].length ≤ kernels[w + j].length) →
      ∃ es, entries n kernels windows w = .ok es := by
  intro windows
  induction windows with
  | nil => intro w _ _; exact ⟨[], rfl⟩
  | cons win rest ih =>
    intro w hlen hsh
    have hw : w < kernels.length := by simp at hlen; omega
    have h0 := hsh 0 (by simp) (by simpa using hw)
    obtain ⟨a, ha⟩ := entriesW_ok n w kernels[w] win 0 (by simpa using h0)
    obtain ⟨b, hb⟩ := ih (w + 1) (by simp at hlen; omega) (by
      intro j hj hk
      have := hsh (j + 1) (by simpa using hj) (by omega)
      simpa [Nat.add_assoc, Nat.add_comm 1 j] using this)
    exact ⟨a ++ b, by simp [entries, rd_ok hw, ha, hb, Except.bind]⟩

/-! ### E-step -/

/-- result shape of one lookup: the position never exceeds the slice, and a non-zero weight
comes with a position inside the slice -/
def LookOK (len : Nat) (x : Nat × Rat) : Prop := x.1 ≤ len ∧ (x.2 ≠ 0 → x.1 < len)

theorem lookupIdx_ok (colInd : List Nat) (lo : Nat) (data : List Rat) (e : Nat × Rat)
    (h : lo + colInd.length ≤ data.length) :
    ∃ x, lookupIdx colInd lo data e = .ok x ∧ LookOK colInd.length x := by
  unfold lookupIdx
  by_cases hk : e.2 > 0
  · simp only [hk, if_true]
    by_cases hp : searchsorted colInd e.1 < colInd.length
    · simp only [hp, if_true, rd_ok hp, Except.bind]
      by_cases hc : colInd[searchsorted colInd e.1] = e.1
      · have hd : lo + searchsorted colInd e.1 < data.length := by omega
        simp only [hc, if_true, rd_ok hd]
        exact ⟨_, rfl, by simp [LookOK]; omega⟩
      · simp only [hc, if_false]
        exact ⟨_, rfl, by simp [LookOK]; omega⟩
    · simp only [hp, if_false]
      exact ⟨_, rfl, by simp [LookOK]; exact searchsorted_le _ _⟩
  · simp only [hk, if_false]
    exact ⟨_, rfl, by simp [LookOK]⟩

theorem eStepIdx_ok (colInd : List Nat) (lo : Nat) (data : List Rat)
    (h : lo + colInd.length ≤ data.length) :
    ∀ es : List (Nat × Rat), ∃ lk, eStepIdx colInd lo data es = .ok lk ∧
      lk.length = es.length ∧ ∀ x ∈ lk, LookOK colInd.length x := by
  intro es
  induction es with
  | nil => exact ⟨[], rfl, rfl, by simp⟩
  | cons e es ih =>
    obtain ⟨x, hx, hxo⟩ := lookupIdx_ok colInd lo data e h
    obtain ⟨xs, hxs, hl, hall⟩ := ih
    refine ⟨x :: xs, by simp [eStepIdx, hx, hxs, Except.bind], by simp [hl], ?_⟩
    intro y hy
    rcases List.mem_cons.mp hy with rfl | hy
    · exact hxo
    · exact hall y hy

theorem Rat.zero_div' (t : Rat) : (0 : Rat) / t = 0 := by
  rw [Rat.div_def, Rat.zero_mul]

theorem normPost_ok (len : Nat) (lk : List (Nat × Rat)) (h : ∀ x ∈ lk, LookOK len x) :
    ∀ x ∈ normPost lk, LookOK len x := by
  simp only [normPost]
  split
  · intro x hx
    obtain ⟨y, hy, rfl⟩ := List.mem_map.mp hx
    have := h y hy
    refine ⟨this.1, ?_⟩
    intro hne
    apply this.2
    intro h0
    apply hne
    simp only [h0]
    exact Rat.zero_div' _
  · exact h

/-! ### M-step -/

theorem addAtIdx_ok (name : String) (a : List Rat) (i : Nat) (v : Rat) (h : i < a.length) :
    ∃ b, addAtIdx name a i v = .ok b ∧ b.length = a.length := by
  unfold addAtIdx
  rw [if_pos h]
  exact ⟨_, rfl, by simp⟩

theorem mStepIdx_ok (lo len : Nat) :
    ∀ (lk : List (Nat × Rat)) (post : List Rat), lo + len ≤ post.length →
      (∀ x ∈ lk, LookOK len x) →
      ∃ r, mStepIdx lo lk post = .ok r ∧ r.length = post.length := by
  intro lk
  induction lk with
  | nil => intro post _ _; exact ⟨post, rfl, rfl⟩
  | cons x xs ih =>
    intro post hlen hall
    have hx := hall x (by simp)
    have hxs : ∀ y ∈ xs, LookOK len y := fun y hy => hall y (by simp [hy])
    unfold mStepIdx
    by_cases hv : x.2 > 0
    · have hne : x.2 ≠ 0 := by
        intro h0; rw [h0] at hv; exact absurd hv (by decide)
      have hp := hx.2 hne
      obtain ⟨b, hb, hbl⟩ := addAtIdx_ok "posterior_data" post (lo + x.1) x.2 (by omega)
      obtain ⟨r, hr, hrl⟩ := ih b (by omega) hxs
      exact ⟨r, by simp [hv, hb, hr, Except.bind], by omega⟩
    · obtain ⟨r, hr, hrl⟩ := ih post hlen hxs
      exact ⟨r, by simp [hv, hr], hrl⟩

/-! ### the kernel -/

theorem pairwise_getElem_le {l : List Nat} (h : l.Pairwise (· ≤ ·)) {i j : Nat} (hij : i ≤ j)
    (hj : j < l.length) : l[i]'(by omega) ≤ l[j] := by
  by_cases he : i = j
  · subst he; exact Nat.le_refl _
  · exact List.pairwise_iff_getElem.mp h i j (by omega) hj (by omega)

theorem emUpdateIdx_ok (indptr indices : List Nat) (data : List Rat) (n : Nat) (post : List Rat)
    (o : Occ) (hv : ValidCsr indptr indices data) (hp : post.length = data.length)
    (ht : o.target + 1 < indptr.length) (hs : o.Shaped) :
    ∃ r, emUpdateIdx indptr indices data n post o = .ok r ∧ r.length = post.length := by
  unfold emUpdateIdx
  have ht0 : o.target < indptr.length := by omega
  have hlo_hi : indptr[o.target] ≤ indptr[o.target + 1] := pairwise_getElem_le hv.mono (by omega) ht
  have hhi : indptr[o.target + 1] ≤ indices.length := hv.le _ (List.getElem_mem ht)
  simp only [rd_ok ht0, rd_ok ht, Except.bind]
  obtain ⟨es, hes⟩ := entries_ok n o.kernels o.windows 0 (by simpa using hs.1)
    (by intro j hj hk; simpa using hs.2 j hj (by simpa using hk))
  simp only [hes]
  have hcl : ((indices.drop indptr[o.target]).take (indptr[o.target + 1] - indptr[o.target])).length
      = indptr[o.target + 1] - indptr[o.target] := by
    simp; omega
  have hd : indptr[o.target] +
      ((indices.drop indptr[o.target]).take (indptr[o.target + 1] - indptr[o.target])).length
        ≤ data.length := by
    rw [hcl, ← hv.len]; omega
  obtain ⟨lk, hlk, _, hall⟩ := eStepIdx_ok _ indptr[o.target] data hd es
  simp only [hlk]
  exact mStepIdx_ok indptr[o.target] _ (normPost lk) post (by rw [hp]; exact hd)
    (normPost_ok _ lk hall)

theorem emIterIdxFrom_ok (indptr indices : List Nat) (data : List Rat) (n : Nat)
    (hv : ValidCsr indptr indices data) :
    ∀ (occs : List Occ) (post : List Rat), post.length = data.length →
      (∀ o ∈ occs, o.target + 1 < indptr.length ∧ o.Shaped) →
      ∃ r, emIterIdxFrom indptr indices data n occs post = .ok r ∧ r.length = data.length := by
  intro occs
  induction occs with
  | nil => intro post hp _; exact ⟨post, rfl, hp⟩
  | cons o os ih =>
    intro post hp hall
    obtain ⟨ht, hs⟩ := hall o (by simp)
    obtain ⟨r, hr, hrl⟩ := emUpdateIdx_ok indptr indices data n post o hv hp ht hs
    obtain ⟨r', hr', hrl'⟩ := ih r (by omega) (fun o' ho' => hall o' (by simp [ho']))
    exact ⟨r', by simp [emIterIdxFrom, hr, hr', Except.bind], hrl'⟩

/-! ### frame: only the target row's slice of `posterior_data` is written -/

theorem addAtIdx_frame (name : String) (a : List Rat) (j : Nat) (v : Rat) (b : List Rat)
    (h : addAtIdx name a j v = .ok b) (i : Nat) (hi : i ≠ j) : b[i]? = a[i]? := by
  unfold addAtIdx at h
  split at h
  · injection h with h; subst h
    rw [List.getElem?_modify]
    simp [Ne.symm hi]
  · exact absurd h (by simp)

theorem mStepIdx_frame (lo len : Nat) :
    ∀ (lk : List (Nat × Rat)) (post r : List Rat), (∀ x ∈ lk, LookOK len x) →
      mStepIdx lo lk post = .ok r → ∀ i, (i < lo ∨ lo + len ≤ i) → r[i]? = post[i]? := by
  intro lk
  induction lk with
  | nil => intro post r _ h i _; simp [mStepIdx] at h; rw [h]
  | cons x xs ih =>
    intro post r hall h i hi
    have hx := hall x (by simp)
    have hxs : ∀ y ∈ xs, LookOK len y := fun y hy => hall y (by simp [hy])
    unfold mStepIdx at h
    by_cases hv : x.2 > 0
    · rw [if_pos hv] at h
      cases hb : addAtIdx "posterior_data" post (lo + x.1) x.2 with
      | error e => rw [hb] at h; exact absurd h (by simp [Except.bind])
      | ok b =>
        rw [hb] at h
        have hne : x.2 ≠ 0 := by
          intro h0; rw [h0] at hv; exact absurd hv (by decide)
        have hp := hx.2 hne
        rw [ih b r hxs h i hi]
        exact addAtIdx_frame _ post _ _ b hb i (by omega)
    · rw [if_neg hv] at h
      exact ih post r hxs h i hi

/-- shape of a successful lookup, whatever the arrays are -/
theorem lookupIdx_shape (colInd : List Nat) (lo : Nat) (data : List Rat) (e x : Nat × Rat)
    (h : lookupIdx colInd lo data e = .ok x) : LookOK colInd.length x := by
  have hle := searchsorted_le colInd e.1
  simp only [lookupIdx] at h
  split at h
  · split at h
    · rename_i hpos
      rw [rd_ok hpos] at h
      simp only [Except.bind] at h
      split at h
      · cases hd : rd "prior_data" data (lo + searchsorted colInd e.1) with
        | error _ => rw [hd] at h; exact absurd h (by simp)
        | ok d =>
          rw [hd] at h
          simp only [Except.ok.injEq] at h
          subst h
          exact ⟨hle, fun _ => hpos⟩
      · simp only [Except.ok.injEq] at h
        subst h
        exact ⟨hle, fun _ => hpos⟩
    · simp only [Except.ok.injEq] at h
      subst h
      exact ⟨hle, fun h => absurd rfl h⟩
  · simp only [Except.ok.injEq] at h
    subst h
    exact ⟨Nat.zero_le _, fun h => absurd rfl h⟩

theorem eStepIdx_shape (colInd : List Nat) (lo : Nat) (data : List Rat) :
    ∀ (es lk : List (Nat × Rat)), eStepIdx colInd lo data es = .ok lk →
      ∀ x ∈ lk, LookOK colInd.length x := by
  intro es
  induction es with
  | nil => intro lk h; simp [eStepIdx] at h; subst h; simp
  | cons e es ih =>
    intro lk h
    unfold eStepIdx at h
    cases hx : lookupIdx colInd lo data e with
    | error _ => rw [hx] at h; exact absurd h (by simp [Except.bind])
    | ok x =>
      rw [hx] at h
      cases hxs : eStepIdx colInd lo data es with
      | error _ => rw [hxs] at h; exact absurd h (by simp [Except.bind])
      | ok xs =>
        rw [hxs] at h
        simp only [Except.bind, Except.ok.injEq] at h
        subst h
        intro y hy
        rcases List.mem_cons.mp hy with rfl | hy
        · exact lookupIdx_shape colInd lo data e _ hx
        · exact ih xs hxs y hy

/-- **row credit at index level**: a successful kernel call changes `posterior_data` only inside
`[indptr[target], indptr[target+1])`. -/
theorem emUpdateIdx_frame (indptr indices : List Nat) (data : List Rat) (n : Nat) (post r : List Rat)
    (o : Occ) (h : emUpdateIdx indptr indices data n post o = .ok r) (lo hi : Nat)
    (hlo : indptr[o.target]? = some lo) (hhi : indptr[o.target + 1]? = some hi) :
    ∀ i, (i < lo ∨ hi ≤ i) → r[i]? = post[i]? := by
  intro i hi'
  unfold emUpdateIdx rd at h
  rw [hlo, hhi] at h
  simp only [Except.bind] at h
  cases hes : entries n o.kernels o.windows 0 with
  | error e => rw [hes] at h; exact absurd h (by simp)
  | ok es =>
    rw [hes] at h
    simp only at h
    cases hlk : eStepIdx ((indices.drop lo).take (hi - lo)) lo data es with
    | error e => rw [hlk] at h; exact absurd h (by simp)
    | ok lk =>
      rw [hlk] at h
      simp only at h
      have hall := eStepIdx_shape _ lo data es lk hlk
      have hlen : ((indices.drop lo).take (hi - lo)).length ≤ hi - lo := by
        simp only [List.length_take]; omega
      refine mStepIdx_frame lo _ (normPost lk) post r (normPost_ok _ lk hall) h i ?_
      omega

/-! ### the CSR arrays of a row-structured matrix are valid -/

theorem indptrFrom_length (s : Nat) (M : Mat) : (indptrFrom s M).length = M.length + 1 := by
  induction M generalizing s with
  | nil => rfl
  | cons row rest ih => simp [indptrFrom, ih]

theorem indptrFrom_bounds (s : Nat) (M : Mat) :
    ∀ x ∈ indptrFrom s M, s ≤ x ∧ x ≤ s + M.flatten.length := by
  induction M generalizing s with
  | nil => intro x hx; simp [indptrFrom] at hx; subst hx; simp
  | cons row rest ih =>
    intro x hx
    simp only [indptrFrom, List.mem_cons] at hx
    rcases hx with rfl | hx
    · simp
    · have := ih (s + row.length) x hx
      simp only [List.flatten_cons, List.length_append]
      omega

theorem indptrFrom_pairwise (s : Nat) (M : Mat) : (indptrFrom s M).Pairwise (· ≤ ·) := by
  induction M generalizing s with
  | nil => simp [indptrFrom]
  | cons row rest ih =>
    simp only [indptrFrom, List.pairwise_cons]
    refine ⟨?_, ih _⟩
    intro x hx
    have := indptrFrom_bounds (s + row.length) rest x hx
    omega

theorem validCsr_of (M : Mat) : ValidCsr (indptrOf M) (indicesOf M) (dataOf M) where
  len := by simp only [indicesOf, dataOf, List.length_map]
  mono := indptrFrom_pairwise 0 M
  le := by
    intro x hx
    have := indptrFrom_bounds 0 M x hx
    simp only [indicesOf, List.length_map]; omega

/-! ### radius table -/

theorem radiusLookup_ok (table : List (List Nat)) (w t : Nat) (hw : w < table.length)
    (ht : t < table[w].length) : radiusLookup table w t = .ok (table[w][t]) := by
  simp [radiusLookup, rd_ok hw, rd_ok ht, Except.bind]

theorem radiusLookups_ok (table : List (List Nat)) (len : Nat)
    (hrow : ∀ row ∈ table, row.length = len) :
    ∀ qs : List (Nat × Nat), (∀ q ∈ qs, q.1 < table.length ∧ q.2 < len) →
      ∃ rs, radiusLookups table qs = .ok rs ∧ rs.length = qs.length := by
  intro qs
  induction qs with
  | nil => intro _; exact ⟨[], rfl, rfl⟩
  | cons q qs ih =>
    intro h
    obtain ⟨hw, ht⟩ := h q (by simp)
    have hl : table[q.1].length = len := hrow _ (List.getElem_mem hw)
    obtain ⟨rs, hrs, hlen⟩ := ih (fun q' hq' => h q' (by simp [hq']))
    exact ⟨table[q.1][q.2] :: rs, by simp [radiusLookups, radiusLookup_ok table q.1 q.2 hw (by omega), hrs, Except.bind],
      by simp [hlen]⟩

end VecModel.EM
