import VecModel.Model.InfoWeight
/-
  Helper lemmas for C17, discrete part (core Lean only): the binary search.
  The analysis over ℝ is in Lemmas/InfoWeightReal.lean.
-/
namespace VecModel.IW

/-- strictly increasing index array -/
def StrictInc (l : List Nat) : Prop := l.Pairwise (· < ·)

theorem sorted_getElem {a : List Nat} (h : a.Pairwise (· ≤ ·)) {i j : Nat} (hij : i ≤ j)
    (hj : j < a.length) : a[i]'(by omega) ≤ a[j] := by
  rcases Nat.lt_or_eq_of_le hij with hlt | rfl
  · exact (List.pairwise_iff_getElem.mp h) i j (by omega) hj hlt
  · exact Nat.le_refl _

/-- invariant of the binary search: everything left of `lo` is `< v`, everything from `hi` on is `≥ v` -/
theorem ssLoop_spec (a : List Nat) (v : Nat) (hs : a.Pairwise (· ≤ ·)) :
    ∀ (fuel lo hi : Nat), hi - lo ≤ fuel → lo ≤ hi → hi ≤ a.length →
      (∀ i (h : i < a.length), i < lo → a[i] < v) →
      (∀ i (h : i < a.length), hi ≤ i → v ≤ a[i]) →
      ∃ r, ssLoop a v fuel lo hi = .ok r ∧ r ≤ a.length ∧
        (∀ i (h : i < a.length), i < r → a[i] < v) ∧
        (∀ i (h : i < a.length), r ≤ i → v ≤ a[i]) := by
  intro fuel
  induction fuel with
  | zero =>
    intro lo hi hf hle hhi hP hQ
    have : lo = hi := by omega
    subst this
    exact ⟨lo, by simp [ssLoop], hhi, hP, hQ⟩
  | succ fuel ih =>
    intro lo hi hf hle hhi hP hQ
    unfold ssLoop
    by_cases hlt : lo < hi
    · rw [if_pos hlt]
      have hmid : (lo + hi) / 2 < a.length := by omega
      simp only []
      rw [rd_ok hmid]
      simp only [bind, Except.bind]
      by_cases hc : a[(lo + hi) / 2] < v
      · rw [if_pos hc]
        apply ih ((lo + hi) / 2 + 1) hi (by omega) (by omega) hhi _ hQ
        intro i hi' hlt'
        have := sorted_getElem hs (i := i) (j := (lo + hi) / 2) (by omega) hmid
        omega
      · rw [if_neg hc]
        apply ih lo ((lo + hi) / 2) (by omega) (by omega) (by omega) hP
        intro i hi' hge
        have := sorted_getElem hs (i := (lo + hi) / 2) (j := i) hge hi'
        omega
    · rw [if_neg hlt]
      have : lo = hi := by omega
      subst this
      exact ⟨lo, rfl, hhi, hP, hQ⟩

theorem searchsorted_spec (a : List Nat) (v : Nat) (hs : a.Pairwise (· ≤ ·)) :
    ∃ r, searchsorted a v = .ok r ∧ r ≤ a.length ∧
      (∀ i (h : i < a.length), i < r → a[i] < v) ∧
      (∀ i (h : i < a.length), r ≤ i → v ≤ a[i]) :=
  ssLoop_spec a v hs a.length 0 a.length (by omega) (by omega) (by omega)
    (fun i _ h => by omega) (fun i h h' => by omega)

theorem strictInc_sorted {a : List Nat} (h : StrictInc a) : a.Pairwise (· ≤ ·) :=
  List.Pairwise.imp (fun h => Nat.le_of_lt h) h


/-- on a sorted duplicate-free array the search returns the position of every element -/
theorem searchsorted_getElem (a : List Nat) (hs : StrictInc a) (k : Nat) (hk : k < a.length) :
    searchsorted a a[k] = .ok k := by
  obtain ⟨r, hr, hle, hP, hQ⟩ := searchsorted_spec a a[k] (strictInc_sorted hs)
  rw [hr]
  have h1 : ¬ k < r := fun h => by have := hP k hk h; omega
  have h2 : ¬ r < k := fun h => by
    have := hQ r (by omega) (Nat.le_refl r)
    have := (List.pairwise_iff_getElem.mp hs) r k (by omega) hk h
    omega
  have : r = k := by omega
  rw [this]

end VecModel.IW
