import VecModel.Model.Heap
namespace VecModel.Heap

theorem Heap.get_set_ne (h : Heap) (i j : Nat) (o : Obj) (hne : j ≠ i) :
    (h.set i o).get j = h.get j := by
  unfold Heap.get Heap.set
  simp only [List.find?_cons]
  have : ((i, o).1 == j) = false := by simp; exact fun h => hne h.symm
  rw [this]

theorem Heap.get_set_eq (h : Heap) (i : Nat) (o : Obj) : (h.set i o).get i = some o := by
  unfold Heap.get Heap.set
  simp

theorem Heap.get_alloc_ne (h : Heap) (o : Obj) (j : Nat) (hne : j ≠ h.next) :
    (h.alloc o).1.get j = h.get j := by
  unfold Heap.get Heap.alloc
  simp only [List.find?_cons]
  have : ((h.next, o).1 == j) = false := by simp; exact fun h' => hne h'.symm
  rw [this]

theorem Heap.get_alloc_eq (h : Heap) (o : Obj) : (h.alloc o).1.get h.next = some o := by
  unfold Heap.get Heap.alloc
  simp

theorem reg_cons_ne (regs : List (Nat × Nat)) (h' : Heap) (dst r : Nat) (j : Nat) (hne : r ≠ dst) :
    ({ heap := h', regs := (dst, j) :: regs } : St).reg r = (regs.find? (·.1 == r)).map (·.2) := by
  unfold St.reg
  simp only [List.find?_cons]
  have : ((dst, j).1 == r) = false := by simp; exact fun h => hne h.symm
  rw [this]

theorem reg_cons_eq (regs : List (Nat × Nat)) (h' : Heap) (dst : Nat) (j : Nat) :
    ({ heap := h', regs := (dst, j) :: regs } : St).reg dst = some j := by
  unfold St.reg
  simp

/-- invariant of a disciplined run started with `n0` caller objects: ids below `n0` are the
caller's, every id in use is below `next`, bound registers point at live objects, private
registers point at objects allocated by the run itself, and caller objects are untouched. -/
structure Inv (n0 : Nat) (s0 s : St) (bound priv : List Nat) : Prop where
  next_ge : n0 ≤ s.heap.next
  bound_ok : ∀ r ∈ bound, ∃ j o, s.reg r = some j ∧ s.heap.get j = some o ∧ j < s.heap.next
  priv_fresh : ∀ r ∈ priv, ∃ j, s.reg r = some j ∧ n0 ≤ j
  frame : ∀ i, i < n0 → s.heap.get i = s0.heap.get i

theorem mutate_inv {n0 : Nat} {s0 s : St} {bound priv : List Nat} (hinv : Inv n0 s0 s bound priv)
    (r : Nat) (hr : r ∈ priv) (f : Obj → Obj) : Inv n0 s0 (mutate s r f) bound priv := by
  obtain ⟨j, hj, hge⟩ := hinv.priv_fresh r hr
  unfold mutate
  rw [hj]
  simp only
  cases hg : s.heap.get j with
  | none => exact hinv
  | some o =>
    simp only
    refine ⟨hinv.next_ge, ?_, hinv.priv_fresh, ?_⟩
    · intro r' hr'
      obtain ⟨j', o', h1, h2, h3⟩ := hinv.bound_ok r' hr'
      by_cases hjj : j' = j
      · subst hjj
        exact ⟨j', f o, h1, Heap.get_set_eq _ _ _, h3⟩
      · exact ⟨j', o', h1, by rw [Heap.get_set_ne _ _ _ _ hjj]; exact h2, h3⟩
    · intro i hi
      show (s.heap.set j (f o)).get i = _
      rw [Heap.get_set_ne _ _ _ _ (by omega)]
      exact hinv.frame i hi

theorem exec_inv {n0 : Nat} {s0 s : St} :
    ∀ (c : Cmd) (rest : List Cmd) (bound priv : List Nat), Inv n0 s0 s bound priv →
      disciplined bound priv (c :: rest) = true →
      ∃ bound' priv', Inv n0 s0 (exec s c) bound' priv' ∧ disciplined bound' priv' rest = true := by
  intro c rest bound priv hinv hd
  cases c with
  | copy src dst =>
    simp only [disciplined, Bool.and_eq_true, List.contains_iff_mem] at hd
    obtain ⟨hsrc, hrest⟩ := hd
    obtain ⟨i, o, hi, ho, hlt⟩ := hinv.bound_ok src hsrc
    refine ⟨dst :: bound, dst :: priv, ?_, hrest⟩
    simp only [exec, hi, ho]
    have hnext : (s.heap.alloc o).1.next = s.heap.next + 1 := rfl
    refine ⟨by rw [hnext]; have := hinv.next_ge; omega, ?_, ?_, ?_⟩
    · intro r hr
      by_cases hrd : r = dst
      · subst hrd
        exact ⟨s.heap.next, o, reg_cons_eq _ _ _ _, Heap.get_alloc_eq _ _, by rw [hnext]; omega⟩
      · have hrb : r ∈ bound := by
          rcases List.mem_cons.mp hr with h | h
          · exact absurd h hrd
          · exact h
        obtain ⟨j, o', h1, h2, h3⟩ := hinv.bound_ok r hrb
        refine ⟨j, o', ?_, ?_, by rw [hnext]; omega⟩
        · rw [reg_cons_ne _ _ _ _ _ hrd]; exact h1
        · rw [Heap.get_alloc_ne _ _ _ (by omega)]; exact h2
    · intro r hr
      by_cases hrd : r = dst
      · subst hrd
        exact ⟨s.heap.next, reg_cons_eq _ _ _ _, hinv.next_ge⟩
      · have hrp : r ∈ priv := by
          rcases List.mem_cons.mp hr with h | h
          · exact absurd h hrd
          · exact h
        obtain ⟨j, h1, h2⟩ := hinv.priv_fresh r hrp
        exact ⟨j, by rw [reg_cons_ne _ _ _ _ _ hrd]; exact h1, h2⟩
    · intro i' hi'
      show (s.heap.alloc o).1.get i' = _
      rw [Heap.get_alloc_ne _ _ _ (by have := hinv.next_ge; omega)]
      exact hinv.frame i' hi'
  | alias src dst =>
    simp only [disciplined, Bool.and_eq_true, List.contains_iff_mem] at hd
    obtain ⟨hsrc, hrest⟩ := hd
    obtain ⟨i, o, hi, ho, hlt⟩ := hinv.bound_ok src hsrc
    refine ⟨dst :: bound, _, ?_, hrest⟩
    simp only [exec, hi]
    refine ⟨hinv.next_ge, ?_, ?_, hinv.frame⟩
    · intro r hr
      by_cases hrd : r = dst
      · subst hrd
        exact ⟨i, o, reg_cons_eq _ _ _ _, ho, hlt⟩
      · have hrb : r ∈ bound := by
          rcases List.mem_cons.mp hr with h | h
          · exact absurd h hrd
          · exact h
        obtain ⟨j, o', h1, h2, h3⟩ := hinv.bound_ok r hrb
        exact ⟨j, o', by rw [reg_cons_ne _ _ _ _ _ hrd]; exact h1, h2, h3⟩
    · intro r hr
      by_cases hps : src ∈ priv
      · rw [if_pos hps] at hr
        by_cases hrd : r = dst
        · subst hrd
          obtain ⟨j, h1, h2⟩ := hinv.priv_fresh src hps
          rw [hi] at h1
          injection h1 with h1
          subst h1
          exact ⟨i, reg_cons_eq _ _ _ _, h2⟩
        · have hrp : r ∈ priv := by
            rcases List.mem_cons.mp hr with h | h
            · exact absurd h hrd
            · exact h
          obtain ⟨j, h1, h2⟩ := hinv.priv_fresh r hrp
          exact ⟨j, by rw [reg_cons_ne _ _ _ _ _ hrd]; exact h1, h2⟩
      · rw [if_neg hps] at hr
        have hmem := List.mem_filter.mp hr
        have hrd : r ≠ dst := by simpa using hmem.2
        obtain ⟨j, h1, h2⟩ := hinv.priv_fresh r hmem.1
        exact ⟨j, by rw [reg_cons_ne _ _ _ _ _ hrd]; exact h1, h2⟩
  | delKey r k =>
    simp only [disciplined, Bool.and_eq_true, List.contains_iff_mem] at hd
    exact ⟨bound, priv, mutate_inv hinv r hd.1 _, hd.2⟩
  | setKeyLen r k =>
    simp only [disciplined, Bool.and_eq_true, List.contains_iff_mem] at hd
    exact ⟨bound, priv, mutate_inv hinv r hd.1 _, hd.2⟩
  | divAll r c =>
    simp only [disciplined, Bool.and_eq_true, List.contains_iff_mem] at hd
    exact ⟨bound, priv, mutate_inv hinv r hd.1 _, hd.2⟩
  | sortInPlace r =>
    simp only [disciplined, Bool.and_eq_true, List.contains_iff_mem] at hd
    exact ⟨bound, priv, mutate_inv hinv r hd.1 _, hd.2⟩

theorem run_inv {n0 : Nat} {s0 : St} :
    ∀ (prog : List Cmd) (s : St) (bound priv : List Nat), Inv n0 s0 s bound priv →
      disciplined bound priv prog = true →
      ∀ i, i < n0 → (run s prog).heap.get i = s0.heap.get i := by
  intro prog
  induction prog with
  | nil => intro s _ _ hinv _ i hi; exact hinv.frame i hi
  | cons c rest ih =>
    intro s bound priv hinv hd i hi
    obtain ⟨b', p', hinv', hd'⟩ := exec_inv c rest bound priv hinv hd
    show (run (exec s c) rest).heap.get i = _
    exact ih (exec s c) b' p' hinv' hd' i hi

/-! ### file-system lemmas -/

/-- ops that only ever touch paths under `d` -/
def onlyUnder (d : String) : FsOp → Bool
  | .mkdtemp p | .create p | .remove p => isUnder d p
  | .rmtree p => p == d
  | .work => true

theorem isUnder_self (d : String) : isUnder d d = true := by simp [isUnder]

theorem fsExec_outside (d : String) (op : FsOp) (hop : onlyUnder d op = true) (fs : FS) :
    (fsExec fs op).paths.filter (fun p => !isUnder d p) = fs.paths.filter (fun p => !isUnder d p) := by
  cases op with
  | mkdtemp p => simp [fsExec, List.filter_cons, onlyUnder] at *; simp [hop]
  | create p => simp [fsExec, List.filter_cons, onlyUnder] at *; simp [hop]
  | remove p =>
    simp only [fsExec, onlyUnder] at *
    rw [List.filter_filter]
    apply List.filter_congr
    intro q _
    by_cases hq : isUnder d q = true
    · simp [hq]
    · have : q ≠ p := by
        intro h; subst h; exact hq hop
      simp [hq, this]
  | rmtree p =>
    simp only [fsExec, onlyUnder, beq_iff_eq] at *
    subst hop
    rw [List.filter_filter]
    apply List.filter_congr
    intro q _
    simp
  | work => rfl

theorem foldl_outside (d : String) :
    ∀ (ops : List FsOp) (fs : FS), (∀ op ∈ ops, onlyUnder d op = true) →
      (ops.foldl fsExec fs).paths.filter (fun p => !isUnder d p) =
        fs.paths.filter (fun p => !isUnder d p) := by
  intro ops
  induction ops with
  | nil => intro fs _; rfl
  | cons op rest ih =>
    intro fs h
    simp only [List.foldl_cons]
    rw [ih _ (fun o ho => h o (by simp [ho])), fsExec_outside d op (h op (by simp))]

theorem foldl_rmtree_clean (d : String) (ops : List FsOp) (fs : FS)
    (h : ∀ op ∈ ops, onlyUnder d op = true)
    (hfresh : ∀ p ∈ fs.paths, isUnder d p = false) :
    (ops ++ [FsOp.rmtree d]).foldl fsExec fs = fs := by
  rw [List.foldl_append]
  simp only [List.foldl_cons, List.foldl_nil, fsExec]
  have := foldl_outside d ops fs h
  cases fs with
  | mk paths =>
    simp only at *
    congr 1
    rw [this]
    apply List.filter_eq_self.mpr
    intro p hp
    simp [hfresh p hp]

end VecModel.Heap
