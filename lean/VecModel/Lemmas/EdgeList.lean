import VecModel.Model.EdgeList
import VecModel.Lemmas.CountsBase
/- Helper lemmas for the edge-list part of Props/C06 (and C01). Core Lean only. -/
namespace VecModel.EdgeList
open VecModel.Counts

/-! ### learned dictionaries -/

theorem mem_insertSorted {x y : Int} {l : List Int} : y ∈ insertSorted x l ↔ y = x ∨ y ∈ l := by
  induction l with
  | nil => simp [insertSorted]
  | cons z zs ih =>
    unfold insertSorted
    split
    · simp
    · split
      · rename_i h; subst h; simp
      · simp only [List.mem_cons, ih]
        constructor
        · rintro (h | h | h) <;> simp [h]
        · rintro (h | h | h) <;> simp [h]

theorem mem_sortedUnique {y : Int} {l : List Int} : y ∈ sortedUnique l ↔ y ∈ l := by
  induction l with
  | nil => simp [sortedUnique]
  | cons x xs ih =>
    simp only [sortedUnique, List.foldr_cons] at *
    rw [mem_insertSorted, ih]
    simp

theorem lookup_enumFrom {l : List Int} {s : Nat} {y : Int} {i : Nat}
    (h : lookup (enumFrom s l) y = some i) : s ≤ i ∧ l[i - s]? = some y := by
  induction l generalizing s with
  | nil => simp [enumFrom, lookup] at h
  | cons x xs ih =>
    simp only [enumFrom, lookup_cons] at h
    split at h
    · rename_i hx; cases h; subst hx; simp
    · have := ih h
      have e : i - s = (i - (s + 1)) + 1 := by omega
      rw [e]
      exact ⟨by omega, by simpa using this.2⟩

theorem lookup_enumFrom_isSome {l : List Int} {s : Nat} {y : Int} (h : y ∈ l) :
    (lookup (enumFrom s l) y).isSome := by
  induction l generalizing s with
  | nil => simp at h
  | cons x xs ih =>
    simp only [enumFrom, lookup_cons]
    split
    · rfl
    · rename_i hx
      rcases List.mem_cons.mp h with h | h
      · exact absurd h.symm hx
      · exact ih h

theorem learn_isSome {L : List Int} {y : Int} (h : y ∈ L) : (lookup (learn L) y).isSome :=
  lookup_enumFrom_isSome (mem_sortedUnique.mpr h)

theorem learn_inj {L : List Int} {x y : Int} {i : Nat}
    (hx : lookup (learn L) x = some i) (hy : lookup (learn L) y = some i) : x = y := by
  have h1 := (lookup_enumFrom hx).2
  have h2 := (lookup_enumFrom hy).2
  rw [h1] at h2
  exact Option.some.inj h2

/-! ### the pivot -/

/-- what the pivot stores at `(ri, ci)`: the values of the edges whose labels map there -/
def pivotSum (rd cd : List (Int × Nat)) : List Edge → Nat → Nat → Rat
  | [], _, _ => 0
  | e :: es, ri, ci =>
    (if lookup rd e.1 = some ri ∧ lookup cd e.2.1 = some ci then e.2.2 else 0) + pivotSum rd cd es ri ci

theorem pivot_spec (rd cd : List (Int × Nat)) (chkR chkC : Bool) : ∀ (E : List Edge),
    (chkR = false → ∀ e ∈ E, (lookup rd e.1).isSome) →
    (chkC = false → ∀ e ∈ E, (lookup cd e.2.1).isSome) →
    ∃ es, pivot rd cd chkR chkC E = .ok es ∧
      (∀ ri ci, cell es ri ci = pivotSum rd cd E ri ci) ∧
      (∀ x ∈ es, (∃ k, lookup rd k = some x.1) ∧ (∃ k, lookup cd k = some x.2.1)) := by
  intro E
  induction E with
  | nil => intro _ _; exact ⟨[], rfl, fun _ _ => rfl, by simp⟩
  | cons e rest ih =>
    intro hR hC
    obtain ⟨more, hmore, hcell, hidx⟩ := ih (fun h x hx => hR h x (List.mem_cons_of_mem _ hx))
      (fun h x hx => hC h x (List.mem_cons_of_mem _ hx))
    unfold pivot
    simp only [hmore]
    cases hr : lookup rd e.1 with
    | none =>
      have : chkR = true := by
        cases chkR with
        | true => rfl
        | false => have := hR rfl e List.mem_cons_self; rw [hr] at this; cases this
      subst this
      refine ⟨more, by simp, ?_, hidx⟩
      intro ri ci
      simp [pivotSum, hr, hcell, Rat.zero_add]
    | some r =>
      cases hc : lookup cd e.2.1 with
      | none =>
        have : chkC = true := by
          cases chkC with
          | true => rfl
          | false => have := hC rfl e List.mem_cons_self; rw [hc] at this; cases this
        subst this
        refine ⟨more, by simp, ?_, hidx⟩
        intro ri ci
        simp [pivotSum, hc, hcell, Rat.zero_add]
      | some c =>
        refine ⟨(r, c, e.2.2) :: more, by simp, ?_, ?_⟩
        · intro ri ci
          simp [pivotSum, cell_cons', hr, hc, hcell]
        · intro x hx
          rcases List.mem_cons.mp hx with hx | hx
          · subst hx; exact ⟨⟨e.1, hr⟩, ⟨e.2.1, hc⟩⟩
          · exact hidx x hx

/-- with injective dictionaries the pivot cell of `(r, c)` is the sum over the edges labelled `(r, c)` -/
theorem pivotSum_eq_edgeSum (rd cd : List (Int × Nat))
    (hri : ∀ x y i, lookup rd x = some i → lookup rd y = some i → x = y)
    (hci : ∀ x y i, lookup cd x = some i → lookup cd y = some i → x = y)
    (r c : Int) (ri ci : Nat) (hr : lookup rd r = some ri) (hc : lookup cd c = some ci) :
    ∀ E, pivotSum rd cd E ri ci = edgeSum E r c := by
  intro E
  induction E with
  | nil => rfl
  | cons e rest ih =>
    simp only [pivotSum, edgeSum, ih]
    congr 1
    by_cases h : e.1 = r ∧ e.2.1 = c
    · simp [h.1, h.2, hr, hc]
    · have : ¬ (lookup rd e.1 = some ri ∧ lookup cd e.2.1 = some ci) := by
        intro hh
        exact h ⟨hri _ _ _ hh.1 hr, hci _ _ _ hh.2 hc⟩
      simp [h, this]

theorem lt_maxPlus1 {l : List Nat} {x : Nat} (h : x ∈ l) : x < maxPlus1 l := by
  induction l with
  | nil => simp at h
  | cons y ys ih =>
    simp only [maxPlus1]
    rcases List.mem_cons.mp h with h | h
    · subst h; omega
    · have := ih h; omega

theorem lookup_mem_values [DecidableEq κ] {d : List (κ × Nat)} {k : κ} {i : Nat} (h : lookup d k = some i) :
    i ∈ d.map (·.2) := by
  induction d with
  | nil => simp [lookup] at h
  | cons p rest ih =>
    obtain ⟨k0, v0⟩ := p
    simp only [lookup_cons] at h
    split at h
    · cases h; simp
    · simp [ih h]

theorem assembleWith_ok (rd cd : List (Int × Nat)) (hr : rd ≠ []) (hc : cd ≠ []) (es : List Entry)
    (hidx : ∀ x ∈ es, (∃ k, lookup rd k = some x.1) ∧ (∃ k, lookup cd k = some x.2.1)) :
    assembleWith rd cd es = .ok ⟨maxPlus1 (rd.map (·.2)), maxPlus1 (cd.map (·.2)), es⟩ := by
  unfold assembleWith dimOf
  cases rd with
  | nil => exact absurd rfl hr
  | cons p ps =>
    cases cd with
    | nil => exact absurd rfl hc
    | cons q qs =>
      simp only
      apply assemble_some_ok
      intro x hx
      obtain ⟨⟨k, hk⟩, ⟨k', hk'⟩⟩ := hidx x hx
      exact ⟨lt_maxPlus1 (lookup_mem_values hk), lt_maxPlus1 (lookup_mem_values hk')⟩


theorem mem_rowLabels {E : List Edge} {e : Edge} (h : e ∈ E) : e.1 ∈ rowLabels E :=
  List.mem_map.mpr ⟨e, h, rfl⟩
theorem mem_colLabels {E : List Edge} {e : Edge} (h : e ∈ E) : e.2.1 ∈ colLabels E :=
  List.mem_map.mpr ⟨e, h, rfl⟩

theorem fitDicts_present {joint : Bool} {rowD colD : Option (List (Int × Nat))} {E : List Edge}
    {rd cd : List (Int × Nat)} {chkR chkC : Bool}
    (h : fitDicts joint rowD colD E = .ok (rd, cd, chkR, chkC)) :
    (chkR = false → ∀ e ∈ E, (lookup rd e.1).isSome) ∧
    (chkC = false → ∀ e ∈ E, (lookup cd e.2.1).isSome) := by
  unfold fitDicts at h
  cases joint <;> cases rowD <;> cases colD <;> simp at h <;> obtain ⟨h1, h2, h3, h4⟩ := h <;>
    subst h1 h2 h3 h4 <;> refine ⟨fun hf e he => ?_, fun hf e he => ?_⟩ <;>
    first
      | (cases hf; done)
      | exact learn_isSome (mem_rowLabels he)
      | exact learn_isSome (mem_colLabels he)
      | exact learn_isSome (List.mem_append_left _ (mem_rowLabels he))
      | exact learn_isSome (List.mem_append_right _ (mem_colLabels he))

theorem fit_spec {joint : Bool} {rowD colD : Option (List (Int × Nat))} {E : List Edge} {m : Fitted}
    (h : fit joint rowD colD E = .ok m) (hr : m.rowDict ≠ []) (hc : m.colDict ≠ []) :
    m.train.nRows = maxPlus1 (m.rowDict.map (·.2)) ∧ m.train.nCols = maxPlus1 (m.colDict.map (·.2)) ∧
    ∀ ri ci, m.train.get ri ci = pivotSum m.rowDict m.colDict E ri ci := by
  unfold fit at h
  cases hd : fitDicts joint rowD colD E with
  | error e => simp [hd] at h
  | ok q =>
    obtain ⟨rd, cd, chkR, chkC⟩ := q
    simp only [hd] at h
    obtain ⟨hR, hC⟩ := fitDicts_present hd
    obtain ⟨es, hes, hcell, hidx⟩ := pivot_spec rd cd chkR chkC E hR hC
    simp only [hes] at h
    cases ha : assembleWith rd cd es with
    | error e => simp [ha] at h
    | ok M =>
      simp only [ha] at h
      cases h
      simp only at hr hc
      rw [assembleWith_ok rd cd hr hc es hidx] at ha
      cases ha
      exact ⟨rfl, rfl, fun ri ci => hcell ri ci⟩

theorem transform_spec (m : Fitted) (hr : m.rowDict ≠ []) (hc : m.colDict ≠ []) (E : List Edge) :
    ∃ M, transform m E = .ok M ∧ M.nRows = maxPlus1 (m.rowDict.map (·.2)) ∧
      M.nCols = maxPlus1 (m.colDict.map (·.2)) ∧
      ∀ ri ci, M.get ri ci = pivotSum m.rowDict m.colDict E ri ci := by
  obtain ⟨es, hes, hcell, hidx⟩ := pivot_spec m.rowDict m.colDict true true E (by simp) (by simp)
  refine ⟨⟨maxPlus1 (m.rowDict.map (·.2)), maxPlus1 (m.colDict.map (·.2)), es⟩, ?_, rfl, rfl,
    fun ri ci => hcell ri ci⟩
  unfold transform
  simp only [hes]
  exact assembleWith_ok m.rowDict m.colDict hr hc es hidx

/-- edges with a label outside the dictionaries do not contribute -/
theorem pivotSum_filter (rd cd : List (Int × Nat)) (ri ci : Nat) : ∀ E : List Edge,
    pivotSum rd cd (E.filter fun e => (lookup rd e.1).isSome && (lookup cd e.2.1).isSome) ri ci =
      pivotSum rd cd E ri ci := by
  intro E
  induction E with
  | nil => rfl
  | cons e rest ih =>
    rw [List.filter_cons]
    split
    · simp only [pivotSum, ih]
    · rename_i hv
      simp only [pivotSum, ih]
      have : ¬ (lookup rd e.1 = some ri ∧ lookup cd e.2.1 = some ci) := by
        intro hh; apply hv; simp [hh.1, hh.2]
      simp [this, Rat.zero_add]


end VecModel.EdgeList
