import VecModel.Model.Tree
/-
  Helper lemmas for C15, node removal: edge set after `remove_node`, reachability.  Core Lean only.
-/
namespace VecModel.Tree

def cols (row : Row) : List Nat := row.map (·.1)

/-- `u → v` is an edge of the LIL matrix (a stored entry in row `u`, column `v`) -/
def HasEdge (L : Lil) (u v : Nat) : Prop := ∃ row, L[u]? = some row ∧ v ∈ cols row

/-- no row stores a column twice (true of every matrix converted from CSR/COO/dense) -/
def NoDupCols (L : Lil) : Prop := ∀ row ∈ L, (cols row).Nodup

/-- every node has at most one predecessor (rooted forests with edges parent → child) -/
def InDeg1 (L : Lil) : Prop := ∀ i j c, HasEdge L i c → HasEdge L j c → i = j

theorem cols_append (a b : Row) : cols (a ++ b) = cols a ++ cols b := by simp [cols]

/-- splitting a row at the first entry of column `x` -/
theorem split_at_colIdx {row : Row} {x k : Nat} (h : colIdx row x = some k) :
    ∃ p, p.1 = x ∧ row = row.take k ++ p :: row.drop (k + 1) := by
  unfold colIdx at h
  obtain ⟨hk, hp, _⟩ := List.findIdx?_eq_some_iff_getElem.mp h
  refine ⟨row[k], by simpa using hp, ?_⟩
  rw [← List.drop_eq_getElem_cons hk, List.take_append_drop]

theorem colIdx_none {row : Row} {x : Nat} (h : colIdx row x = none) : x ∉ cols row := by
  unfold colIdx at h
  have := List.findIdx?_eq_none_iff.mp h
  intro hx
  simp only [cols, List.mem_map] at hx
  obtain ⟨p, hp, e⟩ := hx
  have := this p hp
  simp [e] at this

theorem colIdx_some_mem {row : Row} {x k : Nat} (h : colIdx row x = some k) : x ∈ cols row := by
  obtain ⟨p, hp, e⟩ := split_at_colIdx h
  rw [e, cols_append]
  simp [cols, hp]

/-- with distinct columns, cutting out the entry of column `x` removes exactly `x` -/
theorem mem_cols_cut {row : Row} {x k : Nat} (hnd : (cols row).Nodup) (h : colIdx row x = some k)
    (v : Nat) :
    (v ∈ cols (row.take k) ∨ v ∈ cols (row.drop (k + 1))) ↔ (v ∈ cols row ∧ v ≠ x) := by
  obtain ⟨p, hp, e⟩ := split_at_colIdx h
  have hc : cols row = cols (row.take k) ++ x :: cols (row.drop (k + 1)) := by
    conv => lhs; rw [e]
    rw [cols_append]; simp [cols, hp]
  rw [hc] at hnd ⊢
  obtain ⟨_, h2, h3⟩ := List.nodup_append.mp hnd
  obtain ⟨h4, _⟩ := List.nodup_cons.mp h2
  simp only [List.mem_append, List.mem_cons]
  constructor
  · rintro (hv | hv)
    · exact ⟨Or.inl hv, fun e => h3 v hv x (by simp) e⟩
    · exact ⟨Or.inr (Or.inr hv), fun e => h4 (e ▸ hv)⟩
  · rintro ⟨hv | hv | hv, hne⟩
    · exact Or.inl hv
    · exact absurd hv hne
    · exact Or.inr hv

/-- the removed node's row without its self-loop: its successors other than itself -/
theorem mem_cols_rowToRemove {rowx : Row} {x : Nat} (hnd : (cols rowx).Nodup) (v : Nat) :
    v ∈ cols (rowToRemove rowx x) ↔ (v ∈ cols rowx ∧ v ≠ x) := by
  unfold rowToRemove
  cases h : colIdx rowx x with
  | none =>
    have := colIdx_none h
    simp only
    constructor
    · intro hv; exact ⟨hv, fun e => this (e ▸ hv)⟩
    · exact fun hv => hv.1
  | some k =>
    simp only [dropAt, cols_append, List.mem_append]
    exact mem_cols_cut hnd h v

theorem removeNode_getElem? {L L' : Lil} {x : Nat} {rowx : Row} (hx : L[x]? = some rowx)
    (h : removeNode L x = .ok L') (i : Nat) :
    L'[i]? = (L[i]?).map (editRow x (rowToRemove rowx x) i) := by
  unfold removeNode at h
  rw [hx] at h
  simp only [Except.ok.injEq] at h
  subst h
  exact List.getElem?_mapIdx

/-- **Edge set after `remove_node`**: `E' = (E minus the edges at x) ∪ {(p,c) | (p,x),(x,c) ∈ E, c ≠ x}` -/
theorem removeNode_hasEdge {L L' : Lil} {x : Nat} (hnd : NoDupCols L)
    (h : removeNode L x = .ok L') (u v : Nat) :
    HasEdge L' u v ↔
      (u ≠ x ∧ v ≠ x ∧ HasEdge L u v) ∨ (u ≠ x ∧ v ≠ x ∧ HasEdge L u x ∧ HasEdge L x v) := by
  have hx : ∃ rowx, L[x]? = some rowx := by
    unfold removeNode at h
    cases e : L[x]? with
    | none => rw [e] at h; cases h
    | some r => exact ⟨r, rfl⟩
  obtain ⟨rowx, hx⟩ := hx
  have hndx : (cols rowx).Nodup := hnd rowx (List.mem_of_getElem? hx)
  have hget := removeNode_getElem? hx h u
  unfold HasEdge
  rw [hget]
  cases hu : L[u]? with
  | none => simp
  | some row =>
    have hndr : (cols row).Nodup := hnd row (List.mem_of_getElem? hu)
    simp only [Option.map_some, Option.some.injEq, exists_eq_left', hx]
    unfold editRow
    by_cases hux : u = x
    · simp [hux, cols]
    · simp only [hux, if_false, ne_eq, not_false_eq_true, true_and]
      cases hk : colIdx row x with
      | none =>
        have hnx := colIdx_none hk
        simp only
        constructor
        · intro hv
          exact Or.inl ⟨fun e => hnx (e ▸ hv), hv⟩
        · rintro (⟨_, hv⟩ | ⟨_, hxr, _⟩)
          · exact hv
          · exact absurd hxr hnx
      | some k =>
        have hxr := colIdx_some_mem hk
        simp only [cols_append, List.mem_append]
        have h1 := mem_cols_cut hndr hk v
        have h2 := mem_cols_rowToRemove (x := x) hndx v
        constructor
        · rintro ((hv | hv) | hv)
          · have := h1.mp (Or.inl hv); exact Or.inl ⟨this.2, this.1⟩
          · have := h2.mp hv; exact Or.inr ⟨this.2, hxr, this.1⟩
          · have := h1.mp (Or.inr hv); exact Or.inl ⟨this.2, this.1⟩
        · rintro (⟨hne, hv⟩ | ⟨hne, _, hv⟩)
          · rcases h1.mpr ⟨hv, hne⟩ with a | a
            · exact Or.inl (Or.inl a)
            · exact Or.inr a
          · exact Or.inl (Or.inr (h2.mpr ⟨hv, hne⟩))

/-! ### reachability -/

/-- a directed path with `k` edges -/
inductive ReachN (L : Lil) : Nat → Nat → Nat → Prop
  | refl (u : Nat) : ReachN L 0 u u
  | step {k u w v : Nat} : HasEdge L u w → ReachN L k w v → ReachN L (k + 1) u v

def Reach (L : Lil) (u v : Nat) : Prop := ∃ k, ReachN L k u v

theorem ReachN.trans {L : Lil} {a b u w v : Nat} (h1 : ReachN L a u w) (h2 : ReachN L b w v) :
    ReachN L (a + b) u v := by
  induction h1 with
  | refl u => simpa using h2
  | step e _ ih =>
    have := ReachN.step e (ih h2)
    have e2 : ∀ k, k + 1 + b = k + b + 1 := by intro k; omega
    rw [e2]; exact this

theorem Reach.trans {L : Lil} {u w v : Nat} (h1 : Reach L u w) (h2 : Reach L w v) : Reach L u v := by
  obtain ⟨a, ha⟩ := h1
  obtain ⟨b, hb⟩ := h2
  exact ⟨a + b, ha.trans hb⟩

theorem Reach.of_edge {L : Lil} {u v : Nat} (h : HasEdge L u v) : Reach L u v :=
  ⟨1, .step h (.refl v)⟩

/-- leaving `x`: a path from `x` to some `v ≠ x` has a first edge `x → c` with `c ≠ x` -/
theorem leave_x {L : Lil} {x v : Nat} (hv : v ≠ x) :
    ∀ k, ReachN L k x v → ∃ c k', c ≠ x ∧ HasEdge L x c ∧ ReachN L k' c v ∧ k' < k := by
  intro k
  induction k with
  | zero => intro h; cases h; exact absurd rfl hv
  | succ k ih =>
    intro h
    cases h with
    | step e r =>
      rename_i w
      by_cases hw : w = x
      · subst hw
        obtain ⟨c, k', h1, h2, h3, h4⟩ := ih r
        exact ⟨c, k', h1, h2, h3, by omega⟩
      · exact ⟨w, k, hw, e, r, by omega⟩

/-- **Reachability is preserved by `remove_node`** between the surviving nodes -/
theorem removeNode_reach_iff {L L' : Lil} {x : Nat} (hnd : NoDupCols L)
    (h : removeNode L x = .ok L') {u v : Nat} (hu : u ≠ x) (hv : v ≠ x) :
    Reach L' u v ↔ Reach L u v := by
  have E := removeNode_hasEdge hnd h
  constructor
  · rintro ⟨k, hk⟩
    induction hk with
    | refl u => exact ⟨0, .refl u⟩
    | step e r ih =>
      rename_i k a w b
      have hw : w ≠ x := by
        rcases (E a w).mp e with ⟨_, h2, _⟩ | ⟨_, h2, _⟩ <;> exact h2
      have r' := ih hw hv
      rcases (E a w).mp e with ⟨_, _, h3⟩ | ⟨_, _, h3, h4⟩
      · exact (Reach.of_edge h3).trans r'
      · exact ((Reach.of_edge h3).trans (Reach.of_edge h4)).trans r'
  · rintro ⟨k, hk⟩
    induction k using Nat.strongRecOn generalizing u with
    | _ k ih =>
      cases hk with
      | refl => exact ⟨0, .refl _⟩
      | step e r =>
        rename_i k w
        by_cases hw : w = x
        · subst hw
          obtain ⟨c, k', hc, ec, rc, hlt⟩ := leave_x hv k r
          have e' : HasEdge L' u c := (E u c).mpr (Or.inr ⟨hu, hc, e, ec⟩)
          exact (Reach.of_edge e').trans (ih k' (by omega) hc rc)
        · have e' : HasEdge L' u w := (E u w).mpr (Or.inl ⟨hu, hw, e⟩)
          exact (Reach.of_edge e').trans (ih k (by omega) hw r)

/-- the removed node is isolated afterwards -/
theorem removeNode_isolated {L L' : Lil} {x : Nat} (hnd : NoDupCols L)
    (h : removeNode L x = .ok L') (w : Nat) : ¬ HasEdge L' x w ∧ ¬ HasEdge L' w x := by
  have E := removeNode_hasEdge hnd h
  constructor
  · intro e; rcases (E x w).mp e with ⟨h1, _⟩ | ⟨h1, _⟩ <;> exact h1 rfl
  · intro e; rcases (E w x).mp e with ⟨_, h1, _⟩ | ⟨_, h1, _⟩ <;> exact h1 rfl

/-! ### the invariants survive a removal, hence any sequence of removals -/

theorem removeNode_inDeg1 {L L' : Lil} {x : Nat} (hnd : NoDupCols L) (hin : InDeg1 L)
    (h : removeNode L x = .ok L') : InDeg1 L' := by
  have E := removeNode_hasEdge hnd h
  intro i j c hi hj
  rcases (E i c).mp hi with ⟨hix, _, ei⟩ | ⟨hix, _, ei, ec⟩
  · rcases (E j c).mp hj with ⟨_, _, ej⟩ | ⟨_, _, _, ec'⟩
    · exact hin i j c ei ej
    · exact absurd (hin i x c ei ec') hix
  · rcases (E j c).mp hj with ⟨hjx, _, ej⟩ | ⟨_, _, ej, _⟩
    · exact absurd (hin j x c ej ec) hjx
    · exact hin i j x ei ej

theorem rowToRemove_sublist (rowx : Row) (x : Nat) : (rowToRemove rowx x).Sublist rowx := by
  unfold rowToRemove
  cases h : colIdx rowx x with
  | none => exact List.Sublist.refl _
  | some k =>
    obtain ⟨p, _, e⟩ := split_at_colIdx h
    simp only [dropAt]
    conv => rhs; rw [e]
    exact List.Sublist.append (List.Sublist.refl _) (List.sublist_cons_self _ _)

theorem removeNode_noDupCols {L L' : Lil} {x : Nat} (hnd : NoDupCols L) (hin : InDeg1 L)
    (h : removeNode L x = .ok L') : NoDupCols L' := by
  have hx : ∃ rowx, L[x]? = some rowx := by
    unfold removeNode at h
    cases e : L[x]? with
    | none => rw [e] at h; cases h
    | some r => exact ⟨r, rfl⟩
  obtain ⟨rowx, hx⟩ := hx
  have hndx : (cols rowx).Nodup := hnd rowx (List.mem_of_getElem? hx)
  intro row' hrow'
  obtain ⟨i, hi⟩ := List.mem_iff_getElem?.mp hrow'
  rw [removeNode_getElem? hx h i] at hi
  cases hu : L[i]? with
  | none => rw [hu] at hi; cases hi
  | some row =>
    rw [hu] at hi
    simp only [Option.map_some, Option.some.injEq] at hi
    subst hi
    have hndr : (cols row).Nodup := hnd row (List.mem_of_getElem? hu)
    unfold editRow
    by_cases hix : i = x
    · simp [hix, cols]
    · simp only [hix, if_false]
      cases hk : colIdx row x with
      | none => exact hndr
      | some k =>
        simp only [cols_append]
        obtain ⟨p, hp, e⟩ := split_at_colIdx hk
        have hc : cols row = cols (row.take k) ++ x :: cols (row.drop (k + 1)) := by
          conv => lhs; rw [e]
          rw [cols_append]; simp [cols, hp]
        rw [hc] at hndr
        obtain ⟨nA, nxB, dAB⟩ := List.nodup_append.mp hndr
        obtain ⟨_, nB⟩ := List.nodup_cons.mp nxB
        have nR : (cols (rowToRemove rowx x)).Nodup :=
          List.Nodup.sublist ((rowToRemove_sublist rowx x).map _) hndx
        have memR : ∀ c, c ∈ cols (rowToRemove rowx x) → HasEdge L x c := fun c hcR =>
          ⟨rowx, hx, ((mem_cols_rowToRemove hndx c).mp hcR).1⟩
        have memRow : ∀ c, c ∈ cols row → HasEdge L i c := fun c hcr => ⟨row, hu, hcr⟩
        have inA : ∀ c, c ∈ cols (row.take k) → c ∈ cols row := fun c hcA => by
          rw [hc]; exact List.mem_append_left _ hcA
        have inB : ∀ c, c ∈ cols (row.drop (k + 1)) → c ∈ cols row := fun c hcB => by
          rw [hc]; exact List.mem_append_right _ (List.mem_cons_of_mem _ hcB)
        refine List.nodup_append.mpr ⟨List.nodup_append.mpr ⟨nA, nR, ?_⟩, nB, ?_⟩
        · intro a ha b hb e
          subst e
          exact hix (hin i x a (memRow a (inA a ha)) (memR a hb))
        · intro a ha b hb e
          subst e
          rcases List.mem_append.mp ha with ha | ha
          · exact dAB a ha a (List.mem_cons_of_mem _ hb) rfl
          · exact hix (hin i x a (memRow a (inB a hb)) (memR a ha))

/-- **Any set (sequence) of removed nodes**: on a forest (every node has at most one predecessor,
no row stores a column twice) reachability between nodes that are not removed is unchanged, and the
invariants still hold afterwards. -/
theorem removeNodes_reach_iff {L L' : Lil} {xs : List Nat} (hnd : NoDupCols L) (hin : InDeg1 L)
    (h : removeNodes L xs = .ok L') {u v : Nat} (hu : u ∉ xs) (hv : v ∉ xs) :
    (Reach L' u v ↔ Reach L u v) ∧ NoDupCols L' ∧ InDeg1 L' := by
  induction xs generalizing L with
  | nil =>
    simp only [removeNodes, Except.ok.injEq] at h
    subst h
    exact ⟨Iff.rfl, hnd, hin⟩
  | cons x xs ih =>
    unfold removeNodes at h
    cases h1 : removeNode L x with
    | error e => rw [h1] at h; cases h
    | ok L1 =>
      rw [h1] at h
      simp only [Except.bind] at h
      have hux : u ≠ x := fun e => hu (e ▸ List.mem_cons_self)
      have hvx : v ≠ x := fun e => hv (e ▸ List.mem_cons_self)
      obtain ⟨r, a, b⟩ := ih (removeNode_noDupCols hnd hin h1) (removeNode_inDeg1 hnd hin h1) h
        (fun m => hu (List.mem_cons_of_mem _ m)) (fun m => hv (List.mem_cons_of_mem _ m))
      exact ⟨r.trans (removeNode_reach_iff hnd h1 hux hvx), a, b⟩

/-- removed nodes stay isolated through the later removals -/
theorem removeNodes_isolated {L L' : Lil} {xs : List Nat} (hnd : NoDupCols L) (hin : InDeg1 L)
    (h : removeNodes L xs = .ok L') {x : Nat} (hx : x ∈ xs) (w : Nat) :
    ¬ HasEdge L' x w ∧ ¬ HasEdge L' w x := by
  induction xs generalizing L with
  | nil => cases hx
  | cons y ys ih =>
    unfold removeNodes at h
    cases h1 : removeNode L y with
    | error e => rw [h1] at h; cases h
    | ok L1 =>
      rw [h1] at h
      simp only [Except.bind] at h
      have hnd1 := removeNode_noDupCols hnd hin h1
      have hin1 := removeNode_inDeg1 hnd hin h1
      by_cases hxy : x ∈ ys
      · exact ih hnd1 hin1 h hxy
      · have hxe : x = y := by
          rcases List.mem_cons.mp hx with e | e
          · exact e
          · exact absurd e hxy
        subst hxe
        have iso := removeNode_isolated hnd h1
        -- later removals never create an edge at an isolated node
        have keep : ∀ (zs : List Nat) (M M' : Lil), NoDupCols M → InDeg1 M →
            removeNodes M zs = .ok M' → (∀ w, ¬ HasEdge M x w ∧ ¬ HasEdge M w x) →
            ∀ w, ¬ HasEdge M' x w ∧ ¬ HasEdge M' w x := by
          intro zs
          induction zs with
          | nil =>
            intro M M' _ _ hM hiso
            simp only [removeNodes, Except.ok.injEq] at hM
            subst hM; exact hiso
          | cons z zs ihz =>
            intro M M' hndM hinM hM hiso
            unfold removeNodes at hM
            cases h2 : removeNode M z with
            | error e => rw [h2] at hM; cases hM
            | ok M1 =>
              rw [h2] at hM
              simp only [Except.bind] at hM
              apply ihz M1 M' (removeNode_noDupCols hndM hinM h2) (removeNode_inDeg1 hndM hinM h2) hM
              intro w
              have E := removeNode_hasEdge hndM h2
              constructor
              · intro e
                rcases (E x w).mp e with ⟨_, _, e1⟩ | ⟨_, _, e1, _⟩ <;> exact (hiso _).1 e1
              · intro e
                rcases (E w x).mp e with ⟨_, _, e1⟩ | ⟨_, _, _, e1⟩ <;> exact (hiso _).2 e1
        exact keep ys L1 L' hnd1 hin1 h iso w

/-! ### in-trees (edges child → parent): every row stores at most one entry -/

/-- every node has at most one successor (rooted forests with edges child → parent) -/
def OutDeg1 (L : Lil) : Prop := ∀ row ∈ L, row.length ≤ 1

theorem OutDeg1.noDupCols {L : Lil} (h : OutDeg1 L) : NoDupCols L := by
  intro row hrow
  have := h row hrow
  match row, this with
  | [], _ => simp [cols]
  | [p], _ => simp [cols]
  | _ :: _ :: _, hlen => simp at hlen

theorem removeNode_outDeg1 {L L' : Lil} {x : Nat} (hout : OutDeg1 L)
    (h : removeNode L x = .ok L') : OutDeg1 L' := by
  have hx : ∃ rowx, L[x]? = some rowx := by
    unfold removeNode at h
    cases e : L[x]? with
    | none => rw [e] at h; cases h
    | some r => exact ⟨r, rfl⟩
  obtain ⟨rowx, hx⟩ := hx
  have hlx : (rowToRemove rowx x).length ≤ 1 :=
    Nat.le_trans (rowToRemove_sublist rowx x).length_le (hout rowx (List.mem_of_getElem? hx))
  intro row' hrow'
  obtain ⟨i, hi⟩ := List.mem_iff_getElem?.mp hrow'
  rw [removeNode_getElem? hx h i] at hi
  cases hu : L[i]? with
  | none => rw [hu] at hi; cases hi
  | some row =>
    rw [hu] at hi
    simp only [Option.map_some, Option.some.injEq] at hi
    subst hi
    have hl : row.length ≤ 1 := hout row (List.mem_of_getElem? hu)
    unfold editRow
    by_cases hix : i = x
    · simp [hix]
    · simp only [hix, if_false]
      cases hk : colIdx row x with
      | none => exact hl
      | some k =>
        obtain ⟨p, _, e⟩ := split_at_colIdx hk
        have : (row.take k).length + 1 + (row.drop (k + 1)).length = row.length := by
          conv => rhs; rw [e]
          simp only [List.length_append, List.length_cons]; omega
        simp only [List.length_append]
        omega

/-- the same statement for in-trees -/
theorem removeNodes_reach_iff_out {L L' : Lil} {xs : List Nat} (hout : OutDeg1 L)
    (h : removeNodes L xs = .ok L') {u v : Nat} (hu : u ∉ xs) (hv : v ∉ xs) :
    (Reach L' u v ↔ Reach L u v) ∧ OutDeg1 L' := by
  induction xs generalizing L with
  | nil =>
    simp only [removeNodes, Except.ok.injEq] at h
    subst h
    exact ⟨Iff.rfl, hout⟩
  | cons x xs ih =>
    unfold removeNodes at h
    cases h1 : removeNode L x with
    | error e => rw [h1] at h; cases h
    | ok L1 =>
      rw [h1] at h
      simp only [Except.bind] at h
      have hux : u ≠ x := fun e => hu (e ▸ List.mem_cons_self)
      have hvx : v ≠ x := fun e => hv (e ▸ List.mem_cons_self)
      obtain ⟨r, a⟩ := ih (removeNode_outDeg1 hout h1) h
        (fun m => hu (List.mem_cons_of_mem _ m)) (fun m => hv (List.mem_cons_of_mem _ m))
      exact ⟨r.trans (removeNode_reach_iff hout.noDupCols h1 hux hvx), a⟩

end VecModel.Tree
