import VecModel.Lemmas.CoocSpec
/- One target occurrence whose windows are described position by position (shared by the n-gram and
multiset refinements): the accumulated cell is the positional double sum. -/
set_option linter.unusedSimpArgs false
set_option linter.unusedVariables false
namespace VecModel.Cooc
open VecModel.Window

/-- accumulation of one occurrence (the statement of `occ_cell` in Props/C03) -/
theorem occ_cell_lem (n : Nat) (nw : Bool) (o : Occ) (r c : Nat) :
    cellSum (o.events n nw) r c =
      if o.row = r then
        sumOver o.wins.zipIdx fun wb => sumOver (wb.1.1.zip wb.1.2) fun cv =>
          if cv.1 + wb.2 * n = c then pos (cv.2 / o.total nw) else 0
      else 0 := by
  unfold Occ.events
  rw [cellSum_flatMap]
  by_cases hr : o.row = r
  · simp only [hr, if_true]
    apply sumOver_congr
    intro wb _
    rw [cellSum_filterMap]
    apply sumOver_congr
    intro cv _
    by_cases hp : cv.2 / o.total nw > 0
    · simp [hp, pos, hr]
    · simp [hp, pos]
  · simp only [hr, if_false]
    apply sumOver_eq_zero
    intro wb _
    apply cellSum_eq_zero_of_forall
    intro e he
    rw [List.mem_filterMap] at he
    obtain ⟨cv, _, hsome⟩ := he
    by_cases hp : cv.2 / o.total nw > 0
    · simp only [hp, if_true, Option.some.injEq] at hsome
      rw [← hsome]; simp [hr]
    · simp [hp] at hsome

/-- window total computed from per-block kernel sums `Z b` -/
def totalOf (nw : Bool) (blocks : List β) (Z : β → Rat) : Rat :=
  let t : Rat := if nw then sumOver blocks Z else 0
  if t ≤ 0 then 1 else t

/-- **one occurrence, position by position.** If, for every block `b`, the (window, kernel) pair
`W b` enumerates positions `p ∈ P` with token `tok p` and value `K b p` (in the sense that every
sum over the zipped window of a summand vanishing with the value is the sum over `P`), then the
cell contribution of the occurrence is the double sum over blocks and positions. -/
theorem occ_cell_positional {β π : Type} (n : Nat) (nw : Bool) (row : Nat) (blocks : List β)
    (W : β → List Nat × List Rat) (P : List π) (tok : π → Nat) (K : β → π → Rat)
    (hzip : ∀ b ∈ blocks, ∀ G : Nat → Rat → Rat, (∀ c, G c 0 = 0) →
      sumOver ((W b).1.zip (W b).2) (fun cv => G cv.1 cv.2) = sumOver P (fun p => G (tok p) (K b p)))
    (hsum : ∀ b ∈ blocks, (W b).2.sum = sumOver P (K b)) (r c : Nat) :
    cellSum (({ row := row, wins := blocks.map W } : Occ).events n nw) r c =
      if row = r then
        sumOver blocks.zipIdx fun bw => sumOver P fun p =>
          if tok p + bw.2 * n = c then
            pos (K bw.1 p / totalOf nw blocks (fun b => sumOver P (K b))) else 0
      else 0 := by
  rw [occ_cell_lem]
  simp only
  have hT : ({ row := row, wins := blocks.map W } : Occ).total nw =
      totalOf nw blocks (fun b => sumOver P (K b)) := by
    unfold Occ.total totalOf
    simp only [List.map_map]
    have : (blocks.map ((fun w : List Nat × List Rat => w.2.sum) ∘ W)).sum =
        sumOver blocks (fun b => sumOver P (K b)) := by
      unfold sumOver
      congr 1
      apply List.map_congr_left
      intro b hb
      simp only [Function.comp]
      exact hsum b hb
    rw [this]
  rw [hT]
  by_cases hr : row = r
  · simp only [hr, if_true]
    rw [List.zipIdx_map, sumOver_map]
    apply sumOver_congr
    intro bw hbw
    have hb : bw.1 ∈ blocks := (List.mem_zipIdx hbw).2.2 ▸ List.getElem_mem _
    simp only [Prod.map, id_eq]
    exact hzip bw.1 hb
      (fun c' v => if c' + bw.2 * n = c then
        pos (v / totalOf nw blocks (fun b => sumOver P (K b))) else 0)
      (fun c' => by simp [pos])
  · simp [hr]

/-- cells of the events of a `filterMap`-ped list of occurrences -/
theorem cellSum_filterMap_flatMap (l : List α) (f : α → Option Occ) (n : Nat) (nw : Bool) (r c : Nat) :
    cellSum ((l.filterMap f).flatMap (Occ.events n nw)) r c =
      sumOver l (fun x => match f x with
        | some o => cellSum (o.events n nw) r c
        | none => 0) := by
  induction l with
  | nil => simp [cellSum_nil, sumOver_nil]
  | cons x l ih =>
    rw [sumOver_cons, List.filterMap_cons]
    cases h : f x with
    | none => simp [ih]
    | some o => simp [List.flatMap_cons, cellSum_append, ih]

theorem sumOver_flatten (L : List (List α)) (f : α → Rat) :
    sumOver L.flatten f = sumOver L (fun l => sumOver l f) := by
  induction L with
  | nil => simp [sumOver]
  | cons l L ih => rw [List.flatten_cons, sumOver_append, sumOver_cons, ih]

theorem sumOver_mul_left (l : List α) (c : Rat) (f : α → Rat) :
    sumOver l (fun x => c * f x) = c * sumOver l f := by
  induction l with
  | nil => simp [sumOver]
  | cons x l ih => simp only [sumOver_cons, ih]; ring

theorem sumOver_div (l : List α) (c : Rat) (f : α → Rat) :
    sumOver l (fun x => f x / c) = sumOver l f / c := by
  induction l with
  | nil => simp [sumOver]
  | cons x l ih => simp only [sumOver_cons, ih]; ring

end VecModel.Cooc
