import VecModel.Lemmas.Coo
/-
  Index-level model (Coo.*, checked accesses) refines the run-level model (Coo.Runs.*).
-/
namespace VecModel.Coo
open List

/-! ### list helpers -/

theorem take_succ_set {α} (l : List α) (i : Nat) (x : α) (h : i < l.length) :
    (l.set i x).take (i + 1) = l.take i ++ [x] := by
  induction l generalizing i with
  | nil => simp at h
  | cons a l ih =>
    cases i with
    | zero => simp
    | succ i => simp at h; simp [ih i h]

theorem take_set_of_le {α} (l : List α) (i j : Nat) (x : α) (h : j ≤ i) :
    (l.set i x).take j = l.take j := by
  induction l generalizing i j with
  | nil => simp
  | cons a l ih =>
    cases j with
    | zero => simp
    | succ j =>
      cases i with
      | zero => omega
      | succ i => simp [ih i j (by omega)]

theorem take_succ_eq {α} (l : List α) (i : Nat) (h : i < l.length) :
    l.take (i + 1) = l.take i ++ [l[i]] := by
  rw [List.take_add_one]; simp [List.getElem?_eq_getElem h]

theorem take_drop_split' {α} (l : List α) {a m b : Nat} (h1 : a ≤ m) (h2 : m ≤ b) :
    (l.take b).drop a = (l.take m).drop a ++ (l.take b).drop m := take_drop_split l h1 h2

/-! ### the scratch arrays of merge_sum_duplicates as a reversed accumulator -/

/-- head = `result[result_ptr]` -/
def pushR : List Entry → Entry → List Entry
  | [], e => [e]
  | r :: acc, e => if e.key = r.key then { r with val := r.val + e.val } :: acc else e :: r :: acc

theorem rdA_ok {α} {name : String} {a : Array α} {i : Nat} (h : i < a.size) : rdA name a i = .ok a[i] := by
  simp [rdA, h]

theorem wrA_ok {α} {name : String} {a : Array α} {i : Nat} (x : α) (h : i < a.size) :
    wrA name a i x = .ok (a.set i x h) := by
  simp [wrA, h]

theorem push_spec {buf res : Array Entry} {rp p : Nat} {r : Entry} {acc : List Entry}
    (hp : p < buf.size) (hrp : rp + 1 < res.size)
    (hacc : res.toList.take (rp + 1) = (r :: acc).reverse) :
    ∃ res' rp', push buf res rp p = .ok (res', rp') ∧ res'.size = res.size ∧
      res'.toList.take (rp' + 1) = (pushR (r :: acc) buf[p]).reverse ∧
      rp' + 1 = (pushR (r :: acc) buf[p]).length ∧ rp ≤ rp' ∧ rp' ≤ rp + 1 := by
  have hlen : rp = acc.length := by
    have := congrArg List.length hacc
    simp at this; omega
  have hrp0 : rp < res.size := by omega
  have hr : res[rp] = r := by
    have h1 := take_succ_eq res.toList rp (by simpa using hrp0)
    rw [hacc] at h1
    simp only [List.reverse_cons] at h1
    have := List.append_inj_right' h1 (by simp)
    simpa using this.symm
  have htake : res.toList.take rp = acc.reverse := by
    have h1 := take_succ_eq res.toList rp (by simpa using hrp0)
    rw [hacc] at h1
    simp only [List.reverse_cons] at h1
    exact (List.append_inj_left' h1 (by simp)).symm
  unfold push
  simp only [rdA_ok hp, rdA_ok hrp0, hr, bind, Except.bind, pure, Except.pure]
  by_cases hk : buf[p].key = r.key
  · simp only [hk, if_true, wrA_ok _ hrp0]
    refine ⟨_, _, rfl, by simp, ?_, ?_, Nat.le_refl _, by omega⟩
    · simp only [pushR, hk, if_true, List.reverse_cons, Array.toList_set]
      rw [take_succ_set _ _ _ (by simpa using hrp0), htake]
    · simp [pushR, hk]; omega
  · simp only [hk, if_false, wrA_ok _ hrp]
    refine ⟨_, _, rfl, by simp, ?_, ?_, by omega, Nat.le_refl _⟩
    · simp only [pushR, hk, if_false, List.reverse_cons, Array.toList_set]
      rw [take_succ_set _ _ _ (by simpa using hrp), hacc]; simp
    · simp [pushR, hk]; omega

theorem pushR_ne_nil (acc : List Entry) (e : Entry) : pushR acc e ≠ [] := by
  cases acc with
  | nil => simp [pushR]
  | cons r acc => simp only [pushR]; split <;> simp

theorem push_spec' {buf res : Array Entry} {rp p : Nat} {acc : List Entry}
    (hp : p < buf.size) (hrp : rp + 1 < res.size) (hne : acc ≠ [])
    (hacc : res.toList.take (rp + 1) = acc.reverse) :
    ∃ res' rp', push buf res rp p = .ok (res', rp') ∧ res'.size = res.size ∧
      res'.toList.take (rp' + 1) = (pushR acc buf[p]).reverse ∧ rp' ≤ rp + 1 := by
  cases acc with
  | nil => exact absurd rfl hne
  | cons r acc =>
    obtain ⟨res', rp', h1, h2, h3, _, _, h6⟩ := push_spec hp hrp hacc
    exact ⟨res', rp', h1, h2, h3, h6⟩

theorem drop_take_cons {α} (l : List α) (p m : Nat) (h1 : p < m) (h2 : m ≤ l.length) :
    (l.take m).drop p = l[p]'(by omega) :: (l.take m).drop (p + 1) := by
  have hp : p < (l.take m).length := by simp; omega
  rw [List.drop_eq_getElem_cons hp]
  simp

theorem drop_take_nil {α} (l : List α) (p m : Nat) (h : m ≤ p) : (l.take m).drop p = [] := by
  apply List.drop_eq_nil_of_le; simp; omega

theorem mergeLoop_spec {buf : Array Entry} {mid ind : Nat} (hmi : mid ≤ ind) (hib : ind ≤ buf.size) :
    ∀ (fuel p1 p2 : Nat) (res : Array Entry) (rp : Nat) (acc : List Entry),
      p1 ≤ mid → mid ≤ p2 → p2 ≤ ind → (mid - p1) + (ind - p2) ≤ fuel →
      rp + (mid - p1) + (ind - p2) < res.size → acc ≠ [] →
      res.toList.take (rp + 1) = acc.reverse →
      ∃ res' rp', mergeLoop buf mid ind fuel p1 p2 res rp = .ok (res', rp') ∧ res'.size = res.size ∧
        res'.toList.take (rp' + 1) =
          (((buf.toList.take mid).drop p1).merge ((buf.toList.take ind).drop p2) kle |>.foldl pushR acc).reverse ∧
        rp' ≤ rp + (mid - p1) + (ind - p2) := by
  intro fuel
  induction fuel with
  | zero =>
    intro p1 p2 res rp acc h1 h2 h3 hf hroom hne hacc
    have e1 : p1 = mid := by omega
    have e2 : p2 = ind := by omega
    subst e1 e2
    refine ⟨res, rp, by simp [mergeLoop], rfl, ?_, by omega⟩
    simp [hacc]
  | succ fuel ih =>
    intro p1 p2 res rp acc h1 h2 h3 hf hroom hne hacc
    have hbl : buf.toList.length = buf.size := by simp
    unfold mergeLoop
    by_cases hc : p1 < mid ∧ p2 < ind
    · obtain ⟨c1, c2⟩ := hc
      have hp1 : p1 < buf.size := by omega
      have hp2 : p2 < buf.size := by omega
      have ea := drop_take_cons buf.toList p1 mid c1 (by omega)
      have eb := drop_take_cons buf.toList p2 ind c2 (by omega)
      simp only [c1, c2, and_self, if_true, rdA_ok hp1, rdA_ok hp2, bind, Except.bind]
      rw [ea, eb, List.cons_merge_cons]
      simp only [Array.getElem_toList]
      by_cases hk : buf[p1].key ≤ buf[p2].key
      · obtain ⟨res1, rp1, q1, q2, q3, q4⟩ := push_spec' (buf := buf) (p := p1) hp1 (by omega) hne hacc
        simp only [hk, if_true, q1, kle, decide_true]
        obtain ⟨res2, rp2, w1, w2, w3, w4⟩ := ih (p1 + 1) p2 res1 rp1 (pushR acc buf[p1]) (by omega) h2 h3
          (by omega) (by omega) (pushR_ne_nil _ _) q3
        refine ⟨res2, rp2, w1, by omega, ?_, by omega⟩
        rw [w3, eb]; simp
      · obtain ⟨res1, rp1, q1, q2, q3, q4⟩ := push_spec' (buf := buf) (p := p2) hp2 (by omega) hne hacc
        simp only [hk, if_false, q1, kle, decide_false]
        obtain ⟨res2, rp2, w1, w2, w3, w4⟩ := ih p1 (p2 + 1) res1 rp1 (pushR acc buf[p2]) h1 (by omega) (by omega)
          (by omega) (by omega) (pushR_ne_nil _ _) q3
        refine ⟨res2, rp2, w1, by omega, ?_, by omega⟩
        rw [w3, ea]; simp
    · simp only [hc, if_false]
      by_cases hd : p1 ≥ mid
      · have e1 : p1 = mid := by omega
        subst e1
        simp only [ge_iff_le, Nat.le_refl, if_true]
        by_cases c2 : p2 < ind
        · have hp2 : p2 < buf.size := by omega
          have eb := drop_take_cons buf.toList p2 ind c2 (by omega)
          obtain ⟨res1, rp1, q1, q2, q3, q4⟩ := push_spec' (buf := buf) (p := p2) hp2 (by omega) hne hacc
          simp only [c2, if_true, q1, bind, Except.bind]
          obtain ⟨res2, rp2, w1, w2, w3, w4⟩ := ih p1 (p2 + 1) res1 rp1 (pushR acc buf[p2]) h1 (by omega) (by omega)
            (by omega) (by omega) (pushR_ne_nil _ _) q3
          refine ⟨res2, rp2, w1, by omega, ?_, by omega⟩
          rw [w3, eb]; simp
        · have e2 : p2 = ind := by omega
          subst e2
          refine ⟨res, rp, by simp, rfl, ?_, by omega⟩
          simp [hacc]
      · have c1 : p1 < mid := by omega
        have e2 : p2 = ind := by omega
        subst e2
        have hp1 : p1 < buf.size := by omega
        have ea := drop_take_cons buf.toList p1 mid c1 (by omega)
        obtain ⟨res1, rp1, q1, q2, q3, q4⟩ := push_spec' (buf := buf) (p := p1) hp1 (by omega) hne hacc
        simp only [hd, if_false, q1, bind, Except.bind]
        obtain ⟨res2, rp2, w1, w2, w3, w4⟩ := ih (p1 + 1) p2 res1 rp1 (pushR acc buf[p1]) (by omega) h2 h3
          (by omega) (by omega) (pushR_ne_nil _ _) q3
        refine ⟨res2, rp2, w1, by omega, ?_, by omega⟩
        rw [w3, ea]; simp

/-! ### the accumulator computes `dedupSum` -/

theorem dedupSum_absorb (r e : Entry) (l : List Entry) (h : e.key = r.key) :
    dedupSum (r :: e :: l) = dedupSum ({ r with val := r.val + e.val } :: l) := by
  simp only [dedupSum]
  cases hd : dedupSum l with
  | nil => simp [h]
  | cons g rest =>
    simp only
    by_cases hg : e.key = g.key
    · have : r.key = g.key := by omega
      simp [hg, this, Int.add_assoc]
    · have : ¬ r.key = g.key := by omega
      simp [h, this]

theorem foldl_pushR (l : List Entry) (r : Entry) (acc : List Entry) :
    (l.foldl pushR (r :: acc)).reverse = acc.reverse ++ dedupSum (r :: l) := by
  induction l generalizing r acc with
  | nil => simp [dedupSum]
  | cons e l ih =>
    simp only [List.foldl_cons, pushR]
    by_cases h : e.key = r.key
    · simp only [h, if_true]
      rw [ih, dedupSum_absorb r e l h]
    · simp only [h, if_false]
      rw [ih]
      have : dedupSum (r :: e :: l) = r :: dedupSum (e :: l) := by
        have hne : dedupSum (e :: l) ≠ [] := by
          simp only [dedupSum]; cases dedupSum l <;> simp; split <;> simp
        have hhead : ∀ f rest, dedupSum (e :: l) = f :: rest → f.key = e.key := by
          intro f rest hf
          simp only [dedupSum] at hf
          cases hd : dedupSum l with
          | nil => rw [hd] at hf; simp at hf; rw [← hf.1]
          | cons g rest' =>
            rw [hd] at hf; simp only at hf
            split at hf <;> (simp at hf; rw [← hf.1])
        conv => lhs; rw [dedupSum]
        cases hd : dedupSum (e :: l) with
        | nil => exact absurd hd hne
        | cons f rest =>
          have := hhead f rest hd
          have hrf : ¬ r.key = f.key := by omega
          simp [hrf]
      rw [this]; simp

/-- with a sentinel whose key occurs nowhere, the accumulator is `sentinel :: dedupSum l` -/
theorem foldl_pushR_sentinel (l : List Entry) (s : Entry) (hs : ∀ x ∈ l, x.key ≠ s.key) :
    (l.foldl pushR [s]).reverse = s :: dedupSum l := by
  rw [foldl_pushR]
  simp only [List.reverse_nil, List.nil_append]
  cases l with
  | nil => simp [dedupSum]
  | cons e l =>
    have h : ¬ e.key = s.key := hs e (by simp)
    have := foldl_pushR (e :: l) s []
    simp only [List.foldl_cons, pushR, h, if_false, List.reverse_nil, List.nil_append] at this
    rw [← this, foldl_pushR]; simp

/-! ### wrSlice, mergeLevel -/

theorem wrSlice_ok {α} {name : String} (a : Array α) {lo hi : Nat} (v : List α)
    (h1 : lo ≤ hi) (h2 : hi ≤ a.size) (hv : v.length = hi - lo) :
    ∃ a', wrSlice name a lo hi v = .ok a' ∧ a'.size = a.size ∧
      a'.toList = a.toList.take lo ++ v ++ a.toList.drop hi := by
  unfold wrSlice
  have e1 : min hi a.size = hi := by omega
  have e2 : min lo hi = lo := by omega
  simp only [e1, e2, hv, ne_eq, not_true_eq_false, if_false]
  refine ⟨_, rfl, ?_, ?_⟩
  · simp; omega
  · simp [List.append_assoc]
    rw [List.take_of_length_le]; simp

theorem mergeLevel_spec (c : Coo) (i : Nat) (m : Int) (hi1 : i + 1 < c.mins.size)
    (hlo : (c.mins[i + 1]).natAbs ≤ m.toNat) (hmid : m.toNat ≤ c.ind) (hind : c.ind ≤ c.buf.size)
    (hkeys : ∀ x ∈ (c.buf.toList.take c.ind).drop (c.mins[i + 1]).natAbs, x.key ≠ -1) :
    ∃ c', mergeLevel c i m = .ok c' ∧ c'.mins = c.mins ∧ c'.depth = c.depth ∧
      c'.buf.size = c.buf.size ∧
      c'.ind = (c.mins[i + 1]).natAbs +
        (Runs.merge2 ((c.buf.toList.take m.toNat).drop (c.mins[i + 1]).natAbs)
          ((c.buf.toList.take c.ind).drop m.toNat)).length ∧
      c'.buf.toList.take c'.ind = c.buf.toList.take (c.mins[i + 1]).natAbs ++
        Runs.merge2 ((c.buf.toList.take m.toNat).drop (c.mins[i + 1]).natAbs)
          ((c.buf.toList.take c.ind).drop m.toNat) ∧
      c'.buf.toList.drop c.ind = c.buf.toList.drop c.ind := by
  generalize hlo' : (c.mins[i + 1]).natAbs = lo at *
  generalize hmid' : m.toNat = mid at *
  have hlen0 : 0 < (Array.replicate (c.ind - lo + 1) Entry.zero).size := by simp
  obtain ⟨res, rp, q1, q2, q3, q4⟩ := mergeLoop_spec (buf := c.buf) hmid hind (c.ind - lo + 1) lo mid
    ((Array.replicate (c.ind - lo + 1) Entry.zero).set 0 { Entry.zero with key := -1 } hlen0) 0
    [{ Entry.zero with key := -1 }]
    hlo (Nat.le_refl _) hmid (by omega) (by simp; omega) (by simp)
    (by simp [Array.toList_set, List.take_one]; cases h : c.ind - lo <;> simp [List.replicate_succ])
  have hrun : ∀ x ∈ ((c.buf.toList.take mid).drop lo).merge ((c.buf.toList.take c.ind).drop mid) kle,
      x.key ≠ ({ Entry.zero with key := -1 } : Entry).key := by
    intro x hx
    rw [mem_merge] at hx
    apply hkeys x
    have hsplit := take_drop_split' c.buf.toList hlo hmid
    rw [hsplit]; exact List.mem_append.mpr hx
  rw [foldl_pushR_sentinel _ _ hrun] at q3
  have hsz : res.size = c.ind - lo + 1 := by simpa using q2
  have hrp : rp = (Runs.merge2 ((c.buf.toList.take mid).drop lo) ((c.buf.toList.take c.ind).drop mid)).length := by
    have := congrArg List.length q3
    simp [Runs.merge2] at this ⊢; omega
  obtain ⟨buf', w1, w2, w3⟩ := wrSlice_ok (name := "row") c.buf (res.toList.drop 1) (lo := lo) (hi := c.ind)
    (by omega) hind (by simp; omega)
  have hd : (res.toList.drop 1).take rp = Runs.merge2 ((c.buf.toList.take mid).drop lo) ((c.buf.toList.take c.ind).drop mid) := by
    have : (res.toList.take (rp + 1)).drop 1 = (res.toList.drop 1).take rp := by
      rw [List.drop_take]; simp
    rw [← this, q3]; simp [Runs.merge2]
  have hl : (c.buf.toList.take lo).length = lo := by simp; omega
  refine ⟨{ c with buf := buf', ind := lo + rp }, ?_, rfl, rfl, w2, by simp [hrp], ?_, ?_⟩
  · unfold mergeLevel
    simp only [rdA_ok hi1, hlo', hmid', bind, Except.bind, pure, Except.pure, wrA_ok _ hlen0]
    have : ¬ lo > c.ind := by omega
    simp only [this, if_false, q1, w1]
  · simp only [w3]
    rw [List.append_assoc]
    conv => lhs; rw [show lo + rp = (c.buf.toList.take lo).length + rp from by rw [hl]]
    rw [List.take_length_add_append, List.take_append_of_le_length (by simp; omega), hd]
  · simp only [w3]
    exact List.drop_left' (by simp; omega)

/-! ### merge_sum_duplicates = carry -/
open Runs

/-- an occupied level never ends at position 0 (`min[i] = 0` reads as "empty") -/
def NZ : List (Option (List Entry)) → Prop
  | [] => True
  | none :: ls => NZ ls
  | some r :: ls => 0 < r.length + lenAbove ls ∧ NZ ls

theorem lenAbove_place (acc : List Entry) (ls : List (Option (List Entry))) :
    lenAbove (place acc ls :: ls) = acc.length + lenAbove ls := by
  unfold place; split
  · next h => simp only [lenAbove]; omega
  · simp [lenAbove]

theorem liveLevels_place (acc : List Entry) (ls : List (Option (List Entry))) :
    liveLevels (place acc ls :: ls) = liveLevels ls ++ acc := by
  unfold place; split
  · next h => have : acc = [] := List.eq_nil_of_length_eq_zero (by omega)
              simp [liveLevels, this]
  · simp [liveLevels]

theorem minsOf_place (acc : List Entry) (ls : List (Option (List Entry))) :
    minsOf (place acc ls :: ls) = ((acc.length + lenAbove ls : Nat) : Int) :: minsOf ls := by
  unfold place; split
  · next h => simp [minsOf]; omega
  · simp [minsOf]

theorem nz_place (acc : List Entry) (ls : List (Option (List Entry))) (h : NZ ls) : NZ (place acc ls :: ls) := by
  unfold place; split
  · exact h
  · exact ⟨by omega, h⟩

theorem fillPrefix_toList (a : Array Int) (hi : Nat) (x : Int) (h : hi ≤ a.size) :
    (fillPrefix a hi x).toList = List.replicate hi x ++ a.toList.drop hi := by
  unfold fillPrefix
  have : min hi a.size = hi := by omega
  simp [this]
  rw [List.take_of_length_le]; simp

theorem fillPrefix_size (a : Array Int) (hi : Nat) (x : Int) : (fillPrefix a hi x).size = a.size := by
  unfold fillPrefix; simp; omega

/-- `|min[i+1]|` is where the run of level `i` starts -/
theorem natAbs_head_minsOf (ls : List (Option (List Entry))) (k : Nat) (hk : 1 ≤ k) :
    ∃ v rest, minsOf ls ++ List.replicate k (0 : Int) = v :: rest ∧ v.natAbs = lenAbove ls := by
  cases ls with
  | nil =>
    cases k with
    | zero => omega
    | succ k => exact ⟨0, List.replicate k 0, by simp [minsOf, List.replicate_succ], by simp [lenAbove]⟩
  | cons o ls =>
    cases o with
    | none => exact ⟨-(lenAbove ls : Int), minsOf ls ++ List.replicate k 0, by simp [minsOf], by simp [lenAbove]⟩
    | some r => exact ⟨((r.length + lenAbove ls : Nat) : Int), minsOf ls ++ List.replicate k 0, by simp [minsOf],
        by simp only [lenAbove]; omega⟩

theorem getElem_of_drop_eq_cons {α} {l : List α} {i : Nat} {v : α} {rest : List α}
    (h : l.drop i = v :: rest) : ∃ hi : i < l.length, l[i] = v := by
  have hi : i < l.length := by
    by_cases hc : i < l.length
    · exact hc
    · rw [List.drop_eq_nil_of_le (by omega)] at h; cases h
  refine ⟨hi, ?_⟩
  rw [List.drop_eq_getElem_cons hi] at h
  exact (List.cons.inj h).1

theorem drop_succ_of_drop_eq_cons {α} {l : List α} {i : Nat} {v : α} {rest : List α}
    (h : l.drop i = v :: rest) : l.drop (i + 1) = rest := by
  have := congrArg (List.drop 1) h
  simpa [List.drop_drop, Nat.add_comm] using this

theorem mergeLevels_spec (post : List (Option (List Entry))) :
    ∀ (i : Nat) (acc : List Entry) (c : Coo) (k : Nat), 1 ≤ k →
      c.mins.toList.drop i = minsOf post ++ List.replicate k 0 →
      c.buf.toList.take c.ind = liveLevels post ++ acc →
      c.ind = lenAbove post + acc.length → c.ind ≤ c.buf.size → NZ post →
      (∀ x ∈ liveLevels post ++ acc, x.key ≠ -1) →
      ∃ c' nd, mergeLevels post.length i c = .ok (c', nd) ∧ c'.buf.size = c.buf.size ∧
        c'.depth = c.depth ∧ c'.mins.size = c.mins.size ∧
        c'.buf.toList.take c'.ind = liveLevels (carry acc post) ∧
        c'.ind = lenAbove (carry acc post) ∧ c'.ind ≤ c'.buf.size ∧ NZ (carry acc post) ∧
        (nd = false → (carry acc post).length = post.length ∧
          c'.mins.toList = List.replicate i (-(c'.ind : Int)) ++ minsOf (carry acc post) ++ List.replicate k 0) ∧
        (nd = true → (carry acc post).length = post.length + 1 ∧ c'.mins = c.mins ∧
          minsOf (carry acc post) = List.replicate post.length (-(c'.ind : Int)) ++ [(c'.ind : Int)]) := by
  induction post with
  | nil =>
    intro i acc c k hk hmins hlive hind hle hnz hkeys
    refine ⟨c, true, rfl, rfl, rfl, rfl, ?_, ?_, hle, nz_place acc [] trivial, by simp, ?_⟩
    · simpa [carry, liveLevels_place] using hlive
    · simpa [carry, lenAbove_place, lenAbove] using hind
    · intro _
      refine ⟨by simp [carry], rfl, ?_⟩
      simp [carry, minsOf_place, minsOf, lenAbove] at hind ⊢; omega
  | cons o ls ih =>
    intro i acc c k hk hmins hlive hind hle hnz hkeys
    cases o with
    | none =>
      simp only [minsOf, List.cons_append] at hmins
      obtain ⟨hi, hv⟩ := getElem_of_drop_eq_cons hmins
      have hrest := drop_succ_of_drop_eq_cons hmins
      have hi' : i < c.mins.size := by simpa using hi
      have hv' : c.mins[i] = -(lenAbove ls : Int) := by simpa using hv
      have hneg : c.mins[i] ≤ 0 := by omega
      have hsz := fillPrefix_size c.mins i (-(c.ind : Int))
      have hi'' : i < (fillPrefix c.mins i (-(c.ind : Int))).size := by omega
      refine ⟨{ c with mins := (fillPrefix c.mins i (-(c.ind : Int))).set i (c.ind : Int) hi'' }, false, ?_, rfl, rfl,
        by simp [hsz], ?_, ?_, hle, nz_place acc ls hnz, ?_, by simp⟩
      · simp only [List.length_cons, mergeLevels, rdA_ok hi', hneg, if_true, bind, Except.bind, wrA_ok _ hi'',
          pure, Except.pure]
      · simpa [carry, liveLevels_place, liveLevels] using hlive
      · simp only [carry, lenAbove_place]; simp only [lenAbove] at hind; omega
      · intro _
        refine ⟨by simp [carry], ?_⟩
        simp only [carry, minsOf_place, Array.toList_set, fillPrefix_toList _ _ _ (Nat.le_of_lt hi')]
        have hlen : (List.replicate i (-(c.ind : Int))).length = i := by simp
        rw [List.set_append_right _ _ (by simp)]
        simp only [List.length_replicate, Nat.sub_self]
        rw [List.drop_eq_getElem_cons (by simpa using hi')]
        simp only [List.set_cons_zero, hrest]
        simp only [lenAbove] at hind
        have : ((acc.length + lenAbove ls : Nat) : Int) = (c.ind : Int) := by omega
        rw [this]; simp
    | some r =>
      obtain ⟨hpos, hnz'⟩ := hnz
      simp only [minsOf, List.cons_append] at hmins
      obtain ⟨hi, hv⟩ := getElem_of_drop_eq_cons hmins
      have hrest := drop_succ_of_drop_eq_cons hmins
      have hi' : i < c.mins.size := by simpa using hi
      have hv' : c.mins[i] = ((r.length + lenAbove ls : Nat) : Int) := by simpa using hv
      have hposm : ¬ c.mins[i] ≤ 0 := by omega
      obtain ⟨v, rest, hvr, hvabs⟩ := natAbs_head_minsOf ls k hk
      rw [hvr] at hrest
      obtain ⟨hi1, hv1⟩ := getElem_of_drop_eq_cons hrest
      have hi1' : i + 1 < c.mins.size := by simpa using hi1
      have hlo : (c.mins[i + 1]).natAbs = lenAbove ls := by
        have : c.mins[i + 1] = v := by simpa using hv1
        rw [this, hvabs]
      have hmid : (c.mins[i]).toNat = r.length + lenAbove ls := by rw [hv']; omega
      simp only [lenAbove] at hind
      have hll := liveLevels_length ls
      simp only [liveLevels] at hlive hkeys
      have htm : c.buf.toList.take (r.length + lenAbove ls) = liveLevels ls ++ r := by
        have : c.buf.toList.take (r.length + lenAbove ls) = (c.buf.toList.take c.ind).take (r.length + lenAbove ls) := by
          rw [List.take_take]; congr 1; omega
        rw [this, hlive]; exact List.take_left' (by simp; omega)
      have hrun1 : (c.buf.toList.take (c.mins[i]).toNat).drop (c.mins[i + 1]).natAbs = r := by
        rw [hlo, hmid, htm]; exact List.drop_left' hll
      have hrun2 : (c.buf.toList.take c.ind).drop (c.mins[i]).toNat = acc := by
        rw [hmid, hlive]
        exact List.drop_left' (by simp; omega)
      have htakelo : c.buf.toList.take (c.mins[i + 1]).natAbs = liveLevels ls := by
        rw [hlo]
        have : c.buf.toList.take (lenAbove ls) = (c.buf.toList.take c.ind).take (lenAbove ls) := by
          rw [List.take_take]; congr 1; omega
        rw [this, hlive, List.append_assoc]
        exact List.take_left' hll
      obtain ⟨c1, m1, m2, m3, m4, m5, m6, m7⟩ := mergeLevel_spec c i (c.mins[i]) hi1' (by omega) (by omega) hle
        (by
          intro x hx
          apply hkeys x
          rw [hlo, hlive, List.append_assoc] at hx
          rw [List.drop_left' hll] at hx
          rw [List.append_assoc]
          exact List.mem_append_right _ hx)
      rw [hrun1, hrun2] at m5 m6
      rw [htakelo] at m6
      rw [hlo] at m5
      obtain ⟨c', nd, n1, n2, n3, n4, n5, n6, n7, n8, n9, n10⟩ := ih (i + 1) (merge2 r acc) c1 k hk
        (by rw [m2, hrest, hvr]) m6 m5 (by rw [m4]; rw [m5]; have := length_merge2_le r acc; omega) hnz'
        (by
          intro x hx
          rcases List.mem_append.mp hx with hx | hx
          · exact hkeys x (by simp [hx])
          · obtain ⟨y, hy, e1, _⟩ := mem_merge2 hx
            rw [← e1]
            rcases hy with hy | hy
            · exact hkeys y (by simp [hy])
            · exact hkeys y (by simp [hy]))
      have hms : c1.mins.size = c.mins.size := by rw [m2]
      refine ⟨c', nd, ?_, by omega, by omega, by omega, ?_, ?_, n7, ?_, ?_, ?_⟩
      · simp only [List.length_cons, mergeLevels, rdA_ok hi', hposm, if_false, bind, Except.bind, m1]
        exact n1
      · simpa [carry, liveLevels] using n5
      · simpa [carry, lenAbove] using n6
      · simpa [carry, NZ] using n8
      · intro hnd
        obtain ⟨e1, e2⟩ := n9 hnd
        refine ⟨by simp [carry, e1], ?_⟩
        rw [e2]
        simp only [carry, minsOf, ← n6, List.replicate_succ', List.append_assoc, List.cons_append, List.nil_append]
      · intro hnd
        obtain ⟨e1, e2, e3⟩ := n10 hnd
        refine ⟨by simp [carry, e1], by rw [e2, m2], ?_⟩
        simp only [carry, minsOf, ← n6, e3, List.length_cons, List.replicate_succ, List.cons_append]

theorem length_minsOf (ls : List (Option (List Entry))) : (minsOf ls).length = ls.length := by
  induction ls with
  | nil => rfl
  | cons o ls ih => cases o <;> simp [minsOf, ih]

/-- the index-level state `c` represents the run-level state `s` -/
structure Rep (c : Coo) (s : St) : Prop where
  cap : c.buf.size = s.cap
  mcap : c.mins.size = s.mcap
  depth : c.depth = s.levels.length
  room : s.levels.length < c.mins.size
  live : c.buf.toList.take c.ind = Runs.live s
  ind : c.ind = Runs.ind s
  indle : c.ind ≤ c.buf.size
  mins : c.mins.toList = minsOf s.levels ++ List.replicate (c.mins.size - s.levels.length) 0
  nz : NZ s.levels
  keys : ∀ x ∈ Runs.live s, x.key ≠ -1

/-- merge_sum_duplicates on a buffer whose levels are `ls` and whose freshly summed run is `acc` -/
theorem mergeSum_spec (c : Coo) (ls : List (Option (List Entry))) (acc : List Entry)
    (hdepth : c.depth = ls.length) (hroom : ls.length + 1 < c.mins.size)
    (hmins : c.mins.toList = minsOf ls ++ List.replicate (c.mins.size - ls.length) 0)
    (hlive : c.buf.toList.take c.ind = liveLevels ls ++ acc)
    (hind : c.ind = lenAbove ls + acc.length) (hle : c.ind ≤ c.buf.size) (hnz : NZ ls)
    (hkeys : ∀ x ∈ liveLevels ls ++ acc, x.key ≠ -1) :
    ∃ c', mergeSum c = .ok c' ∧ c'.buf.size = c.buf.size ∧ c'.mins.size = c.mins.size ∧
      c'.depth = (carry acc ls).length ∧ (carry acc ls).length < c'.mins.size ∧
      c'.buf.toList.take c'.ind = liveLevels (carry acc ls) ∧ c'.ind = lenAbove (carry acc ls) ∧
      c'.ind ≤ c'.buf.size ∧ NZ (carry acc ls) ∧
      c'.mins.toList = minsOf (carry acc ls) ++ List.replicate (c'.mins.size - (carry acc ls).length) 0 := by
  obtain ⟨c', nd, n1, n2, n3, n4, n5, n6, n7, n8, n9, n10⟩ :=
    mergeLevels_spec ls 0 acc c (c.mins.size - ls.length) (by omega) (by simpa using hmins) hlive hind hle hnz hkeys
  cases nd with
  | false =>
    obtain ⟨e1, e2⟩ := n9 rfl
    refine ⟨c', ?_, n2, n4, by omega, by omega, n5, n6, n7, n8, ?_⟩
    · simp only [mergeSum, hdepth, n1, bind, Except.bind, pure, Except.pure]; rfl
    · rw [e2, e1, n4]; simp
  | true =>
    obtain ⟨e1, e2, e3⟩ := n10 rfl
    have hd : c'.depth < c'.mins.size := by omega
    have hsz := fillPrefix_size c'.mins c'.depth (-(c'.ind : Int))
    have hd' : c'.depth < (fillPrefix c'.mins c'.depth (-(c'.ind : Int))).size := by omega
    refine ⟨{ c' with mins := (fillPrefix c'.mins c'.depth (-(c'.ind : Int))).set c'.depth (c'.ind : Int) hd',
                       depth := c'.depth + 1 }, ?_, n2, by simp [hsz, n4], by simp; omega, by simp [hsz]; omega,
      n5, n6, n7, n8, ?_⟩
    · simp only [mergeSum, hdepth, n1, bind, Except.bind, pure, Except.pure, if_true, wrA_ok _ hd']
    · simp only [Array.toList_set, fillPrefix_toList _ _ _ (Nat.le_of_lt hd), Array.size_set, hsz]
      rw [List.set_append_right _ _ (by simp)]
      simp only [List.length_replicate, Nat.sub_self]
      have hdrop : c'.mins.toList.drop c'.depth = List.replicate (c.mins.size - ls.length) 0 := by
        rw [e2, hmins, n3, hdepth]
        exact List.drop_left' (length_minsOf ls)
      rw [hdrop, e3, e1, n4, n3, hdepth]
      have : c.mins.size - ls.length = (c.mins.size - (ls.length + 1)) + 1 := by omega
      rw [this, List.replicate_succ]
      simp

/-! ### coo_sum_duplicates: the in-place summing loop -/

theorem sumLoop_spec (pre : List Entry) :
    ∀ (fuel i : Nat) (buf : Array Entry) (s : Nat) (cur : Entry) (accT : List Entry),
      s ≤ i → i + fuel ≤ buf.size → buf.toList.take s = pre ++ accT.reverse →
      ∃ buf' s' cur', sumLoop fuel i buf s cur = .ok (buf', s', cur') ∧ buf'.size = buf.size ∧
        s' ≤ i + fuel ∧
        buf'.toList.take s' ++ [cur'] =
          pre ++ (((buf.toList.drop i).take fuel).foldl pushR (cur :: accT)).reverse := by
  intro fuel
  induction fuel with
  | zero =>
    intro i buf s cur accT h1 h2 h3
    exact ⟨buf, s, cur, rfl, rfl, by omega, by simp [h3]⟩
  | succ fuel ih =>
    intro i buf s cur accT h1 h2 h3
    have hi : i < buf.size := by omega
    have hseg : (buf.toList.drop i).take (fuel + 1) = buf[i] :: (buf.toList.drop (i + 1)).take fuel := by
      rw [List.drop_eq_getElem_cons (by simpa using hi)]; simp
    unfold sumLoop
    simp only [rdA_ok hi, bind, Except.bind]
    by_cases hk : buf[i].key = cur.key
    · simp only [hk, if_true]
      obtain ⟨buf', s', cur', q1, q2, q3, q4⟩ := ih (i + 1) buf s { cur with val := cur.val + buf[i].val } accT
        (by omega) (by omega) h3
      refine ⟨buf', s', cur', q1, q2, by omega, ?_⟩
      rw [q4, hseg]; simp [pushR, hk]
    · have hs : s < buf.size := by omega
      simp only [hk, if_false, wrA_ok _ hs]
      obtain ⟨buf', s', cur', q1, q2, q3, q4⟩ := ih (i + 1) (buf.set s cur hs) (s + 1) buf[i] (cur :: accT)
        (by omega) (by simp; omega)
        (by rw [Array.toList_set, take_succ_set _ _ _ (by simpa using hs), h3]; simp)
      refine ⟨buf', s', cur', q1, by simpa using q2, by omega, ?_⟩
      rw [q4, hseg, Array.toList_set, List.drop_set_of_lt (by omega)]; simp [pushR, hk]

theorem dedupSum_zero_head (e : Entry) (rest : List Entry) :
    ((e :: rest).foldl pushR [{ e with val := 0 }]).reverse = dedupSum (e :: rest) := by
  have h0 : pushR [{ e with val := 0 }] e = [e] := by
    cases e; simp [pushR]
  rw [List.foldl_cons, h0, foldl_pushR]; simp

theorem live_eq (s : St) : Runs.live s = liveLevels s.levels ++ s.tail := rfl

theorem sumDuplicates_unfold (c : Coo) {m0 : Int} {buf1 buf2 : Array Entry} {first cur2 : Entry} {s2 : Nat}
    (h0 : rdA "min" c.mins 0 = .ok m0) (hle : c.ind ≤ c.buf.size) (hlo : m0.natAbs ≤ c.ind)
    (h1 : wrSlice "row" c.buf m0.natAbs c.ind ((c.buf.extract m0.natAbs c.ind).toList.mergeSort kle) = .ok buf1)
    (h2 : rdA "row" buf1 m0.natAbs = .ok first)
    (h3 : sumLoop (c.ind - m0.natAbs) m0.natAbs buf1 m0.natAbs { first with val := 0 } = .ok (buf2, s2, cur2)) :
    sumDuplicates c =
      if c.ind > m0.natAbs then
        (wrA "row" buf2 s2 cur2).bind fun b => mergeSum { c with buf := b, ind := s2 + 1 }
      else mergeSum { c with buf := buf2, ind := s2 } := by
  unfold sumDuplicates
  simp only [h0, bind, Except.bind, Nat.min_eq_left hle, Nat.min_eq_left hlo, h1, h2, h3, pure, Except.pure]
  by_cases hg : c.ind > m0.natAbs
  · simp only [hg, if_true]
    cases wrA "row" buf2 s2 cur2 <;> rfl
  · simp only [hg, if_false]

theorem sumDuplicates_spec {c : Coo} {s : St} (h : Rep c s) (hfree : c.ind + 1 ≤ c.buf.size)
    (hroom : s.levels.length + 1 < c.mins.size) :
    ∃ c', sumDuplicates c = .ok c' ∧ Rep c' (round s) := by
  have hm0 : 0 < c.mins.size := by omega
  obtain ⟨v, rest, hvr, hvabs⟩ := natAbs_head_minsOf s.levels (c.mins.size - s.levels.length) (by omega)
  have hlower : (c.mins[0]).natAbs = lenAbove s.levels := by
    have h1 := h.mins; rw [hvr] at h1
    have : c.mins.toList[0]'(by simpa using hm0) = v := by simp [h1]
    have : c.mins[0] = v := by simpa using this
    rw [this, hvabs]
  have hind := h.ind
  simp only [Runs.ind] at hind
  have hll := liveLevels_length s.levels
  have hlive := h.live
  rw [live_eq] at hlive
  have hseg : (c.buf.extract (lenAbove s.levels) c.ind).toList = s.tail := by
    simp only [Array.toList_extract]
    rw [show c.buf.toList.extract (lenAbove s.levels) c.ind = (c.buf.toList.take c.ind).drop (lenAbove s.levels) from by
      simp [List.drop_take]]
    rw [hlive]; exact List.drop_left' hll
  have hpre : c.buf.toList.take (lenAbove s.levels) = liveLevels s.levels := by
    have : c.buf.toList.take (lenAbove s.levels) = (c.buf.toList.take c.ind).take (lenAbove s.levels) := by
      rw [List.take_take]; congr 1; omega
    rw [this, hlive]; exact List.take_left' hll
  obtain ⟨buf1, w1, w2, w3⟩ := wrSlice_ok (name := "row") c.buf (s.tail.mergeSort kle)
    (lo := lenAbove s.levels) (hi := c.ind) (by omega) h.indle (by simp; omega)
  have hlo1 : lenAbove s.levels < buf1.size := by omega
  have hkeysT : ∀ x ∈ liveLevels s.levels ++ canon s.tail, x.key ≠ -1 := by
    intro x hx
    rcases List.mem_append.mp hx with hx | hx
    · exact h.keys x (by rw [live_eq]; exact List.mem_append_left _ hx)
    · obtain ⟨y, hy, e1, _⟩ := mem_canon hx
      rw [← e1]; exact h.keys y (by rw [live_eq]; exact List.mem_append_right _ hy)
  have hpre1 : buf1.toList.take (lenAbove s.levels) = liveLevels s.levels ++ ([] : List Entry).reverse := by
    rw [w3, List.append_assoc]; simp only [List.reverse_nil, List.append_nil]
    rw [← hpre]; exact List.take_left' (by simp; omega)
  obtain ⟨buf2, s2, cur2, q1, q2, q3, q4⟩ := sumLoop_spec (liveLevels s.levels) (c.ind - lenAbove s.levels)
    (lenAbove s.levels) buf1 (lenAbove s.levels) { buf1[lenAbove s.levels] with val := 0 } []
    (Nat.le_refl _) (by omega) hpre1
  have hsegl : (buf1.toList.drop (lenAbove s.levels)).take (c.ind - lenAbove s.levels) = s.tail.mergeSort kle := by
    rw [w3, List.append_assoc, List.drop_left' (by simp; omega)]
    exact List.take_left' (by simp; omega)
  rw [hsegl] at q4
  have hunf := sumDuplicates_unfold c (m0 := c.mins[0]) (rdA_ok hm0) h.indle (by omega)
    (by rw [hlower, hseg]; exact w1) (by rw [hlower]; exact rdA_ok hlo1) (by rw [hlower]; exact q1)
  rw [hlower] at hunf
  -- the state handed to merge_sum_duplicates
  have key : ∃ buf3 s3, sumDuplicates c = mergeSum { c with buf := buf3, ind := s3 } ∧ buf3.size = c.buf.size ∧
      s3 ≤ buf3.size ∧ buf3.toList.take s3 = liveLevels s.levels ++ canon s.tail := by
    by_cases hgt : c.ind > lenAbove s.levels
    · have hs2 : s2 < buf2.size := by omega
      refine ⟨buf2.set s2 cur2 hs2, s2 + 1, ?_, by simp; omega, by simp; omega, ?_⟩
      · rw [hunf]; simp only [hgt, if_true, wrA_ok _ hs2]; rfl
      rw [Array.toList_set, take_succ_set _ _ _ (by simpa using hs2), q4]
      have hne : s.tail.mergeSort kle ≠ [] := by
        intro hnil
        have := congrArg List.length hnil
        rw [List.length_mergeSort, List.length_nil] at this; omega
      obtain ⟨e0, rest', he⟩ := List.exists_cons_of_ne_nil hne
      have hfirst : buf1[lenAbove s.levels] = e0 := by
        have : buf1.toList[lenAbove s.levels]'(by simpa using hlo1) = e0 := by
          have h5 : (buf1.toList.drop (lenAbove s.levels)).take (c.ind - lenAbove s.levels) = e0 :: rest' := by rw [hsegl, he]
          rw [List.drop_eq_getElem_cons (by simpa using hlo1)] at h5
          cases hc : c.ind - lenAbove s.levels with
          | zero => omega
          | succ n => rw [hc] at h5; simp at h5; exact h5.1
        simpa using this
      rw [hfirst, he, dedupSum_zero_head, ← he]; rfl
    · have htl : s.tail = [] := List.eq_nil_of_length_eq_zero (by omega)
      refine ⟨buf2, s2, ?_, by omega, by omega, ?_⟩
      · rw [hunf]; simp only [hgt, if_false]
      have q4' : buf2.toList.take s2 ++ [cur2] =
          liveLevels s.levels ++ [{ buf1[lenAbove s.levels] with val := 0 }] := by
        rw [q4, htl]; simp
      have := List.append_inj_left' q4' (by simp)
      simp [this, htl, canon, dedupSum]
  obtain ⟨buf3, s3, k1, k2, k3, k4⟩ := key
  have hs3 : s3 = lenAbove s.levels + (canon s.tail).length := by
    have := congrArg List.length k4
    simp at this; omega
  obtain ⟨c', m1, m2, m3, m4, m5, m6, m7, m8, m9, m10⟩ := mergeSum_spec { c with buf := buf3, ind := s3 }
    s.levels (canon s.tail) h.depth hroom h.mins k4 hs3 k3 h.nz hkeysT
  refine ⟨c', by rw [k1]; exact m1, ?_⟩
  have hliveR : Runs.live (round s) = liveLevels (carry (canon s.tail) s.levels) := by simp [Runs.live, round]
  exact {
    cap := by rw [m2]; simp only; rw [k2]; exact h.cap
    mcap := by rw [m3]; exact h.mcap
    depth := m4
    room := m5
    live := by rw [hliveR]; exact m6
    ind := by simp only [Runs.ind, round, List.length_nil, Nat.add_zero]; exact m7
    indle := m8
    mins := m10
    nz := m9
    keys := by
      intro x hx
      rw [hliveR] at hx
      obtain ⟨y, hy, e1, _⟩ := (same_carry (canon s.tail) s.levels).1 x hx
      rw [← e1]; exact hkeysT y hy }

/-! ### merge_all_sum_duplicates -/

theorem compactLoop_spec (mins : Array Int) :
    ∀ (fuel i : Nat) (acc : List Int), i + fuel ≤ mins.size →
      compactLoop mins fuel i acc = .ok (acc.reverse ++ ((mins.toList.drop i).take fuel).filter (· > 0)) := by
  intro fuel
  induction fuel with
  | zero => intro i acc _; simp [compactLoop]
  | succ fuel ih =>
    intro i acc h
    have hi : i < mins.size := by omega
    unfold compactLoop
    simp only [rdA_ok hi, bind, Except.bind]
    rw [ih (i + 1) _ (by omega)]
    have hd : mins.toList.drop i = mins[i] :: mins.toList.drop (i + 1) := by
      rw [List.drop_eq_getElem_cons (by simpa using hi)]; simp
    rw [hd]
    simp only [List.take_succ_cons, List.filter_cons]
    by_cases hm : mins[i] > 0 <;> simp [hm]

theorem lenAbove_somes (ls : List (Option (List Entry))) :
    lenAbove ((ls.filterMap id).map some) = lenAbove ls := by
  rw [← liveLevels_length, ← liveLevels_length, liveLevels_filterMap]

theorem lenAbove_append_nones (xs : List (Option (List Entry))) (n : Nat) :
    lenAbove (xs ++ List.replicate n none) = lenAbove xs := by
  rw [← liveLevels_length, ← liveLevels_length, liveLevels_append_nones]

theorem minsOf_nones (n : Nat) : minsOf (List.replicate n (none : Option (List Entry))) = List.replicate n 0 := by
  induction n with
  | zero => rfl
  | succ n ih =>
    have := lenAbove_append_nones [] n
    simp only [List.nil_append] at this
    simp [List.replicate_succ, minsOf, ih, this, lenAbove]

theorem minsOf_append_nones (xs : List (Option (List Entry))) (n : Nat) :
    minsOf (xs ++ List.replicate n none) = minsOf xs ++ List.replicate n 0 := by
  induction xs with
  | nil => simpa [minsOf] using minsOf_nones n
  | cons o xs ih => cases o <;> simp [minsOf, ih, lenAbove_append_nones]

theorem filter_minsOf (ls : List (Option (List Entry))) (h : NZ ls) :
    (minsOf ls).filter (· > 0) = minsOf ((ls.filterMap id).map some) := by
  induction ls with
  | nil => rfl
  | cons o ls ih =>
    cases o with
    | none =>
      have : ¬ (-(lenAbove ls : Int) > 0) := by omega
      simpa [minsOf, this] using ih h
    | some r =>
      have hp : ((r.length + lenAbove ls : Nat) : Int) > 0 := by have := h.1; omega
      simp only [minsOf, List.filter_cons, hp, decide_true, if_true, List.filterMap_cons, id, List.map_cons,
        lenAbove_somes, ih h.2]

theorem nz_append_nones (xs : List (Option (List Entry))) (n : Nat) (h : NZ xs) :
    NZ (xs ++ List.replicate n none) := by
  induction xs with
  | nil =>
    induction n with
    | zero => trivial
    | succ n ih => simpa [List.replicate_succ, NZ] using ih
  | cons o xs ih =>
    cases o with
    | none => exact ih h
    | some r =>
      refine ⟨?_, ih h.2⟩
      show 0 < r.length + lenAbove (xs ++ List.replicate n none)
      rw [lenAbove_append_nones]; exact h.1

theorem nz_somes (ls : List (Option (List Entry))) (h : NZ ls) : NZ ((ls.filterMap id).map some) := by
  induction ls with
  | nil => trivial
  | cons o ls ih =>
    cases o with
    | none => exact ih h
    | some r => exact ⟨by rw [lenAbove_somes]; exact h.1, ih h.2⟩

theorem nz_compact (ls : List (Option (List Entry))) (h : NZ ls) : NZ (compact ls) :=
  nz_append_nones _ _ (nz_somes ls h)

theorem minsOf_compact (ls : List (Option (List Entry))) (h : NZ ls) :
    minsOf (compact ls) = (minsOf ls).filter (· > 0) ++
      List.replicate (ls.length - ((minsOf ls).filter (· > 0)).length) 0 := by
  rw [filter_minsOf ls h, length_minsOf]
  simp [compact, minsOf_append_nones]

theorem mergeAll_spec {c : Coo} {s : St} (h : Rep c s) (ht : s.tail = [])
    (hroom : s.levels.length + 1 < c.mins.size) :
    ∃ c', mergeAll c = .ok c' ∧ Rep c' (Runs.mergeAll s) := by
  have hdm : c.depth ≤ c.mins.size := by have := h.depth; omega
  have hcl := compactLoop_spec c.mins c.depth 0 [] (by omega)
  have htk : (c.mins.toList.drop 0).take c.depth = minsOf s.levels := by
    rw [List.drop_zero, h.mins, h.depth]
    exact List.take_left' (length_minsOf _)
  rw [htk] at hcl
  simp only [List.reverse_nil, List.nil_append] at hcl
  have hnew : (minsOf s.levels).filter (· > 0) ++
      List.replicate (c.depth - ((minsOf s.levels).filter (· > 0)).length) 0 = minsOf (compact s.levels) := by
    rw [minsOf_compact _ h.nz, h.depth]
  obtain ⟨mins', w1, w2, w3⟩ := wrSlice_ok (name := "min") c.mins (minsOf (compact s.levels))
    (lo := 0) (hi := c.depth) (Nat.zero_le _) hdm (by rw [length_minsOf, length_compact, h.depth]; simp)
  have hlive := h.live
  rw [live_eq, ht, List.append_nil] at hlive
  have hind := h.ind
  simp only [Runs.ind, ht, List.length_nil, Nat.add_zero] at hind
  have hkeys : ∀ x ∈ liveLevels (compact s.levels) ++ ([] : List Entry), x.key ≠ -1 := by
    intro x hx
    rw [List.append_nil, liveLevels_compact] at hx
    exact h.keys x (by rw [live_eq]; exact List.mem_append_left _ hx)
  obtain ⟨c', m1, m2, m3, m4, m5, m6, m7, m8, m9, m10⟩ := mergeSum_spec { c with mins := mins' }
    (compact s.levels) [] (by rw [length_compact]; exact h.depth) (by rw [length_compact, w2]; exact hroom)
    (by
      simp only [w3, List.take_zero, List.nil_append, w2, length_compact]
      congr 1
      rw [h.mins, h.depth]
      exact List.drop_left' (length_minsOf _))
    (by simpa [liveLevels_compact] using hlive) (by simpa [lenAbove_compact] using hind) h.indle
    (nz_compact _ h.nz) hkeys
  refine ⟨c', ?_, ?_⟩
  · unfold mergeAll
    simp only [hcl, bind, Except.bind, hnew, w1]
    exact m1
  have hliveR : Runs.live (Runs.mergeAll s) = liveLevels (carry [] (compact s.levels)) := by
    simp [Runs.live, Runs.mergeAll, ht]
  exact {
    cap := by rw [m2]; exact h.cap
    mcap := by rw [m3]; simp only; rw [w2]; exact h.mcap
    depth := m4
    room := m5
    live := by rw [hliveR]; exact m6
    ind := by simp only [Runs.ind, Runs.mergeAll, ht, List.length_nil, Nat.add_zero]; exact m7
    indle := m8
    mins := m10
    nz := m9
    keys := by
      intro x hx
      rw [hliveR] at hx
      obtain ⟨y, hy, e1, _⟩ := (same_carry [] (compact s.levels)).1 x hx
      rw [← e1]; exact hkeys y hy }

/-! ### coo_increase_mem, the shared body of coo_append's two blocks, coo_append -/

theorem roundHalfEven3_ge (n : Nat) : n ≤ roundHalfEven3 n := by
  unfold roundHalfEven3
  split
  · omega
  · simp only; split <;> omega

theorem increaseMem_spec {c : Coo} {s : St} (lim : Nat) (h : Rep c s) : Rep (increaseMem lim c) (grow lim s) := by
  have hn := roundHalfEven3_ge c.buf.size
  have hm := roundHalfEven3_ge (c.mins.size + 2)
  have hcap := h.cap
  have hmcap := h.mcap
  exact {
    cap := by simp only [increaseMem, grow, Array.size_append, Array.size_replicate, ← hcap]; omega
    mcap := by simp only [increaseMem, grow, Array.size_append, Array.size_replicate, ← hmcap]; omega
    depth := h.depth
    room := by have := h.room; simp only [increaseMem, grow, Array.size_append, Array.size_replicate]; omega
    live := by
      have : (increaseMem lim c).ind = c.ind := rfl
      rw [this]
      simp only [increaseMem, Array.toList_append, Array.toList_replicate]
      rw [List.take_append_of_le_length (by simpa using h.indle)]
      exact h.live
    ind := h.ind
    indle := by
      have := h.indle
      simp only [increaseMem, Array.size_append, Array.size_replicate]; omega
    mins := by
      have hr := h.room
      simp only [increaseMem, grow, Array.toList_append, Array.toList_replicate, Array.size_append,
        Array.size_replicate, h.mins, List.append_assoc]
      congr 1
      rw [List.replicate_append_replicate]; congr 1; omega
    nz := h.nz
    keys := h.keys }

theorem rep_min0 {c : Coo} {s : St} (h : Rep c s) : ∃ hm : 0 < c.mins.size, (c.mins[0]).natAbs = lenAbove s.levels := by
  have hm0 : 0 < c.mins.size := by have := h.room; omega
  obtain ⟨v, rest, hvr, hvabs⟩ := natAbs_head_minsOf s.levels (c.mins.size - s.levels.length) (by have := h.room; omega)
  refine ⟨hm0, ?_⟩
  have h1 := h.mins; rw [hvr] at h1
  have : c.mins.toList[0]'(by simpa using hm0) = v := by simp [h1]
  have : c.mins[0] = v := by simpa using this
  rw [this, hvabs]

theorem length_carry_le (acc : List Entry) (ls : List (Option (List Entry))) :
    (carry acc ls).length ≤ ls.length + 1 := by
  rcases (carry_counter acc ls).2 with h | ⟨h, _⟩ <;> omega

theorem length_round_le (s : St) : (round s).levels.length ≤ s.levels.length + 1 := length_carry_le _ _

theorem length_mergeAll_le (s : St) : (Runs.mergeAll s).levels.length ≤ s.levels.length + 1 := by
  have := length_carry_le [] (compact s.levels)
  rw [length_compact] at this
  exact this

theorem length_compactAndGrow_le (lim : Nat) (s : St) :
    (Runs.compactAndGrow lim s).levels.length ≤ s.levels.length + 2 := by
  have h1 := length_round_le s
  have h2 := length_mergeAll_le (round s)
  unfold Runs.compactAndGrow
  simp only
  split
  · split
    · exact Nat.le_trans h2 (by omega)
    · exact Nat.le_trans h2 (by omega)
  · omega

theorem compactAndGrow_spec {c : Coo} {s : St} (lim : Nat) (h : Rep c s) (hfree : c.ind + 1 ≤ c.buf.size)
    (hroom : s.levels.length + 2 < c.mins.size) :
    ∃ c', compactAndGrow lim c = .ok c' ∧ Rep c' (Runs.compactAndGrow lim s) := by
  obtain ⟨c1, a1, r1⟩ := sumDuplicates_spec h hfree (by omega)
  obtain ⟨hm0, hmin0⟩ := rep_min0 r1
  have hlen1 := length_round_le s
  have hms1 : c1.mins.size = c.mins.size := by rw [r1.mcap, h.mcap]; rfl
  have hcap1 : c1.buf.size = (round s).cap := r1.cap
  have hmc1 : c1.mins.size = (round s).mcap := r1.mcap
  have hd1 : c1.depth = (round s).levels.length := r1.depth
  have hindr : Runs.ind (round s) = lenAbove (round s).levels := by simp [Runs.ind, round]
  unfold compactAndGrow
  simp only [a1, bind, Except.bind, rdA_ok hm0, hmin0]
  by_cases hcond : (round s).cap ≤ Runs.ind (round s) + lim ∨ (round s).levels.length + 4 ≥ (round s).mcap
  · have hcondI : ((c1.buf.size : Nat) : Int) - ((lenAbove (round s).levels : Nat) : Int) ≤ (lim : Int) ∨
        c1.depth + 4 ≥ c1.mins.size := by
      rw [hcap1, hd1, hmc1]; omega
    obtain ⟨c2, a2, r2⟩ := mergeAll_spec r1 rfl (by omega)
    simp only [hcondI, if_true, a2]
    have hi2 : c2.ind = Runs.ind (Runs.mergeAll (round s)) := r2.ind
    have hc2 : c2.buf.size = (Runs.mergeAll (round s)).cap := r2.cap
    have hd2 : c2.depth = (Runs.mergeAll (round s)).levels.length := r2.depth
    have hm2 : c2.mins.size = (Runs.mergeAll (round s)).mcap := r2.mcap
    by_cases hg : 20 * Runs.ind (Runs.mergeAll (round s)) ≥ 19 * (Runs.mergeAll (round s)).cap ∨
        Runs.ind (Runs.mergeAll (round s)) + 1 ≥ (Runs.mergeAll (round s)).cap ∨
        (Runs.mergeAll (round s)).levels.length + 4 ≥ (Runs.mergeAll (round s)).mcap
    · have hgI : 20 * c2.ind ≥ 19 * c2.buf.size ∨ c2.ind + 1 ≥ c2.buf.size ∨ c2.depth + 4 ≥ c2.mins.size := by
        rw [hi2, hc2, hd2, hm2]; exact hg
      refine ⟨increaseMem lim c2, by simp only [hgI, if_true, pure, Except.pure], ?_⟩
      have : Runs.compactAndGrow lim s = grow lim (Runs.mergeAll (round s)) := by
        unfold Runs.compactAndGrow; simp only [hcond, if_true, hg]
      rw [this]; exact increaseMem_spec lim r2
    · have hgI : ¬ (20 * c2.ind ≥ 19 * c2.buf.size ∨ c2.ind + 1 ≥ c2.buf.size ∨ c2.depth + 4 ≥ c2.mins.size) := by
        rw [hi2, hc2, hd2, hm2]; exact hg
      refine ⟨c2, by simp only [hgI, if_false, pure, Except.pure], ?_⟩
      have : Runs.compactAndGrow lim s = Runs.mergeAll (round s) := by
        unfold Runs.compactAndGrow; simp only [hcond, if_true, hg, if_false]
      rw [this]; exact r2
  · have hcondI : ¬ (((c1.buf.size : Nat) : Int) - ((lenAbove (round s).levels : Nat) : Int) ≤ (lim : Int) ∨
        c1.depth + 4 ≥ c1.mins.size) := by
      rw [hcap1, hd1, hmc1]; omega
    refine ⟨c1, by simp only [hcondI, if_false, pure, Except.pure], ?_⟩
    have : Runs.compactAndGrow lim s = round s := by
      unfold Runs.compactAndGrow; simp only [hcond, if_false]
    rw [this]; exact r1

theorem rep_snoc {c : Coo} {s : St} (e : Entry) (h : Rep c s) (hfree : c.ind < c.buf.size) (he : e.key ≠ -1) :
    Rep { c with buf := c.buf.set c.ind e hfree, ind := c.ind + 1 } { s with tail := s.tail ++ [e] } := by
  exact {
    cap := by simpa using h.cap
    mcap := h.mcap
    depth := h.depth
    room := h.room
    live := by
      simp only [Array.toList_set]
      rw [take_succ_set _ _ _ (by simpa using hfree), h.live]
      simp [Runs.live]
    ind := by have := h.ind; simp only [Runs.ind, List.length_append, List.length_singleton] at this ⊢; omega
    indle := by simp; omega
    mins := h.mins
    nz := h.nz
    keys := by
      intro x hx
      simp only [Runs.live, List.mem_append, List.mem_singleton] at hx
      rcases hx with hx | hx | hx
      · exact h.keys x (by simp [Runs.live, hx])
      · exact h.keys x (by simp [Runs.live, hx])
      · rw [hx]; exact he }

/-- one `coo = coo_append(coo, e)` at index level: never fails, and the result represents the
run-level `append` — provided there is room for two entries and four more levels in `min` -/
theorem append_spec {c : Coo} {s : St} {lim : Nat} (e : Entry) (hl : 1 ≤ lim) (h : Rep c s)
    (hfree : Runs.ind s + 2 ≤ s.cap) (hroom : s.levels.length + 4 < s.mcap) (he : e.key ≠ -1) :
    ∃ c', append lim c e = .ok c' ∧ Rep c' (Runs.append lim s e) := by
  have hi : c.ind < c.buf.size := by rw [h.ind, h.cap]; omega
  have hi2 : c.ind + 2 ≤ c.buf.size := by rw [h.ind, h.cap]; omega
  have r1 := rep_snoc e h hi he
  obtain ⟨hm0, hmin0⟩ := rep_min0 r1
  have hmc : c.mins.size = s.mcap := h.mcap
  have hind1 : c.ind + 1 = lenAbove s.levels + (s.tail ++ [e]).length := by
    have := h.ind; simp only [Runs.ind] at this; simp; omega
  unfold append
  simp only [wrA_ok _ hi, bind, Except.bind, rdA_ok hm0, hmin0]
  -- first block
  have step1 : ∃ c2, (if ((c.ind + 1 : Nat) : Int) - ((lenAbove s.levels : Nat) : Int) ≥ (lim : Int)
        then compactAndGrow lim { c with buf := c.buf.set c.ind e hi, ind := c.ind + 1 }
        else pure { c with buf := c.buf.set c.ind e hi, ind := c.ind + 1 }) = .ok c2 ∧
      Rep c2 (if (s.tail ++ [e]).length ≥ lim then Runs.compactAndGrow lim { s with tail := s.tail ++ [e] }
        else { s with tail := s.tail ++ [e] }) := by
    by_cases hc : (s.tail ++ [e]).length ≥ lim
    · have hcI : ((c.ind + 1 : Nat) : Int) - ((lenAbove s.levels : Nat) : Int) ≥ (lim : Int) := by omega
      obtain ⟨c2, a2, r2⟩ := compactAndGrow_spec lim r1 (by simp only [Array.size_set]; omega) (by simp only; omega)
      exact ⟨c2, by simp only [hcI, if_true]; exact a2, by simp only [hc, if_true]; exact r2⟩
    · have hcI : ¬ (((c.ind + 1 : Nat) : Int) - ((lenAbove s.levels : Nat) : Int) ≥ (lim : Int)) := by omega
      exact ⟨_, by simp only [hcI, if_false]; rfl, by simp only [hc, if_false]; exact r1⟩
  obtain ⟨c2, a2, r2⟩ := step1
  simp only [a2]
  -- facts about the run-level intermediate state
  generalize hs2 : (if (s.tail ++ [e]).length ≥ lim then Runs.compactAndGrow lim { s with tail := s.tail ++ [e] }
        else { s with tail := s.tail ++ [e] }) = s2 at r2
  have hs1ind : Runs.ind { s with tail := s.tail ++ [e] } = Runs.ind s + 1 := ind_snoc s e
  have hfree2 : Runs.ind s2 + 1 ≤ s2.cap := by
    rw [← hs2]; split
    · have := room_compactAndGrow (lim := lim) (s := { s with tail := s.tail ++ [e] }) hl (by rw [hs1ind]; simp only; omega)
      omega
    · rw [hs1ind]; simp only; omega
  have hlen2 : s2.levels.length ≤ s.levels.length + 2 ∧ s.mcap ≤ s2.mcap := by
    rw [← hs2]; split
    · exact ⟨length_compactAndGrow_le lim _, mcap_compactAndGrow lim { s with tail := s.tail ++ [e] }⟩
    · exact ⟨by simp, Nat.le_refl _⟩
  have happ : Runs.append lim s e = if Runs.ind s2 + 1 = s2.cap then Runs.compactAndGrow lim s2 else s2 := by
    unfold Runs.append; simp only; rw [hs2]
  rw [happ]
  by_cases hc2 : Runs.ind s2 + 1 = s2.cap
  · have hcI : (c2.ind : Int) = (c2.buf.size : Int) - 1 := by rw [r2.ind, r2.cap]; omega
    obtain ⟨c3, a3, r3⟩ := compactAndGrow_spec lim r2 (by rw [r2.ind, r2.cap]; omega) (by rw [r2.mcap]; omega)
    exact ⟨c3, by simp only [hcI, if_true]; exact a3, by simp only [hc2, if_true]; exact r3⟩
  · have hcI : ¬ ((c2.ind : Int) = (c2.buf.size : Int) - 1) := by rw [r2.ind, r2.cap]; omega
    exact ⟨c2, by simp only [hcI, if_false]; rfl, by simp only [hc2, if_false]; exact r2⟩

/-! ### whole runs -/

theorem room_append {lim : Nat} {s : St} (e : Entry) (hl : 1 ≤ lim) (h : Runs.ind s + 2 ≤ s.cap) :
    Runs.ind (Runs.append lim s e) + 2 ≤ (Runs.append lim s e).cap := by
  have hs1 : Runs.ind { s with tail := s.tail ++ [e] } = Runs.ind s + 1 := ind_snoc s e
  have hc1 : ({ s with tail := s.tail ++ [e] } : St).cap = s.cap := rfl
  unfold Runs.append
  simp only
  split
  · have hr := room_compactAndGrow (lim := lim) (s := { s with tail := s.tail ++ [e] }) hl (by omega)
    split
    · exact room_compactAndGrow hl (by omega)
    · exact hr
  · split
    · exact room_compactAndGrow hl (by omega)
    · omega

/-- the run-boundary stack keeps four free slots before every append (and before finalisation):
the one hypothesis of the refinement that is about `min` -/
def DepthOK (lim : Nat) : St → List Entry → Prop
  | s, [] => s.levels.length + 4 < s.mcap
  | s, e :: es => s.levels.length + 4 < s.mcap ∧ DepthOK lim (Runs.append lim s e) es

theorem mk_rep {cap : Nat} (h : 2 ≤ cap) : ∃ c, mk cap = .ok c ∧ Rep c (Runs.mk cap) := by
  have hc : ¬ cap = 0 := by omega
  have hlog : 1 ≤ clog2 cap := by unfold clog2; split <;> omega
  refine ⟨{ buf := Array.replicate cap Entry.zero, ind := 0, mins := Array.replicate (2 * clog2 cap) 0, depth := 0 },
    by simp only [mk, hc, if_false], ?_⟩
  exact {
    cap := by simp [Runs.mk]
    mcap := by simp [Runs.mk]
    depth := rfl
    room := by simp [Runs.mk]; omega
    live := by simp [Runs.mk, Runs.live, liveLevels]
    ind := by simp [Runs.mk, Runs.ind, lenAbove]
    indle := by simp
    mins := by simp [Runs.mk, minsOf]
    nz := trivial
    keys := by intro x hx; simp [Runs.mk, Runs.live, liveLevels] at hx }

theorem appendAll_spec {lim : Nat} (hl : 1 ≤ lim) (es : List Entry) :
    ∀ {c : Coo} {s : St}, Rep c s → Runs.ind s + 2 ≤ s.cap → (∀ e ∈ es, e.key ≠ -1) → DepthOK lim s es →
      ∃ c', appendAll lim c es = .ok c' ∧ Rep c' (Runs.appendAll lim s es) ∧
        Runs.ind (Runs.appendAll lim s es) + 2 ≤ (Runs.appendAll lim s es).cap ∧
        (Runs.appendAll lim s es).levels.length + 4 < (Runs.appendAll lim s es).mcap := by
  induction es with
  | nil =>
    intro c s h hf _ hd
    exact ⟨c, rfl, by simpa [Runs.appendAll] using h, by simpa [Runs.appendAll] using hf,
      by simpa [Runs.appendAll, DepthOK] using hd⟩
  | cons e es ih =>
    intro c s h hf hk hd
    obtain ⟨c1, a1, r1⟩ := append_spec e hl h hf hd.1 (hk e (by simp))
    obtain ⟨c2, a2, r2, f2, d2⟩ := ih r1 (room_append e hl hf) (fun x hx => hk x (List.mem_cons_of_mem _ hx)) hd.2
    refine ⟨c2, ?_, ?_, ?_, ?_⟩
    · simp only [appendAll, a1, bind, Except.bind]; exact a2
    · simpa [Runs.appendAll] using r2
    · simpa [Runs.appendAll] using f2
    · simpa [Runs.appendAll] using d2

theorem finalize_spec {c : Coo} {s : St} (h : Rep c s) (hf : Runs.ind s + 1 ≤ s.cap)
    (hroom : s.levels.length + 2 < s.mcap) :
    ∃ c', finalize c = .ok c' ∧ Rep c' (Runs.finalize s) := by
  obtain ⟨c1, a1, r1⟩ := sumDuplicates_spec h (by rw [h.ind, h.cap]; exact hf) (by rw [h.mcap]; omega)
  have := length_round_le s
  obtain ⟨c2, a2, r2⟩ := mergeAll_spec r1 rfl (by rw [r1.mcap]; show _ < s.mcap; omega)
  exact ⟨c2, by simp only [finalize, a1, bind, Except.bind]; exact a2, r2⟩

/-- the whole pipeline of one buffer: the index-level model (checked accesses) never fails and
returns exactly the run-level result -/
theorem build_spec {lim cap : Nat} (es : List Entry) (hl : 1 ≤ lim) (hc : 2 ≤ cap)
    (hk : ∀ e ∈ es, e.key ≠ -1) (hd : DepthOK lim (Runs.mk cap) es) :
    build lim cap es = .ok (Runs.build lim cap es) := by
  obtain ⟨c0, a0, r0⟩ := mk_rep hc
  obtain ⟨c1, a1, r1, f1, d1⟩ := appendAll_spec hl es r0 (by simpa [Runs.mk, Runs.ind, lenAbove] using hc) hk hd
  obtain ⟨c2, a2, r2⟩ := finalize_spec r1 (by omega) (by omega)
  simp only [build, a0, a1, a2, bind, Except.bind, pure, Except.pure]
  congr 1
  have := r2.live
  simpa [live, Runs.build] using this

/-! ### the `min` guard of coo_append keeps four free slots -/

theorem depthInv_compactAndGrow {lim : Nat} {s : St} (h : s.levels.length + 4 < s.mcap) :
    (Runs.compactAndGrow lim s).levels.length + 4 < (Runs.compactAndGrow lim s).mcap := by
  have h1 := length_round_le s
  have h2 := length_mergeAll_le (round s)
  have hm1 : (round s).mcap = s.mcap := rfl
  have hm2 : (Runs.mergeAll (round s)).mcap = s.mcap := rfl
  unfold Runs.compactAndGrow
  simp only
  split
  · split
    · have hg := roundHalfEven3_gt (s.mcap + 2) (by omega)
      have e1 : (grow lim (Runs.mergeAll (round s))).levels = (Runs.mergeAll (round s)).levels := rfl
      have e2 : (grow lim (Runs.mergeAll (round s))).mcap = roundHalfEven3 (s.mcap + 2) := rfl
      rw [e1, e2]; omega
    · next hng => omega
  · next hnc => omega

theorem depthInv_append {lim : Nat} {s : St} (e : Entry) (h : s.levels.length + 4 < s.mcap) :
    (Runs.append lim s e).levels.length + 4 < (Runs.append lim s e).mcap := by
  have h0 : ({ s with tail := s.tail ++ [e] } : St).levels.length + 4 < ({ s with tail := s.tail ++ [e] } : St).mcap := h
  unfold Runs.append
  simp only
  split
  · split
    · exact depthInv_compactAndGrow (depthInv_compactAndGrow h0)
    · exact depthInv_compactAndGrow h0
  · split
    · exact depthInv_compactAndGrow h0
    · exact h0

/-- with the guard, `DepthOK` is an invariant: it holds for every event list as soon as the fresh
`min` has more than four slots -/
theorem depthOK_of_inv {lim : Nat} (es : List Entry) :
    ∀ {s : St}, s.levels.length + 4 < s.mcap → DepthOK lim s es := by
  induction es with
  | nil => intro s h; exact h
  | cons e es ih => intro s h; exact ⟨h, ih (depthInv_append e h)⟩

theorem clog2_ge_three {cap : Nat} (h : 5 ≤ cap) : 3 ≤ clog2 cap := by
  unfold clog2
  have : ¬ cap ≤ 1 := by omega
  simp only [this, if_false]
  have : 2 ≤ (cap - 1).log2 := (Nat.le_log2 (by omega)).mpr (by omega)
  omega

theorem depthOK_mk (lim : Nat) {cap : Nat} (h : 5 ≤ cap) (es : List Entry) : DepthOK lim (Runs.mk cap) es := by
  apply depthOK_of_inv
  have := clog2_ge_three h
  simp only [Runs.mk, List.length_nil]; omega

/-- `DepthOK` from the binary-counter bound: enough slots in `min` for the number of appends -/
theorem depthOK_of_di {lim : Nat} (es : List Entry) :
    ∀ {t : Nat} {s : St}, DI t s.levels → 16 * (2 * (t + 4 * es.length) + 1) < 2 ^ s.mcap → DepthOK lim s es := by
  induction es with
  | nil =>
    intro t s hdi hb
    simp only [DepthOK]
    have h2 := hdi.2
    have : 2 ^ (s.levels.length + 4) < 2 ^ s.mcap := by
      rw [Nat.pow_add]; simp only [List.length_nil, Nat.mul_zero, Nat.add_zero] at hb; omega
    exact (Nat.pow_lt_pow_iff_right (a := 2) (by omega)).mp this
  | cons e es ih =>
    intro t s hdi hb
    simp only [List.length_cons] at hb
    refine ⟨?_, ?_⟩
    · have h2 := hdi.2
      have : 2 ^ (s.levels.length + 4) < 2 ^ s.mcap := by rw [Nat.pow_add]; omega
      exact (Nat.pow_lt_pow_iff_right (a := 2) (by omega)).mp this
    · apply ih (di_append (lim := lim) e hdi)
      have hm := Nat.pow_le_pow_right (n := 2) (by omega) (mcap_append lim s e)
      omega

theorem depthOK_of_bound (lim cap : Nat) (es : List Entry)
    (h : 16 * (8 * es.length + 1) < 2 ^ (2 * clog2 cap)) : DepthOK lim (Runs.mk cap) es := by
  apply depthOK_of_di es (t := 0) ⟨by simp [Runs.mk, cval], by simp [Runs.mk]⟩
  simp only [Runs.mk]; omega

end VecModel.Coo
