import VecModel.Lemmas.Window
/- Helper lemmas for Props/C03 and C14: matrix cells of event lists, structure of the events. -/
set_option linter.unusedSimpArgs false
set_option linter.unusedVariables false
namespace VecModel.Cooc
open VecModel.Window

/-! ### cells -/

theorem cellSum_nil (r c : Nat) : cellSum [] r c = 0 := by simp [cellSum]

theorem cellSum_cons (e : Event) (es : List Event) (r c : Nat) :
    cellSum (e :: es) r c = (if e.1 = r ∧ e.2.1 = c then e.2.2 else 0) + cellSum es r c := by
  unfold cellSum
  by_cases h : e.1 = r ∧ e.2.1 = c
  · simp [List.filter_cons, h]
  · have : (e.1 == r && e.2.1 == c) = false := by
      simp only [Bool.and_eq_false_imp, beq_iff_eq, beq_eq_false_iff_ne]
      intro h1 h2; exact h ⟨h1, h2⟩
    simp [List.filter_cons, this, h]

theorem cellSum_append (a b : List Event) (r c : Nat) :
    cellSum (a ++ b) r c = cellSum a r c + cellSum b r c := by
  simp [cellSum, List.filter_append, List.sum_append]

theorem cellSum_flatMap (l : List α) (f : α → List Event) (r c : Nat) :
    cellSum (l.flatMap f) r c = sumOver l (fun x => cellSum (f x) r c) := by
  induction l with
  | nil => simp [cellSum_nil, sumOver_nil]
  | cons x l ih => simp [List.flatMap_cons, cellSum_append, sumOver_cons, ih]

theorem cellSum_filterMap (l : List α) (f : α → Option Event) (r c : Nat) :
    cellSum (l.filterMap f) r c =
      sumOver l (fun x => match f x with
        | some e => if e.1 = r ∧ e.2.1 = c then e.2.2 else 0
        | none => 0) := by
  induction l with
  | nil => simp [cellSum_nil, sumOver_nil]
  | cons x l ih =>
    rw [sumOver_cons, List.filterMap_cons]
    cases h : f x with
    | none => simp [ih]
    | some e => simp [cellSum_cons, ih]

/-- a cell is zero when no event addresses it -/
theorem cellSum_eq_zero_of_forall {es : List Event} {r c : Nat}
    (h : ∀ e ∈ es, ¬ (e.1 = r ∧ e.2.1 = c)) : cellSum es r c = 0 := by
  induction es with
  | nil => exact cellSum_nil r c
  | cons e es ih =>
    rw [cellSum_cons, ih (fun e' he' => h e' (List.mem_cons_of_mem _ he'))]
    simp [h e (List.mem_cons_self)]

/-! ### windows commute with relabelling the entries -/

theorem windowAt_map (f : α → β) (s : List α) (r i : Nat) (rev : Bool) :
    windowAt (s.map f) r i rev = (windowAt s r i rev).map f := by
  cases rev <;> simp [windowAt, List.map_take, List.map_drop, List.map_reverse]

theorem mapIdx_map (l : List α) (g : α → β) (f : Nat → β → γ) :
    (l.map g).mapIdx f = l.mapIdx (fun k x => f k (g x)) := by
  apply List.ext_getElem?
  intro k
  simp [List.getElem?_mapIdx, List.getElem?_map]
  cases l[k]? <;> simp

/-! ### events of one occurrence -/

theorem mem_occ_events {n : Nat} {nw : Bool} {o : Occ} {e : Event} (h : e ∈ o.events n nw) :
    ∃ b, ∃ w, o.wins[b]? = some w ∧ ∃ cv ∈ w.1.zip w.2,
      cv.2 / o.total nw > 0 ∧ e = (o.row, cv.1 + b * n, cv.2 / o.total nw) := by
  unfold Occ.events at h
  rw [List.mem_flatMap] at h
  obtain ⟨wb, hwb, he⟩ := h
  rw [List.mem_filterMap] at he
  obtain ⟨cv, hcv, hsome⟩ := he
  obtain ⟨w, b⟩ := wb
  have hidx := List.mem_zipIdx hwb
  refine ⟨b, w, ?_, cv, hcv, ?_⟩
  · have := hidx.2.2
    simp at this
    rw [List.getElem?_eq_getElem (by omega)]
    simp [this]
  · by_cases hp : cv.2 / o.total nw > 0
    · simp only [hp, if_true, Option.some.injEq] at hsome
      exact ⟨hp, hsome.symm⟩
    · simp [hp] at hsome

end VecModel.Cooc
