import Mathlib.Algebra.Order.Field.Rat
import Mathlib.Tactic.Ring
import Mathlib.Tactic.Linarith
import Batteries.Data.List.Perm
import Mathlib.Algebra.Order.BigOperators.Group.List
import VecModel.Model.Distances
/-
  Helper lemmas for C18, exact layer: the index-level merge loop refines the functional merge;
  keys, dense values and length bounds of the functional merge; index-set helpers.
  (The analysis over ℝ is in Lemmas/DistancesReal.lean.)
-/
namespace VecModel.Dist

theorem zip_drop_cons {α β} (a : List α) (b : List β) (i : Nat) (ha : i < a.length) (hb : i < b.length) :
    List.zip (a.drop i) (b.drop i) = (a[i], b[i]) :: List.zip (a.drop (i + 1)) (b.drop (i + 1)) := by
  conv => lhs; rw [List.drop_eq_getElem_cons ha, List.drop_eq_getElem_cons hb]
  rfl

theorem push_none {β} (cap : Nat) (out : List β) : push cap out none = .ok out := rfl

theorem push_ok {β} (cap : Nat) (out : List β) (o : Option β) (h : out.length + o.toList.length ≤ cap) :
    push cap out o = .ok (out ++ o.toList) := by
  cases o with
  | none => simp [push]
  | some v =>
    simp only [Option.toList_some, List.length_cons, List.length_nil] at h
    simp only [push, Option.toList_some]
    rw [if_pos (by omega)]

theorem mergeF_nil_left {β} (c : Cfg β) (ys : List (Nat × Rat)) :
    mergeF c [] ys = ys.filterMap (fun p => c.right p.1 p.2) := by
  unfold mergeF; rfl

theorem mergeF_nil_right {β} (c : Cfg β) (xs : List (Nat × Rat)) :
    mergeF c xs [] = xs.filterMap (fun p => c.left p.1 p.2) := by
  cases xs with
  | nil => unfold mergeF; rfl
  | cons x xs => unfold mergeF; rfl

theorem mergeF_cons {β} (c : Cfg β) (x y : Nat × Rat) (xs ys : List (Nat × Rat)) :
    mergeF c (x :: xs) (y :: ys) =
      if x.1 = y.1 then (c.both x.1 x.2 y.2).toList ++ mergeF c xs ys
      else if x.1 < y.1 then (c.left x.1 x.2).toList ++ mergeF c xs (y :: ys)
      else (c.right y.1 y.2).toList ++ mergeF c (x :: xs) ys := by
  rw [mergeF]


theorem filterMap_cons_toList {α β} (f : α → Option β) (a : α) (l : List α) :
    (a :: l).filterMap f = (f a).toList ++ l.filterMap f := by
  rw [List.filterMap_cons]; cases f a <;> rfl

theorem tailLoop_spec {β} (name : String) (f : Nat → Rat → Option β) (ind : List Nat)
    (data : List Rat) (cap : Nat) (hlen : data.length = ind.length) :
    ∀ (fuel i : Nat) (out : List β), ind.length - i ≤ fuel → i ≤ ind.length →
      out.length + ((List.zip (ind.drop i) (data.drop i)).filterMap (fun p => f p.1 p.2)).length ≤ cap →
      tailLoop name f ind data cap fuel i out
        = .ok (out ++ (List.zip (ind.drop i) (data.drop i)).filterMap (fun p => f p.1 p.2)) := by
  intro fuel
  induction fuel with
  | zero =>
    intro i out hf hi hcap
    have : i = ind.length := by omega
    subst this
    simp [tailLoop]
  | succ fuel ih =>
    intro i out hf hi hcap
    unfold tailLoop
    by_cases hlt : i < ind.length
    · rw [if_pos hlt]
      have hd : i < data.length := by omega
      rw [rd_ok hd, rd_ok hlt]
      rw [zip_drop_cons ind data i hlt hd, filterMap_cons_toList] at hcap ⊢
      simp only [List.length_append] at hcap
      simp only [bind, Except.bind]
      rw [push_ok cap out _ (by omega)]
      simp only []
      rw [ih (i + 1) _ (by omega) (by omega) (by simp only [List.length_append]; omega)]
      simp
    · rw [if_neg hlt]
      have : i = ind.length := by omega
      subst this
      simp


/-- the configuration writes nothing one-sided when it has no tail loops (`sparse_mul`) -/
def Cfg.Coherent {β} (c : Cfg β) : Prop :=
  c.tails = false → ∀ j v, c.left j v = none ∧ c.right j v = none

theorem mainLoop_spec {β} (c : Cfg β) (ind1 : List Nat) (data1 : List Rat) (ind2 : List Nat)
    (data2 : List Rat) (cap : Nat) (h1 : data1.length = ind1.length)
    (h2 : data2.length = ind2.length) (hc : c.Coherent) :
    ∀ (fuel i1 i2 : Nat) (out : List β),
      (ind1.length - i1) + (ind2.length - i2) ≤ fuel → i1 ≤ ind1.length → i2 ≤ ind2.length →
      out.length + (mergeF c (List.zip (ind1.drop i1) (data1.drop i1))
        (List.zip (ind2.drop i2) (data2.drop i2))).length ≤ cap →
      ∃ i1' i2' out', mainLoop c ind1 data1 ind2 data2 cap fuel i1 i2 out = .ok (i1', i2', out') ∧
        i1' ≤ ind1.length ∧ i2' ≤ ind2.length ∧ (i1' = ind1.length ∨ i2' = ind2.length) ∧
        out' ++ mergeF c (List.zip (ind1.drop i1') (data1.drop i1'))
            (List.zip (ind2.drop i2') (data2.drop i2'))
          = out ++ mergeF c (List.zip (ind1.drop i1) (data1.drop i1))
            (List.zip (ind2.drop i2) (data2.drop i2)) := by
  intro fuel
  induction fuel with
  | zero =>
    intro i1 i2 out hf hi1 hi2 _
    refine ⟨i1, i2, out, ?_, hi1, hi2, by omega, rfl⟩
    unfold mainLoop
    rw [if_neg (by omega)]
  | succ fuel ih =>
    intro i1 i2 out hf hi1 hi2 hcap
    unfold mainLoop
    by_cases hlt : i1 < ind1.length ∧ i2 < ind2.length
    · rw [if_pos hlt]
      obtain ⟨hl1, hl2⟩ := hlt
      have hd1 : i1 < data1.length := by omega
      have hd2 : i2 < data2.length := by omega
      rw [rd_ok hl1, rd_ok hl2]
      simp only [bind, Except.bind]
      rw [zip_drop_cons ind1 data1 i1 hl1 hd1, zip_drop_cons ind2 data2 i2 hl2 hd2, mergeF_cons] at hcap ⊢
      simp only [] at hcap ⊢
      by_cases hj : ind1[i1] = ind2[i2]
      · rw [if_pos hj] at hcap ⊢
        rw [if_pos hj]
        rw [rd_ok hd1, rd_ok hd2]
        simp only [List.length_append] at hcap
        simp only []
        rw [push_ok cap out _ (by omega)]
        simp only []
        obtain ⟨a, b, o, e, ha, hb, hab, heq⟩ := ih (i1 + 1) (i2 + 1) (out ++ (c.both ind1[i1] data1[i1] data2[i2]).toList)
          (by omega) (by omega) (by omega) (by simp only [List.length_append]; omega)
        exact ⟨a, b, o, e, ha, hb, hab, by rw [heq, List.append_assoc]⟩
      · rw [if_neg hj] at hcap ⊢
        rw [if_neg hj]
        by_cases hlt' : ind1[i1] < ind2[i2]
        · rw [if_pos hlt'] at hcap ⊢
          rw [if_pos hlt']
          rw [← zip_drop_cons ind2 data2 i2 hl2 hd2] at hcap ⊢
          simp only [List.length_append] at hcap
          cases ht : c.tails with
          | true =>
            simp only [if_true]
            rw [rd_ok hd1]
            simp only []
            rw [push_ok cap out _ (by omega)]
            simp only []
            obtain ⟨a, b, o, e, ha, hb, hab, heq⟩ := ih (i1 + 1) i2 (out ++ (c.left ind1[i1] data1[i1]).toList)
              (by omega) (by omega) (by omega) (by simp only [List.length_append]; omega)
            exact ⟨a, b, o, e, ha, hb, hab, by rw [heq, List.append_assoc]⟩
          | false =>
            simp only [Bool.false_eq_true, if_false]
            have hnone := (hc ht ind1[i1] data1[i1]).1
            rw [hnone] at hcap ⊢
            simp only [Option.toList_none, List.length_nil, List.nil_append] at hcap ⊢
            exact ih (i1 + 1) i2 out (by omega) (by omega) (by omega) (by omega)
        · rw [if_neg hlt'] at hcap ⊢
          rw [if_neg hlt']
          rw [← zip_drop_cons ind1 data1 i1 hl1 hd1] at hcap ⊢
          simp only [List.length_append] at hcap
          cases ht : c.tails with
          | true =>
            simp only [if_true]
            rw [rd_ok hd2]
            simp only []
            rw [push_ok cap out _ (by omega)]
            simp only []
            obtain ⟨a, b, o, e, ha, hb, hab, heq⟩ := ih i1 (i2 + 1) (out ++ (c.right ind2[i2] data2[i2]).toList)
              (by omega) (by omega) (by omega) (by simp only [List.length_append]; omega)
            exact ⟨a, b, o, e, ha, hb, hab, by rw [heq, List.append_assoc]⟩
          | false =>
            simp only [Bool.false_eq_true, if_false]
            have hnone := (hc ht ind2[i2] data2[i2]).2
            rw [hnone] at hcap ⊢
            simp only [Option.toList_none, List.length_nil, List.nil_append] at hcap ⊢
            exact ih i1 (i2 + 1) out (by omega) (by omega) (by omega) (by omega)
    · rw [if_neg hlt]
      exact ⟨i1, i2, out, rfl, hi1, hi2, by omega, rfl⟩


theorem filterMap_none' {α β} (f : α → Option β) (l : List α) (h : ∀ a, f a = none) :
    l.filterMap f = [] := by
  induction l with
  | nil => rfl
  | cons a l ih => rw [List.filterMap_cons, h a]; exact ih

/-- **Refinement**: with matching array lengths and a result buffer at least as long as the
merged list, the index-level kernel (checked reads and writes, main loop + tail loops) never
fails and returns the functional merge. -/
theorem mergeIdx_eq {β} (c : Cfg β) (ind1 : List Nat) (data1 : List Rat) (ind2 : List Nat)
    (data2 : List Rat) (cap : Nat) (h1 : data1.length = ind1.length)
    (h2 : data2.length = ind2.length) (hc : c.Coherent)
    (hcap : (mergeF c (List.zip ind1 data1) (List.zip ind2 data2)).length ≤ cap) :
    mergeIdx c ind1 data1 ind2 data2 cap = .ok (mergeF c (List.zip ind1 data1) (List.zip ind2 data2)) := by
  obtain ⟨a, b, o, e, ha, hb, hab, heq⟩ := mainLoop_spec c ind1 data1 ind2 data2 cap h1 h2 hc
    (ind1.length + ind2.length) 0 0 [] (by omega) (by omega) (by omega) (by simpa using hcap)
  simp only [List.drop_zero, List.nil_append] at heq
  unfold mergeIdx
  rw [e]
  simp only [bind, Except.bind]
  cases ht : c.tails with
  | false =>
    simp only [Bool.false_eq_true, if_false]
    have hl := fun p : Nat × Rat => (hc ht p.1 p.2).1
    have hr := fun p : Nat × Rat => (hc ht p.1 p.2).2
    rcases hab with rfl | rfl
    · rw [List.drop_length, List.zip_nil_left, mergeF_nil_left, filterMap_none' _ _ hr] at heq
      rw [← heq]; simp
    · rw [List.drop_length (l := ind2), List.zip_nil_left, mergeF_nil_right, filterMap_none' _ _ hl] at heq
      rw [← heq]; simp
  | true =>
    simp only [if_true]
    have hlen : o.length + (mergeF c (List.zip (ind1.drop a) (data1.drop a))
        (List.zip (ind2.drop b) (data2.drop b))).length ≤ cap := by
      have := congrArg List.length heq
      simp only [List.length_append] at this
      omega
    rcases hab with rfl | rfl
    · rw [List.drop_length, List.zip_nil_left, mergeF_nil_left] at heq hlen
      rw [tailLoop_spec "data1" c.left ind1 data1 cap h1 _ _ _ (by omega) (by omega)
        (by rw [List.drop_length]; simpa using by omega)]
      simp only [List.drop_length, List.zip_nil_left, List.filterMap_nil, List.append_nil]
      rw [tailLoop_spec "data2" c.right ind2 data2 cap h2 _ _ _ (by omega) hb hlen]
      rw [heq]
    · rw [List.drop_length (l := ind2), List.zip_nil_left, mergeF_nil_right] at heq hlen
      rw [tailLoop_spec "data1" c.left ind1 data1 cap h1 _ _ _ (by omega) ha hlen]
      simp only []
      rw [tailLoop_spec "data2" c.right ind2 data2 cap h2 _ _ _ (by omega) (by omega)
        (by rw [List.drop_length]; simp only [List.zip_nil_left, List.filterMap_nil, List.length_nil,
              List.length_append]; omega)]
      simp only [List.drop_length, List.zip_nil_left, List.filterMap_nil, List.append_nil]
      rw [heq]


/-! ## Keys of the functional merge -/

def keys (l : List (Nat × Rat)) : List Nat := l.map (·.1)

/-- strictly increasing index array (sorted, duplicate free) -/
def StrictInc (l : List Nat) : Prop := l.Pairwise (· < ·)

/-- merge-union of two index lists -/
def unionKeys : List Nat → List Nat → List Nat
  | [], ys => ys
  | x :: xs, [] => x :: xs
  | x :: xs, y :: ys =>
    if x = y then x :: unionKeys xs ys
    else if x < y then x :: unionKeys xs (y :: ys)
    else y :: unionKeys (x :: xs) ys
termination_by a b => a.length + b.length

theorem unionKeys_nil_right (xs : List Nat) : unionKeys xs [] = xs := by
  cases xs <;> simp [unionKeys]

theorem mem_unionKeys (z : Nat) : ∀ (a b : List Nat), z ∈ unionKeys a b ↔ z ∈ a ∨ z ∈ b := by
  intro a b
  fun_induction unionKeys a b with
  | case1 ys => simp
  | case2 x xs => simp
  | case3 xs x ys ih => simp only [List.mem_cons, ih]; tauto
  | case4 x xs y ys h hlt ih => simp only [List.mem_cons, ih]; tauto
  | case5 x xs y ys h hlt ih => simp only [List.mem_cons, ih]; tauto

theorem strictInc_unionKeys : ∀ (a b : List Nat), StrictInc a → StrictInc b →
    StrictInc (unionKeys a b) := by
  intro a b
  unfold StrictInc
  fun_induction unionKeys a b with
  | case1 ys => intro _ h; exact h
  | case2 x xs => intro h _; exact h
  | case3 xs x ys ih =>
    intro ha hb
    rw [List.pairwise_cons] at ha hb ⊢
    refine ⟨?_, ih ha.2 hb.2⟩
    intro z hz
    rcases (mem_unionKeys z xs ys).mp hz with hz | hz
    · exact ha.1 z hz
    · exact hb.1 z hz
  | case4 x xs y ys h hlt ih =>
    intro ha hb
    rw [List.pairwise_cons] at ha ⊢
    refine ⟨?_, ih ha.2 hb⟩
    intro z hz
    rcases (mem_unionKeys z xs (y :: ys)).mp hz with hz | hz
    · exact ha.1 z hz
    · rcases List.mem_cons.mp hz with rfl | hz
      · exact hlt
      · have := (List.pairwise_cons.mp hb).1 z hz; omega
  | case5 x xs y ys h hlt ih =>
    intro ha hb
    rw [List.pairwise_cons] at hb ⊢
    refine ⟨?_, ih ha hb.2⟩
    intro z hz
    have hyx : y < x := by omega
    rcases (mem_unionKeys z (x :: xs) ys).mp hz with hz | hz
    · rcases List.mem_cons.mp hz with rfl | hz
      · exact hyx
      · have := (List.pairwise_cons.mp ha).1 z hz; omega
    · exact hb.1 z hz

theorem length_filterMap_le' {α β} (f : α → Option β) (l : List α) :
    (l.filterMap f).length ≤ l.length := List.length_filterMap_le f l

theorem toList_length_le_one {β} (o : Option β) : o.toList.length ≤ 1 := by
  cases o <;> simp

/-- every configuration writes at most one element per union index: the result buffer of
length `|ind1 ∪ ind2|` is never overrun -/
theorem mergeF_length_le {β} (c : Cfg β) : ∀ (a b : List (Nat × Rat)),
    (mergeF c a b).length ≤ (unionKeys (keys a) (keys b)).length := by
  intro a b
  fun_induction mergeF c a b with
  | case1 ys =>
    simp only [keys, List.map_nil, unionKeys]
    exact (List.length_filterMap_le _ _).trans (by simp)
  | case2 x xs =>
    simp only [keys, List.map_nil, List.map_cons, unionKeys]
    exact (List.length_filterMap_le _ _).trans (by simp)
  | case3 x xs y ys h ih =>
    simp only [keys, List.map_cons, unionKeys, if_pos h, List.length_append, List.length_cons] at ih ⊢
    have := toList_length_le_one (c.both x.1 x.2 y.2)
    omega
  | case4 x xs y ys h hlt ih =>
    simp only [keys, List.map_cons, unionKeys, if_neg h, if_pos hlt, List.length_append, List.length_cons] at ih ⊢
    have := toList_length_le_one (c.left x.1 x.2)
    omega
  | case5 x xs y ys h hlt ih =>
    simp only [keys, List.map_cons, unionKeys, if_neg h, if_neg hlt, List.length_append, List.length_cons] at ih ⊢
    have := toList_length_le_one (c.right y.1 y.2)
    omega


/-- a configuration over `(index, value)` outputs that writes the index it was given -/
def Cfg.Keyed (c : Cfg (Nat × Rat)) : Prop :=
  (∀ j a b p, c.both j a b = some p → p.1 = j) ∧ (∀ j a p, c.left j a = some p → p.1 = j) ∧
  (∀ j b p, c.right j b = some p → p.1 = j)

theorem nz_key {j : Nat} {v : Rat} {p : Nat × Rat} (h : nz j v = some p) : p.1 = j ∧ p.2 = v ∧ v ≠ 0 := by
  unfold nz at h
  split at h
  · cases h; exact ⟨rfl, rfl, ‹_›⟩
  · cases h

theorem sumCfg_keyed : sumCfg.Keyed :=
  ⟨fun _ _ _ _ h => (nz_key h).1, fun _ _ _ h => (nz_key h).1, fun _ _ _ h => (nz_key h).1⟩

theorem mulCfg_keyed : mulCfg.Keyed := by
  refine ⟨fun _ _ _ _ h => (nz_key h).1, ?_, ?_⟩
  · intro j a p h; simp [mulCfg] at h
  · intro j a p h; simp [mulCfg] at h

theorem sumCfg_coherent : sumCfg.Coherent := fun h => by cases h
theorem duCfg_coherent : duCfg.Coherent := fun h => by cases h
theorem mulCfg_coherent : mulCfg.Coherent := fun _ _ _ => ⟨rfl, rfl⟩

theorem keys_toList_sublist {o : Option (Nat × Rat)} {j : Nat} (h : ∀ p, o = some p → p.1 = j) :
    List.Sublist (keys o.toList) [j] := by
  cases o with
  | none => simp [keys]
  | some p => have := h p rfl; simp [keys, this]

theorem keys_filterMap_sublist (f : Nat → Rat → Option (Nat × Rat))
    (h : ∀ j a p, f j a = some p → p.1 = j) (l : List (Nat × Rat)) :
    List.Sublist (keys (l.filterMap (fun p => f p.1 p.2))) (keys l) := by
  induction l with
  | nil => simp [keys]
  | cons x xs ih =>
    rw [filterMap_cons_toList]
    simp only [keys, List.map_append, List.map_cons] at ih ⊢
    have h1 := keys_toList_sublist (o := f x.1 x.2) (j := x.1) (fun p hp => h _ _ _ hp)
    exact (h1.append ih)

/-- the written indices form a sublist of the merged union of the two index arrays -/
theorem keys_mergeF_sublist (c : Cfg (Nat × Rat)) (hk : c.Keyed) : ∀ (a b : List (Nat × Rat)),
    List.Sublist (keys (mergeF c a b)) (unionKeys (keys a) (keys b)) := by
  intro a b
  fun_induction mergeF c a b with
  | case1 ys =>
    simp only [keys, List.map_nil, unionKeys]
    exact keys_filterMap_sublist c.right hk.2.2 ys
  | case2 x xs =>
    simp only [keys, List.map_nil, List.map_cons, unionKeys]
    exact keys_filterMap_sublist c.left hk.2.1 (x :: xs)
  | case3 x xs y ys h ih =>
    simp only [keys, List.map_cons, unionKeys, if_pos h, List.map_append] at ih ⊢
    have h1 := keys_toList_sublist (o := c.both x.1 x.2 y.2) (j := x.1) (fun p hp => hk.1 _ _ _ _ hp)
    exact h1.append ih
  | case4 x xs y ys h hlt ih =>
    simp only [keys, List.map_cons, unionKeys, if_neg h, if_pos hlt, List.map_append] at ih ⊢
    have h1 := keys_toList_sublist (o := c.left x.1 x.2) (j := x.1) (fun p hp => hk.2.1 _ _ _ hp)
    exact h1.append ih
  | case5 x xs y ys h hlt ih =>
    simp only [keys, List.map_cons, unionKeys, if_neg h, if_neg hlt, List.map_append] at ih ⊢
    have h1 := keys_toList_sublist (o := c.right y.1 y.2) (j := y.1) (fun p hp => hk.2.2 _ _ _ hp)
    exact h1.append ih

theorem strictInc_keys_mergeF (c : Cfg (Nat × Rat)) (hk : c.Keyed) (a b : List (Nat × Rat))
    (ha : StrictInc (keys a)) (hb : StrictInc (keys b)) : StrictInc (keys (mergeF c a b)) :=
  List.Pairwise.sublist (keys_mergeF_sublist c hk a b) (strictInc_unionKeys _ _ ha hb)

theorem keys_mergeF_subset (c : Cfg (Nat × Rat)) (hk : c.Keyed) (a b : List (Nat × Rat)) (j : Nat)
    (hj : j ∈ keys (mergeF c a b)) : j ∈ keys a ∨ j ∈ keys b :=
  (mem_unionKeys j _ _).mp ((keys_mergeF_sublist c hk a b).subset hj)

/-! ## Dense values -/

theorem valAt_append (l₁ l₂ : List (Nat × Rat)) (k : Nat) :
    valAt (l₁ ++ l₂) k = valAt l₁ k + valAt l₂ k := by
  induction l₁ with
  | nil => simp [valAt]
  | cons p r ih => simp only [List.cons_append, valAt, ih]; ring

theorem valAt_nz (j : Nat) (v : Rat) (k : Nat) : valAt (nz j v).toList k = if j = k then v else 0 := by
  unfold nz
  by_cases hv : v = 0
  · simp [hv, valAt]
  · simp [hv, valAt]

theorem valAt_filterMap_nz (l : List (Nat × Rat)) (k : Nat) :
    valAt (l.filterMap (fun p => nz p.1 p.2)) k = valAt l k := by
  induction l with
  | nil => rfl
  | cons p r ih => rw [filterMap_cons_toList, valAt_append, valAt_nz, ih]; simp [valAt]

theorem valAt_eq_zero_of_not_mem (l : List (Nat × Rat)) (k : Nat) (h : k ∉ keys l) : valAt l k = 0 := by
  induction l with
  | nil => rfl
  | cons p r ih =>
    simp only [keys, List.map_cons, List.mem_cons, not_or] at h
    simp only [valAt]
    rw [if_neg (fun e => h.1 e.symm), ih (by simpa [keys] using h.2)]
    ring

theorem valAt_of_mem (l : List (Nat × Rat)) (hs : StrictInc (keys l)) (p : Nat × Rat) (hp : p ∈ l) :
    valAt l p.1 = p.2 := by
  induction l with
  | nil => cases hp
  | cons q r ih =>
    simp only [keys, List.map_cons, StrictInc, List.pairwise_cons] at hs
    rcases List.mem_cons.mp hp with rfl | hp
    · simp only [valAt, if_true]
      rw [valAt_eq_zero_of_not_mem r p.1 (fun hm => by have := hs.1 _ (by simpa [keys] using hm); omega)]
      ring
    · have hlt : q.1 < p.1 := hs.1 _ (List.mem_map_of_mem hp)
      simp only [valAt]
      rw [if_neg (by omega), ih hs.2 hp]; ring

/-- `sparse_sum` adds the dense vectors (no hypothesis on the index arrays needed) -/
theorem valAt_mergeF_sum : ∀ (a b : List (Nat × Rat)) (k : Nat),
    valAt (mergeF sumCfg a b) k = valAt a k + valAt b k := by
  intro a b k
  fun_induction mergeF sumCfg a b with
  | case1 ys => simp only [sumCfg, valAt_filterMap_nz, valAt]; ring
  | case2 x xs => simp only [sumCfg, valAt_filterMap_nz, valAt]; ring
  | case3 x xs y ys h ih =>
    rw [valAt_append, ih]
    simp only [sumCfg, valAt_nz, valAt]
    by_cases hk : x.1 = k
    · rw [if_pos hk, if_pos hk, if_pos (h ▸ hk)]; ring
    · rw [if_neg hk, if_neg hk, if_neg (h ▸ hk)]; ring
  | case4 x xs y ys h hlt ih =>
    rw [valAt_append, ih]
    simp only [sumCfg, valAt_nz, valAt]; ring
  | case5 x xs y ys h hlt ih =>
    rw [valAt_append, ih]
    simp only [sumCfg, valAt_nz, valAt]; ring

theorem mergeF_sum_nonzero : ∀ (a b : List (Nat × Rat)) (p : Nat × Rat),
    p ∈ mergeF sumCfg a b → p.2 ≠ 0 := by
  intro a b p
  have hnz : ∀ (j : Nat) (v : Rat), p ∈ (nz j v).toList → p.2 ≠ 0 := by
    intro j v hp
    cases h : nz j v with
    | none => simp [h] at hp
    | some q =>
      simp only [h, Option.toList_some, List.mem_singleton] at hp
      subst hp
      obtain ⟨_, h2, h3⟩ := nz_key h
      rw [h2]; exact h3
  have hfm : ∀ l : List (Nat × Rat), p ∈ l.filterMap (fun q => nz q.1 q.2) → p.2 ≠ 0 := by
    intro l hp
    obtain ⟨q, _, hq⟩ := List.mem_filterMap.mp hp
    exact hnz q.1 q.2 (by simp [hq])
  fun_induction mergeF sumCfg a b with
  | case1 ys => exact hfm ys
  | case2 x xs => exact hfm (x :: xs)
  | case3 x xs y ys h ih =>
    intro hp
    rcases List.mem_append.mp hp with hp | hp
    · exact hnz _ _ hp
    · exact ih hp
  | case4 x xs y ys h hlt ih =>
    intro hp
    rcases List.mem_append.mp hp with hp | hp
    · exact hnz _ _ hp
    · exact ih hp
  | case5 x xs y ys h hlt ih =>
    intro hp
    rcases List.mem_append.mp hp with hp | hp
    · exact hnz _ _ hp
    · exact ih hp


theorem strictInc_cons {x : Nat × Rat} {xs : List (Nat × Rat)} (h : StrictInc (keys (x :: xs))) :
    (∀ j ∈ keys xs, x.1 < j) ∧ StrictInc (keys xs) := by
  simpa [StrictInc, keys] using h

theorem valAt_cons_of_lt (x : Nat × Rat) (xs : List (Nat × Rat)) (k : Nat) (h : x.1 < k) :
    valAt (x :: xs) k = valAt xs k := by
  simp only [valAt]; rw [if_neg (by omega)]; ring

theorem valAt_cons_self (x : Nat × Rat) (xs : List (Nat × Rat)) (h : ∀ j ∈ keys xs, x.1 < j) :
    valAt (x :: xs) x.1 = x.2 := by
  simp only [valAt, if_true]
  rw [valAt_eq_zero_of_not_mem xs x.1 (fun hm => by have := h _ hm; omega)]; ring

theorem valAt_of_lt_all (l : List (Nat × Rat)) (k : Nat) (h : ∀ j ∈ keys l, k < j) : valAt l k = 0 :=
  valAt_eq_zero_of_not_mem l k (fun hm => by have := h _ hm; omega)

/-- `sparse_mul` multiplies the dense vectors (sorted, duplicate-free index arrays) -/
theorem valAt_mergeF_mul : ∀ (a b : List (Nat × Rat)) (k : Nat),
    StrictInc (keys a) → StrictInc (keys b) →
    valAt (mergeF mulCfg a b) k = valAt a k * valAt b k := by
  intro a b k
  fun_induction mergeF mulCfg a b with
  | case1 ys =>
    intro _ _; simp only [mulCfg]; rw [filterMap_none' _ _ (fun _ => rfl)]; simp [valAt]
  | case2 x xs =>
    intro _ _; simp only [mulCfg]; rw [filterMap_none' _ _ (fun _ => rfl)]; simp [valAt]
  | case3 x xs y ys h ih =>
    intro ha hb
    obtain ⟨ha1, ha2⟩ := strictInc_cons ha
    obtain ⟨hb1, hb2⟩ := strictInc_cons hb
    rw [valAt_append, ih ha2 hb2]
    simp only [mulCfg, valAt_nz]
    by_cases hk : x.1 = k
    · subst hk
      rw [if_pos rfl, valAt_cons_self x xs ha1, h, valAt_cons_self y ys hb1,
        valAt_of_lt_all xs _ (by rw [← h]; exact ha1), valAt_of_lt_all ys _ hb1]
      ring
    · rw [if_neg hk]
      simp only [valAt]
      rw [if_neg hk, if_neg (h ▸ hk)]; ring
  | case4 x xs y ys h hlt ih =>
    intro ha hb
    obtain ⟨ha1, ha2⟩ := strictInc_cons ha
    obtain ⟨hb1, _⟩ := strictInc_cons hb
    rw [valAt_append, ih ha2 hb]
    simp only [mulCfg, Option.toList_none, valAt]
    by_cases hk : x.1 = k
    · subst hk
      rw [if_pos rfl, if_neg (by omega), valAt_of_lt_all xs _ ha1,
        valAt_of_lt_all ys _ (fun j hj => by have := hb1 j hj; omega)]
      ring
    · rw [if_neg hk]; ring
  | case5 x xs y ys h hlt ih =>
    intro ha hb
    obtain ⟨ha1, _⟩ := strictInc_cons ha
    obtain ⟨hb1, hb2⟩ := strictInc_cons hb
    have hyx : y.1 < x.1 := by omega
    rw [valAt_append, ih ha hb2]
    simp only [mulCfg, Option.toList_none, valAt]
    by_cases hk : y.1 = k
    · subst hk
      rw [if_pos rfl, if_neg (by omega), valAt_of_lt_all ys _ hb1,
        valAt_of_lt_all xs _ (fun j hj => by have := ha1 j hj; omega)]
      ring
    · rw [if_neg hk]; ring

theorem mergeF_mul_mem : ∀ (a b : List (Nat × Rat)) (p : Nat × Rat),
    p ∈ mergeF mulCfg a b → p.1 ∈ keys a ∧ p.1 ∈ keys b ∧ p.2 ≠ 0 := by
  intro a b p
  fun_induction mergeF mulCfg a b with
  | case1 ys => intro hp; simp [mulCfg] at hp
  | case2 x xs => intro hp; simp [mulCfg] at hp
  | case3 x xs y ys h ih =>
    intro hp
    rcases List.mem_append.mp hp with hp | hp
    · simp only [mulCfg] at hp
      cases hn : nz x.1 (x.2 * y.2) with
      | none => simp [hn] at hp
      | some q =>
        simp only [hn, Option.toList_some, List.mem_singleton] at hp
        subst hp
        obtain ⟨h1, h2, h3⟩ := nz_key hn
        refine ⟨by simp [keys, h1], by simp [keys, h1, h], by rw [h2]; exact h3⟩
    · obtain ⟨h1, h2, h3⟩ := ih hp
      exact ⟨List.mem_cons_of_mem _ h1, List.mem_cons_of_mem _ h2, h3⟩
  | case4 x xs y ys h hlt ih =>
    intro hp
    simp only [mulCfg, Option.toList_none, List.nil_append] at hp
    obtain ⟨h1, h2, h3⟩ := ih hp
    exact ⟨List.mem_cons_of_mem _ h1, h2, h3⟩
  | case5 x xs y ys h hlt ih =>
    intro hp
    simp only [mulCfg, Option.toList_none, List.nil_append] at hp
    obtain ⟨h1, h2, h3⟩ := ih hp
    exact ⟨h1, List.mem_cons_of_mem _ h2, h3⟩


/-! ## arr_union / arr_intersect on sorted, duplicate-free index arrays -/

theorem dedupAdj_sublist : ∀ l : List Nat, List.Sublist (dedupAdj l) l := by
  intro l
  fun_induction dedupAdj l with
  | case1 => exact List.Sublist.refl _
  | case2 a => exact List.Sublist.refl _
  | case3 b r ih => exact List.Sublist.cons _ ih
  | case4 a b r h ih => exact List.Sublist.cons_cons _ ih

theorem mem_dedupAdj (x : Nat) : ∀ l : List Nat, x ∈ dedupAdj l ↔ x ∈ l := by
  intro l
  fun_induction dedupAdj l with
  | case1 => simp
  | case2 a => simp
  | case3 b r ih => rw [ih]; simp
  | case4 a b r h ih => rw [List.mem_cons, ih]; simp

theorem dedupAdj_strict : ∀ l : List Nat, l.Pairwise (· ≤ ·) → StrictInc (dedupAdj l) := by
  intro l
  unfold StrictInc
  fun_induction dedupAdj l with
  | case1 => intro _; exact List.Pairwise.nil
  | case2 a => intro _; simp
  | case3 b r ih => intro h; exact ih (List.pairwise_cons.mp h).2
  | case4 a b r h ih =>
    intro hp
    obtain ⟨h1, h2⟩ := List.pairwise_cons.mp hp
    refine List.pairwise_cons.mpr ⟨?_, ih h2⟩
    intro z hz
    have hz' := (mem_dedupAdj z _).mp hz
    have hab := h1 b (by simp)
    rcases List.mem_cons.mp hz' with rfl | hz'
    · omega
    · have := (List.pairwise_cons.mp h2).1 z hz'; omega

theorem sorted_mergeSort_nat (l : List Nat) : (l.mergeSort).Pairwise (· ≤ ·) := by
  have := List.pairwise_mergeSort (le := fun a b : Nat => decide (a ≤ b))
    (fun a b c hab hbc => by simp only [decide_eq_true_eq] at *; omega)
    (fun a b => by simp only [Bool.or_eq_true, decide_eq_true_eq]; omega) l
  exact this.imp (fun h => by simpa using h)

theorem strictInc_nodup {l : List Nat} (h : StrictInc l) : l.Nodup :=
  List.Pairwise.imp (fun hab => by omega) h

theorem strictInc_ext {l₁ l₂ : List Nat} (h₁ : StrictInc l₁) (h₂ : StrictInc l₂)
    (h : ∀ x, x ∈ l₁ ↔ x ∈ l₂) : l₁ = l₂ :=
  List.Perm.eq_of_pairwise (le := (· < ·)) (fun a b _ _ hab hba => by omega) h₁ h₂
    ((List.perm_ext_iff_of_nodup (strictInc_nodup h₁) (strictInc_nodup h₂)).mpr h)

theorem mem_arrUnion (x : Nat) (a b : List Nat) : x ∈ arrUnion a b ↔ x ∈ a ∨ x ∈ b := by
  unfold arrUnion
  cases a with
  | nil => simp
  | cons a0 a' =>
    cases b with
    | nil => simp
    | cons b0 b' =>
      simp only [List.isEmpty_cons, Bool.false_eq_true, if_false]
      rw [mem_dedupAdj, List.mem_mergeSort, List.mem_append]

/-- on sorted duplicate-free arrays `arr_union` is the sorted union -/
theorem arrUnion_eq_unionKeys (a b : List Nat) (ha : StrictInc a) (hb : StrictInc b) :
    arrUnion a b = unionKeys a b := by
  apply strictInc_ext _ (strictInc_unionKeys a b ha hb)
  · intro x; rw [mem_arrUnion, mem_unionKeys]
  · unfold arrUnion
    cases a with
    | nil => simpa using hb
    | cons a0 a' =>
      cases b with
      | nil => simpa using ha
      | cons b0 b' =>
        simp only [List.isEmpty_cons, Bool.false_eq_true, if_false]
        exact dedupAdj_strict _ (sorted_mergeSort_nat _)

theorem mem_adjEq_of_count (x : Nat) : ∀ l : List Nat, l.Pairwise (· ≤ ·) → 2 ≤ l.count x →
    x ∈ adjEq l := by
  intro l
  fun_induction adjEq l with
  | case1 b r ih =>
    intro hp hc
    by_cases hx : x = b
    · subst hx; simp
    · have hp' := (List.pairwise_cons.mp hp).2
      rw [List.count_cons_of_ne (fun e => hx e.symm)] at hc
      exact List.mem_cons_of_mem _ (ih hp' hc)
  | case2 a b r h ih =>
    intro hp hc
    obtain ⟨h1, hp'⟩ := List.pairwise_cons.mp hp
    by_cases hx : x = a
    · subst hx
      exfalso
      rw [List.count_cons_self] at hc
      have hpos : 0 < (b :: r).count x := by omega
      have hmem : x ∈ b :: r := List.count_pos_iff.mp hpos
      have hxb := h1 b (by simp)
      rcases List.mem_cons.mp hmem with rfl | hm
      · exact h rfl
      · have := (List.pairwise_cons.mp hp').1 x hm; omega
    · rw [List.count_cons_of_ne (fun e => hx e.symm)] at hc
      exact ih hp' hc
  | case3 l hl =>
    intro _ hc
    exfalso
    match l, hl with
    | [], _ => simp at hc
    | [a], _ => have := List.count_le_length (a := x) (l := [a]); simp at this; omega
    | a :: b :: r, hl => exact hl a b r rfl

theorem count_of_mem_adjEq (x : Nat) : ∀ l : List Nat, x ∈ adjEq l → 2 ≤ l.count x := by
  intro l
  fun_induction adjEq l with
  | case1 b r ih =>
    intro hx
    rcases List.mem_cons.mp hx with rfl | hx
    · simp
    · have := ih hx
      have := List.count_le_count_cons (a := x) (b := b) (l := b :: r)
      omega
  | case2 a b r h ih =>
    intro hx
    have := ih hx
    have := List.count_le_count_cons (a := x) (b := a) (l := b :: r)
    omega
  | case3 l hl => intro hx; cases hx

theorem mem_arrIntersect (x : Nat) (a b : List Nat) (hxa : x ∈ a) (hxb : x ∈ b) :
    x ∈ arrIntersect a b := by
  unfold arrIntersect
  apply mem_adjEq_of_count x _ (sorted_mergeSort_nat _)
  rw [(List.mergeSort_perm (a ++ b) _).count_eq, List.count_append]
  have h1 := List.count_pos_iff.mpr hxa
  have h2 := List.count_pos_iff.mpr hxb
  omega

/-- the buffer of `sparse_mul` (length of `arr_intersect`) is long enough for every list of
distinct common indices -/
theorem length_le_arrIntersect (w a b : List Nat) (hw : w.Nodup) (h : ∀ x ∈ w, x ∈ a ∧ x ∈ b) :
    w.length ≤ (arrIntersect a b).length :=
  (List.subperm_of_subset hw (fun x hx => mem_arrIntersect x a b (h x hx).1 (h x hx).2)).length_le


/-! ## dense_union -/

theorem mem_keys_cons {j : Nat} {x : Nat × Rat} {xs : List (Nat × Rat)} :
    j ∈ keys (x :: xs) ↔ j = x.1 ∨ j ∈ keys xs := by simp [keys]

theorem map_filterMap_nz_eq (f : Nat → Rat → Option (Rat × Rat)) (G : Nat × Rat → Rat × Rat)
    (l : List (Nat × Rat))
    (h : ∀ p ∈ l, f p.1 p.2 = (nz p.1 p.2).map G) :
    l.filterMap (fun p => f p.1 p.2) = (l.filterMap (fun p => nz p.1 p.2)).map G := by
  rw [List.map_filterMap]
  induction l with
  | nil => rfl
  | cons q r ih =>
    rw [List.filterMap_cons, List.filterMap_cons, h q (by simp), ih (fun p hp => h p (by simp [hp]))]

theorem du_one_sided_left (l : List (Nat × Rat)) (hs : StrictInc (keys l)) :
    l.filterMap (fun p => duCfg.left p.1 p.2)
      = (l.filterMap (fun p => nz p.1 p.2)).map (fun p => (valAt l p.1, valAt [] p.1)) := by
  apply map_filterMap_nz_eq duCfg.left
  intro p hp
  simp only [duCfg, nz, valAt]
  by_cases h : p.2 = 0
  · simp [h]
  · simp [h, valAt_of_mem l hs p hp]

theorem du_one_sided_right (l : List (Nat × Rat)) (hs : StrictInc (keys l)) :
    l.filterMap (fun p => duCfg.right p.1 p.2)
      = (l.filterMap (fun p => nz p.1 p.2)).map (fun p => (valAt [] p.1, valAt l p.1)) := by
  apply map_filterMap_nz_eq duCfg.right
  intro p hp
  simp only [duCfg, nz, valAt]
  by_cases h : p.2 = 0
  · simp [h]
  · simp [h, valAt_of_mem l hs p hp]

theorem toList_map_nz (j : Nat) (v : Rat) (G : Nat × Rat → Rat × Rat) :
    ((nz j v).toList).map G = if v ≠ 0 then [G (j, v)] else [] := by
  unfold nz; split <;> simp

/-- `dense_union` returns the two dense vectors restricted to the indices `sparse_sum` keeps -/
theorem mergeF_du_eq : ∀ (a b : List (Nat × Rat)), StrictInc (keys a) → StrictInc (keys b) →
    mergeF duCfg a b = (mergeF sumCfg a b).map (fun p => (valAt a p.1, valAt b p.1)) := by
  intro a b
  fun_induction mergeF duCfg a b with
  | case1 ys =>
    intro _ hb
    rw [mergeF_nil_left]
    exact du_one_sided_right ys hb
  | case2 x xs =>
    intro ha _
    rw [mergeF_nil_right]
    exact du_one_sided_left (x :: xs) ha
  | case3 x xs y ys h ih =>
    intro ha hb
    obtain ⟨ha1, ha2⟩ := strictInc_cons ha
    obtain ⟨hb1, hb2⟩ := strictInc_cons hb
    rw [mergeF_cons, if_pos h, List.map_append, ih ha2 hb2]
    congr 1
    · simp only [sumCfg, toList_map_nz, duCfg]
      rw [valAt_cons_self x xs ha1, h, valAt_cons_self y ys hb1]
      split <;> simp
    · apply List.map_congr_left
      intro p hp
      have hk := keys_mergeF_subset sumCfg sumCfg_keyed xs ys p.1 (List.mem_map_of_mem hp)
      have hlt : x.1 < p.1 := by
        rcases hk with hk | hk
        · exact ha1 _ hk
        · rw [h]; exact hb1 _ hk
      rw [valAt_cons_of_lt x xs p.1 hlt, valAt_cons_of_lt y ys p.1 (h ▸ hlt)]
  | case4 x xs y ys h hlt ih =>
    intro ha hb
    obtain ⟨ha1, ha2⟩ := strictInc_cons ha
    obtain ⟨hb1, _⟩ := strictInc_cons hb
    rw [mergeF_cons, if_neg h, if_pos hlt, List.map_append, ih ha2 hb]
    congr 1
    · simp only [sumCfg, toList_map_nz, duCfg]
      rw [valAt_cons_self x xs ha1, valAt_of_lt_all (y :: ys) x.1
        (fun j hj => by
          rcases mem_keys_cons.mp hj with rfl | hj'
          · exact hlt
          · have := hb1 j hj'; omega)]
      split <;> simp
    · apply List.map_congr_left
      intro p hp
      have hk := keys_mergeF_subset sumCfg sumCfg_keyed xs (y :: ys) p.1 (List.mem_map_of_mem hp)
      have hlt' : x.1 < p.1 := by
        rcases hk with hk | hk
        · exact ha1 _ hk
        · rcases mem_keys_cons.mp hk with e | hk'
          · omega
          · have := hb1 p.1 hk'; omega
      rw [valAt_cons_of_lt x xs p.1 hlt']
  | case5 x xs y ys h hlt ih =>
    intro ha hb
    obtain ⟨ha1, _⟩ := strictInc_cons ha
    obtain ⟨hb1, hb2⟩ := strictInc_cons hb
    have hyx : y.1 < x.1 := by omega
    rw [mergeF_cons, if_neg h, if_neg hlt, List.map_append, ih ha hb2]
    congr 1
    · simp only [sumCfg, toList_map_nz, duCfg]
      rw [valAt_cons_self y ys hb1, valAt_of_lt_all (x :: xs) y.1
        (fun j hj => by
          rcases mem_keys_cons.mp hj with rfl | hj'
          · exact hyx
          · have := ha1 j hj'; omega)]
      split <;> simp
    · apply List.map_congr_left
      intro p hp
      have hk := keys_mergeF_subset sumCfg sumCfg_keyed (x :: xs) ys p.1 (List.mem_map_of_mem hp)
      have hlt' : y.1 < p.1 := by
        rcases hk with hk | hk
        · rcases mem_keys_cons.mp hk with e | hk'
          · omega
          · have := ha1 p.1 hk'; omega
        · exact hb1 _ hk
      rw [valAt_cons_of_lt y ys p.1 hlt']


/-! ## ℓ¹ distance of rational lists, total variation, Kantorovich -/

theorem rabs_eq_abs (q : Rat) : rabs q = |q| := by
  unfold rabs
  split
  · rw [abs_of_neg ‹_›]
  · rw [abs_of_nonneg (by linarith)]

theorem sum_map_mul_left' (k : Rat) (l : List Rat) : (l.map (fun a => k * a)).sum = k * l.sum := by
  induction l with
  | nil => simp
  | cons a r ih => simp only [List.map_cons, List.sum_cons, ih]; ring

theorem sum_map_div' (s : Rat) (l : List Rat) : (l.map (fun a => a / s)).sum = l.sum / s := by
  induction l with
  | nil => simp
  | cons a r ih => simp only [List.map_cons, List.sum_cons, ih]; ring

theorem l1dist_nil_left (b : List Rat) : l1dist [] b = 0 := by simp [l1dist]
theorem l1dist_nil_right (a : List Rat) : l1dist a [] = 0 := by simp [l1dist]
theorem l1dist_cons (u v : Rat) (a b : List Rat) :
    l1dist (u :: a) (v :: b) = |u - v| + l1dist a b := by
  simp [l1dist, rabs_eq_abs]

theorem l1dist_nonneg : ∀ (a b : List Rat), 0 ≤ l1dist a b := by
  intro a
  induction a with
  | nil => intro b; rw [l1dist_nil_left]
  | cons u a ih =>
    intro b
    cases b with
    | nil => rw [l1dist_nil_right]
    | cons v b => rw [l1dist_cons]; have := ih b; have := abs_nonneg (u - v); linarith

theorem l1dist_comm : ∀ (a b : List Rat), l1dist a b = l1dist b a := by
  intro a
  induction a with
  | nil => intro b; rw [l1dist_nil_left, l1dist_nil_right]
  | cons u a ih =>
    intro b
    cases b with
    | nil => rw [l1dist_nil_left, l1dist_nil_right]
    | cons v b => rw [l1dist_cons, l1dist_cons, ih b, abs_sub_comm]

theorem l1dist_self (a : List Rat) : l1dist a a = 0 := by
  induction a with
  | nil => rw [l1dist_nil_left]
  | cons u a ih => rw [l1dist_cons, ih]; simp

theorem l1dist_triangle : ∀ (a b c : List Rat), a.length = b.length → b.length = c.length →
    l1dist a c ≤ l1dist a b + l1dist b c := by
  intro a
  induction a with
  | nil => intro b c _ _; rw [l1dist_nil_left]; have := l1dist_nonneg [] b; have := l1dist_nonneg b c; linarith
  | cons u a ih =>
    intro b c hab hbc
    cases b with
    | nil => simp at hab
    | cons v b =>
      cases c with
      | nil => simp at hbc
      | cons w c =>
        rw [l1dist_cons, l1dist_cons, l1dist_cons]
        have h1 := ih b c (by simpa using hab) (by simpa using hbc)
        have h2 : |u - w| ≤ |u - v| + |v - w| := abs_sub_le u v w
        linarith

theorem l1dist_le_sum : ∀ (a b : List Rat), (∀ u ∈ a, 0 ≤ u) → (∀ v ∈ b, 0 ≤ v) →
    l1dist a b ≤ a.sum + b.sum := by
  intro a
  induction a with
  | nil =>
    intro b _ hb
    rw [l1dist_nil_left]
    simpa using List.sum_nonneg hb
  | cons u a ih =>
    intro b ha hb
    cases b with
    | nil =>
      rw [l1dist_nil_right]
      simpa using List.sum_nonneg ha
    | cons v b =>
      rw [l1dist_cons, List.sum_cons, List.sum_cons]
      have hu := ha u (by simp)
      have hv := hb v (by simp)
      have h1 := ih b (fun x hx => ha x (by simp [hx])) (fun x hx => hb x (by simp [hx]))
      have h2 : |u - v| ≤ u + v := by
        rw [abs_le]; constructor <;> linarith
      linarith

theorem tvCore_eq (x y : List Rat) : tvCore x y = (1 / 2) * l1dist (normalise x) (normalise y) := by
  unfold tvCore l1dist
  generalize normalise x = p
  generalize normalise y = q
  induction p generalizing q with
  | nil => simp
  | cons u p ih =>
    cases q with
    | nil => simp
    | cons v q => simp only [List.zipWith_cons_cons, List.sum_cons, ih]; ring

theorem sum_normalise (x : List Rat) (h : x.sum ≠ 0) : (normalise x).sum = 1 := by
  unfold normalise
  rw [sum_map_div', div_self h]

theorem normalise_nonneg (x : List Rat) (h : ∀ a ∈ x, 0 ≤ a) : ∀ u ∈ normalise x, 0 ≤ u := by
  intro u hu
  obtain ⟨a, ha, rfl⟩ := List.mem_map.mp hu
  exact div_nonneg (h a ha) (List.sum_nonneg h)

theorem length_normalise (x : List Rat) : (normalise x).length = x.length := by simp [normalise]

/-- scaling by `k ≠ 0` does not change the normalised vector -/
theorem normalise_smul (k : Rat) (hk : k ≠ 0) (x : List Rat) :
    normalise (x.map (fun a => k * a)) = normalise x := by
  unfold normalise
  rw [sum_map_mul_left', List.map_map]
  apply List.map_congr_left
  intro a _
  simp only [Function.comp]
  rw [mul_div_mul_left _ _ hk]

theorem length_cumsum : ∀ (l : List Rat) (acc : Rat), (cumsum acc l).length = l.length := by
  intro l
  induction l with
  | nil => intro acc; rfl
  | cons a r ih => intro acc; simp [cumsum, ih]

theorem checkMass_comm (x y : List Rat) : checkMass x y = checkMass y x := by
  unfold checkMass
  have e1 : (x.length ≠ y.length) ↔ (y.length ≠ x.length) := ⟨Ne.symm, Ne.symm⟩
  have e2 : (x.sum = 0 ∨ y.sum = 0) ↔ (y.sum = 0 ∨ x.sum = 0) := Or.comm
  simp only [e1, e2]

theorem checkMass_ok (x y : List Rat) (hl : x.length = y.length) (hx : x.sum ≠ 0) (hy : y.sum ≠ 0) :
    checkMass x y = .ok () := by
  unfold checkMass
  rw [if_neg (by simpa using hl), if_neg (by simp [hx, hy])]

theorem keys_zip (ind : List Nat) (data : List Rat) (h : data.length = ind.length) :
    keys (List.zip ind data) = ind := by
  unfold keys
  exact List.map_fst_zip (by omega)

theorem valAt_zip_neg (ind : List Nat) (data : List Rat) (k : Nat) :
    valAt (List.zip ind (data.map (fun v => -v))) k = - valAt (List.zip ind data) k := by
  induction ind generalizing data with
  | nil => simp [valAt]
  | cons i ind ih =>
    cases data with
    | nil => simp [valAt]
    | cons d data =>
      simp only [List.map_cons, List.zip_cons_cons, valAt, ih]
      split <;> ring

theorem totalVariation_ok (x y : List Rat) (hl : x.length = y.length) (mx : x.sum ≠ 0)
    (my : y.sum ≠ 0) : totalVariation x y = .ok ((1 / 2) * l1dist (normalise x) (normalise y)) := by
  unfold totalVariation
  rw [checkMass_ok x y hl mx my, tvCore_eq]
  rfl

theorem kantorovich_ok (x y : List Rat) (hl : x.length = y.length) (mx : x.sum ≠ 0)
    (my : y.sum ≠ 0) :
    kantorovich1d x y = .ok (l1dist (cumsum 0 (normalise x)) (cumsum 0 (normalise y))) := by
  unfold kantorovich1d
  rw [checkMass_ok x y hl mx my]
  rfl


/-! ## sparse total variation = dense total variation (exact arithmetic) -/

def rsumQ (n : Nat) (f : Nat → Rat) : Rat := ((List.range n).map f).sum

theorem rsumQ_succ (n : Nat) (f : Nat → Rat) : rsumQ (n + 1) f = rsumQ n f + f n := by
  simp [rsumQ, List.range_succ]

theorem rsumQ_congr (n : Nat) (f g : Nat → Rat) (h : ∀ i < n, f i = g i) : rsumQ n f = rsumQ n g := by
  unfold rsumQ
  congr 1
  apply List.map_congr_left
  intro i hi
  exact h i (by simpa using hi)

theorem rsumQ_add (n : Nat) (f g : Nat → Rat) : rsumQ n (fun i => f i + g i) = rsumQ n f + rsumQ n g := by
  induction n with
  | zero => simp [rsumQ]
  | succ n ih => rw [rsumQ_succ, rsumQ_succ, rsumQ_succ, ih]; ring

theorem rsumQ_zero (n : Nat) : rsumQ n (fun _ => 0) = 0 := by
  induction n with
  | zero => simp [rsumQ]
  | succ n ih => rw [rsumQ_succ, ih]; ring

theorem rsumQ_ite (n j : Nat) (v : Rat) (h : j < n) : rsumQ n (fun i => if j = i then v else 0) = v := by
  induction n with
  | zero => omega
  | succ n ih =>
    rw [rsumQ_succ]
    by_cases hj : j = n
    · subst hj
      rw [rsumQ_congr j _ (fun _ => 0) (fun i hi => by rw [if_neg (by omega)]), rsumQ_zero]
      simp
    · rw [ih (by omega), if_neg hj]; ring

theorem rsumQ_valAt (n : Nat) (l : List (Nat × Rat)) (h : ∀ p ∈ l, p.1 < n) :
    rsumQ n (valAt l) = (l.map (·.2)).sum := by
  induction l with
  | nil =>
    have : valAt [] = fun _ => (0 : Rat) := by funext k; rfl
    rw [this, rsumQ_zero]; simp
  | cons p l ih =>
    have : valAt (p :: l) = fun k => (if p.1 = k then p.2 else 0) + valAt l k := by
      funext k; rfl
    rw [this, rsumQ_add, rsumQ_ite n p.1 p.2 (h p (by simp)), ih (fun q hq => h q (by simp [hq]))]
    simp

theorem getD_eq_getElem_rat (l : List Rat) (i : Nat) (h : i < l.length) : l.getD i 0 = l[i] := by
  simp [List.getD, h]

theorem rsumQ_getD (x : List Rat) : rsumQ x.length (fun k => x.getD k 0) = x.sum := by
  unfold rsumQ
  congr 1
  apply List.ext_getElem
  · simp
  · intro i h1 h2
    simp only [List.getElem_map, List.getElem_range]
    exact getD_eq_getElem_rat x i h2

theorem rsumQ_zipWith (f : Rat → Rat → Rat) (x y : List Rat) (h : x.length = y.length) :
    (List.zipWith f x y).sum = rsumQ x.length (fun k => f (x.getD k 0) (y.getD k 0)) := by
  unfold rsumQ
  congr 1
  apply List.ext_getElem
  · simp [h]
  · intro i h1 h2
    have hx : i < x.length := by simpa [h] using h1
    have hy : i < y.length := by omega
    simp only [List.getElem_zipWith, List.getElem_map, List.getElem_range]
    rw [getD_eq_getElem_rat x i hx, getD_eq_getElem_rat y i hy]

theorem valAt_map_g (g : Rat → Rat) (hg : g 0 = 0) (r : List (Nat × Rat)) (hs : StrictInc (keys r))
    (k : Nat) : valAt (r.map (fun p => (p.1, g p.2))) k = g (valAt r k) := by
  induction r with
  | nil => simp [valAt, hg]
  | cons p t ih =>
    obtain ⟨h1, h2⟩ := strictInc_cons hs
    rw [List.map_cons]
    show (if p.1 = k then g p.2 else 0) + valAt (t.map (fun p => (p.1, g p.2))) k = g (valAt (p :: t) k)
    rw [ih h2]
    by_cases hk : p.1 = k
    · subst hk
      rw [if_pos rfl, valAt_cons_self p t h1, valAt_of_lt_all t p.1 h1, hg]; ring
    · rw [if_neg hk]
      show 0 + g (valAt t k) = g ((if p.1 = k then p.2 else 0) + valAt t k)
      rw [if_neg hk]; simp

theorem sum_map_g_eq_rsumQ (g : Rat → Rat) (hg : g 0 = 0) (r : List (Nat × Rat))
    (hs : StrictInc (keys r)) (n : Nat) (hk : ∀ j ∈ keys r, j < n) :
    (r.map (fun p => g p.2)).sum = rsumQ n (fun k => g (valAt r k)) := by
  have h1 := rsumQ_valAt n (r.map (fun p => (p.1, g p.2)))
    (fun q hq => by
      obtain ⟨p, hp, rfl⟩ := List.mem_map.mp hq
      exact hk p.1 (List.mem_map_of_mem hp))
  rw [List.map_map] at h1
  have h2 : (fun k => g (valAt r k)) = valAt (r.map (fun p => (p.1, g p.2))) := by
    funext k; exact (valAt_map_g g hg r hs k).symm
  rw [h2, h1]
  rfl

/-- `(ind, data)` is a sparse encoding of the dense vector `x` (sorted duplicate-free indices inside
the vector, explicit zeros allowed) -/
def Enc (ind : List Nat) (data : List Rat) (x : List Rat) : Prop :=
  StrictInc ind ∧ data.length = ind.length ∧ (∀ i ∈ ind, i < x.length) ∧
  ∀ k, valAt (List.zip ind data) k = x.getD k 0

theorem valAt_zip_map_div (ind : List Nat) (data : List Rat) (c : Rat) (k : Nat) :
    valAt (List.zip ind (data.map (· / c))) k = valAt (List.zip ind data) k / c := by
  induction ind generalizing data with
  | nil => simp [valAt]
  | cons i ind ih =>
    cases data with
    | nil => simp [valAt]
    | cons d data =>
      simp only [List.map_cons, List.zip_cons_cons, valAt, ih]
      split <;> ring

theorem Enc.sum_eq {ind : List Nat} {data x : List Rat} (h : Enc ind data x) : data.sum = x.sum := by
  obtain ⟨_, hlen, hlt, hv⟩ := h
  have h1 := rsumQ_valAt x.length (List.zip ind data) (fun p hp => hlt p.1 (List.of_mem_zip hp).1)
  rw [List.map_snd_zip (by omega)] at h1
  rw [← h1, ← rsumQ_getD x]
  exact rsumQ_congr _ _ _ (fun k _ => hv k)

end VecModel.Dist
