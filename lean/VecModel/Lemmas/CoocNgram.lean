import VecModel.Lemmas.CoocOcc
/- Refinement of the n-gram event generator to the position-based definition `specNgram`.
The window of an n-gram occurrence is a token window (`blockWin`) of the block with the radius of
the n-gram row, anchored at the first / last token of the n-gram; the positional weights `ngRaw`
are then the token weights `posRaw` of that block. -/
set_option linter.unusedSimpArgs false
set_option linter.unusedVariables false
namespace VecModel.Cooc
open VecModel.Window

/-- the block as the n-gram row `g` sees it: radius of row `g` whatever token sits at the anchor -/
def Block.forRow (b : Block) (g : Nat) : Block := { b with radius := fun _ => b.radius g }

def untimedSeq (s : List Nat) : TSeq := s.map fun t => (t, (0 : Rat))

theorem untimedSeq_length (s : List Nat) : (untimedSeq s).length = s.length := by
  simp [untimedSeq]

theorem untimedSeq_getElem? (s : List Nat) (j : Nat) :
    (untimedSeq s)[j]? = (s[j]?).map fun t => (t, (0 : Rat)) := by
  simp [untimedSeq]

theorem tokAt_untimedSeq (s : List Nat) (j : Nat) (hj : j < s.length) :
    tokAt (untimedSeq s) j = s[j] := by
  simp [tokAt, untimedSeq_getElem?, List.getElem?_eq_getElem hj]

theorem mapIdx_const_eq (l : List α) (f : Nat → β) :
    l.mapIdx (fun k _ => f k) = (List.range l.length).map f := by
  apply List.ext_getElem?
  intro k
  by_cases hk : k < l.length
  · simp [List.getElem?_mapIdx, List.getElem?_eq_getElem hk, List.getElem?_range hk]
  · rw [List.getElem?_eq_none (by simp; omega), List.getElem?_eq_none (by simp; omega)]

theorem absR_zero : absR ((0 : Rat) - 0) = 0 := by
  simp [absR]

/-- the window and kernel of an n-gram occurrence (`ngramOcc`) is a token-block window -/
theorem ngWin_eq_blockWin (b : Block) (s : List Nat) (g a t : Nat) :
    (windowAt s (b.radius g) a b.rev,
      (kernelW (fun k => b.w k 0) b.args (windowAt s (b.radius g) a b.rev)).map (b.mix * ·)) =
    blockWin (b.forRow g) (untimedSeq s) a (t, 0) := by
  unfold blockWin untimedSeq Block.forRow
  simp only
  rw [windowAt_map, List.map_map, mapIdx_map]
  have h1 : (Prod.fst ∘ fun t : Nat => (t, (0 : Rat))) = id := by funext x; rfl
  rw [h1, List.map_id]
  have h2 : (fun k (x : Nat) => b.w k (absR ((x, (0 : Rat)).2 - 0))) = fun k _ => b.w k 0 := by
    funext k x; simp only [absR_zero]
  rw [h2, mapIdx_const_eq]
  rfl

/-- the positional n-gram weight is the positional token weight of the row's block -/
theorem ngRaw_eq_posRaw (b : Block) (s : List Nat) (g a j : Nat) (ha : a < s.length) :
    ngRaw b s g a j = posRaw (b.forRow g) (untimedSeq s) a j := by
  unfold ngRaw posRaw
  rw [untimedSeq_getElem?, untimedSeq_getElem?, List.getElem?_eq_getElem ha]
  cases s[j]? with
  | none => rfl
  | some ctx =>
    have h0 : absR (0 : Rat) = 0 := by simp [absR]
    simp [Block.forRow, absR_zero, h0]

theorem ngZ_eq_posZ (b : Block) (s : List Nat) (g a : Nat) (ha : a < s.length) :
    ngZ b s g a = posZ (b.forRow g) (untimedSeq s) a := by
  unfold ngZ posZ
  rw [untimedSeq_length]
  exact sumTo_congr fun j _ => ngRaw_eq_posRaw b s g a j ha

theorem ngKer_eq_posKer (b : Block) (s : List Nat) (g a j : Nat) (ha : a < s.length) :
    ngKer b s g a j = posKer (b.forRow g) (untimedSeq s) a j := by
  unfold ngKer posKer
  rw [ngZ_eq_posZ b s g a ha, ngRaw_eq_posRaw b s g a j ha]
  rfl

/-- a block restricted to the radius of row `g` is the block itself for a target whose token is `g` -/
theorem posRaw_forRow (b : Block) (s : TSeq) (g i j : Nat) (hi : ∀ tgt, s[i]? = some tgt → tgt.1 = g) :
    posRaw (b.forRow g) s i j = posRaw b s i j := by
  unfold posRaw
  cases h : s[i]? with
  | none => rfl
  | some tgt =>
    cases s[j]? with
    | none => rfl
    | some ctx => simp only [Block.forRow, hi tgt h]; rfl

theorem posKer_forRow (b : Block) (s : TSeq) (g i j : Nat) (hi : ∀ tgt, s[i]? = some tgt → tgt.1 = g) :
    posKer (b.forRow g) s i j = posKer b s i j := by
  unfold posKer posZ
  rw [posRaw_forRow b s g i j hi, sumTo_congr (fun j' _ => posRaw_forRow b s g i j' hi)]
  rfl

/-- anchors of a complete n-gram lie inside the sequence -/
theorem ngAnchor_lt {rev : Bool} {k nsize len : Nat} (hn : 0 < nsize) (hk : k + nsize ≤ len) :
    ngAnchor rev k nsize < len := by
  unfold ngAnchor; split <;> omega

/-- the cell contribution of one n-gram occurrence -/
theorem cellSum_ngramOcc (cfg : Cfg) (s : List Nat) (nsize g k : Nat) (hn : 0 < nsize)
    (hk : k + nsize ≤ s.length) (r c : Nat) :
    cellSum ((ngramOcc cfg s (k + nsize - 1) g nsize).events cfg.n cfg.normWin) r c =
      if g = r then
        sumOver cfg.blocks.zipIdx fun bw => sumTo s.length fun j =>
          match s[j]? with
          | some ctx =>
            if ctx + bw.2 * cfg.n = c then
              pos (ngKer bw.1 s g (ngAnchor bw.1.rev k nsize) j / ngTotal cfg s nsize g k)
            else 0
          | none => 0
      else 0 := by
  have hocc : ngramOcc cfg s (k + nsize - 1) g nsize =
      { row := g, wins := cfg.blocks.map fun b =>
          blockWin (b.forRow g) (untimedSeq s) (ngAnchor b.rev k nsize) (0, 0) } := by
    unfold ngramOcc
    congr 1
    apply List.map_congr_left
    intro b _
    have ha : (if b.rev = true then k + nsize - 1 - (nsize - 1) else k + nsize - 1) =
        ngAnchor b.rev k nsize := by
      unfold ngAnchor; split <;> omega
    simp only [ha]
    exact ngWin_eq_blockWin b s g _ 0
  rw [hocc]
  have hanch : ∀ b : Block, (untimedSeq s)[ngAnchor b.rev k nsize]? =
      some (s[ngAnchor b.rev k nsize]'(ngAnchor_lt hn hk), (0 : Rat)) := by
    intro b
    rw [untimedSeq_getElem?, List.getElem?_eq_getElem (ngAnchor_lt hn hk)]; rfl
  -- `blockWin` ignores the time stamp and token of the anchor except through the radius
  have hbw : ∀ b : Block, blockWin (b.forRow g) (untimedSeq s) (ngAnchor b.rev k nsize) (0, 0) =
      blockWin (b.forRow g) (untimedSeq s) (ngAnchor b.rev k nsize)
        (s[ngAnchor b.rev k nsize]'(ngAnchor_lt hn hk), (0 : Rat)) := by
    intro b
    rw [← ngWin_eq_blockWin b s g _ 0, ← ngWin_eq_blockWin b s g _ _]
  have := occ_cell_positional cfg.n cfg.normWin g cfg.blocks
    (fun b => blockWin (b.forRow g) (untimedSeq s) (ngAnchor b.rev k nsize) (0, 0))
    (List.range s.length) (fun j => tokAt (untimedSeq s) j)
    (fun b j => ngKer b s g (ngAnchor b.rev k nsize) j)
    (by
      intro b _ G hG
      simp only [hbw b]
      rw [sumOver_blockWin (b.forRow g) (untimedSeq s) _ _ (hanch b) G hG, sumOver_range,
        untimedSeq_length]
      exact sumTo_congr fun j _ => by rw [ngKer_eq_posKer b s g _ j (ngAnchor_lt hn hk)])
    (by
      intro b _
      simp only [hbw b]
      rw [blockWin_sum (b.forRow g) (untimedSeq s) _ _ (hanch b), sumOver_range, untimedSeq_length]
      exact sumTo_congr fun j _ => by rw [ngKer_eq_posKer b s g _ j (ngAnchor_lt hn hk)])
    r c
  rw [this]
  by_cases hr : g = r
  · simp only [hr, if_true]
    apply sumOver_congr
    intro bw _
    rw [sumOver_range]
    apply sumTo_congr
    intro j hj
    rw [List.getElem?_eq_getElem hj, tokAt_untimedSeq s j hj]
    simp only
    have hT : totalOf cfg.normWin cfg.blocks
        (fun b => sumOver (List.range s.length) fun j => ngKer b s r (ngAnchor b.rev k nsize) j) =
        ngTotal cfg s nsize r k := by
      unfold totalOf ngTotal
      simp only [sumOver_range]
    rw [hT]
  · simp [hr]

/-- non-negative base weights and mix weight: every positional n-gram kernel value is non-negative -/
theorem ngKer_nonneg (b : Block) (s : List Nat) (g a j : Nat) (ha : a < s.length) (hmix : 0 ≤ b.mix)
    (hw : ∀ k dt, 0 ≤ b.w k dt) : 0 ≤ ngKer b s g a j := by
  rw [ngKer_eq_posKer b s g a j ha]
  exact posKer_nonneg (b.forRow g) (untimedSeq s) a j hmix hw

theorem ngTotal_pos (cfg : Cfg) (s : List Nat) (nsize g k : Nat) : 0 < ngTotal cfg s nsize g k := by
  unfold ngTotal
  generalize (if cfg.normWin = true then
      sumOver cfg.blocks fun b => sumTo s.length fun j => ngKer b s g (ngAnchor b.rev k nsize) j
    else 0) = t
  show 0 < if t ≤ 0 then 1 else t
  by_cases h : t ≤ 0
  · simp [h]
  · simp only [h, if_false]; exact lt_of_not_ge h

end VecModel.Cooc
