import VecModel.Lemmas.EMRefine
/-
  The flat index-level kernel (`emUpdateIdx` on indptr / indices / data) computes exactly the
  row-level model (`emUpdate`): helper lemmas for Props/C11 `em_idx_eq_rows`.
-/
namespace VecModel.EM

/-! ### iteration space: checked = unchecked under the shape precondition -/

theorem entriesW_eq (n w : Nat) (ker : List Rat) :
    ∀ (win : List Nat) (i : Nat), i + win.length ≤ ker.length →
      entriesW n w ker win i = .ok (entriesWF n w win (ker.drop i)) := by
  intro win
  induction win with
  | nil => intro i _; simp [entriesW, entriesWF]
  | cons ctx rest ih =>
    intro i h
    have hi : i < ker.length := by simp at h; omega
    have hd : ker.drop i = ker[i] :: ker.drop (i + 1) := List.drop_eq_getElem_cons hi
    rw [hd]
    simp only [entriesW, rd_ok hi, Except.bind, ih (i + 1) (by simp at h; omega), entriesWF]

theorem entriesWF_take (n w : Nat) : ∀ (win : List Nat) (ker : List Rat),
    entriesWF n w win ker = entriesWF n w win (ker.take win.length) := by
  intro win
  induction win with
  | nil => intro ker; simp [entriesWF]
  | cons ctx rest ih =>
    intro ker
    cases ker with
    | nil => simp [entriesWF]
    | cons k ker => simp only [entriesWF, List.length_cons, List.take_succ_cons]; rw [ih ker]

theorem entries_eq (n : Nat) (kernels : List (List Rat)) :
    ∀ (windows : List (List Nat)) (w : Nat),
      w + windows.length ≤ kernels.length →
      (∀ j (hj : j < windows.length) (hk : w + j < kernels.length),
        windows[j].length ≤ kernels[w + j].length) →
      entries n kernels windows w = .ok (entriesF n windows (kernels.drop w) w) := by
  intro windows
  induction windows with
  | nil => intro w _ _; cases h : kernels.drop w <;> simp [entries, entriesF]
  | cons win rest ih =>
    intro w hlen hsh
    have hw : w < kernels.length := by simp at hlen; omega
    have h0 := hsh 0 (by simp) (by simpa using hw)
    have hd : kernels.drop w = kernels[w] :: kernels.drop (w + 1) := List.drop_eq_getElem_cons hw
    rw [hd]
    have ihr := ih (w + 1) (by simp at hlen; omega) (by
      intro j hj hk
      have := hsh (j + 1) (by simpa using hj) (by omega)
      simpa [Nat.add_assoc, Nat.add_comm 1 j] using this)
    simp only [entries, rd_ok hw, Except.bind, entriesW_eq n w kernels[w] win 0 (by simpa using h0),
      ihr, entriesF, List.drop_zero]

theorem entries_eq_entriesF (n : Nat) (o : Occ) (hs : o.Shaped) :
    entries n o.kernels o.windows 0 = .ok (entriesF n o.windows o.kernels 0) := by
  have := entries_eq n o.kernels o.windows 0 (by simpa using hs.1)
    (by intro j hj hk; simpa using hs.2 j hj (by simpa using hk))
  simpa using this

/-! ### E-step: flat = row level -/

theorem lookupIdx_eq (row : Row) (lo : Nat) (data : List Rat)
    (hdata : ∀ pos (h : pos < row.length), data[lo + pos]? = some row[pos].2) (e : Nat × Rat) :
    lookupIdx (row.map Prod.fst) lo data e = .ok (gOf row e) := by
  unfold lookupIdx gOf
  by_cases hk : e.2 > 0
  · simp only [hk, if_true]
    rw [look_fst, look_snd]
    by_cases hp : searchsorted (row.map Prod.fst) e.1 < (row.map Prod.fst).length
    · have hp' : searchsorted (row.map Prod.fst) e.1 < row.length := by simpa using hp
      simp only [hp, if_true, rd_ok hp, Except.bind, List.getElem_map]
      unfold valAt
      rw [List.getElem?_eq_getElem hp']
      simp only
      by_cases hc : row[searchsorted (row.map Prod.fst) e.1].1 = e.1
      · simp only [hc, if_true]
        unfold rd
        rw [hdata _ hp']
      · simp only [hc, if_false, Rat.mul_zero]
    · simp only [hp, if_false]
      unfold valAt
      have : row[searchsorted (row.map Prod.fst) e.1]? = none := by
        apply List.getElem?_eq_none
        simpa using hp
      rw [this]
      simp only [Rat.mul_zero]
  · simp only [hk, if_false]

theorem eStepIdx_eq (row : Row) (lo : Nat) (data : List Rat)
    (hdata : ∀ pos (h : pos < row.length), data[lo + pos]? = some row[pos].2) :
    ∀ es, eStepIdx (row.map Prod.fst) lo data es = .ok (eStep row es) := by
  intro es
  induction es with
  | nil => rfl
  | cons e es ih =>
    simp only [eStepIdx, lookupIdx_eq row lo data hdata e, ih, Except.bind, eStep_eq, List.map_cons]

/-! ### M-step: flat = row level -/

theorem modify_append_left {α : Type} (f : α → α) : ∀ (a b : List α) (i : Nat), i < a.length →
    (a ++ b).modify i f = a.modify i f ++ b := by
  intro a
  induction a with
  | nil => intro b i h; simp at h
  | cons x a ih =>
    intro b i h
    cases i with
    | zero => simp
    | succ i => simp [ih b i (by simpa using h)]

theorem modify_append_right {α : Type} (f : α → α) : ∀ (a b : List α) (k : Nat),
    (a ++ b).modify (a.length + k) f = a ++ b.modify k f := by
  intro a
  induction a with
  | nil => intro b k; simp
  | cons x a ih =>
    intro b k
    have : (x :: a).length + k = (a.length + k) + 1 := by simp; omega
    rw [this]
    simp [ih b k]

theorem mStepIdx_eq (A B : List Rat) : ∀ (lk : List (Nat × Rat)) (p : List Rat),
    (∀ x ∈ lk, LookOK p.length x) →
    mStepIdx A.length lk (A ++ p ++ B) = .ok (A ++ mStep lk p ++ B) := by
  intro lk
  induction lk with
  | nil => intro p _; rfl
  | cons x xs ih =>
    intro p h
    have hx := h x (by simp)
    unfold mStepIdx mStep
    by_cases hv : x.2 > 0
    · have hne : x.2 ≠ 0 := ne_of_gt hv
      have hp := hx.2 hne
      rw [if_pos hv, if_pos hv]
      unfold addAtIdx
      rw [if_pos (by simp; omega)]
      simp only [Except.bind]
      rw [List.append_assoc, modify_append_right, modify_append_left _ _ _ _ hp, ← List.append_assoc]
      apply ih
      intro y hy
      have := h y (by simp [hy])
      simpa using this
    · rw [if_neg hv, if_neg hv]
      exact ih p (fun y hy => h y (by simp [hy]))

theorem eStep_lookOK (row : Row) (es : List (Nat × Rat)) : ∀ x ∈ eStep row es, LookOK row.length x := by
  intro x hx
  rw [eStep_eq] at hx
  obtain ⟨e, _, rfl⟩ := List.mem_map.mp hx
  unfold gOf
  split
  · refine ⟨?_, ?_⟩
    · simp only
      rw [look_fst]
      have := searchsorted_le (row.map Prod.fst) e.1
      simpa using this
    · intro hne
      apply look_ok
      intro h0; apply hne; simp only; rw [h0]; ring
  · exact ⟨Nat.zero_le _, fun h => absurd rfl h⟩

/-! ### decomposition of the flat arrays around row `t` -/

theorem flatten_split {α : Type} (L : List (List α)) (t : Nat) (h : t < L.length) :
    L.flatten = (L.take t).flatten ++ L[t] ++ (L.drop (t + 1)).flatten := by
  have : L = L.take t ++ L[t] :: L.drop (t + 1) := by
    rw [← List.drop_eq_getElem_cons h, List.take_append_drop]
  have h2 : L.flatten = (L.take t ++ L[t] :: L.drop (t + 1)).flatten := congrArg List.flatten this
  rw [h2, List.flatten_append, List.flatten_cons, List.append_assoc]

theorem flatten_modify {α : Type} (L : List (List α)) (t : Nat) (h : t < L.length)
    (g : List α → List α) :
    (L.modify t g).flatten = (L.take t).flatten ++ g L[t] ++ (L.drop (t + 1)).flatten := by
  rw [List.modify_eq_take_cons_drop h]
  simp

theorem indptrFrom_getElem? (s : Nat) : ∀ (M : Mat) (t : Nat), t ≤ M.length →
    (indptrFrom s M)[t]? = some (s + (M.take t).flatten.length) := by
  intro M
  induction M generalizing s with
  | nil => intro t h; simp at h; subst h; simp [indptrFrom]
  | cons row M ih =>
    intro t h
    cases t with
    | zero => simp [indptrFrom]
    | succ t =>
      simp only [indptrFrom, List.getElem?_cons_succ, List.take_succ_cons, List.flatten_cons,
        List.length_append]
      rw [ih (s + row.length) t (by simpa using h)]
      congr 1; omega

theorem shape_take_length {P : Post} {M : Mat} (h : Shape P M) (t : Nat) :
    (P.take t).flatten.length = (M.take t).flatten.length := by
  simp only [List.length_flatten]
  rw [List.map_take, List.map_take]
  unfold Shape at h
  rw [h]

theorem rd_of_getElem? {α : Type} (name : String) (a : List α) (i : Nat) (x : α) (h : a[i]? = some x) :
    rd name a i = .ok x := by
  unfold rd; rw [h]

/-- **the flat kernel computes the row-level update** -/
theorem emUpdateIdx_eq (n : Nat) (M : Mat) (P : Post) (hP : Shape P M) (o : Occ)
    (ht : o.target < M.length) (hs : o.Shaped) :
    emUpdateIdx (indptrOf M) (indicesOf M) (dataOf M) n P.flatten o
      = .ok (emUpdate n M P o).flatten := by
  have htP : o.target < P.length := by rw [hP.length]; exact ht
  have hrow : M[o.target]? = some M[o.target] := List.getElem?_eq_getElem ht
  have hp : P[o.target]? = some P[o.target] := List.getElem?_eq_getElem htP
  have hplen : P[o.target].length = M[o.target].length := hP.row o.target _ _ hp hrow
  -- indptr
  have hlo : (indptrOf M)[o.target]? = some (M.take o.target).flatten.length := by
    have := indptrFrom_getElem? 0 M o.target (by omega)
    rw [Nat.zero_add] at this
    exact this
  have hhi : (indptrOf M)[o.target + 1]? =
      some ((M.take o.target).flatten.length + M[o.target].length) := by
    have := indptrFrom_getElem? 0 M (o.target + 1) (by omega)
    rw [Nat.zero_add, List.take_succ_eq_append_getElem ht, List.flatten_append, List.length_append,
      List.flatten_cons, List.flatten_nil, List.append_nil] at this
    exact this
  -- slices
  have hsplit := flatten_split M o.target ht
  have hcol : ((indicesOf M).drop (M.take o.target).flatten.length).take
      ((M.take o.target).flatten.length + M[o.target].length - (M.take o.target).flatten.length)
      = M[o.target].map Prod.fst := by
    unfold indicesOf
    rw [hsplit, List.map_append, List.map_append, List.append_assoc,
      List.drop_left' (by rw [List.length_map]), Nat.add_sub_cancel_left,
      List.take_left' (by rw [List.length_map])]
  have hdata : ∀ pos (h : pos < M[o.target].length),
      (dataOf M)[(M.take o.target).flatten.length + pos]? = some M[o.target][pos].2 := by
    intro pos h
    unfold dataOf
    rw [hsplit, List.map_append, List.map_append, List.append_assoc,
      List.getElem?_append_right (by rw [List.length_map]; omega), List.length_map,
      Nat.add_sub_cancel_left, List.getElem?_append_left (by rw [List.length_map]; exact h),
      List.getElem?_map, List.getElem?_eq_getElem h]
    rfl
  unfold emUpdateIdx
  rw [rd_of_getElem? _ _ _ _ hlo, rd_of_getElem? _ _ _ _ hhi]
  simp only [Except.bind]
  rw [hcol, entries_eq_entriesF n o hs]
  simp only
  rw [eStepIdx_eq M[o.target] _ (dataOf M) hdata]
  simp only
  -- M-step on the decomposed posterior
  unfold emUpdate
  rw [hrow]
  simp only
  rw [flatten_modify P o.target htP, flatten_split P o.target htP, ← shape_take_length hP o.target]
  unfold rowUpdate
  apply mStepIdx_eq
  rw [hplen]
  exact normPost_ok _ _ (eStep_lookOK M[o.target] _)

theorem emIterIdxFrom_eq (n : Nat) (M : Mat) :
    ∀ (occs : List Occ) (P : Post), Shape P M →
      (∀ o ∈ occs, o.target < M.length ∧ o.Shaped) →
      emIterIdxFrom (indptrOf M) (indicesOf M) (dataOf M) n occs P.flatten
        = .ok (occs.foldl (emUpdate n M) P).flatten := by
  intro occs
  induction occs with
  | nil => intro P _ _; rfl
  | cons o os ih =>
    intro P hP h
    obtain ⟨ht, hs⟩ := h o (by simp)
    simp only [emIterIdxFrom, emUpdateIdx_eq n M P hP o ht hs, Except.bind, List.foldl_cons]
    exact ih _ (shape_emUpdate n M P o hP) (fun o' ho' => h o' (by simp [ho']))

theorem zerosLike_flatten (M : Mat) : (zerosLike M).flatten = (dataOf M).map fun _ => 0 := by
  unfold zerosLike dataOf
  induction M with
  | nil => rfl
  | cons row M ih =>
    simp only [List.map_cons, List.flatten_cons, List.map_append, List.map_map, ih]
    rfl

end VecModel.EM
