import VecModel.Model.Histogram
import Mathlib.Algebra.BigOperators.Group.List.Basic
/- Helper lemma for C20 (KDE): the model's right fold is the list sum. -/
namespace VecModel.Hist

theorem foldr_add_eq_sum {α : Type} [AddMonoid α] (l : List α) : l.foldr (· + ·) 0 = l.sum := by
  induction l with
  | nil => rfl
  | cons a l ih => simp [List.foldr, ih]

end VecModel.Hist
