import VecModel.Lemmas.TreePath
import VecModel.Lemmas.CoocSpec
/-
  Link C15 → C03: on a path graph the tree vectorizer's token-side expression `tokenAfter`
  (Lemmas/TreePath.lean) *is* C03's declarative definition `Cooc.spec` / `Cooc.specPlain`
  (Model/Cooc.lean) for the configuration: one block, orientation 'after', fixed radius `r`,
  mix weight 1, no mask, offset 0, no kernel normalisation, no window normalisation, positional
  base weights `w k` (flat / harmonic / geometric: `Window.Kernel.base`).
-/
set_option linter.unusedSimpArgs false
set_option linter.unusedVariables false
namespace VecModel.Tree
open VecModel.Window

/-- the two finite-sum operators (one per model) are the same function -/
theorem sumTo_eq_cooc : ∀ (n : Nat) (f : Nat → Rat), sumTo n f = Cooc.sumTo n f
  | 0, _ => rfl
  | n + 1, f => by simp only [sumTo, Cooc.sumTo, sumTo_eq_cooc n f]

/-- C03's block for `window_orientations='after'`, `window_radii=r`, `window_functions='fixed'`,
default kernel arguments, positional base weights `w` -/
def afterBlock (r : Nat) (w : Nat → Rat) : Cooc.Block :=
  { rev := false, mix := 1, args := {}, radius := fun _ => r, w := fun k _ => w k }

/-- C03's configuration of `TokenCooccurrenceVectorizer(window_radii=r, window_orientations='after',
normalize_windows=False)` over a vocabulary of `n` tokens -/
def afterCfg (n r : Nat) (w : Nat → Rat) : Cooc.Cfg :=
  { n := n, blocks := [afterBlock r w], normWin := false }

/-- `tokRow` as an indexed sum over the weight list -/
theorem tokRow_eq_sumTo (seq : List Nat) (lb : Nat) (ws : List Rat) (d u : Nat) :
    tokRow seq lb ws d u =
      Cooc.sumTo ws.length fun m =>
        if seq[u + d + m]? = some lb then (match ws[m]? with | some x => x | none => 0) else 0 := by
  induction ws generalizing d with
  | nil => simp [tokRow, Cooc.sumTo]
  | cons x ws ih =>
    simp only [tokRow, ih (d + 1)]
    have hlen : (x :: ws).length = 1 + ws.length := by simp; omega
    rw [hlen, Cooc.sumTo_split 1 ws.length]
    simp only [Cooc.sumTo, List.getElem?_cons_zero, Nat.add_zero]
    have : (Cooc.sumTo ws.length fun m =>
          if seq[u + (d + 1) + m]? = some lb then (match ws[m]? with | some x => x | none => 0) else 0) =
        Cooc.sumTo ws.length fun k =>
          if seq[u + d + (1 + k)]? = some lb then
            (match (x :: ws)[1 + k]? with | some x => x | none => 0) else 0 := by
      apply Cooc.sumTo_congr
      intro m _
      have h1 : u + (d + 1) + m = u + d + (1 + m) := by omega
      have h2 : 1 + m = m + 1 := by omega
      rw [h1, h2, List.getElem?_cons_succ]
    rw [this]
    ring

/-- the positional weight of C03's 'after' block -/
theorem posKer_afterBlock (r : Nat) (w : Nat → Rat) (s : Cooc.TSeq) (i j : Nat)
    (hi : i < s.length) (hj : j < s.length) :
    Cooc.posKer (afterBlock r w) s i j = if Cooc.inWin false r i j then w (Cooc.gap i j) else 0 := by
  unfold Cooc.posKer Cooc.posRaw afterBlock
  rw [List.getElem?_eq_getElem hi, List.getElem?_eq_getElem hj]
  simp

/-- **row of the definition**: for a target at position `i`, the sum over the window positions
holding token `lb` of their weights is `tokRow` -/
theorem spec_row_eq_tokRow (r : Nat) (w : Nat → Rat) (seq : List Nat) (lb i : Nat)
    (hi : i < seq.length) :
    (Cooc.sumTo seq.length fun j =>
      if seq[j]? = some lb ∧ Cooc.inWin false r i j = true then w (Cooc.gap i j) else 0) =
    tokRow seq lb ((List.range r).map w) 1 i := by
  rw [tokRow_eq_sumTo]
  simp only [List.length_map, List.length_range]
  -- left: re-index over the window entries
  rw [← Cooc.sumTo_window false r i seq.length hi
    (fun j => if seq[j]? = some lb ∧ Cooc.inWin false r i j = true then w (Cooc.gap i j) else 0)
    (fun j _ h => by simp [h])]
  simp only [Cooc.wlen, Cooc.wpos, Bool.false_eq_true, if_false]
  -- right: entries past the end of the sequence vanish
  have hle : min r (seq.length - (i + 1)) ≤ r := Nat.min_le_left _ _
  rw [Cooc.sumTo_tail_zero hle (f := fun m =>
      if seq[i + 1 + m]? = some lb then
        (match ((List.range r).map w)[m]? with | some x => x | none => 0) else 0) (by
    intro m h1 h2
    have : seq[i + 1 + m]? = none := List.getElem?_eq_none (by omega)
    simp [this])]
  apply Cooc.sumTo_congr
  intro m hm
  have hmr : m < r := by omega
  have hin : Cooc.inWin false r i (i + 1 + m) = true := by simp [Cooc.inWin]; omega
  have hgap : Cooc.gap i (i + 1 + m) = m := by
    unfold Cooc.gap
    have : i ≤ i + 1 + m := by omega
    simp [this]; omega
  simp [hin, hgap, List.getElem?_map, List.getElem?_range hmr]

/-- **tokenAfter is C03's definition (plain form)**: for every radius, every positional weight
function, every sequence and every pair of tokens, the token-side expression the tree model is
proved equal to (`path_eq_token`) is the cell `(la, lb)` of `Cooc.specPlain` on the one-sequence
corpus — C03's declarative definition, 'after' block, fixed radius `r`, no normalisation. -/
theorem tokenAfter_eq_cooc_specPlain (n r : Nat) (w : Nat → Rat) (la lb : Nat) (seq : List Nat) :
    tokenAfter ((List.range r).map w) la lb seq =
      Cooc.specPlain (afterCfg n r w) (Cooc.untimed [seq]) la lb := by
  unfold tokenAfter Cooc.specPlain Cooc.untimed
  simp only [List.map_cons, List.map_nil, Cooc.sumOver_cons, Cooc.sumOver_nil, List.length_map, add_zero]
  rw [sumTo_eq_cooc]
  apply Cooc.sumTo_congr
  intro i hi
  have hsi : seq[i]? = some seq[i] := List.getElem?_eq_getElem hi
  simp only [List.getElem?_map, hsi, Option.map_some, Option.some.injEq]
  by_cases hla : seq[i] = la
  · simp only [hla, if_true]
    simp only [afterCfg, List.zipIdx_cons, List.zipIdx_nil, Cooc.sumOver_cons, Cooc.sumOver_nil,
      add_zero, Nat.zero_mul, Nat.add_zero]
    rw [← spec_row_eq_tokRow r w seq lb i hi]
    apply Cooc.sumTo_congr
    intro j hj
    have hsj : seq[j]? = some seq[j] := List.getElem?_eq_getElem hj
    have hpk := posKer_afterBlock r w (seq.map fun t => (t, (0 : Rat))) i j (by simpa using hi) (by simpa using hj)
    have htot : Cooc.posTotal { n := n, blocks := [afterBlock r w], normWin := false }
        (seq.map fun t => (t, (0 : Rat))) i = 1 := Cooc.posTotal_noNorm _ _ _ rfl
    simp only [hsj, Option.map_some, hpk, htot, div_one, Option.some.injEq]
    by_cases hlb : seq[j] = lb
    · by_cases hin : Cooc.inWin false r i j = true
      · simp [hlb, hin]
      · simp [hlb, hin]
    · simp [hlb]
  · simp [hla]

/-- … and `Cooc.spec` itself (the definition with the code's `val > 0` filter) when the weights
are non-negative, as the flat, harmonic and geometric (power ≥ 0) kernels are. -/
theorem tokenAfter_eq_cooc_spec (n r : Nat) (w : Nat → Rat) (hw : ∀ k, 0 ≤ w k) (la lb : Nat)
    (seq : List Nat) :
    tokenAfter ((List.range r).map w) la lb seq =
      Cooc.spec (afterCfg n r w) (Cooc.untimed [seq]) la lb := by
  rw [tokenAfter_eq_cooc_specPlain n r w la lb seq]
  unfold Cooc.spec Cooc.specPlain
  apply Cooc.sumOver_congr
  intro s _
  apply Cooc.sumTo_congr
  intro i _
  cases s[i]? with
  | none => rfl
  | some tgt =>
    simp only
    split
    · apply Cooc.sumOver_congr
      intro bw hbw
      have hb : bw.1 = afterBlock r w := by
        simp only [afterCfg, List.zipIdx_cons, List.zipIdx_nil, List.mem_singleton] at hbw
        rw [hbw]
      apply Cooc.sumTo_congr
      intro j _
      cases s[j]? with
      | none => rfl
      | some ctx =>
        simp only
        split
        · have h0 : 0 ≤ Cooc.posKer bw.1 s i j / Cooc.posTotal (afterCfg n r w) s i :=
            div_nonneg
              (Cooc.posKer_nonneg bw.1 s i j (by rw [hb]; simp [afterBlock])
                (by rw [hb]; intro k dt; exact hw k))
              (le_of_lt (Cooc.posTotal_pos _ s i))
          unfold Cooc.pos
          split
          · rfl
          · rename_i hn
            exact le_antisymm (not_lt.mp hn) h0
        · rfl
    · rfl

/-- the definition is additive over the corpus -/
theorem spec_cons (cfg : Cooc.Cfg) (s : Cooc.TSeq) (S : List Cooc.TSeq) (a b : Nat) :
    Cooc.spec cfg (s :: S) a b = Cooc.spec cfg [s] a b + Cooc.spec cfg S a b := by
  unfold Cooc.spec
  simp only [Cooc.sumOver_cons, Cooc.sumOver_nil, add_zero]

/-- … for a corpus of sequences: the sum of the per-sequence expressions is the definition on the corpus -/
theorem tokenAfter_corpus_eq_cooc_spec (n r : Nat) (w : Nat → Rat) (hw : ∀ k, 0 ≤ w k) (la lb : Nat)
    (seqs : List (List Nat)) :
    seqs.foldr (fun s acc => tokenAfter ((List.range r).map w) la lb s + acc) 0 =
      Cooc.spec (afterCfg n r w) (Cooc.untimed seqs) la lb := by
  induction seqs with
  | nil => simp [Cooc.spec, Cooc.untimed, Cooc.sumOver_nil]
  | cons s ss ih =>
    have hu : Cooc.untimed (s :: ss) = (s.map fun t => (t, (0 : Rat))) :: Cooc.untimed ss := rfl
    rw [List.foldr_cons, ih, hu, spec_cons, tokenAfter_eq_cooc_spec n r w hw la lb s]
    rfl

/-- every weight list is of the form `(range r).map w` -/
theorem weights_as_fn (ws : List Rat) :
    ws = (List.range ws.length).map fun k => (match ws[k]? with | some x => x | none => 0) := by
  apply List.ext_getElem?
  intro k
  by_cases hk : k < ws.length
  · simp [List.getElem?_map, List.getElem?_range hk, List.getElem?_eq_getElem hk]
  · rw [List.getElem?_eq_none (by omega), List.getElem?_eq_none (by simp; omega)]

/-- the kernel weight vectors `build_tree_skip_grams` obtains from `kernel_function(-ones(r))`:
flat = ones, harmonic = `1/(k+1)`, geometric = `power^(k+1)` — exactly `Window.Kernel.base` -/
def kernelWeights (kern : Kernel) (r : Nat) : List Rat := posWeights kern.base r

theorem kernel_base_nonneg (kern : Kernel)
    (hp : ∀ p, kern = .geometric p → 0 ≤ p) (k : Nat) : 0 ≤ kern.base k := by
  cases kern with
  | flat => simp [Kernel.base]
  | harmonic =>
    simp only [Kernel.base]
    apply div_nonneg (by norm_num)
    have : (0 : Rat) ≤ (k : Rat) := Nat.cast_nonneg k
    linarith
  | geometric p =>
    simp only [Kernel.base]
    exact pow_nonneg (hp p rfl) _

end VecModel.Tree
