import VecModel.Lemmas.Ngram
/- Helper lemmas for the `__add__` part of Props/C06: well-formed unigram models, the explicit
   form of the merged model. Core Lean only. -/
namespace VecModel.Ngram
open VecModel.Counts

theorem lookup_of_mem' [DecidableEq κ] {d : List (κ × ν)} (hn : (d.map (·.1)).Nodup) {k : κ} {v : ν}
    (h : (k, v) ∈ d) : lookup d k = some v := by
  induction d with
  | nil => simp at h
  | cons p rest ih =>
    obtain ⟨k0, v0⟩ := p
    simp only [List.map_cons, List.nodup_cons] at hn
    rw [lookup_cons]
    rcases List.mem_cons.mp h with h | h
    · cases h; simp
    · have : k0 ≠ k := by
        intro he; apply hn.1; subst he
        exact List.mem_map.mpr ⟨(k0, v), h, rfl⟩
      simp [this, ih hn.2 h]

theorem mem_of_lookup' [DecidableEq κ] {d : List (κ × ν)} {k : κ} {v : ν}
    (h : lookup d k = some v) : (k, v) ∈ d := by
  induction d with
  | nil => simp [lookup] at h
  | cons p rest ih =>
    obtain ⟨k0, v0⟩ := p
    rw [lookup_cons] at h
    split at h
    · rename_i hk; cases h; subst hk; simp
    · exact List.mem_cons_of_mem _ (ih h)

theorem lookup_iff_mem' [DecidableEq κ] {d : List (κ × ν)} (hn : (d.map (·.1)).Nodup) (k : κ) (v : ν) :
    lookup d k = some v ↔ (k, v) ∈ d :=
  ⟨mem_of_lookup', lookup_of_mem' hn⟩

theorem nodup_of_map_nodup {f : α → β} {l : List α} (h : (l.map f).Nodup) : l.Nodup := by
  induction l with
  | nil => exact List.nodup_nil
  | cons x xs ih =>
    simp only [List.map_cons, List.nodup_cons] at h ⊢
    exact ⟨fun hx => h.1 (List.mem_map.mpr ⟨x, hx, rfl⟩), ih h.2⟩

theorem UWF.lookup_colLabel {m : Fitted} (h : UWF m) (L : Label) (i : Nat) :
    lookup m.colLabel L = some i ↔ (i, L) ∈ m.colIndex := by
  rw [h.colLabelEq, lookup_iff_mem' (by simpa [List.map_map, Function.comp_def] using h.labelsNodup)]
  simp only [List.mem_map, Prod.mk.injEq]
  constructor
  · rintro ⟨p, hp, h1, h2⟩; subst h1 h2; exact hp
  · intro hp; exact ⟨(i, L), hp, rfl, rfl⟩

theorem UWF.lookup_tokDict {m : Fitted} (h : UWF m) (t : Int) (i : Nat) :
    lookup m.tokDict t = some i ↔ (i, Label.tok t) ∈ m.colIndex := by
  have hn : (m.tokDict.map (·.1)).Nodup := by
    have := h.labelsNodup
    rw [← h.tokDictEq, List.map_map] at this
    have e : ((fun p : Nat × Label => p.2) ∘ fun p : Int × Nat => (p.2, Label.tok p.1)) =
        (Label.tok ∘ fun p : Int × Nat => p.1) := rfl
    rw [e, ← List.map_map] at this
    exact nodup_of_map_nodup this
  rw [lookup_iff_mem' hn, ← h.tokDictEq]
  simp only [List.mem_map, Prod.mk.injEq, Label.tok.injEq]
  constructor
  · intro hp; exact ⟨(t, i), hp, rfl, rfl⟩
  · rintro ⟨p, hp, h1, h2⟩; subst h1 h2; exact hp

theorem UWF.lookup_invDict {m : Fitted} (h : UWF m) (i : Nat) (t : Int) :
    lookup m.invDict i = some t ↔ (i, Label.tok t) ∈ m.colIndex := by
  have hn : (m.invDict.map (·.1)).Nodup := by
    have : m.invDict.map (·.1) = m.colIndex.map (·.1) := by
      rw [← h.invDictEq, List.map_map]; rfl
    rw [this, h.keys]; exact List.nodup_range
  rw [lookup_iff_mem' hn, ← h.invDictEq]
  simp only [List.mem_map, Prod.mk.injEq, Label.tok.injEq]
  constructor
  · intro hp; exact ⟨(i, t), hp, rfl, rfl⟩
  · rintro ⟨p, hp, h1, h2⟩; subst h1 h2; exact hp

theorem UWF.keys_nodup {m : Fitted} (h : UWF m) : (m.colIndex.map (·.1)).Nodup := by
  rw [h.keys]; exact List.nodup_range

theorem UWF.key_lt {m : Fitted} (h : UWF m) {i : Nat} {L : Label} (hm : (i, L) ∈ m.colIndex) :
    i < m.colIndex.length := by
  have : i ∈ m.colIndex.map (·.1) := List.mem_map.mpr ⟨(i, L), hm, rfl⟩
  rw [h.keys] at this
  exact List.mem_range.mp this

theorem UWF.label_unique {m : Fitted} (h : UWF m) {i : Nat} {L L' : Label}
    (h1 : (i, L) ∈ m.colIndex) (h2 : (i, L') ∈ m.colIndex) : L = L' := by
  have a := lookup_of_mem' h.keys_nodup h1
  have b := lookup_of_mem' h.keys_nodup h2
  rw [a] at b
  exact Option.some.inj b

theorem UWF.key_unique {m : Fitted} (h : UWF m) {i i' : Nat} {L : Label}
    (h1 : (i, L) ∈ m.colIndex) (h2 : (i', L) ∈ m.colIndex) : i = i' := by
  have a := (h.lookup_colLabel L i).mpr h1
  have b := (h.lookup_colLabel L i').mpr h2
  rw [a] at b
  exact Option.some.inj b

theorem UWF.toWF {m : Fitted} (h : UWF m) : WF m where
  tokInv := fun t i ht => (h.lookup_invDict i t).mpr ((h.lookup_tokDict t i).mp ht)
  colInj := fun L L' j h1 h2 =>
    h.label_unique ((h.lookup_colLabel L j).mp h1) ((h.lookup_colLabel L' j).mp h2)
  colBound := fun L j hj => by
    have : m.colLabel.length = m.colIndex.length := by rw [h.colLabelEq]; simp
    rw [this]; exact h.key_lt ((h.lookup_colLabel L j).mp hj)


theorem dictSet_append [DecidableEq κ] (d : List (κ × ν)) (k : κ) (v : ν)
    (h : k ∉ d.map (·.1)) : dictSet d k v = d ++ [(k, v)] := by
  induction d with
  | nil => rfl
  | cons p rest ih =>
    obtain ⟨k0, v0⟩ := p
    simp only [List.map_cons, List.mem_cons, not_or] at h
    simp only [dictSet]
    have : ¬ k0 = k := fun he => h.1 he.symm
    simp [this, ih h.2]

theorem foldl_dictSet_append [DecidableEq κ] (l : List (κ × ν)) : ∀ (d : List (κ × ν)),
    ((d ++ l).map (·.1)).Nodup → l.foldl (fun d p => dictSet d p.1 p.2) d = d ++ l := by
  induction l with
  | nil => intro d _; simp
  | cons p rest ih =>
    intro d hn
    obtain ⟨k, v⟩ := p
    have hk : k ∉ d.map (·.1) := by
      intro hk
      simp only [List.map_append, List.map_cons] at hn
      have := (List.nodup_append.mp hn).2.2 k hk k (by simp)
      exact this rfl
    rw [List.foldl_cons, dictSet_append d k v hk, ih]
    · simp
    · simpa using hn

theorem fromPairs_nodup [DecidableEq κ] (l : List (κ × ν)) (hn : (l.map (·.1)).Nodup) :
    fromPairs l = l := by
  unfold fromPairs
  have := foldl_dictSet_append l [] (by simpa using hn)
  simpa using this


theorem enumInto_eq : ∀ (enum : List Label) (d : List (Nat × Label)) (s : Nat),
    (∀ p ∈ d, p.1 < s) → enumInto d s enum = d ++ idxList s enum := by
  intro enum
  induction enum with
  | nil => intro d s _; simp [enumInto, idxList]
  | cons x rest ih =>
    intro d s h
    have hk : s ∉ d.map (·.1) := by
      intro hs
      obtain ⟨p, hp, he⟩ := List.mem_map.mp hs
      have := h p hp
      omega
    rw [enumInto, dictSet_append d s x hk, ih]
    · simp [idxList]
    · intro p hp
      rcases List.mem_append.mp hp with hp | hp
      · have := h p hp; omega
      · simp at hp; subst hp; simp

theorem idxList_keys (s : Nat) (l : List Label) :
    (idxList s l).map (·.1) = (List.range l.length).map (s + ·) := by
  induction l generalizing s with
  | nil => rfl
  | cons x rest ih =>
    simp only [idxList, List.map_cons, ih, List.length_cons, List.range_succ_eq_map, List.map_map]
    simp only [List.map_cons, Nat.add_zero, List.map_map]
    congr 1
    apply List.map_congr_left
    intro k _
    simp only [Function.comp]
    omega

theorem idxList_vals (s : Nat) (l : List Label) : (idxList s l).map (·.2) = l := by
  induction l generalizing s with
  | nil => rfl
  | cons x rest ih => simp [idxList, ih]

theorem mem_idxList {s : Nat} {l : List Label} {i : Nat} {L : Label} :
    (i, L) ∈ idxList s l ↔ s ≤ i ∧ l[i - s]? = some L := by
  induction l generalizing s with
  | nil => simp [idxList]
  | cons x rest ih =>
    simp only [idxList, List.mem_cons, Prod.mk.injEq, ih]
    constructor
    · rintro (⟨h1, h2⟩ | ⟨h1, h2⟩)
      · subst h1 h2; simp
      · have e : i - s = (i - (s + 1)) + 1 := by omega
        rw [e]; exact ⟨by omega, by simpa using h2⟩
    · rintro ⟨h1, h2⟩
      by_cases he : i = s
      · left; subst he; simp at h2; exact ⟨rfl, h2.symm⟩
      · right
        have e : i - s = (i - (s + 1)) + 1 := by omega
        rw [e] at h2
        exact ⟨by omega, by simpa using h2⟩

theorem range_append_keys (n m : Nat) :
    List.range n ++ (List.range m).map (n + ·) = List.range (n + m) := by
  rw [List.range_add]


theorem gramsSpec_one (s : List α) : gramsSpec s 1 .exact = s.map fun x => [x] := by
  induction s with
  | nil => rfl
  | cons x xs ih =>
    simp only [gramsSpec] at *
    rw [List.length_cons, flatMap_range_succ, List.map_cons, ← ih]
    have h0 : (if 0 + 1 ≤ xs.length + 1 then [slice (x :: xs) 0 (0 + 1)] else []) = [[x]] := by
      simp [slice]
    rw [h0]
    show [x] :: _ = [x] :: _
    congr 1
    apply flatMap_congr'
    intro k _
    have hs : slice (x :: xs) (k + 1) (k + 1 + 1) = slice xs k (k + 1) := by
      simp [slice]
    by_cases hk : k + 1 ≤ xs.length
    · have : k + 1 + 1 ≤ xs.length + 1 := by omega
      simp [hk, this, hs]
    · have : ¬ k + 1 + 1 ≤ xs.length + 1 := by omega
      simp [hk, this]

theorem countOcc_singleton (t : Int) (s : List Int) : countOcc [t] s = s.count t := by
  have := count_exact s [t] 1
  simp only [List.length_cons, List.length_nil, Nat.zero_add, if_true] at this
  rw [← this, gramsSpec_one, count_map_eq]
  rw [List.count_eq_countP, List.countP_eq_length_filter]
  congr 1
  apply List.filter_congr
  intro x _
  by_cases hx : x = t <;> simp [hx]

theorem kept_count (d : List (Int × Nat)) (doc : List Int) (t : Int) (h : (lookup d t).isSome) :
    (kept d doc).count t = doc.count t := by
  unfold kept
  rw [List.count_filter]
  simpa using h

theorem produced_one (beh : Behaviour) : produced 1 beh 1 = true := by
  cases beh <;> simp [produced]

/-- a well-formed unigram model counts the occurrences of each of its tokens -/
theorem unigram_cell {m : Fitted} (h : UWF m) (doc : List Int) (t : Int) (j : Nat)
    (hj : lookup m.colLabel (.tok t) = some j) :
    cellOf (countDoc m (reindex m.tokDict doc)) j = doc.count t := by
  have hl : labelOfGram [t] = .tok t := rfl
  rw [cellOf_countDoc m h.toWF doc [t] j (by rw [hl]; exact hj), count_gramsSpec, h.n1]
  simp only [List.length_cons, List.length_nil, Nat.zero_add, produced_one, if_true]
  rw [countOcc_singleton, kept_count]
  have := (h.lookup_tokDict t j).mpr ((h.lookup_colLabel _ j).mp hj)
  simp [this]



/-! ### the merged model, explicitly -/

theorem isEnumOf_spec {a b : Fitted} {enum : List Label} (h : isEnumOf a b enum = true) :
    enum.Nodup ∧
    (∀ l ∈ enum, l ∈ b.colIndex.map (·.2) ∧ l ∉ a.colIndex.map (·.2)) ∧
    (∀ p ∈ b.colIndex, p.2 ∈ a.colIndex.map (·.2) ∨ p.2 ∈ enum) := by
  simp only [isEnumOf, Bool.and_eq_true, decide_eq_true_eq, List.all_eq_true, List.any_eq_true,
    beq_iff_eq, Bool.not_eq_true', Bool.or_eq_true, List.contains_iff_mem] at h
  obtain ⟨⟨h1, h2⟩, h3⟩ := h
  refine ⟨h1, ?_, ?_⟩
  · intro l hl
    obtain ⟨⟨p, hp, he⟩, hna⟩ := h2 l hl
    refine ⟨List.mem_map.mpr ⟨p, hp, he⟩, ?_⟩
    intro hm
    obtain ⟨q, hq, he'⟩ := List.mem_map.mp hm
    have : (a.colIndex.any fun p => p.2 == l) = true := by
      rw [List.any_eq_true]; exact ⟨q, hq, by simpa using he'⟩
    rw [this] at hna; cases hna
  · intro p hp
    rcases h3 p hp with ⟨q, hq, he⟩ | hc
    · left; exact List.mem_map.mpr ⟨q, hq, he⟩
    · right; exact hc

theorem add_spec {a b r : Fitted} {enum : List Label} (ha : UWF a) (h : add a b enum = .ok r) :
    isEnumOf a b enum = true ∧ a.n = b.n ∧ a.beh = b.beh ∧
    r.n = a.n ∧ r.beh = a.beh ∧ r.colIndex = jointIndex a enum ∧
    r.colLabel = invert (jointIndex a enum) ∧
    tokDictOf (invert (jointIndex a enum)) = some r.tokDict ∧
    invDictOf (jointIndex a enum) = some r.invDict ∧
    ∃ r2j bottom, rightToJoint (invert (jointIndex a enum)) b.colLabel = some r2j ∧
      b.train.rows.mapM (remapRow r2j) = some bottom ∧
      r.train = ⟨a.train.nRows + b.train.nRows, (jointIndex a enum).length, a.train.rows ++ bottom⟩ := by
  have hJ : enumInto a.colIndex a.colIndex.length enum = jointIndex a enum :=
    enumInto_eq enum a.colIndex _ (fun p hp => ha.key_lt (L := p.2) hp)
  unfold add at h
  split at h
  · cases h
  · rename_i h1
    split at h
    · cases h
    · split at h
      · cases h
      · rename_i h3
        simp only [hJ] at h
        split at h
        · cases h
        · rename_i r2j hr2j
          split at h
          · cases h
          · rename_i bottom hbottom
            split at h
            · cases h
            · rename_i tokDict htok
              split at h
              · cases h
              · rename_i invDict hinv
                cases h
                have h1' : a.n = b.n ∧ a.beh = b.beh := by
                  constructor
                  · exact Classical.byContradiction fun hc => h1 (Or.inl hc)
                  · exact Classical.byContradiction fun hc => h1 (Or.inr hc)
                refine ⟨by simpa using h3, h1'.1, h1'.2, rfl, rfl, rfl, rfl, htok, hinv, r2j, bottom,
                  hr2j, hbottom, rfl⟩

/-! ### `mapM` in `Option` -/

theorem mapM_cons_some {f : α → Option β} {x : α} {xs : List α} {l' : List β}
    (h : (x :: xs).mapM f = some l') : ∃ y ys, f x = some y ∧ xs.mapM f = some ys ∧ l' = y :: ys := by
  rw [List.mapM_cons] at h
  cases hx : f x with
  | none => simp [hx] at h
  | some y =>
    cases hxs : xs.mapM f with
    | none => simp [hx, hxs] at h
    | some ys =>
      simp [hx, hxs] at h
      exact ⟨y, ys, rfl, rfl, h.symm⟩

theorem mapM_some_map {f : α → Option β} {g : β → γ} {k : α → γ} :
    ∀ {l : List α} {l' : List β}, l.mapM f = some l' → (∀ x y, f x = some y → g y = k x) →
      l'.map g = l.map k := by
  intro l
  induction l with
  | nil => intro l' h _; simp at h; subst h; rfl
  | cons x xs ih =>
    intro l' h hg
    obtain ⟨y, ys, hx, hxs, rfl⟩ := mapM_cons_some h
    simp [hg x y hx, ih hxs hg]

theorem mapM_some_mem {f : α → Option β} :
    ∀ {l : List α} {l' : List β}, l.mapM f = some l' → ∀ y, y ∈ l' ↔ ∃ x ∈ l, f x = some y := by
  intro l
  induction l with
  | nil => intro l' h y; simp at h; subst h; simp
  | cons x xs ih =>
    intro l' h y'
    obtain ⟨y, ys, hx, hxs, rfl⟩ := mapM_cons_some h
    simp only [List.mem_cons, ih hxs]
    constructor
    · rintro (hf | ⟨x', hx', hf⟩)
      · subst hf; exact ⟨x, Or.inl rfl, hx⟩
      · exact ⟨x', Or.inr hx', hf⟩
    · rintro ⟨x', hx' | hx', hf⟩
      · subst hx'; rw [hx] at hf; left; exact (Option.some.inj hf).symm
      · right; exact ⟨x', hx', hf⟩

theorem mapM_some_getElem {f : α → Option β} :
    ∀ {l : List α} {l' : List β}, l.mapM f = some l' →
      l'.length = l.length ∧ ∀ i (h : i < l.length) (h' : i < l'.length), f l[i] = some l'[i] := by
  intro l
  induction l with
  | nil => intro l' h; simp at h; subst h; simp
  | cons x xs ih =>
    intro l' h
    obtain ⟨y, ys, hx, hxs, rfl⟩ := mapM_cons_some h
    obtain ⟨hl, hi⟩ := ih hxs
    refine ⟨by simp [hl], ?_⟩
    intro i h1 h2
    cases i with
    | zero => simpa using hx
    | succ i => simpa using hi i (by simpa using h1) (by simpa using h2)

theorem mapM_some_exists {f : α → Option β} :
    ∀ (l : List α), (∀ x ∈ l, (f x).isSome) → ∃ l', l.mapM f = some l' := by
  intro l
  induction l with
  | nil => intro _; exact ⟨[], rfl⟩
  | cons x xs ih =>
    intro h
    obtain ⟨ys, hys⟩ := ih (fun y hy => h y (List.mem_cons_of_mem _ hy))
    have := h x List.mem_cons_self
    cases hx : f x with
    | none => rw [hx] at this; cases this
    | some y => exact ⟨y :: ys, by rw [List.mapM_cons, hx, hys]; rfl⟩

/-- renaming the keys of a counter through an injective partial map -/
theorem lookup_remap (f : Nat → Option Nat)
    (hinj : ∀ x x' j, f x = some j → f x' = some j → x = x') :
    ∀ (row row' : Counter), row.mapM (fun p => (f p.1).map fun j => (j, p.2)) = some row' →
      ∀ x j, f x = some j → lookup row' j = lookup row x := by
  intro row
  induction row with
  | nil => intro row' h x j _; simp at h; subst h; rfl
  | cons p rest ih =>
    intro row' h x j hx
    obtain ⟨q, rest', hq, hrest, rfl⟩ := mapM_cons_some h
    obtain ⟨k, v⟩ := p
    cases hk : f k with
    | none => simp [hk] at hq
    | some jk =>
      simp [hk] at hq
      subst hq
      rw [lookup_cons, lookup_cons, ih rest' hrest x j hx]
      by_cases he : k = x
      · subst he
        rw [hk] at hx
        cases hx
        simp
      · have : jk ≠ j := by
          intro hj; subst hj; exact he (hinj k x jk hk hx)
        simp [he, this]

theorem remap_keys (f : Nat → Option Nat) :
    ∀ (row row' : Counter), row.mapM (fun p => (f p.1).map fun j => (j, p.2)) = some row' →
      ∀ q ∈ row', ∃ p ∈ row, f p.1 = some q.1 := by
  intro row row' h q hq
  obtain ⟨p, hp, hpq⟩ := (mapM_some_mem h q).mp hq
  refine ⟨p, hp, ?_⟩
  cases hf : f p.1 with
  | none => simp [hf] at hpq
  | some j => simp [hf] at hpq; subst hpq; rfl

theorem cellOf_eq_zero {c : Counter} {j : Nat} (h : ∀ p ∈ c, p.1 ≠ j) : cellOf c j = 0 := by
  have : lookup c j = none := by
    cases hl : lookup c j with
    | none => rfl
    | some v => exact absurd rfl (h _ (mem_of_lookup' hl))
  simp [cellOf, this]

/-! ### the joint dictionaries -/

theorem jointIndex_labels (a : Fitted) (enum : List Label) :
    (jointIndex a enum).map (·.2) = a.colIndex.map (·.2) ++ enum := by
  simp [jointIndex, idxList_vals]

theorem jointIndex_length (a : Fitted) (enum : List Label) :
    (jointIndex a enum).length = a.colIndex.length + enum.length := by
  have := congrArg List.length (jointIndex_labels a enum)
  simpa using this

theorem jointIndex_keys {a : Fitted} (ha : UWF a) (enum : List Label) :
    (jointIndex a enum).map (·.1) = List.range (jointIndex a enum).length := by
  rw [jointIndex_length]
  simp only [jointIndex, List.map_append, ha.keys, idxList_keys]
  rw [List.range_add]

theorem jointIndex_labelsNodup {a b : Fitted} (ha : UWF a) {enum : List Label}
    (he : isEnumOf a b enum = true) : ((jointIndex a enum).map (·.2)).Nodup := by
  obtain ⟨h1, h2, _⟩ := isEnumOf_spec he
  rw [jointIndex_labels, List.nodup_append]
  refine ⟨ha.labelsNodup, h1, ?_⟩
  intro x hx y hy hxy
  subst hxy
  exact (h2 x hy).2 hx

theorem invert_jointIndex {a b : Fitted} (ha : UWF a) {enum : List Label}
    (he : isEnumOf a b enum = true) :
    invert (jointIndex a enum) = (jointIndex a enum).map fun p => (p.2, p.1) := by
  unfold invert
  apply fromPairs_nodup
  simpa [List.map_map, Function.comp_def] using jointIndex_labelsNodup ha he

theorem mem_jointIndex {a : Fitted} {enum : List Label} {i : Nat} {L : Label} :
    (i, L) ∈ jointIndex a enum ↔
      (i, L) ∈ a.colIndex ∨ (a.colIndex.length ≤ i ∧ enum[i - a.colIndex.length]? = some L) := by
  simp [jointIndex, mem_idxList]

/-- **columns of the merged model = union of the columns of the two models** (as list facts) -/
theorem jointIndex_label_iff {a b : Fitted} {enum : List Label} (he : isEnumOf a b enum = true)
    (L : Label) :
    L ∈ (jointIndex a enum).map (·.2) ↔ L ∈ a.colIndex.map (·.2) ∨ L ∈ b.colIndex.map (·.2) := by
  obtain ⟨_, h2, h3⟩ := isEnumOf_spec he
  rw [jointIndex_labels, List.mem_append]
  constructor
  · rintro (h | h)
    · left; exact h
    · right; exact (h2 L h).1
  · rintro (h | h)
    · left; exact h
    · obtain ⟨p, hp, rfl⟩ := List.mem_map.mp h
      exact h3 p hp

theorem UWF.allTok {m : Fitted} (h : UWF m) : ∀ p ∈ m.colIndex, ∃ t, p.2 = Label.tok t := by
  intro p hp
  rw [← h.tokDictEq] at hp
  obtain ⟨q, _, rfl⟩ := List.mem_map.mp hp
  exact ⟨q.1, rfl⟩

theorem jointIndex_allTok {a b : Fitted} (ha : UWF a) (hb : UWF b) {enum : List Label}
    (he : isEnumOf a b enum = true) : ∀ p ∈ jointIndex a enum, ∃ t, p.2 = Label.tok t := by
  intro p hp
  have : p.2 ∈ (jointIndex a enum).map (·.2) := List.mem_map.mpr ⟨p, hp, rfl⟩
  rcases (jointIndex_label_iff he p.2).mp this with h | h
  · obtain ⟨q, hq, he'⟩ := List.mem_map.mp h
    rw [← he']; exact ha.allTok q hq
  · obtain ⟨q, hq, he'⟩ := List.mem_map.mp h
    rw [← he']; exact hb.allTok q hq

theorem lookup_invert_joint {a b : Fitted} (ha : UWF a) {enum : List Label}
    (he : isEnumOf a b enum = true) (L : Label) (j : Nat) :
    lookup (invert (jointIndex a enum)) L = some j ↔ (j, L) ∈ jointIndex a enum := by
  rw [invert_jointIndex ha he,
    lookup_iff_mem' (by simpa [List.map_map, Function.comp_def] using jointIndex_labelsNodup ha he)]
  simp only [List.mem_map, Prod.mk.injEq]
  constructor
  · rintro ⟨p, hp, h1, h2⟩; subst h1 h2; exact hp
  · intro hp; exact ⟨(j, L), hp, rfl, rfl⟩

theorem mem_colLabel {m : Fitted} (h : UWF m) (L : Label) (i : Nat) :
    (L, i) ∈ m.colLabel ↔ (i, L) ∈ m.colIndex := by
  rw [h.colLabelEq]
  simp only [List.mem_map, Prod.mk.injEq]
  constructor
  · rintro ⟨p, hp, h1, h2⟩; subst h1 h2; exact hp
  · intro hp; exact ⟨(i, L), hp, rfl, rfl⟩

theorem rightToJoint_spec {a b : Fitted} (ha : UWF a) (hb : UWF b) {enum : List Label}
    (he : isEnumOf a b enum = true) {r2j : List (Nat × Nat)}
    (h : rightToJoint (invert (jointIndex a enum)) b.colLabel = some r2j) (x j : Nat) :
    lookup r2j x = some j ↔ ∃ L, (x, L) ∈ b.colIndex ∧ (j, L) ∈ jointIndex a enum := by
  unfold rightToJoint at h
  cases hp : b.colLabel.mapM (fun p => (lookup (invert (jointIndex a enum)) p.1).map fun j => (p.2, j)) with
  | none => simp [hp] at h
  | some pairs =>
    simp only [hp, Option.map_some, Option.some.injEq] at h
    have hkeys : pairs.map (·.1) = b.colLabel.map (·.2) := by
      apply mapM_some_map hp
      intro p y hy
      cases hl : lookup (invert (jointIndex a enum)) p.1 with
      | none => simp [hl] at hy
      | some j => simp [hl] at hy; subst hy; rfl
    have hn : (pairs.map (·.1)).Nodup := by
      rw [hkeys, hb.colLabelEq, List.map_map]
      have : ((fun p : Label × Nat => p.2) ∘ fun p : Nat × Label => (p.2, p.1)) = fun p => p.1 := rfl
      rw [this]; exact hb.keys_nodup
    rw [← h, fromPairs_nodup pairs hn, lookup_iff_mem' hn, mapM_some_mem hp]
    constructor
    · rintro ⟨p, hp', hf⟩
      cases hl : lookup (invert (jointIndex a enum)) p.1 with
      | none => simp [hl] at hf
      | some j' =>
        simp [hl] at hf
        obtain ⟨h1, h2⟩ := hf
        subst h1 h2
        exact ⟨p.1, (mem_colLabel hb p.1 p.2).mp hp', (lookup_invert_joint ha he _ _).mp hl⟩
    · rintro ⟨L, hxL, hjL⟩
      refine ⟨(L, x), (mem_colLabel hb L x).mpr hxL, ?_⟩
      simp [(lookup_invert_joint ha he L j).mpr hjL]

theorem joint_label_unique {a b : Fitted} (ha : UWF a) {enum : List Label}
    (he : isEnumOf a b enum = true) {i : Nat} {L L' : Label}
    (h1 : (i, L) ∈ jointIndex a enum) (h2 : (i, L') ∈ jointIndex a enum) : L = L' := by
  have hn : ((jointIndex a enum).map (·.1)).Nodup := by
    rw [jointIndex_keys ha]; exact List.nodup_range
  have x := lookup_of_mem' hn h1
  have y := lookup_of_mem' hn h2
  rw [x] at y
  exact Option.some.inj y

theorem joint_key_unique {a b : Fitted} (ha : UWF a) {enum : List Label}
    (he : isEnumOf a b enum = true) {i i' : Nat} {L : Label}
    (h1 : (i, L) ∈ jointIndex a enum) (h2 : (i', L) ∈ jointIndex a enum) : i = i' := by
  have x := (lookup_invert_joint ha he L i).mpr h1
  have y := (lookup_invert_joint ha he L i').mpr h2
  rw [x] at y
  exact Option.some.inj y

theorem r2j_inj {a b : Fitted} (ha : UWF a) (hb : UWF b) {enum : List Label}
    (he : isEnumOf a b enum = true) {r2j : List (Nat × Nat)}
    (h : rightToJoint (invert (jointIndex a enum)) b.colLabel = some r2j) :
    ∀ x x' j, lookup r2j x = some j → lookup r2j x' = some j → x = x' := by
  intro x x' j h1 h2
  obtain ⟨L, hx, hj⟩ := (rightToJoint_spec ha hb he h x j).mp h1
  obtain ⟨L', hx', hj'⟩ := (rightToJoint_spec ha hb he h x' j).mp h2
  have := joint_label_unique (b := b) ha he hj hj'
  subst this
  exact hb.key_unique hx hx'

theorem joint_key_lt {a : Fitted} (ha : UWF a) {enum : List Label} {i : Nat} {L : Label}
    (h : (i, L) ∈ jointIndex a enum) : i < (jointIndex a enum).length := by
  have : i ∈ (jointIndex a enum).map (·.1) := List.mem_map.mpr ⟨(i, L), h, rfl⟩
  rw [jointIndex_keys ha] at this
  exact List.mem_range.mp this

theorem tokOfLabel_some {L : Label} {t : Int} (h : tokOfLabel L = some t) : L = .tok t := by
  cases L with
  | tok t' => simp [tokOfLabel] at h; rw [h]
  | tup _ => simp [tokOfLabel] at h

/-- the merged model of two well-formed unigram models is a well-formed unigram model -/
theorem add_uwf {a b r : Fitted} {enum : List Label} (ha : UWF a) (hb : UWF b)
    (h : add a b enum = .ok r) : UWF r := by
  obtain ⟨he, _, _, hn, _, hci, hcl, htok, hinv, r2j, bottom, hr2j, hbottom, htrain⟩ := add_spec ha h
  have hswap : ((jointIndex a enum).map fun p => (p.2, p.1)).map (fun p : Label × Nat => (p.2, p.1)) =
      jointIndex a enum := by
    rw [List.map_map]; simp [Function.comp_def]
  refine ⟨by rw [hn]; exact ha.n1, by rw [hci]; exact jointIndex_keys ha enum,
    by rw [hci]; exact jointIndex_labelsNodup ha he, by rw [hcl, hci]; exact invert_jointIndex ha he,
    ?_, ?_, ?_, ?_⟩
  · rw [hci, ← hswap, ← invert_jointIndex ha he]
    apply mapM_some_map htok
    intro p y hy
    cases ht : tokOfLabel p.1 with
    | none => simp [ht] at hy
    | some t => simp [ht] at hy; subst hy; simp [tokOfLabel_some ht]
  · rw [hci]
    have : (jointIndex a enum).map (fun p => p) = jointIndex a enum := by simp
    rw [← this]
    apply mapM_some_map hinv
    intro p y hy
    cases ht : tokOfLabel p.2 with
    | none => simp [ht] at hy
    | some t =>
      simp [ht] at hy; subst hy
      exact Prod.ext rfl (tokOfLabel_some ht).symm
  · rw [htrain]
    simp only [List.length_append, (mapM_some_getElem hbottom).1, ha.trainRows, hb.trainRows]
  · rw [htrain, hci]
    intro row hrow p hp
    rcases List.mem_append.mp hrow with hrow | hrow
    · have := ha.trainBound row hrow p hp
      rw [jointIndex_length]; omega
    · obtain ⟨brow, hbrow, hmap⟩ := (mapM_some_mem hbottom row).mp hrow
      obtain ⟨q, hq, hf⟩ := remap_keys (fun x => lookup r2j x) brow row hmap p hp
      obtain ⟨L, _, hj⟩ := (rightToJoint_spec ha hb he hr2j q.1 p.1).mp hf
      exact joint_key_lt ha hj

/-- `labels (a + b) = labels a ∪ labels b` -/
theorem add_labels {a b r : Fitted} {enum : List Label} (ha : UWF a) (hb : UWF b)
    (h : add a b enum = .ok r) (L : Label) :
    (∃ i, lookup r.colLabel L = some i) ↔
      (∃ i, lookup a.colLabel L = some i) ∨ (∃ i, lookup b.colLabel L = some i) := by
  have hr := add_uwf ha hb h
  obtain ⟨he, _, _, _, _, hci, _⟩ := add_spec ha h
  have key : ∀ {m : Fitted}, UWF m → ((∃ i, lookup m.colLabel L = some i) ↔ L ∈ m.colIndex.map (·.2)) := by
    intro m hm
    constructor
    · rintro ⟨i, hi⟩; exact List.mem_map.mpr ⟨(i, L), (hm.lookup_colLabel L i).mp hi, rfl⟩
    · intro hL
      obtain ⟨p, hp, rfl⟩ := List.mem_map.mp hL
      exact ⟨p.1, (hm.lookup_colLabel p.2 p.1).mpr hp⟩
  rw [key hr, key ha, key hb, hci]
  exact jointIndex_label_iff he L

theorem cellByLabel_of_mem {m : Fitted} (hm : UWF m) {row : Counter} {L : Label} {j : Nat}
    (h : (j, L) ∈ m.colIndex) : cellByLabel m.colLabel row L = cellOf row j := by
  simp [cellByLabel, (hm.lookup_colLabel L j).mpr h]

theorem cellByLabel_of_not_mem {m : Fitted} (hm : UWF m) {row : Counter} {L : Label}
    (h : L ∉ m.colIndex.map (·.2)) : cellByLabel m.colLabel row L = 0 := by
  have : lookup m.colLabel L = none := by
    cases hl : lookup m.colLabel L with
    | none => rfl
    | some j => exact absurd (List.mem_map.mpr ⟨(j, L), (hm.lookup_colLabel L j).mp hl, rfl⟩) h
  simp [cellByLabel, this]

/-- top block of the merged training matrix: the left model's rows, label by label -/
theorem add_train_top {a b r : Fitted} {enum : List Label} (ha : UWF a) (hb : UWF b)
    (h : add a b enum = .ok r) (i : Nat) (row : Counter) (hrow : a.train.rows[i]? = some row) :
    r.train.rows[i]? = some row ∧
      ∀ L, cellByLabel r.colLabel row L = cellByLabel a.colLabel row L := by
  have hr := add_uwf ha hb h
  obtain ⟨he, _, _, _, _, hci, _, _, _, r2j, bottom, _, _, htrain⟩ := add_spec ha h
  have hi : i < a.train.rows.length := by
    cases hlt : decide (i < a.train.rows.length) with
    | true => exact of_decide_eq_true hlt
    | false =>
      have := of_decide_eq_false hlt
      rw [List.getElem?_eq_none (by omega)] at hrow; cases hrow
  refine ⟨by rw [htrain]; simp only; rw [List.getElem?_append_left hi]; exact hrow, ?_⟩
  intro L
  have hmem : row ∈ a.train.rows := List.mem_of_getElem? hrow
  by_cases hL : L ∈ a.colIndex.map (·.2)
  · obtain ⟨p, hp, rfl⟩ := List.mem_map.mp hL
    have hpj : (p.1, p.2) ∈ r.colIndex := by
      rw [hci]; exact mem_jointIndex.mpr (Or.inl hp)
    rw [cellByLabel_of_mem hr hpj, cellByLabel_of_mem ha hp]
  · rw [cellByLabel_of_not_mem ha hL]
    by_cases hLr : L ∈ r.colIndex.map (·.2)
    · obtain ⟨p, hp, rfl⟩ := List.mem_map.mp hLr
      rw [cellByLabel_of_mem hr (j := p.1) hp]
      apply cellOf_eq_zero
      intro q hq hqe
      have hlt := ha.trainBound row hmem q hq
      rw [hci] at hp
      rcases mem_jointIndex.mp hp with hp | hp
      · exact hL (List.mem_map.mpr ⟨p, hp, rfl⟩)
      · omega
    · exact cellByLabel_of_not_mem hr hLr

/-- bottom block: the right model's rows, label by label (columns re-indexed) -/
theorem add_train_bottom {a b r : Fitted} {enum : List Label} (ha : UWF a) (hb : UWF b)
    (h : add a b enum = .ok r) (i : Nat) (row : Counter) (hrow : b.train.rows[i]? = some row) :
    ∃ row', r.train.rows[a.train.nRows + i]? = some row' ∧
      ∀ L, cellByLabel r.colLabel row' L = cellByLabel b.colLabel row L := by
  have hr := add_uwf ha hb h
  obtain ⟨he, _, _, _, _, hci, _, _, _, r2j, bottom, hr2j, hbottom, htrain⟩ := add_spec ha h
  have hi : i < b.train.rows.length := by
    cases hlt : decide (i < b.train.rows.length) with
    | true => exact of_decide_eq_true hlt
    | false =>
      have := of_decide_eq_false hlt
      rw [List.getElem?_eq_none (by omega)] at hrow; cases hrow
  obtain ⟨hlen, hget⟩ := mapM_some_getElem hbottom
  have hi' : i < bottom.length := by omega
  have hrow_eq : b.train.rows[i] = row := by
    rw [List.getElem?_eq_getElem hi] at hrow; exact Option.some.inj hrow
  have hmap := hget i hi hi'
  rw [hrow_eq] at hmap
  refine ⟨bottom[i], ?_, ?_⟩
  · rw [htrain]; simp only
    rw [← ha.trainRows, List.getElem?_append_right (by omega)]
    simp [List.getElem?_eq_getElem hi']
  · intro L
    have hmem : row ∈ b.train.rows := List.mem_of_getElem? hrow
    have hinj := r2j_inj ha hb he hr2j
    by_cases hL : L ∈ b.colIndex.map (·.2)
    · obtain ⟨p, hp, rfl⟩ := List.mem_map.mp hL
      have hLJ : p.2 ∈ (jointIndex a enum).map (·.2) :=
        (jointIndex_label_iff he p.2).mpr (Or.inr hL)
      obtain ⟨q, hq, hqe⟩ := List.mem_map.mp hLJ
      have hq' : (q.1, p.2) ∈ jointIndex a enum := by rw [← hqe]; exact hq
      have hx : lookup r2j p.1 = some q.1 :=
        (rightToJoint_spec ha hb he hr2j p.1 q.1).mpr ⟨p.2, hp, hq'⟩
      rw [cellByLabel_of_mem hr (j := q.1) (by rw [hci]; exact hq'), cellByLabel_of_mem hb hp]
      simp only [cellOf]
      rw [lookup_remap (fun x => lookup r2j x) hinj row bottom[i] hmap p.1 q.1 hx]
    · rw [cellByLabel_of_not_mem hb hL]
      by_cases hLr : L ∈ r.colIndex.map (·.2)
      · obtain ⟨p, hp, rfl⟩ := List.mem_map.mp hLr
        rw [cellByLabel_of_mem hr (j := p.1) hp]
        apply cellOf_eq_zero
        intro q hq hqe
        obtain ⟨q0, hq0, hf⟩ := remap_keys (fun x => lookup r2j x) row bottom[i] hmap q hq
        obtain ⟨L', hxL', hjL'⟩ := (rightToJoint_spec ha hb he hr2j q0.1 q.1).mp hf
        rw [hci] at hp
        rw [hqe] at hjL'
        have := joint_label_unique (b := b) ha he hjL' hp
        subst this
        exact hL (List.mem_map.mpr ⟨(q0.1, p.2), hxL', rfl⟩)
      · exact cellByLabel_of_not_mem hr hLr

theorem mem_insertSorted' {x y : Int} {l : List Int} : y ∈ insertSorted x l ↔ y = x ∨ y ∈ l := by
  induction l with
  | nil => simp [insertSorted]
  | cons z zs ih =>
    unfold insertSorted
    split
    · simp
    · split
      · rename_i h; subst h; simp
      · simp only [List.mem_cons, ih]
        constructor
        · rintro (h | h | h) <;> simp [h]
        · rintro (h | h | h) <;> simp [h]

theorem mem_sortedUnique' {y : Int} {l : List Int} : y ∈ sortedUnique l ↔ y ∈ l := by
  induction l with
  | nil => simp [sortedUnique]
  | cons x xs ih =>
    simp only [sortedUnique, List.foldr_cons] at *
    rw [mem_insertSorted', ih]
    simp

/-! ### transform of a well-formed unigram model; the default unigram fit -/

theorem unigram_transform_cell {m : Fitted} (hm : UWF m) (X : List (List Int)) (M : CountMatrix)
    (hM : transform m X = .ok M) (i : Nat) (hi : i < X.length) (t : Int) (j : Nat)
    (hj : lookup m.colLabel (.tok t) = some j) : M.get? i j = some (X[i].count t) := by
  unfold transform at hM
  rw [countMatrix_ok m hm.toWF] at hM
  cases hM
  simp only [CountMatrix.get?, List.getElem?_map, List.getElem?_eq_getElem hi, Option.map_some]
  rw [unigram_cell hm _ t j hj]

theorem insertSorted_sorted (x : Int) : ∀ (l : List Int), l.Pairwise (· < ·) →
    (insertSorted x l).Pairwise (· < ·) := by
  intro l
  induction l with
  | nil => intro _; simp [insertSorted]
  | cons y ys ih =>
    intro h
    have hy := List.pairwise_cons.mp h
    unfold insertSorted
    split
    · rename_i hxy
      refine List.pairwise_cons.mpr ⟨?_, h⟩
      intro z hz
      rcases List.mem_cons.mp hz with hz | hz
      · subst hz; exact hxy
      · exact Int.lt_trans hxy (hy.1 z hz)
    · split
      · exact h
      · rename_i h1 h2
        refine List.pairwise_cons.mpr ⟨?_, ih hy.2⟩
        intro z hz
        have : ∀ {l : List Int}, z ∈ insertSorted x l → z = x ∨ z ∈ l := by
          intro l
          induction l with
          | nil => simp [insertSorted]
          | cons w ws ihw =>
            unfold insertSorted
            split
            · simp
            · split
              · simp; intro h; exact Or.inr h
              · simp only [List.mem_cons]
                rintro (h | h)
                · exact Or.inr (Or.inl h)
                · rcases ihw h with h | h
                  · exact Or.inl h
                  · exact Or.inr (Or.inr h)
        rcases this hz with hz | hz
        · subst hz; omega
        · exact hy.1 z hz

theorem sortedUnique_sorted (l : List Int) : (sortedUnique l).Pairwise (· < ·) := by
  induction l with
  | nil => simp [sortedUnique]
  | cons x xs ih =>
    simp only [sortedUnique, List.foldr_cons] at *
    exact insertSorted_sorted x _ ih

theorem sortedUnique_nodup (l : List Int) : (sortedUnique l).Nodup := by
  have := sortedUnique_sorted l
  exact this.imp (fun h => by omega)

theorem enumFrom_fst (s : Nat) (l : List α) : (enumFrom s l).map (·.1) = l := by
  induction l generalizing s with
  | nil => rfl
  | cons x xs ih => simp [enumFrom, ih]

theorem enumFrom_snd (s : Nat) (l : List α) :
    (enumFrom s l).map (·.2) = (List.range l.length).map (s + ·) := by
  induction l generalizing s with
  | nil => rfl
  | cons x xs ih =>
    simp only [enumFrom, List.map_cons, ih, List.length_cons, List.range_succ_eq_map, List.map_map]
    simp only [List.map_cons, Nat.add_zero, List.map_map]
    congr 1
    apply List.map_congr_left
    intro k _
    simp only [Function.comp]
    omega

theorem nodup_map_of_inj {f : α → β} (hf : ∀ x y, f x = f y → x = y) {l : List α} (h : l.Nodup) :
    (l.map f).Nodup := by
  induction l with
  | nil => exact List.nodup_nil
  | cons x xs ih =>
    simp only [List.map_cons, List.nodup_cons] at h ⊢
    refine ⟨?_, ih h.2⟩
    intro hm
    obtain ⟨y, hy, he⟩ := List.mem_map.mp hm
    have := hf y x he
    subst this
    exact h.1 hy

theorem unigramOf_uwf (beh : Behaviour) (X : List (List Int)) (train : CountMatrix)
    (h1 : train.rows.length = train.nRows)
    (h2 : ∀ row ∈ train.rows, ∀ p ∈ row, p.1 < (learnDict X).length) :
    UWF { unigramOf beh (learnDict X) with train := train } := by
  have hsnd : (learnDict X).map (·.2) = List.range (learnDict X).length := by
    unfold learnDict
    rw [enumFrom_snd]
    have : (enumFrom 0 (sortedUnique X.flatten)).length = (sortedUnique X.flatten).length := by
      have := congrArg List.length (enumFrom_fst 0 (sortedUnique X.flatten)); simpa using this
    rw [this]; simp
  have hfst : (learnDict X).map (·.1) = sortedUnique X.flatten := enumFrom_fst 0 _
  refine ⟨rfl, ?_, ?_, ?_, ?_, ?_, h1, ?_⟩
  · simp only [unigramOf, List.map_map, List.length_map]
    exact hsnd
  · simp only [unigramOf, List.map_map]
    have : ((fun p : Nat × Label => p.2) ∘ fun p : Int × Nat => (p.2, Label.tok p.1)) =
        (Label.tok ∘ fun p : Int × Nat => p.1) := rfl
    rw [this, ← List.map_map, hfst]
    exact nodup_map_of_inj (fun x y h => by cases h; rfl) (sortedUnique_nodup _)
  · simp [unigramOf, List.map_map, Function.comp_def]
  · simp [unigramOf]
  · simp [unigramOf, List.map_map, Function.comp_def]
  · simpa [unigramOf] using h2

theorem fitUnigram_uwf {X : List (List Int)} {c : Fitted} (h : fitUnigram X = .ok c) : UWF c := by
  unfold fitUnigram at h
  have h0 := unigramOf_uwf .exact X ⟨0, (learnDict X).length, []⟩ rfl (by simp)
  have hu : ({ unigramOf .exact (learnDict X) with train := ⟨0, (learnDict X).length, []⟩ } : Fitted) =
      unigramOf .exact (learnDict X) := rfl
  rw [hu] at h0
  simp only at h
  unfold transform at h
  rw [countMatrix_ok _ h0.toWF] at h
  simp only [Except.map] at h
  cases h
  apply unigramOf_uwf
  · simp
  · intro row hrow p hp
    simp only [List.mem_map] at hrow
    obtain ⟨seq, ⟨doc, _, rfl⟩, rfl⟩ := hrow
    have := keys_countGrams (unigramOf .exact (learnDict X)).invDict (unigramOf .exact (learnDict X)).colLabel
      (fun j => j < (unigramOf .exact (learnDict X)).colLabel.length) (colOf_bound _ h0.toWF)
      (ngramsOf (reindex (unigramOf .exact (learnDict X)).tokDict doc) 1 .exact) [] (by simp) p hp
    simpa [unigramOf] using this

/-- the columns of the default unigram fit are exactly the tokens of the corpus -/
theorem fitUnigram_labels {X : List (List Int)} {c : Fitted} (h : fitUnigram X = .ok c) (t : Int) :
    (∃ j, lookup c.colLabel (.tok t) = some j) ↔ t ∈ X.flatten := by
  have hc := fitUnigram_uwf h
  unfold fitUnigram at h
  simp only at h
  cases ht : transform (unigramOf .exact (learnDict X)) X with
  | error e => simp [ht, Except.map] at h
  | ok M =>
    simp only [ht, Except.map] at h
    cases h
    have hfst : (learnDict X).map (·.1) = sortedUnique X.flatten := enumFrom_fst 0 _
    constructor
    · rintro ⟨j, hj⟩
      have := (hc.lookup_colLabel _ j).mp hj
      simp only [unigramOf, List.mem_map, Prod.mk.injEq, Label.tok.injEq] at this
      obtain ⟨p, hp, _, hpt⟩ := this
      have : t ∈ (learnDict X).map (·.1) := List.mem_map.mpr ⟨p, hp, hpt⟩
      rw [hfst] at this
      exact mem_sortedUnique'.mp this
    · intro hx
      have : t ∈ (learnDict X).map (·.1) := by rw [hfst]; exact mem_sortedUnique'.mpr hx
      obtain ⟨p, hp, hpt⟩ := List.mem_map.mp this
      refine ⟨p.2, (hc.lookup_colLabel _ p.2).mpr ?_⟩
      simp only [unigramOf, List.mem_map, Prod.mk.injEq, Label.tok.injEq]
      exact ⟨p, hp, rfl, hpt⟩

/-! ### `+` never fails on well-formed unigram models -/

theorem exists_label_of_key {m : Fitted} (hm : UWF m) {x : Nat} (hx : x < m.colIndex.length) :
    ∃ L, (x, L) ∈ m.colIndex := by
  have : x ∈ m.colIndex.map (·.1) := by rw [hm.keys]; exact List.mem_range.mpr hx
  obtain ⟨p, hp, rfl⟩ := List.mem_map.mp this
  exact ⟨p.2, hp⟩

theorem add_total {a b : Fitted} {enum : List Label} (ha : UWF a) (hb : UWF b)
    (hbeh : a.beh = b.beh) (he : isEnumOf a b enum = true) : ∃ r, add a b enum = .ok r := by
  have hJ : enumInto a.colIndex a.colIndex.length enum = jointIndex a enum :=
    enumInto_eq enum a.colIndex _ (fun p hp => ha.key_lt (L := p.2) hp)
  -- right_to_joint_index_map
  obtain ⟨pairs, hpairs⟩ := mapM_some_exists
    (f := fun p : Label × Nat => (lookup (invert (jointIndex a enum)) p.1).map fun j => (p.2, j))
    b.colLabel (by
      intro p hp
      have hpi : (p.2, p.1) ∈ b.colIndex := (mem_colLabel hb p.1 p.2).mp hp
      have : p.1 ∈ (jointIndex a enum).map (·.2) :=
        (jointIndex_label_iff he p.1).mpr (Or.inr (List.mem_map.mpr ⟨(p.2, p.1), hpi, rfl⟩))
      obtain ⟨q, hq, hqe⟩ := List.mem_map.mp this
      have hq' : (q.1, p.1) ∈ jointIndex a enum := by rw [← hqe]; exact hq
      simp [(lookup_invert_joint (b := b) ha he p.1 q.1).mpr hq'])
  have hr2j : rightToJoint (invert (jointIndex a enum)) b.colLabel = some (fromPairs pairs) := by
    unfold rightToJoint; rw [hpairs]; rfl
  -- bottom matrix
  obtain ⟨bottom, hbottom⟩ := mapM_some_exists (f := remapRow (fromPairs pairs)) b.train.rows (by
    intro row hrow
    have : ∃ row', row.mapM (fun p : Nat × Nat => (lookup (fromPairs pairs) p.1).map fun j => (j, p.2)) = some row' := by
      apply mapM_some_exists
      intro p hp
      obtain ⟨L, hL⟩ := exists_label_of_key hb (hb.trainBound row hrow p hp)
      have : L ∈ (jointIndex a enum).map (·.2) :=
        (jointIndex_label_iff he L).mpr (Or.inr (List.mem_map.mpr ⟨(p.1, L), hL, rfl⟩))
      obtain ⟨q, hq, hqe⟩ := List.mem_map.mp this
      have hq' : (q.1, L) ∈ jointIndex a enum := by rw [← hqe]; exact hq
      simp [(rightToJoint_spec ha hb he hr2j p.1 q.1).mpr ⟨L, hL, hq'⟩]
    obtain ⟨row', hrow'⟩ := this
    simp [remapRow, hrow'])
  obtain ⟨tokDict, htok⟩ := mapM_some_exists
    (f := fun p : Label × Nat => (tokOfLabel p.1).map fun t => (t, p.2)) (invert (jointIndex a enum)) (by
      intro p hp
      rw [invert_jointIndex ha he] at hp
      obtain ⟨q, hq, rfl⟩ := List.mem_map.mp hp
      obtain ⟨t, ht⟩ := jointIndex_allTok ha hb he q hq
      simp [ht, tokOfLabel])
  obtain ⟨invDict, hinv⟩ := mapM_some_exists
    (f := fun p : Nat × Label => (tokOfLabel p.2).map fun t => (p.1, t)) (jointIndex a enum) (by
      intro q hq
      obtain ⟨t, ht⟩ := jointIndex_allTok ha hb he q hq
      simp [ht, tokOfLabel])
  have hn : a.n = b.n := by rw [ha.n1, hb.n1]
  have c1 : ¬ (a.n ≠ b.n ∨ a.beh ≠ b.beh) := by simp [hn, hbeh]
  have c2 : ¬ a.n > 1 := by rw [ha.n1]; omega
  have htok' : tokDictOf (invert (jointIndex a enum)) = some tokDict := htok
  have hinv' : invDictOf (jointIndex a enum) = some invDict := hinv
  unfold add
  simp only [c1, c2, he, if_false, Bool.not_true, hJ, hr2j, hbottom, htok', hinv']
  exact ⟨_, rfl⟩
/-! ### rows by label -/

theorem UWF.label_tok {m : Fitted} (hm : UWF m) {L : Label} (h : hasColumn m L) : ∃ t, L = .tok t := by
  obtain ⟨j, hj⟩ := h
  exact hm.allTok (j, L) ((hm.lookup_colLabel L j).mp hj)

/-- a row computed by a well-formed unigram model, read by label: the token count when the model
has a column for the label, 0 otherwise -/
theorem uwf_row_by_label {m : Fitted} (hm : UWF m) (doc : List Int) (L : Label) [Decidable (hasColumn m L)] :
    cellByLabel m.colLabel (countDoc m (reindex m.tokDict doc)) L =
      if hasColumn m L then labelCount doc L else 0 := by
  by_cases hc : hasColumn m L
  · obtain ⟨t, rfl⟩ := hm.label_tok hc
    obtain ⟨j, hj⟩ := hc
    have hc' : hasColumn m (.tok t) := ⟨j, hj⟩
    simp only [hc', if_true, cellByLabel, hj, labelCount]
    exact unigram_cell hm doc t j hj
  · have : lookup m.colLabel L = none := by
      cases hl : lookup m.colLabel L with
      | none => rfl
      | some j => exact absurd ⟨j, hl⟩ hc
    simp [hc, cellByLabel, this]

theorem fitUnigram_rows {X : List (List Int)} {c : Fitted} (h : fitUnigram X = .ok c) :
    c.train.rows = X.map fun doc => countDoc c (reindex c.tokDict doc) := by
  unfold fitUnigram at h
  have h0 := unigramOf_uwf .exact X ⟨0, (learnDict X).length, []⟩ rfl (by simp)
  have hu : ({ unigramOf .exact (learnDict X) with train := ⟨0, (learnDict X).length, []⟩ } : Fitted) =
      unigramOf .exact (learnDict X) := rfl
  rw [hu] at h0
  simp only at h
  unfold transform at h
  rw [countMatrix_ok _ h0.toWF] at h
  simp only [Except.map] at h
  cases h
  simp [countDoc]

/-- training rows of the default unigram fit, read by label, are the token counts of the documents -/
theorem fitUnigram_train_by_label {X : List (List Int)} {c : Fitted} (h : fitUnigram X = .ok c)
    (i : Nat) (doc : List Int) (hdoc : X[i]? = some doc) :
    ∃ row, c.train.rows[i]? = some row ∧ ∀ L, cellByLabel c.colLabel row L = labelCount doc L := by
  have hc := fitUnigram_uwf h
  refine ⟨countDoc c (reindex c.tokDict doc), by rw [fitUnigram_rows h]; simp [hdoc], ?_⟩
  intro L
  have hdec : Decidable (hasColumn c L) := Classical.propDecidable _
  rw [uwf_row_by_label hc doc L]
  by_cases hcol : hasColumn c L
  · simp [hcol]
  · simp only [hcol, if_false]
    cases L with
    | tup _ => rfl
    | tok t =>
      have hnot : t ∉ X.flatten := fun hx => hcol ((fitUnigram_labels h t).mpr hx)
      have hmem : doc ∈ X := List.mem_of_getElem? hdoc
      have : t ∉ doc := fun ht => hnot (List.mem_flatten.mpr ⟨doc, hmem, ht⟩)
      simp [labelCount, List.count_eq_zero_of_not_mem this]


end VecModel.Ngram
