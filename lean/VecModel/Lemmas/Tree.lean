import VecModel.Model.Tree
/-
  Helper lemmas for C15: finite sums over `Rat`, dense-matrix cells, matrix powers = walk counts,
  label collapse.  Core Lean only (`grind` does the ring normalisation).
-/
namespace VecModel.Tree

/-! ### `sumTo` -/

theorem sumTo_congr {n : Nat} {f g : Nat → Rat} (h : ∀ i, i < n → f i = g i) :
    sumTo n f = sumTo n g := by
  induction n with
  | zero => rfl
  | succ n ih =>
    simp only [sumTo]
    rw [ih (fun i hi => h i (by omega)), h n (by omega)]

theorem sumTo_zero (n : Nat) : sumTo n (fun _ => 0) = 0 := by
  induction n with
  | zero => rfl
  | succ n ih => simp only [sumTo, ih]; grind

theorem sumTo_eq_zero {n : Nat} {f : Nat → Rat} (h : ∀ i, i < n → f i = 0) : sumTo n f = 0 := by
  rw [sumTo_congr h, sumTo_zero]

theorem sumTo_add (n : Nat) (f g : Nat → Rat) :
    sumTo n (fun i => f i + g i) = sumTo n f + sumTo n g := by
  induction n with
  | zero => simp only [sumTo]; grind
  | succ n ih => simp only [sumTo, ih]; grind

theorem sumTo_mul_left (n : Nat) (c : Rat) (f : Nat → Rat) :
    sumTo n (fun i => c * f i) = c * sumTo n f := by
  induction n with
  | zero => simp only [sumTo]; grind
  | succ n ih => simp only [sumTo, ih]; grind

theorem sumTo_mul_right (n : Nat) (c : Rat) (f : Nat → Rat) :
    sumTo n (fun i => f i * c) = sumTo n f * c := by
  induction n with
  | zero => simp only [sumTo]; grind
  | succ n ih => simp only [sumTo, ih]; grind

theorem sumTo_comm (n m : Nat) (f : Nat → Nat → Rat) :
    sumTo n (fun i => sumTo m (fun j => f i j)) = sumTo m (fun j => sumTo n (fun i => f i j)) := by
  induction n with
  | zero => simp only [sumTo]; rw [sumTo_zero]
  | succ n ih =>
    simp only [sumTo, ih]
    rw [← sumTo_add]

/-- a sum with a single possibly non-zero term -/
theorem sumTo_single {n : Nat} {f : Nat → Rat} (k : Nat) (hk : k < n)
    (h : ∀ i, i < n → i ≠ k → f i = 0) : sumTo n f = f k := by
  induction n with
  | zero => omega
  | succ n ih =>
    simp only [sumTo]
    by_cases hkn : k = n
    · subst hkn
      rw [sumTo_eq_zero (fun i hi => h i (by omega) (by omega))]
      grind
    · rw [ih (by omega) (fun i hi hne => h i (by omega) hne), h n (by omega) (by omega)]
      grind

/-! ### dense matrices -/

theorem ent_ofFn {r c : Nat} {f : Nat → Nat → Rat} {i j : Nat} (hi : i < r) (hj : j < c) :
    ent (ofFn r c f) i j = f i j := by
  simp [ent, ofFn, hi, hj]

theorem ent_ofFn_row_oob {r c : Nat} {f : Nat → Nat → Rat} {i j : Nat} (hi : r ≤ i) :
    ent (ofFn r c f) i j = 0 := by
  have : ¬ i < r := by omega
  simp [ent, ofFn, this]

theorem ent_ofFn_col_oob {r c : Nat} {f : Nat → Nat → Rat} {i j : Nat} (hj : c ≤ j) :
    ent (ofFn r c f) i j = 0 := by
  have : ¬ j < c := by omega
  by_cases hi : i < r <;> simp [ent, ofFn, hi, this]

theorem ent_mul {n : Nat} {A B : Mat} {i j : Nat} (hi : i < n) (hj : j < n) :
    ent (mul n A B) i j = sumTo n fun k => ent A i k * ent B k j := ent_ofFn hi hj

theorem ent_smul {n : Nat} {w : Rat} {A : Mat} {i j : Nat} (hi : i < n) (hj : j < n) :
    ent (smul n w A) i j = w * ent A i j := ent_ofFn hi hj

theorem ent_add {r c : Nat} {A B : Mat} {i j : Nat} (hi : i < r) (hj : j < c) :
    ent (add r c A B) i j = ent A i j + ent B i j := ent_ofFn hi hj

theorem ent_transpose {r c : Nat} {A : Mat} {i j : Nat} (hi : i < c) (hj : j < r) :
    ent (transpose r c A) i j = ent A j i := ent_ofFn hi hj

theorem ent_zero (r c i j : Nat) : ent (zero r c) i j = 0 := by
  by_cases hi : i < r
  · by_cases hj : j < c
    · exact ent_ofFn hi hj
    · exact ent_ofFn_col_oob (by omega)
  · exact ent_ofFn_row_oob (by omega)

/-! ### matrix powers count walks -/

theorem walks_one {n : Nat} {A : Mat} {u v : Nat} (hv : v < n) : walks n A 1 u v = ent A u v := by
  simp only [walks]
  rw [sumTo_single v hv]
  · simp
  · intro i _ hne; simp [hne]

/-- the recursion on the *last* step (the code multiplies on the right: `walk = walk @ A`) -/
theorem walks_succ_right {n : Nat} {A : Mat} (k : Nat) {u v : Nat} (hu : u < n) (hv : v < n) :
    walks n A (k + 1) u v = sumTo n fun m => walks n A k u m * ent A m v := by
  induction k generalizing u with
  | zero =>
    rw [walks_one hv]
    simp only [walks]
    rw [sumTo_single u hu]
    · simp
    · intro i _ hne
      have : ¬ u = i := fun e => hne e.symm
      simp [this]
  | succ k ih =>
    calc walks n A (k + 1 + 1) u v
        = sumTo n fun m => ent A u m * walks n A (k + 1) m v := rfl
      _ = sumTo n fun m => ent A u m * sumTo n fun p => walks n A k m p * ent A p v :=
          sumTo_congr fun m hm => by rw [ih hm]
      _ = sumTo n fun m => sumTo n fun p => ent A u m * (walks n A k m p * ent A p v) :=
          sumTo_congr fun m _ => (sumTo_mul_left n _ _).symm
      _ = sumTo n fun p => sumTo n fun m => ent A u m * (walks n A k m p * ent A p v) :=
          sumTo_comm n n _
      _ = sumTo n fun p => (sumTo n fun m => ent A u m * walks n A k m p) * ent A p v :=
          sumTo_congr fun p _ => by
            rw [← sumTo_mul_right]
            exact sumTo_congr fun m _ => by grind
      _ = sumTo n fun p => walks n A (k + 1) u p * ent A p v := rfl

/-- `buildLoop` invariant: with `walk = A^k` the result adds `Σ_i ws[i] · A^(k+1+i)` to `count` -/
theorem buildLoop_spec {n : Nat} {A : Mat} (ws : List Rat) (walk count : Mat) (k : Nat)
    (hw : ∀ u v, u < n → v < n → ent walk u v = walks n A k u v)
    {u v : Nat} (hu : u < n) (hv : v < n) :
    ent (buildLoop n A ws walk count) u v = ent count u v + walkSum n A ws (k + 1) u v := by
  induction ws generalizing walk count k with
  | nil => simp only [buildLoop, walkSum]; grind
  | cons w ws ih =>
    simp only [buildLoop, walkSum]
    have hw' : ∀ u v, u < n → v < n → ent (mul n walk A) u v = walks n A (k + 1) u v := by
      intro u v hu hv
      rw [ent_mul hu hv, walks_succ_right k hu hv]
      exact sumTo_congr fun m hm => by rw [hw u m hu hm]
    rw [ih _ _ (k + 1) hw', ent_add hu hv, ent_smul hu hv, hw' u v hu hv]
    grind

/-- **node-level formula**: cell `(u,v)` of `build_tree_skip_grams`' count matrix is
`Σ_{k=1..r} w_k · walks k u v` -/
theorem build_spec {n : Nat} {A : Mat} {ws : List Rat} {C : Mat} (h : build n A ws = .ok C)
    {u v : Nat} (hu : u < n) (hv : v < n) :
    ent C u v = walkSum n A ws 1 u v := by
  cases ws with
  | nil => simp [build] at h
  | cons w0 rest =>
    simp only [build, Except.ok.injEq] at h
    subst h
    rw [buildLoop_spec rest A _ 1 (fun u v _ hv => (walks_one hv).symm) hu hv, ent_smul hu hv]
    simp only [walkSum]
    rw [walks_one hv]

theorem build_ok {n : Nat} {A : Mat} {ws : List Rat} (h : ws ≠ []) : ∃ C, build n A ws = .ok C := by
  cases ws with
  | nil => exact absurd rfl h
  | cons w0 rest => exact ⟨_, rfl⟩

/-! ### classes, indicator matrix, collapse -/

theorem mem_insertU {x z : Nat} {l : List Nat} : z ∈ insertU x l ↔ z = x ∨ z ∈ l := by
  induction l with
  | nil => simp [insertU]
  | cons y ys ih =>
    unfold insertU
    split
    · simp
    · split
      · rename_i h; subst h; simp
      · simp [ih]; grind

theorem insertU_sorted {x : Nat} {l : List Nat} (h : List.Pairwise (· < ·) l) :
    List.Pairwise (· < ·) (insertU x l) := by
  induction l with
  | nil => simp [insertU]
  | cons y ys ih =>
    unfold insertU
    have hy := List.pairwise_cons.mp h
    split
    · rename_i hxy
      refine List.pairwise_cons.mpr ⟨?_, h⟩
      intro z hz
      rcases List.mem_cons.mp hz with rfl | hz
      · exact hxy
      · exact Nat.lt_trans hxy (hy.1 z hz)
    · split
      · exact h
      · refine List.pairwise_cons.mpr ⟨?_, ih hy.2⟩
        intro z hz
        rcases mem_insertU.mp hz with rfl | hz
        · omega
        · exact hy.1 z hz

theorem classesOf_sorted (labels : List Nat) : List.Pairwise (· < ·) (classesOf labels) := by
  induction labels with
  | nil => simp [classesOf]
  | cons l ls ih => exact insertU_sorted ih

theorem classesOf_nodup (labels : List Nat) : (classesOf labels).Nodup :=
  (classesOf_sorted labels).imp (fun h => Nat.ne_of_lt h)

theorem mem_classesOf {labels : List Nat} {l : Nat} : l ∈ classesOf labels ↔ l ∈ labels := by
  induction labels with
  | nil => simp [classesOf]
  | cons x xs ih =>
    show l ∈ insertU x (classesOf xs) ↔ _
    rw [mem_insertU, ih]; simp

theorem nodup_getElem?_inj {l : List Nat} (h : l.Nodup) {i j x : Nat}
    (hi : l[i]? = some x) (hj : l[j]? = some x) : i = j := by
  obtain ⟨hi', ei⟩ := List.getElem?_eq_some_iff.mp hi
  obtain ⟨hj', ej⟩ := List.getElem?_eq_some_iff.mp hj
  have a := h.idxOf_getElem i hi'
  have b := h.idxOf_getElem j hj'
  rw [ei] at a; rw [ej] at b
  omega

theorem ent_map_row {β : Type} (l : List β) (f : β → List Rat) (i j : Nat) (b : β) (x : Rat)
    (h : l[i]? = some b) (h2 : (f b)[j]? = some x) : ent (l.map f) i j = x := by
  simp [ent, List.getElem?_map, h, h2]

/-- the indicator matrix, after LabelBinarizer's special cases, is the one-hot encoding in all cases -/
theorem transMat_spec {cls labels : List Nat} (hc : cls.Nodup) (hm : ∀ l ∈ labels, l ∈ cls)
    {u a l c : Nat} (hu : labels[u]? = some l) (ha : cls[a]? = some c) :
    ent (transMat cls labels) u a = if l = c then 1 else 0 := by
  have hl : l ∈ cls := hm l (List.mem_of_getElem? hu)
  match cls, hc, hm, ha, hl with
  | [], _, _, ha, _ => simp at ha
  | [c0], _, _, ha, hl =>
    have : a = 0 := by
      cases a with
      | zero => rfl
      | succ a => simp at ha
    subst this
    simp at ha hl
    subst ha hl
    simp only [transMat, labelBinarize, xor1, List.map_map]
    rw [ent_map_row labels _ u 0 l 1 hu (by simp)]
    simp
  | [c0, c1], hc, _, ha, hl =>
    have hne : c0 ≠ c1 := by
      intro e; subst e; simp at hc
    simp only [transMat, labelBinarize, xor1, List.map_map, hstack]
    simp only [ent, List.getElem?_zipWith, List.getElem?_map, hu]
    simp at hl
    match a, ha with
    | 0, ha =>
      simp at ha; subst ha
      rcases hl with rfl | rfl
      · simp [hne]
      · have : ¬ l = c0 := fun e => hne e.symm
        simp [this]
    | 1, ha =>
      simp at ha; subst ha
      by_cases e : l = c1 <;> simp [e]
    | a + 2, ha => simp at ha
  | c0 :: c1 :: c2 :: cs, _, _, ha, _ =>
    simp only [transMat, labelBinarize]
    exact ent_map_row labels _ u a l _ hu (by rw [List.getElem?_map, ha]; rfl)

theorem collapseWith_spec {n c : Nat} {T M : Mat} {a b : Nat} (ha : a < c) (hb : b < c) :
    ent (collapseWith n c T M) a b =
      sumTo n fun u => sumTo n fun v => ent T u a * ent M u v * ent T v b := by
  unfold collapseWith
  rw [ent_ofFn ha hb]
  rw [sumTo_comm]
  apply sumTo_congr
  intro v hv
  rw [ent_ofFn ha hv, ← sumTo_mul_right]

/-! ### alignment to the dictionary: the per-tree entry formula -/

theorem pos_eq_iff {dict : List Nat} (hd : dict.Nodup) {p la l : Nat} (hp : dict[p]? = some la) :
    pos dict l = p ↔ l = la := by
  obtain ⟨hp', e⟩ := List.getElem?_eq_some_iff.mp hp
  unfold pos
  constructor
  · intro h
    have hlt : List.idxOf l dict < dict.length := by omega
    have := List.getElem_idxOf hlt
    simp only [h] at this
    rw [← this, ← e]
  · intro h
    subst h
    rw [← e]
    exact hd.idxOf_getElem p hp'

theorem hit_iff {dict cls : List Nat} (hd : dict.Nodup) {p la : Nat} (hp : dict[p]? = some la) (a : Nat) :
    hit dict cls a p = true ↔ cls[a]? = some la := by
  unfold hit clsAt
  cases h : cls[a]? with
  | none => simp
  | some l => simp [pos_eq_iff hd hp]

/-- the right-hand side of the property for one tree: the sum over ordered node pairs
(`u` labelled `la`, `v` labelled `lb`) of `Σ_{k=1..r} w_k · walks k u v` -/
def treeTerm (ws : List Rat) (la lb : Nat) (t : TreeIn) : Rat :=
  sumTo t.n fun u => sumTo t.n fun v =>
    if t.labels[u]? = some la ∧ t.labels[v]? = some lb
    then walkSum t.n (adjMat t.n t.lil) ws 1 u v else 0

theorem alignMat_entry {dict cls : List Nat} {C : Mat} (hd : dict.Nodup) (_hc : cls.Nodup)
    {p q la lb : Nat} (hp : dict[p]? = some la) (hq : dict[q]? = some lb) :
    ent (alignMat dict cls C) p q =
      sumTo cls.length fun a => sumTo cls.length fun b =>
        if cls[a]? = some la ∧ cls[b]? = some lb then ent C a b else 0 := by
  have hp' := (List.getElem?_eq_some_iff.mp hp).1
  have hq' := (List.getElem?_eq_some_iff.mp hq).1
  unfold alignMat
  rw [ent_ofFn hp' hq']
  apply sumTo_congr; intro a _
  apply sumTo_congr; intro b _
  have h1 := hit_iff (cls := cls) hd hp a
  have h2 := hit_iff (cls := cls) hd hq b
  by_cases e1 : cls[a]? = some la <;> by_cases e2 : cls[b]? = some lb <;>
    simp_all

theorem collapse_entry {n : Nat} {cls labels : List Nat} {M : Mat} (hn : labels.length = n)
    (hc : cls.Nodup) (hm : ∀ l ∈ labels, l ∈ cls) {a b la lb : Nat}
    (ha : cls[a]? = some la) (hb : cls[b]? = some lb) :
    ent (collapseWith n cls.length (transMat cls labels) M) a b =
      sumTo n fun u => sumTo n fun v =>
        if labels[u]? = some la ∧ labels[v]? = some lb then ent M u v else 0 := by
  have ha' := (List.getElem?_eq_some_iff.mp ha).1
  have hb' := (List.getElem?_eq_some_iff.mp hb).1
  rw [collapseWith_spec ha' hb']
  apply sumTo_congr; intro u hu
  apply sumTo_congr; intro v hv
  have eu : labels[u]? = some labels[u] := List.getElem?_eq_getElem (by omega)
  have ev : labels[v]? = some labels[v] := List.getElem?_eq_getElem (by omega)
  rw [transMat_spec hc hm eu ha, transMat_spec hc hm ev hb, eu, ev]
  by_cases e1 : labels[u] = la <;> by_cases e2 : labels[v] = lb <;> simp [e1, e2]

/-- a double sum over class indices with a single surviving pair -/
theorem pair_sum_hit {cls : List Nat} (hc : cls.Nodup) {a0 b0 la lb : Nat}
    (ha : cls[a0]? = some la) (hb : cls[b0]? = some lb) (F : Nat → Nat → Rat) :
    (sumTo cls.length fun a => sumTo cls.length fun b =>
      if cls[a]? = some la ∧ cls[b]? = some lb then F a b else 0) = F a0 b0 := by
  have ha' := (List.getElem?_eq_some_iff.mp ha).1
  have hb' := (List.getElem?_eq_some_iff.mp hb).1
  rw [sumTo_single a0 ha']
  · rw [sumTo_single b0 hb']
    · simp [ha, hb]
    · intro b _ hne
      have : ¬ cls[b]? = some lb := fun e => hne (nodup_getElem?_inj hc e hb)
      simp [this]
  · intro a _ hne
    have : ¬ cls[a]? = some la := fun e => hne (nodup_getElem?_inj hc e ha)
    simp [this, sumTo_zero]

theorem pair_sum_miss {cls : List Nat} {la lb : Nat} (h : la ∉ cls ∨ lb ∉ cls) (F : Nat → Nat → Rat) :
    (sumTo cls.length fun a => sumTo cls.length fun b =>
      if cls[a]? = some la ∧ cls[b]? = some lb then F a b else 0) = 0 := by
  apply sumTo_eq_zero; intro a _
  apply sumTo_eq_zero; intro b _
  have : ¬ (cls[a]? = some la ∧ cls[b]? = some lb) := by
    rintro ⟨e1, e2⟩
    rcases h with h | h
    · exact h (List.mem_of_getElem? e1)
    · exact h (List.mem_of_getElem? e2)
  simp [this]

theorem sparseCollapse_cases {n : Nat} {M C : Mat} {labels cls : List Nat}
    (h : sparseCollapse n M labels = (C, cls)) :
    (labels = [] ∧ cls = []) ∨
    (cls = classesOf labels ∧ C = collapseWith n cls.length (transMat cls labels) M) := by
  cases labels with
  | nil => simp [sparseCollapse] at h; exact Or.inl ⟨rfl, by simp [h.2]⟩
  | cons l ls =>
    simp only [sparseCollapse, Prod.mk.injEq] at h
    obtain ⟨h1, h2⟩ := h
    subst h2
    exact Or.inr ⟨rfl, h1.symm⟩

/-- **entry formula for one tree**: cell `(p,q)` of the aligned matrix is the sum over the ordered
node pairs labelled `(dict[p], dict[q])` of `Σ_k w_k · walks k u v` -/
theorem treeCounts_entry {ws : List Rat} {dict : List Nat} {t : TreeIn} {G : Mat}
    (h : treeCounts ws dict t = .ok G) (hd : dict.Nodup) {p q la lb : Nat}
    (hp : dict[p]? = some la) (hq : dict[q]? = some lb) :
    ent G p q = treeTerm ws la lb t := by
  unfold treeCounts at h
  split at h
  · cases h
  · rename_i hshape
    have hlen : t.labels.length = t.n := by
      simp only [Bool.or_eq_true, Bool.not_eq_true', bne_iff_ne, ne_eq, not_or, Decidable.not_not] at hshape
      exact hshape.2
    cases hb : build t.n (adjMat t.n t.lil) ws with
    | error e => rw [hb] at h; cases h
    | ok count =>
      rw [hb] at h
      simp only [Except.bind] at h
      have hcount : ∀ u v, u < t.n → v < t.n →
          ent count u v = walkSum t.n (adjMat t.n t.lil) ws 1 u v :=
        fun u v hu hv => build_spec hb hu hv
      generalize hsc : sparseCollapse t.n count t.labels = r at h
      obtain ⟨C, cls⟩ := r
      simp only at h
      by_cases hk : keysOk dict cls C = true
      · simp only [hk, if_true, Except.ok.injEq] at h
        subst h
        rcases sparseCollapse_cases hsc with ⟨hl, hcls⟩ | ⟨hcls, hC⟩
        · have hn : t.n = 0 := by rw [← hlen, hl]; rfl
          subst hcls
          rw [alignMat_entry hd List.nodup_nil hp hq]
          simp [sumTo, treeTerm, hn]
        · have hc : cls.Nodup := hcls ▸ classesOf_nodup t.labels
          have hm : ∀ l ∈ t.labels, l ∈ cls := fun l hl => hcls ▸ mem_classesOf.mpr hl
          rw [alignMat_entry hd hc hp hq]
          unfold treeTerm
          by_cases hla : la ∈ cls
          · by_cases hlb : lb ∈ cls
            · obtain ⟨a0, ha0⟩ := List.mem_iff_getElem?.mp hla
              obtain ⟨b0, hb0⟩ := List.mem_iff_getElem?.mp hlb
              rw [pair_sum_hit hc ha0 hb0, hC, collapse_entry hlen hc hm ha0 hb0]
              apply sumTo_congr; intro u hu
              apply sumTo_congr; intro v hv
              rw [hcount u v hu hv]
            · rw [pair_sum_miss (Or.inr hlb)]
              symm
              apply sumTo_eq_zero; intro u _
              apply sumTo_eq_zero; intro v _
              have : ¬ t.labels[v]? = some lb :=
                fun e => hlb (hm lb (List.mem_of_getElem? e))
              simp [this]
          · rw [pair_sum_miss (Or.inl hla)]
            symm
            apply sumTo_eq_zero; intro u _
            apply sumTo_eq_zero; intro v _
            have : ¬ t.labels[u]? = some la :=
              fun e => hla (hm la (List.mem_of_getElem? e))
            simp [this]
      · simp [hk] at h

/-! ### sum over the trees, shapes, orientation -/

/-- `Σ_trees Σ_{u:la} Σ_{v:lb} Σ_k w_k · walks k u v` -/
def forestTerm (ws : List Rat) (la lb : Nat) (trees : List TreeIn) : Rat :=
  trees.foldr (fun t acc => treeTerm ws la lb t + acc) 0

theorem sumTrees_entry {ws : List Rat} {dict : List Nat} {trees : List TreeIn} {G : Mat}
    (h : sumTrees ws dict trees = .ok G) (hd : dict.Nodup) {p q la lb : Nat}
    (hp : dict[p]? = some la) (hq : dict[q]? = some lb) :
    ent G p q = forestTerm ws la lb trees := by
  have hp' := (List.getElem?_eq_some_iff.mp hp).1
  have hq' := (List.getElem?_eq_some_iff.mp hq).1
  induction trees generalizing G with
  | nil =>
    simp only [sumTrees, Except.ok.injEq] at h
    subst h
    simp [ent_zero, forestTerm]
  | cons t ts ih =>
    unfold sumTrees at h
    cases h1 : treeCounts ws dict t with
    | error e => rw [h1] at h; cases h
    | ok G1 =>
      cases h2 : sumTrees ws dict ts with
      | error e => rw [h1, h2] at h; cases h
      | ok G2 =>
        rw [h1, h2] at h
        simp only [Except.bind, Except.ok.injEq] at h
        subst h
        rw [ent_add hp' hq', treeCounts_entry h1 hd hp hq, ih h2]
        rfl

def IsShape (r c : Nat) (M : Mat) : Prop := M.length = r ∧ ∀ row ∈ M, row.length = c

theorem ofFn_shape (r c : Nat) (f : Nat → Nat → Rat) : IsShape r c (ofFn r c f) := by
  refine ⟨by simp [ofFn], ?_⟩
  intro row hrow
  simp only [ofFn, List.mem_map] at hrow
  obtain ⟨i, _, rfl⟩ := hrow
  simp

theorem sumTrees_shape {ws : List Rat} {dict : List Nat} {trees : List TreeIn} {G : Mat}
    (h : sumTrees ws dict trees = .ok G) : IsShape dict.length dict.length G := by
  cases trees with
  | nil =>
    simp only [sumTrees, Except.ok.injEq] at h
    subst h; exact ofFn_shape _ _ _
  | cons t ts =>
    unfold sumTrees at h
    cases h1 : treeCounts ws dict t with
    | error e => rw [h1] at h; cases h
    | ok G1 =>
      cases h2 : sumTrees ws dict ts with
      | error e => rw [h1, h2] at h; cases h
      | ok G2 =>
        rw [h1, h2] at h
        simp only [Except.bind, Except.ok.injEq] at h
        subst h; exact ofFn_shape _ _ _

theorem ent_hstack {r c1 : Nat} {A B : Mat} (hA : IsShape r c1 A) (hB : B.length = r)
    {i j : Nat} (hi : i < r) :
    ent (hstack A B) i j = if j < c1 then ent A i j else ent B i (j - c1) := by
  obtain ⟨hA1, hA2⟩ := hA
  have eA : A[i]? = some A[i] := List.getElem?_eq_getElem (by omega)
  have eB : B[i]? = some B[i] := List.getElem?_eq_getElem (by omega)
  have hlen : (A[i]).length = c1 := hA2 _ (List.getElem_mem _)
  simp only [ent, hstack, List.getElem?_zipWith, eA, eB]
  by_cases hj : j < c1
  · simp [hj, List.getElem?_append_left (hlen ▸ hj)]
  · simp [hj, List.getElem?_append_right (by omega : (A[i]).length ≤ j), hlen]

end VecModel.Tree
