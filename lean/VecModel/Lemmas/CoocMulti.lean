import VecModel.Lemmas.CoocOcc
/- Refinement of the multiset event generator to the position-based definition `specMulti`. -/
set_option linter.unusedSimpArgs false
set_option linter.unusedVariables false
namespace VecModel.Cooc
open VecModel.Window

/-! ### list lemmas -/

theorem mapIdx_eq_map_of (l : List α) (f : Nat → α → β) (g : α → β)
    (h : ∀ k x, l[k]? = some x → f k x = g x) : l.mapIdx f = l.map g := by
  apply List.ext_getElem?
  intro k
  rw [List.getElem?_mapIdx, List.getElem?_map]
  cases hk : l[k]? with
  | none => rfl
  | some x => simp [h k x hk]

theorem map_eq_mapIdx (l : List α) (g : α → β) : l.map g = l.mapIdx fun _ x => g x :=
  (mapIdx_eq_map_of l _ g (fun _ _ _ => rfl)).symm

/-- writing one entry of a mapped list -/
theorem set_map_eq_mapIdx (l : List α) (g : α → β) (w : Nat) (z : β) :
    (l.map g).set w z = l.mapIdx fun v x => if v = w then z else g x := by
  apply List.ext_getElem?
  intro k
  rw [List.getElem?_set, List.getElem?_mapIdx, List.getElem?_map]
  by_cases hk : w = k
  · subst hk
    cases h : l[w]? with
    | none =>
      have : l.length ≤ w := by
        by_contra hh
        rw [List.getElem?_eq_getElem (by omega)] at h; simp at h
      simp [h, this]
    | some x =>
      have : w < l.length := by
        by_contra hh; rw [List.getElem?_eq_none (by omega)] at h; simp at h
      simp [h, this]
  · have : ¬ k = w := fun e => hk e.symm
    cases l[k]? <;> simp [hk, this]

/-- writing into the first list of a flattened list of lists -/
theorem set_flatten_head (m : List β) (L : List (List β)) (w : Nat) (z : β) (hw : w < m.length) :
    (m :: L).flatten.set w z = (m.set w z :: L).flatten := by
  simp only [List.flatten_cons]
  rw [List.set_append_left _ _ hw]

theorem zip_flatten_map (L : List γ) (f : γ → List α) (g : γ → List β)
    (h : ∀ x ∈ L, (f x).length = (g x).length) :
    (L.map f).flatten.zip (L.map g).flatten = (L.map fun x => (f x).zip (g x)).flatten := by
  induction L with
  | nil => rfl
  | cons x L ih =>
    simp only [List.map_cons, List.flatten_cons]
    rw [List.zip_append (h x List.mem_cons_self), ih (fun y hy => h y (List.mem_cons_of_mem _ hy))]

theorem zip_mapIdx_eq (m : List α) (k : Nat → α → β) :
    m.zip (m.mapIdx k) = m.zipIdx.map fun cv => (cv.1, k cv.2 cv.1) := by
  apply List.ext_getElem?
  intro i
  by_cases hi : i < m.length
  · simp [List.zip_eq_zipWith, List.getElem?_zipWith, List.getElem?_mapIdx, List.getElem?_zipIdx,
      List.getElem?_eq_getElem hi]
  · rw [List.getElem?_eq_none (by simp; omega), List.getElem?_eq_none (by simp; omega)]

theorem mapIdx_eq_zipIdx_map' (m : List α) (k : Nat → α → β) :
    m.mapIdx k = m.zipIdx.map fun cv => k cv.2 cv.1 := by
  apply List.ext_getElem?
  intro i
  by_cases hi : i < m.length
  · simp [List.getElem?_mapIdx, List.getElem?_zipIdx, List.getElem?_eq_getElem hi]
  · rw [List.getElem?_eq_none (by simp; omega), List.getElem?_eq_none (by simp; omega)]

theorem sumOver_id (l : List Rat) : sumOver l id = l.sum := by simp [sumOver]

/-! ### values of all positions of a list of (multiset, document index) pairs -/

/-- the values `val ctx e v` of all positions of the multisets `widx`, flattened in window order -/
def flatVals (widx : List (List Nat × Nat)) (val : Nat → Nat → Nat → Rat) : List Rat :=
  (widx.map fun me => me.1.mapIdx fun v c => val c me.2 v).flatten

/-- `Σ` over all positions of the multisets `widx` -/
def posSum (widx : List (List Nat × Nat)) (F : Nat → Nat → Nat → Rat) : Rat :=
  sumOver widx fun me => sumOver me.1.zipIdx fun cv => F cv.1 me.2 cv.2

theorem sumDoc_eq_posSum (doc : List (List Nat)) (F : Nat → Nat → Nat → Rat) :
    sumDoc doc F = posSum doc.zipIdx F := rfl

theorem flatVals_sum (widx : List (List Nat × Nat)) (val : Nat → Nat → Nat → Rat) :
    (flatVals widx val).sum = posSum widx val := by
  unfold flatVals posSum
  rw [← sumOver_id, sumOver_flatten, sumOver_map]
  apply sumOver_congr
  intro me _
  rw [mapIdx_eq_zipIdx_map', sumOver_map]
  rfl

theorem flatVals_zip (widx : List (List Nat × Nat)) (val : Nat → Nat → Nat → Rat)
    (G : Nat → Rat → Rat) :
    sumOver ((widx.map (·.1)).flatten.zip (flatVals widx val)) (fun cv => G cv.1 cv.2) =
      posSum widx fun c e v => G c (val c e v) := by
  unfold flatVals posSum
  rw [zip_flatten_map widx (·.1) (fun me => me.1.mapIdx fun v c => val c me.2 v)
    (fun me _ => by simp), sumOver_flatten, sumOver_map]
  apply sumOver_congr
  intro me _
  rw [zip_mapIdx_eq, sumOver_map]

theorem flatVals_map (widx : List (List Nat × Nat)) (val : Nat → Nat → Nat → Rat) (g : Rat → Rat) :
    (flatVals widx val).map g = flatVals widx fun c e v => g (val c e v) := by
  unfold flatVals
  rw [List.map_flatten, List.map_map]
  congr 1
  apply List.map_congr_left
  intro me _
  simp only [Function.comp]
  apply List.ext_getElem?
  intro i
  simp only [List.getElem?_map, List.getElem?_mapIdx]
  cases me.1[i]? <;> rfl

theorem posSum_congr {widx : List (List Nat × Nat)} {F G : Nat → Nat → Nat → Rat}
    (h : ∀ c e v, F c e v = G c e v) : posSum widx F = posSum widx G := by
  unfold posSum
  apply sumOver_congr; intro me _
  apply sumOver_congr; intro cv _
  exact h _ _ _

/-! ### window re-indexing -/

theorem sumOver_windowAt (l : List α) (ρ d : Nat) (rev : Bool) (hd : d < l.length) (H : α → Rat) :
    sumOver (windowAt l ρ d rev) H =
      sumTo l.length fun j =>
        match l[j]? with
        | some x => if inWin rev ρ d j then H x else 0
        | none => 0 := by
  rw [sumOver_eq_sumTo, windowAt_length_eq l ρ d rev hd]
  rw [← sumTo_window rev ρ d l.length hd
    (fun j => match l[j]? with
      | some x => if inWin rev ρ d j then H x else 0
      | none => 0)
    (fun j _ h => by cases l[j]? <;> simp [h])]
  apply sumTo_congr
  intro k hk
  obtain ⟨hget, hlt, hin, _⟩ := windowAt_getElem?_eq l ρ d k rev hd hk
  rw [hget, List.getElem?_eq_getElem hlt]
  simp [hin]

theorem inMWin_iff (rev : Bool) (ρ d e : Nat) :
    inMWin rev ρ d e = (decide (e = d) || inWin rev ρ d e) := by
  cases rev <;> simp only [inMWin, inWin, Bool.false_eq_true, if_false, if_true] <;>
    rw [Bool.eq_iff_iff] <;> simp <;> omega

theorem mdist_of_inWin {rev : Bool} {ρ d e : Nat} (h : inWin rev ρ d e = true) :
    mdist d e = gap d e + 1 := by
  cases rev <;> simp [inWin] at h <;> simp only [mdist, gap] <;> split <;> omega

/-- **the window of multisets covers exactly the multisets with `inMWin`**: a sum over the target's
own multiset followed by the `window_at_index` window of multisets is the sum over the whole
document of a summand that vanishes outside the window. -/
theorem sumOver_mwin (l : List α) (ρ d : Nat) (rev : Bool) (hd : d < l.length) (H : α → Rat)
    (idx : α → Nat) (hidx : ∀ j x, l[j]? = some x → idx x = j)
    (hH : ∀ x, inMWin rev ρ d (idx x) = false → H x = 0) :
    sumOver (l[d] :: windowAt l ρ d rev) H = sumOver l H := by
  rw [sumOver_cons, sumOver_windowAt l ρ d rev hd, sumOver_eq_sumTo l H,
    ← sumTo_ite_eq d hd (H l[d]), ← sumTo_add]
  apply sumTo_congr
  intro j hj
  have hlj : l[j]? = some l[j] := List.getElem?_eq_getElem hj
  rw [hlj]
  simp only
  by_cases hjd : j = d
  · subst hjd
    have : inWin rev ρ j j = false := by cases rev <;> simp [inWin]
    simp [this]
  · by_cases hin : inWin rev ρ d j = true
    · simp [hjd, hin]
    · have hout : inMWin rev ρ d (idx l[j]) = false := by
        rw [hidx j l[j] hlj, inMWin_iff]
        simp [hjd, hin]
      simp [hjd, hin, hH l[j] hout]

/-! ### the multiset kernels -/

theorem multiRaw_eq (ker : Nat → Rat) (mask : Option Nat) (offset : Nat) (msets : List (List Nat)) :
    multiRaw ker mask offset msets =
      (msets.mapIdx fun k m => m.map fun c =>
        if k < offset then (0 : Rat) else if mask = some c then 0 else ker (k - offset)).flatten := by
  induction offset generalizing msets with
  | zero => simp [multiRaw]
  | succ o ih =>
    cases msets with
    | nil => simp [multiRaw]
    | cons m ms =>
      have h := ih ms
      unfold multiRaw at h ⊢
      simp only [List.take_succ_cons, List.drop_succ_cons, List.flatten_cons, List.map_append,
        List.append_assoc, List.mapIdx_cons]
      rw [h]
      have e1 : (m.map fun c => if 0 < o + 1 then (0 : Rat) else if mask = some c then 0
          else ker (0 - (o + 1))) = m.map fun _ => (0 : Rat) := by
        apply List.map_congr_left; intro c _; simp
      have e2 : (fun i (m : List Nat) => m.map fun c =>
            if i + 1 < o + 1 then (0 : Rat) else if mask = some c then 0 else ker (i + 1 - (o + 1))) =
          fun k (m : List Nat) => m.map fun c =>
            if k < o then (0 : Rat) else if mask = some c then 0 else ker (k - o) := by
        funext i m
        apply List.map_congr_left
        intro c _
        have h1 : (i + 1 < o + 1) = (i < o) := by simp
        have h2 : i + 1 - (o + 1) = i - o := by omega
        simp only [h1, h2]
      rw [e1, e2]

/-! ### the window and kernel of one block -/

theorem zipIdx_map_fst (l : List α) : l.zipIdx.map (·.1) = l := by
  apply List.ext_getElem?
  intro i
  simp only [List.getElem?_map, List.getElem?_zipIdx]
  cases l[i]? <;> rfl

/-- the multisets of the window with their document indices: the target's own multiset first, then
the `window_at_index` window over the (multiset, index) pairs -/
def mwidx (b : Block) (doc : List (List Nat)) (tgt d : Nat) (m0 : List Nat) : List (List Nat × Nat) :=
  (m0, d) :: windowAt doc.zipIdx (b.radius tgt) d b.rev

theorem multiWin_eq (b : Block) (doc : List (List Nat)) (tgt d : Nat) (m0 : List Nat)
    (hm : doc[d]? = some m0) : multiWin b doc d tgt = (mwidx b doc tgt d m0).map (·.1) := by
  have hd : d < doc.length := by
    by_contra h; rw [List.getElem?_eq_none (by omega)] at hm; simp at hm
  have hm0 : doc[d] = m0 := by
    rw [List.getElem?_eq_getElem hd] at hm; simpa using hm
  unfold mwidx
  rw [List.map_cons, ← windowAt_map, zipIdx_map_fst]
  simp only
  rw [← hm0]
  unfold multiWin windowAt
  cases b.rev
  · simp only [Bool.false_eq_true, if_false]
    rw [List.drop_eq_getElem_cons hd, List.take_succ_cons]
  · simp only [if_true]
    have h1 : doc.take (d + 1) = doc.take d ++ [doc[d]] := by
      rw [List.take_add_one, List.getElem?_eq_getElem hd]; simp
    have h2 : (doc.take d).length = d := by simp; omega
    rw [h1, List.drop_append_of_le_length (by omega), List.reverse_append]
    simp

/-- entry `k` of the window is a multiset at distance `k` on the proper side -/
theorem mwidx_entry (b : Block) (doc : List (List Nat)) (tgt d : Nat) (m0 : List Nat)
    (hd : d < doc.length) (k : Nat) (me : List Nat × Nat)
    (h : (mwidx b doc tgt d m0)[k]? = some me) :
    inMWin b.rev (b.radius tgt) d me.2 = true ∧ mdist d me.2 = k := by
  unfold mwidx at h
  cases k with
  | zero =>
    simp only [List.getElem?_cons_zero, Option.some.injEq] at h
    subst h
    constructor
    · rw [inMWin_iff]; simp
    · simp [mdist]
  | succ k =>
    simp only [List.getElem?_cons_succ] at h
    have hdl : d < doc.zipIdx.length := by simpa using hd
    have hk : k < (windowAt doc.zipIdx (b.radius tgt) d b.rev).length := by
      by_contra hh; rw [List.getElem?_eq_none (by omega)] at h; simp at h
    rw [windowAt_length_eq _ _ _ _ hdl] at hk
    obtain ⟨hget, hlt, hin, hgap⟩ := windowAt_getElem?_eq doc.zipIdx (b.radius tgt) d k b.rev hdl hk
    rw [hget, List.getElem?_zipIdx] at h
    have hlt' : wpos b.rev d k < doc.length := by simpa using hlt
    rw [List.getElem?_eq_getElem hlt'] at h
    simp only [Option.map_some, Nat.zero_add, Option.some.injEq] at h
    subst h
    simp only
    constructor
    · rw [inMWin_iff, hin]; simp
    · rw [mdist_of_inWin hin, hgap]

/-- **raw multiset kernel, position by position**: `kernel_result` after `kernel_result[target_ind] = 0`
lists, in window order, the positional weights `mRaw` -/
theorem multiRaw_zeroAt_eq (b : Block) (doc : List (List Nat)) (tgt d w : Nat) (m0 : List Nat)
    (hm : doc[d]? = some m0) (hw : w < m0.length) :
    zeroAt (multiRaw (fun k => b.w k 0) b.args.mask b.args.offset (multiWin b doc d tgt)) w =
      .ok (flatVals (mwidx b doc tgt d m0) fun c e v => mRaw b tgt d w c e v) := by
  have hd : d < doc.length := by
    by_contra h; rw [List.getElem?_eq_none (by omega)] at hm; simp at hm
  rw [multiWin_eq b doc tgt d m0 hm, multiRaw_eq]
  -- all weights as one indexed function
  let R : Nat → Nat → Nat → Rat := fun k v c =>
    if k = 0 ∧ v = w then 0
    else if k < b.args.offset then 0 else if b.args.mask = some c then 0 else b.w (k - b.args.offset) 0
  have hlists : ((mwidx b doc tgt d m0).map (·.1)).mapIdx (fun k m => m.map fun c =>
        if k < b.args.offset then (0 : Rat) else if b.args.mask = some c then 0
        else b.w (k - b.args.offset) 0) =
      (m0.map fun c => if 0 < b.args.offset then (0 : Rat) else if b.args.mask = some c then 0
        else b.w (0 - b.args.offset) 0) ::
      (windowAt doc.zipIdx (b.radius tgt) d b.rev).mapIdx (fun i me => me.1.mapIdx fun v c => R (i + 1) v c) := by
    unfold mwidx
    rw [List.map_cons, List.mapIdx_cons, mapIdx_map]
    congr 1
    apply List.ext_getElem?
    intro i
    simp only [List.getElem?_mapIdx]
    cases (windowAt doc.zipIdx (b.radius tgt) d b.rev)[i]? with
    | none => rfl
    | some me =>
      simp only [Option.map_some, Option.some.injEq]
      rw [map_eq_mapIdx]
      simp [R]
  rw [hlists]
  unfold zeroAt
  have hlen : w < ((m0.map fun c => if 0 < b.args.offset then (0 : Rat) else if b.args.mask = some c then 0
        else b.w (0 - b.args.offset) 0) ::
      (windowAt doc.zipIdx (b.radius tgt) d b.rev).mapIdx
        (fun i me => me.1.mapIdx fun v c => R (i + 1) v c)).flatten.length := by
    simp only [List.flatten_cons, List.length_append, List.length_map]; omega
  rw [if_pos hlen, set_flatten_head _ _ w 0 (by simpa using hw), set_map_eq_mapIdx]
  congr 1
  unfold flatVals
  congr 1
  -- both sides as `mapIdx` over the window
  have hR : (mwidx b doc tgt d m0).map (fun me => me.1.mapIdx fun v c => mRaw b tgt d w c me.2 v) =
      (mwidx b doc tgt d m0).mapIdx (fun k me => me.1.mapIdx fun v c => R k v c) := by
    symm
    apply mapIdx_eq_map_of
    intro k me hk
    obtain ⟨hin, hdist⟩ := mwidx_entry b doc tgt d m0 hd k me hk
    apply List.ext_getElem?
    intro v
    simp only [List.getElem?_mapIdx]
    cases me.1[v]? with
    | none => rfl
    | some c =>
      simp only [Option.map_some, Option.some.injEq, R, mRaw, hin, if_true, hdist]
      have hk0 : (me.2 = d) = (k = 0) := by
        apply propext
        rw [← hdist]; unfold mdist; split <;> omega
      simp only [hk0]
  rw [hR]
  unfold mwidx
  rw [List.mapIdx_cons]
  congr 1
  apply List.ext_getElem?
  intro v
  simp only [List.getElem?_mapIdx]
  cases m0[v]? with
  | none => rfl
  | some c => simp [R]

/-- sums over the window = sums over the document, for summands vanishing outside the window -/
theorem posSum_mwidx (b : Block) (doc : List (List Nat)) (tgt d : Nat) (m0 : List Nat)
    (hm : doc[d]? = some m0) (F : Nat → Nat → Nat → Rat)
    (hF : ∀ c e v, inMWin b.rev (b.radius tgt) d e = false → F c e v = 0) :
    posSum (mwidx b doc tgt d m0) F = sumDoc doc F := by
  have hd : d < doc.length := by
    by_contra h; rw [List.getElem?_eq_none (by omega)] at hm; simp at hm
  have hm0 : doc[d] = m0 := by
    rw [List.getElem?_eq_getElem hd] at hm; simpa using hm
  have hdl : d < doc.zipIdx.length := by simpa using hd
  have h0 : (m0, d) = doc.zipIdx[d] := by simp [hm0]
  unfold posSum mwidx sumDoc
  rw [h0]
  apply sumOver_mwin doc.zipIdx (b.radius tgt) d b.rev hdl _ (·.2)
  · intro j x hx
    rw [List.getElem?_zipIdx] at hx
    cases hj : doc[j]? with
    | none => simp [hj] at hx
    | some m => simp [hj] at hx; rw [← hx]
  · intro x hx
    apply sumOver_eq_zero
    intro cv _
    exact hF _ _ _ hx

theorem mRaw_outside (b : Block) (tgt d w c e v : Nat)
    (h : inMWin b.rev (b.radius tgt) d e = false) : mRaw b tgt d w c e v = 0 := by
  simp [mRaw, h]

theorem mKer_outside (b : Block) (doc : List (List Nat)) (tgt d w c e v : Nat)
    (h : inMWin b.rev (b.radius tgt) d e = false) : mKer b doc tgt d w c e v = 0 := by
  unfold mKer
  rw [mRaw_outside b tgt d w c e v h]
  split <;> [split; skip] <;> simp

/-- **the kernel of a block, position by position** -/
theorem multiKernelW_eq (b : Block) (doc : List (List Nat)) (tgt d w : Nat) (m0 : List Nat)
    (hm : doc[d]? = some m0) (hw : w < m0.length) :
    (multiKernelW (fun k => b.w k 0) b.args (multiWin b doc d tgt) w).map (·.map (b.mix * ·)) =
      .ok (flatVals (mwidx b doc tgt d m0) fun c e v => mKer b doc tgt d w c e v) := by
  unfold multiKernelW
  rw [multiRaw_zeroAt_eq b doc tgt d w m0 hm hw]
  simp only [bind, Except.bind, pure, Except.pure, Except.map]
  congr 1
  have hsum : (flatVals (mwidx b doc tgt d m0) fun c e v => mRaw b tgt d w c e v).sum =
      mZ b doc tgt d w := by
    rw [flatVals_sum, posSum_mwidx b doc tgt d m0 hm _ (fun c e v h => mRaw_outside b tgt d w c e v h)]
    rfl
  have key : ∀ g : Rat → Rat, (∀ c e v, g (mRaw b tgt d w c e v) = mKer b doc tgt d w c e v) →
      (flatVals (mwidx b doc tgt d m0) fun c e v => mRaw b tgt d w c e v).map g =
        flatVals (mwidx b doc tgt d m0) fun c e v => mKer b doc tgt d w c e v := by
    intro g hg
    rw [flatVals_map]
    congr 1
    funext c e v
    exact hg c e v
  unfold l1norm
  rw [hsum]
  by_cases hn : b.args.normalize = true
  · by_cases hz : mZ b doc tgt d w > 0
    · rw [if_pos hn, if_pos hz, List.map_map]
      apply key
      intro c e v
      simp [mKer, hn, hz]
    · rw [if_pos hn, if_neg hz]
      apply key
      intro c e v
      simp [mKer, hn, hz]
  · rw [if_neg hn]
    apply key
    intro c e v
    simp [mKer, hn]

/-! ### one occurrence -/

/-- all positions of a document: `(token, multiset index, index in the multiset)` -/
def docPos (doc : List (List Nat)) : List (Nat × Nat × Nat) :=
  doc.zipIdx.flatMap fun me => me.1.zipIdx.map fun cv => (cv.1, me.2, cv.2)

theorem sumOver_flatMap (l : List α) (f : α → List β) (F : β → Rat) :
    sumOver (l.flatMap f) F = sumOver l fun x => sumOver (f x) F := by
  induction l with
  | nil => simp [sumOver]
  | cons x l ih => rw [List.flatMap_cons, sumOver_append, sumOver_cons, ih]

theorem sumOver_docPos (doc : List (List Nat)) (F : Nat × Nat × Nat → Rat) :
    sumOver (docPos doc) F = sumDoc doc fun c e v => F (c, e, v) := by
  unfold docPos sumDoc
  rw [sumOver_flatMap]
  apply sumOver_congr
  intro me _
  rw [sumOver_map]

/-- the (window, mix-weighted kernel) pair of a block, position by position -/
def multiBlockPure (b : Block) (doc : List (List Nat)) (tgt d w : Nat) (m0 : List Nat) :
    List Nat × List Rat :=
  (((mwidx b doc tgt d m0).map (·.1)).flatten,
    flatVals (mwidx b doc tgt d m0) fun c e v => mKer b doc tgt d w c e v)

def multiOccPure (cfg : Cfg) (doc : List (List Nat)) (d w tgt : Nat) (m0 : List Nat) : Occ :=
  { row := tgt, wins := cfg.blocks.map fun b => multiBlockPure b doc tgt d w m0 }

theorem mapM_except_ok {ε : Type} (l : List α) (f : α → Except ε β) (g : α → β)
    (h : ∀ x ∈ l, f x = .ok (g x)) : l.mapM f = .ok (l.map g) := by
  induction l with
  | nil => rfl
  | cons x l ih =>
    rw [List.mapM_cons, h x List.mem_cons_self, ih (fun y hy => h y (List.mem_cons_of_mem _ hy))]
    rfl

/-- `multiOcc` never fails on a target position of the document and is the pure occurrence -/
theorem multiOcc_eq (cfg : Cfg) (doc : List (List Nat)) (d w tgt : Nat) (m0 : List Nat)
    (hm : doc[d]? = some m0) (hw : w < m0.length) :
    multiOcc cfg doc d w tgt = .ok (multiOccPure cfg doc d w tgt m0) := by
  unfold multiOcc multiOccPure
  have hb : ∀ b ∈ cfg.blocks,
      (do
        let msets := multiWin b doc d tgt
        let ker ← multiKernelW (fun k => b.w k 0) b.args msets w
        pure (msets.flatten, ker.map (b.mix * ·)) : Except Err (List Nat × List Rat)) =
      .ok (multiBlockPure b doc tgt d w m0) := by
    intro b _
    have h := multiKernelW_eq b doc tgt d w m0 hm hw
    simp only [bind, Except.bind, pure, Except.pure]
    cases hk : multiKernelW (fun k => b.w k 0) b.args (multiWin b doc d tgt) w with
    | error e => rw [hk] at h; simp [Except.map] at h
    | ok ker =>
      rw [hk] at h
      simp only [Except.map, Except.ok.injEq] at h
      simp only [multiBlockPure, ← h, multiWin_eq b doc tgt d m0 hm]
  rw [mapM_except_ok cfg.blocks _ _ hb]
  rfl

/-- the cell contribution of one target occurrence of a document -/
theorem cellSum_multiOcc (cfg : Cfg) (doc : List (List Nat)) (d w tgt : Nat) (m0 : List Nat)
    (hm : doc[d]? = some m0) (r c : Nat) :
    cellSum ((multiOccPure cfg doc d w tgt m0).events cfg.n cfg.normWin) r c =
      if tgt = r then
        sumOver cfg.blocks.zipIdx fun bw => sumDoc doc fun ctx e v =>
          if ctx + bw.2 * cfg.n = c then
            pos (mKer bw.1 doc tgt d w ctx e v / mTotal cfg doc tgt d w)
          else 0
      else 0 := by
  unfold multiOccPure
  have := occ_cell_positional cfg.n cfg.normWin tgt cfg.blocks
    (fun b => multiBlockPure b doc tgt d w m0) (docPos doc) (fun p => p.1)
    (fun b p => mKer b doc tgt d w p.1 p.2.1 p.2.2)
    (by
      intro b _ G hG
      unfold multiBlockPure
      simp only
      rw [flatVals_zip, sumOver_docPos]
      exact posSum_mwidx b doc tgt d m0 hm _
        (fun c' e v h => by simp only [mKer_outside b doc tgt d w c' e v h, hG]))
    (by
      intro b _
      unfold multiBlockPure
      simp only
      rw [flatVals_sum, sumOver_docPos]
      exact posSum_mwidx b doc tgt d m0 hm _ (fun c' e v h => mKer_outside b doc tgt d w c' e v h))
    r c
  rw [this]
  by_cases hr : tgt = r
  · simp only [hr, if_true]
    apply sumOver_congr
    intro bw _
    rw [sumOver_docPos]
    have hT : totalOf cfg.normWin cfg.blocks
        (fun b => sumOver (docPos doc) fun p => mKer b doc r d w p.1 p.2.1 p.2.2) =
        mTotal cfg doc r d w := by
      unfold totalOf mTotal
      simp only [sumOver_docPos]
    rw [hT]
  · simp [hr]

/-! ### the whole corpus -/

/-- the target occurrences of a corpus in loop order: (document, multiset index, index in the
multiset, token) -/
def multiTargets (docs : List (List (List Nat))) : List (List (List Nat) × Nat × Nat × Nat) :=
  docs.flatMap fun doc =>
    doc.zipIdx.flatMap fun md => md.1.zipIdx.map fun tw => (doc, md.2, tw.2, tw.1)

def ownMset (q : List (List Nat) × Nat × Nat × Nat) : List Nat :=
  match q.1[q.2.1]? with
  | some m => m
  | none => []

theorem multiTargets_valid (docs : List (List (List Nat))) (q : List (List Nat) × Nat × Nat × Nat)
    (hq : q ∈ multiTargets docs) :
    q.1[q.2.1]? = some (ownMset q) ∧ q.2.2.1 < (ownMset q).length := by
  unfold multiTargets at hq
  rw [List.mem_flatMap] at hq
  obtain ⟨doc, _, hq⟩ := hq
  rw [List.mem_flatMap] at hq
  obtain ⟨md, hmd, hq⟩ := hq
  rw [List.mem_map] at hq
  obtain ⟨tw, htw, rfl⟩ := hq
  have h1 : doc[md.2]? = some md.1 := List.mem_zipIdx_iff_getElem?.mp hmd
  have h2 : md.1[tw.2]? = some tw.1 := List.mem_zipIdx_iff_getElem?.mp htw
  have h3 : tw.2 < md.1.length := by
    by_contra h; rw [List.getElem?_eq_none (by omega)] at h2; simp at h2
  simp only [ownMset, h1]
  exact ⟨trivial, h3⟩

/-- **the multiset generator never fails** (the checked write `kernel_result[target_ind] = 0`
always lands inside the target's own multiset) and its occurrences are the pure ones -/
theorem multiOccs_eq (cfg : Cfg) (docs : List (List (List Nat))) :
    multiOccs cfg docs =
      .ok ((multiTargets docs).map fun q => multiOccPure cfg q.1 q.2.1 q.2.2.1 q.2.2.2 (ownMset q)) := by
  unfold multiOccs
  apply mapM_except_ok
  intro q hq
  obtain ⟨h1, h2⟩ := multiTargets_valid docs q hq
  exact multiOcc_eq cfg q.1 q.2.1 q.2.2.1 q.2.2.2 (ownMset q) h1 h2

theorem cellSum_clearRow (mask : Option Nat) (es : List Event) (r c : Nat) :
    cellSum (clearRow mask es) r c = if mask = some r then 0 else cellSum es r c := by
  induction es with
  | nil => simp [clearRow, cellSum_nil]
  | cons e es ih =>
    unfold clearRow at ih ⊢
    rw [List.filter_cons]
    by_cases hm : mask = some e.1
    · have : (mask != some e.1) = false := by simp [hm]
      rw [this]
      simp only [Bool.false_eq_true, if_false]
      rw [ih, cellSum_cons]
      by_cases hr : mask = some r
      · simp [hr]
      · have : ¬ (e.1 = r) := by
          intro h; apply hr; rw [hm, h]
        simp [hr, this]
    · have : (mask != some e.1) = true := by simp [hm]
      rw [this]
      simp only [if_true]
      rw [cellSum_cons, cellSum_cons, ih]
      by_cases hr : mask = some r
      · have : ¬ (e.1 = r) := by
          intro h; apply hm; rw [hr, h]
        simp [hr, this]
      · simp [hr]


/-! ### non-negative weights -/

theorem mRaw_nonneg (b : Block) (tgt d w c e v : Nat) (hw : ∀ k dt, 0 ≤ b.w k dt) :
    0 ≤ mRaw b tgt d w c e v := by
  unfold mRaw
  split
  · split
    · simp
    · split
      · simp
      · split
        · simp
        · exact hw _ _
  · simp

theorem sumDoc_nonneg (doc : List (List Nat)) (F : Nat → Nat → Nat → Rat)
    (h : ∀ c e v, 0 ≤ F c e v) : 0 ≤ sumDoc doc F := by
  unfold sumDoc
  apply sumOver_nonneg
  intro me _
  apply sumOver_nonneg
  intro cv _
  exact h _ _ _

theorem mKer_nonneg (b : Block) (doc : List (List Nat)) (tgt d w c e v : Nat) (hmix : 0 ≤ b.mix)
    (hw : ∀ k dt, 0 ≤ b.w k dt) : 0 ≤ mKer b doc tgt d w c e v := by
  have hraw := mRaw_nonneg b tgt d w c e v hw
  have hz : 0 ≤ mZ b doc tgt d w := sumDoc_nonneg doc _ (fun c e v => mRaw_nonneg b tgt d w c e v hw)
  unfold mKer
  apply mul_nonneg hmix
  split
  · split
    · exact div_nonneg hraw hz
    · exact hraw
  · exact hraw

theorem mTotal_pos (cfg : Cfg) (doc : List (List Nat)) (tgt d w : Nat) : 0 < mTotal cfg doc tgt d w := by
  unfold mTotal
  generalize (if cfg.normWin = true then
      sumOver cfg.blocks fun b => sumDoc doc fun ctx e v => mKer b doc tgt d w ctx e v
    else 0) = t
  show 0 < if t ≤ 0 then 1 else t
  by_cases h : t ≤ 0
  · simp [h]
  · simp only [h, if_false]; exact lt_of_not_ge h

theorem sumDoc_congr {doc : List (List Nat)} {F G : Nat → Nat → Nat → Rat}
    (h : ∀ c e v, F c e v = G c e v) : sumDoc doc F = sumDoc doc G := by
  unfold sumDoc
  apply sumOver_congr; intro me _
  apply sumOver_congr; intro cv _
  exact h _ _ _

end VecModel.Cooc
