import VecModel.Model.LZ
import Batteries.Data.List.Perm
/-
  Helper lemmas for C16 (property theorems are in Props/C16.lean).
-/
namespace VecModel.LZ

variable {κ : Type} [DecidableEq κ]

/-! ### dictionaries -/

@[simp] theorem lookup_nil (k : κ) : lookup k ([] : Dict κ) = none := rfl
@[simp] theorem lookup_cons (k k' : κ) (v : Nat) (rest : Dict κ) :
    lookup k ((k', v) :: rest) = if k' = k then some v else lookup k rest := rfl
@[simp] theorem incr_nil (k : κ) : incr k ([] : Dict κ) = [] := rfl
@[simp] theorem incr_cons (k k' : κ) (v : Nat) (rest : Dict κ) :
    incr k ((k', v) :: rest) = if k' = k then (k', v + 1) :: rest else (k', v) :: incr k rest := rfl
omit [DecidableEq κ] in
@[simp] theorem total_nil : total ([] : Dict κ) = 0 := rfl
omit [DecidableEq κ] in
@[simp] theorem total_cons (k : κ) (v : Nat) (rest : Dict κ) : total ((k, v) :: rest) = v + total rest := rfl
omit [DecidableEq κ] in
@[simp] theorem keys_nil : keys ([] : Dict κ) = [] := rfl
omit [DecidableEq κ] in
@[simp] theorem keys_cons (p : κ × Nat) (rest : Dict κ) : keys (p :: rest) = p.1 :: keys rest := rfl
omit [DecidableEq κ] in
theorem keys_append (d e : Dict κ) : keys (d ++ e) = keys d ++ keys e := by simp [keys]

theorem incr_length (k : κ) (d : Dict κ) : (incr k d).length = d.length := by
  induction d with
  | nil => rfl
  | cons p rest ih =>
    obtain ⟨k', v⟩ := p
    rw [incr_cons]; split <;> simp [ih]

theorem keys_incr (k : κ) (d : Dict κ) : keys (incr k d) = keys d := by
  induction d with
  | nil => rfl
  | cons p rest ih =>
    obtain ⟨k', v⟩ := p
    rw [incr_cons]; split <;> simp [ih]

theorem total_incr (k : κ) (d : Dict κ) (h : (lookup k d).isSome) : total (incr k d) = total d + 1 := by
  induction d with
  | nil => simp at h
  | cons p rest ih =>
    obtain ⟨k', v⟩ := p
    rw [incr_cons]
    rw [lookup_cons] at h
    split
    · simp; omega
    · rename_i hne
      simp only [hne, if_false] at h
      simp [ih h]; omega

omit [DecidableEq κ] in
theorem total_append (d e : Dict κ) : total (d ++ e) = total d + total e := by
  induction d with
  | nil => simp
  | cons p rest ih => obtain ⟨k, v⟩ := p; simp [ih]; omega

theorem lookup_isSome_iff (k : κ) (d : Dict κ) : (lookup k d).isSome ↔ k ∈ keys d := by
  induction d with
  | nil => simp
  | cons p rest ih =>
    obtain ⟨k', v⟩ := p
    rw [lookup_cons]
    by_cases hk : k' = k
    · simp [hk]
    · simp only [hk, if_false, ih, keys_cons, List.mem_cons]
      constructor
      · intro h; exact Or.inr h
      · intro h; rcases h with h | h
        · exact absurd h.symm hk
        · exact h

theorem lookup_append_of_isSome (k : κ) (d e : Dict κ) (h : (lookup k d).isSome) :
    lookup k (d ++ e) = lookup k d := by
  induction d with
  | nil => simp at h
  | cons p rest ih =>
    obtain ⟨k', v⟩ := p
    simp only [List.cons_append, lookup_cons] at h ⊢
    split
    · rfl
    · rename_i hne; simp only [hne, if_false] at h; exact ih h

theorem lookup_append_of_none (k : κ) (d e : Dict κ) (h : lookup k d = none) :
    lookup k (d ++ e) = lookup k e := by
  induction d with
  | nil => rfl
  | cons p rest ih =>
    obtain ⟨k', v⟩ := p
    simp only [List.cons_append, lookup_cons] at h ⊢
    split
    · rename_i heq; simp [heq] at h
    · rename_i hne; simp only [hne, if_false] at h; exact ih h

/-! ### slices -/

theorem slice_succ (s : List Nat) (a e : Nat) (hae : a ≤ e) (he : e < s.length) :
    slice s a (e + 1) = slice s a e ++ [s[e]] := by
  unfold slice
  have h1 : e + 1 - a = (e - a) + 1 := by omega
  rw [h1, List.take_add_one]
  congr 1
  have : (List.drop a s)[e - a]? = some s[e] := by
    rw [List.getElem?_drop]
    have : a + (e - a) = e := by omega
    rw [this]; exact List.getElem?_eq_getElem he
  rw [this]; rfl

theorem slice_self (s : List Nat) (a : Nat) : slice s a a = [] := by
  simp [slice]

/-! ### the index-level loop equals the character fold -/

theorem loop_eq_fold (h : List Nat → κ) (cap : Nat) (s : List Nat) :
    ∀ (fuel e : Nat) (st : St κ) (pst : PSt κ), e + fuel = s.length →
      st.dict = pst.dict → st.size = pst.size → pst.cur = slice s st.start e → st.start ≤ e →
      (loop h cap s fuel e st).dict = ((s.drop e).foldl (pstep h cap) pst).dict := by
  intro fuel
  induction fuel with
  | zero =>
    intro e st pst he hd _ _ _
    have : s.drop e = [] := List.drop_eq_nil_of_le (by omega)
    simp [loop, this, hd]
  | succ fuel ih =>
    intro e st pst he hd hs hc hle
    have helt : e < s.length := by omega
    rw [List.drop_eq_getElem_cons helt, List.foldl_cons]
    unfold loop
    apply ih (e + 1) _ _ (by omega)
    · unfold step pstep
      simp only [← hc, ← hd, ← hs]
      split
      · rfl
      · split <;> rfl
    · unfold step pstep
      simp only [← hc, ← hd, ← hs]
      split
      · rfl
      · split <;> rfl
    · unfold step pstep
      simp only [← hc, ← hd, ← hs]
      split
      · simp only []; rw [slice_succ s _ e hle helt, hc]
      · split
        · simp only []; rw [slice_succ s e e (Nat.le_refl _) helt, slice_self]; rfl
        · simp only []; rw [slice_succ s e e (Nat.le_refl _) helt, slice_self]; rfl
    · unfold step
      simp only []
      split
      · simp only []; omega
      · split <;> simp only [] <;> omega

theorem encode_eq_parse' (h : List Nat → κ) (cap : Nat) (base : Dict κ) (s : List Nat) :
    encode h cap base s = parse h cap base s := by
  unfold encode parse prun
  have := loop_eq_fold h cap s s.length 0 { dict := base, size := base.length, start := 0 } (pinit base)
    (by simp) rfl rfl (by simp [pinit, slice_self]) (Nat.le_refl _)
  simpa using this

/-! ### invariants of the character fold -/

theorem pstep_size_dict (h : List Nat → κ) (cap : Nat) (st : PSt κ) (c : Nat)
    (hs : st.size = st.dict.length) : (pstep h cap st c).size = (pstep h cap st c).dict.length := by
  unfold pstep; simp only []
  split
  · simp [incr_length, hs]
  · split <;> simp [hs]

theorem fold_size_dict (h : List Nat → κ) (cap : Nat) (s : List Nat) :
    ∀ st : PSt κ, st.size = st.dict.length →
      (s.foldl (pstep h cap) st).size = (s.foldl (pstep h cap) st).dict.length := by
  induction s with
  | nil => intro st hs; exact hs
  | cons c rest ih => intro st hs; exact ih _ (pstep_size_dict h cap st c hs)

theorem pstep_size_mono (h : List Nat → κ) (cap : Nat) (st : PSt κ) (c : Nat) :
    st.size ≤ (pstep h cap st c).size := by
  unfold pstep; simp only []
  split
  · exact Nat.le_refl _
  · split <;> simp

theorem fold_size_mono (h : List Nat → κ) (cap : Nat) (s : List Nat) :
    ∀ st : PSt κ, st.size ≤ (s.foldl (pstep h cap) st).size := by
  induction s with
  | nil => intro st; exact Nat.le_refl _
  | cons c rest ih => intro st; exact Nat.le_trans (pstep_size_mono h cap st c) (ih _)

/-- one dictionary use per character: totals grow by one unless the iteration is lost to the cap -/
theorem pstep_total (h : List Nat → κ) (cap : Nat) (st : PSt κ) (c : Nat) :
    total (pstep h cap st c).dict + (pstep h cap st c).skipped = total st.dict + st.skipped + 1 := by
  unfold pstep; simp only []
  split
  · rename_i hf; simp only []; rw [total_incr _ _ hf]; omega
  · split
    · simp only []; omega
    · simp only [total_append, total_cons, total_nil]; omega

theorem fold_total (h : List Nat → κ) (cap : Nat) (s : List Nat) :
    ∀ st : PSt κ, total (s.foldl (pstep h cap) st).dict + (s.foldl (pstep h cap) st).skipped
      = total st.dict + st.skipped + s.length := by
  induction s with
  | nil => intro st; simp
  | cons c rest ih =>
    intro st
    rw [List.foldl_cons, ih, pstep_total]; simp; omega

/-- an iteration is lost only when the dictionary is full -/
theorem fold_skipped (h : List Nat → κ) (cap : Nat) (s : List Nat) :
    ∀ st : PSt κ, (s.foldl (pstep h cap) st).skipped = st.skipped ∨
      cap ≤ (s.foldl (pstep h cap) st).size := by
  induction s with
  | nil => intro st; exact Or.inl rfl
  | cons c rest ih =>
    intro st
    rw [List.foldl_cons]
    rcases ih (pstep h cap st c) with h1 | h1
    · by_cases hsk : (pstep h cap st c).skipped = st.skipped
      · left; rw [h1, hsk]
      · right
        have hfull : cap ≤ (pstep h cap st c).size := by
          unfold pstep at hsk ⊢; simp only [] at hsk ⊢
          split
          · rename_i hf; simp [hf] at hsk
          · rename_i hf
            split
            · rename_i hc; simp only []; exact hc
            · rename_i hc; simp [hf, hc] at hsk
        exact Nat.le_trans hfull (fold_size_mono h cap rest _)
    · exact Or.inr h1

/-- the cap: the dictionary never grows beyond `max cap (initial size)` -/
theorem fold_size_le (h : List Nat → κ) (cap : Nat) (s : List Nat) :
    ∀ (st : PSt κ) (b : Nat), st.size ≤ max cap b → (s.foldl (pstep h cap) st).size ≤ max cap b := by
  induction s with
  | nil => intro st b hb; exact hb
  | cons c rest ih =>
    intro st b hb
    rw [List.foldl_cons]
    apply ih
    unfold pstep; simp only []
    split
    · exact hb
    · split
      · exact hb
      · simp only []; omega

/-- the dictionary grows by at most one phrase per character -/
theorem fold_size_le_len (h : List Nat → κ) (cap : Nat) (s : List Nat) :
    ∀ (st : PSt κ), (s.foldl (pstep h cap) st).size ≤ st.size + s.length := by
  induction s with
  | nil => intro st; simp
  | cons c rest ih =>
    intro st
    rw [List.foldl_cons]
    refine Nat.le_trans (ih _) ?_
    have : (pstep h cap st c).size ≤ st.size + 1 := by
      unfold pstep; simp only []
      split
      · simp
      · split <;> simp
    simp; omega

/-! ### relabelling the keys by a function that is injective on the phrases in play -/

/-- `f` is injective on the members of `l` -/
def InjOnList {α β : Type} (f : α → β) (l : List α) : Prop :=
  ∀ a ∈ l, ∀ b ∈ l, f a = f b → a = b

theorem InjOnList.mono {α β : Type} {f : α → β} {l l' : List α} (h : InjOnList f l)
    (hsub : ∀ a ∈ l', a ∈ l) : InjOnList f l' :=
  fun a ha b hb => h a (hsub a ha) b (hsub b hb)

variable {κ' : Type} [DecidableEq κ']

omit [DecidableEq κ] [DecidableEq κ'] in
@[simp] theorem relabel_nil (f : κ → κ') : relabel f ([] : Dict κ) = [] := rfl
omit [DecidableEq κ] [DecidableEq κ'] in
@[simp] theorem relabel_cons (f : κ → κ') (p : κ × Nat) (rest : Dict κ) :
    relabel f (p :: rest) = (f p.1, p.2) :: relabel f rest := rfl
omit [DecidableEq κ] [DecidableEq κ'] in
theorem relabel_append (f : κ → κ') (d e : Dict κ) : relabel f (d ++ e) = relabel f d ++ relabel f e := by
  simp [relabel]
omit [DecidableEq κ] [DecidableEq κ'] in
theorem relabel_length (f : κ → κ') (d : Dict κ) : (relabel f d).length = d.length := by
  simp [relabel]
omit [DecidableEq κ] [DecidableEq κ'] in
theorem total_relabel (f : κ → κ') (d : Dict κ) : total (relabel f d) = total d := by
  induction d with
  | nil => rfl
  | cons p rest ih => obtain ⟨k, v⟩ := p; simp [ih]

theorem lookup_relabel (f : κ → κ') (k : κ) (d : Dict κ) (hinj : InjOnList f (k :: keys d)) :
    lookup (f k) (relabel f d) = lookup k d := by
  induction d with
  | nil => rfl
  | cons p rest ih =>
    obtain ⟨k', v⟩ := p
    have hrest : InjOnList f (k :: keys rest) :=
      hinj.mono (by intro a ha; simp at ha ⊢; rcases ha with h | h; exact Or.inl h; exact Or.inr (Or.inr h))
    simp only [relabel_cons, lookup_cons]
    by_cases hk : k' = k
    · simp [hk]
    · have : f k' ≠ f k := fun he => hk (hinj k' (by simp) k (by simp) he)
      simp [hk, this, ih hrest]

theorem incr_relabel (f : κ → κ') (k : κ) (d : Dict κ) (hinj : InjOnList f (k :: keys d)) :
    incr (f k) (relabel f d) = relabel f (incr k d) := by
  induction d with
  | nil => rfl
  | cons p rest ih =>
    obtain ⟨k', v⟩ := p
    have hrest : InjOnList f (k :: keys rest) :=
      hinj.mono (by intro a ha; simp at ha ⊢; rcases ha with h | h; exact Or.inl h; exact Or.inr (Or.inr h))
    simp only [relabel_cons, incr_cons]
    by_cases hk : k' = k
    · simp [hk]
    · have : f k' ≠ f k := fun he => hk (hinj k' (by simp) k (by simp) he)
      simp [hk, this, ih hrest]

/-- the two runs are in step: same state up to the relabelling of the dictionary keys -/
structure Rel (f : κ → κ') (a : PSt κ) (b : PSt κ') : Prop where
  dict : b.dict = relabel f a.dict
  size : b.size = a.size
  cur : b.cur = a.cur
  skipped : b.skipped = a.skipped
  seen : b.seen = a.seen

theorem pstep_rel (f : κ → κ') (h : List Nat → κ) (cap : Nat) (a : PSt κ) (b : PSt κ') (c : Nat)
    (hr : Rel f a b) (hinj : InjOnList f (h a.cur :: keys a.dict)) :
    Rel f (pstep h cap a c) (pstep (fun p => f (h p)) cap b c) := by
  obtain ⟨hd, hs, hc, hk, hn⟩ := hr
  unfold pstep
  simp only [hd, hs, hc, hk, hn, lookup_relabel f _ _ hinj]
  split
  · exact ⟨by simp only []; exact incr_relabel f _ _ hinj, rfl, rfl, rfl, rfl⟩
  · split
    · exact ⟨rfl, rfl, rfl, rfl, rfl⟩
    · exact ⟨by simp [relabel_append], rfl, rfl, rfl, rfl⟩

theorem pstep_keys_mono (h : List Nat → κ) (cap : Nat) (st : PSt κ) (c : Nat) :
    ∀ k ∈ keys st.dict, k ∈ keys (pstep h cap st c).dict := by
  intro k hk
  unfold pstep; simp only []
  split
  · simp only []; rw [keys_incr]; exact hk
  · split
    · exact hk
    · simp only [keys_append]; exact List.mem_append_left _ hk

theorem fold_keys_mono (h : List Nat → κ) (cap : Nat) (s : List Nat) :
    ∀ (st : PSt κ), ∀ k ∈ keys st.dict, k ∈ keys (s.foldl (pstep h cap) st).dict := by
  induction s with
  | nil => intro st k hk; exact hk
  | cons c rest ih => intro st k hk; exact ih _ k (pstep_keys_mono h cap st c k hk)

theorem pstep_seen (h : List Nat → κ) (cap : Nat) (st : PSt κ) (c : Nat) :
    (pstep h cap st c).seen = st.seen ++ [st.cur] := by
  unfold pstep; simp only []
  split
  · rfl
  · split <;> rfl

theorem fold_seen_mono (h : List Nat → κ) (cap : Nat) (s : List Nat) :
    ∀ (st : PSt κ), ∀ p ∈ st.seen, p ∈ (s.foldl (pstep h cap) st).seen := by
  induction s with
  | nil => intro st p hp; exact hp
  | cons c rest ih =>
    intro st p hp
    exact ih _ p (by rw [pstep_seen]; exact List.mem_append_left _ hp)

theorem fold_rel (f : κ → κ') (h : List Nat → κ) (cap : Nat) (s : List Nat) :
    ∀ (a : PSt κ) (b : PSt κ'), Rel f a b →
      InjOnList f (keys (s.foldl (pstep h cap) a).dict ++ (s.foldl (pstep h cap) a).seen.map h) →
      Rel f (s.foldl (pstep h cap) a) (s.foldl (pstep (fun p => f (h p)) cap) b) := by
  induction s with
  | nil => intro a b hr _; exact hr
  | cons c rest ih =>
    intro a b hr hinj
    rw [List.foldl_cons, List.foldl_cons]
    apply ih _ _ _ hinj
    apply pstep_rel f h cap a b c hr
    apply hinj.mono
    intro k hk
    rw [List.foldl_cons]
    simp only [List.mem_cons] at hk
    rcases hk with hk | hk
    · apply List.mem_append_right
      rw [hk]
      apply List.mem_map_of_mem
      apply fold_seen_mono
      rw [pstep_seen]; simp
    · apply List.mem_append_left
      apply fold_keys_mono
      exact pstep_keys_mono h cap a c k hk

/-- when no iteration is lost to the cap every examined phrase is (the preimage of) a dictionary key -/
theorem fold_seen_keys (h : List Nat → κ) (cap : Nat) (s : List Nat) :
    ∀ (st : PSt κ), (s.foldl (pstep h cap) st).skipped = st.skipped →
      (∀ p ∈ st.seen, h p ∈ keys st.dict) →
      ∀ p ∈ (s.foldl (pstep h cap) st).seen, h p ∈ keys (s.foldl (pstep h cap) st).dict := by
  induction s with
  | nil => intro st _ hst; exact hst
  | cons c rest ih =>
    intro st hsk hst
    rw [List.foldl_cons] at hsk ⊢
    have hmono : st.skipped ≤ (pstep h cap st c).skipped := by
      unfold pstep; simp only []
      split
      · simp
      · split <;> simp
    have hmono2 : ∀ (r : List Nat) (t : PSt κ), t.skipped ≤ (r.foldl (pstep h cap) t).skipped := by
      intro r
      induction r with
      | nil => intro t; exact Nat.le_refl _
      | cons c' r' ih' =>
        intro t
        refine Nat.le_trans ?_ (ih' _)
        unfold pstep; simp only []
        split
        · simp
        · split <;> simp
    have h1 := hmono2 rest (pstep h cap st c)
    have hstep : (pstep h cap st c).skipped = st.skipped := by omega
    apply ih _ (by omega)
    intro p hp
    rw [pstep_seen] at hp
    simp only [List.mem_append, List.mem_singleton] at hp
    rcases hp with hp | hp
    · exact pstep_keys_mono h cap st c _ (hst p hp)
    · subst hp
      unfold pstep at hstep ⊢; simp only [] at hstep ⊢
      split
      · rename_i hf
        simp only []; rw [keys_incr]; exact (lookup_isSome_iff _ _).mp hf
      · rename_i hf
        split
        · rename_i hc; simp [hf, hc] at hstep
        · simp [keys_append]

/-! ### `counts_to_csr_data`: the row is `emit` through the (extended) column dictionary -/

theorem emit_nil (cols : Dict κ) : emit cols ([] : Dict κ) = [] := rfl

theorem emit_append (cols : Dict κ) (d e : Dict κ) : emit cols (d ++ e) = emit cols d ++ emit cols e := by
  simp [emit, List.filterMap_append]

/-- every key of `d` has a column -/
def Covered (cols d : Dict κ) : Prop := ∀ kv ∈ d, (lookup kv.1 cols).isSome

theorem emit_ext (cols ext d : Dict κ) (hc : Covered cols d) : emit (cols ++ ext) d = emit cols d := by
  induction d with
  | nil => rfl
  | cons kv rest ih =>
    have h1 := hc kv (by simp)
    have h2 : Covered cols rest := fun x hx => hc x (by simp [hx])
    simp only [emit, List.filterMap_cons] at ih ⊢
    rw [lookup_append_of_isSome _ _ _ h1, ih h2]

theorem Covered.ext {cols d : Dict κ} (ext : Dict κ) (hc : Covered cols d) : Covered (cols ++ ext) d := by
  intro kv hkv
  rw [lookup_append_of_isSome _ _ _ (hc kv hkv)]; exact hc kv hkv

theorem emit_length_of_covered (cols d : Dict κ) (hc : Covered cols d) : (emit cols d).length = d.length := by
  induction d with
  | nil => rfl
  | cons kv rest ih =>
    have h1 := hc kv (by simp)
    have h2 : Covered cols rest := fun x hx => hc x (by simp [hx])
    obtain ⟨c, hc'⟩ := Option.isSome_iff_exists.mp h1
    simp only [emit, List.filterMap_cons, hc', Option.map_some, List.length_cons] at ih ⊢
    rw [ih h2]

/-- the column dictionary is well formed: the value of the `i`-th entry is `i` -/
def ColsOK (cols : Dict κ) : Prop := cols.map (·.2) = List.range cols.length

theorem csr_fold (counts : Dict κ) :
    ∀ st : Csr κ, st.n = st.cols.length → ColsOK st.cols →
      ∃ ext, (counts.foldl csrStep st).cols = st.cols ++ ext ∧
        (counts.foldl csrStep st).n = (counts.foldl csrStep st).cols.length ∧
        ColsOK (counts.foldl csrStep st).cols ∧
        Covered (counts.foldl csrStep st).cols counts ∧
        (counts.foldl csrStep st).row = st.row ++ emit (counts.foldl csrStep st).cols counts := by
  induction counts with
  | nil => intro st hn hok; exact ⟨[], by simp, hn, hok, by intro kv h; simp at h, by simp [emit_nil]⟩
  | cons kv rest ih =>
    intro st hn hok
    rw [List.foldl_cons]
    -- what the step does, as: new columns `st.cols ++ e1`, column `c` for `kv`
    have hstep : ∃ e1 c, (csrStep st kv).cols = st.cols ++ e1 ∧ (csrStep st kv).n = (csrStep st kv).cols.length ∧
        ColsOK (csrStep st kv).cols ∧ (csrStep st kv).row = st.row ++ [(c, kv.2)] ∧
        lookup kv.1 (csrStep st kv).cols = some c := by
      cases hl : lookup kv.1 st.cols with
      | some c =>
        refine ⟨[], c, ?_, ?_, ?_, ?_, ?_⟩ <;> (unfold csrStep; simp [hl, hn, hok])
      | none =>
        have hok' : ColsOK (st.cols ++ [(kv.1, st.cols.length)]) := by
          unfold ColsOK at hok ⊢
          simp [List.range_succ, hok]
        have hfound : lookup kv.1 (st.cols ++ [(kv.1, st.cols.length)]) = some st.cols.length := by
          rw [lookup_append_of_none _ _ _ hl]; simp
        refine ⟨[(kv.1, st.n)], st.n, ?_, ?_, ?_, ?_, ?_⟩ <;> (unfold csrStep; simp [hl, hn, hok', hfound])
    obtain ⟨e1, c, hc1, hc2, hc3, hc4, hc5⟩ := hstep
    obtain ⟨ext, h1, h2, h3, h4, h5⟩ := ih (csrStep st kv) hc2 hc3
    have hlk : lookup kv.1 (List.foldl csrStep (csrStep st kv) rest).cols = some c := by
      rw [h1, lookup_append_of_isSome _ _ _ (by simp [hc5])]; exact hc5
    refine ⟨e1 ++ ext, by rw [h1, hc1]; simp, h2, h3, ?_, ?_⟩
    · intro x hx
      simp only [List.mem_cons] at hx
      rcases hx with hx | hx
      · subst hx; simp [hlk]
      · exact h4 x hx
    · rw [h5, hc4]
      have : emit (List.foldl csrStep (csrStep st kv) rest).cols (kv :: rest)
          = (c, kv.2) :: emit (List.foldl csrStep (csrStep st kv) rest).cols rest := by
        simp only [emit, List.filterMap_cons, hlk, Option.map_some]
      rw [this]; simp

theorem countsToCsr_spec (cols counts : Dict κ) (hok : ColsOK cols) :
    ∃ ext, (countsToCsr cols counts).cols = cols ++ ext ∧ ColsOK (countsToCsr cols counts).cols ∧
      Covered (countsToCsr cols counts).cols counts ∧
      (countsToCsr cols counts).row = emit (countsToCsr cols counts).cols counts := by
  obtain ⟨ext, h1, _, h3, h4, h5⟩ := csr_fold counts { cols := cols, n := cols.length, row := [] } rfl hok
  exact ⟨ext, h1, h3, h4, by simpa [countsToCsr] using h5⟩

/-! ### CSR assembly: row pointers are the offsets of the rows in the concatenated entries -/

section csr
variable {α : Type}

def offsets (off : Nat) : List (List α) → List Nat
  | [] => [off]
  | r :: rs => off :: offsets (off + r.length) rs

theorem offsets_head (off : Nat) (rs : List (List α)) : ∃ t, offsets off rs = off :: t := by
  cases rs with
  | nil => exact ⟨[], rfl⟩
  | cons r rs => exact ⟨_, rfl⟩

theorem offsets_snoc (off : Nat) (rs : List (List α)) (r : List α) :
    offsets off (rs ++ [r]) = offsets off rs ++ [off + rs.flatten.length + r.length] := by
  induction rs generalizing off with
  | nil => simp [offsets]
  | cons x xs ih => simp only [List.cons_append, offsets, ih, List.flatten_cons, List.length_append]; simp; omega

theorem offsets_getLast (off : Nat) (rs : List (List α)) :
    (offsets off rs).getLast? = some (off + rs.flatten.length) := by
  induction rs generalizing off with
  | nil => simp [offsets]
  | cons x xs ih =>
    obtain ⟨t, ht⟩ := offsets_head (off + x.length) xs
    have := ih (off + x.length)
    simp only [offsets, List.flatten_cons, List.length_append]
    rw [ht] at this ⊢
    rw [List.getLast?_cons_cons, this]; simp; omega

end csr

theorem rowsFrom_offsets (rs : List (List (Nat × Nat))) :
    ∀ (off : Nat) (pre post : List (Nat × Nat)), pre.length = off →
      rowsFrom (pre ++ rs.flatten ++ post) (offsets off rs) = rs := by
  induction rs with
  | nil => intro off pre post _; simp [offsets, rowsFrom]
  | cons r rs ih =>
    intro off pre post hpre
    obtain ⟨t, ht⟩ := offsets_head (off + r.length) rs
    have hrec := ih (off + r.length) (pre ++ r) post (by simp [hpre])
    simp only [offsets]
    rw [ht] at hrec ⊢
    simp only [rowsFrom]
    congr 1
    · have : off + r.length - off = r.length := by omega
      rw [this, ← hpre]
      simp [List.flatten_cons, List.append_assoc]
    · simpa [List.flatten_cons, List.append_assoc] using hrec

theorem csrRows_offsets (rs : List (List (Nat × Nat))) :
    csrRows (offsets 0 rs) rs.flatten = .ok rs := by
  unfold csrRows
  rw [offsets_getLast]
  have := rowsFrom_offsets rs 0 [] [] rfl
  simp at this
  simp [this]

/-- the rows `transform` produces with the fitted columns `cols` -/
def rowsSpec (h : List Nat → κ) (cap : Nat) (base cols : Dict κ) (X : List (List Nat)) :
    List (List (Nat × Nat)) :=
  X.map fun s => emit cols (encode h cap base s)

theorem transAsm_spec (h : List Nat → κ) (cap : Nat) (base cols : Dict κ) (todo : List (List Nat)) :
    ∀ (a : Asm κ) (done : List (List Nat)), a.cols = cols →
      a.indptr = offsets 0 (rowsSpec h cap base cols done) →
      a.entries = (rowsSpec h cap base cols done).flatten →
      (todo.foldl (transStep h cap base) a).cols = cols ∧
      (todo.foldl (transStep h cap base) a).indptr = offsets 0 (rowsSpec h cap base cols (done ++ todo)) ∧
      (todo.foldl (transStep h cap base) a).entries = (rowsSpec h cap base cols (done ++ todo)).flatten := by
  induction todo with
  | nil => intro a done hc hp he; simpa using ⟨hc, hp, he⟩
  | cons s rest ih =>
    intro a done hc hp he
    rw [List.foldl_cons]
    have := ih (transStep h cap base a s) (done ++ [s]) (by simp [transStep, hc])
      (by
        simp only [transStep, Asm.indptr] at hp ⊢
        rw [hp]
        simp only [rowsSpec, List.map_append, List.map_cons, List.map_nil]
        rw [offsets_snoc, he, hc]; simp [rowsSpec])
      (by simp [transStep, he, hc, rowsSpec])
    simpa using this

theorem transform_eq (h : List Nat → κ) (cap : Nat) (base cols : Dict κ) (X : List (List Nat)) :
    transform h cap base cols X = .ok (rowsSpec h cap base cols X) := by
  unfold transform transAsm
  obtain ⟨_, h2, h3⟩ := transAsm_spec h cap base cols X
    { cols := cols, ptrInit := [], ptrLast := 0, entries := [] } [] rfl
    (by simp [Asm.indptr, rowsSpec, offsets]) (by simp [rowsSpec])
  simp only [List.nil_append] at h2 h3
  simp only []
  rw [h2, h3]
  exact csrRows_offsets _

/-- invariant of the `fit_transform` loop after the strings `done` -/
structure FitInv (h : List Nat → κ) (cap : Nat) (base : Dict κ) (a : Asm κ) (done : List (List Nat)) : Prop where
  ok : ColsOK a.cols
  cov : ∀ s ∈ done, Covered a.cols (encode h cap base s)
  ptr : a.indptr = offsets 0 (rowsSpec h cap base a.cols done)
  ent : a.entries = (rowsSpec h cap base a.cols done).flatten
  last : a.ptrLast = a.entries.length

theorem rowsSpec_ext (h : List Nat → κ) (cap : Nat) (base cols ext : Dict κ) (done : List (List Nat))
    (hc : ∀ s ∈ done, Covered cols (encode h cap base s)) :
    rowsSpec h cap base (cols ++ ext) done = rowsSpec h cap base cols done := by
  unfold rowsSpec
  apply List.map_congr_left
  intro s hs
  exact emit_ext cols ext _ (hc s hs)

theorem fitStep_inv (h : List Nat → κ) (cap : Nat) (base : Dict κ) (a : Asm κ) (done : List (List Nat))
    (s : List Nat) (inv : FitInv h cap base a done) :
    FitInv h cap base (fitStep h cap base a s) (done ++ [s]) := by
  obtain ⟨ext, h1, h2, h3, h4⟩ := countsToCsr_spec a.cols (encode h cap base s) inv.ok
  have hrows : rowsSpec h cap base (countsToCsr a.cols (encode h cap base s)).cols done
      = rowsSpec h cap base a.cols done := by rw [h1]; exact rowsSpec_ext h cap base a.cols ext done inv.cov
  have hlen := emit_length_of_covered _ _ h3
  refine ⟨h2, ?_, ?_, ?_, ?_⟩
  · intro t ht
    simp only [List.mem_append, List.mem_singleton] at ht
    rcases ht with ht | ht
    · simp only [fitStep]; rw [h1]; exact (inv.cov t ht).ext ext
    · subst ht; exact h3
  · have hp := inv.ptr
    simp only [fitStep, Asm.indptr] at hp ⊢
    rw [hp]
    simp only [rowsSpec, List.map_append, List.map_cons, List.map_nil] at hrows ⊢
    rw [offsets_snoc, hrows]
    congr 2
    rw [inv.last, inv.ent, hlen]; simp [rowsSpec]
  · simp only [fitStep]
    rw [inv.ent, h4]
    simp only [rowsSpec, List.map_append, List.map_cons, List.map_nil, List.flatten_append] at hrows ⊢
    rw [hrows]; simp
  · simp only [fitStep, List.length_append]
    rw [inv.last, h4, hlen]

theorem fitAsm_inv (h : List Nat → κ) (cap : Nat) (base : Dict κ) (todo : List (List Nat)) :
    ∀ (a : Asm κ) (done : List (List Nat)), FitInv h cap base a done →
      FitInv h cap base (todo.foldl (fitStep h cap base) a) (done ++ todo) := by
  induction todo with
  | nil => intro a done inv; simpa using inv
  | cons s rest ih =>
    intro a done inv
    rw [List.foldl_cons]
    have := ih _ _ (fitStep_inv h cap base a done s inv)
    simpa using this

theorem fitAsm_spec (h : List Nat → κ) (cap : Nat) (base : Dict κ) (X : List (List Nat)) :
    FitInv h cap base (fitAsm h cap base X) X := by
  have := fitAsm_inv h cap base X { cols := [], ptrInit := [], ptrLast := 0, entries := [] } []
    ⟨by simp [ColsOK], by intro s hs; simp at hs, by simp [Asm.indptr, rowsSpec, offsets], by simp [rowsSpec], rfl⟩
  simpa [fitAsm] using this

theorem fitTransform_eq (h : List Nat → κ) (cap : Nat) (base : Dict κ) (X : List (List Nat)) :
    fitTransform h cap base X
      = .ok (rowsSpec h cap base (fitAsm h cap base X).cols X, (fitAsm h cap base X).cols) := by
  have inv := fitAsm_spec h cap base X
  unfold fitTransform
  simp only []
  rw [inv.ptr, inv.ent, csrRows_offsets]
  rfl

/-- in a well-formed column dictionary the column number of a key is its position -/
theorem lookup_colsOK (cols : Dict κ) (hok : ColsOK cols) (k : κ) (c : Nat) (hl : lookup k cols = some c) :
    cols[c]? = some (k, c) := by
  -- generalise the offset so that the induction goes through
  suffices H : ∀ (cols : Dict κ) (off : Nat), cols.map (·.2) = (List.range cols.length).map (· + off) →
      lookup k cols = some c → off ≤ c ∧ cols[c - off]? = some (k, c) by
    have := H cols 0 (by simpa [ColsOK] using hok) hl
    simpa using this.2
  intro cols
  induction cols with
  | nil => intro off _ hl; simp at hl
  | cons p rest ih =>
    intro off hmap hl
    obtain ⟨k', v⟩ := p
    simp only [List.map_cons, List.length_cons, List.range_succ_eq_map, List.map_map] at hmap
    have hv : v = off := by
      have := congrArg List.head? hmap; simpa using this
    have htail : rest.map (·.2) = (List.range rest.length).map (· + (off + 1)) := by
      have := congrArg List.tail hmap
      simp only [List.tail_cons] at this
      rw [this]
      apply List.map_congr_left
      intro x _; simp; omega
    rw [lookup_cons] at hl
    by_cases hk : k' = k
    · simp only [hk, if_true, Option.some.injEq] at hl
      subst hl; subst hk
      exact ⟨by omega, by simp [hv]⟩
    · simp only [hk, if_false] at hl
      obtain ⟨h1, h2⟩ := ih (off + 1) htail hl
      refine ⟨by omega, ?_⟩
      have : c - off = (c - (off + 1)) + 1 := by omega
      rw [this, List.getElem?_cons_succ]; exact h2

/-! ### which keys can become columns -/

theorem csr_fold_keys (counts : Dict κ) :
    ∀ st : Csr κ, (keys st.cols).Nodup →
      (keys (counts.foldl csrStep st).cols).Nodup ∧
      ∀ k ∈ keys (counts.foldl csrStep st).cols, k ∈ keys st.cols ∨ k ∈ keys counts := by
  induction counts with
  | nil => intro st hnd; exact ⟨hnd, fun k hk => Or.inl hk⟩
  | cons kv rest ih =>
    intro st hnd
    rw [List.foldl_cons]
    have hstep : (keys (csrStep st kv).cols).Nodup ∧
        ∀ k ∈ keys (csrStep st kv).cols, k ∈ keys st.cols ∨ k = kv.1 := by
      cases hl : lookup kv.1 st.cols with
      | some c =>
        have : (csrStep st kv).cols = st.cols := by unfold csrStep; simp [hl]
        rw [this]; exact ⟨hnd, fun k hk => Or.inl hk⟩
      | none =>
        have : (csrStep st kv).cols = st.cols ++ [(kv.1, st.n)] := by unfold csrStep; simp [hl]
        rw [this, keys_append]
        have hnot : kv.1 ∉ keys st.cols := by
          intro hmem
          have := (lookup_isSome_iff kv.1 st.cols).mpr hmem
          simp [hl] at this
        refine ⟨?_, ?_⟩
        · rw [List.nodup_append]
          refine ⟨hnd, by simp, ?_⟩
          intro a ha b hb
          simp at hb; subst hb
          intro he; subst he; exact hnot ha
        · intro k hk
          simp only [List.mem_append] at hk
          rcases hk with hk | hk
          · exact Or.inl hk
          · simp at hk; exact Or.inr hk
    obtain ⟨h1, h2⟩ := ih (csrStep st kv) hstep.1
    refine ⟨h1, ?_⟩
    intro k hk
    rcases h2 k hk with h | h
    · rcases hstep.2 k h with h' | h'
      · exact Or.inl h'
      · right; simp [h']
    · right; simp only [keys_cons, List.mem_cons]; exact Or.inr h

theorem fitAsm_keys (h : List Nat → κ) (cap : Nat) (base : Dict κ) (X : List (List Nat)) :
    (keys (fitAsm h cap base X).cols).Nodup ∧
    ∀ k ∈ keys (fitAsm h cap base X).cols, ∃ s ∈ X, k ∈ keys (encode h cap base s) := by
  unfold fitAsm
  suffices H : ∀ (todo : List (List Nat)) (a : Asm κ), (keys a.cols).Nodup →
      (keys (todo.foldl (fitStep h cap base) a).cols).Nodup ∧
      ∀ k ∈ keys (todo.foldl (fitStep h cap base) a).cols,
        k ∈ keys a.cols ∨ ∃ s ∈ todo, k ∈ keys (encode h cap base s) by
    obtain ⟨h1, h2⟩ := H X { cols := [], ptrInit := [], ptrLast := 0, entries := [] } (by simp)
    refine ⟨h1, fun k hk => ?_⟩
    rcases h2 k hk with h | h
    · simp at h
    · exact h
  intro todo
  induction todo with
  | nil => intro a hnd; exact ⟨hnd, fun k hk => Or.inl hk⟩
  | cons s rest ih =>
    intro a hnd
    rw [List.foldl_cons]
    obtain ⟨g1, g2⟩ := csr_fold_keys (encode h cap base s) { cols := a.cols, n := a.cols.length, row := [] } hnd
    have hcols : (fitStep h cap base a s).cols = (countsToCsr a.cols (encode h cap base s)).cols := rfl
    obtain ⟨h1, h2⟩ := ih (fitStep h cap base a s) (by rw [hcols]; exact g1)
    refine ⟨h1, fun k hk => ?_⟩
    rcases h2 k hk with h' | ⟨t, ht, hk'⟩
    · rw [hcols] at h'
      rcases g2 k h' with h'' | h''
      · exact Or.inl h''
      · exact Or.inr ⟨s, by simp, h''⟩
    · exact Or.inr ⟨t, by simp [ht], hk'⟩

/-- every dictionary key is a base key or the hash of an examined phrase -/
theorem fold_keys_origin (h : List Nat → κ) (cap : Nat) (s : List Nat) (P : κ → Prop) (hP : ∀ p, P (h p)) :
    ∀ st : PSt κ, (∀ k ∈ keys st.dict, P k) → ∀ k ∈ keys (s.foldl (pstep h cap) st).dict, P k := by
  induction s with
  | nil => intro st hst; exact hst
  | cons c rest ih =>
    intro st hst
    rw [List.foldl_cons]
    apply ih
    intro k hk
    unfold pstep at hk; simp only [] at hk
    split at hk
    · simp only [] at hk; rw [keys_incr] at hk; exact hst k hk
    · split at hk
      · exact hst k hk
      · simp only [keys_append, List.mem_append] at hk
        rcases hk with hk | hk
        · exact hst k hk
        · simp at hk; rw [hk]; exact hP _

/-- pigeonhole: distinct naturals below `n` are at most `n` -/
theorem nodup_lt_length_le (l : List Nat) (n : Nat) (hnd : l.Nodup) (hlt : ∀ x ∈ l, x < n) : l.length ≤ n := by
  have hsub : l ⊆ List.range n := fun x hx => List.mem_range.mpr (hlt x hx)
  have := (List.subperm_of_subset hnd hsub).length_le
  simpa using this

/-! ### murmurhash produces 32-bit values -/

theorem and_M32_lt (x : Nat) : x &&& M32 < 2 ^ 32 := by
  have : x &&& M32 ≤ M32 := Nat.and_le_right
  unfold M32 at *
  omega

theorem fmix_lt (h len : Nat) : fmix h len < 2 ^ 32 := by
  unfold fmix
  simp only []
  apply Nat.xor_lt_two_pow
  · exact and_M32_lt _
  · exact Nat.lt_of_le_of_lt (Nat.shiftRight_le _ _) (and_M32_lt _)

end VecModel.LZ
