import VecModel.Lemmas.EMLink
/-
  The sum of per-chunk posteriors equals the posterior of the concatenated corpus
  (base_cooccurrence_vectorizer.py:560-578, `sum(new_data_per_chunk)`): helper lemmas.
-/
namespace VecModel.EM

theorem modify_zipWith_left {α β γ : Type} (f : α → β → γ) (g : γ → γ) (g' : α → α)
    (hg : ∀ a b, g (f a b) = f (g' a) b) :
    ∀ (A : List α) (B : List β) (i : Nat),
      (List.zipWith f A B).modify i g = List.zipWith f (A.modify i g') B := by
  intro A
  induction A with
  | nil => intro B i; simp
  | cons a A ih =>
    intro B i
    cases B with
    | nil => simp
    | cons b B =>
      cases i with
      | zero => simp [hg]
      | succ i => simp [ih B i]

theorem mStep_zipWith_add : ∀ (lk : List (Nat × Rat)) (a b : List Rat),
    mStep lk (List.zipWith (· + ·) a b) = List.zipWith (· + ·) (mStep lk a) b := by
  intro lk
  induction lk with
  | nil => intro a b; rfl
  | cons x xs ih =>
    intro a b
    unfold mStep
    split
    · rw [modify_zipWith_left (· + ·) (· + x.2) (· + x.2) (by intro u v; ring) a b x.1]
      exact ih _ b
    · exact ih a b

theorem emUpdate_addPost (n : Nat) (M : Mat) (A B : Post) (o : Occ) :
    emUpdate n M (addPost A B) o = addPost (emUpdate n M A o) B := by
  unfold emUpdate
  cases M[o.target]? with
  | none => rfl
  | some row =>
    simp only
    unfold addPost
    exact modify_zipWith_left _ _ _ (by intro a b; unfold rowUpdate; exact mStep_zipWith_add _ a b) A B _

theorem foldl_emUpdate_addPost (n : Nat) (M : Mat) :
    ∀ (occs : List Occ) (A B : Post),
      occs.foldl (emUpdate n M) (addPost A B) = addPost (occs.foldl (emUpdate n M) A) B := by
  intro occs
  induction occs with
  | nil => intro A B; rfl
  | cons o os ih =>
    intro A B
    simp only [List.foldl_cons]
    rw [emUpdate_addPost, ih]

theorem zipWith_add_comm : ∀ (a b : List Rat),
    List.zipWith (· + ·) a b = List.zipWith (· + ·) b a := by
  intro a
  induction a with
  | nil => intro b; cases b <;> rfl
  | cons x a ih =>
    intro b
    cases b with
    | nil => rfl
    | cons y b => simp only [List.zipWith_cons_cons, ih b, add_comm x y]

theorem addPost_comm : ∀ (A B : Post), addPost A B = addPost B A := by
  intro A
  induction A with
  | nil => intro B; cases B <;> rfl
  | cons a A ih =>
    intro B
    cases B with
    | nil => rfl
    | cons b B =>
      unfold addPost at *
      simp only [List.zipWith_cons_cons, ih B, zipWith_add_comm a b]

theorem zipWith_zero_add : ∀ (row : Row) (a : List Rat), a.length = row.length →
    List.zipWith (· + ·) (row.map fun _ => (0 : Rat)) a = a := by
  intro row
  induction row with
  | nil => intro a h; cases a with | nil => rfl | cons _ _ => simp at h
  | cons cv row ih =>
    intro a h
    cases a with
    | nil => simp at h
    | cons x a =>
      simp only [List.map_cons, List.zipWith_cons_cons, zero_add, ih a (by simpa using h)]

theorem addPost_zeros : ∀ (M : Mat) (A : Post), Shape A M → addPost (zerosLike M) A = A := by
  intro M
  induction M with
  | nil =>
    intro A h
    cases A with
    | nil => rfl
    | cons a A => simp [Shape] at h
  | cons row M ih =>
    intro A h
    cases A with
    | nil => simp [Shape] at h
    | cons a A =>
      unfold Shape at h
      simp only [List.map_cons, List.cons.injEq] at h
      unfold addPost zerosLike at *
      simp only [List.map_cons, List.zipWith_cons_cons, zipWith_zero_add row a h.1]
      rw [ih A h.2]

theorem emPosterior_append (n : Nat) (M : Mat) (a b : List Occ) :
    emPosterior n M (a ++ b) = addPost (emPosterior n M a) (emPosterior n M b) := by
  unfold emPosterior
  rw [List.foldl_append]
  have hsh : Shape (a.foldl (emUpdate n M) (zerosLike M)) M := shape_emPosterior n M a
  conv_lhs => rw [← addPost_zeros M _ hsh]
  rw [foldl_emUpdate_addPost, addPost_comm]

theorem chunkPosterior_eq (n : Nat) (M : Mat) (chunks : List (List Occ)) :
    chunkPosterior n M chunks = emPosterior n M chunks.flatten := by
  unfold chunkPosterior
  suffices H : ∀ (chunks : List (List Occ)) (pre : List Occ),
      chunks.foldl (fun acc ch => addPost acc (emPosterior n M ch)) (emPosterior n M pre)
        = emPosterior n M (pre ++ chunks.flatten) by
    have := H chunks []
    simpa [emPosterior] using this
  intro chunks
  induction chunks with
  | nil => intro pre; simp
  | cons ch rest ih =>
    intro pre
    simp only [List.foldl_cons, List.flatten_cons]
    rw [← emPosterior_append, ih, List.append_assoc]

end VecModel.EM
