import Driver.Util
import VecModel.Model.BPE
open Lean VecModel
namespace Driver.BPE

def handle (op : String) (j : Json) : Option (R Json) :=
  match op with
  | "bpe.contract" => some do
    let a ← getInts j "a"
    let p ← getInts j "p"
    let c ← getInt j "c"
    match p with
    | [x, y] =>
      pure <| Json.mkObj [
        ("idx", exceptJson ints (BPE.contractPairIdx a (x, y) c)),
        ("fun", ints (BPE.contract (x, y) c a))]
    | _ => throw "p: expected a pair"
  | "bpe.encode" => some do
    let cl ← getPairs j "cl"
    let mcc ← getInt j "mcc"
    let X ← getIntss j "X"
    let T := BPE.tokensOf cl mcc
    let encs := X.map (BPE.encode cl mcc)
    let idx := X.map (fun s => exceptJson ints (BPE.encodeIdx cl mcc s))
    let dec := match T with
      | some T => encs.map (fun e => optJson ints (BPE.decode T mcc e))
      | none => encs.map (fun _ => Json.null)
    pure <| Json.mkObj [
      ("wf", toJson (BPE.WF cl mcc)),
      ("tokens", optJson intss T),
      ("enc", intss encs),
      ("idx", Json.arr idx.toArray),
      ("dec", Json.arr dec.toArray),
      ("clipped", intss (X.map (·.map (BPE.clip mcc))))]
  | _ => none

end Driver.BPE
