import Driver.Util
import VecModel.Model.Heap
open Lean VecModel
namespace Driver.HeapD

def dictJson : Option Heap.Obj → Json
  | some (.dict kv) => Json.arr (kv.map fun p => Json.arr #[Json.str p.1, toJson p.2]).toArray
  | _ => Json.null

def handle (op : String) (j : Json) : Option (R Json) :=
  match op with
  | "heap.mask" => some do
    let a ← j.getObjValAs? (Array (Array Json)) "dict"
    let kv ← a.toList.mapM fun p =>
      match p.toList with
      | [k, v] => do
        let k ← k.getStr?
        let v ← v.getInt?
        pure (k, v)
      | _ => throw "dict: expected [key, value]"
    let mask ← getStr j "mask"
    let s0 := Heap.callerState [.dict kv] 0
    let fixed := Heap.run s0 (Heap.maskProgFixed mask)
    let old := Heap.run s0 (Heap.maskProgOld mask)
    pure <| Json.mkObj [
      ("dict_after_fixed", dictJson (fixed.heap.get 0)),
      ("dict_after_old", dictJson (old.heap.get 0)),
      ("disciplined_fixed", toJson (Heap.disciplined [0] [] (Heap.maskProgFixed mask)))]
  | "heap.fs" => some do
    let d ← getStr j "d"
    let n ← getNat j "nBlocks"
    let fault : Option Nat := match j.getObjValAs? Nat "fault" with
      | .ok k => some k
      | .error _ => none
    let fixed := Heap.runTryFinally (Heap.blockedBody d n) (Heap.blockedCleanup d) fault ⟨[]⟩
    let old := Heap.blockedOld d n fault ⟨[]⟩
    pure <| Json.mkObj [
      ("paths_fixed", toJson fixed.paths.toArray),
      ("paths_old", toJson old.paths.toArray)]
  | _ => none

end Driver.HeapD
