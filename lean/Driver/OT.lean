import Driver.Util
import VecModel.Model.OT
open Lean VecModel
namespace Driver.OT

def optRatJson : Option Rat → Json
  | some q => ratJson q
  | none => Json.null

/-- distance table for `costOriented`: points are (isReference, index) pairs -/
def tableDist (dxr drx : List (List Rat)) (a b : Bool × Nat) : Option Rat :=
  match a, b with
  | (false, i), (true, j) => (dxr[i]?).bind (·[j]?)
  | (true, j), (false, i) => (drx[j]?).bind (·[i]?)
  | _, _ => none

def handle (op : String) (j : Json) : Option (R Json) :=
  match op with
  | "ot.plan" => some do
    let n ← getNat j "n"
    let m ← getNat j "m"
    let flow ← getRats j "flow"
    let arcs := (List.range n).map fun i => (List.range m).map fun k => OT.arcOf n m i k
    pure <| Json.mkObj [
      ("plan", exceptJson ratss (OT.planOf n m flow)),
      ("arcs", intss arcs)]
  | "ot.cost" => some do
    let n ← getNat j "n"
    let m ← getNat j "m"
    let C ← getRatss j "C"
    pure <| Json.mkObj [("cost", exceptJson rats (OT.costArray n m C))]
  | "ot.check" => some do
    let p ← getRats j "p"
    let q ← getRats j "q"
    let C ← getRatss j "C"
    let P ← getRatss j "P"
    let u ← getRats j "u"
    let v ← getRats j "v"
    let eps ← getRat j "eps"
    let delta ← getRat j "delta"
    let gap ← getRat j "gap"
    pure <| Json.mkObj [
      ("accept", toJson (OT.check p q C P u v eps delta gap)),
      ("shape", toJson (OT.shapeOK p.length q.length C && OT.shapeOK p.length q.length P
                        && u.length == p.length && v.length == q.length)),
      ("nonneg", toJson (OT.allGE (-eps) P)),
      ("rows", toJson (OT.within eps (OT.rowSums P) p)),
      ("cols", toJson (OT.within eps (OT.colSums q.length P) q)),
      ("dual", toJson (OT.dualFeas delta u v C)),
      ("cost", ratJson (OT.inner P C)),
      ("dualValue", ratJson (OT.dualValue p q u v)),
      ("eta", ratJson (OT.eta p delta gap))]
  | "ot.orient" => some do
    let dxr ← getRatss j "dxr"
    let drx ← getRatss j "drx"
    let X := (List.range dxr.length).map fun i => (false, i)
    let Rr := (List.range drx.length).map fun i => (true, i)
    let r := OT.costOriented (tableDist dxr drx) X Rr
    pure <| Json.mkObj [("cost", match r with
      | some M => Json.arr (M.map fun row => Json.arr (row.map optRatJson).toArray).toArray
      | none => Json.null)]
  | "ot.lot" => some do
    let w ← getRats j "w"
    let X ← getRatss j "X"
    let Rm ← getRatss j "R"
    let q ← getRats j "q"
    let P ← getRatss j "P"
    let d ← getNat j "d"
    pure <| Json.mkObj [
      ("p", optJson rats (OT.normalise w)),
      ("images", optJson ratss (OT.images d P X q)),
      ("lot", optJson ratss (OT.lot OT.postPlain d P X Rm q))]
  | "ot.truncate" => some do
    let k ← getNat j "k"
    let order ← getNats j "order"
    let w ← getRats j "w"
    let idx ← getNats j "idx"
    pure <| Json.mkObj [
      ("w", exceptJson rats (OT.truncate k order w)),
      ("idx", exceptJson nats (OT.truncate k order idx))]
  | "ot.blocks" => some do
    let n ← getNat j "n"
    let b ← getNat j "b"
    if b = 0 then throw "b = 0 (ZeroDivisionError in the code)" else
    pure <| Json.mkObj [("blocks", toJson ((OT.blocks b (List.range n)).map List.toArray).toArray)]
  | "ot.subchunk" => some do
    let chunk ← getRatss j "chunk"
    let m ← getNat j "m"
    let mask := OT.colMask m chunk
    pure <| Json.mkObj [
      ("mask", toJson mask.toArray),
      ("rows", ratss (chunk.map (OT.selectCols mask)))]
  | "ot.csr" => some do
    let indptr ← getNats j "indptr"
    let indices ← getNats j "indices"
    let data ← getRats j "data"
    let n ← getNat j "n"
    pure <| Json.mkObj [("rows", Json.arr ((List.range n).map fun i =>
      exceptJson (fun r => Json.mkObj [("idx", nats r.1), ("w", rats r.2)]) (OT.csrRow indptr indices data i)).toArray)]
  | _ => none

end Driver.OT
